/-
  C07 / C01 / C06 bridge (DESIGN.md 4.1a): the PRIMITIVE PARSERS of go-pars v1.1.6 — `Spaces`, `Word`, `Byte`, `Bytes`,
  `String`, `End`, `EOL`, `calculateLineLength`, `Line`, `untilByte`, `untilFilter`, `convertInt`, `Int`, regenerated
  statement by statement on every run (`Gts/Gen/Pars.lean`, generator go2lean/gparsfn.go) over the regenerated state —
  are the model's `Pars.spaces`, `word`, `ModParse.byte`, `lit`, `ModParse.atEnd`, `eol`, `calcLine`, `line`,
  `untilFilter`, `int` (`Gts/Model/Pars.lean`), read through the abstraction `absState` of `Gts/Bridge/ParsState.lean`.

  `Agree pend val r m`: the generated run `r` from a Go state `g` and the model's run `m` from `absState pend g` end
  alike — success with related values and `absState` of the new Go state = the model's new state; an error on both
  sides, again with equal states (so frames that LEAK on an error path leak on both sides: `int_sim`,
  `int_leaks_frame` — F34's root cause —, and `Until` restores the entry state: `until_frame`); a Go panic exactly
  where the model panics (`Trail` behind a saved position).  Every theorem holds from EVERY state that meets the
  representation invariant `Inv`, under `FillOk` (the read loop of `Request`) and `EnvOk` (`ascii.IsDigit / IsSpace`,
  `strconv.Atoi` are the model's), with more loop fuel than bytes left.

  One lemma per loop SHAPE with its invariant — `scan_loop` (`for err == nil && pred(c)`: the position moves over accepted
  bytes only, `(c, err)` is what `Next` sees there; = `skipWhile pred`), `until_loop` (`for !stop(c)` with the `Pop` on
  the end of the input; = `indexWhere`), `calcLine_loop` (`i` bytes are behind the scan, `cr` ⇒ `1 ≤ i`; = `calcLine`) —,
  the generated loop bodies are shown to have the shape by `rfl`.  Known finding K7C (`pars.Line` behind CR CR LF) is
  reproduced: `line_sim` + `calcLine_crcrlf`, and on the generated code itself by the last examples.
-/
import Gts.Bridge.ParsState
namespace Gts.Bridge
open Gts.Gen.GoPars
open Gts.Pars (PS Bytes Err)

section Prim
variable {ρ ε : Type}

/-- the generated parser run `r` agrees with the model run `m`: success with the value `val` relates, the same state;
an error (the model's `fail`), the same state; a panic on both sides -/
def Agree {α : Type} (pend : ρ → Option ε → Bytes) (val : α → ResultV → Prop)
    (r : Option (State ρ ε × ResultV × Option ε)) (m : Except Err α × PS) : Prop :=
  match m with
  | (.ok a, s') => ∃ g' res, r = some (g', res, none) ∧ val a res ∧ Inv g' ∧ absState pend g' = s'
  | (.error .fail, s') => ∃ g' res e, r = some (g', res, some e) ∧ Inv g' ∧ absState pend g' = s'
  | (.error .panic, _) => r = none

/-- what `Next` answered belongs to the state at hand -/
def NextAt (pend : ρ → Option ε → Bytes) (g : State ρ ε) (c : UInt8) (err : Option ε) : Prop :=
  match (absState pend g).rest with
  | [] => err.isSome = true
  | b :: _ => err = none ∧ c = b ∧ Ready g 1

theorem parsNext_at (env : Env ρ ε) (pend : ρ → Option ε → Bytes) (hf : FillOk env pend) (g : State ρ ε) (h : Inv g) :
    ∃ g' c err, parsNext env g = some (g', c, err) ∧ Inv g' ∧ absState pend g' = absState pend g ∧ NextAt pend g' c err := by
  have hn := parsNext_spec env pend hf g h
  cases hr : (absState pend g).rest with
  | nil =>
    rw [hr] at hn
    obtain ⟨g', e, h1, h2, h3⟩ := hn
    exact ⟨g', 0, some e, h1, h2, h3, by simp [NextAt, h3, hr]⟩
  | cons b t =>
    rw [hr] at hn
    obtain ⟨g', h1, h2, h3, h4⟩ := hn
    exact ⟨g', b, none, h1, h2, h3, by simp [NextAt, h3, hr, h4]⟩

/-- the shape of the loops `for err == nil && pred(c) { state.Advance(); c, err = Next(state) }` -/
def scanBody (env : Env ρ ε) (pred : UInt8 → Bool) {R : Type} (s_ : State ρ ε × UInt8 × Option ε) :
    Option (Flow (State ρ ε × UInt8 × Option ε) R) :=
  if (s_.2.2.isNone = true) ∧ (pred s_.2.1 = true) then
    (stateAdvance s_.1).bind fun t =>
    (parsNext env t).bind fun u =>
    some (Flow.next (u.1, u.2.1, u.2.2))
  else some (Flow.done (s_.1, s_.2.1, s_.2.2))

/-- a loop of that shape ends (with more fuel than bytes left) where `skipWhile pred` ends: behind the longest prefix
`pred` accepts — invariant: the position moved over accepted bytes only, the saved positions are untouched, `(c, err)` is
what `Next` sees at the position -/
theorem scan_loop (env : Env ρ ε) (pend : ρ → Option ε → Bytes) (hf : FillOk env pend) (pred : UInt8 → Bool) {R : Type}
    (exit : State ρ ε × UInt8 × Option ε → Option R) (l : Bytes) :
    ∀ (g : State ρ ε) (c : UInt8) (err : Option ε) (fuel : Nat), Inv g → (absState pend g).rest = l →
      NextAt pend g c err → l.length < fuel →
      ∃ g' c' err', loop (scanBody env pred) exit fuel (g, c, err) = exit (g', c', err') ∧ Inv g' ∧
        absState pend g' = ⟨l.dropWhile pred, (absState pend g).stk⟩ ∧ NextAt pend g' c' err' := by
  induction l with
  | nil =>
    intro g c err fuel h hr hn hfu
    obtain ⟨f, rfl⟩ : ∃ f, fuel = f + 1 := ⟨fuel - 1, by omega⟩
    simp only [NextAt, hr] at hn
    refine ⟨g, c, err, ?_, h, ?_, by simp [NextAt, hr, hn]⟩
    · cases err with
      | none => simp at hn
      | some e => simp [loop, scanBody]
    · show absState pend g = ⟨[], _⟩
      rw [← hr]
  | cons b t ih =>
    intro g c err fuel h hr hn hfu
    obtain ⟨f, rfl⟩ : ∃ f, fuel = f + 1 := ⟨fuel - 1, by omega⟩
    simp only [NextAt, hr] at hn
    obtain ⟨rfl, rfl, hready⟩ := hn
    by_cases hp : pred c = true
    · obtain ⟨g1, ha, hinv1, habs1⟩ := stateAdvance_spec pend g h 1 hready
      obtain ⟨g2, c2, err2, hn2, hinv2, habs2, hat2⟩ := parsNext_at env pend hf g1 hinv1
      have hr2 : (absState pend g2).rest = t := by rw [habs2, habs1, hr]; simp
      obtain ⟨g', c', err', hl, hinv', habs', hat'⟩ := ih g2 c2 err2 f hinv2 hr2 hat2 (by simp at hfu; omega)
      refine ⟨g', c', err', ?_, hinv', ?_, hat'⟩
      · rw [← hl]
        simp [loop, scanBody, hp, ha, hn2]
      · rw [habs', habs2, habs1]
        simp [List.dropWhile, hp]
    · refine ⟨g, c, none, ?_, h, ?_, by simp [NextAt, hr, hready]⟩
      · simp [loop, scanBody, hp]
      · simp [List.dropWhile, hp, ← hr]

/-- THE ASSUMPTION about the library calls that are parameters of the generated code: `ascii.IsDigit`, `ascii.IsSpace`
are the model's byte classes, `strconv.Atoi` is the model's `atoi` (an error exactly where it answers `none`) -/
structure EnvOk (env : Env ρ ε) : Prop where
  isDigit : env.isDigit = Pars.isDigit
  isSpace : env.isSpace = Pars.isSpace
  atoi : ∀ p, match Pars.atoi p with
    | some n => env.atoi p = (n, none)
    | none => (env.atoi p).2.isSome = true

/-- the last step of `Spaces`, `Word`, `untilByte`, `untilFilter`: the token is the `Trail` -/
theorem trail_token (env : Env ρ ε) (pend : ρ → Option ε → Bytes) (hf : FillOk env pend) (g : State ρ ε) (h : Inv g) :
    Agree pend (fun p r => r = ResultV.token p)
      ((parsTrail env g).bind fun t => some (t.1, ResultV.token t.2.1, (none : Option ε)))
      (Pars.trail.run' (absState pend g)) := by
  have ht := trail_sim env pend hf g h
  generalize Pars.trail.run' (absState pend g) = m at ht
  obtain ⟨r, s'⟩ := m
  cases r with
  | ok p =>
    obtain ⟨g', e, h1, h2, h3, _⟩ := ht
    exact ⟨g', _, by simp [h1], rfl, h2, h3⟩
  | error e =>
    cases e with
    | fail => exact ht.elim
    | panic => simp [Agree, ht]

/-- `pars.Spaces` = `Pars.spaces`, for every state and with more fuel than bytes left: the loop is `skipWhile isSpace`,
the token the `Trail` — a panic exactly where the model's `trail` panics (never from a sorted state: C07) -/
theorem spaces_sim (env : Env ρ ε) (pend : ρ → Option ε → Bytes) (hf : FillOk env pend) (he : EnvOk env)
    (g : State ρ ε) (h : Inv g) (fuel : Nat) (hfu : (absState pend g).rest.length < fuel) (res : ResultV) :
    Agree pend (fun p r => r = ResultV.token p) (parsSpaces env fuel g res) (Pars.spaces.run' (absState pend g)) := by
  obtain ⟨g1, hp, hinv1, habs1, _⟩ := statePush_spec pend g h
  obtain ⟨g2, c2, err2, hn2, hinv2, habs2, hat2⟩ := parsNext_at env pend hf g1 hinv1
  have hr2 : (absState pend g2).rest = (absState pend g).rest := by rw [habs2, habs1]
  obtain ⟨g3, c3, err3, hl, hinv3, habs3, _⟩ :=
    scan_loop env pend hf env.isSpace (parsSpaces_exit1 env fuel res) _ g2 c2 err2 fuel hinv2 hr2 hat2 hfu
  have hbody : parsSpaces_body1 env fuel res = scanBody env env.isSpace := rfl
  have hrun : Pars.spaces.run' (absState pend g) = Pars.trail.run' (absState pend g3) := by
    unfold Pars.spaces
    rw [Pars.run_bind, Pars.run_push]; dsimp only
    rw [Pars.run_bind, Pars.run_skipWhile]; dsimp only
    rw [habs3, habs2, habs1, he.isSpace]
  rw [hrun]
  have := trail_token env pend hf g3 hinv3
  simpa [parsSpaces, hp, hn2, hbody, hl, parsSpaces_exit1] using this

/-- `pars.Word(filter)` = `Pars.word filter`: the loop is `skipWhile filter`, the token the `Trail`, an EMPTY token is an
error (with the frame already gone and nothing consumed) -/
theorem word_sim (env : Env ρ ε) (pend : ρ → Option ε → Bytes) (hf : FillOk env pend) (filter : UInt8 → Bool)
    (g : State ρ ε) (h : Inv g) (fuel : Nat) (hfu : (absState pend g).rest.length < fuel) (res : ResultV) :
    Agree pend (fun p r => r = ResultV.token p) (parsWord env fuel filter g res) ((Pars.word filter).run' (absState pend g)) := by
  obtain ⟨g1, hp, hinv1, habs1, _⟩ := statePush_spec pend g h
  obtain ⟨g2, c2, err2, hn2, hinv2, habs2, hat2⟩ := parsNext_at env pend hf g1 hinv1
  have hr2 : (absState pend g2).rest = (absState pend g).rest := by rw [habs2, habs1]
  obtain ⟨g3, c3, err3, hl, hinv3, habs3, _⟩ :=
    scan_loop env pend hf filter (parsWord_exit1 env fuel filter res) _ g2 c2 err2 fuel hinv2 hr2 hat2 hfu
  have hbody : parsWord_body1 env fuel filter res = scanBody env filter := rfl
  have hrun : (Pars.word filter).run' (absState pend g) =
      match Pars.trail.run' (absState pend g3) with
      | (.ok p, s') => if p.isEmpty then (.error .fail, s') else (.ok p, s')
      | (.error e, s') => (.error e, s') := by
    unfold Pars.word
    rw [Pars.run_bind, Pars.run_push]; dsimp only
    rw [Pars.run_bind, Pars.run_skipWhile]; dsimp only
    rw [Pars.run_bind, habs3, habs2, habs1]
    split
    · rename_i a s' hh
      rw [hh]; dsimp only
      split <;> rfl
    · rename_i e s' hh
      rw [hh]
  rw [hrun]
  have ht := trail_sim env pend hf g3 hinv3
  generalize Pars.trail.run' (absState pend g3) = m at ht
  obtain ⟨r, s'⟩ := m
  cases r with
  | ok p =>
    obtain ⟨g', e, h1, h2, h3, _⟩ := ht
    dsimp only
    by_cases hpe : p = []
    · subst hpe
      exact ⟨g', res, env.mkErr, by simp [parsWord, hp, hn2, hbody, hl, parsWord_exit1, h1], h2, h3⟩
    · have hne : p.isEmpty = false := by cases p <;> simp_all
      rw [hne]
      refine ⟨g', _, ?_, rfl, h2, h3⟩
      simp [parsWord, hp, hn2, hbody, hl, parsWord_exit1, h1, hpe]
  | error e =>
    cases e with
    | fail => exact ht.elim
    | panic => simp [Agree, parsWord, hp, hn2, hbody, hl, parsWord_exit1, ht]

/-- `pars.Byte(c)` = `ModParse.byte c`: the next byte must be `c`; nothing is pushed, nothing moves on a failure -/
theorem byte_sim (env : Env ρ ε) (pend : ρ → Option ε → Bytes) (hf : FillOk env pend) (c : UInt8)
    (g : State ρ ε) (h : Inv g) (res : ResultV) :
    Agree pend (fun _ r => r = ResultV.token [c]) (parsByte env c g res) ((ModParse.byte c).run' (absState pend g)) := by
  have hn := parsNext_spec env pend hf g h
  unfold ModParse.byte
  rw [Pars.run_bind, Pars.run_next]
  cases hr : (absState pend g).rest with
  | nil =>
    rw [hr] at hn
    obtain ⟨g', e, h1, h2, h3⟩ := hn
    exact ⟨g', res, env.mkErr, by simp [parsByte, h1], h2, by rw [h3]⟩
  | cons b t =>
    rw [hr] at hn
    obtain ⟨g', h1, h2, h3, h4⟩ := hn
    dsimp only
    by_cases hbc : b = c
    · subst hbc
      obtain ⟨g2, ha, hinv2, habs2⟩ := stateAdvance_spec pend g' h2 1 h4
      rw [if_neg (by simp), Pars.run_advance1]
      exact ⟨g2, _, by simp [parsByte, h1, ha], rfl, hinv2, by rw [habs2, h3, hr]⟩
    · rw [if_pos (by simpa using hbc), Pars.run_bind, Pars.run_fail]
      exact ⟨g', res, env.mkErr, by simp [parsByte, h1, hbc], h2, h3⟩

/-- `pars.Bytes(p)` = `Pars.lit p`: the next `len(p)` bytes must be `p`; nothing moves on a failure -/
theorem bytes_sim (env : Env ρ ε) (pend : ρ → Option ε → Bytes) (hf : FillOk env pend) (p : Bytes)
    (g : State ρ ε) (h : Inv g) (res : ResultV) :
    Agree pend (fun _ r => r = ResultV.token p) (parsBytes env p g res) ((Pars.lit p).run' (absState pend g)) := by
  obtain ⟨hinv, habs, _, _, hif⟩ := stateRequest_spec env pend hf g h p.length
  unfold Pars.lit
  rw [Pars.run_bind, Pars.run_getS]; dsimp only
  split at hif
  · rename_i hk
    have hb := stateBuffer_spec pend _ hinv p.length hif.2
    rw [habs] at hb
    by_cases heq : (absState pend g).rest.take p.length = p
    · obtain ⟨g2, ha, hinv2, habs2⟩ := stateAdvance_spec pend _ hinv p.length hif.2
      have hc : ((absState pend g).rest.take p.length == p && decide (p.length ≤ (absState pend g).rest.length)) = true := by
        simp [heq, hk]
      rw [if_pos hc, Pars.run_advanceN]
      exact ⟨g2, _, by simp [parsBytes, hif.1, hb, heq, ha], rfl, hinv2, by rw [habs2, habs]⟩
    · have hc : ¬ (((absState pend g).rest.take p.length == p && decide (p.length ≤ (absState pend g).rest.length)) = true) := by
        simp [heq]
      rw [if_neg hc]
      exact ⟨_, res, env.mkErr, by simp [parsBytes, hif.1, hb, heq], hinv, habs⟩
  · rename_i hk
    obtain ⟨e, hee⟩ := Option.isSome_iff_exists.mp hif.1
    have hc : ¬ (((absState pend g).rest.take p.length == p && decide (p.length ≤ (absState pend g).rest.length)) = true) := by
      simp [hk]
    rw [if_neg hc]
    exact ⟨_, res, env.mkErr, by simp [parsBytes, hee], hinv, habs⟩

/-- `pars.String(s)` = `Pars.lit` of its bytes -/
theorem string_sim (env : Env ρ ε) (pend : ρ → Option ε → Bytes) (hf : FillOk env pend) (p : Bytes)
    (g : State ρ ε) (h : Inv g) (res : ResultV) :
    Agree pend (fun _ r => r = ResultV.str p) (parsString env p g res) ((Pars.lit p).run' (absState pend g)) := by
  have hb := bytes_sim env pend hf p g h res
  generalize (Pars.lit p).run' (absState pend g) = m at hb
  obtain ⟨r, s'⟩ := m
  have hstr : ∀ x, parsBytes env p g res = x →
      parsString env p g res = x.map fun t => (t.1, (if t.2.2.isNone then ResultV.str p else t.2.1), t.2.2) := by
    intro x hx
    subst hx
    unfold parsString parsBytes
    dsimp only
    split
    · simp
    · cases stateBuffer (stateRequest env g (p.length : Int)).1 with
      | none => simp
      | some b =>
        simp only [Option.bind_some]
        split
        · simp
        · cases stateAdvance (stateRequest env g (p.length : Int)).1 <;> simp
  cases r with
  | ok a =>
    obtain ⟨g', res', h1, h2, h3, h4⟩ := hb
    exact ⟨g', _, by rw [hstr _ h1]; simp, rfl, h3, h4⟩
  | error e =>
    cases e with
    | fail =>
      obtain ⟨g', res', e', h1, h3, h4⟩ := hb
      exact ⟨g', res', e', by rw [hstr _ h1]; simp, h3, h4⟩
    | panic =>
      have : parsBytes env p g res = none := hb
      show parsString env p g res = none
      rw [hstr _ this]; rfl

/-- `pars.End` = `ModParse.atEnd`: succeeds iff no byte is left -/
theorem end_sim (env : Env ρ ε) (pend : ρ → Option ε → Bytes) (hf : FillOk env pend)
    (g : State ρ ε) (h : Inv g) (res : ResultV) :
    Agree pend (fun _ r => r = res) (some (parsEnd env g res)) (ModParse.atEnd.run' (absState pend g)) := by
  obtain ⟨hinv, habs, _, _, hif⟩ := stateRequest_spec env pend hf g h 1
  change Inv (stateRequest env g 1).1 at hinv
  change absState pend (stateRequest env g 1).1 = _ at habs
  unfold ModParse.atEnd
  rw [Pars.run_bind, Pars.run_getS]; dsimp only
  cases hr : (absState pend g).rest with
  | nil =>
    rw [hr] at hif
    simp only [List.length_nil, Nat.le_zero_eq, Nat.succ_ne_zero, if_false] at hif
    change (stateRequest env g 1).2.isSome = true ∧ _ at hif
    have : ¬ ((stateRequest env g 1).2.isNone = true) := by
      cases hh : (stateRequest env g 1).2 <;> simp_all
    exact ⟨_, res, by simp [parsEnd, this], rfl, hinv, habs⟩
  | cons b t =>
    rw [hr] at hif
    simp only [List.length_cons, Nat.le_add_left, if_true] at hif
    change (stateRequest env g 1).2 = none ∧ _ at hif
    exact ⟨_, res, env.mkErr, by simp [parsEnd, hif.1], hinv, habs⟩

/-- `pars.EOL` = `Pars.eol`: nothing at the end of the input, LF, CR LF, a lone CR (the CR is consumed BEFORE the byte behind
it is looked at); any other byte is an error with nothing consumed; never a panic -/
theorem eol_sim (env : Env ρ ε) (pend : ρ → Option ε → Bytes) (hf : FillOk env pend)
    (g : State ρ ε) (h : Inv g) (res : ResultV) :
    Agree pend (fun p r => r = ResultV.token p) (parsEOL env g res) (Pars.eol.run' (absState pend g)) := by
  have hn := parsNext_spec env pend hf g h
  unfold Pars.eol
  rw [Pars.run_bind, Pars.run_getS]; dsimp only
  split
  · -- end of the input
    rename_i hr
    rw [hr] at hn
    obtain ⟨g', e, h1, h2, h3⟩ := hn
    exact ⟨g', _, by simp [parsEOL, h1], rfl, h2, h3⟩
  · -- LF
    rename_i t hr
    rw [hr] at hn
    obtain ⟨g', h1, h2, h3, h4⟩ := hn
    obtain ⟨g2, ha, hinv2, habs2⟩ := stateAdvance_spec pend g' h2 1 h4
    rw [Pars.run_bind, Pars.run_advance1]
    exact ⟨g2, _, by simp [parsEOL, h1, ha], rfl, hinv2, by rw [habs2, h3]⟩
  · -- CR LF
    rename_i t hr
    rw [hr] at hn
    obtain ⟨g', h1, h2, h3, h4⟩ := hn
    obtain ⟨g2, ha, hinv2, habs2⟩ := stateAdvance_spec pend g' h2 1 h4
    have hn2 := parsNext_spec env pend hf g2 hinv2
    have hr2 : (absState pend g2).rest = 10 :: t := by rw [habs2, h3, hr]; rfl
    rw [hr2] at hn2
    obtain ⟨g3, h1', h2', h3', h4'⟩ := hn2
    obtain ⟨g4, ha', hinv4, habs4⟩ := stateAdvance_spec pend g3 h2' 1 h4'
    rw [Pars.run_bind, Pars.run_advanceN]
    refine ⟨g4, _, by simp [parsEOL, h1, ha, h1', ha'], rfl, hinv4, ?_⟩
    rw [habs4, h3', habs2, h3]; simp
  · -- a lone CR
    rename_i t hnot hr
    rw [hr] at hn
    obtain ⟨g', h1, h2, h3, h4⟩ := hn
    obtain ⟨g2, ha, hinv2, habs2⟩ := stateAdvance_spec pend g' h2 1 h4
    obtain ⟨g3, c3, err3, h1', h2', h3', hat⟩ := parsNext_at env pend hf g2 hinv2
    have hr2 : (absState pend g3).rest = t := by rw [h3', habs2, h3, hr]; rfl
    have hc : ¬ ((err3.isNone = true) ∧ (c3 = (10 : UInt8))) := by
      intro ⟨he, hc⟩
      simp only [NextAt, hr2] at hat
      cases t with
      | nil => cases err3 <;> simp_all
      | cons b u =>
        obtain ⟨_, hcb, _⟩ := hat
        exact hnot u (by rw [← hcb, hc])
    rw [Pars.run_bind, Pars.run_advance1]
    have hc2 : err3 = none → c3 = 10 → False := fun a b => hc ⟨by simp [a], b⟩
    refine ⟨g3, _, ?_, rfl, h2', ?_⟩
    · simp only [parsEOL, h1, ha, h1', Option.bind_some]
      simp
      intro a b
      exact (hc2 a b).elim
    · rw [h3', habs2, h3]
  · -- any other byte
    rename_i h0 h10 h1310 h13
    cases hr : (absState pend g).rest with
    | nil => exact absurd hr h0
    | cons b t =>
      rw [hr] at hn
      obtain ⟨g', h1, h2, h3, h4⟩ := hn
      have hb10 : b ≠ 10 := fun hb => h10 t (by rw [hr, hb])
      have hb13 : b ≠ 13 := fun hb => h13 t (by rw [hr, hb])
      exact ⟨g', res, env.mkErr, by simp [parsEOL, h1, hb10, hb13], h2, h3⟩

/-- the loop of `calculateLineLength` from offset `i` with `n` terminator bytes counted and `cr` = a carriage return was
seen: it answers what `Pars.calcLine` answers on the bytes from `i` on and changes nothing the model sees.  Invariant:
`i` bytes of the line are behind the scan, `cr` ⇒ `1 ≤ i` (so that Go's `i - 1` is the model's truncated `i - 1`) -/
theorem calcLine_loop (env : Env ρ ε) (pend : ρ → Option ε → Bytes) (hf : FillOk env pend) (fuel0 : Nat) (rest : Bytes) :
    ∀ (k : Nat) (g : State ρ ε) (i n : Nat) (cr : Bool) (fuel : Nat), Inv g → (absState pend g).rest = rest →
      rest.length - i = k → i ≤ rest.length → (cr = true → 1 ≤ i) → k < fuel →
      ∃ g', loop (parsCalculateLineLength_body1 env fuel0) (parsCalculateLineLength_exit1 env fuel0) fuel
          (g, (i : Int), (n : Int), cr) =
          some (g', ((Pars.calcLine (rest.drop i) i n cr).1 : Int), ((Pars.calcLine (rest.drop i) i n cr).2 : Int)) ∧
        Inv g' ∧ absState pend g' = absState pend g := by
  intro k
  induction k with
  | zero =>
    intro g i n cr fuel h hr hk hi hcr hfu
    obtain ⟨f, rfl⟩ : ∃ f, fuel = f + 1 := ⟨fuel - 1, by omega⟩
    obtain ⟨hinv, habs, _, _, hif⟩ := stateRequest_spec env pend hf g h (i + 1)
    rw [hr, if_neg (by omega)] at hif
    have hd : rest.drop i = [] := List.drop_eq_nil_of_le (by omega)
    have hcast : (((i + 1 : Nat) : Int)) = (i : Int) + 1 := by omega
    rw [hcast] at hif hinv habs
    have hno : ¬ ((stateRequest env g ((i : Int) + 1)).2.isNone = true) := by
      have := hif.1
      cases hh : (stateRequest env g ((i : Int) + 1)).2 <;> simp_all
    refine ⟨_, ?_, hinv, habs⟩
    rw [hd]
    simp only [loop, parsCalculateLineLength_body1, hno, parsCalculateLineLength_exit1, Pars.calcLine]
    rfl
  | succ k ih =>
    intro g i n cr fuel h hr hk hi hcr hfu
    obtain ⟨f, rfl⟩ : ∃ f, fuel = f + 1 := ⟨fuel - 1, by omega⟩
    have hlt : i < rest.length := by omega
    obtain ⟨hinv, habs, _, _, hif⟩ := stateRequest_spec env pend hf g h (i + 1)
    rw [hr, if_pos (by omega)] at hif
    have hb := stateBuffer_spec pend _ hinv (i + 1) hif.2
    rw [habs, hr] at hb
    have hcast : (((i + 1 : Nat) : Int)) = (i : Int) + 1 := by omega
    rw [hcast] at hif hb hinv habs
    have hidx : goIdx (rest.take (i + 1)) (i : Int) = some rest[i] := by
      have : ¬ ((i : Int) < 0) := by omega
      simp [goIdx, this, hlt]
    have hd : rest.drop i = rest[i] :: rest.drop (i + 1) := List.drop_eq_getElem_cons hlt
    have hr' : (absState pend (stateRequest env g ((i : Int) + 1)).1).rest = rest := by rw [habs, hr]
    -- the next round, from i + 1
    have hnext : ∀ (n' : Nat) (cr' : Bool), (cr' = true → 1 ≤ i + 1) →
        ∃ g', loop (parsCalculateLineLength_body1 env fuel0) (parsCalculateLineLength_exit1 env fuel0) f
            ((stateRequest env g ((i : Int) + 1)).1, (i : Int) + 1, (n' : Int), cr') =
            some (g', ((Pars.calcLine (rest.drop (i + 1)) (i + 1) n' cr').1 : Int),
              ((Pars.calcLine (rest.drop (i + 1)) (i + 1) n' cr').2 : Int)) ∧
          Inv g' ∧ absState pend g' = absState pend g := by
      intro n' cr' hcr'
      obtain ⟨g', h1, h2, h3⟩ := ih _ (i + 1) n' cr' f hinv hr' (by omega) (by omega) hcr' (by omega)
      exact ⟨g', by rw [← hcast]; exact h1, h2, by rw [h3, habs]⟩
    rw [hd]
    unfold Pars.calcLine
    simp only [loop, parsCalculateLineLength_body1, hif.1, Option.isNone_none, if_true, hb, Option.bind_some, hidx,
      parsCalculateLineLength_k2]
    by_cases h10 : rest[i] = 10
    · by_cases hc : cr = true
      · have hi1 := hcr hc
        have e : ((i - 1 : Nat) : Int) = (i : Int) - 1 := by omega
        exact ⟨_, by simp [h10, hc, e], hinv, habs⟩
      · have hc' : cr = false := by simpa using hc
        exact ⟨_, by simp [h10, hc'], hinv, habs⟩
    · by_cases h13 : rest[i] = 13
      · obtain ⟨g', h1, h2, h3⟩ := hnext (n + 1) true (by omega)
        refine ⟨g', ?_, h2, h3⟩
        have : ¬ ((13 : UInt8) = 10) := by decide
        have e : ((n + 1 : Nat) : Int) = (n : Int) + 1 := by omega
        rw [e] at h1
        simp [h13, this, h1]
      · by_cases hc : cr = true
        · have hi1 := hcr hc
          have e : ((i - 1 : Nat) : Int) = (i : Int) - 1 := by omega
          exact ⟨_, by simp [h10, h13, hc, e], hinv, habs⟩
        · have hc' : cr = false := by simpa using hc
          obtain ⟨g', h1, h2, h3⟩ := hnext n false (by simp)
          refine ⟨g', ?_, h2, h3⟩
          simp [h10, h13, hc', h1]

theorem calcLine_fst_le (st : Bytes) : ∀ i n cr, (Pars.calcLine st i n cr).1 ≤ i + st.length := by
  induction st with
  | nil => intro i n cr; simp [Pars.calcLine]
  | cons c r ih =>
    intro i n cr
    unfold Pars.calcLine
    simp only [List.length_cons]
    split
    · dsimp only; omega
    · split
      · dsimp only; omega
      · split
        · have := ih (i + 1) (n + 1) true; omega
        · split
          · dsimp only; omega
          · have := ih (i + 1) n cr; omega

/-- `calculateLineLength` = `Pars.calcLine rest 0 0 false` (with more fuel than bytes left): never a panic, nothing the
model sees changes.  Known finding K7C is in here: see `calcLine_crcrlf` -/
theorem calculateLineLength_sim (env : Env ρ ε) (pend : ρ → Option ε → Bytes) (hf : FillOk env pend)
    (g : State ρ ε) (h : Inv g) (fuel : Nat) (hfu : (absState pend g).rest.length < fuel) :
    ∃ g', parsCalculateLineLength env fuel g =
        some (g', ((Pars.calcLine (absState pend g).rest 0 0 false).1 : Int),
          ((Pars.calcLine (absState pend g).rest 0 0 false).2 : Int)) ∧
      Inv g' ∧ absState pend g' = absState pend g := by
  obtain ⟨g', h1, h2, h3⟩ := calcLine_loop env pend hf fuel _ _ g 0 0 false fuel h rfl rfl (Nat.zero_le _) (by simp) (by omega)
  exact ⟨g', by simpa [parsCalculateLineLength] using h1, h2, h3⟩

/-- K7C on the generated code: behind `CR CR LF` the line is cut one byte before the LF (the second CR stays in the token)
and THREE terminator bytes are skipped — the first byte of the next line is lost -/
theorem calcLine_crcrlf (a b : UInt8) (t : Bytes) (ha : a ≠ 10 ∧ a ≠ 13) :
    Pars.calcLine (a :: 13 :: 13 :: 10 :: b :: t) 0 0 false = (2, 3) := by
  obtain ⟨h1, h2⟩ := ha
  simp [Pars.calcLine, h1, h2]

/-- `pars.Line` = `Pars.line` (with more fuel than bytes left): the token is the line, `Skip(n)` skips the terminator bytes
or — when fewer than `n` bytes remain — nothing at all; never an error, never a panic -/
theorem line_sim (env : Env ρ ε) (pend : ρ → Option ε → Bytes) (hf : FillOk env pend)
    (g : State ρ ε) (h : Inv g) (fuel : Nat) (hfu : (absState pend g).rest.length < fuel) (res : ResultV) :
    Agree pend (fun p r => r = ResultV.token p) (parsLine env fuel g res) (Pars.line.run' (absState pend g)) := by
  obtain ⟨g1, hc, hinv1, habs1⟩ := calculateLineLength_sim env pend hf g h fuel hfu
  generalize hcl : Pars.calcLine (absState pend g).rest 0 0 false = r at hc
  obtain ⟨i, n⟩ := r
  have hile : i ≤ (absState pend g).rest.length := by
    have := calcLine_fst_le (absState pend g).rest 0 0 false
    rw [hcl] at this; simpa using this
  obtain ⟨hinv2, habs2, _, _, hif⟩ := stateRequest_spec env pend hf g1 hinv1 i
  rw [habs1, if_pos hile] at hif
  have hb := stateBuffer_spec pend _ hinv2 i hif.2
  obtain ⟨g3, ha, hinv3, habs3⟩ := stateAdvance_spec pend _ hinv2 i hif.2
  rw [habs2, habs1] at hb habs3
  have hsk := parsSkip_spec env pend hf g3 hinv3 n
  have hrun : Pars.line.run' (absState pend g) =
      (.ok ((absState pend g).rest.take i),
        ⟨if ((absState pend g).rest.drop i).length < n then (absState pend g).rest.drop i
          else ((absState pend g).rest.drop i).drop n, (absState pend g).stk⟩) := by
    unfold Pars.line
    rw [Pars.run_bind, Pars.run_getS]; dsimp only
    rw [hcl]; rfl
  rw [hrun]
  rw [habs3] at hsk
  dsimp only at hsk
  split at hsk
  · rename_i hk
    obtain ⟨g4, h4, hinv4, habs4⟩ := hsk
    refine ⟨g4, _, ?_, rfl, hinv4, ?_⟩
    · simp [parsLine, hc, hb, ha, h4]
    · rw [habs4, if_neg (by omega)]
  · rename_i hk
    obtain ⟨g4, e, h4, hinv4, habs4⟩ := hsk
    refine ⟨g4, _, ?_, rfl, hinv4, ?_⟩
    · simp [parsLine, hc, hb, ha, h4]
    · rw [habs4, if_pos (by omega)]

/-- the shape of the loops of `untilByte` / `untilFilter`:
`for !stop(c) { state.Advance(); c, err = Next(state); if err != nil { state.Pop(); return error } }` -/
def untilBody (env : Env ρ ε) (stop : UInt8 → Prop) [DecidablePred stop] (result : ResultV)
    (s_ : State ρ ε × UInt8 × Option ε) :
    Option (Flow (State ρ ε × UInt8 × Option ε) (State ρ ε × ResultV × Option ε)) :=
  if ¬ stop s_.2.1 then
    (stateAdvance s_.1).bind fun t =>
    (parsNext env t).bind fun u =>
    if u.2.2.isSome = true then
      (statePop u.1).bind fun v => some (Flow.ret (v, result, some env.mkErr))
    else some (Flow.next (u.1, u.2.1, u.2.2))
  else some (Flow.done (s_.1, s_.2.1, s_.2.2))

theorem indexWhere_le (f : UInt8 → Bool) : ∀ (l : Bytes) (i : Nat), Pars.indexWhere f l = some i → i < l.length := by
  intro l
  induction l with
  | nil => intro i h; simp [Pars.indexWhere] at h
  | cons x xs ih =>
    intro i h
    unfold Pars.indexWhere at h
    split at h
    · simp at h; subst h; simp
    · cases hx : Pars.indexWhere f xs with
      | none => simp [hx] at h
      | some j =>
        simp [hx] at h; subst h
        have := ih j hx
        simp; omega

/-- a loop of that shape, entered on a byte `c` with the parser's own frame `top` youngest: no byte `stop` accepts up to
the end of the input — `Pop` (back to `top`, frame gone) and an error; else it stops IN FRONT of the first such byte with
the frame still there -/
theorem until_loop (env : Env ρ ε) (pend : ρ → Option ε → Bytes) (hf : FillOk env pend)
    (stop : UInt8 → Prop) [DecidablePred stop] (f : UInt8 → Bool) (hsf : ∀ x, stop x ↔ f x = true) (result : ResultV)
    (exit : State ρ ε × UInt8 × Option ε → Option (State ρ ε × ResultV × Option ε)) (top : Bytes) (stk : List Bytes)
    (l : Bytes) :
    ∀ (g : State ρ ε) (c : UInt8) (fuel : Nat), Inv g → absState pend g = ⟨l, top :: stk⟩ → l ≠ [] →
      NextAt pend g c none → l.length < fuel →
      match Pars.indexWhere f l with
      | none => ∃ g', loop (untilBody env stop result) exit fuel (g, c, none) = some (g', result, some env.mkErr) ∧
          Inv g' ∧ absState pend g' = ⟨top, stk⟩
      | some i => ∃ g' c', loop (untilBody env stop result) exit fuel (g, c, none) = exit (g', c', none) ∧
          Inv g' ∧ absState pend g' = ⟨l.drop i, top :: stk⟩ := by
  induction l with
  | nil => intro g c fuel _ _ hne; exact absurd rfl hne
  | cons b t ih =>
    intro g c fuel h habs _ hat hfu
    obtain ⟨fu, rfl⟩ : ∃ fu, fuel = fu + 1 := ⟨fuel - 1, by omega⟩
    have hr : (absState pend g).rest = b :: t := by rw [habs]
    simp only [NextAt, hr] at hat
    obtain ⟨_, rfl, hready⟩ := hat
    unfold Pars.indexWhere
    by_cases hs : stop c
    · rw [if_pos ((hsf c).mp hs)]
      exact ⟨g, c, by simp [loop, untilBody, hs], h, by rw [habs]; rfl⟩
    · have hfc : ¬ (f c = true) := fun x => hs ((hsf c).mpr x)
      rw [if_neg hfc]
      obtain ⟨g1, ha, hinv1, habs1⟩ := stateAdvance_spec pend g h 1 hready
      obtain ⟨g2, c2, err2, hn2, hinv2, habs2, hat2⟩ := parsNext_at env pend hf g1 hinv1
      have habs2' : absState pend g2 = ⟨t, top :: stk⟩ := by rw [habs2, habs1, habs]; rfl
      cases t with
      | nil =>
        simp only [NextAt, habs2'] at hat2
        obtain ⟨e2, rfl⟩ := Option.isSome_iff_exists.mp hat2
        have hp := pop_sim pend g2 hinv2
        rw [habs2', Pars.run_pop] at hp
        obtain ⟨g3, hp3, hinv3, habs3⟩ := hp
        simp only [Pars.indexWhere, Option.map_none]
        refine ⟨g3, ?_, hinv3, ?_⟩
        · simp [loop, untilBody, hs, ha, hn2, hp3]
        · have := congrArg Prod.snd habs3; simpa using this.symm
      | cons b2 t2 =>
        have hat2' := hat2
        simp only [NextAt, habs2'] at hat2
        obtain ⟨rfl, rfl, hready2⟩ := hat2
        have hih := ih g2 c2 fu hinv2 habs2' (by simp) hat2' (by simp at hfu ⊢; omega)
        have hstep : loop (untilBody env stop result) exit (fu + 1) (g, c, none) =
            loop (untilBody env stop result) exit fu (g2, c2, none) := by
          simp [loop, untilBody, hs, ha, hn2]
        rw [hstep]
        cases hi : Pars.indexWhere f (c2 :: t2) with
        | none => rw [hi] at hih; simpa using hih
        | some j =>
          rw [hi] at hih
          obtain ⟨g', c', h1, h2, h3⟩ := hih
          exact ⟨g', c', by simpa using h1, h2, by simpa using h3⟩

/-- the frame of `untilByte` / `untilFilter` around a loop of the shape `untilBody`: `Push`, the first `Next` (end of the
input: `Pop`, error), the loop, the `Trail` as token — it is `Pars.untilFilter f`: to the first byte `f` accepts, which is
NOT consumed; none up to the end of the input: an error with position and saved positions as on entry; never a panic -/
theorem until_frame (env : Env ρ ε) (pend : ρ → Option ε → Bytes) (hf : FillOk env pend)
    (stop : UInt8 → Prop) [DecidablePred stop] (f : UInt8 → Bool) (hsf : ∀ x, stop x ↔ f x = true)
    (g : State ρ ε) (h : Inv g) (fuel : Nat) (hfu : (absState pend g).rest.length < fuel) (res : ResultV) :
    Agree pend (fun p r => r = ResultV.token p)
      ((statePush g).bind fun t1 =>
        (parsNext env t1).bind fun t2 =>
          if t2.2.2.isSome = true then
            (statePop t2.1).bind fun t3 => some (t3, res, some env.mkErr)
          else
            loop (untilBody env stop res)
              (fun s_ => (parsTrail env s_.1).bind fun t4 => some (t4.1, ResultV.token t4.2.1, none)) fuel
              (t2.1, t2.2.1, t2.2.2))
      ((Pars.untilFilter f).run' (absState pend g)) := by
  obtain ⟨g1, hp, hinv1, habs1, _⟩ := statePush_spec pend g h
  obtain ⟨g2, c2, err2, hn2, hinv2, habs2, hat2⟩ := parsNext_at env pend hf g1 hinv1
  have habs2' : absState pend g2 = ⟨(absState pend g).rest, (absState pend g).rest :: (absState pend g).stk⟩ := by
    rw [habs2, habs1]
  have hrun : (Pars.untilFilter f).run' (absState pend g) =
      match Pars.indexWhere f (absState pend g).rest with
      | none => (.error .fail, absState pend g)
      | some i => (.ok ((absState pend g).rest.take i), ⟨(absState pend g).rest.drop i, (absState pend g).stk⟩) := by
    unfold Pars.untilFilter
    rw [Pars.run_bind, Pars.run_getS]; dsimp only
    cases Pars.indexWhere f (absState pend g).rest with
    | none => rfl
    | some i => dsimp only; rw [Pars.run_bind, Pars.run_advanceN]; rfl
  rw [hrun]
  simp only [hp, hn2, Option.bind_some]
  cases hr : (absState pend g).rest with
  | nil =>
    have hat2' := hat2
    simp only [NextAt, habs2', hr] at hat2'
    obtain ⟨e2, rfl⟩ := Option.isSome_iff_exists.mp hat2'
    have hpp := pop_sim pend g2 hinv2
    rw [habs2', Pars.run_pop] at hpp
    obtain ⟨g3, hp3, hinv3, habs3⟩ := hpp
    simp only [Pars.indexWhere]
    refine ⟨g3, res, env.mkErr, by simp [hp3], hinv3, ?_⟩
    have := congrArg Prod.snd habs3
    simp only at this
    rw [← this]
  | cons b t =>
    have hat2' := hat2
    simp only [NextAt, habs2', hr] at hat2'
    obtain ⟨rfl, rfl, _⟩ := hat2'
    rw [hr] at habs2' hfu
    have hl := until_loop env pend hf stop f hsf res
      (fun s_ => (parsTrail env s_.1).bind fun t4 => some (t4.1, ResultV.token t4.2.1, none))
      (c2 :: t) (absState pend g).stk (c2 :: t) g2 c2 fuel hinv2 habs2' (by simp) hat2 hfu
    simp only [Option.isSome_none, Bool.false_eq_true, if_false]
    cases hi : Pars.indexWhere f (c2 :: t) with
    | none =>
      rw [hi] at hl
      obtain ⟨g', h1, h2, h3⟩ := hl
      refine ⟨g', res, env.mkErr, h1, h2, ?_⟩
      rw [h3]; show _ = absState pend g; rw [← hr]
    | some i =>
      rw [hi] at hl
      obtain ⟨g', c', h1, h2, h3⟩ := hl
      have hile := indexWhere_le f _ _ hi
      have ht := trail_sim env pend hf g' h2
      rw [h3, Pars.run_trail] at ht
      dsimp only at ht
      have hlen : ¬ ((c2 :: t).length < ((c2 :: t).drop i).length) := by simp only [List.length_drop]; omega
      rw [if_neg hlen] at ht
      have hsub : (c2 :: t).length - ((c2 :: t).drop i).length = i := by simp only [List.length_drop]; omega
      rw [hsub] at ht
      obtain ⟨g4, e4, h41, h42, h43, _⟩ := ht
      exact ⟨g4, _, by rw [h1]; simp [h41], rfl, h42, h43⟩

/-- `pars.Until(func(byte) bool)` (`untilFilter`) = `Pars.untilFilter filter` -/
theorem untilFilter_sim (env : Env ρ ε) (pend : ρ → Option ε → Bytes) (hf : FillOk env pend) (filter : UInt8 → Bool)
    (g : State ρ ε) (h : Inv g) (fuel : Nat) (hfu : (absState pend g).rest.length < fuel) (res : ResultV) :
    Agree pend (fun p r => r = ResultV.token p) (parsUntilFilter env fuel filter g res)
      ((Pars.untilFilter filter).run' (absState pend g)) :=
  until_frame env pend hf (fun c => filter c = true) filter (fun _ => Iff.rfl) g h fuel hfu res

/-- `pars.Until(byte)` (`untilByte`) = `Pars.untilFilter (· == e)` — `GenBank.untilColon` for `e = ':'`: it scans to the END
OF THE INPUT when no `e` follows (finding K7D / F38 was this scan) -/
theorem untilByte_sim (env : Env ρ ε) (pend : ρ → Option ε → Bytes) (hf : FillOk env pend) (e : UInt8)
    (g : State ρ ε) (h : Inv g) (fuel : Nat) (hfu : (absState pend g).rest.length < fuel) (res : ResultV) :
    Agree pend (fun p r => r = ResultV.token p) (parsUntilByte env fuel e g res)
      ((Pars.untilFilter (· == e)).run' (absState pend g)) :=
  until_frame env pend hf (fun c => c = e) (· == e) (fun _ => by simp) g h fuel hfu res

/-- `Pars.int` behind the optional sign, on the byte `c` at the position -/
def intTail (c : UInt8) : Pars.P Int := do
  if !Pars.isDigit c then do Pars.pop; Pars.fail
  else if c == 48 then do Pars.advance1; Pars.drop; pure 0
  else do
    Pars.skipWhile Pars.isDigit
    let p ← Pars.trail
    match Pars.atoi p with
    | some n => pure n
    | none => Pars.fail

theorem int_eq_tail : Pars.int = (do
    Pars.push
    let c ← Pars.next
    let c ← if c == 45 || c == 43 then do Pars.advance1; Pars.next else pure c
    intTail c) := rfl

/-- `Int` behind the sign (`parsInt_k1`) = `intTail`: not a digit — `Pop`, error; `0` — consumed, `Drop`, the value 0; else
the digit loop (`skipWhile isDigit`), `Trail`, `strconv.Atoi` — whose error leaves the digits consumed and the frame gone -/
theorem int_tail_sim (env : Env ρ ε) (pend : ρ → Option ε → Bytes) (hf : FillOk env pend) (he : EnvOk env)
    (g : State ρ ε) (h : Inv g) (c : UInt8) (t : Bytes) (hr : (absState pend g).rest = c :: t)
    (hat : NextAt pend g c none) (fuel : Nat) (hfu : (c :: t).length < fuel) (res : ResultV) :
    Agree pend (fun n r => r = ResultV.int n) (parsInt_k1 env fuel g res c none) ((intTail c).run' (absState pend g)) := by
  have hready : Ready g 1 := by simp only [NextAt, hr] at hat; exact hat.2.2
  unfold intTail parsInt_k1
  rw [he.isDigit]
  by_cases hd : Pars.isDigit c = true
  · have hnd : ¬ ((!Pars.isDigit c) = true) := by simp [hd]
    have hnd' : ¬ ¬ (Pars.isDigit c = true) := by simp [hd]
    rw [if_neg hnd, if_neg hnd']
    by_cases h0 : c = 48
    · subst h0
      rw [if_pos (show ((48 : UInt8) == 48) = true from by decide)]
      obtain ⟨g1, ha, hinv1, habs1⟩ := stateAdvance_spec pend g h 1 hready
      obtain ⟨g2, hdr, hinv2, habs2⟩ := stateDrop_spec pend g1 hinv1
      rw [Pars.run_bind, Pars.run_advance1]; dsimp only
      rw [Pars.run_bind, Pars.run_drop]; dsimp only
      exact ⟨g2, _, by simp [ha, hdr], rfl, hinv2, by rw [habs2, habs1]⟩
    · have h0' : ¬ ((c == 48) = true) := by simpa using h0
      rw [if_neg h0', if_neg h0]
      obtain ⟨g3, c3, err3, hl, hinv3, habs3, _⟩ :=
        scan_loop env pend hf Pars.isDigit (parsInt_exit2 env fuel res) _ g c none fuel h hr hat hfu
      have hbody : parsInt_body2 env fuel res = scanBody env Pars.isDigit := by rw [← he.isDigit]; rfl
      rw [hbody, hl]
      rw [Pars.run_bind, Pars.run_skipWhile]; dsimp only
      rw [Pars.run_bind]
      have hs : ({ rest := List.dropWhile Pars.isDigit (absState pend g).rest, stk := (absState pend g).stk } : PS) =
          absState pend g3 := by rw [habs3, hr]
      rw [hs]
      have ht := trail_sim env pend hf g3 hinv3
      generalize Pars.trail.run' (absState pend g3) = m at ht
      obtain ⟨r, s'⟩ := m
      cases r with
      | ok p =>
        obtain ⟨g', e, h1, h2, h3, _⟩ := ht
        have hat' := he.atoi p
        dsimp only
        cases hn : Pars.atoi p with
        | none =>
          rw [hn] at hat'
          obtain ⟨e2, he2⟩ := Option.isSome_iff_exists.mp hat'
          exact ⟨g', res, e2, by simp [parsInt_exit2, parsConvertInt, h1, he2], h2, h3⟩
        | some n =>
          rw [hn] at hat'
          exact ⟨g', _, by simp [parsInt_exit2, parsConvertInt, h1, hat'], rfl, h2, h3⟩
      | error e =>
        cases e with
        | fail => exact ht.elim
        | panic => simp [Agree, parsInt_exit2, parsConvertInt, ht]
  · have hnd : ((!Pars.isDigit c) = true) := by simpa using hd
    rw [if_pos hnd, if_pos hd]
    have hp := pop_sim pend g h
    obtain ⟨g1, hp1, hinv1, habs1⟩ := hp
    rw [Pars.run_bind, habs1]
    exact ⟨g1, res, env.mkErr, by simp [hp1], hinv1, rfl⟩

/-- `pars.Int` = `Pars.int` (with more fuel than bytes left), the leaked frame included: when the input ends at the first
byte or behind the sign the error is returned with the frame `Int` pushed STILL ON THE STACK (and the sign consumed) —
F34's root cause —; a panic exactly where the model's `trail` panics -/
theorem int_sim (env : Env ρ ε) (pend : ρ → Option ε → Bytes) (hf : FillOk env pend) (he : EnvOk env)
    (g : State ρ ε) (h : Inv g) (fuel : Nat) (hfu : (absState pend g).rest.length < fuel) (res : ResultV) :
    Agree pend (fun n r => r = ResultV.int n) (parsInt env fuel g res) (Pars.int.run' (absState pend g)) := by
  obtain ⟨g1, hp, hinv1, habs1, _⟩ := statePush_spec pend g h
  obtain ⟨g2, c2, err2, hn2, hinv2, habs2, hat2⟩ := parsNext_at env pend hf g1 hinv1
  have habs2' : absState pend g2 = ⟨(absState pend g).rest, (absState pend g).rest :: (absState pend g).stk⟩ := by
    rw [habs2, habs1]
  rw [int_eq_tail, Pars.run_bind, Pars.run_push]; dsimp only
  rw [Pars.run_bind, Pars.run_next]
  unfold parsInt
  simp only [hp, hn2, Option.bind_some]
  cases hr : (absState pend g).rest with
  | nil =>
    have hat2' := hat2
    simp only [NextAt, habs2', hr] at hat2'
    obtain ⟨e2, rfl⟩ := Option.isSome_iff_exists.mp hat2'
    exact ⟨g2, res, env.mkErr, by simp, hinv2, by rw [habs2', hr]⟩
  | cons b t =>
    have hat2' := hat2
    simp only [NextAt, habs2', hr] at hat2'
    obtain ⟨rfl, rfl, hready2⟩ := hat2'
    rw [hr] at hfu
    dsimp only
    simp only [Option.isSome_none, Bool.false_eq_true, if_false]
    by_cases hsign : c2 = 45 ∨ c2 = 43
    · have hs' : (c2 == 45 || c2 == 43) = true := by simpa using hsign
      rw [if_pos hs', if_pos hsign]
      obtain ⟨g3, ha, hinv3, habs3⟩ := stateAdvance_spec pend g2 hinv2 1 hready2
      obtain ⟨g4, c4, err4, hn4, hinv4, habs4, hat4⟩ := parsNext_at env pend hf g3 hinv3
      have habs4' : absState pend g4 = ⟨t, (c2 :: t) :: (absState pend g).stk⟩ := by
        rw [habs4, habs3, habs2', hr]; rfl
      rw [Pars.run_bind, Pars.run_advance1]; dsimp only
      rw [Pars.run_bind, Pars.run_next]
      simp only [ha, hn4, Option.bind_some]
      cases t with
      | nil =>
        have hat4' := hat4
        simp only [NextAt, habs4'] at hat4'
        obtain ⟨e4, rfl⟩ := Option.isSome_iff_exists.mp hat4'
        exact ⟨g4, res, env.mkErr, by simp, hinv4, by rw [habs4']; rfl⟩
      | cons b4 t4 =>
        have hat4' := hat4
        simp only [NextAt, habs4'] at hat4'
        obtain ⟨rfl, rfl, _⟩ := hat4'
        simp only [Option.isSome_none, Bool.false_eq_true, if_false, List.drop_succ_cons, List.drop_zero]
        have := int_tail_sim env pend hf he g4 hinv4 c4 t4 (by rw [habs4']) hat4 fuel
          (by simp at hfu ⊢; omega) res
        rw [habs4'] at this
        exact this
    · have hs' : ¬ ((c2 == 45 || c2 == 43) = true) := by simpa using hsign
      rw [if_neg hs', if_neg hsign, Pars.run_bind, Pars.run_pure]
      have := int_tail_sim env pend hf he g2 hinv2 c2 t (by rw [habs2', hr]) hat2 fuel hfu res
      rw [habs2', hr] at this
      exact this

/-- the leaked frame, concretely: at the end of the input `Int` returns an error and the model's state has ONE MORE saved
position than before (`Pars.int`: "failure leaks the frame, as in Go") -/
theorem int_leaks_frame (stk : List Bytes) : Pars.int.run' ⟨[], stk⟩ = (.error .fail, ⟨[], [] :: stk⟩) := by
  rw [int_eq_tail, Pars.run_bind, Pars.run_push]; dsimp only
  rw [Pars.run_bind, Pars.run_next]

/-! ### the hypotheses can be met: a fresh state, a reader, the library calls -/

/-- what `pars.FromBytes(p)` / `pars.NewState(r)` build (facts `pars_FromBytes`, `pars_NewState`, `pars_newStack`): the
buffer `p`, offset 0, no request, no error, position (0, 0), sixteen unused frames -/
def freshState (rd : ρ) (p : Bytes) : State ρ ε :=
  ⟨rd, p, 0, -1, none, ⟨0, 0⟩, ⟨List.replicate 16 ⟨0, ⟨0, 0⟩⟩, 0⟩⟩

theorem fresh_inv (rd : ρ) (p : Bytes) : Inv (freshState (ε := ε) rd p) := by
  refine ⟨⟨by simp [freshState], by simp [freshState]⟩, by simp [freshState], by simp [freshState], ?_, ?_, ?_⟩ <;>
    simp [freshState, liveFrames]

theorem fresh_abs (pend : ρ → Option ε → Bytes) (rd : ρ) (p : Bytes) :
    absState pend (freshState rd p) = ⟨p ++ pend rd none, []⟩ := by
  simp [absState, freshState, parsInput, liveFrames, absStk]
end Prim

/-- a reader that holds a byte string and hands all of it out at the first read, then reports the end -/
def demoEnv : Env Bytes Unit where
  fill := fun g n =>
    if (g.buf.length : Int) < g.off + n then { g with buf := g.buf ++ g.rd, rd := [], err := some () } else g
  mkErr := ()
  atoi := fun p => match Pars.atoi p with
    | some n => (n, none)
    | none => (0, some ())
  isDigit := Pars.isDigit
  isSpace := Pars.isSpace

/-- what that reader still holds -/
def demoPend : Bytes → Option Unit → Bytes := fun rd _ => rd

theorem demo_fillOk : FillOk demoEnv demoPend := by
  refine ⟨?_, ?_, ?_, ?_⟩ <;> intro g n <;> simp only [demoEnv] <;> split <;> simp_all [parsInput, demoPend]
  omega

theorem demo_envOk : EnvOk demoEnv := by
  refine ⟨rfl, rfl, ?_⟩
  intro p
  simp only [demoEnv]
  cases Pars.atoi p <;> simp

/-- the generated `Int` on `12,` read from that reader (empty buffer, everything still in the reader): the value 12, no
error, the comma is next, nothing stays pushed -/
example : (parsInt demoEnv 10 (freshState [49, 50, 44] []) .unset).map
    (fun t => (t.2.1, t.2.2, (absState demoPend t.1).rest, (absState demoPend t.1).stk)) = some (.int 12, none, [44], []) := by decide

/-- … at the end of the input: an error, and one frame stays pushed (the leak) -/
example : (parsInt demoEnv 10 (freshState [] []) .unset).map
    (fun t => (t.2.2, (absState demoPend t.1).rest, (absState demoPend t.1).stk)) = some (some (), [], [[]]) := by decide

/-- the generated `Line` on `a CR CR LF b c` (known finding K7C): the token keeps one CR, and `b` is swallowed -/
example : (parsLine demoEnv 10 (freshState [] [97, 13, 13, 10, 98, 99]) .unset).map
    (fun t => (t.2.1, (absState demoPend t.1).rest)) = some (.token [97, 13], [99]) := by decide

/-- the generated `Trail` with the saved position BEHIND the current one panics (Go: slice bounds out of range): push at
offset 2, pop back to a frame pushed at offset 0 … here built directly: one frame with offset 2, position at offset 1 -/
example : parsTrail demoEnv (⟨[], [1, 2, 3], 1, -1, none, ⟨0, 0⟩, ⟨[⟨0, ⟨0, 0⟩⟩, ⟨2, ⟨0, 2⟩⟩], 2⟩⟩ : State Bytes Unit) = none := by
  decide
end Gts.Bridge
