/-
  Bridge: `gts.Slice`, regenerated from sequence.go by go2lean (Gts/Gen/SeqSlice.lean: the two index
  normalisations, the wrap-around branch `seq = Rotate(seq, -start); return Slice(seq, 0, length)` as a call
  of the regenerated `Rotate` and a RECURSIVE call (explicit fuel), `Filter(Overlap(start, end))` through the
  regenerated `FeatureSlice.Filter`, the in-place loop `for i, f := range ff { … ff[i].Loc = loc }` LITERALLY
  over a counter, `asComplete` for `source`, `make` / `copy(p, seq.Bytes()[start:end])` as checked operations,
  `WithTopology(seq, Linear)`), is the hand-written model's `Seq.slice` (Gts/Model/Seq.lean).

  Write `s' = start (+ L if negative)`, `e' = end (+ L if negative)`.

  * forward window `s' ≤ e'`: Go panics iff not `0 ≤ s' ∧ e' ≤ L` (`seq.Bytes()[start:end]`, a slice END beyond
    `len` read as a panic); inside, the generated function is the model's `sliceFwd` = `slice`
    (`seqSlice_fwd`, `seqSlice_fwd_panic`).  Metadata: `WithTopology(WithInfo(seq, trySlice(info, s', e')), Linear)`.
  * wrap-around window `e' < s'`: the code rotates by `-s'` and calls itself with `(0, L - s' + e')`
    (`seqSlice_wrap_step`, for EVERY input).  On the empty sequence that is a panic (`Rotate` divides by the
    length: `seqSlice_wrap_empty_panic`).  When `0 ≤ L - s' + e'` (every window with `s' ≤ L + e'`, in
    particular every `start, end ∈ [-L, L]`, the domain of the harness) the inner call is a forward window
    that cannot panic and the result is the model's (`seqSlice_wrap`).
  * MODEL / CODE DISCREPANCY outside that domain: for `L - s' + e' < 0` (e.g. `Slice(seq, 25, 3)` on ten
    residues) the inner call sees a negative `end`, adds `L` and — if still negative — wraps AGAIN (each level adds
    `2L`), so the real function returns a non-empty window where the model (which calls `sliceFwd` directly)
    returns the empty one.  `seqSlice_deep_differs` is the witness.  No theorem of C03/C10 speaks about that
    region (their hypotheses keep the indices in `[-L, L]`); the model was NOT changed.
-/
import Gts.Gen.SeqSlice
import Gts.Bridge.SeqRotate
import Gts.Bridge.SeqFilter
namespace Gts.Bridge
open Gts

/-- the index normalisation of `gts.Slice`: a negative index counts from the end -/
def sliceNorm (L x : Int) : Int := if x < 0 then x + L else x

/-- the in-place loop of `Slice` re-bases every location and completes the `source` ones -/
theorem seqSliceLoop_eq (a b L : Int) (ff : List Feature) :
    Gen.seqSliceLoop a b L ff.length 0 ff =
      .ok (ff.map fun f => { f with loc :=
        if f.key = "source" then ((f.loc.expand b (b - L)).expand 0 (-a)).asComplete
        else (f.loc.expand b (b - L)).expand 0 (-a) }) := by
  rw [mapLocLoop_all (Gen.seqSliceLoop a b L)
    (fun f => if f.key = "source"
      then Gen.asComplete (Gen.locFuel (Gen.expand (Gen.expand f.loc b (b - L)) 0 (-a))) (Gen.expand (Gen.expand f.loc b (b - L)) 0 (-a))
      else Gen.expand (Gen.expand f.loc b (b - L)) 0 (-a))
    (fun _ _ => rfl) (fun _ _ _ => rfl)]
  simp only [expand_eq, asComplete_fuel]

/-- the byte part of the forward window: `p := make([]byte, b-a); copy(p, q[a:b])` -/
theorem sliceBytes_eq (q : List UInt8) (a b : Int) (h : 0 ≤ a ∧ a ≤ b ∧ b ≤ (q.length : Int)) :
    (match Gen.goSlice q a b with
     | none => none
     | some x => Gen.goCopyAt (List.replicate (b - a).toNat 0) 0 x) =
      some ((q.drop a.toNat).take (b - a).toNat, ((b - a).toNat : Int)) := by
  have e : b.toNat - a.toNat = (b - a).toNat := by omega
  have hlen : ((q.drop a.toNat).take (b - a).toNat).length = (b - a).toNat := by
    simp only [List.length_take, List.length_drop]; omega
  simp only [Gen.goSlice, if_pos h, e, Gen.goCopyAt, List.length_replicate]
  rw [if_pos (by omega)]
  simp only [Int.toNat_zero, List.take_zero, List.nil_append, Nat.sub_zero, Nat.zero_add, hlen,
    Nat.min_self, List.drop_replicate, Nat.sub_self, List.replicate_zero, List.append_nil]
  rw [List.take_of_length_le (by omega)]

/-- the forward branch of the generated function, on already normalised bounds `a ≤ b` inside the sequence -/
theorem seqSlice_fwd_norm {ι : Type} (ops : Gen.InfoOps ι) (fuel : Nat) (i : ι) (s : Seq) (a b : Int)
    (h : 0 ≤ a ∧ a ≤ b ∧ b ≤ s.len) :
    Gen.seqSlice ops (fuel + 1) i s.feats s.bytes a b =
      .ok (ops.withTopology (ops.trySlice i a b) 0, (s.sliceFwd a b).feats, (s.sliceFwd a b).bytes) := by
  simp only [Seq.len] at h
  have ha : ¬ a < 0 := by omega
  have hb : ¬ b < 0 := by omega
  have hab : ¬ b < a := by omega
  have hm : ¬ (b - a < 0) := by omega
  have hbytes := sliceBytes_eq s.bytes a b h
  simp only [Gen.seqSlice, if_neg ha, if_neg hb, if_neg hab, featsFilter_eq, seqSliceLoop_eq, Gen.goMake, if_neg hm]
  split at hbytes
  · simp at hbytes
  · rename_i x hx
    rw [hx]
    have hfo : Gen.filterOverlap a b = fun f => f.loc.overlap a b := funext (filterOverlap_eq a b)
    simp only [hbytes, Seq.sliceFwd, Seq.len, hfo]

/-- normalising the indices twice changes nothing once they are non-negative -/
theorem seqSlice_idem {ι : Type} (ops : Gen.InfoOps ι) (fuel : Nat) (i : ι) (feats : List Feature) (bytes : List UInt8)
    (start end_ : Int) (h0 : 0 ≤ sliceNorm bytes.length start) (h1 : 0 ≤ sliceNorm bytes.length end_) :
    Gen.seqSlice ops (fuel + 1) i feats bytes start end_ =
      Gen.seqSlice ops (fuel + 1) i feats bytes (sliceNorm bytes.length start) (sliceNorm bytes.length end_) := by
  unfold sliceNorm at *
  generalize ha : (if start < 0 then start + (bytes.length : Int) else start) = a at *
  generalize hb : (if end_ < 0 then end_ + (bytes.length : Int) else end_) = b at *
  have h0' : ¬ a < 0 := by omega
  have h1' : ¬ b < 0 := by omega
  conv => rhs; rw [Gen.seqSlice]
  conv => lhs; rw [Gen.seqSlice]
  simp only [ha, hb, if_neg h0', if_neg h1']

/-- FORWARD WINDOW, inside: `gts.Slice` as sequence.go defines it now is the model's `Seq.slice` -/
theorem seqSlice_fwd {ι : Type} (ops : Gen.InfoOps ι) (fuel : Nat) (i : ι) (s : Seq) (start end_ : Int)
    (hw : sliceNorm s.len start ≤ sliceNorm s.len end_)
    (h : 0 ≤ sliceNorm s.len start ∧ sliceNorm s.len end_ ≤ s.len) :
    Gen.seqSlice ops (fuel + 1) i s.feats s.bytes start end_ =
      .ok (ops.withTopology (ops.trySlice i (sliceNorm s.len start) (sliceNorm s.len end_)) 0,
        (s.slice start end_).feats, (s.slice start end_).bytes) := by
  have hm : s.slice start end_ = s.sliceFwd (sliceNorm s.len start) (sliceNorm s.len end_) := by
    simp only [Seq.slice, sliceNorm]
    rw [if_neg (by simp only [sliceNorm] at hw; omega)]
  rw [hm, ← seqSlice_fwd_norm ops fuel i s _ _ ⟨h.1, hw, h.2⟩]
  exact seqSlice_idem ops fuel i s.feats s.bytes start end_ h.1 (by simp only [Seq.len] at hw h ⊢; omega)

/-- FORWARD WINDOW, outside: `seq.Bytes()[start:end]` panics -/
theorem seqSlice_fwd_panic {ι : Type} (ops : Gen.InfoOps ι) (fuel : Nat) (i : ι) (s : Seq) (start end_ : Int)
    (hw : sliceNorm s.len start ≤ sliceNorm s.len end_)
    (h : ¬ (0 ≤ sliceNorm s.len start ∧ sliceNorm s.len end_ ≤ s.len)) :
    Gen.seqSlice ops (fuel + 1) i s.feats s.bytes start end_ = .error .panic := by
  simp only [sliceNorm, Seq.len] at hw h
  have hab : ¬ (if end_ < 0 then end_ + (s.bytes.length : Int) else end_) <
      (if start < 0 then start + (s.bytes.length : Int) else start) := by omega
  have hm : ¬ ((if end_ < 0 then end_ + (s.bytes.length : Int) else end_) -
      (if start < 0 then start + (s.bytes.length : Int) else start) < 0) := by omega
  have hs : ¬ (0 ≤ (if start < 0 then start + (s.bytes.length : Int) else start) ∧
      (if start < 0 then start + (s.bytes.length : Int) else start) ≤
        (if end_ < 0 then end_ + (s.bytes.length : Int) else end_) ∧
      (if end_ < 0 then end_ + (s.bytes.length : Int) else end_) ≤ (s.bytes.length : Int)) := by omega
  simp only [Gen.seqSlice, if_neg hab, featsFilter_eq, seqSliceLoop_eq, Gen.goMake, if_neg hm, Gen.goSlice, if_neg hs]

/-- WRAP-AROUND WINDOW, every input: rotate by `-s'`, then call itself with `(0, L - s' + e')` -/
theorem seqSlice_wrap_step {ι : Type} (ops : Gen.InfoOps ι) (fuel : Nat) (i : ι) (feats : List Feature)
    (bytes : List UInt8) (start end_ : Int)
    (hw : sliceNorm bytes.length end_ < sliceNorm bytes.length start) :
    Gen.seqSlice ops (fuel + 1) i feats bytes start end_ =
      match Gen.seqRotate fuel i feats bytes (-(sliceNorm bytes.length start)) with
      | .error e => .error e
      | .ok (ri, rf, rb) =>
        Gen.seqSlice ops fuel ri rf rb 0 ((bytes.length : Int) - sliceNorm bytes.length start + sliceNorm bytes.length end_) := by
  simp only [sliceNorm] at hw
  simp only [Gen.seqSlice, sliceNorm, if_pos hw]
  split <;> rename_i h
  · rw [h]
  · rw [h]
    simp only []
    split <;> rename_i h2 <;> rw [h2]

/-- WRAP-AROUND WINDOW on the empty sequence: `Rotate` divides by the length -/
theorem seqSlice_wrap_empty_panic {ι : Type} (ops : Gen.InfoOps ι) (fuel : Nat) (i : ι) (feats : List Feature)
    (start end_ : Int) (hw : sliceNorm 0 end_ < sliceNorm 0 start) :
    Gen.seqSlice ops (fuel + 1) i feats [] start end_ = .error .panic := by
  have := seqSlice_wrap_step ops fuel i feats [] start end_ (by simpa using hw)
  rw [this, seqRotate_panic]

theorem rotate_len (s : Seq) (n : Int) : (s.rotate n).len = s.len := by
  simp only [Seq.rotate, Seq.len, List.length_append, List.length_drop, List.length_take]
  omega

/-- WRAP-AROUND WINDOW with `0 ≤ L - s' + e'` on a non-empty sequence: `gts.Slice` as sequence.go defines it
now is the model's `Seq.slice`, for every fuel of at least `max 2 (s' + 1)` -/
theorem seqSlice_wrap {ι : Type} (ops : Gen.InfoOps ι) (fuel : Nat) (i : ι) (s : Seq) (start end_ : Int)
    (hw : sliceNorm s.len end_ < sliceNorm s.len start) (hL : 0 < s.len)
    (hlen : 0 ≤ s.len - sliceNorm s.len start + sliceNorm s.len end_)
    (hf : sliceNorm s.len start ≤ fuel + 1) :
    Gen.seqSlice ops (fuel + 2) i s.feats s.bytes start end_ =
      .ok (ops.withTopology (ops.trySlice i 0 (s.len - sliceNorm s.len start + sliceNorm s.len end_)) 0,
        (s.slice start end_).feats, (s.slice start end_).bytes) := by
  have hm : s.slice start end_ =
      (s.rotate (-(sliceNorm s.len start))).sliceFwd 0 (s.len - sliceNorm s.len start + sliceNorm s.len end_) := by
    simp only [Seq.slice, sliceNorm]
    rw [if_pos (by simp only [sliceNorm] at hw; omega)]
  have hstep := seqSlice_wrap_step ops (fuel + 1) i s.feats s.bytes start end_ hw
  have hrot := seqRotate_eq (fuel + 1) i s (-(sliceNorm s.len start)) hL (by simp only [Int.neg_neg]; omega)
  simp only [Seq.len] at hrot hstep
  rw [hstep, hrot]
  simp only []
  have hfw := seqSlice_fwd_norm ops fuel i (s.rotate (-(sliceNorm s.len start))) 0
    (s.len - sliceNorm s.len start + sliceNorm s.len end_) ⟨by omega, hlen, by rw [rotate_len]; omega⟩
  simp only [Seq.len] at hfw hm ⊢
  rw [hfw, hm]

-- non-vacuity of the three theorems (ten residues; forward, negative indices, wrap-around)
example : sliceNorm 10 2 ≤ sliceNorm 10 (-3) ∧ 0 ≤ sliceNorm 10 2 ∧ sliceNorm 10 (-3) ≤ 10 := by decide
example : sliceNorm 10 3 < sliceNorm 10 8 ∧ (0 : Int) ≤ 10 - sliceNorm 10 8 + sliceNorm 10 3 := by decide
example : Gen.seqSlice (ι := Unit) ⟨fun i _ _ => i, fun i _ _ => i, fun i _ _ => i, fun i _ => i, ()⟩ 10 ()
      [⟨"source", .ranged 0 10 false false, []⟩, ⟨"gene", .ranged 1 4 false false, []⟩]
      [65, 67, 71, 84, 65, 67, 71, 84, 65, 67] 8 3 =
    .ok ((), [⟨"source", .ranged 0 5 false false, []⟩, ⟨"gene", .ranged 3 5 false true, []⟩], [65, 67, 65, 67, 71]) := by
  rfl

/-- the discrepancy witness: `Slice(seq, 25, 3)` on ten residues wraps twice and returns eight residues;
the model returns none -/
theorem seqSlice_deep_differs :
    Gen.seqSlice (ι := Unit) ⟨fun i _ _ => i, fun i _ _ => i, fun i _ _ => i, fun i _ => i, ()⟩ 30 ()
      [] [65, 67, 71, 84, 65, 67, 71, 84, 65, 67] 25 3 = .ok ((), [], [67, 71, 84, 65, 67, 65, 67, 71]) ∧
    (Seq.slice ⟨[], [65, 67, 71, 84, 65, 67, 71, 84, 65, 67]⟩ 25 3).bytes = [] := by
  constructor <;> rfl

end Gts.Bridge
