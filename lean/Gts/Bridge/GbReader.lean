/-
  C07 / C01 bridge (DESIGN.md 4.1b): the STRUCTURE of the seqio reader that go2lean extracts from the Go
  source on every run (`Gts/Gen/GbReaderFacts.lean`, generator go2lean/gbreader.go) is the structure the
  hand-written model has (`Gts/Spec/GbReaderTable.lean`, written next to `Gts/Model/GenBankParse.lean` /
  `InsdcParse.lean` / `GbSlice.lean`, line by line with the model clause each line mirrors).

  One theorem per Go function (its function literals included), so that a change names the function
  that changed; plus the derived tables (`dispatch`: the sub-parsers in order of attempt with their
  field names; `stateOps`: every Push / Pop / Drop / Clear / Advance with the condition it stands
  under; the LOCUS `Seq` member by member, `Children(…)`, which child feeds which field; the
  QualifierType `iota` block) and a few statements ABOUT the tables that do not depend on the
  spelling of a line (`reader_hard_failures`, `reader_tryAll_ops`, `reader_locus_depth`, …).
  The table equalities are closed by `rfl` (the kernel compares the two literal tables; `decide` on the
  `String` equality of a few hundred long literals takes minutes), the computed statements by
  `decide +kernel`: reordering sub-parsers, another field name, `Pop` for `Clear` (66de3a0 was
  exactly that), another width or depth arithmetic make the kernel reject the theorem.
-/
import Gts.Gen.GbReaderFacts
import Gts.Spec.GbReaderTable
namespace Gts.Bridge
open Gts.Gen

/-- the inventory: the reader functions and their function literals are the expected ones, in order
(a new function literal, a new or removed function shows here) -/
theorem reader_inventory : GbReader.fns.map (·.1) = Spec.GbReader.fns.map (·.1) := by decide +kernel

/-- the LOCUS line parser: the `Seq` with its literals, `Children(…)`, the date `Map` -/
theorem reader_genbankLocusParser :
    GbReader.fn_genbankLocusParser = Spec.GbReader.fn_genbankLocusParser ∧
    GbReader.fn_genbankLocusParser_func0 = Spec.GbReader.fn_genbankLocusParser_func0 := ⟨rfl, rfl⟩

/-- `tryAllParsers`: Push, the parser, Drop on success, hard failure when nothing is pushed, Pop -/
theorem reader_tryAllParsers :
    GbReader.fn_tryAllParsers = Spec.GbReader.fn_tryAllParsers ∧
    GbReader.fn_tryAllParsers_func0 = Spec.GbReader.fn_tryAllParsers_func0 := ⟨rfl, rfl⟩

/-- `GenBankParser`: the use of the LOCUS children, the depth arithmetic, the range and final length checks, the order of the generators, the record loop -/
theorem reader_GenBankParser :
    GbReader.fn_GenBankParser = Spec.GbReader.fn_GenBankParser := rfl

/-- `genbankFieldNameParser` and its 1 function literal: every statement in normal form is the expected one -/
theorem reader_genbankFieldNameParser :
    GbReader.fn_genbankFieldNameParser = Spec.GbReader.fn_genbankFieldNameParser ∧
    GbReader.fn_genbankFieldNameParser_func0 = Spec.GbReader.fn_genbankFieldNameParser_func0 := ⟨rfl, rfl⟩

/-- `genbankFieldLineParser` and its 1 function literal: every statement in normal form is the expected one -/
theorem reader_genbankFieldLineParser :
    GbReader.fn_genbankFieldLineParser = Spec.GbReader.fn_genbankFieldLineParser ∧
    GbReader.fn_genbankFieldLineParser_func0 = Spec.GbReader.fn_genbankFieldLineParser_func0 := ⟨rfl, rfl⟩

/-- `genbankFieldBodyParser` and its 1 function literal: every statement in normal form is the expected one -/
theorem reader_genbankFieldBodyParser :
    GbReader.fn_genbankFieldBodyParser = Spec.GbReader.fn_genbankFieldBodyParser ∧
    GbReader.fn_genbankFieldBodyParser_func0 = Spec.GbReader.fn_genbankFieldBodyParser_func0 := ⟨rfl, rfl⟩

/-- `genbankGenericFieldParser` and its 1 function literal: every statement in normal form is the expected one -/
theorem reader_genbankGenericFieldParser :
    GbReader.fn_genbankGenericFieldParser = Spec.GbReader.fn_genbankGenericFieldParser ∧
    GbReader.fn_genbankGenericFieldParser_func0 = Spec.GbReader.fn_genbankGenericFieldParser_func0 := ⟨rfl, rfl⟩

/-- `genbankExtraFieldParser` and its 1 function literal: every statement in normal form is the expected one -/
theorem reader_genbankExtraFieldParser :
    GbReader.fn_genbankExtraFieldParser = Spec.GbReader.fn_genbankExtraFieldParser ∧
    GbReader.fn_genbankExtraFieldParser_func0 = Spec.GbReader.fn_genbankExtraFieldParser_func0 := ⟨rfl, rfl⟩

/-- `genbankSubfieldNameParser` and its 1 function literal: every statement in normal form is the expected one -/
theorem reader_genbankSubfieldNameParser :
    GbReader.fn_genbankSubfieldNameParser = Spec.GbReader.fn_genbankSubfieldNameParser ∧
    GbReader.fn_genbankSubfieldNameParser_func0 = Spec.GbReader.fn_genbankSubfieldNameParser_func0 := ⟨rfl, rfl⟩

/-- `genbankGenericSubfieldParser` and its 1 function literal: every statement in normal form is the expected one -/
theorem reader_genbankGenericSubfieldParser :
    GbReader.fn_genbankGenericSubfieldParser = Spec.GbReader.fn_genbankGenericSubfieldParser ∧
    GbReader.fn_genbankGenericSubfieldParser_func0 = Spec.GbReader.fn_genbankGenericSubfieldParser_func0 := ⟨rfl, rfl⟩

/-- `genbankDefinitionParser` and its 1 function literal: every statement in normal form is the expected one -/
theorem reader_genbankDefinitionParser :
    GbReader.fn_genbankDefinitionParser = Spec.GbReader.fn_genbankDefinitionParser ∧
    GbReader.fn_genbankDefinitionParser_func0 = Spec.GbReader.fn_genbankDefinitionParser_func0 := ⟨rfl, rfl⟩

/-- `genbankAccessionParser` and its 1 function literal: every statement in normal form is the expected one -/
theorem reader_genbankAccessionParser :
    GbReader.fn_genbankAccessionParser = Spec.GbReader.fn_genbankAccessionParser ∧
    GbReader.fn_genbankAccessionParser_func0 = Spec.GbReader.fn_genbankAccessionParser_func0 := ⟨rfl, rfl⟩

/-- `genbankVersionParser` and its 1 function literal: every statement in normal form is the expected one -/
theorem reader_genbankVersionParser :
    GbReader.fn_genbankVersionParser = Spec.GbReader.fn_genbankVersionParser ∧
    GbReader.fn_genbankVersionParser_func0 = Spec.GbReader.fn_genbankVersionParser_func0 := ⟨rfl, rfl⟩

/-- `genbankDBLinkPairParser` and its 1 function literal: every statement in normal form is the expected one -/
theorem reader_genbankDBLinkPairParser :
    GbReader.fn_genbankDBLinkPairParser = Spec.GbReader.fn_genbankDBLinkPairParser ∧
    GbReader.fn_genbankDBLinkPairParser_func0 = Spec.GbReader.fn_genbankDBLinkPairParser_func0 := ⟨rfl, rfl⟩

/-- `genbankDBLinkParser` and its 1 function literal: every statement in normal form is the expected one -/
theorem reader_genbankDBLinkParser :
    GbReader.fn_genbankDBLinkParser = Spec.GbReader.fn_genbankDBLinkParser ∧
    GbReader.fn_genbankDBLinkParser_func0 = Spec.GbReader.fn_genbankDBLinkParser_func0 := ⟨rfl, rfl⟩

/-- `genbankKeywordsParser` and its 1 function literal: every statement in normal form is the expected one -/
theorem reader_genbankKeywordsParser :
    GbReader.fn_genbankKeywordsParser = Spec.GbReader.fn_genbankKeywordsParser ∧
    GbReader.fn_genbankKeywordsParser_func0 = Spec.GbReader.fn_genbankKeywordsParser_func0 := ⟨rfl, rfl⟩

/-- `genbankSourceParser` and its 2 function literals: every statement in normal form is the expected one -/
theorem reader_genbankSourceParser :
    GbReader.fn_genbankSourceParser = Spec.GbReader.fn_genbankSourceParser ∧
    GbReader.fn_genbankSourceParser_func0 = Spec.GbReader.fn_genbankSourceParser_func0 ∧
    GbReader.fn_genbankSourceParser_func1 = Spec.GbReader.fn_genbankSourceParser_func1 := ⟨rfl, rfl, rfl⟩

/-- `genbankReferenceSubfieldParser` and its 7 function literals: every statement in normal form is the expected one -/
theorem reader_genbankReferenceSubfieldParser :
    GbReader.fn_genbankReferenceSubfieldParser = Spec.GbReader.fn_genbankReferenceSubfieldParser ∧
    GbReader.fn_genbankReferenceSubfieldParser_func0 = Spec.GbReader.fn_genbankReferenceSubfieldParser_func0 ∧
    GbReader.fn_genbankReferenceSubfieldParser_func1 = Spec.GbReader.fn_genbankReferenceSubfieldParser_func1 ∧
    GbReader.fn_genbankReferenceSubfieldParser_func2 = Spec.GbReader.fn_genbankReferenceSubfieldParser_func2 ∧
    GbReader.fn_genbankReferenceSubfieldParser_func3 = Spec.GbReader.fn_genbankReferenceSubfieldParser_func3 ∧
    GbReader.fn_genbankReferenceSubfieldParser_func4 = Spec.GbReader.fn_genbankReferenceSubfieldParser_func4 ∧
    GbReader.fn_genbankReferenceSubfieldParser_func5 = Spec.GbReader.fn_genbankReferenceSubfieldParser_func5 ∧
    GbReader.fn_genbankReferenceSubfieldParser_func6 = Spec.GbReader.fn_genbankReferenceSubfieldParser_func6 := ⟨rfl, rfl, rfl, rfl, rfl, rfl, rfl, rfl⟩

/-- `genbankReferenceParser` and its 1 function literal: every statement in normal form is the expected one -/
theorem reader_genbankReferenceParser :
    GbReader.fn_genbankReferenceParser = Spec.GbReader.fn_genbankReferenceParser ∧
    GbReader.fn_genbankReferenceParser_func0 = Spec.GbReader.fn_genbankReferenceParser_func0 := ⟨rfl, rfl⟩

/-- `genbankCommentParser` and its 1 function literal: every statement in normal form is the expected one -/
theorem reader_genbankCommentParser :
    GbReader.fn_genbankCommentParser = Spec.GbReader.fn_genbankCommentParser ∧
    GbReader.fn_genbankCommentParser_func0 = Spec.GbReader.fn_genbankCommentParser_func0 := ⟨rfl, rfl⟩

/-- `genbankFeatureParser` and its 1 function literal: every statement in normal form is the expected one -/
theorem reader_genbankFeatureParser :
    GbReader.fn_genbankFeatureParser = Spec.GbReader.fn_genbankFeatureParser ∧
    GbReader.fn_genbankFeatureParser_func0 = Spec.GbReader.fn_genbankFeatureParser_func0 := ⟨rfl, rfl⟩

/-- `genbankContigParser` and its 2 function literals (the filter of `pars.Until`, the parser): every statement in normal form is the expected one -/
theorem reader_genbankContigParser :
    GbReader.fn_genbankContigParser = Spec.GbReader.fn_genbankContigParser ∧
    GbReader.fn_genbankContigParser_func0 = Spec.GbReader.fn_genbankContigParser_func0 ∧
    GbReader.fn_genbankContigParser_func1 = Spec.GbReader.fn_genbankContigParser_func1 := ⟨rfl, rfl, rfl⟩

/-- `makeGenbankOriginParser` and its 2 function literals: every statement in normal form is the expected one -/
theorem reader_makeGenbankOriginParser :
    GbReader.fn_makeGenbankOriginParser = Spec.GbReader.fn_makeGenbankOriginParser ∧
    GbReader.fn_makeGenbankOriginParser_func0 = Spec.GbReader.fn_makeGenbankOriginParser_func0 ∧
    GbReader.fn_makeGenbankOriginParser_func1 = Spec.GbReader.fn_makeGenbankOriginParser_func1 := ⟨rfl, rfl, rfl⟩

/-- `init` of insdc.go sorts the three name lists (the precondition of `searchString`) -/
theorem reader_init :
    GbReader.fn_init = Spec.GbReader.fn_init := rfl

/-- `RegisterQuotedQualifier`: append, then sort again — every member stays (`Registry.addQuoted`) -/
theorem reader_RegisterQuotedQualifier :
    GbReader.fn_RegisterQuotedQualifier = Spec.GbReader.fn_RegisterQuotedQualifier := rfl

/-- `RegisterLiteralQualifier`: append, then sort again (`Registry.addLiteral`) -/
theorem reader_RegisterLiteralQualifier :
    GbReader.fn_RegisterLiteralQualifier = Spec.GbReader.fn_RegisterLiteralQualifier := rfl

/-- `RegisterToggleQualifier`: append, then sort again (`Registry.addToggle`) -/
theorem reader_RegisterToggleQualifier :
    GbReader.fn_RegisterToggleQualifier = Spec.GbReader.fn_RegisterToggleQualifier := rfl

/-- `searchString`: the recursive binary search (as a function: `Gts.Bridge.searchString_mem`) -/
theorem reader_searchString :
    GbReader.fn_searchString = Spec.GbReader.fn_searchString := rfl

/-- `IsQuotedQualifier` searches `QuotedQualifierNames` -/
theorem reader_IsQuotedQualifier :
    GbReader.fn_IsQuotedQualifier = Spec.GbReader.fn_IsQuotedQualifier := rfl

/-- `IsLiteralQualifier` searches `LiteralQualifierNames` -/
theorem reader_IsLiteralQualifier :
    GbReader.fn_IsLiteralQualifier = Spec.GbReader.fn_IsLiteralQualifier := rfl

/-- `IsToggleQualifier` searches `ToggleQualifierNames` -/
theorem reader_IsToggleQualifier :
    GbReader.fn_IsToggleQualifier = Spec.GbReader.fn_IsToggleQualifier := rfl

/-- `GetQualifierType`: every statement in normal form is the expected one -/
theorem reader_GetQualifierType :
    GbReader.fn_GetQualifierType = Spec.GbReader.fn_GetQualifierType := rfl

/-- `qualifierNameParser` and its 1 function literal: every statement in normal form is the expected one -/
theorem reader_qualifierNameParser :
    GbReader.fn_qualifierNameParser = Spec.GbReader.fn_qualifierNameParser ∧
    GbReader.fn_qualifierNameParser_func0 = Spec.GbReader.fn_qualifierNameParser_func0 := ⟨rfl, rfl⟩

/-- `quotedQualifierParser` and its 1 function literal: every statement in normal form is the expected one -/
theorem reader_quotedQualifierParser :
    GbReader.fn_quotedQualifierParser = Spec.GbReader.fn_quotedQualifierParser ∧
    GbReader.fn_quotedQualifierParser_func0 = Spec.GbReader.fn_quotedQualifierParser_func0 := ⟨rfl, rfl⟩

/-- `literalQualifierValueParser` and its 1 function literal: every statement in normal form is the expected one -/
theorem reader_literalQualifierValueParser :
    GbReader.fn_literalQualifierValueParser = Spec.GbReader.fn_literalQualifierValueParser ∧
    GbReader.fn_literalQualifierValueParser_func0 = Spec.GbReader.fn_literalQualifierValueParser_func0 := ⟨rfl, rfl⟩

/-- `literalQualifierParser` and its 1 function literal: every statement in normal form is the expected one -/
theorem reader_literalQualifierParser :
    GbReader.fn_literalQualifierParser = Spec.GbReader.fn_literalQualifierParser ∧
    GbReader.fn_literalQualifierParser_func0 = Spec.GbReader.fn_literalQualifierParser_func0 := ⟨rfl, rfl⟩

/-- `QualifierParser` and its 1 function literal: every statement in normal form is the expected one -/
theorem reader_QualifierParser :
    GbReader.fn_QualifierParser = Spec.GbReader.fn_QualifierParser ∧
    GbReader.fn_QualifierParser_func0 = Spec.GbReader.fn_QualifierParser_func0 := ⟨rfl, rfl⟩

/-- `featureKeylineParser` and its 1 function literal: every statement in normal form is the expected one -/
theorem reader_featureKeylineParser :
    GbReader.fn_featureKeylineParser = Spec.GbReader.fn_featureKeylineParser ∧
    GbReader.fn_featureKeylineParser_func0 = Spec.GbReader.fn_featureKeylineParser_func0 := ⟨rfl, rfl⟩

/-- `INSDCTableParser` and its 2 function literals: every statement in normal form is the expected one -/
theorem reader_INSDCTableParser :
    GbReader.fn_INSDCTableParser = Spec.GbReader.fn_INSDCTableParser ∧
    GbReader.fn_INSDCTableParser_func0 = Spec.GbReader.fn_INSDCTableParser_func0 ∧
    GbReader.fn_INSDCTableParser_func1 = Spec.GbReader.fn_INSDCTableParser_func1 := ⟨rfl, rfl, rfl⟩

/-- `parseReferenceInfo` and its 2 function literals: every statement in normal form is the expected one -/
theorem reader_parseReferenceInfo :
    GbReader.fn_parseReferenceInfo = Spec.GbReader.fn_parseReferenceInfo ∧
    GbReader.fn_parseReferenceInfo_func0 = Spec.GbReader.fn_parseReferenceInfo_func0 ∧
    GbReader.fn_parseReferenceInfo_func1 = Spec.GbReader.fn_parseReferenceInfo_func1 := ⟨rfl, rfl, rfl⟩

/-- `dig`: every statement in normal form is the expected one -/
theorem reader_dig :
    GbReader.fn_dig = Spec.GbReader.fn_dig := rfl

/-- all of them at once: the whole table -/
theorem reader_fns : GbReader.fns = Spec.GbReader.fns := rfl

/-- the sub-parsers in the order in which `tryAllParsers` attempts them, each with its field name:
`GenBank.fieldParsers` followed by `extraField` -/
theorem reader_dispatch : GbReader.dispatch = Spec.GbReader.dispatch := rfl

/-- every Push / Pop / Drop / Clear / Advance of the reader with the condition it stands under -/
theorem reader_stateOps : GbReader.stateOps = Spec.GbReader.stateOps := rfl

/-- the LOCUS `Seq` member by member, the kept children, and which child feeds which field -/
theorem reader_locus :
    GbReader.locusSeq = Spec.GbReader.locusSeq ∧ GbReader.locusChildren = Spec.GbReader.locusChildren ∧
    GbReader.locusUses = Spec.GbReader.locusUses := ⟨rfl, rfl, rfl⟩

/-- the `iota` block of `QualifierType` is `GenBank.QType` in the order of its constructors -/
theorem reader_qualifierTypes : GbReader.qualifierTypes = Spec.GbReader.qualifierTypes := rfl

/-! ### statements about the extracted tables (independent of how a line is spelled) -/

/-- the HARD failures: exactly five places clear the saved positions — behind the LOCUS line, a
field name with uneven indent, SOURCE without ORGANISM (66de3a0), behind the FEATURES line, behind
the ORIGIN line — and no reader function pops or drops where the model clears -/
theorem reader_hard_failures :
    (GbReader.stateOps.filter (·.2.1 == "state.Clear()")).map (·.1) =
      ["GenBankParser", "genbankFieldNameParser/func0", "genbankSourceParser/func1",
       "genbankFeatureParser/func0", "makeGenbankOriginParser/func1"] := by decide +kernel

/-- `tryAllParsers` pushes once per attempt, drops on success only and pops on (soft) failure only;
nothing else touches the saved positions there -/
theorem reader_tryAll_ops :
    (GbReader.stateOps.filter (·.1 == "tryAllParsers/func0")).map (·.2) =
      [("state.Push()", "range _, v0 := range pp0"), ("state.Drop()", "if err0 == nil"),
       ("state.Pop()", "range _, v0 := range pp0")] := by decide +kernel

/-- the field sub-parsers themselves never push, pop or drop: the only functions that do are
`tryAllParsers` and the three qualifier value parsers of the feature table.  A soft failure of a field
is undone by `tryAllParsers` alone, which is what `recordLoop_fuel_stable` (C07) relies on -/
theorem reader_fields_do_not_pop :
    ((GbReader.stateOps.filter fun o => o.2.1 != "state.Clear()" && o.2.1 != "state.Advance()").map
      (·.1)).eraseDups =
      ["tryAllParsers/func0", "quotedQualifierParser/func0", "literalQualifierValueParser/func0",
       "literalQualifierParser/func0"] := by decide +kernel

/-- `errGenBankExtra` is returned by `genbankExtraFieldParser` and by nothing else: the error tag `extra`
of `Gts.Bridge.tryAllParsers_eq` belongs to the last sub-parser alone, so `dig(err) != errGenBankExtra`
in `GenBankParser` separates "skip this line" from "the record fails" the way the model's `Step` does -/
theorem reader_extra_error_unique :
    (GbReader.fns.filter fun f => f.2.any fun l => l.2.1 == "return" && l.2.2 == "errGenBankExtra").map (·.1) =
      ["genbankExtraFieldParser/func0"] := by decide +kernel

/-- the depth handed to every sub-parser is the width of "LOCUS" plus the blanks behind it: child 0 of
the LOCUS result is member 1 of the `Seq` (`pars.Spaces`), member 0 is the five-byte literal -/
theorem reader_locus_depth :
    GbReader.locusUses.head? = some ("depth", 0, "len(#.Token) + 5") ∧
    GbReader.locusChildren.head? = some 1 ∧
    GbReader.locusSeq.take 2 = ["\"LOCUS\"", "pars.Spaces"] ∧ "LOCUS".length = 5 := by decide +kernel

/-- every kept child is used exactly once, in order, and the kept members are the non-blank ones plus
the first run of blanks -/
theorem reader_locus_children :
    GbReader.locusUses.map (·.2.1) = List.range GbReader.locusChildren.length ∧
    GbReader.locusChildren.map (fun i => GbReader.locusSeq.getD i "") =
      ["pars.Spaces", "pars.Word(ascii.Not(ascii.IsSpace))", "pars.Int",
       "pars.Word(ascii.Not(ascii.IsSpace))", "pars.Word(ascii.Not(ascii.IsSpace))",
       "pars.Maybe(pars.Count(pars.Filter(ascii.IsUpper), 3).Map(pars.Cat))",
       "pars.AsParser(pars.Line).Map(func0)"] := by decide +kernel

/-- the twelve field names in order of attempt (the model's `fieldParsers` and `extraField`) -/
theorem reader_field_names :
    GbReader.dispatch.map (·.2.2) =
      ["\"DEFINITION\"", "\"ACCESSION\"", "\"VERSION\"", "\"DBLINK\"", "\"KEYWORDS\"", "\"SOURCE\"",
       "\"REFERENCE\"", "\"COMMENT\"", "\"FEATURES\"", "\"CONTIG\"", "\"ORIGIN\"", "pars.Word(ascii.IsUpper)"] := by
  decide +kernel

end Gts.Bridge
