/-
  Bridge, common part: the loop SHAPES go2lean/gseq.go emits for the record-level code of sequence.go /
  nucleotide.go / feature.go (Gts/Gen/Seq*.lean), each with its invariant, and the checked slice
  primitives of Gts/Gen/SeqPrelude.lean.

  A generated loop is shown to HAVE one of these shapes by unfolding it once (`rfl`, or a case split
  on a generated conditional); the names of the Go locals do not occur in the proofs, so renaming them
  keeps every bridge, while a changed step function, a changed bound or an extra statement does not fit
  the shape any more.
-/
import Gts.Gen.SeqPrelude
import Gts.Bridge.LocComplete
namespace Gts.Bridge
open Gts

abbrev GErr := Gts.Pars.Err

/-! ### `for _, x := range L { s = step x s }` -/

/-- a range loop without index whose body is free of panics folds its step over the list -/
theorem foldLoop_shape {α σ : Type} (loop : List α → σ → Except GErr σ) (step : α → σ → σ)
    (h0 : ∀ s, loop [] s = .ok s)
    (hs : ∀ x xs s, loop (x :: xs) s = loop xs (step x s)) :
    ∀ (xs : List α) (s : σ), loop xs s = .ok (xs.foldl (fun s x => step x s) s)
  | [], s => by rw [h0]; rfl
  | x :: xs, s => by rw [hs, foldLoop_shape loop step h0 hs xs]; rfl

/-- a range loop with index whose body is free of panics folds its step over the list, the index
counting from its start value -/
theorem foldIdxLoop_shape {α σ : Type} (loop : List α → Int → σ → Except GErr σ) (step : α → Int → σ → σ)
    (h0 : ∀ i s, loop [] i s = .ok s)
    (hs : ∀ x xs i s, loop (x :: xs) i s = loop xs (i + 1) (step x i s)) :
    ∀ (xs : List α) (i : Int) (s : σ),
      loop xs i s = .ok ((xs.foldl (fun (p : Int × σ) x => (p.1 + 1, step x p.1 p.2)) (i, s)).2)
  | [], i, s => by rw [h0]; rfl
  | x :: xs, i, s => by rw [hs, foldIdxLoop_shape loop step h0 hs xs]; rfl

/-! ### the checked primitives -/

theorem goAt_nat {α : Type} (l : List α) (k : Nat) : Gen.goAt l (k : Int) = l[k]? := by
  simp only [Gen.goAt, Int.toNat_natCast]
  rw [if_neg (by omega)]

theorem goSet_nat {α : Type} (l : List α) (k : Nat) (x : α) (h : k < l.length) :
    Gen.goSet l (k : Int) x = some (l.set k x) := by
  simp only [Gen.goSet, Int.toNat_natCast]
  rw [if_pos (by omega)]

theorem goSet_nat_none {α : Type} (l : List α) (k : Nat) (x : α) (h : l.length ≤ k) :
    Gen.goSet l (k : Int) x = none := by
  simp only [Gen.goSet]
  rw [if_neg (by omega)]

theorem goSetLoc_nat (ff : List Feature) (k : Nat) (l : Loc) (h : k < ff.length) :
    Gen.goSetLoc ff (k : Int) l = some (ff.set k { ff[k] with loc := l }) := by
  simp only [Gen.goSetLoc, goAt_nat, List.getElem?_eq_getElem h, goSet_nat _ _ _ h]

theorem goMakeFeats_nat (n : Nat) : Gen.goMakeFeats (n : Int) = some (List.replicate n default) := by
  simp only [Gen.goMakeFeats, Int.toNat_natCast]
  rw [if_neg (by omega)]

theorem goCopyFeats_full (src : List Feature) :
    Gen.goCopyFeats (List.replicate src.length default) src = src := by
  simp [Gen.goCopyFeats]

/-! ### `for i, f := range ff { ff[i].Loc = g f }` (live reads, `len(ff)` iterations) -/

/-- the in-place loop over a feature slice: entered at index `k` with `k + todo = len(ff)` it rewrites the
location of every cell from `k` on -/
theorem mapLocLoop_shape (loop : Nat → Int → List Feature → Except GErr (List Feature)) (g : Feature → Loc)
    (h0 : ∀ i ff, loop 0 i ff = .ok ff)
    (hs : ∀ t i ff, loop (t + 1) i ff =
      match Gen.goAt ff i with
      | none => .error .panic
      | some f =>
        match Gen.goSetLoc ff i (g f) with
        | none => .error .panic
        | some ff' => loop t (i + 1) ff') :
    ∀ (t k : Nat) (ff : List Feature), k + t = ff.length →
      loop t (k : Int) ff = .ok (ff.take k ++ (ff.drop k).map fun f => { f with loc := g f })
  | 0, k, ff, h => by
    rw [h0]
    have : k = ff.length := by omega
    subst this
    simp
  | t + 1, k, ff, h => by
    have hk : k < ff.length := by omega
    have e : ((k : Int) + 1) = ((k + 1 : Nat) : Int) := by omega
    rw [hs, goAt_nat, List.getElem?_eq_getElem hk]
    simp only [goSetLoc_nat ff k _ hk]
    rw [e, mapLocLoop_shape loop g h0 hs t (k + 1) _ (by simp only [List.length_set]; omega),
      set_take_succ ff k _ hk, set_drop_succ, List.drop_eq_getElem_cons hk]
    simp only [List.map_cons, List.append_assoc, List.cons_append, List.nil_append]

theorem mapLocLoop_all (loop : Nat → Int → List Feature → Except GErr (List Feature)) (g : Feature → Loc)
    (h0 : ∀ i ff, loop 0 i ff = .ok ff)
    (hs : ∀ t i ff, loop (t + 1) i ff =
      match Gen.goAt ff i with
      | none => .error .panic
      | some f =>
        match Gen.goSetLoc ff i (g f) with
        | none => .error .panic
        | some ff' => loop t (i + 1) ff') (ff : List Feature) :
    loop ff.length 0 ff = .ok (ff.map fun f => { f with loc := g f }) := by
  have := mapLocLoop_shape loop g h0 hs ff.length 0 ff (by omega)
  simpa using this

/-! ### tables -/

theorem insertAll_map (acc : Table) (fs : List Feature) (g : Feature → Feature) :
    Table.insertAll acc (fs.map g) = fs.foldl (fun ff f => Table.insert ff (g f)) acc := by
  simp only [Table.insertAll, List.foldl_map]

/-- the fuel of the prelude is the size the bridge of `asComplete` asks for -/
theorem locFuel_eq : ∀ l : Loc, Gen.locFuel l = Loc.size l
  | .between _ | .point _ | .ranged _ _ _ _ | .ambiguous _ _ => rfl
  | .joined ls => by simp only [Gen.locFuel, Loc.size, locFuelList_eq ls]
  | .ordered ls => by simp only [Gen.locFuel, Loc.size, locFuelList_eq ls]
  | .compl l => by simp only [Gen.locFuel, Loc.size, locFuel_eq l]
where
  locFuelList_eq : ∀ ls : List Loc, Gen.locFuelList ls = Loc.sizeList ls
    | [] => rfl
    | l :: ls => by simp only [Gen.locFuelList, Loc.sizeList, locFuel_eq l, locFuelList_eq ls]

theorem asComplete_fuel (l : Loc) : Gen.asComplete (Gen.locFuel l) l = Loc.asComplete l :=
  asComplete_eq _ l (by rw [locFuel_eq]; exact Nat.le_refl _)

end Gts.Bridge
