/-
  Bridge: the per-record step of `gts split`, regenerated from cmd/gts/split.go by go2lean
  (Gts/Gen/CliSplit.lean: the three clauses of the switch; the `unique` map filled with the cut of
  every region, its keys copied into `heads` — in the unspecified order of a Go map, a parameter
  `mapOrder` here —, `sort.Ints`, the repaired one-cut case of a circular record, the `splits` slice
  built by index, the consecutive `gts.Slice` calls), writes exactly the model's `Cli.split` — for
  EVERY record, locator, topology and EVERY iteration order of the map; no index or slice expression
  in it panics.
-/
import Gts.Gen.CliSplit
import Gts.Bridge.CliLoops
import Gts.Lemmas.CliListSort
namespace Gts.Bridge
open Gts
set_option linter.unusedSimpArgs false  -- the guard forms: only the ones the source uses are needed

/-! ### the cut positions -/

/-- one iteration of `for _, r := range rr { head, tail := r.Head(), r.Tail(); if tail < head { head = tail }; unique[head] = nil }` -/
theorem splitStepLoop_shape (mo : List Int → List Int) (locate : Seq → List Reg) (circular : Bool)
    (r : Reg) (rest : List Reg) (unique : List Int) :
    Gen.splitStepLoop mo locate circular (r :: rest) unique =
      Gen.splitStepLoop mo locate circular rest (Gen.clSetAdd unique (Cli.cutOf r)) := by
  simp only [Gen.splitStepLoop, Cli.cutOf]
  by_cases h : r.tail < r.head <;> simp only [h, if_true, if_false]

/-- the set `unique` after the loop: the cuts of the regions, first occurrences in order -/
theorem splitStepLoop_eq (mo : List Int → List Int) (locate : Seq → List Reg) (circular : Bool) (rr : List Reg) :
    Gen.splitStepLoop mo locate circular rr [] = some ((rr.map Cli.cutOf).foldl Gen.clSetAdd []) := by
  rw [foldLoop_spec (Gen.splitStepLoop mo locate circular) (fun u r => Gen.clSetAdd u (Cli.cutOf r))
    (fun _ => rfl) (splitStepLoop_shape mo locate circular), List.foldl_map]

theorem splitStepLoop2_shape (mo : List Int → List Int) (locate : Seq → List Reg) (circular : Bool)
    (head : Int) (rest heads : List Int) (i : Int) :
    Gen.splitStepLoop2 mo locate circular (head :: rest) heads i =
      (Gen.clPut heads i (id head)).bind fun ys => Gen.splitStepLoop2 mo locate circular rest ys (i + 1) := by
  cases h : Gen.clPut heads i head <;> simp [Gen.splitStepLoop2, h]

/-- `heads := make([]int, len(unique)); i := 0; for head := range unique { heads[i] = head; i++ }`: the keys
in the order the map yields them, no store out of range -/
theorem splitStepLoop2_eq (mo : List Int → List Int) (locate : Seq → List Reg) (circular : Bool)
    (keys : List Int) (n : Nat) (h : keys.length = n) :
    Gen.splitStepLoop2 mo locate circular keys (List.replicate n default) 0 = some (keys, (n : Int)) := by
  have := fillCountLoop_spec (Gen.splitStepLoop2 mo locate circular) id (fun _ _ => rfl)
    (splitStepLoop2_shape mo locate circular) keys [] (List.replicate n default) [] (by simp [h])
  simpa [h] using this

/-! ### the `splits` slice -/

theorem splitStepLoop3_shape (mo : List Int → List Int) (locate : Seq → List Reg) (circular : Bool)
    (head : Int) (rest : List Int) (i : Int) (splits : List Int) :
    Gen.splitStepLoop3 mo locate circular (head :: rest) i splits =
      (Gen.clPut splits (i + 1) (id head)).bind fun ys => Gen.splitStepLoop3 mo locate circular rest (i + 1) ys := by
  cases h : Gen.clPut splits (i + 1) head <;> simp [Gen.splitStepLoop3, h]

/-- `for i, head := range heads { splits[i+1] = head }` on `splits = [a] ++ (len(heads) cells) ++ tl` -/
theorem splitStepLoop3_eq (mo : List Int → List Int) (locate : Seq → List Reg) (circular : Bool)
    (heads : List Int) (a : Int) (cells tl : List Int) (h : cells.length = heads.length) :
    Gen.splitStepLoop3 mo locate circular heads 0 (a :: (cells ++ tl)) = some (a :: (heads ++ tl)) := by
  have := fillLoop_spec (Gen.splitStepLoop3 mo locate circular) id 1 (fun _ _ => rfl)
    (splitStepLoop3_shape mo locate circular) heads 0 [a] cells tl (by simp) h
  simpa using this

/-- linear record: `splits := make([]int, len(heads)+2); splits[len(splits)-1] = gts.Len(seq)` -/
theorem splits_linear (heads : List Int) (L : Int) :
    Gen.clMake Int ((heads.length : Int) + 2) = some (List.replicate (heads.length + 2) 0) ∧
    Gen.clPut (List.replicate (heads.length + 2) (0 : Int)) (((List.replicate (heads.length + 2) (0 : Int)).length : Int) - 1) L =
      some (0 :: (List.replicate heads.length 0 ++ [L])) := by
  constructor
  · have e : (heads.length : Int) + 2 = ((heads.length + 2 : Nat) : Int) := by omega
    rw [e, clMake_nat]; rfl
  · have e : (((List.replicate (heads.length + 2) (0 : Int)).length : Int) - 1)
        = (((0 : Int) :: List.replicate heads.length 0).length : Int) := by
      simp only [List.length_replicate, List.length_cons]; omega
    have e2 : List.replicate (heads.length + 2) (0 : Int) = (0 :: List.replicate heads.length 0) ++ 0 :: [] := by
      rw [List.replicate_succ', List.replicate_succ]
    rw [e, e2, clPut_append_length]; rfl

/-- circular record: `splits[0] = heads[len(heads)-1]; splits = splits[:len(splits)-1]` -/
theorem splits_circular (heads : List Int) (a : Int) (l : List Int) (hh : heads = a :: l) :
    Gen.clAt heads ((heads.length : Int) - 1) = some (Cli.lastFrom a l) ∧
    (∀ v : Int, Gen.clPut (List.replicate (heads.length + 2) (0 : Int)) 0 v =
      some (v :: List.replicate (heads.length + 1) 0)) ∧
    (∀ v : Int, Gen.clTo (v :: List.replicate (heads.length + 1) (0 : Int))
        (((v :: List.replicate (heads.length + 1) (0 : Int)).length : Int) - 1) =
      some (v :: List.replicate heads.length 0)) := by
  refine ⟨?_, ?_, ?_⟩
  · subst hh
    have e : (((a :: l).length : Int) - 1) = ((l.length : Nat) : Int) := by
      simp only [List.length_cons]; omega
    rw [e, clAt_nat]
    have := Cli.getLast?_lastFrom a l
    rw [List.getLast?_eq_getElem?] at this
    simpa using this
  · intro v
    have := clPut_append_length ([] : List Int) 0 v (List.replicate (heads.length + 1) 0)
    simpa [List.replicate_succ] using this
  · intro v
    have e : (((v :: List.replicate (heads.length + 1) (0 : Int)).length : Int) - 1)
        = ((heads.length + 1 : Nat) : Int) := by
      simp only [List.length_cons, List.length_replicate]; omega
    rw [e, clTo_nat _ _ (by simp)]
    simp [List.take_replicate]

/-! ### the pieces -/

/-- `for i, tail := range splits[1:] { head := splits[i]; … gts.Slice(seq, head, tail) … }`, entered at
`i = len(pre)` on `splits = pre ++ a :: tl`, ranging over `tl`: the model's `Cli.pieces`, and
`splits[i]` never panics -/
theorem splitStepLoop4_spec (mo : List Int → List Int) (locate : Seq → List Reg) (circular : Bool) (seq : Seq) :
    ∀ (tl pre : List Int) (a : Int) (written : List Seq),
    Gen.splitStepLoop4 mo locate circular seq (pre ++ a :: tl) tl (pre.length : Int) written =
      some (written ++ Cli.pieces seq (a :: tl)) := by
  intro tl
  induction tl with
  | nil => intro pre a written; simp [Gen.splitStepLoop4, Cli.pieces]
  | cons b rest ih =>
    intro pre a written
    simp only [Gen.splitStepLoop4, clAt_append_length]
    have := ih (pre ++ [a]) b (written ++ [seq.slice a b])
    simp only [List.append_assoc, List.singleton_append, List.length_append, List.length_cons,
      List.length_nil, Nat.zero_add] at this
    have e : ((pre.length + 1 : Nat) : Int) = (pre.length : Int) + 1 := by omega
    rw [e] at this
    rw [this, Cli.pieces]

/-- the last loop of the step on `splits = a :: tl` -/
theorem splitStep_pieces (mo : List Int → List Int) (locate : Seq → List Reg) (circular : Bool) (seq : Seq)
    (a : Int) (tl : List Int) (written : List Seq) :
    Gen.clFrom (a :: tl) 1 = some tl ∧
    Gen.splitStepLoop4 mo locate circular seq (a :: tl) tl 0 written = some (written ++ Cli.pieces seq (a :: tl)) := by
  constructor
  · have := clFrom_nat (a :: tl) 1 (by simp)
    simpa using this
  · exact splitStepLoop4_spec mo locate circular seq tl [] a written

/-! ### the step -/

/-- **`gts split`, one record**: the scan-loop body of split.go, as written, hands to `WriteSeq`
exactly the model's `Cli.split` — no region: the record; circular with one region, or (repair
78dc8d4) with one distinct cut: the record turned to that position; else the slices between
consecutive cuts (linear: `0, cuts…, len`; circular: `last cut, cuts…`) — for every order `mapOrder`
in which the Go map may yield its keys (any permutation), and no index / slice / make expression in
it panics. -/
theorem splitStep_eq (mo : List Int → List Int) (hmo : ∀ l, (mo l).Perm l) (locate : Seq → List Reg)
    (circular : Bool) (seq : Seq) :
    Gen.splitStep mo locate circular seq = some (Cli.split locate circular seq) := by
  simp only [Gen.splitStep, Cli.split]
  cases hrr : locate seq with
  | nil => simp
  | cons r0 rest =>
    -- the guards on len(rr), whatever form they are written in, are the model's
    obtain ⟨z1, z2, z3, z4⟩ := guard_zero_forms (r0 :: rest).length
    obtain ⟨o1, o2, o3, o4, o5, o6, o7, o8⟩ :=
      guard_one_forms (r0 :: rest).length (circular = true) (by simp)
    have hlen0 : ¬ ((r0 :: rest).length = 0) := by simp
    simp only [gt_iff_lt, ge_iff_le, z1, z2, z3, z4, o1, o2, o3, o4, o5, o6, o7, o8, hlen0, if_false,
      List.nil_append]
    by_cases h1 : (r0 :: rest).length = 1 ∧ circular = true
    · rw [if_pos h1, if_pos h1]
      simp only [Reg.head, Reg.headList]
    · rw [if_neg h1, if_neg h1]
      -- the cut positions
      generalize hkeys : ((r0 :: rest).map Cli.cutOf).foldl Gen.clSetAdd [] = keys
      have hlenk : (mo keys).length = keys.length := (hmo keys).length_eq
      have hsort : Gen.clSortInts (mo keys) = Cli.sortAscU ((r0 :: rest).map Cli.cutOf) :=
        clSortInts_keys _ _ (hkeys ▸ hmo keys)
      simp only [splitStepLoop_eq, hkeys, clMake_nat, splitStepLoop2_eq mo locate circular (mo keys) keys.length hlenk, hsort]
      generalize hheads : Cli.sortAscU ((r0 :: rest).map Cli.cutOf) = heads
      obtain ⟨a, l, hh⟩ : ∃ a l, heads = a :: l := by
        have : Cli.cutOf r0 ∈ heads := by
          rw [← hheads, Cli.mem_sortAscU]; simp
        cases heads with
        | nil => simp at this
        | cons a l => exact ⟨a, l, rfl⟩
      obtain ⟨p1, p2, p3, p4, p5, p6, p7, p8⟩ :=
        guard_one_forms heads.length (circular = true) (by rw [hh]; simp)
      have pc : (circular = true ∧ heads.length = 1) = (heads.length = 1 ∧ circular = true) :=
        propext And.comm
      simp only [gt_iff_lt, ge_iff_le, p1, p2, p3, p4, p5, p6, p7, p8, pc]
      by_cases h2 : heads.length = 1 ∧ circular = true
      · rw [if_pos h2, if_pos h2]
        subst hh
        simp only [clAt_zero_cons, List.headD_cons]
      · rw [if_neg h2, if_neg h2]
        cases circular with
        | true =>
          obtain ⟨e1, e2, e3⟩ := splits_circular heads a l hh
          have e4 := splitStepLoop3_eq mo locate true heads (Cli.lastFrom a l) (List.replicate heads.length 0) []
            (by simp)
          simp only [List.append_nil] at e4
          obtain ⟨e5, e6⟩ := splitStep_pieces mo locate true seq (Cli.lastFrom a l) heads []
          simp only [(splits_linear heads 0).1, if_true, e1, e2, e3, e4, e5, e6, List.nil_append]
          rw [hh, Cli.getLast?_lastFrom]
          rfl
        | false =>
          have e4 := splitStepLoop3_eq mo locate false heads 0 (List.replicate heads.length 0) [seq.len] (by simp)
          obtain ⟨e5, e6⟩ := splitStep_pieces mo locate false seq 0 (heads ++ [seq.len]) []
          simp only [(splits_linear heads seq.len).1, (splits_linear heads seq.len).2, Bool.false_eq_true, if_false,
            e4, e5, e6, List.nil_append]
          rfl

example : Gen.splitStep List.reverse (fun _ => [.seg 3 1, .seg 2 4, .seg 1 2]) true ⟨[], [1, 2, 3, 4, 5]⟩
    = some (Cli.split (fun _ => [.seg 3 1, .seg 2 4, .seg 1 2]) true ⟨[], [1, 2, 3, 4, 5]⟩) :=
  splitStep_eq _ (fun l => List.reverse_perm l) _ _ _

/-- the calls of the step that are read by specification, and its I/O statements, clause by clause:
every written record is marked linear (`gts.WithTopology(·, gts.Linear)`; the model's sequences
carry no topology) -/
theorem splitStepFacts_eq : Gen.splitStepFacts =
    ["topology", "write", "withTopology Linear", "write", "clSortInts", "withTopology Linear", "write",
     "withTopology Linear", "write", "flush"] := rfl

end Gts.Bridge
