/-
  Bridge (DESIGN.md 4.1b): the GLUE between the library and the CLI as facts — the inventory of cmd/gts and the commands of C19: select, sort, clear, define, annotate.
  The command functions of `/repo/cmd/gts/*.go` that have no regenerated tie of their own, as go2lean extracts them from
  the Go source on every run (`Gts/Gen/CmdFacts.lean`, generator go2lean/cmdfacts.go: normal form, one line per statement,
  locals `v0, v1, …`, parameters by type), are what the hand-written expectation `Gts/Spec/CmdTable.lean` says, line by
  line with what each line does in terms of the library function the model has.

  Per command FILE `cmd_<file>` — every function, method and function literal of the file in normal form, its top-level
  declarations, its types (`rfl`: the kernel compares the two literal tables) — and `cmd_<file>_pipeline` — the library
  calls of the command function in source order with the kinds of the headers above them (no variable name, no line
  number: renaming, re-ordered option declarations, another error text keep it; a library call added, dropped, replaced
  or moved under / out of a condition or loop changes it).  One bridge module per property, so that a change of a
  command file stops the check of ITS property only.
-/
import Gts.Gen.CmdFacts
import Gts.Spec.CmdTable
namespace Gts.Bridge.Cmd

/-- the inventory of cmd/gts: the files and how each is tied (and, for the files that are not given as facts, their
top-level declarations) are the expected ones — a NEW command file shows here with the tie `new` -/
theorem cmd_inventory : Gts.Gen.Cmd.files = Gts.Spec.Cmd.files := rfl

/-- which function runs for which command name (`flags.Register` in the `init` functions of ALL command files) -/
theorem cmd_registered : Gts.Gen.Cmd.registered = Gts.Spec.Cmd.registered := rfl

/-- `gts select`: `Or(Key("source"), invert ? Not(Or(selectors…)) : Or(selectors…))`, then `And(·, strand)`; `Filter` per
record (seeded W10-1 — the strand restriction inside the negation — breaks it, and `cmd_select_pipeline`) -/
theorem cmd_select : Gts.Gen.Cmd.file_select = Gts.Spec.Cmd.file_select ∧ Gts.Gen.Cmd.decls_select = Gts.Spec.Cmd.decls_select ∧
    Gts.Gen.Cmd.types_select = Gts.Spec.Cmd.types_select := ⟨rfl, rfl, rfl⟩

/-- the library pipeline of `gts select` -/
theorem cmd_select_pipeline : Gts.Gen.Cmd.pipeline_select = Gts.Spec.Cmd.pipeline_select := rfl

/-- `gts sort`: `byLength.Less(i, j) = Len(ss[j]) < Len(ss[i])`, `-r` = `sort.Reverse`, `sort.Sort`, all records written -/
theorem cmd_sort : Gts.Gen.Cmd.file_sort = Gts.Spec.Cmd.file_sort ∧ Gts.Gen.Cmd.decls_sort = Gts.Spec.Cmd.decls_sort ∧
    Gts.Gen.Cmd.types_sort = Gts.Spec.Cmd.types_sort := ⟨rfl, rfl, rfl⟩

/-- the library pipeline of `gts sort` -/
theorem cmd_sort_pipeline : Gts.Gen.Cmd.pipeline_sort = Gts.Spec.Cmd.pipeline_sort := rfl

/-- `gts clear`: `Features().Filter(Key("source"))` -/
theorem cmd_clear : Gts.Gen.Cmd.file_clear = Gts.Spec.Cmd.file_clear ∧ Gts.Gen.Cmd.decls_clear = Gts.Spec.Cmd.decls_clear ∧
    Gts.Gen.Cmd.types_clear = Gts.Spec.Cmd.types_clear := ⟨rfl, rfl, rfl⟩

/-- the library pipeline of `gts clear` -/
theorem cmd_clear_pipeline : Gts.Gen.Cmd.pipeline_clear = Gts.Spec.Cmd.pipeline_clear := rfl

/-- `gts define`: one feature (key, `AsLocation`, `-q` qualifiers) `Insert`ed into every record -/
theorem cmd_define : Gts.Gen.Cmd.file_define = Gts.Spec.Cmd.file_define ∧ Gts.Gen.Cmd.decls_define = Gts.Spec.Cmd.decls_define ∧
    Gts.Gen.Cmd.types_define = Gts.Spec.Cmd.types_define := ⟨rfl, rfl, rfl⟩

/-- the library pipeline of `gts define` -/
theorem cmd_define_pipeline : Gts.Gen.Cmd.pipeline_define = Gts.Spec.Cmd.pipeline_define := rfl

/-- `gts annotate`: every feature of the table file is `Insert`ed into every record, in file order -/
theorem cmd_annotate : Gts.Gen.Cmd.file_annotate = Gts.Spec.Cmd.file_annotate ∧ Gts.Gen.Cmd.decls_annotate = Gts.Spec.Cmd.decls_annotate ∧
    Gts.Gen.Cmd.types_annotate = Gts.Spec.Cmd.types_annotate := ⟨rfl, rfl, rfl⟩

/-- the library pipeline of `gts annotate` -/
theorem cmd_annotate_pipeline : Gts.Gen.Cmd.pipeline_annotate = Gts.Spec.Cmd.pipeline_annotate := rfl

end Gts.Bridge.Cmd
