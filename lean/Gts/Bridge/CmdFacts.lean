/-
  Bridge (DESIGN.md 4.1b): the GLUE between the library and the CLI — the command functions of
  `/repo/cmd/gts/{select,sort,reverse,complement,repair,clear,define,pick,query,search,join,summary,annotate,length}.go`,
  which have no regenerated tie of their own — as go2lean extracts them from the Go source on every run
  (`Gts/Gen/CmdFacts.lean`, generator go2lean/cmdfacts.go) are what the hand-written expectation
  `Gts/Spec/CmdTable.lean` says, line by line with what each line does in terms of the library function the model has.

  One theorem per command FILE (`cmd_<file>`, the kernel compares the two literal tables), so that a change names the
  file that changed; `cmd_inventory` (a new command file, a new function in a file, a command registered under another
  name or for another function breaks it); `cmd_pipelines`: the library calls of EVERY command function (the six
  multi-site ones included) in source order with the kinds of the headers they stand under — no variable name, no line
  number.
-/
import Gts.Gen.CmdFacts
import Gts.Spec.CmdTable
namespace Gts.Bridge.Cmd

/-- the inventory of cmd/gts: the files, how each is tied, and their top-level declarations are the expected ones — a
NEW command file (tie `new`), a new helper function, a removed one shows here -/
theorem cmd_inventory : Gts.Gen.Cmd.files = Gts.Spec.Cmd.files := rfl

/-- which function runs for which command name (`flags.Register` in the `init` functions) -/
theorem cmd_registered : Gts.Gen.Cmd.registered = Gts.Spec.Cmd.registered := rfl

/-- the types the command files declare (`byLength = []gts.Sequence` …) -/
theorem cmd_types : Gts.Gen.Cmd.types = Gts.Spec.Cmd.types := rfl

/-- `gts annotate`: every feature of the table file is `Insert`ed into every record, in file order -/
theorem cmd_annotate : Gts.Gen.Cmd.file_annotate = Gts.Spec.Cmd.file_annotate := rfl

/-- `gts clear`: `Features().Filter(Key("source"))` -/
theorem cmd_clear : Gts.Gen.Cmd.file_clear = Gts.Spec.Cmd.file_clear := rfl

/-- `gts complement`: `gts.Complement` per record and nothing else -/
theorem cmd_complement : Gts.Gen.Cmd.file_complement = Gts.Spec.Cmd.file_complement := rfl

/-- `gts define`: one feature (key, `AsLocation`, `-q` qualifiers) `Insert`ed into every record -/
theorem cmd_define : Gts.Gen.Cmd.file_define = Gts.Spec.Cmd.file_define := rfl

/-- `gts join`: `gts.Concat` of all records, `-c` sets the topology -/
theorem cmd_join : Gts.Gen.Cmd.file_join = Gts.Spec.Cmd.file_join := rfl

/-- `gts length`: `gts.Len` per record, one decimal line -/
theorem cmd_length : Gts.Gen.Cmd.file_length = Gts.Spec.Cmd.file_length := rfl

/-- `gts pick`: the `cut`-style list, records numbered from 1 -/
theorem cmd_pick : Gts.Gen.Cmd.file_pick = Gts.Spec.Cmd.file_pick := rfl

/-- `gts query`: the feature report -/
theorem cmd_query : Gts.Gen.Cmd.file_query = Gts.Spec.Cmd.file_query := rfl

/-- `gts repair`: `gts.Repair` on the table of every record and nothing else -/
theorem cmd_repair : Gts.Gen.Cmd.file_repair = Gts.Spec.Cmd.file_repair := rfl

/-- `gts reverse`: `gts.Reverse` per record and nothing else -/
theorem cmd_reverse : Gts.Gen.Cmd.file_reverse = Gts.Spec.Cmd.file_reverse := rfl

/-- `gts search`: `Match` / `Search` per query on the record and on its reverse complement; the features it adds -/
theorem cmd_search : Gts.Gen.Cmd.file_search = Gts.Spec.Cmd.file_search := rfl

/-- `gts select`: `Or(Key("source"), invert ? Not(Or(selectors…)) : Or(selectors…))`, then `And(·, strand)`; `Filter` per
record (seeded W10-1 — the strand restriction inside the negation — breaks it) -/
theorem cmd_select : Gts.Gen.Cmd.file_select = Gts.Spec.Cmd.file_select := rfl

/-- `gts sort`: `byLength.Less(i, j) = Len(ss[j]) < Len(ss[i])`, `-r` = `sort.Reverse`, `sort.Sort`, all records written -/
theorem cmd_sort : Gts.Gen.Cmd.file_sort = Gts.Spec.Cmd.file_sort := rfl

/-- `gts summary`: the text report -/
theorem cmd_summary : Gts.Gen.Cmd.file_summary = Gts.Spec.Cmd.file_summary := rfl

/-- the library pipeline of EVERY command function (also delete / insert / infix / split / rotate / extract): the calls
of `gts.*` / `seqio.*` and the methods of library values in source order, each with the kinds of the headers above it.
Renaming, re-ordering of option declarations, another error text keep it; a library call added, dropped, replaced or
moved under / out of a condition or loop changes it (seeded W10-1: `gts.And` in front of `gts.Not`). -/
theorem cmd_pipelines : Gts.Gen.Cmd.pipeline = Gts.Spec.Cmd.pipeline := rfl

end Gts.Bridge.Cmd
