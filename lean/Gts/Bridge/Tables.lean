/-
  C07 bridge (DESIGN.md 4.1b): the tables go2lean extracts from seqio/date.go, molecule.go and
  topology.go on every run equal the tables of the hand-written models, and say what a calendar
  says.  A changed map entry, `case` label or leap-year clause breaks these theorems.
-/
import Gts.Gen.Date
import Gts.Gen.MolTop
import Gts.Model.Date
import Gts.Model.MolTop
namespace Gts.Bridge

/-- `monthMap` in the source is the model's table -/
theorem monthMap_eq : Gen.monthMap = Date.monthTable := by decide

/-- `dayMap` in the source is the model's table -/
theorem dayMap_eq : Gen.dayMap = Date.dayTable := by decide

/-- the expected calendar: month `m` (1-based) has `days[m-1]` days in a common year -/
def calendarDays : List Nat := [31, 28, 31, 30, 31, 30, 31, 31, 30, 31, 30, 31]

/-- `dayMap` has exactly the twelve months with the calendar's lengths -/
theorem dayMap_calendar : Gen.dayMap = (List.range 12).map fun i => (i + 1, calendarDays.getD i 0) := by
  decide

/-- `monthMap` has, for every month `m`, exactly the three spellings `JAN`, `Jan`, `01` … and
nothing else (36 keys) -/
theorem monthMap_calendar :
    Gen.monthMap = (List.range 12).flatMap fun i =>
      [(Date.monthNames.getD i [], i + 1),
       ((Date.monthNames.getD i []).take 1 ++ ((Date.monthNames.getD i []).drop 1).map (· + 32), i + 1),
       ([48 + UInt8.ofNat ((i + 1) / 10), 48 + UInt8.ofNat ((i + 1) % 10)], i + 1)] := by
  decide

/-- the clauses of `isLeapYear` in the source are those of the model -/
theorem leap_clauses : Gen.leapCases = [(400, true), (100, false)] ∧ Gen.leapDefault = 4 := by decide

/-- `isLeapYear` as extracted is the model's `isLeapYear` -/
theorem isLeapYear_eq : Gen.isLeapYear = Date.isLeapYear := by
  funext y
  unfold Gen.isLeapYear Date.isLeapYear
  simp only [Gen.leapCases, Gen.leapDefault, List.find?_cons, List.find?_nil]
  have b400 : (y.tmod 400 == 0) = decide (y.tmod 400 = 0) := by
    by_cases h : y.tmod 400 = 0 <;> simp [h]
  have b100 : (y.tmod 100 == 0) = decide (y.tmod 100 = 0) := by
    by_cases h : y.tmod 100 = 0 <;> simp [h]
  have b4 : (y.tmod 4 == 0) = decide (y.tmod 4 = 0) := by
    by_cases h : y.tmod 4 = 0 <;> simp [h]
  rw [b400, b100, b4]
  by_cases h400 : y.tmod 400 = 0
  · simp [h400]
  · by_cases h100 : y.tmod 100 = 0
    · simp [h400, h100]
    · simp [h400, h100]

/-- the `case` labels of `AsMolecule` are the model's, and every case returns the constant whose
value is the label itself -/
theorem molecule_cases :
    Gen.moleculeCases.map (·.1) = MolTop.moleculeCases ∧ ∀ c ∈ Gen.moleculeCases, c.1 = c.2 := by
  decide

/-- the `case` labels and values of `AsTopology` are the model's -/
theorem topology_cases : Gen.topologyCases = MolTop.topologyCases := by decide

end Gts.Bridge
