/-
  Bridge: `Location.Region()` over the seven kinds, regenerated from location.go by go2lean
  (Gts/Gen/LocRegion.lean: the contiguous kinds as the pair of a `Segment`, `Joined.Region` /
  `Ordered.Region` translated on the list of the regions of the parts — `make(Regions, n)` and the
  loop `rr[i] = l.Region()` literally —, `Complemented.Region` through the regenerated
  `Region.Complement` of Gts/Gen/RegionRec.lean), is the hand-written model's `Loc.region`
  (Gts/Model/Region.lean) — for EVERY location (structural induction).  `Loc.region` is what
  `locate_bytes` / `region_den` (C05) and the locators of C08 are about.
-/
import Gts.Gen.LocRegion
import Gts.Bridge.RegionRec
namespace Gts.Bridge
open Gts

theorem take_succ_set {α : Type} (rr : List α) (k : Nat) (x : α) (h : k < rr.length) :
    (rr.set k x).take (k + 1) = rr.take k ++ [x] := by
  rw [List.set_eq_take_append_cons_drop, if_pos h]
  have hk : (rr.take k).length = k := by simp only [List.length_take]; omega
  rw [List.take_append, hk, List.take_take, Nat.min_eq_right (Nat.le_succ k)]
  simp

/-- a loop of the shape `for i, l := range src { rr[i] = l }` entered at index `k` with `rr` as long as
what is filled plus what is left, ends with the cells from `k` on holding the rest of `src` -/
theorem fillLoop_shape (loop : List Reg → Int → List Reg → List Reg)
    (hnil : ∀ i rr, loop [] i rr = rr)
    (hcons : ∀ l rest i rr, loop (l :: rest) i rr = loop rest (i + 1) (rr.set (Int.toNat i) l)) :
    ∀ (rest : List Reg) (k : Nat) (rr : List Reg), rr.length = k + rest.length →
      loop rest (k : Int) rr = rr.take k ++ rest
  | [], k, rr, h => by
    rw [hnil]
    simp only [List.length_nil, Nat.add_zero] at h
    simp [← h]
  | l :: rest, k, rr, h => by
    simp only [List.length_cons] at h
    rw [hcons]
    have e : ((k : Int) + 1) = ((k + 1 : Nat) : Int) := by omega
    rw [e, Int.toNat_natCast, fillLoop_shape loop hnil hcons rest (k + 1) _ (by simp only [List.length_set]; omega),
      take_succ_set rr k l (by omega)]
    simp

/-- `Joined.Region()` on the regions of the parts: the list itself -/
theorem joinedRegion_eq (rs : List Reg) : Gen.joinedRegion rs = rs := by
  have := fillLoop_shape Gen.joinedRegionLoop (fun _ _ => rfl) (fun _ _ _ _ => rfl) rs 0
    (List.replicate rs.length default) (by simp)
  simpa [Gen.joinedRegion] using this

/-- `Ordered.Region()` on the regions of the parts: the list itself -/
theorem orderedRegion_eq (rs : List Reg) : Gen.orderedRegion rs = rs := by
  have := fillLoop_shape Gen.orderedRegionLoop (fun _ _ => rfl) (fun _ _ _ _ => rfl) rs 0
    (List.replicate rs.length default) (by simp)
  simpa [Gen.orderedRegion] using this

mutual
/-- `Location.Region()` as location.go defines it now over the seven kinds is the model's
`Loc.region` -/
theorem locRegion_eq : ∀ (l : Loc), Gen.locRegion l = Loc.region l
  | .between _ => by simp only [Gen.locRegion, Gen.betweenRegion, Loc.region]
  | .point _ => by simp only [Gen.locRegion, Gen.pointRegion, Loc.region]
  | .ranged _ _ _ _ => by simp only [Gen.locRegion, Gen.rangedRegion, Loc.region]
  | .ambiguous _ _ => by simp only [Gen.locRegion, Gen.ambiguousRegion, Loc.region]
  | .joined ls => by simp only [Gen.locRegion, Loc.region, locRegionList_eq ls, joinedRegion_eq]
  | .ordered ls => by simp only [Gen.locRegion, Loc.region, locRegionList_eq ls, orderedRegion_eq]
  | .compl l => by
    simp only [Gen.locRegion, Gen.complementedRegion, Loc.region, locRegion_eq l, regComplement_eq]
theorem locRegionList_eq : ∀ (ls : List Loc), Gen.locRegionList ls = Loc.regionList ls
  | [] => rfl
  | l :: ls => by simp only [Gen.locRegionList, Loc.regionList, locRegion_eq l, locRegionList_eq ls]
end

-- non-vacuity: complement(join(..)) flips the order of the parts and the ends of the segments
example : Gen.locRegion (.compl (.joined [.ranged 3 9 false false, .point 12])) =
    .many [.seg 13 12, .seg 9 3] := by rfl

end Gts.Bridge
