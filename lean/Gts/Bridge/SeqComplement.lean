/-
  Bridge: `replaceBytes` and the record-level `gts.Complement` / `gts.Transcribe`, regenerated from nucleotide.go
  by go2lean (Gts/Gen/SeqComplement.lean: the loop `for i, c := range p` with its `switch j := bytes.IndexByte(old, c)`
  as a recursion over the bytes — `q[i] = …`, `new[j]` as checked operations —, the alphabets as the literals of
  the call, the loop `for i, f := range seq.Features() { ff[i] = Feature{f.Key, f.Loc.Complement(), f.Props.Clone()} }`
  with its checked stores), are the hand-written model's `Nuc.replaceBytes` (Gts/Model/Nuc.lean) and
  `Seq.complementRec` (Gts/Model/SeqNuc.lean) — for EVERY input, the panic (`new[j]` out of range: the
  replacement alphabet shorter than the source alphabet) included: `none` on the model side is `.error .panic`
  here.  With the alphabets of nucleotide.go that panic is unreachable (C05 `seq_complement_total`, C18).

  Metadata: untouched.  The feature table is NOT re-sorted (`WithFeatures`), the residues are a fresh slice.
-/
import Gts.Gen.SeqComplement
import Gts.Model.SeqNuc
import Gts.Bridge.SeqBase
import Gts.Bridge.LocComplement
namespace Gts.Bridge
open Gts

/-- a model outcome (`none` = panic) as an outcome of the generated code -/
def ofOption {α : Type} : Option α → Except GErr α
  | some a => .ok a
  | none => .error .panic

theorem goIndexByte_eq : ∀ (s : List UInt8) (c : UInt8),
    Gen.goIndexByte s c = match Nuc.indexByte s c with | none => -1 | some j => (j : Int)
  | [], _ => rfl
  | x :: xs, c => by
    simp only [Gen.goIndexByte, Nuc.indexByte, goIndexByte_eq xs c, beq_iff_eq]
    by_cases h : x = c
    · simp [h]
    · simp only [if_neg h]
      cases Nuc.indexByte xs c with
      | none => simp
      | some j =>
        have : ¬ ((j : Int) < 0) := by omega
        simp only [Option.map_some, if_neg this, Int.natCast_add, Int.cast_ofNat_Int]

theorem goStore_nat (q : List UInt8) (k : Nat) (c : UInt8) (h : k < q.length) :
    Gen.goStore q (k : Int) c = some (q.set k c) := by
  simp only [Gen.goStore, Int.toNat_natCast]
  rw [if_pos (by omega)]

theorem goIndex_nat (p : List UInt8) (k : Nat) : Gen.goIndex p (k : Int) = p[k]? := by
  simp only [Gen.goIndex, Int.toNat_natCast]
  rw [if_neg (by omega)]

/-- the loop of `replaceBytes`, entered at index `k` with `k + len(cs) = len(q)`: the cells from `k` on are
filled with the replacements, or the first `new[j]` out of range panics -/
theorem seqReplaceBytesLoop_eq (old new : List UInt8) : ∀ (cs : List UInt8) (k : Nat) (q : List UInt8),
    q.length = k + cs.length →
    Gen.seqReplaceBytesLoop old new cs (k : Int) q =
      ofOption ((Nuc.replaceBytes cs old new).map fun r => q.take k ++ r)
  | [], k, q, h => by
    have : k = q.length := by simpa using h.symm
    subst this
    simp [Gen.seqReplaceBytesLoop, Nuc.replaceBytes, ofOption]
  | c :: cs, k, q, h => by
    have hk : k < q.length := by simp only [List.length_cons] at h; omega
    have e : ((k : Int) + 1) = ((k + 1 : Nat) : Int) := by omega
    have ih := fun x => seqReplaceBytesLoop_eq old new cs (k + 1) (q.set k x)
      (by simp only [List.length_set, List.length_cons] at h ⊢; omega)
    simp only [Gen.seqReplaceBytesLoop, goIndexByte_eq, Nuc.replaceBytes, Nuc.replaceByte]
    cases hj : Nuc.indexByte old c with
    | none =>
      simp only [if_pos, goStore_nat q k c hk, e, ih, set_take_succ q k _ hk]
      cases Nuc.replaceBytes cs old new <;> simp [ofOption]
    | some j =>
      have hne : ¬ ((j : Int) = -1) := by omega
      simp only [if_neg hne, goIndex_nat]
      cases hx : new[j]? with
      | none => simp [ofOption]
      | some x =>
        simp only [goStore_nat q k x hk, e, ih, set_take_succ q k _ hk]
        cases Nuc.replaceBytes cs old new <;> simp [ofOption]

/-- `replaceBytes` as nucleotide.go defines it now is the model's `Nuc.replaceBytes`, panic included -/
theorem seqReplaceBytes_eq (p old new : List UInt8) :
    Gen.seqReplaceBytes p old new = ofOption (Nuc.replaceBytes p old new) := by
  have hm : ¬ ((p.length : Int) < 0) := by omega
  have := seqReplaceBytesLoop_eq old new p 0 (List.replicate p.length 0) (by simp)
  simp only [Int.cast_ofNat_Int] at this
  simp only [Gen.seqReplaceBytes, Gen.goMake, if_neg hm, Int.toNat_natCast, this]
  cases Nuc.replaceBytes p old new <;> simp [ofOption]

/-- a loop of the shape `for i, x := range xs { out[i] = g x }` entered at index `k` with
`k + len(xs) = len(out)` fills the cells from `k` on -/
theorem fillFeatsLoop_shape (loop : List Feature → Int → List Feature → Except GErr (List Feature)) (g : Feature → Feature)
    (h0 : ∀ i out, loop [] i out = .ok out)
    (hs : ∀ x xs i out, loop (x :: xs) i out =
      match Gen.goSet out i (g x) with
      | none => .error .panic
      | some out' => loop xs (i + 1) out') :
    ∀ (xs : List Feature) (k : Nat) (out : List Feature), out.length = k + xs.length →
      loop xs (k : Int) out = .ok (out.take k ++ xs.map g)
  | [], k, out, h => by
    rw [h0]
    have : k = out.length := by simpa using h.symm
    subst this
    simp
  | x :: xs, k, out, h => by
    have hk : k < out.length := by simp only [List.length_cons] at h; omega
    have e : ((k : Int) + 1) = ((k + 1 : Nat) : Int) := by omega
    rw [hs]
    simp only [goSet_nat out k _ hk]
    rw [e, fillFeatsLoop_shape loop g h0 hs xs (k + 1) _ (by simp only [List.length_set, List.length_cons] at h ⊢; omega),
      set_take_succ out k _ hk]
    simp

/-- the loop of `Complement` writes the complemented feature into every cell -/
theorem seqComplementLoop_eq (fs : List Feature) :
    Gen.seqComplementLoop fs 0 (List.replicate fs.length default) =
      .ok (fs.map fun f => { f with loc := f.loc.complement }) := by
  have := fillFeatsLoop_shape Gen.seqComplementLoop (fun f : Feature => { f with loc := Gen.locComplement f.loc })
    (fun _ _ => rfl) (fun _ _ _ _ => rfl) fs 0 (List.replicate fs.length default) (by simp)
  simp only [Int.cast_ofNat_Int, List.take_zero, List.nil_append, locComplement_eq] at this
  exact this

theorem complementAlphabets :
    ([65, 67, 71, 84, 85, 82, 89, 75, 77, 66, 68, 72, 86, 97, 99, 103, 116, 117, 114, 121, 107, 109, 98, 100, 104, 118] : List UInt8) = Gen.complementFrom ∧
    ([84, 71, 67, 65, 65, 89, 82, 77, 75, 86, 72, 68, 66, 116, 103, 99, 97, 97, 121, 114, 109, 107, 118, 104, 100, 98] : List UInt8) = Gen.complementTo ∧
    ([65, 67, 71, 84, 85, 82, 89, 75, 77, 66, 68, 72, 86, 97, 99, 103, 116, 117, 114, 121, 107, 109, 98, 100, 104, 118] : List UInt8) = Gen.transcribeFrom ∧
    ([85, 71, 67, 65, 65, 89, 82, 77, 75, 86, 72, 68, 66, 117, 103, 99, 97, 97, 121, 114, 109, 107, 118, 104, 100, 98] : List UInt8) = Gen.transcribeTo :=
  ⟨rfl, rfl, rfl, rfl⟩

/-- `gts.Complement` as nucleotide.go defines it now is the model's `Seq.complementRec`, for every sequence
(the model's `none` is the panic of `replaceBytes`) -/
theorem seqComplement_eq {ι : Type} (i : ι) (s : Seq) :
    Gen.seqComplement i s.feats s.bytes = ofOption (s.complementRec.map fun r => (i, r.feats, r.bytes)) := by
  have hm : ¬ ((s.feats.length : Int) < 0) := by omega
  simp only [Gen.seqComplement, seqReplaceBytes_eq, complementAlphabets.1, complementAlphabets.2.1,
    Seq.complementRec, Nuc.complementBytes]
  cases Nuc.replaceBytes s.bytes Gen.complementFrom Gen.complementTo with
  | none => rfl
  | some p => simp [ofOption, goMakeFeats_nat, seqComplementLoop_eq]

/-- `gts.Transcribe` as nucleotide.go defines it now: the residues through `Nuc.transcribeBytes`, metadata and
features as they are -/
theorem seqTranscribe_eq {ι : Type} (i : ι) (s : Seq) :
    Gen.seqTranscribe i s.feats s.bytes = ofOption ((Nuc.transcribeBytes s.bytes).map fun p => (i, s.feats, p)) := by
  simp only [Gen.seqTranscribe, seqReplaceBytes_eq, complementAlphabets.2.2.1, complementAlphabets.2.2.2,
    Nuc.transcribeBytes]
  cases Nuc.replaceBytes s.bytes Gen.transcribeFrom Gen.transcribeTo <;> rfl

-- non-vacuity
example : Gen.seqComplement (ι := Unit) () [⟨"gene", .ranged 0 2 true false, []⟩] [65, 67, 71, 85, 110] =
    .ok ((), [⟨"gene", .compl (.ranged 0 2 true false), []⟩], [84, 71, 67, 65, 110]) := by
  set_option maxRecDepth 8000 in rfl
example : Gen.seqReplaceBytes [65, 67] [65, 67] [84] = .error .panic := by rfl

end Gts.Bridge
