/-
  Bridge: the per-record step of `gts rotate`, regenerated from cmd/gts/rotate.go by go2lean
  (Gts/Gen/CliRotate.lean: `rr := locate(seq); if len(rr) > 0 { seq = gts.Rotate(seq, -rr[0].Head()) }`),
  writes exactly one record, the model's `Cli.rotate` — for EVERY record and locator; the index
  `rr[0]` is guarded.
-/
import Gts.Gen.CliRotate
import Gts.Bridge.CliLoops
namespace Gts.Bridge
open Gts
set_option linter.unusedSimpArgs false  -- the guard forms: only the one the source uses is needed

/-- **`gts rotate`, one record**: the scan-loop body of rotate.go, as written, hands exactly one
record to `WriteSeq` — the model's `Cli.rotate` (the record turned so that the head of the FIRST
located region is its origin; no region: unchanged) — and `rr[0]` does not panic. -/
theorem rotateStep_eq (locate : Seq → List Reg) (seq : Seq) :
    Gen.rotateStep locate seq = some [Cli.rotate locate seq] := by
  simp only [Gen.rotateStep, Cli.rotate]
  cases h : locate seq with
  | nil => simp
  | cons r rest =>
    -- the guard on len(rr), whatever form it is written in, holds
    obtain ⟨g1, g2, g3, g4⟩ := guard_pos_forms (r :: rest).length
    have : (r :: rest).length ≠ 0 := by simp
    simp only [gt_iff_lt, ge_iff_le, g1, g2, g3, g4, clAt_zero_cons, List.nil_append]
    rw [if_pos this]

example : Gen.rotateStep (fun _ => [.seg 2 4, .seg 1 3]) ⟨[], [1, 2, 3, 4, 5]⟩
    = some [Cli.rotate (fun _ => [.seg 2 4, .seg 1 3]) ⟨[], [1, 2, 3, 4, 5]⟩] := rotateStep_eq _ _

/-- the result is marked circular (`gts.WithTopology(seq, gts.Circular)`; the model's sequences carry
no topology) and written once -/
theorem rotateStepFacts_eq : Gen.rotateStepFacts = ["withTopology Circular", "write", "flush"] := rfl

end Gts.Bridge
