/-
  C07 / C01 / C06 bridge (DESIGN.md 4.1a): the STATE of go-pars — stack.go and state.go of github.com/go-pars/pars
  v1.1.6, regenerated statement by statement on every run (`Gts/Gen/Pars.lean`, generator go2lean/gparsfn.go) — is
  what the hand-written model `Gts/Model/Pars.lean` says it is.

  The Go state is a buffer with an offset, the end of the requested range, a reader that fills the buffer in
  chunks, and a stack of (offset, position) frames in a slice with a fill index; `Clear` — and `autoclear`,
  whenever the stack runs empty in `Advance` / `Pop` / `Drop` — throws the consumed bytes away and re-bases every
  offset.  The model's state `PS` is "the rest of the input + the rests at the saved positions".

  * `absState pend g` is the ABSTRACTION FUNCTION (`pend rd err` = what the reader still holds), `Inv g` the
    representation invariant: the fill index points into the cell array, offset and saved offsets lie inside the
    buffer, nothing pushed ⇒ offset 0, and the OLDEST frame has offset 0 — which is why `Trail` may subtract
    `state.Offset()` AFTER `Pop` although `Pop` re-bases the buffer when it takes the last frame.
  * what is ASSUMED is `FillOk`: the read loop at the head of `State.Request` (a parameter of the generated code)
    changes nothing but buffer / reader / reader error, keeps the input as a whole, only lets the buffer grow,
    and leaves it short of the requested bytes only when the reader has ended.
  * `push_sim`, `pop_sim`, `drop_sim`, `clear_sim`, `pushed_sim`, `request_sim`, `advance_sim`, `next_sim`,
    `trail_sim`: from EVERY state that meets `Inv` the generated function does not panic (except where the model
    panics too: `Trail` behind a saved position), re-establishes `Inv`, and its effect read through `absState` is
    the run of `Pars.push / pop / drop / clear / pushed / request / advanceN / next / trail`.
    `stackPop_empty_panics`: the raw `stack.Pop` does panic on an empty stack (`v[-1]`), `State.Pop` / `Drop`
    guard it (`pars_stackPop_guarded`); `advance_without_request_panics`.
  Proofs by the list lemmas of core (`take`, `drop`, `set`), `omega` for the offsets; no decisions on samples.
-/
import Gts.Gen.Pars
import Gts.Model.Pars
import Gts.Lemmas.ParsSafe
namespace Gts.Bridge
open Gts.Gen.GoPars
open Gts.Pars (PS Bytes)

def liveFrames (k : Stack) : List Frame := (k.v.take k.i.toNat).reverse
def WfStk (k : Stack) : Prop := 0 ≤ k.i ∧ k.i ≤ (k.v.length : Int)

theorem wfStk_nat {k : Stack} (h : WfStk k) : ∃ n : Nat, k.i = n ∧ n ≤ k.v.length := by
  obtain ⟨h0, h1⟩ := h
  exact ⟨k.i.toNat, by omega, by omega⟩

theorem stackEmpty_eq (k : Stack) (h : WfStk k) : stackEmpty k = (liveFrames k).isEmpty := by
  obtain ⟨n, hn, hle⟩ := wfStk_nat h
  obtain ⟨v, i⟩ := k
  simp only at hn hle
  subst hn
  unfold stackEmpty liveFrames
  cases n with
  | zero => simp
  | succ m =>
    cases v with
    | nil => simp at hle
    | cons a t =>
      have h1 : ¬ ((m : Int) + 1 = 0) := by omega
      simp [h1]

theorem stackReset_live (k : Stack) : liveFrames (stackReset k) = [] ∧ WfStk (stackReset k) := by
  simp [stackReset, liveFrames, WfStk]

theorem stackPush_k1_spec (v : List Frame) (n : Nat) (hlt : n < v.length) (o : Int) (p : Position) :
    stackPush_k1 ⟨v, n⟩ o p = some ⟨v.set n ⟨o, p⟩, (n : Int) + 1⟩ ∧
    WfStk ⟨v.set n ⟨o, p⟩, (n : Int) + 1⟩ ∧
    liveFrames ⟨v.set n ⟨o, p⟩, (n : Int) + 1⟩ = ⟨o, p⟩ :: liveFrames ⟨v, n⟩ := by
  refine ⟨?_, ?_, ?_⟩
  · simp [stackPush_k1, goSet, hlt]
  · simp [WfStk]; omega
  · simp only [liveFrames]
    have : ((n : Int) + 1).toNat = n + 1 := by omega
    rw [this, Int.toNat_natCast, List.take_add_one]
    simp [List.take_set_of_le, hlt]

theorem stackPush_spec (k : Stack) (h : WfStk k) (o : Int) (p : Position) :
    ∃ k', stackPush k o p = some k' ∧ WfStk k' ∧ liveFrames k' = ⟨o, p⟩ :: liveFrames k := by
  obtain ⟨n, hn, hle⟩ := wfStk_nat h
  obtain ⟨v, i⟩ := k
  simp only at hn hle
  subst hn
  unfold stackPush
  split
  · rename_i heq
    simp only at heq
    have hnl : n = v.length := by omega
    have hlt : n < (v ++ List.replicate 16 (⟨0, ⟨0, 0⟩⟩ : Frame)).length := by simp; omega
    obtain ⟨h1, h2, h3⟩ := stackPush_k1_spec (v ++ List.replicate 16 ⟨0, ⟨0, 0⟩⟩) n hlt o p
    refine ⟨_, h1, h2, ?_⟩
    rw [h3]
    simp [liveFrames, hnl]
  · rename_i hne
    simp only at hne
    have hlt : n < v.length := by omega
    obtain ⟨h1, h2, h3⟩ := stackPush_k1_spec v n hlt o p
    exact ⟨_, h1, h2, h3⟩

theorem stackPop_spec (k : Stack) (h : WfStk k) :
    match liveFrames k with
    | [] => stackPop k = none
    | f :: fs => ∃ k', stackPop k = some (k', f.Off, f.Pos) ∧ WfStk k' ∧ liveFrames k' = fs := by
  obtain ⟨n, hn, hle⟩ := wfStk_nat h
  obtain ⟨v, i⟩ := k
  simp only at hn hle
  subst hn
  cases n with
  | zero => simp [liveFrames, stackPop, goIdx]
  | succ m =>
    have hlt : m < v.length := by omega
    have : liveFrames ⟨v, ((m + 1 : Nat) : Int)⟩ = v[m] :: liveFrames ⟨v, (m : Int)⟩ := by
      show (v.take ((m + 1 : Nat) : Int).toNat).reverse = v[m] :: (v.take ((m : Nat) : Int).toNat).reverse
      rw [Int.toNat_natCast, Int.toNat_natCast, List.take_add_one, List.getElem?_eq_getElem hlt]
      simp
    rw [this]
    refine ⟨⟨v, m⟩, ?_, ?_, rfl⟩
    · have e : ((m + 1 : Nat) : Int) - 1 = (m : Int) := by omega
      have hm : ¬ ((m : Int) < 0) := by omega
      unfold stackPop
      simp only [e]
      simp only [goIdx, hm, if_false, Int.toNat_natCast, List.getElem?_eq_getElem hlt, Option.bind_some]
    · show 0 ≤ (m : Int) ∧ (m : Int) ≤ (v.length : Int)
      omega

/-! ### the state -/

section State
variable {ρ ε : Type}

/-- everything from the start of the buffer on: the buffer, then what the reader still holds (`pend`) -/
def parsInput (pend : ρ → Option ε → Bytes) (g : State ρ ε) : Bytes := g.buf ++ pend g.rd g.err

/-- saved offsets as remaining inputs -/
def absStk (inp : Bytes) (fs : List Frame) : List Bytes := fs.map fun f => inp.drop f.Off.toNat

/-- THE ABSTRACTION: the state of the model `Gts.Pars.PS` a Go state stands for -/
def absState (pend : ρ → Option ε → Bytes) (g : State ρ ε) : PS :=
  ⟨(parsInput pend g).drop g.off.toNat, absStk (parsInput pend g) (liveFrames g.stk)⟩

/-- the representation invariant of `pars.State` -/
structure Inv (g : State ρ ε) : Prop where
  wf : WfStk g.stk
  off0 : 0 ≤ g.off
  offLe : g.off ≤ (g.buf.length : Int)
  frames : ∀ f ∈ liveFrames g.stk, 0 ≤ f.Off ∧ f.Off ≤ (g.buf.length : Int)
  emptyOff : liveFrames g.stk = [] → g.off = 0
  bottom : ∀ f, (liveFrames g.stk).getLast? = some f → f.Off = 0

theorem statePushed_eq (pend : ρ → Option ε → Bytes) (g : State ρ ε) (h : Inv g) :
    statePushed g = !(absState pend g).stk.isEmpty := by
  simp only [statePushed, stackEmpty_eq _ h.wf, absState, absStk, List.isEmpty_map]
  cases liveFrames g.stk <;> simp

theorem statePush_spec (pend : ρ → Option ε → Bytes) (g : State ρ ε) (h : Inv g) :
    ∃ g', statePush g = some g' ∧ Inv g' ∧
      absState pend g' = ⟨(absState pend g).rest, (absState pend g).rest :: (absState pend g).stk⟩ ∧
      g'.off = g.off ∧ g'.buf = g.buf ∧ g'.rd = g.rd ∧ g'.err = g.err := by
  obtain ⟨k', hk, hwf, hlive⟩ := stackPush_spec g.stk h.wf g.off g.pos
  refine ⟨{ g with stk := k' }, ?_, ?_, ?_, rfl, rfl, rfl, rfl⟩
  · simp [statePush, hk]
  · refine ⟨hwf, h.off0, h.offLe, ?_, ?_, ?_⟩
    · intro f hf
      simp only [hlive, List.mem_cons] at hf
      rcases hf with rfl | hf
      · exact ⟨h.off0, h.offLe⟩
      · exact h.frames f hf
    · simp [hlive]
    · intro f hf
      simp only [hlive] at hf
      cases hl : liveFrames g.stk with
      | nil => simp [hl] at hf; subst hf; exact h.emptyOff hl
      | cons a t => rw [hl, List.getLast?_cons_cons] at hf; exact h.bottom f (by rw [hl]; exact hf)
  · simp [absState, absStk, hlive, parsInput]

/-- `Inv` without "nothing pushed ⇒ offset 0": what holds between `stk.Pop()` / `off = end` and `autoclear` -/
structure Inv0 (g : State ρ ε) : Prop where
  wf : WfStk g.stk
  off0 : 0 ≤ g.off
  offLe : g.off ≤ (g.buf.length : Int)
  frames : ∀ f ∈ liveFrames g.stk, 0 ≤ f.Off ∧ f.Off ≤ (g.buf.length : Int)
  bottom : ∀ f, (liveFrames g.stk).getLast? = some f → f.Off = 0

theorem Inv.inv0 {g : State ρ ε} (h : Inv g) : Inv0 g := ⟨h.wf, h.off0, h.offLe, h.frames, h.bottom⟩

theorem stateClear_spec (pend : ρ → Option ε → Bytes) (g : State ρ ε) (h0 : 0 ≤ g.off) (h1 : g.off ≤ (g.buf.length : Int)) :
    ∃ g', stateClear g = some g' ∧ Inv g' ∧ absState pend g' = ⟨(absState pend g).rest, []⟩ ∧
      g'.off = 0 ∧ g'.buf = g.buf.drop g.off.toNat ∧ g'.rd = g.rd ∧ g'.err = g.err ∧ liveFrames g'.stk = [] := by
  refine ⟨{ g with buf := g.buf.drop g.off.toNat, off := 0, stk := stackReset g.stk }, ?_, ?_, ?_, rfl, rfl, rfl, rfl, (stackReset_live _).1⟩
  · simp [stateClear, goFrom, h0, h1]
  · refine ⟨(stackReset_live _).2, by simp, by simp, ?_, fun _ => rfl, ?_⟩ <;> simp [(stackReset_live _).1]
  · have : g.off.toNat ≤ g.buf.length := by omega
    simp [absState, absStk, (stackReset_live _).1, parsInput, List.drop_append_of_le_length this]

theorem stateAutoclear_spec (pend : ρ → Option ε → Bytes) (g : State ρ ε) (h : Inv0 g) :
    ∃ g', stateAutoclear g = some g' ∧ Inv g' ∧ absState pend g' = absState pend g ∧ g'.rd = g.rd ∧ g'.err = g.err ∧
      liveFrames g'.stk = liveFrames g.stk ∧
      (liveFrames g.stk ≠ [] → g' = g) ∧
      (liveFrames g.stk = [] → g'.off = 0 ∧ g'.buf = g.buf.drop g.off.toNat) := by
  unfold stateAutoclear
  rw [stackEmpty_eq _ h.wf]
  cases hl : liveFrames g.stk with
  | nil =>
    obtain ⟨g', hc, hinv, habs, hoff, hbuf, hrd, herr, hlv⟩ := stateClear_spec pend g h.off0 h.offLe
    refine ⟨g', by simp [hc], hinv, ?_, hrd, herr, hlv, by simp, fun _ => ⟨hoff, hbuf⟩⟩
    rw [habs]; simp [absState, absStk, hl]
  | cons a t =>
    refine ⟨g, by simp, ⟨h.wf, h.off0, h.offLe, h.frames, by simp [hl], h.bottom⟩, rfl, rfl, rfl, hl, fun _ => rfl, by simp⟩

theorem getLast?_tail_of_ne {α} (a : α) (t : List α) (ht : t ≠ []) : (a :: t).getLast? = t.getLast? := by
  cases t with
  | nil => exact absurd rfl ht
  | cons b u => exact List.getLast?_cons_cons

theorem statePop_spec (pend : ρ → Option ε → Bytes) (g : State ρ ε) (h : Inv g) :
    match liveFrames g.stk with
    | [] => statePop g = some g
    | f :: fs => ∃ g', statePop g = some g' ∧ Inv g' ∧ g'.off = f.Off ∧ g'.buf = g.buf ∧ g'.rd = g.rd ∧ g'.err = g.err ∧
        liveFrames g'.stk = fs := by
  have hp := stackPop_spec g.stk h.wf
  unfold statePop
  rw [stackEmpty_eq _ h.wf]
  cases hl : liveFrames g.stk with
  | nil => simp
  | cons f fs =>
    rw [hl] at hp
    obtain ⟨k', hk, hwf, hlive⟩ := hp
    have hf := h.frames f (by rw [hl]; exact List.mem_cons_self)
    have h0 : Inv0 ({ g with stk := k', off := f.Off, pos := f.Pos } : State ρ ε) := by
      refine ⟨hwf, hf.1, hf.2, ?_, ?_⟩
      · intro x hx; exact h.frames x (by rw [hl]; simp only [hlive] at hx; exact List.mem_cons_of_mem _ hx)
      · intro x hx
        simp only [hlive] at hx
        apply h.bottom x
        rw [hl]
        cases fs with
        | nil => simp at hx
        | cons b u => rw [List.getLast?_cons_cons]; exact hx
    obtain ⟨g', ha, hinv, _, hrd, herr, hlv, hne, hemp⟩ := stateAutoclear_spec pend _ h0
    refine ⟨g', by simp [hk, ha], hinv, ?_, ?_, hrd, herr, by rw [hlv]; exact hlive⟩
    · cases fs with
      | nil =>
        have hb : f.Off = 0 := h.bottom f (by rw [hl]; rfl)
        rw [(hemp (by simpa using hlive)).1, hb]
      | cons b u => rw [hne (by simp [hlive])]
    · cases fs with
      | nil =>
        have hb : f.Off = 0 := h.bottom f (by rw [hl]; rfl)
        rw [(hemp (by simpa using hlive)).2]; simp [hb]
      | cons b u => rw [hne (by simp [hlive])]

theorem absState_of (pend : ρ → Option ε → Bytes) (g g' : State ρ ε) (hb : g'.buf = g.buf) (hr : g'.rd = g.rd) (he : g'.err = g.err) :
    absState pend g' = ⟨(parsInput pend g).drop g'.off.toNat, absStk (parsInput pend g) (liveFrames g'.stk)⟩ := by
  simp [absState, parsInput, hb, hr, he]

theorem stateDrop_spec (pend : ρ → Option ε → Bytes) (g : State ρ ε) (h : Inv g) :
    ∃ g', stateDrop g = some g' ∧ Inv g' ∧
      absState pend g' = ⟨(absState pend g).rest, (absState pend g).stk.drop 1⟩ := by
  have hp := stackPop_spec g.stk h.wf
  unfold stateDrop
  rw [stackEmpty_eq _ h.wf]
  cases hl : liveFrames g.stk with
  | nil => exact ⟨g, by simp, h, by simp [absState, absStk, hl]⟩
  | cons f fs =>
    rw [hl] at hp
    obtain ⟨k', hk, hwf, hlive⟩ := hp
    have h0 : Inv0 ({ g with stk := k' } : State ρ ε) := by
      refine ⟨hwf, h.off0, h.offLe, ?_, ?_⟩
      · intro x hx; exact h.frames x (by rw [hl]; simp only [hlive] at hx; exact List.mem_cons_of_mem _ hx)
      · intro x hx
        simp only [hlive] at hx
        apply h.bottom x
        rw [hl]
        cases fs with
        | nil => simp at hx
        | cons b u => rw [List.getLast?_cons_cons]; exact hx
    obtain ⟨g', ha, hinv, habs, _⟩ := stateAutoclear_spec pend _ h0
    refine ⟨g', by simp [hk, ha], hinv, ?_⟩
    rw [habs]
    simp [absState, absStk, hl, hlive, parsInput]

/-- a successful `Request(k)` is pending: `Buffer()` is the next `k` bytes and `Advance()` consumes them -/
def Ready (g : State ρ ε) (k : Nat) : Prop := g.end_ = g.off + k ∧ g.off + k ≤ (g.buf.length : Int)

theorem stateBuffer_spec (pend : ρ → Option ε → Bytes) (g : State ρ ε) (h : Inv g) (k : Nat) (hr : Ready g k) :
    stateBuffer g = some ((absState pend g).rest.take k) := by
  obtain ⟨he, hle⟩ := hr
  obtain ⟨o, ho⟩ : ∃ o : Nat, g.off = o := ⟨g.off.toNat, by have := h.off0; omega⟩
  have hle' : o + k ≤ g.buf.length := by omega
  have c1 : (0 : Int) ≤ o ∧ (o : Int) ≤ (o : Int) + k ∧ (o : Int) + k ≤ (g.buf.length : Int) := by omega
  have e1 : ((o : Int) + (k : Int)).toNat - o = k := by omega
  simp only [stateBuffer, goSlice, he, ho, c1, and_self, if_true, Option.bind_some, Int.toNat_natCast, e1, absState, parsInput]
  congr 1
  rw [List.drop_append_of_le_length (by omega), List.take_append_of_le_length (by simp; omega)]

theorem foldl_pos_only (l : List UInt8) (s : State ρ ε) :
    ∃ p, l.foldl (fun (s : State ρ ε) b =>
        let s : State ρ ε := if (b = (10 : UInt8)) then
            let s : State ρ ε := { s with pos := { s.pos with Line := (s.pos.Line + 1) } }
            let s : State ρ ε := { s with pos := { s.pos with Byte := 0 } }
            s
          else
            let s : State ρ ε := { s with pos := { s.pos with Byte := (s.pos.Byte + 1) } }
            s
        s) s = { s with pos := p } := by
  induction l generalizing s with
  | nil => exact ⟨s.pos, rfl⟩
  | cons b t ih =>
    simp only [List.foldl_cons]
    split
    · obtain ⟨p, hp⟩ := ih ({ s with pos := { Line := s.pos.Line + 1, Byte := 0 } })
      exact ⟨p, by rw [hp]⟩
    · obtain ⟨p, hp⟩ := ih ({ s with pos := { s.pos with Byte := s.pos.Byte + 1 } })
      exact ⟨p, by rw [hp]⟩

theorem stateAdvance_spec (pend : ρ → Option ε → Bytes) (g : State ρ ε) (h : Inv g) (k : Nat) (hr : Ready g k) :
    ∃ g', stateAdvance g = some g' ∧ Inv g' ∧
      absState pend g' = ⟨(absState pend g).rest.drop k, (absState pend g).stk⟩ := by
  obtain ⟨he, hle⟩ := hr
  obtain ⟨o, ho⟩ : ∃ o : Nat, g.off = o := ⟨g.off.toNat, by have := h.off0; omega⟩
  have c0 : ¬ (g.end_ < 0) := by omega
  have c1 : (0 : Int) ≤ g.off ∧ g.off ≤ g.end_ ∧ g.end_ ≤ (g.buf.length : Int) := by omega
  unfold stateAdvance
  simp only [c0, if_false, goSlice, c1, and_self, if_true, Option.bind_some]
  obtain ⟨p, hp⟩ := foldl_pos_only ((g.buf.drop g.off.toNat).take (g.end_.toNat - g.off.toNat)) g
  rw [hp]
  have h0 : Inv0 ({ g with pos := p, off := g.end_, end_ := -1 } : State ρ ε) :=
    ⟨h.wf, by simp only; omega, by simp only; omega, h.frames, h.bottom⟩
  obtain ⟨g', ha, hinv, habs, _⟩ := stateAutoclear_spec pend _ h0
  refine ⟨g', ?_, hinv, ?_⟩
  · simpa using ha
  · rw [habs]
    have e : (g.off + (k : Int)).toNat = g.off.toNat + k := by omega
    simp [absState, parsInput, he, e, List.drop_drop, Nat.add_comm]

/-- THE ASSUMPTION about the part of `State.Request` that is not translated — the loop that reads from the
`io.Reader` into the buffer —, with `pend` = what the reader still holds: it changes nothing but the buffer, the
reader and its error; the input as a whole (buffer + what is pending) stays; the buffer only grows; and when the
buffer is still short of `off + n` bytes afterwards, the reader has ended (error set, nothing pending).
In words: "the next `n` bytes of the remaining input are available, or an error if fewer remain". -/
structure FillOk (env : Env ρ ε) (pend : ρ → Option ε → Bytes) : Prop where
  frame : ∀ g n, (env.fill g n).off = g.off ∧ (env.fill g n).end_ = g.end_ ∧ (env.fill g n).pos = g.pos ∧
    (env.fill g n).stk = g.stk
  input : ∀ g n, parsInput pend (env.fill g n) = parsInput pend g
  grows : ∀ g n, g.buf.length ≤ (env.fill g n).buf.length
  short : ∀ g n, ((env.fill g n).buf.length : Int) < g.off + n →
    (env.fill g n).err.isSome = true ∧ pend (env.fill g n).rd (env.fill g n).err = []

theorem absState_congr (pend : ρ → Option ε → Bytes) (g g' : State ρ ε) (hi : parsInput pend g' = parsInput pend g)
    (ho : g'.off = g.off) (hs : g'.stk = g.stk) : absState pend g' = absState pend g := by
  simp [absState, hi, ho, hs]

theorem Inv.of_grow {g g' : State ρ ε} (h : Inv g) (ho : g'.off = g.off) (hs : g'.stk = g.stk)
    (hb : g.buf.length ≤ g'.buf.length) : Inv g' := by
  refine ⟨by rw [hs]; exact h.wf, by rw [ho]; exact h.off0, by rw [ho]; have := h.offLe; omega, ?_,
    by rw [hs, ho]; exact h.emptyOff, by rw [hs]; exact h.bottom⟩
  intro f hf
  rw [hs] at hf
  have := h.frames f hf
  omega

theorem absRest_length (pend : ρ → Option ε → Bytes) (g : State ρ ε) (h : Inv g) :
    ((absState pend g).rest.length : Int) = g.buf.length + (pend g.rd g.err).length - g.off := by
  have := h.off0; have := h.offLe
  simp [absState, parsInput]; omega

/-- `Request(n)`, `0 ≤ n`: nothing the model sees changes; `n` bytes left: no error and the request is pending;
fewer: an error, and what IS left is pending -/
theorem stateRequest_spec (env : Env ρ ε) (pend : ρ → Option ε → Bytes) (hf : FillOk env pend) (g : State ρ ε) (h : Inv g) (k : Nat) :
    Inv (stateRequest env g k).1 ∧ absState pend (stateRequest env g k).1 = absState pend g ∧
    (stateRequest env g k).1.off = g.off ∧ (stateRequest env g k).1.stk = g.stk ∧
    (if k ≤ (absState pend g).rest.length then (stateRequest env g k).2 = none ∧ Ready (stateRequest env g k).1 k
     else (stateRequest env g k).2.isSome = true ∧ Ready (stateRequest env g k).1 (absState pend g).rest.length) := by
  obtain ⟨fo, fe, fp, fs⟩ := hf.frame g k
  have fi := hf.input g k
  have fg := hf.grows g k
  have fsh := hf.short g k
  have hinv' : Inv (env.fill g k) := h.of_grow fo fs fg
  have habs' : absState pend (env.fill g k) = absState pend g := absState_congr pend _ _ fi fo fs
  have hlen := absRest_length pend _ hinv'
  rw [habs', fo] at hlen
  unfold stateRequest
  simp only []
  split
  · rename_i hlt
    rw [fo] at hlt
    obtain ⟨herr, hpend⟩ := fsh hlt
    rw [hpend] at hlen
    have hk : ¬ (k ≤ (absState pend g).rest.length) := by simp at hlen; omega
    refine ⟨hinv'.of_grow rfl rfl (Nat.le_refl _), ?_, fo, fs, ?_⟩
    · rw [← habs']; exact absState_congr pend _ _ rfl rfl rfl
    · rw [if_neg hk]
      refine ⟨herr, ?_, ?_⟩
      · show ((env.fill g k).buf.length : Int) = (env.fill g k).off + _
        rw [fo]; simp at hlen; omega
      · show (env.fill g k).off + _ ≤ ((env.fill g k).buf.length : Int)
        rw [fo]; simp at hlen; omega
  · rename_i hge
    rw [fo] at hge
    have hk : k ≤ (absState pend g).rest.length := by omega
    refine ⟨hinv'.of_grow rfl rfl (Nat.le_refl _), ?_, fo, fs, ?_⟩
    · rw [← habs']; exact absState_congr pend _ _ rfl rfl rfl
    · rw [if_pos hk]
      refine ⟨rfl, rfl, ?_⟩
      show (env.fill g k).off + _ ≤ ((env.fill g k).buf.length : Int)
      rw [fo]; omega

/-- `Request(n)` for any `n` with `off + n` inside the buffer (`Trail` asks for a NEGATIVE length when the saved position
lies behind the current one): no error, `end = off + n` -/
theorem stateRequest_inside (env : Env ρ ε) (pend : ρ → Option ε → Bytes) (hf : FillOk env pend) (g : State ρ ε) (n : Int)
    (hle : g.off + n ≤ (g.buf.length : Int)) :
    (stateRequest env g n).2 = none ∧ (stateRequest env g n).1.end_ = g.off + n ∧
    (stateRequest env g n).1.off = g.off ∧ g.buf.length ≤ (stateRequest env g n).1.buf.length := by
  obtain ⟨fo, fe, fp, fs⟩ := hf.frame g n
  have fg := hf.grows g n
  unfold stateRequest
  simp only []
  have : ¬ (((env.fill g n).buf.length : Int) < (env.fill g n).off + n) := by rw [fo]; omega
  rw [if_neg this]
  exact ⟨rfl, by show (env.fill g n).off + n = _; rw [fo], fo, fg⟩

theorem parsNext_spec (env : Env ρ ε) (pend : ρ → Option ε → Bytes) (hf : FillOk env pend) (g : State ρ ε) (h : Inv g) :
    match (absState pend g).rest with
    | [] => ∃ g' e, parsNext env g = some (g', 0, some e) ∧ Inv g' ∧ absState pend g' = absState pend g
    | b :: _ => ∃ g', parsNext env g = some (g', b, none) ∧ Inv g' ∧ absState pend g' = absState pend g ∧ Ready g' 1 := by
  obtain ⟨hinv, habs, _, _, hif⟩ := stateRequest_spec env pend hf g h 1
  change Inv (stateRequest env g 1).1 at hinv
  change absState pend (stateRequest env g 1).1 = _ at habs
  cases hr : (absState pend g).rest with
  | nil =>
    rw [hr] at hif
    simp only [List.length_nil, Nat.le_zero_eq, Nat.succ_ne_zero, if_false] at hif
    change (stateRequest env g 1).2.isSome = true ∧ _ at hif
    obtain ⟨e, he⟩ := Option.isSome_iff_exists.mp hif.1
    exact ⟨_, e, by simp [parsNext, he], hinv, habs⟩
  | cons b t =>
    rw [hr] at hif
    simp only [List.length_cons, Nat.le_add_left, if_true] at hif
    change (stateRequest env g 1).2 = none ∧ Ready (stateRequest env g 1).1 1 at hif
    have hb := stateBuffer_spec pend _ hinv 1 hif.2
    rw [habs, hr] at hb
    refine ⟨_, ?_, hinv, habs, hif.2⟩
    simp [parsNext, hif.1, hb, goIdx]

theorem parsSkip_spec (env : Env ρ ε) (pend : ρ → Option ε → Bytes) (hf : FillOk env pend) (g : State ρ ε) (h : Inv g) (k : Nat) :
    if k ≤ (absState pend g).rest.length then
      ∃ g', parsSkip env g k = some (g', none) ∧ Inv g' ∧
        absState pend g' = ⟨(absState pend g).rest.drop k, (absState pend g).stk⟩
    else ∃ g' e, parsSkip env g k = some (g', some e) ∧ Inv g' ∧ absState pend g' = absState pend g := by
  obtain ⟨hinv, habs, _, _, hif⟩ := stateRequest_spec env pend hf g h k
  split
  · rename_i hk
    rw [if_pos hk] at hif
    obtain ⟨g', ha, hinv', habs'⟩ := stateAdvance_spec pend _ hinv k hif.2
    refine ⟨g', ?_, hinv', by rw [habs', habs]⟩
    simp [parsSkip, hif.1, ha]
  · rename_i hk
    rw [if_neg hk] at hif
    obtain ⟨e, he⟩ := Option.isSome_iff_exists.mp hif.1
    exact ⟨_, e, by simp [parsSkip, he], hinv, habs⟩

theorem parsInput_length_ge (pend : ρ → Option ε → Bytes) (g : State ρ ε) : g.buf.length ≤ (parsInput pend g).length := by
  simp [parsInput]

/-- `pars.Trail`: nothing pushed — an error and no bytes; the youngest saved position BEHIND the current one — the Go
panic (negative length, `Buffer()` slices `buf[off:end]` with `end < off`); else the bytes from the saved position up
to here, the position stays, the frame is gone -/
theorem parsTrail_spec (env : Env ρ ε) (pend : ρ → Option ε → Bytes) (hf : FillOk env pend) (g : State ρ ε) (h : Inv g) :
    match liveFrames g.stk with
    | [] => parsTrail env g = some (g, [], some env.mkErr)
    | f :: fs =>
      if g.off < f.Off then parsTrail env g = none
      else ∃ g', parsTrail env g = some (g', ((parsInput pend g).drop f.Off.toNat).take (g.off - f.Off).toNat, none) ∧
        Inv g' ∧ absState pend g' =
          ⟨((parsInput pend g).drop f.Off.toNat).drop (g.off - f.Off).toNat, absStk (parsInput pend g) fs⟩ := by
  have hpushed := statePushed_eq pend g h
  have hpop := statePop_spec pend g h
  cases hl : liveFrames g.stk with
  | nil =>
    simp only [absState, absStk, hl, List.map_nil, List.isEmpty_nil, Bool.not_true] at hpushed
    simp [parsTrail, hpushed]
  | cons f fs =>
    simp only [absState, absStk, hl, List.map_cons, List.isEmpty_cons, Bool.not_false] at hpushed
    rw [hl] at hpop
    obtain ⟨g1, hp1, hinv1, hoff1, hbuf1, hrd1, herr1, hlive1⟩ := hpop
    have hfb := h.frames f (by rw [hl]; exact List.mem_cons_self)
    have hin1 : parsInput pend g1 = parsInput pend g := by simp [parsInput, hbuf1, hrd1, herr1]
    dsimp only
    split
    · -- the saved position lies behind the current one
      rename_i hlt
      have hle : g1.off + (g.off - g1.off) ≤ (g1.buf.length : Int) := by rw [hbuf1]; have := h.offLe; omega
      obtain ⟨_, hend, hoff2, hgrow⟩ := stateRequest_inside env pend hf g1 (g.off - g1.off) hle
      have hb : stateBuffer (stateRequest env g1 (g.off - g1.off)).1 = none := by
        have : ¬ ((stateRequest env g1 (g.off - g1.off)).1.off ≤ (stateRequest env g1 (g.off - g1.off)).1.end_) := by
          rw [hend, hoff2, hoff1]; omega
        simp [stateBuffer, goSlice, this]
      simp [parsTrail, hpushed, stateOffset, hp1, hb]
    · rename_i hge
      obtain ⟨k, hk⟩ : ∃ k : Nat, g.off - f.Off = k := ⟨(g.off - f.Off).toNat, by omega⟩
      have hk1 : g.off - g1.off = (k : Int) := by rw [hoff1]; exact hk
      obtain ⟨hinv2, habs2, _, _, hif⟩ := stateRequest_spec env pend hf g1 hinv1 k
      have hrest1 : (absState pend g1).rest = (parsInput pend g).drop f.Off.toNat := by
        simp [absState, hin1, hoff1]
      have hklen : k ≤ (absState pend g1).rest.length := by
        rw [hrest1]
        have := parsInput_length_ge pend g
        have := h.offLe
        simp only [List.length_drop]
        omega
      rw [if_pos hklen] at hif
      have hb := stateBuffer_spec pend _ hinv2 k hif.2
      obtain ⟨g3, ha, hinv3, habs3⟩ := stateAdvance_spec pend _ hinv2 k hif.2
      rw [habs2] at hb habs3
      refine ⟨g3, ?_, hinv3, ?_⟩
      · simp [parsTrail, hpushed, stateOffset, hp1, hk1, hb, ha, hrest1, hk]
      · rw [habs3, hrest1, hk]
        simp [absState, hin1, hlive1]

/-! ### the model's primitives ARE what the Go state does (`Gts/Model/Pars.lean` read through `absState`) -/

/-- `state.Push()` = `Pars.push`: never panics -/
theorem push_sim (pend : ρ → Option ε → Bytes) (g : State ρ ε) (h : Inv g) :
    ∃ g', statePush g = some g' ∧ Inv g' ∧ Pars.push.run' (absState pend g) = (.ok (), absState pend g') := by
  obtain ⟨g', h1, h2, h3, _⟩ := statePush_spec pend g h
  exact ⟨g', h1, h2, by rw [Pars.run_push, h3]⟩

/-- `state.Pop()` = `Pars.pop`: never panics, does nothing on an empty stack -/
theorem pop_sim (pend : ρ → Option ε → Bytes) (g : State ρ ε) (h : Inv g) :
    ∃ g', statePop g = some g' ∧ Inv g' ∧ Pars.pop.run' (absState pend g) = (.ok (), absState pend g') := by
  have hp := statePop_spec pend g h
  rw [Pars.run_pop]
  cases hl : liveFrames g.stk with
  | nil =>
    rw [hl] at hp
    exact ⟨g, hp, h, by simp [absState, absStk, hl]⟩
  | cons f fs =>
    rw [hl] at hp
    obtain ⟨g', h1, h2, h3, h4, h5, h5', h6⟩ := hp
    refine ⟨g', h1, h2, ?_⟩
    simp [absState, absStk, hl, parsInput, h3, h4, h5, h5', h6]

/-- `state.Drop()` = `Pars.drop`: never panics, does nothing on an empty stack -/
theorem drop_sim (pend : ρ → Option ε → Bytes) (g : State ρ ε) (h : Inv g) :
    ∃ g', stateDrop g = some g' ∧ Inv g' ∧ Pars.drop.run' (absState pend g) = (.ok (), absState pend g') := by
  obtain ⟨g', h1, h2, h3⟩ := stateDrop_spec pend g h
  exact ⟨g', h1, h2, by rw [Pars.run_drop, h3]⟩

/-- `state.Clear()` = `Pars.clear`: never panics, every saved position is gone, the position stays -/
theorem clear_sim (pend : ρ → Option ε → Bytes) (g : State ρ ε) (h : Inv g) :
    ∃ g', stateClear g = some g' ∧ Inv g' ∧ Pars.clear.run' (absState pend g) = (.ok (), absState pend g') := by
  obtain ⟨g', h1, h2, h3, _⟩ := stateClear_spec pend g h.off0 h.offLe
  exact ⟨g', h1, h2, by rw [Pars.run_clear, h3]⟩

/-- `state.Pushed()` = `Pars.pushed` -/
theorem pushed_sim (pend : ρ → Option ε → Bytes) (g : State ρ ε) (h : Inv g) :
    Pars.pushed.run' (absState pend g) = (.ok (statePushed g), absState pend g) := by
  rw [statePushed_eq pend g h]; rfl

/-- `state.Request(n)` + `state.Buffer()` = `Pars.request n`: an error iff fewer than `n` bytes remain, else the next `n`
bytes; nothing the model sees changes -/
theorem request_sim (env : Env ρ ε) (pend : ρ → Option ε → Bytes) (hf : FillOk env pend) (g : State ρ ε) (h : Inv g) (n : Nat) :
    Inv (stateRequest env g n).1 ∧ absState pend (stateRequest env g n).1 = absState pend g ∧
    match (Pars.request n).run' (absState pend g) with
    | (.ok p, _) => (stateRequest env g n).2 = none ∧ stateBuffer (stateRequest env g n).1 = some p ∧
        Ready (stateRequest env g n).1 n
    | (.error _, _) => (stateRequest env g n).2.isSome = true := by
  obtain ⟨h1, h2, _, _, hif⟩ := stateRequest_spec env pend hf g h n
  refine ⟨h1, h2, ?_⟩
  rw [Pars.run_request]
  split at hif
  · rename_i hk
    rw [if_neg (by omega)]
    have hb := stateBuffer_spec pend _ h1 n hif.2
    rw [h2] at hb
    exact ⟨hif.1, hb, hif.2⟩
  · rename_i hk
    rw [if_pos (by omega)]
    exact hif.1

/-- `state.Advance()` behind a successful `Request(n)` = `Pars.advanceN n` (`advance1` for `n = 1`): never panics -/
theorem advance_sim (pend : ρ → Option ε → Bytes) (g : State ρ ε) (h : Inv g) (n : Nat) (hr : Ready g n) :
    ∃ g', stateAdvance g = some g' ∧ Inv g' ∧ (Pars.advanceN n).run' (absState pend g) = (.ok (), absState pend g') := by
  obtain ⟨g', h1, h2, h3⟩ := stateAdvance_spec pend g h n hr
  exact ⟨g', h1, h2, by rw [Pars.run_advanceN, h3]⟩

/-- `state.Advance()` without a `Request` in front panics (`end` is −1 then); no parser calls it so -/
theorem advance_without_request_panics (g : State ρ ε) (he : g.end_ < 0) : stateAdvance g = none := by
  simp [stateAdvance, he]

/-- `pars.Next` = `Pars.next`: the next byte, or an error at the end of the input; nothing the model sees changes -/
theorem next_sim (env : Env ρ ε) (pend : ρ → Option ε → Bytes) (hf : FillOk env pend) (g : State ρ ε) (h : Inv g) :
    match Pars.next.run' (absState pend g) with
    | (.ok b, s') => ∃ g', parsNext env g = some (g', b, none) ∧ Inv g' ∧ absState pend g' = s' ∧ Ready g' 1
    | (.error _, s') => ∃ g' e, parsNext env g = some (g', 0, some e) ∧ Inv g' ∧ absState pend g' = s' := by
  have hn := parsNext_spec env pend hf g h
  rw [Pars.run_next]
  cases hr : (absState pend g).rest with
  | nil => rw [hr] at hn; exact hn
  | cons b t => rw [hr] at hn; exact hn

/-- `stack.Pop()` on an empty stack indexes `v[-1]`: the Go panic `State.Pop` / `State.Drop` guard against -/
theorem stackPop_empty_panics (k : Stack) (h : WfStk k) (he : liveFrames k = []) : stackPop k = none := by
  have := stackPop_spec k h
  rw [he] at this
  exact this

/-- `pars.Trail` = `Pars.trail`, the Go panic included: it panics exactly when the model does (the youngest saved
position lies behind the current one); else the same bytes and the same state; nothing pushed: no bytes (and an error
the callers drop) -/
theorem trail_sim (env : Env ρ ε) (pend : ρ → Option ε → Bytes) (hf : FillOk env pend) (g : State ρ ε) (h : Inv g) :
    match Pars.trail.run' (absState pend g) with
    | (.ok p, s') => ∃ g' e, parsTrail env g = some (g', p, e) ∧ Inv g' ∧ absState pend g' = s' ∧
        (e.isSome = (absState pend g).stk.isEmpty)
    | (.error .panic, _) => parsTrail env g = none
    | (.error .fail, _) => False := by
  have ht := parsTrail_spec env pend hf g h
  rw [Pars.run_trail]
  cases hl : liveFrames g.stk with
  | nil =>
    rw [hl] at ht
    simp only [absState, absStk, hl, List.map_nil]
    exact ⟨g, some env.mkErr, ht, h, by simp [hl], rfl⟩
  | cons f fs =>
    rw [hl] at ht
    have hfb := h.frames f (by rw [hl]; exact List.mem_cons_self)
    have hL := parsInput_length_ge pend g
    have ho := h.offLe; have ho0 := h.off0
    have hlen : ((parsInput pend g).drop f.Off.toNat).length < ((parsInput pend g).drop g.off.toNat).length ↔ g.off < f.Off := by
      simp only [List.length_drop]; omega
    simp only [absState, absStk, hl, List.map_cons]
    dsimp only at ht
    by_cases hc : g.off < f.Off
    · rw [if_pos hc] at ht
      rw [if_pos (hlen.mpr hc)]
      exact ht
    · rw [if_neg hc] at ht
      rw [if_neg (fun x => hc (hlen.mp x))]
      obtain ⟨g', h1, h2, h3⟩ := ht
      have hn : ((parsInput pend g).drop f.Off.toNat).length - ((parsInput pend g).drop g.off.toNat).length = (g.off - f.Off).toNat := by
        simp only [List.length_drop]; omega
      rw [hn]
      exact ⟨g', none, h1, h2, h3, by simp⟩
end State
end Gts.Bridge
