/-
  Bridge (DESIGN.md 4.1b): the GLUE between the library and the CLI as facts — C15: the six multi-site commands delete, insert, infix, split, rotate, extract — their per-record step is regenerated as a
  function (go2lean/gcli_cmds.go, Bridge/Cli*.lean); here every statement of the command files, the frame around the step included.
  The command functions of `/repo/cmd/gts/*.go` that have no regenerated tie of their own, as go2lean extracts them from
  the Go source on every run (`Gts/Gen/CmdFacts.lean`, generator go2lean/cmdfacts.go: normal form, one line per statement,
  locals `v0, v1, …`, parameters by type), are what the hand-written expectation `Gts/Spec/CmdTable.lean` says, line by
  line with what each line does in terms of the library function the model has.

  Per command FILE `cmd_<file>` — every function, method and function literal of the file in normal form, its top-level
  declarations, its types (`rfl`: the kernel compares the two literal tables) — and `cmd_<file>_pipeline` — the library
  calls of the command function in source order with the kinds of the headers above them (no variable name, no line
  number: renaming, re-ordered option declarations, another error text keep it; a library call added, dropped, replaced
  or moved under / out of a condition or loop changes it).  One bridge module per property, so that a change of a
  command file stops the check of ITS property only.
-/
import Gts.Gen.CmdFacts
import Gts.Spec.CmdTable
namespace Gts.Bridge.Cmd

/-- `gts delete`: every statement of the command file — options, locator(s), secondary input, the frame (delegate, cache key,
scanner, writer, `WriteSeq` / `Flush`, `scanner.Err()`, `Commit`) and the per-record step the C15 bridges are about -/
theorem cmd_delete : Gts.Gen.Cmd.file_delete = Gts.Spec.Cmd.file_delete ∧ Gts.Gen.Cmd.decls_delete = Gts.Spec.Cmd.decls_delete ∧
    Gts.Gen.Cmd.types_delete = Gts.Spec.Cmd.types_delete := ⟨rfl, rfl, rfl⟩

/-- the library pipeline of `gts delete` -/
theorem cmd_delete_pipeline : Gts.Gen.Cmd.pipeline_delete = Gts.Spec.Cmd.pipeline_delete := rfl

/-- `gts extract` (and `containsRegion`): every statement of the command file — options, locator(s), secondary input, the frame (delegate, cache key,
scanner, writer, `WriteSeq` / `Flush`, `scanner.Err()`, `Commit`) and the per-record step the C15 bridges are about -/
theorem cmd_extract : Gts.Gen.Cmd.file_extract = Gts.Spec.Cmd.file_extract ∧ Gts.Gen.Cmd.decls_extract = Gts.Spec.Cmd.decls_extract ∧
    Gts.Gen.Cmd.types_extract = Gts.Spec.Cmd.types_extract := ⟨rfl, rfl, rfl⟩

/-- the library pipeline of `gts extract` -/
theorem cmd_extract_pipeline : Gts.Gen.Cmd.pipeline_extract = Gts.Spec.Cmd.pipeline_extract := rfl

/-- `gts infix`: every statement of the command file — options, locator(s), secondary input, the frame (delegate, cache key,
scanner, writer, `WriteSeq` / `Flush`, `scanner.Err()`, `Commit`) and the per-record step the C15 bridges are about -/
theorem cmd_infix : Gts.Gen.Cmd.file_infix = Gts.Spec.Cmd.file_infix ∧ Gts.Gen.Cmd.decls_infix = Gts.Spec.Cmd.decls_infix ∧
    Gts.Gen.Cmd.types_infix = Gts.Spec.Cmd.types_infix := ⟨rfl, rfl, rfl⟩

/-- the library pipeline of `gts infix` -/
theorem cmd_infix_pipeline : Gts.Gen.Cmd.pipeline_infix = Gts.Spec.Cmd.pipeline_infix := rfl

/-- `gts insert`: every statement of the command file — options, locator(s), secondary input, the frame (delegate, cache key,
scanner, writer, `WriteSeq` / `Flush`, `scanner.Err()`, `Commit`) and the per-record step the C15 bridges are about -/
theorem cmd_insert : Gts.Gen.Cmd.file_insert = Gts.Spec.Cmd.file_insert ∧ Gts.Gen.Cmd.decls_insert = Gts.Spec.Cmd.decls_insert ∧
    Gts.Gen.Cmd.types_insert = Gts.Spec.Cmd.types_insert := ⟨rfl, rfl, rfl⟩

/-- the library pipeline of `gts insert` -/
theorem cmd_insert_pipeline : Gts.Gen.Cmd.pipeline_insert = Gts.Spec.Cmd.pipeline_insert := rfl

/-- `gts rotate`: every statement of the command file — options, locator(s), secondary input, the frame (delegate, cache key,
scanner, writer, `WriteSeq` / `Flush`, `scanner.Err()`, `Commit`) and the per-record step the C15 bridges are about -/
theorem cmd_rotate : Gts.Gen.Cmd.file_rotate = Gts.Spec.Cmd.file_rotate ∧ Gts.Gen.Cmd.decls_rotate = Gts.Spec.Cmd.decls_rotate ∧
    Gts.Gen.Cmd.types_rotate = Gts.Spec.Cmd.types_rotate := ⟨rfl, rfl, rfl⟩

/-- the library pipeline of `gts rotate` -/
theorem cmd_rotate_pipeline : Gts.Gen.Cmd.pipeline_rotate = Gts.Spec.Cmd.pipeline_rotate := rfl

/-- `gts split`: every statement of the command file — options, locator(s), secondary input, the frame (delegate, cache key,
scanner, writer, `WriteSeq` / `Flush`, `scanner.Err()`, `Commit`) and the per-record step the C15 bridges are about -/
theorem cmd_split : Gts.Gen.Cmd.file_split = Gts.Spec.Cmd.file_split ∧ Gts.Gen.Cmd.decls_split = Gts.Spec.Cmd.decls_split ∧
    Gts.Gen.Cmd.types_split = Gts.Spec.Cmd.types_split := ⟨rfl, rfl, rfl⟩

/-- the library pipeline of `gts split` -/
theorem cmd_split_pipeline : Gts.Gen.Cmd.pipeline_split = Gts.Spec.Cmd.pipeline_split := rfl

end Gts.Bridge.Cmd
