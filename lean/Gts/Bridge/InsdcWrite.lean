/-
  Bridge: the regenerated feature-table WRITER of seqio/insdc.go (`Gts/Gen/InsdcWrite.lean`, go2lean
  gwriter*.go) IS the model's table writer of `Gts/Model/GenBank.lean` (property C01):

    GetQualifierType            = the code of `Registry.typeOf`        (`getQualifierTypeW_eq`)
    QualifierIO.String          = `qualifierText`                      (`qualifierIOString_eq`)
    QualifierFormatter.String   = `qualifierFmt`                       (`qualifierFormatterString_eq`)
    INSDCFormatter{t, "     ", 21}.String() = `tableText`, for EVERY table, panic for panic
                                                                       (`insdcFormatterString_eq`)
    the three initial name lists = `Registry.default`                  (`registry_default_eq`)

  The registry look-ups `IsQuotedQualifier` / `IsLiteralQualifier` / `IsToggleQualifier` are parameters of
  the generated functions; they are instantiated with membership in the model's registry (the model's
  reading of `searchString` over a sorted list).  `Location.String()` is instantiated with `Loc.printB`.
  `strings.Repeat`, `strings.Replace(s, "\n", new, -1)` are the fixed re-implementations of
  `Gts/Gen/GoStrings.lean` (`wsRepeat`, `wsReplaceByte`).

  The loops are related to the model by one lemma per loop with its invariant (the text written so far
  is a prefix that is never touched again; the column `depth` is at least the width every key needs);
  nothing is decided on samples.
-/
import Gts.Gen.InsdcWrite
import Gts.Model.GenBank
namespace Gts.Bridge
open Gts.Pars Gts.GenBank Gts.Gen.GoStrings
open Gts.Gen.InsdcWrite

/-- a generated `Option` (`none` = Go panic) as an outcome of the model -/
def wOut {α : Type} : Option α → Out α
  | none => .error .panic
  | some v => .ok v

@[simp] theorem wOut_some {α : Type} (v : α) : wOut (some v) = .ok v := rfl
@[simp] theorem wOut_none {α : Type} : wOut (none : Option α) = .error .panic := rfl

/-- the generated literal reader is the model's `bs` -/
theorem wsLit_eq_bs (s : String) : wsLit s = bs s := rfl

/-- `IsQuotedQualifier` under the registry `reg` -/
def isQuotedIn (reg : Registry) (n : Bytes) : Bool := decide (n ∈ reg.quoted)
/-- `IsLiteralQualifier` under the registry `reg` -/
def isLiteralIn (reg : Registry) (n : Bytes) : Bool := decide (n ∈ reg.literal)
/-- `IsToggleQualifier` under the registry `reg` -/
def isToggleIn (reg : Registry) (n : Bytes) : Bool := decide (n ∈ reg.toggle)

/-- the `iota` block `QuotedQualifier … UnknownQualifier` -/
def qtypeCodeW : QType → Int
  | .quoted => 0
  | .literal => 1
  | .toggle => 2
  | .unknown => 3

/-- **insdc.go `GetQualifierType` is `Registry.typeOf`** (quoted before literal before toggle) -/
theorem getQualifierTypeW_eq (reg : Registry) (name : Bytes) :
    getQualifierType (isQuotedIn reg) (isLiteralIn reg) (isToggleIn reg) name = qtypeCodeW (reg.typeOf name) := by
  unfold getQualifierType Registry.typeOf isQuotedIn isLiteralIn isToggleIn
  by_cases h1 : name ∈ reg.quoted
  · simp [h1, qtypeCodeW]
  · by_cases h2 : name ∈ reg.literal
    · simp [h1, h2, qtypeCodeW]
    · by_cases h3 : name ∈ reg.toggle
      · simp [h1, h2, h3, qtypeCodeW]
      · simp [h1, h2, h3, qtypeCodeW]

/-- **insdc.go `QualifierIO.String` is `qualifierText`**: `/name="value"`, `/name=value`, `/name`, and the
quoted form for a name of no list -/
theorem qualifierIOString_eq (reg : Registry) (name value : Bytes) :
    qualifierIOString (isQuotedIn reg) (isLiteralIn reg) (isToggleIn reg) (name, value) =
      qualifierText reg name value := by
  unfold qualifierIOString qualifierIOUnpack qualifierText
  simp only [getQualifierTypeW_eq]
  cases reg.typeOf name <;>
    simp [qtypeCodeW, wsLit, List.append_assoc]

/-- `strings.Replace(s, "\n", "\n"+prefix, -1)` is the model's `addPrefix` -/
theorem wsReplaceByte_addPrefix (pre : Bytes) (s : Bytes) :
    wsReplaceByte (10 : UInt8) (wsLit "\n" ++ pre) s = addPrefix pre s := by
  induction s with
  | nil => rfl
  | cons c s ih =>
    unfold wsReplaceByte addPrefix
    rw [ih]
    by_cases h : c = 10
    · simp [h, wsLit]
    · simp [h]

/-- **insdc.go `QualifierFormatter.String` is `qualifierFmt`** (the prefix in front of every line) -/
theorem qualifierFormatterString_eq (reg : Registry) (pre name value : Bytes) :
    qualifierFormatterString (isQuotedIn reg) (isLiteralIn reg) (isToggleIn reg)
        { Qualifier := (name, value), Prefix := pre } =
      qualifierFmt reg pre name value := by
  unfold qualifierFormatterString qualifierFmt
  simp only [qualifierIOString_eq, wsReplaceByte_addPrefix]

/-! ### the table -/

/-- a feature of the model as the Go struct -/
def goFeature (f : QFeature) : Feature := { Key := f.key, Loc := f.loc, Props := f.props }

theorem replicate_blank_flatten (n : Nat) : (List.replicate n (wsLit " ")).flatten = sp n := by
  induction n with
  | zero => rfl
  | succ n ih =>
    rw [List.replicate_succ, List.flatten_cons, ih]
    simp [sp, wsLit, List.replicate_succ]

/-- `strings.Repeat(" ", n)` for a count that is not negative -/
theorem wsRepeat_blank (n : Int) (h : 0 ≤ n) : wsRepeat (wsLit " ") n = some (sp n.toNat) := by
  unfold wsRepeat
  rw [if_neg (by omega), replicate_blank_flatten]

/-- the first loop of `INSDCFormatter.String` (the column that every key fits in front of) is the fold
of `tableDepth` -/
theorem insdcDepthLoop_eq (T : List Feature) (d0 : Int) (fs : List QFeature) (d : Nat) :
    insdcFormatterStringLoop { Table := T, Prefix := sp 5, Depth := d0 } (fs.map goFeature) (d : Int) =
      ((fs.foldl (fun d f => max d (5 + f.key.length + 1)) d : Nat) : Int) := by
  induction fs generalizing d with
  | nil => rfl
  | cons f fs ih =>
    simp only [List.map_cons, insdcFormatterStringLoop, List.foldl_cons]
    have hlen : ((sp 5).length : Int) = 5 := by simp [sp]
    have hk : (goFeature f).Key = f.key := rfl
    rw [hlen, hk]
    split
    · have : max d (5 + f.key.length + 1) = 5 + f.key.length + 1 := by omega
      rw [this, ← ih]
      congr 1 <;> omega
    · have : max d (5 + f.key.length + 1) = d := by omega
      rw [this, ← ih]

/-- the innermost loop (the values of one `Props` row `key :: …`) appends one qualifier line per value -/
theorem insdcValuesLoop_eq (reg : Registry) (pre key : Bytes) (row : List Bytes) (vs : List Bytes) (b : Bytes) :
    insdcFormatterStringLoop4 (isQuotedIn reg) (isLiteralIn reg) (isToggleIn reg) pre (key :: row) vs b =
      some (b ++ vs.flatMap fun v => 10 :: qualifierFmt reg pre key v) := by
  induction vs generalizing b with
  | nil => simp [insdcFormatterStringLoop4]
  | cons v vs ih =>
    simp only [insdcFormatterStringLoop4, wsIdx]
    simp only [show ¬ ((0 : Int) < 0) by omega, if_false, Int.toNat_zero, List.getElem?_cons_zero, Option.bind_some,
      qualifierIOFormat, qualifierFormatterString_eq, ih, List.flatMap_cons, List.append_assoc, List.cons_append,
      List.nil_append]

/-- the loop over the `Props` rows: panics iff some row has no name (`prop[1:]` of an empty row), else
appends the lines of `propsItems` -/
theorem insdcPropsLoop_eq (reg : Registry) (pre : Bytes) (ps : List (List Bytes)) (b : Bytes) :
    insdcFormatterStringLoop3 (isQuotedIn reg) (isLiteralIn reg) (isToggleIn reg) pre ps b =
      if propsOk ps then some (b ++ (propsItems ps).flatMap fun kv => 10 :: qualifierFmt reg pre kv.1 kv.2)
      else none := by
  induction ps generalizing b with
  | nil => simp [insdcFormatterStringLoop3, propsOk, propsItems]
  | cons row ps ih =>
    cases row with
    | nil => simp [insdcFormatterStringLoop3, wsFrom, propsOk]
    | cons key vs =>
      have hfrom : wsFrom (key :: vs) (1 : Int) = some vs := by
        simp [wsFrom]
        omega
      simp only [insdcFormatterStringLoop3, hfrom, Option.bind_some, insdcValuesLoop_eq, ih]
      have hok : propsOk ((key :: vs) :: ps) = propsOk ps := by simp [propsOk]
      rw [hok]
      by_cases h : propsOk ps = true
      · simp [h, propsItems, List.flatMap_cons, List.flatMap_append, List.flatMap_map, List.append_assoc]
      · simp [h]

/-- the text behind the first feature: every further feature on a new line -/
def restText (reg : Registry) (depth : Nat) : List QFeature → Out Bytes
  | [] => .ok []
  | g :: gs => do
    let a ← featureText reg depth g
    let r ← restText reg depth gs
    pure (10 :: (a ++ r))

theorem tableTextD_cons (reg : Registry) (depth : Nat) (f : QFeature) (fs : List QFeature) :
    tableTextD reg depth (f :: fs) = (do
      let a ← featureText reg depth f
      let r ← restText reg depth fs
      pure (a ++ r)) := by
  induction fs generalizing f with
  | nil =>
    simp only [tableTextD, restText]
    cases featureText reg depth f <;> simp [bind, Except.bind, pure, Except.pure]
  | cons g gs ih =>
    rw [tableTextD, ih g, restText]
    · cases featureText reg depth f <;> cases featureText reg depth g <;> cases restText reg depth gs <;>
        simp [bind, Except.bind, pure, Except.pure]
    · intro h; cases h

/-- one round of the main loop: key line and qualifier lines of one feature, for a column `depth` the
key fits in front of; `k` is what the loop does next with the text -/
theorem insdcFeature_step {β : Type} (reg : Registry) (depth : Nat) (f : QFeature) (hd : 5 + f.key.length + 1 ≤ depth)
    (b : Bytes) (k : Bytes → Option β) :
    ((wsRepeat (wsLit " ") ((depth : Int) - (((sp 5).length : Int) + ((goFeature f).Key.length : Int)))).bind fun x1 =>
      (wsRepeat (wsLit " ") ((depth : Int) - ((sp 5).length : Int))).bind fun x2 =>
        (insdcFormatterStringLoop3 (isQuotedIn reg) (isLiteralIn reg) (isToggleIn reg) (sp 5 ++ x2) (goFeature f).Props
          (b ++ sp 5 ++ (goFeature f).Key ++ x1 ++ Loc.printB (goFeature f).Loc)).bind k) =
      match featureText reg depth f with
      | .ok a => k (b ++ a)
      | .error _ => none := by
  have hlen : ((sp 5).length : Int) = 5 := by simp [sp]
  have hk : (goFeature f).Key = f.key := rfl
  have hp : (goFeature f).Props = f.props := rfl
  have hl : (goFeature f).Loc = f.loc := rfl
  rw [hlen, hk, hp, hl, wsRepeat_blank _ (by omega), wsRepeat_blank _ (by omega)]
  simp only [Option.bind_some, insdcPropsLoop_eq]
  have h5n : 5 + ((depth : Int) - 5).toNat = depth := by omega
  have h5 : sp 5 ++ sp ((depth : Int) - 5).toNat = sp depth := by
    simp only [sp, List.replicate_append_replicate, h5n]
  have hpad : ((depth : Int) - (5 + (f.key.length : Int))).toNat = depth - 5 - f.key.length := by omega
  rw [h5, hpad]
  unfold featureText
  by_cases hok : propsOk f.props = true
  · simp [hok, List.append_assoc]
  · simp [hok]

/-- the main loop behind the first feature (`i ≠ 0`: a line feed in front of every feature) -/
theorem insdcTableLoop_rest (reg : Registry) (T : List Feature) (d0 : Int) (depth : Nat) (fs : List QFeature)
    (hd : ∀ f ∈ fs, 5 + f.key.length + 1 ≤ depth) (i : Int) (hi : 0 < i) (b : Bytes) :
    wOut (insdcFormatterStringLoop2 Loc.printB (isQuotedIn reg) (isLiteralIn reg) (isToggleIn reg)
        { Table := T, Prefix := sp 5, Depth := d0 } (depth : Int) (fs.map goFeature) i b) =
      (do let r ← restText reg depth fs; pure (b ++ r)) := by
  induction fs generalizing i b with
  | nil => simp [insdcFormatterStringLoop2, restText, bind, Except.bind, pure, Except.pure]
  | cons f fs ih =>
    simp only [List.map_cons, insdcFormatterStringLoop2]
    rw [if_pos (by omega)]
    rw [insdcFeature_step reg depth f (hd f (List.mem_cons_self ..)) (b ++ [10]), restText]
    cases hf : featureText reg depth f with
    | error e =>
      have : e = .panic := by
        unfold featureText at hf
        split at hf <;> simp_all
      simp [bind, Except.bind, this]
    | ok a =>
      simp only []
      rw [ih (fun g hg => hd g (List.mem_cons_of_mem _ hg)) (i + 1) (by omega)]
      cases restText reg depth fs <;> simp [bind, Except.bind, pure, Except.pure, List.append_assoc]

/-- the error of `tableTextD` is always the panic -/
theorem restText_error (reg : Registry) (depth : Nat) (fs : List QFeature) :
    ∀ e : Err, restText reg depth fs = .error e → e = .panic := by
  induction fs with
  | nil => intro e h; simp [restText] at h
  | cons g gs ih =>
    intro e h
    rw [restText] at h
    cases hg : featureText reg depth g with
    | error e' =>
      have : e' = .panic := by
        unfold featureText at hg
        split at hg <;> simp_all
      simp [hg, bind, Except.bind, this] at h
      exact h.symm
    | ok a =>
      cases hr : restText reg depth gs with
      | error e' =>
        simp [hg, hr, bind, Except.bind] at h
        exact h ▸ ih e' hr
      | ok r => simp [hg, hr, bind, Except.bind, pure, Except.pure] at h

theorem foldl_max_ge (fs : List QFeature) (d : Nat) :
    d ≤ fs.foldl (fun d f => max d (5 + f.key.length + 1)) d ∧
    ∀ f ∈ fs, 5 + f.key.length + 1 ≤ fs.foldl (fun d f => max d (5 + f.key.length + 1)) d := by
  induction fs generalizing d with
  | nil => simp
  | cons g gs ih =>
    simp only [List.foldl_cons, List.mem_cons]
    have h := ih (max d (5 + g.key.length + 1))
    refine ⟨by omega, ?_⟩
    intro f hf
    cases hf with
    | inl h1 => subst h1; omega
    | inr h2 => exact h.2 f h2

/-- the location column for a formatter of depth `d0`: `tableDepth` is the case 21 -/
def tableDepthFrom (d0 : Nat) (fs : List QFeature) : Nat := fs.foldl (fun d f => max d (5 + f.key.length + 1)) d0

/-- **insdc.go `INSDCFormatter{table, "     ", d0}.String()`, every depth `d0`**: the table laid out with the
location column `max d0 (widest key + 6)` — the same bytes as the model's `tableTextD`, a Go panic (a `Props`
row without a name) exactly where the model answers `.error .panic`.  (`Location.String()` = `Loc.printB`,
the registry look-ups = membership.) -/
theorem insdcFormatterString_depth_eq (reg : Registry) (d0 : Nat) (fs : List QFeature) :
    wOut (insdcFormatterString Loc.printB (isQuotedIn reg) (isLiteralIn reg) (isToggleIn reg)
        { Table := fs.map goFeature, Prefix := sp 5, Depth := (d0 : Int) }) = tableTextD reg (tableDepthFrom d0 fs) fs := by
  unfold insdcFormatterString
  have hdepth : insdcFormatterStringLoop { Table := fs.map goFeature, Prefix := sp 5, Depth := (d0 : Int) }
      (fs.map goFeature) (d0 : Int) = ((tableDepthFrom d0 fs : Nat) : Int) := insdcDepthLoop_eq (fs.map goFeature) d0 fs d0
  simp only [hdepth]
  have hge : d0 ≤ tableDepthFrom d0 fs ∧ ∀ f ∈ fs, 5 + f.key.length + 1 ≤ tableDepthFrom d0 fs := foldl_max_ge fs d0
  cases fs with
  | nil => simp [insdcFormatterStringLoop2, tableTextD]
  | cons f fs =>
    rw [tableTextD_cons]
    simp only [List.map_cons, insdcFormatterStringLoop2]
    rw [if_neg (by simp)]
    rw [insdcFeature_step reg (tableDepthFrom d0 (f :: fs)) f (hge.2 f (List.mem_cons_self ..)) []]
    cases hf : featureText reg (tableDepthFrom d0 (f :: fs)) f with
    | error e =>
      have : e = .panic := by
        unfold featureText at hf
        split at hf <;> simp_all
      simp [bind, Except.bind, this]
    | ok a =>
      simp only [List.nil_append]
      have hrest := insdcTableLoop_rest reg (goFeature f :: fs.map goFeature) (d0 : Int) (tableDepthFrom d0 (f :: fs)) fs
        (fun g hg => hge.2 g (List.mem_cons_of_mem _ hg)) (0 + 1) (by omega) a
      cases hr : insdcFormatterStringLoop2 Loc.printB (isQuotedIn reg) (isLiteralIn reg) (isToggleIn reg)
          { Table := goFeature f :: fs.map goFeature, Prefix := sp 5, Depth := (d0 : Int) } (tableDepthFrom d0 (f :: fs) : Int)
          (fs.map goFeature) (0 + 1) a with
      | none =>
        rw [hr] at hrest
        simp only [Option.bind_none, wOut_none]
        rw [wOut_none] at hrest
        rw [hrest]
        simp [bind, Except.bind]
      | some t =>
        rw [hr] at hrest
        simp only [Option.bind_some, wOut_some]
        rw [wOut_some] at hrest
        rw [hrest]
        simp [bind, Except.bind]

/-- **insdc.go `INSDCFormatter{table, "     ", 21}.String()` is the model's `tableText`** — for EVERY
table, under every registry: the same bytes, and a Go panic (a `Props` row without a name) exactly where the
model answers `.error .panic`. -/
theorem insdcFormatterString_eq (reg : Registry) (fs : List QFeature) :
    wOut (insdcFormatterString Loc.printB (isQuotedIn reg) (isLiteralIn reg) (isToggleIn reg)
        { Table := fs.map goFeature, Prefix := sp 5, Depth := 21 }) = tableText reg fs :=
  insdcFormatterString_depth_eq reg 21 fs

/-- **the initial qualifier-name lists of insdc.go are `Registry.default`** -/
theorem registry_default_eq :
    ({ quoted := namesOf quotedQualifierNames, literal := namesOf literalQualifierNames,
       toggle := namesOf toggleQualifierNames } : Registry) = Registry.default := rfl

/-- non-vacuity: a table with a key that widens the column, a toggle, a literal and a two-line note -/
example :
    wOut (insdcFormatterString Loc.printB (isQuotedIn Registry.default) (isLiteralIn Registry.default)
      (isToggleIn Registry.default)
      { Table := [(⟨bs "source", .ranged 0 9 false false, [[bs "note", bs "a\nb"], [bs "pseudo", []]]⟩ : QFeature),
                  ⟨bs "a_key_of_17_bytes", .point 3, [[bs "codon_start", bs "1"]]⟩].map goFeature,
        Prefix := sp 5, Depth := 21 }) =
    tableText Registry.default
      [⟨bs "source", .ranged 0 9 false false, [[bs "note", bs "a\nb"], [bs "pseudo", []]]⟩,
       ⟨bs "a_key_of_17_bytes", .point 3, [[bs "codon_start", bs "1"]]⟩] :=
  insdcFormatterString_eq _ _

end Gts.Bridge
