/-
  C16 statements carried over to the REGENERATED code: the property theorems of Gts/Props/C16.lean
  are about the hand-written model; the bridges (OriginValidate / OriginBuf / OriginSlow) show the
  code as it is written now equal to that model, so the statements hold for `Gts.Gen.*` — the loops
  of seqio/origin.go and seqio/genbank_subparsers.go themselves.  `fuel` is any number that covers
  the trip counts (`6 ≤ fuel`, `10 ≤ fuel`, one unit per line of sixty residues).
-/
import Gts.Bridge.OriginValidate
import Gts.Bridge.OriginBuf
import Gts.Bridge.OriginSlow
import Gts.Bridge.OriginReader
import Gts.Lemmas.Origin
namespace Gts.Bridge
open Gts Gts.Origin
open Gts.Pars (Bytes Err)

/-- `NewOrigin(p)` as written does not panic, returns an unparsed buffer of exactly
`toOriginLength(len p)` bytes, `Len()` of it is `len p` without decoding, and `Bytes()` of it gives
`p` back — every byte string shorter than 10^9. -/
theorem gen_block_roundtrip (fuel : Nat) (p : Bytes) (h : p.length < 10 ^ 9) (h6 : 6 ≤ fuel)
    (hl : p.length ≤ 60 * fuel) :
    ∃ b, Gen.newOrigin fuel fmt9 p = .ok (b, false)
      ∧ (b.length : Int) = Gen.toOriginLength (p.length : Int)
      ∧ Gen.originLen b false = .ok (p.length : Int)
      ∧ ∃ o, Gen.originBytes fuel b false = .ok (p, o) := by
  refine ⟨originStream p, ?_, ?_, ?_, ?_⟩
  · rw [newOrigin_eq fuel p h6 hl, newOrigin_ok p h]
  · rw [toOriginLength_eq, originStream_length p h, toOriginLength_nat]
  · rw [originLen_eq]
    congr 1
    unfold originLen
    rw [originStream_length p h]
    split
    · rename_i h0
      have : p.length = 0 := (tl_zero_iff p.length).mp (by omega)
      omega
    · exact fromOriginLength_tl _
  · have hb : Origin.fromOriginLength ((originStream p).length : Int) ≤ 60 * (fuel : Int) := by
      rw [originStream_length p h, fromOriginLength_tl]; omega
    rw [originBytes_eq fuel _ h6 hb, originBytes_originStream p h]
    exact ⟨_, rfl⟩

/-- the fast path as written accepts every block `NewOrigin` writes for printable residues -/
theorem gen_validate_accepts (fuel : Nat) (p : Bytes) (hp : ∀ c ∈ p, isBase c = true) (h10 : 10 ≤ fuel)
    (hl : p.length ≤ 60 * fuel) :
    Gen.validateOrigin fuel fmt9 (originStream p) (p.length : Int) = .ok () := by
  rw [validateOrigin_eq fuel _ _ h10 (by omega)]
  exact validateOrigin_originStream p hp

/-- whatever the fast path as written accepts, the slow path as written accepts too and hands
over exactly the bytes the fast path does, leaving the same rest -/
theorem gen_fast_imp_slow (fuel : Nat) (b tok : Bytes) (L : Nat) (hL : L < 10 ^ 9) (h10 : 10 ≤ fuel)
    (hl : L ≤ 60 * fuel)
    (h : Gen.validateOrigin fuel fmt9 b (L : Int) = .ok ()) :
    Gen.slowGenBankOriginParser fuel fmt9 splitLine (L : Int) b tok =
      .ok (b.take (Gen.toOriginLength (L : Int)).toNat, b.drop (Gen.toOriginLength (L : Int)).toNat) := by
  rw [validateOrigin_eq fuel _ _ h10 (by omega)] at h
  rw [slowGenBankOriginParser_eq fuel b tok _ h10 (by omega), toOriginLength_eq, toNat_tl]
  exact Gts.Origin.fast_imp_slow b L hL h

/-- the slow path as written never panics for a declared length below 10^9 -/
theorem gen_slow_never_panics (fuel : Nat) (st tok : Bytes) (L : Nat) (hL : L < 10 ^ 9) (h10 : 10 ≤ fuel)
    (hl : L ≤ 60 * fuel) :
    Gen.slowGenBankOriginParser fuel fmt9 splitLine (L : Int) st tok ≠ .error .panic := by
  rw [slowGenBankOriginParser_eq fuel st tok _ h10 (by omega)]
  exact slowOrigin_ne_panic st L hL

/-! ### the same statements up to the exact bound `1000000020` (= `Gen.maxOriginResidues`) -/

/-- `gen_block_roundtrip` up to the exact bound of the reader's length guard -/
theorem gen_block_roundtrip_exact (fuel : Nat) (p : Bytes) (h : p.length ≤ 1000000020) (h6 : 6 ≤ fuel)
    (hl : p.length ≤ 60 * fuel) :
    ∃ b, Gen.newOrigin fuel fmt9 p = .ok (b, false)
      ∧ (b.length : Int) = Gen.toOriginLength (p.length : Int)
      ∧ Gen.originLen b false = .ok (p.length : Int)
      ∧ ∃ o, Gen.originBytes fuel b false = .ok (p, o) := by
  refine ⟨originStream p, ?_, ?_, ?_, ?_⟩
  · rw [newOrigin_eq fuel p h6 hl, newOrigin_ok_le p h]
  · rw [toOriginLength_eq, originStream_length_le p h, toOriginLength_nat]
  · rw [originLen_eq]
    congr 1
    unfold originLen
    rw [originStream_length_le p h]
    split
    · rename_i h0
      have : p.length = 0 := (tl_zero_iff p.length).mp (by omega)
      omega
    · exact fromOriginLength_tl _
  · have hb : Origin.fromOriginLength ((originStream p).length : Int) ≤ 60 * (fuel : Int) := by
      rw [originStream_length_le p h, fromOriginLength_tl]; omega
    rw [originBytes_eq fuel _ h6 hb, originBytes_originStream_le p h]
    exact ⟨_, rfl⟩

/-- `gen_fast_imp_slow` for every declared length that passes the guard `length > maxOriginResidues` -/
theorem gen_fast_imp_slow_exact (fuel : Nat) (b tok : Bytes) (L : Nat) (hL : ¬ ((L : Int) > Gen.maxOriginResidues))
    (h10 : 10 ≤ fuel) (hl : L ≤ 60 * fuel)
    (h : Gen.validateOrigin fuel fmt9 b (L : Int) = .ok ()) :
    Gen.slowGenBankOriginParser fuel fmt9 splitLine (L : Int) b tok =
      .ok (b.take (Gen.toOriginLength (L : Int)).toNat, b.drop (Gen.toOriginLength (L : Int)).toNat) := by
  have hL' : L ≤ 1000000020 := by simp only [Gen.maxOriginResidues] at hL; omega
  rw [validateOrigin_eq fuel _ _ h10 (by omega)] at h
  rw [slowGenBankOriginParser_eq fuel b tok _ h10 (by omega), toOriginLength_eq, toNat_tl]
  exact Gts.Origin.fast_imp_slow_le b L hL' h

/-- `gen_slow_never_panics` for every declared length that passes the guard -/
theorem gen_slow_never_panics_exact (fuel : Nat) (st tok : Bytes) (L : Nat) (hL : ¬ ((L : Int) > Gen.maxOriginResidues))
    (h10 : 10 ≤ fuel) (hl : L ≤ 60 * fuel) :
    Gen.slowGenBankOriginParser fuel fmt9 splitLine (L : Int) st tok ≠ .error .panic := by
  have hL' : L ≤ 1000000020 := by simp only [Gen.maxOriginResidues] at hL; omega
  rw [slowGenBankOriginParser_eq fuel st tok _ h10 (by omega)]
  exact slowOrigin_ne_panic_le st L hL'

/-- the reader behind `Clear`, as written, never panics on a slow-path store or a wide index: for
NO declared length `L ≥ 0` and no input does the regenerated tail run the slow path into a panic —
beyond the guard it returns the error first -/
theorem gen_reader_slow_guarded (fuel : Nat) (st tok gb0 : Bytes) (gb1 : Bool) (L : Nat)
    (hL : (L : Int) > Gen.maxOriginResidues) :
    Gen.originReaderTail fuel fmt9 splitLine (L : Int) st tok gb0 gb1 = .error .fail := by
  simp only [Gen.originReaderTail]
  rw [if_pos hL]

example : ¬ (((10 ^ 9 : Nat) : Int) > Gen.maxOriginResidues) ∧ (((1000000021 : Nat) : Int) > Gen.maxOriginResidues) := by
  decide

/-- non-vacuity: a 13-residue sequence meets the hypotheses with fuel 10 -/
example : ([97,99,103,116,97,99,103,116,97,99,103,116,110] : Bytes).length < 10 ^ 9
    ∧ (∀ c ∈ ([97,99,103,116,97,99,103,116,97,99,103,116,110] : Bytes), isBase c = true)
    ∧ Gen.validateOrigin 10 fmt9 (originStream [97,99,103,116,97,99,103,116,97,99,103,116,110]) 13 = .ok () := by
  decide

end Gts.Bridge
