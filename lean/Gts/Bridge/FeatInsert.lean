/-
  Bridge: `FeatureSlice.Insert`, regenerated from feature.go by go2lean (Gts/Gen/FeatInsert.lean: the loop
  over the leading `source` features literally with fuel, `sort.Search` — Gts/Gen/SortSearch.lean, translated
  from the toolchain's own sort/search.go: `i, j := 0, n; for i < j { h := int(uint(i+j) >> 1); if !f(h)
  { i = h + 1 } else { j = h } }; return i` — with the closure `LocationLess(f.Loc, ff[i+j].Loc)` as a
  predicate that can panic, then `make`, two `copy` and the store as checked list operations), never
  panics and returns the hand-written model's `Table.insert` (Gts/Model/Seq.lean) — for every table,
  every feature, every value of the zero `Feature` that `make` fills in (so: every cell of the result is
  overwritten) and every fuel above the length of the table.
-/
import Gts.Gen.FeatInsert
import Gts.Bridge.FeatLess
import Gts.Lemmas.GoList
import Gts.Lemmas.LessOrder
namespace Gts.Bridge
open Gts

/-! ### `sort.Search` -/

theorem shiftRight_one (n : Nat) : Int.shiftRight (n : Int) 1 = ((n / 2 : Nat) : Int) := by
  have : Int.shiftRight (n : Int) 1 = (n : Int) >>> 1 := rfl
  rw [this, Int.shiftRight_eq_div_pow]
  omega

/-- the model's binary search needs no more fuel than the width of the interval -/
theorem sortSearchLoop_fuel (p : Nat → Bool) : ∀ (a b i j : Nat), j - i ≤ a → j - i ≤ b →
    sortSearchLoop p a i j = sortSearchLoop p b i j
  | 0, 0, _, _, _, _ => rfl
  | 0, b + 1, i, j, ha, _ => by
    simp only [sortSearchLoop]
    rw [if_neg (by omega)]
  | a + 1, 0, i, j, _, hb => by
    simp only [sortSearchLoop]
    rw [if_neg (by omega)]
  | a + 1, b + 1, i, j, ha, hb => by
    simp only [sortSearchLoop]
    by_cases hij : i < j
    · simp only [hij, if_true]
      cases p ((i + j) / 2)
      · simp only [Bool.not_false, if_true]
        exact sortSearchLoop_fuel p a b _ _ (by omega) (by omega)
      · simp only [Bool.not_true, Bool.false_eq_true, if_false]
        exact sortSearchLoop_fuel p a b _ _ (by omega) (by omega)
    · simp only [hij, if_false]

/-- the loop of `sort.Search`: any function with these two equations (the generated helper has them by
unfolding), run on a predicate that answers `p` below `N`, follows the model's loop step by step -/
theorem searchLoop_shape (loop : Nat → Int → Int → Option (Int × Int)) (f : Int → Option Bool)
    (h0 : ∀ i j, loop 0 i j = some (i, j))
    (hs : ∀ n i j, loop (n + 1) i j =
      if i < j then
        (Gen.goUint (i + j)).bind fun u => (f (Int.shiftRight u 1)).bind fun b =>
          if ¬ (b = true) then loop n (Int.shiftRight u 1 + 1) j else loop n i (Int.shiftRight u 1)
      else some (i, j))
    (p : Nat → Bool) (N : Nat) (hf : ∀ h, h < N → f (h : Int) = some (p h)) :
    ∀ (fuel i j : Nat), j ≤ N →
      (loop fuel (i : Int) (j : Int)).map Prod.fst = some ((sortSearchLoop p fuel i j : Nat) : Int)
  | 0, i, j, _ => by rw [h0]; rfl
  | fuel + 1, i, j, hj => by
    rw [hs]
    simp only [sortSearchLoop]
    by_cases hij : i < j
    · rw [if_pos (by omega), if_pos hij]
      have hu : Gen.goUint ((i : Int) + (j : Int)) = some (((i + j : Nat)) : Int) := by
        rw [← Int.natCast_add]; exact Gen.goUint_nat _
      rw [hu]
      simp only [Option.bind_some, shiftRight_one]
      rw [hf _ (by omega)]
      simp only [Option.bind_some]
      cases p ((i + j) / 2)
      · simp only [Bool.false_eq_true, not_false_eq_true, if_true, Bool.not_false]
        have := searchLoop_shape loop f h0 hs p N hf fuel ((i + j) / 2 + 1) j hj
        simpa only [Int.natCast_add, Int.cast_ofNat_Int] using this
      · simp only [not_true_eq_false, if_false, Bool.not_true, Bool.false_eq_true]
        exact searchLoop_shape loop f h0 hs p N hf fuel i ((i + j) / 2) (by omega)
    · rw [if_neg (by omega), if_neg hij]; rfl

/-- **`sort.Search(n, f)` as the toolchain's source defines it, on a predicate that answers `p j` (and
does not panic) for `0 ≤ j < n`, does not panic and returns the model's `sortSearch n p`** — for every
fuel of at least `n` -/
theorem sortSearch_eq (f : Int → Option Bool) (p : Nat → Bool) (n fuel : Nat)
    (hf : ∀ h, h < n → f (h : Int) = some (p h)) (hfuel : n ≤ fuel) :
    Gen.sortSearch fuel (n : Int) f = some ((sortSearch n p : Nat) : Int) := by
  have h := searchLoop_shape (Gen.sortSearchLoop f) f (fun _ _ => by rw [Gen.sortSearchLoop])
    (fun n i j => by
      rw [Gen.sortSearchLoop]
      split
      · apply congrArg; funext u; dsimp only; apply congrArg; funext b; cases b <;> rfl
      · rfl) p n hf fuel 0 n (Nat.le_refl _)
  rw [sortSearchLoop_fuel p fuel (n + 1) 0 n (by omega) (by omega)] at h
  simp only [Int.cast_ofNat_Int] at h
  simp only [Gen.sortSearch, sortSearch]
  revert h
  cases Gen.sortSearchLoop f fuel 0 (n : Int) with
  | none => intro h; cases h
  | some st => intro h; exact h

/-! ### the loop over the leading `source` features -/

theorem sourceLoop_shape (loop : Nat → Int → Option Int) (ff : Table)
    (h0 : ∀ i, loop 0 i = some i)
    (hs : ∀ n i, loop (n + 1) i =
      (if i < (ff.length : Int) then (Gen.goIdx ff i).bind fun x => some (decide (x.key = "source"))
        else some false).bind fun b => if b = true then loop n (i + 1) else some i) :
    ∀ (n k : Nat), ff.length - k ≤ n → k ≤ ff.length →
      loop n (k : Int) = some (((k + Table.sourceCount (ff.drop k) : Nat)) : Int)
  | 0, k, hn, hk => by
    have : ff.drop k = [] := List.drop_eq_nil_of_le (by omega)
    rw [h0, this]; rfl
  | n + 1, k, hn, hk => by
    rw [hs]
    by_cases hlt : k < ff.length
    · rw [if_pos (by omega), Gen.goIdx_lt ff k hlt, List.drop_eq_getElem_cons hlt]
      simp only [Option.bind_some, Table.sourceCount]
      by_cases hsrc : ff[k].key = "source"
      · simp only [hsrc, decide_true, if_true]
        have := sourceLoop_shape loop ff h0 hs n (k + 1) (by omega) (by omega)
        simp only [Int.natCast_add, Int.cast_ofNat_Int] at this ⊢
        rw [this]
        congr 1
        omega
      · simp only [hsrc, decide_false, Bool.false_eq_true, if_false]
        rfl
    · have : ff.drop k = [] := List.drop_eq_nil_of_le (by omega)
      rw [if_neg (by omega), this]
      rfl

theorem sourceCount_le : ∀ ff : Table, Table.sourceCount ff ≤ ff.length
  | [] => Nat.le_refl _
  | f :: fs => by
    simp only [Table.sourceCount, List.length_cons]
    have := sourceCount_le fs
    split <;> omega

/-! ### the function -/

/-- `make` + `copy(gg, ff[:i])` + `gg[i] = f` + `copy(gg[i+1:], ff[i:])` build `ff[:i] ++ f :: ff[i:]` -/
theorem insertAt_build (zero f : Feature) (a b : Table) :
    (Gen.goMake zero (((a ++ b).length : Int) + 1)).bind (fun gg0 =>
      (Gen.goTo (a ++ b) (a.length : Int)).bind fun x =>
        (Gen.goSet (Gen.goCopy gg0 x) (a.length : Int) f).bind fun gg1 =>
          (Gen.goFrom (a ++ b) (a.length : Int)).bind fun y => Gen.goCopyAt gg1 ((a.length : Int) + 1) y) =
      some (a ++ f :: b) := by
  have hm : Gen.goMake zero (((a ++ b).length : Int) + 1) =
      some (List.replicate a.length zero ++ zero :: List.replicate b.length zero) := by
    have := Gen.goMake_nat zero ((a ++ b).length + 1)
    simp only [Int.natCast_add, Int.cast_ofNat_Int] at this
    rw [this, List.length_append, Nat.add_assoc, ← List.replicate_append_replicate, List.replicate_succ]
  rw [hm, Gen.goTo_nat _ _ (by simp only [List.length_append]; omega),
    Gen.goFrom_nat _ _ (by simp only [List.length_append]; omega)]
  simp only [Option.bind_some, List.take_left', List.drop_left']
  have hc : Gen.goCopy (List.replicate a.length zero ++ zero :: List.replicate b.length zero) a =
      a ++ zero :: List.replicate b.length zero := by
    rw [Gen.goCopy_le _ _ (by simp only [List.length_append, List.length_replicate]; omega)]
    congr 1
    exact List.drop_left' (by simp only [List.length_replicate])
  rw [hc, Gen.goSet_nat _ _ _ (by simp only [List.length_append, List.length_cons]; omega), Gen.set_append_length]
  simp only [Option.bind_some]
  have hcp := Gen.goCopyAt_nat (a ++ f :: List.replicate b.length zero) (a.length + 1) b
    (by simp only [List.length_append, List.length_cons]; omega)
  simp only [Int.natCast_add, Int.cast_ofNat_Int] at hcp
  rw [hcp]
  have hsplit : a ++ f :: List.replicate b.length zero = (a ++ [f]) ++ List.replicate b.length zero := by
    simp only [List.append_assoc, List.singleton_append]
  have hl : (a ++ [f]).length = a.length + 1 := by simp only [List.length_append, List.length_cons, List.length_nil]
  rw [hsplit, List.take_left' hl, List.drop_left' hl, Gen.goCopy_le _ _ (by simp only [List.length_replicate]; omega)]
  simp only [List.drop_replicate, Nat.sub_self, List.replicate_zero, List.append_nil,
    List.append_assoc, List.singleton_append]

/-- the statements of `FeatureSlice.Insert` behind the computation of the index, in `Option.bind` form -/
def insertBuild (zero f : Feature) (ff : Table) (i : Int) : Option Table :=
  (Gen.goMake zero ((ff.length : Int) + 1)).bind (fun gg0 =>
    (Gen.goTo ff i).bind fun x =>
      (Gen.goSet (Gen.goCopy gg0 x) i f).bind fun gg1 =>
        (Gen.goFrom ff i).bind fun y => (Gen.goCopyAt gg1 (i + 1) y).bind fun z => some z)

/-- the generated function, statement by statement, in `Option.bind` form (the generated text is a nest
of `match`es on the checked operations) -/
theorem featureSliceInsert_shape (fuel : Nat) (zero f : Feature) (ff : Table) :
    Gen.featureSliceInsert fuel zero ff f =
      (Gen.featureSliceInsertLoop ff fuel 0).bind fun i0 =>
        (if f.key ≠ "source" then
          (Gen.goFrom ff i0).bind fun x =>
            (Gen.sortSearch fuel (x.length : Int) (fun j =>
              (Gen.goIdx ff (i0 + j)).bind fun g => some (Gen.locationLessF f.loc g.loc))).bind fun r =>
                some (i0 + r)
          else some i0).bind fun i => insertBuild zero f ff i := by
  rfl

theorem insertBuild_eq (zero f : Feature) (ff : Table) (i : Nat) (hi : i ≤ ff.length) :
    insertBuild zero f ff (i : Int) = some (ff.take i ++ f :: ff.drop i) := by
  have h := insertAt_build zero f (ff.take i) (ff.drop i)
  have hl : (ff.take i).length = i := by simp only [List.length_take]; omega
  rw [List.take_append_drop, hl] at h
  simp only [insertBuild]
  rw [← h]
  apply congrArg; funext gg0; apply congrArg; funext x; apply congrArg; funext gg1; apply congrArg; funext y
  cases Gen.goCopyAt gg1 ((i : Int) + 1) y <;> rfl

/-- **`FeatureSlice.Insert(f)` as feature.go defines it now never panics and returns the model's
`Table.insert ff f`**: the feature goes behind the leading `source` features and — unless it is a
`source` itself — at the index `sort.Search` finds among the rest; for every table, every feature, every
zero `Feature` and every fuel of at least the length of the table -/
theorem featureSliceInsert_eq (fuel : Nat) (zero f : Feature) (ff : Table) (hfuel : ff.length ≤ fuel) :
    Gen.featureSliceInsert fuel zero ff f = some (Table.insert ff f) := by
  rw [featureSliceInsert_shape]
  have hsrc := sourceLoop_shape (Gen.featureSliceInsertLoop ff) ff (fun _ => by rw [Gen.featureSliceInsertLoop])
    (fun n i => by
      rw [Gen.featureSliceInsertLoop]) fuel 0 (by omega) (Nat.zero_le _)
  simp only [Int.cast_ofNat_Int, Nat.zero_add, List.drop_zero] at hsrc
  rw [hsrc]
  simp only [Option.bind_some, Table.insert]
  have hsc := sourceCount_le ff
  by_cases hkey : f.key ≠ "source"
  · rw [if_pos hkey, if_pos hkey]
    rw [Gen.goFrom_nat ff _ hsc]
    simp only [Option.bind_some, List.length_drop]
    rw [sortSearch_eq _ (fun j => match ff[Table.sourceCount ff + j]? with
        | some g => Loc.less f.loc g.loc
        | none => true) (ff.length - Table.sourceCount ff) fuel
      (fun h hh => by
        have hlt : Table.sourceCount ff + h < ff.length := by omega
        have := Gen.goIdx_lt ff (Table.sourceCount ff + h) hlt
        simp only [Int.natCast_add] at this
        rw [this, List.getElem?_eq_getElem hlt]
        simp only [Option.bind_some, locationLessF_eq]) (by omega)]
    simp only [Option.bind_some]
    have hle : Table.sourceCount ff + sortSearch (ff.length - Table.sourceCount ff) (fun j =>
        match ff[Table.sourceCount ff + j]? with
        | some g => Loc.less f.loc g.loc
        | none => true) ≤ ff.length := by
      have := (sortSearch_general (ff.length - Table.sourceCount ff) (fun j =>
        match ff[Table.sourceCount ff + j]? with
        | some g => Loc.less f.loc g.loc
        | none => true)).1
      omega
    rw [← Int.natCast_add, insertBuild_eq zero f ff _ hle]
    congr 6 <;> (funext j; cases ff[Table.sourceCount ff + j]? <;> rfl)
  · rw [if_neg hkey, if_neg hkey]
    rw [Option.bind_some, insertBuild_eq zero f ff _ hsc]

-- non-vacuity: an insertion in the middle of a table with a leading `source`, on the generated function
example : Gen.featureSliceInsert 3 default
    [⟨"source", .ranged 0 9 false false, []⟩, ⟨"gene", .point 1, []⟩, ⟨"gene", .point 7, []⟩] ⟨"CDS", .point 4, []⟩ =
    some [⟨"source", .ranged 0 9 false false, []⟩, ⟨"gene", .point 1, []⟩, ⟨"CDS", .point 4, []⟩, ⟨"gene", .point 7, []⟩] := by
  rw [featureSliceInsert_eq _ _ _ _ (by decide)]; rfl

end Gts.Bridge
