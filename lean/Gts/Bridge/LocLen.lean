/-
  Bridge: `Location.Len()` over the seven kinds, regenerated from location.go by go2lean
  (Gts/Gen/LocLen.lean: the contiguous kinds straight-line, `Joined.Len` / `Ordered.Len` translated on
  the list of the lengths of the parts, dynamic dispatch as structural recursion over `Gts.Loc`), is
  the hand-written model's `Loc.len` — for EVERY location (structural induction).
-/
import Gts.Gen.LocLen
import Gts.Model.Loc
namespace Gts.Bridge
open Gts

/-- a loop of the shape `for _, x := range xs { n += x }` adds the lengths of the parts -/
theorem lenLoop_shape (loop : List Int → Int → Int)
    (hnil : ∀ n, loop [] n = n)
    (hcons : ∀ x rest n, loop (x :: rest) n = loop rest (n + x)) :
    ∀ (ls : List Loc) (n : Int), loop (ls.map Loc.len) n = n + Loc.lenList ls
  | [], n => by simp [hnil, Loc.lenList]
  | l :: ls, n => by
    simp only [List.map_cons, hcons, lenLoop_shape loop hnil hcons ls, Loc.lenList]
    omega

/-- `Joined.Len()` on the lengths of the parts -/
theorem joinedLen_eq (ls : List Loc) : Gen.joinedLen (ls.map Loc.len) = Loc.lenList ls := by
  simp only [Gen.joinedLen]
  rw [lenLoop_shape Gen.joinedLenLoop (fun _ => rfl) (fun _ _ _ => rfl)]
  omega

/-- `Ordered.Len()` on the lengths of the parts -/
theorem orderedLen_eq (ls : List Loc) : Gen.orderedLen (ls.map Loc.len) = Loc.lenList ls := by
  simp only [Gen.orderedLen]
  rw [lenLoop_shape Gen.orderedLenLoop (fun _ => rfl) (fun _ _ _ => rfl)]
  omega

mutual
/-- `Location.Len()` as location.go defines it now over the seven kinds is the model's `Loc.len` -/
theorem locLen_eq : ∀ (l : Loc), Gen.locLen l = Loc.len l
  | .between _ => by simp only [Gen.locLen, Gen.betweenLen, Loc.len]
  | .point _ => by simp only [Gen.locLen, Gen.pointLen, Loc.len]
  | .ranged _ _ _ _ => by simp only [Gen.locLen, Gen.rangedLen, Loc.len]
  | .ambiguous _ _ => by simp only [Gen.locLen, Gen.ambiguousLen, Loc.len]
  | .joined ls => by simp only [Gen.locLen, Loc.len, locLenList_eq ls, joinedLen_eq]
  | .ordered ls => by simp only [Gen.locLen, Loc.len, locLenList_eq ls, orderedLen_eq]
  | .compl l => by simp only [Gen.locLen, Gen.complementedLen, Loc.len, locLen_eq l]
theorem locLenList_eq : ∀ (ls : List Loc), Gen.locLenList ls = ls.map Loc.len
  | [] => rfl
  | l :: ls => by simp only [Gen.locLenList, List.map_cons, locLen_eq l, locLenList_eq ls]
end

-- non-vacuity: a nested location, evaluated on the generated function
example : Gen.locLen (.compl (.joined [.ranged 3 9 true false, .point 12, .ordered [.between 20, .ambiguous 30 35]])) = 8 := by
  decide

end Gts.Bridge
