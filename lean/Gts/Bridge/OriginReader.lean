/-
  Bridge (C16): the ORIGIN reader `makeGenbankOriginParser` of seqio/genbank_subparsers.go.
  Its statements are recognised one by one (`originReaderFrame_eq`), and everything behind
  `state.Clear()` — the length guard `length > maxOriginResidues`, `Request(toOriginLength(length))`,
  the choice between the fast path `validateOrigin` and the slow path `slowGenBankOriginParser`, the
  check for a further sequence line — is REGENERATED as `Gen.originReaderTail` and proved equal,
  for every remaining input and EVERY declared length, to what the model's reader
  `Gts.Origin.originParser` does behind its `Pars.clear` (`readerTail`, `tailP_run`,
  `originParser_split`), the length guard of /repo be672b0 included: `originParser_gen` is the
  unguarded equality "model reader = hand-modelled head; regenerated tail".
-/
import Gts.Gen.OriginReader
import Gts.Bridge.OriginValidate
import Gts.Bridge.OriginSlow
import Gts.Lemmas.ModText
import Gts.Model.Origin
namespace Gts.Bridge
open Gts Gts.Origin
open Gts.Pars (Bytes Err P PS)

/-- the statements of the parser `makeGenbankOriginParser(length)` returns are the ones the model's
reader (`Origin.originParser`, `GenBankParse.originField`) follows: field name, rest of the line,
`Clear`, the guard `length > maxOriginResidues`, `Request(toOriginLength(length))`, the fast path
`validateOrigin` on the requested bytes and `Advance`, otherwise the slow path on the state, the
check for a further sequence line, the unparsed `Origin`.  (v0 = length, v1 = gb, v2 = depth,
v3 = state, v4 = result, v5 = the field-name parser, v6 = err, v7 = p, v8 = parser, v9 = c.)
A guard moved, dropped or weakened, or the two paths exchanged (seeded C16-e), changes this list. -/
theorem originReaderFrame_eq :
    Gen.originReaderFrame = [
      "v5 := genbankFieldNameParser(\"ORIGIN\", v2)",
      "return func(v3, v4) error",
      "if v6 := v5(v3, v4); v6 != nil { return v6 }",
      "pars.Line(v3, v4)",
      "v3.Clear()",
      "if v0 > maxOriginResidues { return pars.NewError(\"sequence is too long for an ORIGIN block\", v3.Position()) }",
      "if v6 := v3.Request(toOriginLength(v0)); v6 != nil { return pars.NewError(\"not enough bytes in state\", v3.Position()) }",
      "v7 := v3.Buffer()",
      "if validateOrigin(v7, v0, v3.Position()) == nil { v3.Advance() } else { v8 := slowGenBankOriginParser(v0); if v6 := v8(v3, v4); v6 != nil { return v6 }; v7 = v4.Token }",
      "if v9, v6 := pars.Next(v3); v6 == nil && v9 == spaceByte { return pars.NewError(\"sequence is longer than the declared length\", v3.Position()) }",
      "v1.Origin = &Origin{v7, false}",
      "return nil"] := rfl

/-- `if c, err := pars.Next(state); err == nil && c == ' '` as the model has it: a further line
starting with a blank is an error -/
def nextCheck (buf st' : Bytes) : Out (Bytes × Bytes) :=
  match st' with
  | 32 :: _ => .error .fail
  | _ => .ok (buf, st')

theorem nextCheck_nil (buf : Bytes) : nextCheck buf [] = .ok (buf, []) := rfl

theorem nextCheck_space (buf r : Bytes) : nextCheck buf (32 :: r) = .error .fail := rfl

theorem nextCheck_other (buf r : Bytes) (c : UInt8) (hc : c ≠ 32) : nextCheck buf (c :: r) = .ok (buf, c :: r) := by
  unfold nextCheck
  split
  · rename_i heq; exact absurd (List.cons.inj heq).1 hc
  · rfl

/-- what the model's reader `Origin.originParser` does behind `Pars.clear`, as a function of the
remaining input: the Origin buffer and the remaining input -/
def readerTail (length : Int) (st : Bytes) : Out (Bytes × Bytes) :=
  if length > 1000000020 then .error .fail else
  let n := Origin.toOriginLength length
  if n < 0 then .error .panic else
  if st.length < n.toNat then .error .fail else
  match (match Origin.validateOrigin (st.take n.toNat) length with
    | .ok () => .ok (st.take n.toNat, st.drop n.toNat)
    | .error .panic => .error .panic
    | .error .fail => Origin.slowOrigin st length : Out (Bytes × Bytes)) with
  | .error e => .error e
  | .ok (buf, st') => nextCheck buf st'

theorem head?_space (st : Bytes) : (st.head? = some Gen.spaceByte) ↔ ∃ r, st = 32 :: r := by
  cases st with
  | nil => simp
  | cons c r =>
    simp only [List.head?_cons, Option.some.injEq, List.cons.injEq]
    constructor
    · intro h; exact ⟨r, h, rfl⟩
    · rintro ⟨r', h, _⟩; exact h

theorem tail_check (b st' : Bytes) :
    (if st'.head? = some Gen.spaceByte then (.error .fail : Except Err (Bytes × Bool × Bytes)) else .ok (b, false, st')) =
      match nextCheck b st' with
      | .error e => .error e
      | .ok (b, r) => .ok (b, false, r) := by
  cases st' with
  | nil => rw [nextCheck_nil]; rfl
  | cons c r =>
    by_cases hc : c = 32
    · subst hc; rw [nextCheck_space]; rfl
    · have : ¬ ((c :: r).head? = some Gen.spaceByte) := by simpa [Gen.spaceByte] using hc
      rw [if_neg this, nextCheck_other b r c hc]

/-- **the ORIGIN reader behind `state.Clear()`, as written in genbank_subparsers.go** (with the
regenerated `validateOrigin` and `slowGenBankOriginParser` inside), run on the remaining input `st`:
the outcome is the model reader's (`readerTail`): a declared length beyond `maxOriginResidues` is an
error, otherwise the same Origin buffer (unparsed) and remaining input, the same error, the same
panic — every input, every declared length, any fuel that covers the trip counts.  The guard
dropped or weakened, the paths exchanged, `Advance` forgotten, the check for a further sequence
line dropped: each breaks this proof or `originReaderFrame_eq`. -/
theorem originReaderTail_eq (fuel : Nat) (length : Int) (st tok gb0 : Bytes) (gb1 : Bool) (h10 : 10 ≤ fuel)
    (hl : length ≤ 60 * (fuel : Int)) :
    Gen.originReaderTail fuel fmt9 splitLine length st tok gb0 gb1 =
      match readerTail length st with
      | .error e => .error e
      | .ok (b, r) => .ok (b, false, r) := by
  simp only [Gen.originReaderTail, readerTail, toOriginLength_eq]
  by_cases hg : length > Gen.maxOriginResidues
  · rw [if_pos hg, if_pos (show length > 1000000020 from hg)]
  · rw [if_neg hg, if_neg (show ¬ length > 1000000020 from hg)]
    by_cases hneg : Origin.toOriginLength length < 0
    · rw [if_pos hneg, if_neg (show ¬ ((st.length : Int) < Origin.toOriginLength length) by omega)]
      simp only [Gen.goSliceTo]
      rw [if_neg (by omega)]
    · rw [if_neg hneg]
      obtain ⟨n, hn⟩ : ∃ n : Nat, Origin.toOriginLength length = (n : Int) :=
        ⟨(Origin.toOriginLength length).toNat, by omega⟩
      rw [hn]
      simp only [Int.toNat_natCast]
      by_cases hshort : st.length < n
      · rw [if_pos hshort, if_pos (show (st.length : Int) < (n : Int) by omega)]
      · rw [if_neg hshort, if_neg (show ¬ (st.length : Int) < (n : Int) by omega), Gen.goSliceTo_nat st n (by omega)]
        dsimp only
        rw [validateOrigin_eq fuel _ _ h10 hl, slowGenBankOriginParser_eq fuel st tok length h10 hl]
        cases Origin.validateOrigin (st.take n) length with
        | ok u => exact tail_check _ _
        | error e =>
          cases e with
          | panic => rfl
          | fail =>
            dsimp only
            cases Origin.slowOrigin st length with
            | error e => rfl
            | ok r => obtain ⟨b, st'⟩ := r; exact tail_check _ _

/-! ### `readerTail` is the model's reader behind `Pars.clear` -/

/-- the rest of `Origin.originParser` behind `Pars.clear` (a copy of its text) -/
def tailP (length : Int) : P Bytes := do
  if length > 1000000020 then Pars.fail
  let n := Origin.toOriginLength length
  if n < 0 then Pars.panic
  let p ← (do
    let s ← Pars.getS
    if s.rest.length < n.toNat then Pars.fail else pure (s.rest.take n.toNat) : P Bytes)
  let buf ← (match Origin.validateOrigin p length with
    | .ok () => do Pars.advanceN n.toNat; pure p
    | .error .panic => Pars.panic
    | .error .fail => do
      let s ← Pars.getS
      match Origin.slowOrigin s.rest length with
      | .error .panic => Pars.panic
      | .error .fail => Pars.fail
      | .ok (tok, st') => do Pars.setS { s with rest := st' }; pure tok : P Bytes)
  match (← Pars.getS).rest with
  | 32 :: _ => Pars.fail
  | _ => pure buf

/-- `Origin.originParser` is: the field name, the rest of the line, `Clear`, then `tailP` -/
theorem originParser_split (length depth : Int) :
    Origin.originParser length depth = (do
      Origin.fieldName [79, 82, 73, 71, 73, 78] depth
      let _ ← Pars.line
      Pars.clear
      tailP length) := rfl

/-- `tailP` run on a state computes `readerTail` of its remaining input (and leaves the saved
positions alone) -/
theorem tailP_run (length : Int) (s : PS) :
    match readerTail length s.rest with
    | .ok (b, r) => tailP length s = (.ok b, { s with rest := r })
    | .error e => (tailP length s).1 = .error e := by
  unfold tailP readerTail
  by_cases hg : length > 1000000020
  · simp [P.bind_run, Pars.fail, hg]
  simp only [hg, if_false]
  by_cases hneg : Origin.toOriginLength length < 0
  · simp [P.bind_run, Pars.panic, hneg]
  · obtain ⟨n, hn⟩ : ∃ n : Nat, Origin.toOriginLength length = (n : Int) :=
      ⟨(Origin.toOriginLength length).toNat, by omega⟩
    have hn0 : ¬ ((n : Int) < 0) := by omega
    simp only [hn, Int.toNat_natCast, hn0, if_false, P.bind_run, Pars.getS]
    by_cases hshort : s.rest.length < n
    · simp only [hshort, if_true, Pars.fail]
    · simp only [hshort, if_false, P.pure_run]
      cases hv : Origin.validateOrigin (s.rest.take n) length with
      | ok u =>
        cases u
        simp only [P.bind_run, P.pure_run, Pars.advanceN, Pars.getS, Pars.setS]
        cases hd : s.rest.drop n with
        | nil => simp [nextCheck_nil, P.pure_run]
        | cons c r =>
          by_cases hc : c = 32
          · subst hc; simp [nextCheck_space, Pars.fail]
          · rw [nextCheck_other _ _ _ hc]
            dsimp only
            simp [hc, P.pure_run]
      | error e =>
        cases e with
        | panic => simp [Pars.panic]
        | fail =>
          simp only [P.bind_run, Pars.getS]
          cases hs : Origin.slowOrigin s.rest length with
          | error e2 => cases e2 <;> simp [Pars.panic, Pars.fail]
          | ok res =>
            obtain ⟨tok, st'⟩ := res
            simp only [P.bind_run, P.pure_run, Pars.setS]
            cases st' with
            | nil => simp [nextCheck_nil, P.pure_run]
            | cons c r =>
              by_cases hc : c = 32
              · subst hc; simp [nextCheck_space, Pars.fail]
              · rw [nextCheck_other _ _ _ hc]
                dsimp only
                simp [hc, P.pure_run]

/-- the hand-modelled part of the reader in front of the regenerated tail: field name, rest of the
`ORIGIN` line, `Clear` -/
def headP (depth : Int) : P Unit := do
  Origin.fieldName [79, 82, 73, 71, 73, 78] depth
  let _ ← Pars.line
  Pars.clear

/-- **the model's ORIGIN reader `Origin.originParser` is the hand-modelled head (field name, rest
of the line, `Clear`) followed by the REGENERATED rest of `makeGenbankOriginParser`** — for every
state and EVERY declared length (the length guard of be672b0 is part of both sides), any fuel that
covers the trip counts: same Origin buffer and remaining input, same error, same panic. -/
theorem originParser_gen (fuel : Nat) (length depth : Int) (tok gb0 : Bytes) (gb1 : Bool)
    (h10 : 10 ≤ fuel) (hl : length ≤ 60 * (fuel : Int)) (s : PS) :
    match headP depth s with
    | (.error e, _) => (Origin.originParser length depth s).1 = .error e
    | (.ok (), s1) =>
      match Gen.originReaderTail fuel fmt9 splitLine length s1.rest tok gb0 gb1 with
      | .ok (b, _, r) => Origin.originParser length depth s = (.ok b, { s1 with rest := r })
      | .error e => (Origin.originParser length depth s).1 = .error e := by
  have hsplit : Origin.originParser length depth = (headP depth >>= fun _ => tailP length) := by
    rw [originParser_split]; simp only [headP, bind_assoc]
  rw [hsplit]
  simp only [P.bind_run]
  rcases headP depth s with ⟨r, s1⟩
  cases r with
  | error e => rfl
  | ok u =>
    cases u
    dsimp only
    rw [originReaderTail_eq fuel length s1.rest tok gb0 gb1 h10 hl]
    have ht := tailP_run length s1
    revert ht
    cases readerTail length s1.rest with
    | error e => intro ht; exact ht
    | ok res => obtain ⟨b, r⟩ := res; intro ht; exact ht

/-- a two-line record tail through the regenerated reader: fast path, slow path (CRLF), a block
longer than declared, a declared length beyond the guard -/
example :
    Gen.originReaderTail 10 fmt9 splitLine 1 [32,32,32,32,32,32,32,32,49,32,97,10, 47,47,10] [] [] false
      = .ok ([32,32,32,32,32,32,32,32,49,32,97,10], false, [47,47,10])
    ∧ Gen.originReaderTail 10 fmt9 splitLine 1 [32,32,32,32,32,32,32,32,49,32,97,13,10, 47,47,10] [] [] false
      = .ok ([32,32,32,32,32,32,32,32,49,32,97,10], false, [47,47,10])
    ∧ Gen.originReaderTail 10 fmt9 splitLine 1 [32,32,32,32,32,32,32,32,49,32,97,10, 32,32,32,32,32,32,32,32,50,32,98,10] [] [] false
      = .error .fail
    ∧ Gen.originReaderTail 10 fmt9 splitLine 1000000021 [] [] [] false = .error .fail := by
  decide

end Gts.Bridge
