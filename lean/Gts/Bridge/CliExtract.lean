/-
  Bridge: the per-record step of `gts extract`, regenerated from cmd/gts/extract.go by go2lean
  (Gts/Gen/CliExtract.lean: `containsRegion` with its index loop, the two nested loops that collect
  the regions of every locator without duplicates, `-v` through `gts.InvertLinear`, the filter
  `len(rr) == 1 || region.Len() != gts.Len(seq)`, `region.Locate(seq)`), writes exactly the model's
  `Cli.extract` — for EVERY record, list of locators and `-v` flag.
-/
import Gts.Gen.CliExtract
import Gts.Bridge.CliLoops
import Gts.Lemmas.Cli
namespace Gts.Bridge
open Gts

/-! ### `containsRegion` -/

/-- the index loop of `containsRegion`, entered at `i = len(pre)` on `rr = pre ++ suf`: it returns
`true` iff a region of `suf` is deeply equal to `r`, and `rr[i]` never panics -/
theorem containsRegionLoop_spec (r : Reg) : ∀ (suf pre : List Reg),
    Gen.containsRegionLoop (pre ++ suf) r suf (pre.length : Int) =
      some (if suf.any (· == r) then some true else none) := by
  intro suf
  induction suf with
  | nil => intro pre; simp [Gen.containsRegionLoop]
  | cons a rest ih =>
    intro pre
    have hb : (a == r) = Reg.beq a r := rfl
    simp only [Gen.containsRegionLoop, clAt_append_length, List.any_cons, hb]
    by_cases h : Reg.beq a r = true
    · simp [h]
    · have := ih (pre ++ [a])
      simp only [List.append_assoc, List.singleton_append, List.length_append, List.length_cons,
        List.length_nil, Nat.zero_add] at this
      have e : ((pre.length + 1 : Nat) : Int) = (pre.length : Int) + 1 := by omega
      rw [e] at this
      simp only [h, this, Bool.false_or]
      rfl

/-- **`containsRegion(rr, r)`, as written**: is some element of `rr` deeply equal to `r` -/
theorem containsRegion_eq (rr : List Reg) (r : Reg) : Gen.containsRegion rr r = some (rr.any (· == r)) := by
  have h := containsRegionLoop_spec r rr []
  simp only [List.nil_append, List.length_nil, Int.natCast_zero] at h
  simp only [Gen.containsRegion, h]
  cases rr.any (· == r) <;> rfl

/-! ### collecting the regions -/

/-- the generated inner loop `for _, r := range locate(seq) { if !containsRegion(rr, r) { rr = append(rr, r) } }` -/
theorem extractStepLoop2_eq (locators : List (Seq → List Reg)) (invert : Bool) : ∀ (rs rr : List Reg),
    Gen.extractStepLoop2 locators invert rs rr = some (Cli.dedupRegs rr rs) := by
  intro rs
  induction rs with
  | nil => intro rr; rfl
  | cons r rest ih =>
    intro rr
    simp only [Gen.extractStepLoop2, containsRegion_eq, Cli.dedupRegs]
    cases h : rr.any (· == r) <;> simp [ih]

theorem dedupRegs_append : ∀ (a b acc : List Reg),
    Cli.dedupRegs acc (a ++ b) = Cli.dedupRegs (Cli.dedupRegs acc a) b := by
  intro a
  induction a with
  | nil => intro b acc; rfl
  | cons x rest ih =>
    intro b acc
    simp only [List.cons_append, Cli.dedupRegs]
    split <;> exact ih _ _

/-- the generated outer loop over the locators -/
theorem extractStepLoop_eq (locators : List (Seq → List Reg)) (invert : Bool) (seq : Seq) :
    ∀ (ls : List (Seq → List Reg)) (rr : List Reg),
    Gen.extractStepLoop locators invert seq ls rr = some (Cli.dedupRegs rr (ls.flatMap fun l => l seq)) := by
  intro ls
  induction ls with
  | nil => intro rr; rfl
  | cons l rest ih =>
    intro rr
    simp only [Gen.extractStepLoop, extractStepLoop2_eq, ih, List.flatMap_cons, dedupRegs_append]

/-! ### writing -/

/-- the generated loop `for _, region := range rr { if len(rr) == 1 || region.Len() != gts.Len(seq) { … WriteSeq(region.Locate(seq)) } }` -/
theorem extractStepLoop3_eq (locators : List (Seq → List Reg)) (invert : Bool) (seq : Seq) (rr : List Reg)
    (rs : List Reg) (written : List Seq) :
    Gen.extractStepLoop3 locators invert seq rr rs written =
      some (written ++ (rs.filter fun r => rr.length == 1 || r.len != seq.len).map fun r => r.locate seq) :=
  appendIfLoop_spec (Gen.extractStepLoop3 locators invert seq rr)
    (fun r => rr.length == 1 || r.len != seq.len) (fun r => r.locate seq) (fun _ => rfl)
    (fun r rest w => by
      simp only [Gen.extractStepLoop3]
      by_cases h1 : (rr.length : Int) = 1
      · have : rr.length = 1 := by omega
        simp [this]
      · have : ¬ rr.length = 1 := by omega
        by_cases h2 : r.len = seq.len <;> simp [h1, this, h2]) rs written

/-- **`gts extract`, one record**: the scan-loop body of extract.go, as written, hands to `WriteSeq`
exactly the model's `Cli.extract` (first occurrences of the located regions in order, inverted with
`-v`, the regions as long as the record dropped unless there is exactly one), and no index
expression in it panics. -/
theorem extractStep_eq (locators : List (Seq → List Reg)) (invert : Bool) (seq : Seq) :
    Gen.extractStep locators invert seq = some (Cli.extract locators invert seq) := by
  have hm : Gen.clMake Reg 0 = some [] := clMake_nat Reg 0
  simp only [Gen.extractStep, hm, extractStepLoop_eq, Cli.extract, Cli.extractRegs]
  cases invert <;> simp [extractStepLoop3_eq]

example : Gen.extractStep [fun _ => [.seg 1 3, .seg 4 2], fun _ => [.seg 1 3]] true ⟨[], [1, 2, 3, 4, 5]⟩
    = some (Cli.extract [fun _ => [.seg 1 3, .seg 4 2], fun _ => [.seg 1 3]] true ⟨[], [1, 2, 3, 4, 5]⟩) :=
  extractStep_eq _ _ _

theorem extractStepFacts_eq : Gen.extractStepFacts = ["write", "flush"] := rfl

end Gts.Bridge
