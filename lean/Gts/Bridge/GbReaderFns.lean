/-
  C07 / C01 bridge (DESIGN.md 4.1a): the PLAIN COMPUTATIONS of the seqio reader — the pieces of its
  closures that involve no go-pars combinator — regenerated from the Go source on every run
  (`Gts/Gen/GbReaderFns.lean`, generator go2lean/gbreaderfns.go; how a Go library call is read:
  `Gts/Gen/GbReaderPrelude.lean`, `Gts/Gen/GoBytes.lean`) equal what the hand-written model computes at
  the same place, for EVERY input (and every fuel, where a loop is translated literally):

    GenBankParser              depth = blanks + 5, the range check and the final comparison of the length
    genbankFieldNameParser     the indent behind a field name (natural subtraction = the clamp at 0)
    genbankReferenceParser     the padding behind the reference number
    genbankSubfieldNameParser  the widths add up to the depth
    genbankFieldBodyParser, genbankSourceParser, literalQualifierValueParser   joining of lines
    genbankDefinitionParser    the final period (never an index out of range)
    genbankDBLinkPairParser    `db: id` (never an index / slice out of range: f459ebc)
    genbankContigParser        the region `[head-1, tail)`
    quotedQualifierParser      the loop that takes the continuation indent out of a quoted value (one pass
                               since 2612fae): the store `token[w] = token[r]`, `bytes.HasSuffix(token[:w], p)`,
                               `w -= len(prefix)` — round for round `stripLoop`; never a panic at any fuel, ended
                               after `len(token)` rounds with the model's `stripCont`, for EVERY prefix (and, for a
                               non-empty one, with the value of the loop it replaced: `quotedStrip_model`)
    INSDCTableParser, featureKeylineParser   the column arithmetic of the feature table
    parseReferenceInfo         one `a to b` range (b95613d)
    FlatFileSplit, Dictionary.Set, searchString (binary search = membership on a sorted list)

  The model is total where the Go code can panic; a bridge states the outcome including `.error .panic`.
-/
import Gts.Gen.GbReaderFns
import Gts.Lemmas.GoBytes
import Gts.Lemmas.GbReaderPrelude
import Gts.Lemmas.Origin
import Gts.Bridge.Origin
import Gts.Model.GenBankParse
import Gts.Model.GbSlice
import Gts.Lemmas.GbStripOnePass
namespace Gts.Bridge
open Gts
open Gts.Pars (Bytes Err)
open Gts.GenBank

/-! ### GenBankParser -/

/-- `depth := len(result.Children[0].Token) + 5` is the model's `sp1.length + 5` (`locusParser`) -/
theorem gbDepth_eq (tok : Bytes) : Gen.gbDepth tok = .ok (((tok.length + 5 : Nat)) : Int) := by
  simp only [Gen.gbDepth]
  have : ((tok.length : Nat) : Int) + 5 = ((tok.length + 5 : Nat) : Int) := by omega
  rw [this]

/-- on unbounded integers the range check `length < 0 || toOriginLength(length) < 0` says `length < 0`:
the second disjunct can only hold through the wrap-around of Go's 64-bit `int` -/
theorem gbLengthOutOfRange_int (len : Int) : Gen.gbLengthOutOfRange len = .ok (decide (len < 0)) := by
  simp only [Gen.gbLengthOutOfRange]
  congr 1
  by_cases h : len < 0
  · simp [h]
  · have h0 : 0 ≤ len := by omega
    obtain ⟨n, rfl⟩ := Int.eq_ofNat_of_zero_le h0
    rw [toOriginLength_eq, Origin.toOriginLength_nat]
    simp only [h, false_or]
    have : ¬ ((Origin.tl n : Nat) : Int) < 0 := by omega
    simp [this]

/-- … so that, wherever the true value of `toOriginLength(length)` fits an `int` (no wrap-around), the
code refuses exactly the lengths the model refuses (`genbankParser`: `l.length < 0 ∨
Origin.toOriginLength l.length > 9223372036854775807`; the model writes the wrap-around out) -/
theorem gbLengthOutOfRange_eq (len : Int) (hfit : Origin.toOriginLength len ≤ 9223372036854775807) :
    Gen.gbLengthOutOfRange len =
      .ok (decide (len < 0 ∨ Origin.toOriginLength len > 9223372036854775807)) := by
  rw [gbLengthOutOfRange_int]
  congr 1
  have : ¬ Origin.toOriginLength len > 9223372036854775807 := by omega
  simp [this]

/-- the final comparison is the model's `m ≠ l.length ∧ (m ≠ 0 ∨ f.contigAcc.isEmpty)` (6813da5) -/
theorem gbLengthMismatch_eq (m len : Int) (contigAcc : Bytes) :
    Gen.gbLengthMismatch m len contigAcc.isEmpty =
      .ok (decide (m ≠ len ∧ (m ≠ 0 ∨ contigAcc.isEmpty))) := by
  simp only [Gen.gbLengthMismatch]

/-! ### genbankFieldNameParser, genbankReferenceParser, genbankSubfieldNameParser -/

/-- the clamp `if indentLength < 0 { indentLength = 0 }` (2806af0) is the natural subtraction of
`fieldPadding`: `sp (depth - nameLen)` -/
theorem fieldIndentLength_eq (depth : Nat) (name : Bytes) :
    Gen.fieldIndentLength (depth : Int) name = .ok (((depth - name.length : Nat)) : Int) := by
  simp only [Gen.fieldIndentLength]
  by_cases h : ((depth : Int) - (name.length : Int)) < 0
  · rw [if_pos h]
    have : (0 : Int) = ((depth - name.length : Nat) : Int) := by omega
    simp only [this]
  · rw [if_neg h]
    have : (depth : Int) - (name.length : Int) = ((depth - name.length : Nat) : Int) := by omega
    simp only [this]

/-- … and `strings.Repeat(" ", indentLength)` never panics: it is `sp (depth - nameLen)` -/
theorem fieldIndent_blanks (depth : Nat) (name : Bytes) :
    (Gen.fieldIndentLength (depth : Int) name).toOption.bind (Gen.goRepeat 32) =
      some (sp (depth - name.length)) := by
  rw [fieldIndentLength_eq]
  simp only [Except.toOption, Option.bind_some, Gen.goRepeat, Int.toNat_natCast, sp]
  rw [if_neg (by omega)]

/-- `len(name) > depth` is `fieldPadding`'s `nameLen > depth` -/
theorem fieldNameTooWide_eq (depth : Nat) (name : Bytes) :
    Gen.fieldNameTooWide (depth : Int) name = .ok (decide (name.length > depth)) := by
  simp only [Gen.fieldNameTooWide]
  congr 1
  by_cases h : name.length > depth
  · simp [h]
  · simp [h]

/-- `3 - len(strconv.Itoa(number))` clamped at 0 (761240c) is `referenceField`'s `sp (3 - w)` with
`w = (itoaB number).length` -/
theorem referencePaddingLength_eq (itoa : Int → Bytes) (number : Int) :
    Gen.referencePaddingLength itoa number = .ok (((3 - (itoa number).length : Nat)) : Int) := by
  simp only [Gen.referencePaddingLength]
  by_cases h : ((3 : Int) - ((itoa number).length : Int)) < 0
  · rw [if_pos h]
    have : (0 : Int) = ((3 - (itoa number).length : Nat) : Int) := by omega
    simp only [this]
  · rw [if_neg h]
    have : (3 : Int) - ((itoa number).length : Int) = ((3 - (itoa number).length : Nat) : Int) := by omega
    simp only [this]

/-- … and `strings.Repeat(" ", paddingLength)` never panics -/
theorem referencePadding_blanks (number : Int) :
    (Gen.referencePaddingLength itoaB number).toOption.bind (Gen.goRepeat 32) =
      some (sp (3 - (itoaB number).length)) := by
  rw [referencePaddingLength_eq]
  simp only [Except.toOption, Option.bind_some, Gen.goRepeat, Int.toNat_natCast, sp]
  rw [if_neg (by omega)]

/-- `prefixLength+len(name)+suffixLength != depth` is `subfieldName`'s test on natural numbers -/
theorem subfieldUneven_eq (prefixLen suffixLen depth : Nat) (name : Bytes) :
    Gen.subfieldUneven (prefixLen : Int) name (suffixLen : Int) (depth : Int) =
      .ok (decide (prefixLen + name.length + suffixLen ≠ depth)) := by
  simp only [Gen.subfieldUneven]
  congr 1
  by_cases h : prefixLen + name.length + suffixLen = depth
  · simp [h]; omega
  · simp [h]; omega

/-! ### joining lines -/

/-- `w.WriteByte(sep); w.Write(result.Token)` is `bodyMore`'s `acc ++ sep :: l` -/
theorem fieldBodyJoin_eq (acc l : Bytes) (sep : UInt8) : Gen.fieldBodyJoin acc sep l = .ok (acc ++ sep :: l) := by
  simp only [Gen.fieldBodyJoin, List.append_assoc, List.singleton_append]

/-- the taxonomy lines: `taxonMore`'s `if acc.isEmpty then l else acc ++ 32 :: l` -/
theorem taxonJoin_eq (acc l : Bytes) :
    Gen.taxonJoin acc l = .ok (if acc.isEmpty then l else acc ++ 32 :: l) := by
  simp only [Gen.taxonJoin, Gen.spaceByte]
  cases acc with
  | nil => simp
  | cons a t =>
    have : ((((a :: t).length : Nat) : Int) > 0) := by simp only [List.length_cons]; omega
    rw [if_pos this]
    simp

/-- `p = append(p, '\n'); p = append(p, result.Token...)` is `literalMore`'s `p ++ 10 :: l` -/
theorem literalJoin_eq (p l : Bytes) : Gen.literalJoin p l = .ok (p ++ 10 :: l) := by
  simp only [Gen.literalJoin, List.append_assoc, List.singleton_append]

/-! ### genbankDefinitionParser -/

/-- the Map function of DEFINITION: `definitionField`'s test for the final period and `trimDot`; the
index `p[len(p)-1]` stands behind `len(p) != 0` and never fails -/
theorem definitionValue_eq (p : Bytes) :
    Gen.definitionValue p =
      if (!p.isEmpty && decide (p.getLast? ≠ some 46)) = true then .error .fail else .ok (trimDot p) := by
  simp only [Gen.definitionValue, Gen.bytesTrimSuffix_dot]
  cases p with
  | nil => simp
  | cons a t =>
    have hlen : ((((a :: t).length : Nat)) : Int) ≠ 0 := by simp only [List.length_cons]; omega
    rw [if_pos hlen]
    have hidx : Gen.goIndex (a :: t) ((((a :: t).length : Nat) : Int) - 1) = (a :: t).getLast? := by
      have : (((a :: t).length : Nat) : Int) - 1 = ((t.length : Nat) : Int) := by
        simp only [List.length_cons]; omega
      rw [this, Gen.goIndex_nat, List.getLast?_eq_getElem?]; simp
    rw [hidx]
    cases hl : (a :: t).getLast? with
    | none => simp at hl
    | some x =>
      by_cases hx : x = 46
      · subst hx; simp
      · simp [hx]

/-! ### genbankDBLinkPairParser -/

/-- `db: id` (f459ebc): the statements behind `pars.Line` are the model's `dblinkPair`; the index
`s[i+1]` and the slices `s[:i]`, `s[i+2:]` stand behind `len(s) <= i+2` and never fail -/
theorem dblinkPair_eq (l : Bytes) :
    Gen.dblinkPair l = match GenBank.dblinkPair l with | some r => .ok r | none => .error .fail := by
  simp only [Gen.dblinkPair, GenBank.dblinkPair, Gen.bytesIndexByte_indexOf, Gen.spaceByte]
  cases hi : indexOf 58 l with
  | none => simp
  | some i =>
    have hb := Gen.indexOf_bound 58 l i hi
    have hne : ¬ ((i : Int) = -1) := by omega
    simp only [hne, if_false]
    by_cases hlen : l.length ≤ i + 2
    · have : ((l.length : Nat) : Int) ≤ (i : Int) + 2 := by omega
      simp [this, hlen]
    · have h1 : ¬ ((l.length : Nat) : Int) ≤ (i : Int) + 2 := by omega
      rw [if_neg h1]
      have hidx : Gen.goIndex l ((i : Int) + 1) = l[i + 1]? := by
        have : (i : Int) + 1 = ((i + 1 : Nat) : Int) := by omega
        rw [this, Gen.goIndex_nat]
      have hlt : i + 1 < l.length := by omega
      rw [hidx, List.getElem?_eq_getElem hlt]
      have hgd : l.getD (i + 1) 0 = l[i + 1] := by simp [List.getD, List.getElem?_eq_getElem hlt]
      simp only [hgd]
      by_cases hsp : l[i + 1] = 32
      · have hs1 : Gen.goSliceTo l (i : Int) = some (l.take i) := Gen.goSliceTo_nat l i (by omega)
        have hs2 : Gen.goSliceFrom l ((i : Int) + 2) = some (l.drop (i + 2)) := by
          have : (i : Int) + 2 = ((i + 2 : Nat) : Int) := by omega
          rw [this]; exact Gen.goSliceFrom_nat l (i + 2) (by omega)
        simp [hsp, hlen, hs1, hs2]
      · simp [hsp, hlen]

/-! ### genbankContigParser, parseReferenceInfo -/

/-- the filter handed to `pars.Until` (a4b3f5d) is `contigField`'s `untilFilter contigStop`: colon, line
feed or carriage return, for every byte; it never panics -/
theorem contigStop_eq (b : UInt8) : Gen.contigStop b = .ok (contigStop b) := by
  simp only [Gen.contigStop, contigStop, Bool.decide_or]
  rfl

/-- `gts.Segment{head - 1, tail}` is `contigField`'s `contigHead := head - 1, contigTail := tail` -/
theorem contigRegion_eq (head tail : Int) : Gen.contigRegion head tail = .ok (head - 1, tail) := by
  simp only [Gen.contigRegion]

/-- one `a to b` of a REFERENCE info: `refRange`'s `if b ≤ a - 1 then fail else pure (a - 1, b)` (b95613d:
an empty or inverted range is an error, `gts.Range` is never handed one) -/
theorem referenceRange_eq (a b : Int) :
    Gen.referenceRange a b = if b ≤ a - 1 then .error .fail else .ok (a - 1, b) := by
  simp only [Gen.referenceRange]

/-! ### the columns of the feature table -/

/-- `depth := pre + len(key) + pst` is `table`'s `pre + key.length + pst` -/
theorem tableDepth_eq (pre pst : Nat) (key : Bytes) :
    Gen.tableDepth (pre : Int) key (pst : Int) = .ok (((pre + key.length + pst : Nat)) : Int) := by
  simp only [Gen.tableDepth]
  have : (pre : Int) + ((key.length : Nat) : Int) + (pst : Int) = ((pre + key.length + pst : Nat) : Int) := by omega
  rw [this]

/-- the prefix of the further key lines: `prefix ++ sp pre` (`keyline`'s `lit (sp pre)` for the empty
prefix of `INSDCTableParser("")`); `strings.Repeat` never fails on a length -/
theorem tableKeylinePrefix_eq (pre : Bytes) (n : Nat) :
    Gen.tableKeylinePrefix pre (n : Int) = .ok (pre ++ sp n) := by
  simp only [Gen.tableKeylinePrefix, Gen.goRepeat, Int.toNat_natCast, sp]
  rw [if_neg (by omega)]

/-- the prefix of the qualifier lines: `prefix ++ sp depth` (`qualifiers (sp depth)`) -/
theorem tableQualifierPrefix_eq (pre : Bytes) (depth : Nat) :
    Gen.tableQualifierPrefix pre (depth : Int) = .ok (pre ++ sp depth) := by
  simp only [Gen.tableQualifierPrefix, Gen.goRepeat, Int.toNat_natCast, sp]
  rw [if_neg (by omega)]

/-- the blanks between key and location: the loop bound `depth-len(prefix+key)` may be negative (no
iteration); as a number of iterations it is `keyline`'s `depth - (pre + key.length)` -/
theorem keylineBlanks_eq (depth pre : Nat) (key : Bytes) :
    ∃ n : Int, Gen.keylineBlanks (depth : Int) (sp pre) key = .ok n ∧ n.toNat = depth - (pre + key.length) := by
  refine ⟨(depth : Int) - (((sp pre ++ key).length : Nat) : Int), by simp only [Gen.keylineBlanks], ?_⟩
  simp only [sp, List.length_append, List.length_replicate]
  omega

/-! ### FlatFileSplit, Dictionary.Set -/

/-- `FlatFileSplit` with `strings.Split` read as the model's `split` -/
theorem flatFileSplit_eq (s : Bytes) :
    Gen.flatFileSplit (fun s sep => GenBank.split sep s) s = .ok (GenBank.flatFileSplit s) := by
  simp only [Gen.flatFileSplit, GenBank.flatFileSplit, Gen.bytesTrimSuffix_dot]
  cases h : trimDot s with
  | nil => simp
  | cons a t => simp [bs]; omega

theorem dictionarySetRange_eq (k v : Bytes) : ∀ d : List (Bytes × Bytes),
    (match Gen.dictionarySetRange k v d with | some d' => d' | none => d ++ [(k, v)]) = dictSet d k v
  | [] => rfl
  | (k', v') :: rest => by
    have ih := dictionarySetRange_eq k v rest
    simp only [Gen.dictionarySetRange, dictSet]
    by_cases h : k' = k
    · simp [h]
    · simp only [h, if_false]
      cases hr : Gen.dictionarySetRange k v rest with
      | none => rw [hr] at ih; simp only [Option.map_none, List.cons_append]; rw [← ih]
      | some d' => rw [hr] at ih; simp only [Option.map_some]; rw [← ih]

/-- `Dictionary.Set`: the `range` loop that overwrites the first cell with the key and returns, the
`append` behind it — the model's `dictSet` -/
theorem dictionarySet_eq (d : List (Bytes × Bytes)) (k v : Bytes) : Gen.dictionarySet d k v = dictSet d k v := by
  simp only [Gen.dictionarySet]; exact dictionarySetRange_eq k v d

/-! ### quotedQualifierParser: taking the continuation indent out of a quoted value -/

/-- one round of the loop body, the three checked operations: `token[r]` is inside the token, the
store `token[w] = token[r]` at `w ≤ r` is inside it, and so is the slice `token[:w+1]` — which is
`token[:w]` with the byte just moved behind it -/
theorem quotedStrip_step (token : Bytes) (w r : Nat) (c : UInt8) (hw : w ≤ r)
    (hc : token[r]? = some c) :
    Gen.goIndex token (r : Int) = some c ∧
    Gen.goStore token (w : Int) c = some (token.set w c) ∧
    Gen.goSliceTo (token.set w c) ((w : Int) + 1) = some (token.take w ++ [c]) := by
  have hr : r < token.length := (List.getElem?_eq_some_iff.mp hc).1
  refine ⟨by rw [Gen.goIndex_nat, hc], ?_, ?_⟩
  · simp only [Gen.goStore, Int.toNat_natCast]
    rw [if_pos (by omega)]
  · have e : (w : Int) + 1 = ((w + 1 : Nat) : Int) := by omega
    rw [e, Gen.goSliceTo_nat _ _ (by rw [List.length_set]; omega)]
    congr 1
    have hwl : w < token.length := by omega
    rw [List.take_set, List.take_add_one, List.getElem?_eq_getElem hwl]
    simp only [Option.toList_some]
    rw [List.set_append_right _ _ (by simp; omega)]
    simp [List.length_take, Nat.min_eq_left (Nat.le_of_lt hwl)]

/-- `bytes.HasSuffix(token[:w], p)` on `token[:w]` = `acc` reversed with the byte `c` behind it is the
model's test `rp.isPrefixOf (c :: acc)` -/
theorem quotedStrip_hasSuffix (p acc : Bytes) (c : UInt8) :
    Gen.bytesHasSuffix (acc.reverse ++ [c]) p = p.reverse.isPrefixOf (c :: acc) := by
  simp [Gen.bytesHasSuffix, List.isSuffixOf]

/-- THE LOOP, literally translated, is the model's `stripLoop` round for round.  From a state
`(token, w, r)` with `w ≤ r ≤ len(token)` whose `token[:w]` is `acc` reversed, at ANY fuel: no index,
store or slice ever fails, the token keeps its length and `w` stays inside it; and when the fuel covers
the `len(token) − r` bytes still to be read the loop has ended by its own condition (`r = len(token)`)
and `token[:w]` is what `stripLoop` makes of `acc` and `token[r:]`. -/
theorem quotedStripLoop_eq (pre : Bytes) : ∀ (fuel : Nat) (token acc : Bytes) (w r : Nat),
    w ≤ r → r ≤ token.length → token.take w = acc.reverse →
    ∃ (token' : Bytes) (w' r' : Nat),
      Gen.quotedStripLoop pre (10 :: pre) fuel token (w : Int) (r : Int) =
        .ok (token', (w' : Int), (r' : Int)) ∧
      token'.length = token.length ∧ w' ≤ token.length ∧
      (token.length - r ≤ fuel → r' = token.length ∧
        token'.take w' = stripLoop (10 :: pre).reverse pre.length acc (token.drop r))
  | 0, token, acc, w, r, hw, hr, hacc => by
    refine ⟨token, w, r, rfl, rfl, by omega, fun hf => ?_⟩
    have : r = token.length := by omega
    subst this
    refine ⟨rfl, ?_⟩
    rw [List.drop_length, stripLoop, hacc]
  | fuel + 1, token, acc, w, r, hw, hr, hacc => by
    rw [Gen.quotedStripLoop]
    by_cases hlt : r < token.length
    · rw [if_pos (by omega)]
      have hc : token[r]? = some token[r] := List.getElem?_eq_getElem hlt
      obtain ⟨h1, h2, h3⟩ := quotedStrip_step token w r token[r] hw hc
      simp only [h1, h2, h3]
      rw [hacc, quotedStrip_hasSuffix]
      have hlen : acc.length = w := by
        have := congrArg List.length hacc
        simp only [List.length_take, List.length_reverse] at this
        omega
      have hdrop : token.drop r = token[r] :: (token.set w token[r]).drop (r + 1) := by
        rw [List.drop_set_of_lt (by omega), List.drop_eq_getElem_cons hlt]
      have hr1 : ((r : Int) + 1) = ((r + 1 : Nat) : Int) := by omega
      by_cases hp : (10 :: pre).reverse.isPrefixOf (token[r] :: acc) = true
      · -- the end of `token[:w]` is the pattern: `w -= len(prefix)`
        have hple : pre.length + 1 ≤ w + 1 := by
          have := (List.isPrefixOf_iff_prefix.mp hp).length_le
          simp only [List.length_reverse, List.length_cons] at this
          omega
        have hw1 : ((w : Int) + 1 - ((pre.length : Nat) : Int)) = ((w + 1 - pre.length : Nat) : Int) := by
          omega
        simp only [hp, if_true, hw1, hr1]
        have htake : (token.set w token[r]).take (w + 1 - pre.length) =
            ((token[r] :: acc).drop pre.length).reverse := by
          have e : (token.set w token[r]).take (w + 1) = (token[r] :: acc).reverse := by
            have := h3
            rw [show (w : Int) + 1 = ((w + 1 : Nat) : Int) by omega,
              Gen.goSliceTo_nat _ _ (by rw [List.length_set]; omega)] at this
            rw [Option.some.inj this, hacc]; simp
          have : (token.set w token[r]).take (w + 1 - pre.length) =
              ((token.set w token[r]).take (w + 1)).take (w + 1 - pre.length) := by
            rw [List.take_take]; congr 1; omega
          rw [this, e, List.take_reverse]
          congr 2
          simp only [List.length_cons]
          omega
        obtain ⟨token', w', r', hloop, hl, hwl, hend⟩ :=
          quotedStripLoop_eq pre fuel (token.set w token[r]) ((token[r] :: acc).drop pre.length)
            (w + 1 - pre.length) (r + 1) (by omega) (by rw [List.length_set]; omega) htake
        rw [List.length_set] at hl hwl hend
        refine ⟨token', w', r', hloop, hl, hwl, fun hf => ?_⟩
        obtain ⟨hr', ht⟩ := hend (by omega)
        refine ⟨hr', ?_⟩
        rw [ht, hdrop, stripLoop, if_pos hp]
      · -- it is not: the byte stays
        have hp' : ((10 :: pre).reverse.isPrefixOf (token[r] :: acc)) = false := by
          cases h : (10 :: pre).reverse.isPrefixOf (token[r] :: acc) with
          | false => rfl
          | true => exact absurd h hp
        have hw1 : ((w : Int) + 1) = ((w + 1 : Nat) : Int) := by omega
        simp only [hp', Bool.false_eq_true, if_false, hw1, hr1]
        have htake : (token.set w token[r]).take (w + 1) = (token[r] :: acc).reverse := by
          have := h3
          rw [hw1, Gen.goSliceTo_nat _ _ (by rw [List.length_set]; omega)] at this
          rw [Option.some.inj this, hacc]; simp
        obtain ⟨token', w', r', hloop, hl, hwl, hend⟩ :=
          quotedStripLoop_eq pre fuel (token.set w token[r]) (token[r] :: acc) (w + 1) (r + 1)
            (by omega) (by rw [List.length_set]; omega) htake
        rw [List.length_set] at hl hwl hend
        refine ⟨token', w', r', hloop, hl, hwl, fun hf => ?_⟩
        obtain ⟨hr', ht⟩ := hend (by omega)
        refine ⟨hr', ?_⟩
        rw [ht, hdrop, stripLoop, if_neg hp]
    · rw [if_neg (by omega)]
      refine ⟨token, w, r, rfl, rfl, by omega, fun _ => ?_⟩
      have : r = token.length := by omega
      subst this
      refine ⟨rfl, ?_⟩
      rw [List.drop_length, stripLoop, hacc]

/-- `quotedQualifierParser` behind `pars.EOL`, at EVERY fuel and for EVERY prefix: no index, store or
slice expression of the translated statements ever fails (a fuel below `len(token)` stops the loop
early, which the Go loop does not do: `quotedStrip_eq`) -/
theorem quotedStrip_nopanic (fuel : Nat) (pre tok : Bytes) :
    ∃ v, Gen.quotedStrip fuel pre tok = .ok v := by
  obtain ⟨token', w', r', hloop, hl, hwl, _⟩ :=
    quotedStripLoop_eq pre fuel tok [] 0 0 (Nat.le_refl _) (Nat.zero_le _) rfl
  simp only [Gen.quotedStrip, List.singleton_append]
  rw [show (0 : Int) = ((0 : Nat) : Int) from rfl, hloop]
  simp only
  rw [Gen.goSliceTo_nat _ _ (by omega)]
  exact ⟨_, rfl⟩

/-- `quotedQualifierParser` behind `pars.EOL`: for every fuel of at least `len(token)` — the number of
rounds of the counted loop `for r := 0; r < len(token); r++` — the translated statements yield
`stripCont prefix token`, the value the model's `quotedValue` returns; for EVERY prefix, the empty one
included (where the loop before 2612fae did not end) -/
theorem quotedStrip_eq (fuel : Nat) (pre tok : Bytes) (hf : tok.length ≤ fuel) :
    Gen.quotedStrip fuel pre tok = .ok (stripCont pre tok) := by
  obtain ⟨token', w', r', hloop, hl, hwl, hend⟩ :=
    quotedStripLoop_eq pre fuel tok [] 0 0 (Nat.le_refl _) (Nat.zero_le _) rfl
  obtain ⟨_, ht⟩ := hend (by omega)
  simp only [Gen.quotedStrip, List.singleton_append]
  rw [show (0 : Int) = ((0 : Nat) : Int) from rfl, hloop]
  simp only
  rw [Gen.goSliceTo_nat _ _ (by omega), ht]
  rfl

/-- THE LOOP BEFORE 2612fae (the old reading `stripContOld`; `Gts/Lemmas/GbStripOnePass.lean`): with a
non-empty prefix every iteration removed at least one byte: the old loop ended within `len(token)`
iterations, more fuel changed nothing (with an EMPTY prefix the old Go loop did not end) -/
theorem stripCont_fuel_succ (pre : Bytes) (hne : pre ≠ []) : ∀ (f : Nat) (t : Bytes), t.length ≤ f →
    stripContOld pre (f + 1) t = stripContOld pre f t
  | 0, t, h => by
    have : t = [] := List.length_eq_zero_iff.mp (by omega)
    subst this
    simp [stripContOld, findSub]
  | f + 1, t, h => by
    rw [stripContOld, stripContOld]
    cases hk : findSub (10 :: pre) t 0 with
    | none => rfl
    | some k =>
      have hb := (Gen.findSub_bound (10 :: pre) t 0 k hk).2
      simp only [Nat.sub_zero, List.length_cons] at hb
      have hpos : 0 < pre.length := List.length_pos_iff.mpr hne
      simp only
      exact stripCont_fuel_succ pre hne f _ (by
        simp only [List.length_append, List.length_take, List.length_drop]; omega)

theorem stripCont_fuel_stable (pre : Bytes) (hne : pre ≠ []) (t : Bytes) :
    ∀ f, t.length ≤ f → stripContOld pre f t = stripContOld pre t.length t := by
  intro f hf
  induction f with
  | zero =>
    have : t.length = 0 := by omega
    rw [this]
  | succ f ih =>
    by_cases h : t.length ≤ f
    · rw [stripCont_fuel_succ pre hne f t h, ih h]
    · have : t.length = f + 1 := by omega
      rw [this]

/-- … so that, with a non-empty prefix and for every fuel of at least `len(token)`, the translated
one-pass loop of today returns what `quotedValue` returned BEFORE the repair
(`stripContOld pre tok.length tok`): the value of a quoted qualifier has not changed
(`stripCont_onepass_eq`) -/
theorem quotedStrip_model (fuel : Nat) (pre tok : Bytes) (hne : pre ≠ []) (hf : tok.length ≤ fuel) :
    Gen.quotedStrip fuel pre tok = .ok (stripContOld pre tok.length tok) := by
  rw [quotedStrip_eq fuel pre tok hf, stripCont_onepass_eq pre hne tok tok.length (Nat.le_refl _)]

/-! ### searchString: the binary search is membership on a sorted list -/

/-- `searchString` on a list that is sorted (no element is greater than a later one) with respect to
an irreflexive, total `<`: it says whether the string is in the list.  Fuel: the length of the list
(every call is on a strictly shorter slice; the slice expressions cannot fail, `n < len(ss)`). -/
theorem searchString_mem (lt : Bytes → Bytes → Bool) (hirr : ∀ a, lt a a = false)
    (htot : ∀ a b, lt a b = false → lt b a = false → a = b) (s : Bytes) :
    ∀ (fuel : Nat) (ss : List Bytes), ss.length ≤ fuel → ss.Pairwise (fun a b => lt b a = false) →
      Gen.searchString lt fuel s ss = decide (s ∈ ss)
  | 0, ss, h, _ => by
    have : ss = [] := List.length_eq_zero_iff.mp (by omega)
    subst this; simp [Gen.searchString]
  | fuel + 1, ss, h, hs => by
    rw [Gen.searchString]
    by_cases hnil : ss.length = 0
    · have : ss = [] := List.length_eq_zero_iff.mp hnil
      subst this; simp
    · rw [if_neg hnil]
      have hn : ss.length / 2 < ss.length := by omega
      have hsplit : ss = ss.take (ss.length / 2) ++ ss[ss.length / 2] :: ss.drop (ss.length / 2 + 1) := by
        rw [← List.drop_eq_getElem_cons hn, List.take_append_drop]
      have hm : ss.getD (ss.length / 2) [] = ss[ss.length / 2] := by
        simp [List.getD, List.getElem?_eq_getElem hn]
      simp only [hm]
      rw [hsplit] at hs
      have hleft : ∀ a ∈ ss.take (ss.length / 2), lt ss[ss.length / 2] a = false := by
        intro a ha
        exact (List.pairwise_append.mp hs).2.2 a ha _ (List.mem_cons_self)
      have hright : ∀ b ∈ ss.drop (ss.length / 2 + 1), lt b ss[ss.length / 2] = false := by
        intro b hb
        exact (List.pairwise_cons.mp (List.pairwise_append.mp hs).2.1).1 b hb
      have hsl := (List.pairwise_append.mp hs).1
      have hsr := (List.pairwise_cons.mp (List.pairwise_append.mp hs).2.1).2
      have hmem : s ∈ ss ↔ s ∈ ss.take (ss.length / 2) ∨ s = ss[ss.length / 2] ∨ s ∈ ss.drop (ss.length / 2 + 1) := by
        conv => lhs; rw [hsplit]
        simp only [List.mem_append, List.mem_cons]
      by_cases h1 : lt s ss[ss.length / 2] = true
      · rw [if_pos h1, searchString_mem lt hirr htot s fuel _ (by simp only [List.length_take]; omega) hsl]
        congr 1
        rw [hmem]
        apply propext
        constructor
        · exact Or.inl
        · rintro (hl | hc | hr)
          · exact hl
          · rw [← hc, hirr] at h1; cases h1
          · rw [hright s hr] at h1; cases h1
      · rw [if_neg h1]
        by_cases h2 : lt ss[ss.length / 2] s = true
        · rw [if_pos h2, searchString_mem lt hirr htot s fuel _ (by simp only [List.length_drop]; omega) hsr]
          congr 1
          rw [hmem]
          apply propext
          constructor
          · exact fun hr => Or.inr (Or.inr hr)
          · rintro (hl | hc | hr)
            · rw [hleft s hl] at h2; cases h2
            · rw [← hc, hirr] at h2; cases h2
            · exact hr
        · rw [if_neg h2]
          have : s = ss[ss.length / 2] := htot _ _ (by simpa using h1) (by simpa using h2)
          have : s ∈ ss := by rw [hmem]; exact Or.inr (Or.inl this)
          simp [this]

/-- the code of a qualifier type: the `iota` value of its `QualifierType` constant
(`Gts.Gen.GbReader.qualifierTypes`) -/
def qtypeCode : QType → Nat
  | .quoted => 0 | .literal => 1 | .toggle => 2 | .unknown => 3

/-- `GetQualifierType`: insdc.go keeps its three name lists sorted (`sort.Strings` in `init` and after
every `Register…`), the model keeps them as plain lists with membership.  On sorted lists `q`, `l`,
`t` with the members of the model's registry the three binary searches, in the order of the `switch`,
are the model's `Registry.typeOf` (membership in `quoted`, then `literal`, then `toggle`); `<` on Go
strings is bytewise lexicographic (`Gen.bytesLt`) -/
theorem getQualifierType_eq (reg : Registry) (q l t : List Bytes) (name : Bytes) (fuel : Nat)
    (hq : q.Pairwise (fun a b => Gen.bytesLt b a = false))
    (hl : l.Pairwise (fun a b => Gen.bytesLt b a = false))
    (ht : t.Pairwise (fun a b => Gen.bytesLt b a = false))
    (mq : ∀ x, x ∈ q ↔ x ∈ reg.quoted) (ml : ∀ x, x ∈ l ↔ x ∈ reg.literal) (mt : ∀ x, x ∈ t ↔ x ∈ reg.toggle)
    (hfq : q.length ≤ fuel) (hfl : l.length ≤ fuel) (hft : t.length ≤ fuel) :
    Gen.getQualifierType Gen.bytesLt fuel q l t name = qtypeCode (reg.typeOf name) := by
  simp only [Gen.getQualifierType, Registry.typeOf,
    searchString_mem Gen.bytesLt Gen.bytesLt_irrefl Gen.bytesLt_total name fuel _ hfq hq,
    searchString_mem Gen.bytesLt Gen.bytesLt_irrefl Gen.bytesLt_total name fuel _ hfl hl,
    searchString_mem Gen.bytesLt Gen.bytesLt_irrefl Gen.bytesLt_total name fuel _ hft ht, decide_eq_true_eq,
    mq, ml, mt]
  split <;> (try split) <;> (try split) <;> rfl

/-! ### the hypotheses are met by concrete, non-trivial instances -/

-- a sorted registry (upper case sorts in front of lower case) against the same names in source order
example :
    Gen.getQualifierType Gen.bytesLt 3 [bs "EC_number", bs "gene", bs "note"] [bs "codon_start"] [bs "pseudo"]
      (bs "note") = qtypeCode ((⟨[bs "note", bs "gene", bs "EC_number"], [bs "codon_start"], [bs "pseudo"]⟩ : Registry).typeOf (bs "note")) :=
  getQualifierType_eq _ _ _ _ _ 3 (by decide) (by decide) (by decide)
    (fun x => by
      simp only [List.mem_cons, List.not_mem_nil, or_false]
      constructor <;> rintro (h | h | h) <;> simp [h])
    (fun _ => Iff.rfl) (fun _ => Iff.rfl) (by decide) (by decide) (by decide)

-- a value with two continuation lines behind the 21-column indent: two iterations, fuel 3 is enough
example : Gen.quotedStrip 50 (sp 21) (bs "ab" ++ 10 :: sp 21 ++ bs "cd" ++ 10 :: sp 21 ++ bs "e") =
    .ok (bs "ab" ++ 10 :: bs "cd" ++ 10 :: bs "e") := by
  rw [quotedStrip_model 50 _ _ (by decide) (by decide)]; decide

-- `DBLINK      BioProject: PRJNA1` and a line without value (f459ebc)
example : Gen.dblinkPair (bs "BioProject: PRJNA1") = .ok (bs "BioProject", bs "PRJNA1") := by decide
example : Gen.dblinkPair (bs "BioProject:") = .error .fail := by decide

end Gts.Bridge
