/-
  C07 / C01 bridge (DESIGN.md 4.1a): the PLAIN COMPUTATIONS of the seqio reader — the pieces of its
  closures that involve no go-pars combinator — regenerated from the Go source on every run
  (`Gts/Gen/GbReaderFns.lean`, generator go2lean/gbreaderfns.go; how a Go library call is read:
  `Gts/Gen/GbReaderPrelude.lean`, `Gts/Gen/GoBytes.lean`) equal what the hand-written model computes at
  the same place, for EVERY input (and every fuel, where a loop is translated literally):

    GenBankParser              depth = blanks + 5, the range check and the final comparison of the length
    genbankFieldNameParser     the indent behind a field name (natural subtraction = the clamp at 0)
    genbankReferenceParser     the padding behind the reference number
    genbankSubfieldNameParser  the widths add up to the depth
    genbankFieldBodyParser, genbankSourceParser, literalQualifierValueParser   joining of lines
    genbankDefinitionParser    the final period (never an index out of range)
    genbankDBLinkPairParser    `db: id` (never an index / slice out of range: f459ebc)
    genbankContigParser        the region `[head-1, tail)`
    quotedQualifierParser      the loop that takes the continuation indent out of a quoted value:
                               `bytes.Index` re-implemented (`bytesIndex_spec`), the overlapping `copy`, the
                               re-slice — step for step `stripCont`, for every fuel, never a panic
    INSDCTableParser, featureKeylineParser   the column arithmetic of the feature table
    parseReferenceInfo         one `a to b` range (b95613d)
    FlatFileSplit, Dictionary.Set, searchString (binary search = membership on a sorted list)

  The model is total where the Go code can panic; a bridge states the outcome including `.error .panic`.
-/
import Gts.Gen.GbReaderFns
import Gts.Lemmas.GoBytes
import Gts.Lemmas.GbReaderPrelude
import Gts.Lemmas.Origin
import Gts.Bridge.Origin
import Gts.Model.GenBankParse
import Gts.Model.GbSlice
namespace Gts.Bridge
open Gts
open Gts.Pars (Bytes Err)
open Gts.GenBank

/-! ### GenBankParser -/

/-- `depth := len(result.Children[0].Token) + 5` is the model's `sp1.length + 5` (`locusParser`) -/
theorem gbDepth_eq (tok : Bytes) : Gen.gbDepth tok = .ok (((tok.length + 5 : Nat)) : Int) := by
  simp only [Gen.gbDepth]
  have : ((tok.length : Nat) : Int) + 5 = ((tok.length + 5 : Nat) : Int) := by omega
  rw [this]

/-- on unbounded integers the range check `length < 0 || toOriginLength(length) < 0` says `length < 0`:
the second disjunct can only hold through the wrap-around of Go's 64-bit `int` -/
theorem gbLengthOutOfRange_int (len : Int) : Gen.gbLengthOutOfRange len = .ok (decide (len < 0)) := by
  simp only [Gen.gbLengthOutOfRange]
  congr 1
  by_cases h : len < 0
  · simp [h]
  · have h0 : 0 ≤ len := by omega
    obtain ⟨n, rfl⟩ := Int.eq_ofNat_of_zero_le h0
    rw [toOriginLength_eq, Origin.toOriginLength_nat]
    simp only [h, false_or]
    have : ¬ ((Origin.tl n : Nat) : Int) < 0 := by omega
    simp [this]

/-- … so that, wherever the true value of `toOriginLength(length)` fits an `int` (no wrap-around), the
code refuses exactly the lengths the model refuses (`genbankParser`: `l.length < 0 ∨
Origin.toOriginLength l.length > 9223372036854775807`; the model writes the wrap-around out) -/
theorem gbLengthOutOfRange_eq (len : Int) (hfit : Origin.toOriginLength len ≤ 9223372036854775807) :
    Gen.gbLengthOutOfRange len =
      .ok (decide (len < 0 ∨ Origin.toOriginLength len > 9223372036854775807)) := by
  rw [gbLengthOutOfRange_int]
  congr 1
  have : ¬ Origin.toOriginLength len > 9223372036854775807 := by omega
  simp [this]

/-- the final comparison is the model's `m ≠ l.length ∧ (m ≠ 0 ∨ f.contigAcc.isEmpty)` (6813da5) -/
theorem gbLengthMismatch_eq (m len : Int) (contigAcc : Bytes) :
    Gen.gbLengthMismatch m len contigAcc.isEmpty =
      .ok (decide (m ≠ len ∧ (m ≠ 0 ∨ contigAcc.isEmpty))) := by
  simp only [Gen.gbLengthMismatch]

/-! ### genbankFieldNameParser, genbankReferenceParser, genbankSubfieldNameParser -/

/-- the clamp `if indentLength < 0 { indentLength = 0 }` (2806af0) is the natural subtraction of
`fieldPadding`: `sp (depth - nameLen)` -/
theorem fieldIndentLength_eq (depth : Nat) (name : Bytes) :
    Gen.fieldIndentLength (depth : Int) name = .ok (((depth - name.length : Nat)) : Int) := by
  simp only [Gen.fieldIndentLength]
  by_cases h : ((depth : Int) - (name.length : Int)) < 0
  · rw [if_pos h]
    have : (0 : Int) = ((depth - name.length : Nat) : Int) := by omega
    simp only [this]
  · rw [if_neg h]
    have : (depth : Int) - (name.length : Int) = ((depth - name.length : Nat) : Int) := by omega
    simp only [this]

/-- … and `strings.Repeat(" ", indentLength)` never panics: it is `sp (depth - nameLen)` -/
theorem fieldIndent_blanks (depth : Nat) (name : Bytes) :
    (Gen.fieldIndentLength (depth : Int) name).toOption.bind (Gen.goRepeat 32) =
      some (sp (depth - name.length)) := by
  rw [fieldIndentLength_eq]
  simp only [Except.toOption, Option.bind_some, Gen.goRepeat, Int.toNat_natCast, sp]
  rw [if_neg (by omega)]

/-- `len(name) > depth` is `fieldPadding`'s `nameLen > depth` -/
theorem fieldNameTooWide_eq (depth : Nat) (name : Bytes) :
    Gen.fieldNameTooWide (depth : Int) name = .ok (decide (name.length > depth)) := by
  simp only [Gen.fieldNameTooWide]
  congr 1
  by_cases h : name.length > depth
  · simp [h]
  · simp [h]

/-- `3 - len(strconv.Itoa(number))` clamped at 0 (761240c) is `referenceField`'s `sp (3 - w)` with
`w = (itoaB number).length` -/
theorem referencePaddingLength_eq (itoa : Int → Bytes) (number : Int) :
    Gen.referencePaddingLength itoa number = .ok (((3 - (itoa number).length : Nat)) : Int) := by
  simp only [Gen.referencePaddingLength]
  by_cases h : ((3 : Int) - ((itoa number).length : Int)) < 0
  · rw [if_pos h]
    have : (0 : Int) = ((3 - (itoa number).length : Nat) : Int) := by omega
    simp only [this]
  · rw [if_neg h]
    have : (3 : Int) - ((itoa number).length : Int) = ((3 - (itoa number).length : Nat) : Int) := by omega
    simp only [this]

/-- … and `strings.Repeat(" ", paddingLength)` never panics -/
theorem referencePadding_blanks (number : Int) :
    (Gen.referencePaddingLength itoaB number).toOption.bind (Gen.goRepeat 32) =
      some (sp (3 - (itoaB number).length)) := by
  rw [referencePaddingLength_eq]
  simp only [Except.toOption, Option.bind_some, Gen.goRepeat, Int.toNat_natCast, sp]
  rw [if_neg (by omega)]

/-- `prefixLength+len(name)+suffixLength != depth` is `subfieldName`'s test on natural numbers -/
theorem subfieldUneven_eq (prefixLen suffixLen depth : Nat) (name : Bytes) :
    Gen.subfieldUneven (prefixLen : Int) name (suffixLen : Int) (depth : Int) =
      .ok (decide (prefixLen + name.length + suffixLen ≠ depth)) := by
  simp only [Gen.subfieldUneven]
  congr 1
  by_cases h : prefixLen + name.length + suffixLen = depth
  · simp [h]; omega
  · simp [h]; omega

/-! ### joining lines -/

/-- `w.WriteByte(sep); w.Write(result.Token)` is `bodyMore`'s `acc ++ sep :: l` -/
theorem fieldBodyJoin_eq (acc l : Bytes) (sep : UInt8) : Gen.fieldBodyJoin acc sep l = .ok (acc ++ sep :: l) := by
  simp only [Gen.fieldBodyJoin, List.append_assoc, List.singleton_append]

/-- the taxonomy lines: `taxonMore`'s `if acc.isEmpty then l else acc ++ 32 :: l` -/
theorem taxonJoin_eq (acc l : Bytes) :
    Gen.taxonJoin acc l = .ok (if acc.isEmpty then l else acc ++ 32 :: l) := by
  simp only [Gen.taxonJoin, Gen.spaceByte]
  cases acc with
  | nil => simp
  | cons a t =>
    have : ((((a :: t).length : Nat) : Int) > 0) := by simp only [List.length_cons]; omega
    rw [if_pos this]
    simp

/-- `p = append(p, '\n'); p = append(p, result.Token...)` is `literalMore`'s `p ++ 10 :: l` -/
theorem literalJoin_eq (p l : Bytes) : Gen.literalJoin p l = .ok (p ++ 10 :: l) := by
  simp only [Gen.literalJoin, List.append_assoc, List.singleton_append]

/-! ### genbankDefinitionParser -/

/-- the Map function of DEFINITION: `definitionField`'s test for the final period and `trimDot`; the
index `p[len(p)-1]` stands behind `len(p) != 0` and never fails -/
theorem definitionValue_eq (p : Bytes) :
    Gen.definitionValue p =
      if (!p.isEmpty && decide (p.getLast? ≠ some 46)) = true then .error .fail else .ok (trimDot p) := by
  simp only [Gen.definitionValue, Gen.bytesTrimSuffix_dot]
  cases p with
  | nil => simp
  | cons a t =>
    have hlen : ((((a :: t).length : Nat)) : Int) ≠ 0 := by simp only [List.length_cons]; omega
    rw [if_pos hlen]
    have hidx : Gen.goIndex (a :: t) ((((a :: t).length : Nat) : Int) - 1) = (a :: t).getLast? := by
      have : (((a :: t).length : Nat) : Int) - 1 = ((t.length : Nat) : Int) := by
        simp only [List.length_cons]; omega
      rw [this, Gen.goIndex_nat, List.getLast?_eq_getElem?]; simp
    rw [hidx]
    cases hl : (a :: t).getLast? with
    | none => simp at hl
    | some x =>
      by_cases hx : x = 46
      · subst hx; simp
      · simp [hx]

/-! ### genbankDBLinkPairParser -/

/-- `db: id` (f459ebc): the statements behind `pars.Line` are the model's `dblinkPair`; the index
`s[i+1]` and the slices `s[:i]`, `s[i+2:]` stand behind `len(s) <= i+2` and never fail -/
theorem dblinkPair_eq (l : Bytes) :
    Gen.dblinkPair l = match GenBank.dblinkPair l with | some r => .ok r | none => .error .fail := by
  simp only [Gen.dblinkPair, GenBank.dblinkPair, Gen.bytesIndexByte_indexOf, Gen.spaceByte]
  cases hi : indexOf 58 l with
  | none => simp
  | some i =>
    have hb := Gen.indexOf_bound 58 l i hi
    have hne : ¬ ((i : Int) = -1) := by omega
    simp only [hne, if_false]
    by_cases hlen : l.length ≤ i + 2
    · have : ((l.length : Nat) : Int) ≤ (i : Int) + 2 := by omega
      simp [this, hlen]
    · have h1 : ¬ ((l.length : Nat) : Int) ≤ (i : Int) + 2 := by omega
      rw [if_neg h1]
      have hidx : Gen.goIndex l ((i : Int) + 1) = l[i + 1]? := by
        have : (i : Int) + 1 = ((i + 1 : Nat) : Int) := by omega
        rw [this, Gen.goIndex_nat]
      have hlt : i + 1 < l.length := by omega
      rw [hidx, List.getElem?_eq_getElem hlt]
      have hgd : l.getD (i + 1) 0 = l[i + 1] := by simp [List.getD, List.getElem?_eq_getElem hlt]
      simp only [hgd]
      by_cases hsp : l[i + 1] = 32
      · have hs1 : Gen.goSliceTo l (i : Int) = some (l.take i) := Gen.goSliceTo_nat l i (by omega)
        have hs2 : Gen.goSliceFrom l ((i : Int) + 2) = some (l.drop (i + 2)) := by
          have : (i : Int) + 2 = ((i + 2 : Nat) : Int) := by omega
          rw [this]; exact Gen.goSliceFrom_nat l (i + 2) (by omega)
        simp [hsp, hlen, hs1, hs2]
      · simp [hsp, hlen]

/-! ### genbankContigParser, parseReferenceInfo -/

/-- the filter handed to `pars.Until` (a4b3f5d) is `contigField`'s `untilFilter contigStop`: colon, line
feed or carriage return, for every byte; it never panics -/
theorem contigStop_eq (b : UInt8) : Gen.contigStop b = .ok (contigStop b) := by
  simp only [Gen.contigStop, contigStop, Bool.decide_or]
  rfl

/-- `gts.Segment{head - 1, tail}` is `contigField`'s `contigHead := head - 1, contigTail := tail` -/
theorem contigRegion_eq (head tail : Int) : Gen.contigRegion head tail = .ok (head - 1, tail) := by
  simp only [Gen.contigRegion]

/-- one `a to b` of a REFERENCE info: `refRange`'s `if b ≤ a - 1 then fail else pure (a - 1, b)` (b95613d:
an empty or inverted range is an error, `gts.Range` is never handed one) -/
theorem referenceRange_eq (a b : Int) :
    Gen.referenceRange a b = if b ≤ a - 1 then .error .fail else .ok (a - 1, b) := by
  simp only [Gen.referenceRange]

/-! ### the columns of the feature table -/

/-- `depth := pre + len(key) + pst` is `table`'s `pre + key.length + pst` -/
theorem tableDepth_eq (pre pst : Nat) (key : Bytes) :
    Gen.tableDepth (pre : Int) key (pst : Int) = .ok (((pre + key.length + pst : Nat)) : Int) := by
  simp only [Gen.tableDepth]
  have : (pre : Int) + ((key.length : Nat) : Int) + (pst : Int) = ((pre + key.length + pst : Nat) : Int) := by omega
  rw [this]

/-- the prefix of the further key lines: `prefix ++ sp pre` (`keyline`'s `lit (sp pre)` for the empty
prefix of `INSDCTableParser("")`); `strings.Repeat` never fails on a length -/
theorem tableKeylinePrefix_eq (pre : Bytes) (n : Nat) :
    Gen.tableKeylinePrefix pre (n : Int) = .ok (pre ++ sp n) := by
  simp only [Gen.tableKeylinePrefix, Gen.goRepeat, Int.toNat_natCast, sp]
  rw [if_neg (by omega)]

/-- the prefix of the qualifier lines: `prefix ++ sp depth` (`qualifiers (sp depth)`) -/
theorem tableQualifierPrefix_eq (pre : Bytes) (depth : Nat) :
    Gen.tableQualifierPrefix pre (depth : Int) = .ok (pre ++ sp depth) := by
  simp only [Gen.tableQualifierPrefix, Gen.goRepeat, Int.toNat_natCast, sp]
  rw [if_neg (by omega)]

/-- the blanks between key and location: the loop bound `depth-len(prefix+key)` may be negative (no
iteration); as a number of iterations it is `keyline`'s `depth - (pre + key.length)` -/
theorem keylineBlanks_eq (depth pre : Nat) (key : Bytes) :
    ∃ n : Int, Gen.keylineBlanks (depth : Int) (sp pre) key = .ok n ∧ n.toNat = depth - (pre + key.length) := by
  refine ⟨(depth : Int) - (((sp pre ++ key).length : Nat) : Int), by simp only [Gen.keylineBlanks], ?_⟩
  simp only [sp, List.length_append, List.length_replicate]
  omega

/-! ### FlatFileSplit, Dictionary.Set -/

/-- `FlatFileSplit` with `strings.Split` read as the model's `split` -/
theorem flatFileSplit_eq (s : Bytes) :
    Gen.flatFileSplit (fun s sep => GenBank.split sep s) s = .ok (GenBank.flatFileSplit s) := by
  simp only [Gen.flatFileSplit, GenBank.flatFileSplit, Gen.bytesTrimSuffix_dot]
  cases h : trimDot s with
  | nil => simp
  | cons a t => simp [bs]; omega

theorem dictionarySetRange_eq (k v : Bytes) : ∀ d : List (Bytes × Bytes),
    (match Gen.dictionarySetRange k v d with | some d' => d' | none => d ++ [(k, v)]) = dictSet d k v
  | [] => rfl
  | (k', v') :: rest => by
    have ih := dictionarySetRange_eq k v rest
    simp only [Gen.dictionarySetRange, dictSet]
    by_cases h : k' = k
    · simp [h]
    · simp only [h, if_false]
      cases hr : Gen.dictionarySetRange k v rest with
      | none => rw [hr] at ih; simp only [Option.map_none, List.cons_append]; rw [← ih]
      | some d' => rw [hr] at ih; simp only [Option.map_some]; rw [← ih]

/-- `Dictionary.Set`: the `range` loop that overwrites the first cell with the key and returns, the
`append` behind it — the model's `dictSet` -/
theorem dictionarySet_eq (d : List (Bytes × Bytes)) (k v : Bytes) : Gen.dictionarySet d k v = dictSet d k v := by
  simp only [Gen.dictionarySet]; exact dictionarySetRange_eq k v d

/-! ### quotedQualifierParser: taking the continuation indent out of a quoted value -/

/-- one pass of the loop body on a hit at `k`: the overlapping `copy(token[k+1:], token[k+len(p):])`
moves the tail over the indent, `token[:k+1+n]` cuts the token to its new length — no slice, no copy
is out of range, and the result is `token[:k+1] ++ token[k+1+m:]` -/
theorem quotedStrip_step (t : Bytes) (k m : Nat) (h : k + 1 + m ≤ t.length) :
    ∃ (tok' : Bytes) (n : Int),
      Gen.goCopyAt t ((k : Int) + 1) (t.drop (k + 1 + m)) = some (tok', n) ∧
      Gen.goSliceTo tok' ((k : Int) + 1 + n) = some (t.take (k + 1) ++ t.drop (k + 1 + m)) := by
  have hoff : (k : Int) + 1 = ((k + 1 : Nat) : Int) := by omega
  refine ⟨t.take (k + 1) ++ ((t.drop (k + 1 + m)).take (t.length - (k + 1)) ++
      t.drop (k + 1 + (t.drop (k + 1 + m)).length)),
    ((min (t.length - (k + 1)) (t.drop (k + 1 + m)).length : Nat) : Int), ?_, ?_⟩
  · simp only [Gen.goCopyAt, hoff, Int.toNat_natCast]
    rw [if_pos (by omega)]
  · simp only [hoff, List.length_drop]
    have hmin : min (t.length - (k + 1)) (t.length - (k + 1 + m)) = t.length - (k + 1 + m) := by omega
    rw [hmin]
    have hcast : ((k + 1 : Nat) : Int) + ((t.length - (k + 1 + m) : Nat) : Int) =
        ((k + 1 + (t.length - (k + 1 + m)) : Nat) : Int) := by omega
    rw [hcast, Gen.goSliceTo_nat]
    · have htake : (t.drop (k + 1 + m)).take (t.length - (k + 1)) = t.drop (k + 1 + m) :=
        List.take_of_length_le (by simp only [List.length_drop]; omega)
      rw [htake, ← List.append_assoc]
      have hl : (t.take (k + 1) ++ t.drop (k + 1 + m)).length = k + 1 + (t.length - (k + 1 + m)) := by
        simp only [List.length_append, List.length_take, List.length_drop]; omega
      rw [← hl, List.take_left']
      rfl
    · simp only [List.length_append, List.length_take, List.length_drop]; omega

/-- THE LOOP, literally translated, is `stripCont` step for step: after `fuel` iterations (or when the
pattern is gone) the token is `stripCont pre fuel t` and the index variable is the index of the
pattern in it.  No `copy`, no slice expression ever fails. -/
theorem quotedStripLoop_eq (pre : Bytes) : ∀ (fuel : Nat) (t : Bytes),
    Gen.quotedStripLoop (10 :: pre) fuel t (Gen.bytesIndex t (10 :: pre)) =
      .ok (stripCont pre fuel t, Gen.bytesIndex (stripCont pre fuel t) (10 :: pre))
  | 0, t => rfl
  | fuel + 1, t => by
    rw [Gen.quotedStripLoop, stripCont]
    cases hk : findSub (10 :: pre) t 0 with
    | none =>
      have hi : Gen.bytesIndex t (10 :: pre) = -1 := by rw [Gen.bytesIndex_findSub, hk]
      rw [hi, if_neg (by omega)]
    | some k =>
      have hi : Gen.bytesIndex t (10 :: pre) = (k : Int) := by rw [Gen.bytesIndex_findSub, hk]
      have hb := (Gen.findSub_bound (10 :: pre) t 0 k hk).2
      simp only [Nat.sub_zero, List.length_cons] at hb
      rw [hi, if_pos (by omega)]
      have hfrom : Gen.goSliceFrom t ((k : Int) + (((10 :: pre).length : Nat) : Int)) =
          some (t.drop (k + 1 + pre.length)) := by
        have : (k : Int) + (((10 :: pre).length : Nat) : Int) = ((k + 1 + pre.length : Nat) : Int) := by
          simp only [List.length_cons]; omega
        rw [this]; exact Gen.goSliceFrom_nat t _ (by omega)
      obtain ⟨tok', n, hcopy, hcut⟩ := quotedStrip_step t k pre.length (by omega)
      simp only [hfrom, hcopy, hcut]
      have ih := quotedStripLoop_eq pre fuel (t.take (k + 1) ++ t.drop (k + 1 + pre.length))
      simp only [ih]

/-- `quotedQualifierParser` behind `pars.EOL`: for EVERY fuel the translated statements yield
`stripCont prefix fuel token`, the value the model computes with that fuel; never a panic -/
theorem quotedStrip_eq (fuel : Nat) (pre tok : Bytes) :
    Gen.quotedStrip fuel pre tok = .ok (stripCont pre fuel tok) := by
  simp only [Gen.quotedStrip, List.singleton_append, quotedStripLoop_eq]

/-- with a non-empty prefix every iteration removes at least one byte: the loop ends within
`len(token)` iterations, more fuel changes nothing (with an EMPTY prefix — `INSDCTableParser` never
builds one: the prefix is the depth of the table, at least the key — the Go loop would not end) -/
theorem stripCont_fuel_succ (pre : Bytes) (hne : pre ≠ []) : ∀ (f : Nat) (t : Bytes), t.length ≤ f →
    stripCont pre (f + 1) t = stripCont pre f t
  | 0, t, h => by
    have : t = [] := List.length_eq_zero_iff.mp (by omega)
    subst this
    simp [stripCont, findSub]
  | f + 1, t, h => by
    rw [stripCont, stripCont]
    cases hk : findSub (10 :: pre) t 0 with
    | none => rfl
    | some k =>
      have hb := (Gen.findSub_bound (10 :: pre) t 0 k hk).2
      simp only [Nat.sub_zero, List.length_cons] at hb
      have hpos : 0 < pre.length := List.length_pos_iff.mpr hne
      simp only
      exact stripCont_fuel_succ pre hne f _ (by
        simp only [List.length_append, List.length_take, List.length_drop]; omega)

theorem stripCont_fuel_stable (pre : Bytes) (hne : pre ≠ []) (t : Bytes) :
    ∀ f, t.length ≤ f → stripCont pre f t = stripCont pre t.length t := by
  intro f hf
  induction f with
  | zero =>
    have : t.length = 0 := by omega
    rw [this]
  | succ f ih =>
    by_cases h : t.length ≤ f
    · rw [stripCont_fuel_succ pre hne f t h, ih h]
    · have : t.length = f + 1 := by omega
      rw [this]

/-- … so that for every fuel of at least `len(token)` the translated loop has ended and returns what
`quotedValue` returns (`stripCont pre tok.length tok`) -/
theorem quotedStrip_model (fuel : Nat) (pre tok : Bytes) (hne : pre ≠ []) (hf : tok.length ≤ fuel) :
    Gen.quotedStrip fuel pre tok = .ok (stripCont pre tok.length tok) := by
  rw [quotedStrip_eq, stripCont_fuel_stable pre hne tok fuel hf]

/-! ### searchString: the binary search is membership on a sorted list -/

/-- `searchString` on a list that is sorted (no element is greater than a later one) with respect to
an irreflexive, total `<`: it says whether the string is in the list.  Fuel: the length of the list
(every call is on a strictly shorter slice; the slice expressions cannot fail, `n < len(ss)`). -/
theorem searchString_mem (lt : Bytes → Bytes → Bool) (hirr : ∀ a, lt a a = false)
    (htot : ∀ a b, lt a b = false → lt b a = false → a = b) (s : Bytes) :
    ∀ (fuel : Nat) (ss : List Bytes), ss.length ≤ fuel → ss.Pairwise (fun a b => lt b a = false) →
      Gen.searchString lt fuel s ss = decide (s ∈ ss)
  | 0, ss, h, _ => by
    have : ss = [] := List.length_eq_zero_iff.mp (by omega)
    subst this; simp [Gen.searchString]
  | fuel + 1, ss, h, hs => by
    rw [Gen.searchString]
    by_cases hnil : ss.length = 0
    · have : ss = [] := List.length_eq_zero_iff.mp hnil
      subst this; simp
    · rw [if_neg hnil]
      have hn : ss.length / 2 < ss.length := by omega
      have hsplit : ss = ss.take (ss.length / 2) ++ ss[ss.length / 2] :: ss.drop (ss.length / 2 + 1) := by
        rw [← List.drop_eq_getElem_cons hn, List.take_append_drop]
      have hm : ss.getD (ss.length / 2) [] = ss[ss.length / 2] := by
        simp [List.getD, List.getElem?_eq_getElem hn]
      simp only [hm]
      rw [hsplit] at hs
      have hleft : ∀ a ∈ ss.take (ss.length / 2), lt ss[ss.length / 2] a = false := by
        intro a ha
        exact (List.pairwise_append.mp hs).2.2 a ha _ (List.mem_cons_self)
      have hright : ∀ b ∈ ss.drop (ss.length / 2 + 1), lt b ss[ss.length / 2] = false := by
        intro b hb
        exact (List.pairwise_cons.mp (List.pairwise_append.mp hs).2.1).1 b hb
      have hsl := (List.pairwise_append.mp hs).1
      have hsr := (List.pairwise_cons.mp (List.pairwise_append.mp hs).2.1).2
      have hmem : s ∈ ss ↔ s ∈ ss.take (ss.length / 2) ∨ s = ss[ss.length / 2] ∨ s ∈ ss.drop (ss.length / 2 + 1) := by
        conv => lhs; rw [hsplit]
        simp only [List.mem_append, List.mem_cons]
      by_cases h1 : lt s ss[ss.length / 2] = true
      · rw [if_pos h1, searchString_mem lt hirr htot s fuel _ (by simp only [List.length_take]; omega) hsl]
        congr 1
        rw [hmem]
        apply propext
        constructor
        · exact Or.inl
        · rintro (hl | hc | hr)
          · exact hl
          · rw [← hc, hirr] at h1; cases h1
          · rw [hright s hr] at h1; cases h1
      · rw [if_neg h1]
        by_cases h2 : lt ss[ss.length / 2] s = true
        · rw [if_pos h2, searchString_mem lt hirr htot s fuel _ (by simp only [List.length_drop]; omega) hsr]
          congr 1
          rw [hmem]
          apply propext
          constructor
          · exact fun hr => Or.inr (Or.inr hr)
          · rintro (hl | hc | hr)
            · rw [hleft s hl] at h2; cases h2
            · rw [← hc, hirr] at h2; cases h2
            · exact hr
        · rw [if_neg h2]
          have : s = ss[ss.length / 2] := htot _ _ (by simpa using h1) (by simpa using h2)
          have : s ∈ ss := by rw [hmem]; exact Or.inr (Or.inl this)
          simp [this]

/-- the code of a qualifier type: the `iota` value of its `QualifierType` constant
(`Gts.Gen.GbReader.qualifierTypes`) -/
def qtypeCode : QType → Nat
  | .quoted => 0 | .literal => 1 | .toggle => 2 | .unknown => 3

/-- `GetQualifierType`: insdc.go keeps its three name lists sorted (`sort.Strings` in `init` and after
every `Register…`), the model keeps them as plain lists with membership.  On sorted lists `q`, `l`,
`t` with the members of the model's registry the three binary searches, in the order of the `switch`,
are the model's `Registry.typeOf` (membership in `quoted`, then `literal`, then `toggle`); `<` on Go
strings is bytewise lexicographic (`Gen.bytesLt`) -/
theorem getQualifierType_eq (reg : Registry) (q l t : List Bytes) (name : Bytes) (fuel : Nat)
    (hq : q.Pairwise (fun a b => Gen.bytesLt b a = false))
    (hl : l.Pairwise (fun a b => Gen.bytesLt b a = false))
    (ht : t.Pairwise (fun a b => Gen.bytesLt b a = false))
    (mq : ∀ x, x ∈ q ↔ x ∈ reg.quoted) (ml : ∀ x, x ∈ l ↔ x ∈ reg.literal) (mt : ∀ x, x ∈ t ↔ x ∈ reg.toggle)
    (hfq : q.length ≤ fuel) (hfl : l.length ≤ fuel) (hft : t.length ≤ fuel) :
    Gen.getQualifierType Gen.bytesLt fuel q l t name = qtypeCode (reg.typeOf name) := by
  simp only [Gen.getQualifierType, Registry.typeOf,
    searchString_mem Gen.bytesLt Gen.bytesLt_irrefl Gen.bytesLt_total name fuel _ hfq hq,
    searchString_mem Gen.bytesLt Gen.bytesLt_irrefl Gen.bytesLt_total name fuel _ hfl hl,
    searchString_mem Gen.bytesLt Gen.bytesLt_irrefl Gen.bytesLt_total name fuel _ hft ht, decide_eq_true_eq,
    mq, ml, mt]
  split <;> (try split) <;> (try split) <;> rfl

/-! ### the hypotheses are met by concrete, non-trivial instances -/

-- a sorted registry (upper case sorts in front of lower case) against the same names in source order
example :
    Gen.getQualifierType Gen.bytesLt 3 [bs "EC_number", bs "gene", bs "note"] [bs "codon_start"] [bs "pseudo"]
      (bs "note") = qtypeCode ((⟨[bs "note", bs "gene", bs "EC_number"], [bs "codon_start"], [bs "pseudo"]⟩ : Registry).typeOf (bs "note")) :=
  getQualifierType_eq _ _ _ _ _ 3 (by decide) (by decide) (by decide)
    (fun x => by
      simp only [List.mem_cons, List.not_mem_nil, or_false]
      constructor <;> rintro (h | h | h) <;> simp [h])
    (fun _ => Iff.rfl) (fun _ => Iff.rfl) (by decide) (by decide) (by decide)

-- a value with two continuation lines behind the 21-column indent: two iterations, fuel 3 is enough
example : Gen.quotedStrip 50 (sp 21) (bs "ab" ++ 10 :: sp 21 ++ bs "cd" ++ 10 :: sp 21 ++ bs "e") =
    .ok (bs "ab" ++ 10 :: bs "cd" ++ 10 :: bs "e") := by
  rw [quotedStrip_model 50 _ _ (by decide) (by decide)]; decide

-- `DBLINK      BioProject: PRJNA1` and a line without value (f459ebc)
example : Gen.dblinkPair (bs "BioProject: PRJNA1") = .ok (bs "BioProject", bs "PRJNA1") := by decide
example : Gen.dblinkPair (bs "BioProject:") = .error .fail := by decide

end Gts.Bridge
