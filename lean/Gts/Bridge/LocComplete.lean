/-
  Bridge: `asComplete`, regenerated from location.go by go2lean (Gts/Gen/LocComplete.lean: the type
  switch clause by clause, `case Ranged` by the statement translator, the loops
  `for i, u := range v { v[i] = asComplete(u) }` of the `Joined` / `Ordered` clauses LITERALLY — a
  counter, `u` read from the slice as it is when iteration `i` starts —, the recursive call through
  `self_`, explicit fuel), is the hand-written model's `Loc.asComplete` — for EVERY location and every
  fuel of at least its size.  `asComplete` is what `gts.Slice` applies to the location of a `source`
  feature (C03 `slice_feats_fwd`, C10).

  Slices are values on both sides: that the Go function overwrites the array of its argument is
  C11's subject (`asComplete_impure`), not this bridge's.
-/
import Gts.Gen.LocComplete
import Gts.Lemmas.LessGoOrder
namespace Gts.Bridge
open Gts

theorem set_take_succ {α : Type} (v : List α) (k : Nat) (x : α) (h : k < v.length) :
    (v.set k x).take (k + 1) = v.take k ++ [x] := by
  rw [List.set_eq_take_append_cons_drop, if_pos h]
  have hk : (v.take k).length = k := by simp only [List.length_take]; omega
  rw [List.take_append, hk, List.take_take, Nat.min_eq_right (Nat.le_succ k)]
  simp

theorem set_drop_succ {α : Type} (v : List α) (k : Nat) (x : α) :
    (v.set k x).drop (k + 1) = v.drop (k + 1) := by
  rw [List.drop_set_of_lt (by omega)]

/-- a loop of the shape `for i := range v { v[i] = f(v[i]) }` (exactly `todo` iterations, live reads)
entered at index `k` with `k + todo = len(v)` maps `f` over the cells from `k` on -/
theorem mapLoop_shape (loop : Nat → Int → List Loc → List Loc) (f : Loc → Loc)
    (h0 : ∀ i v, loop 0 i v = v)
    (hs : ∀ t i v, loop (t + 1) i v =
      loop t (i + 1) (v.set (Int.toNat i) (f (v.getD (Int.toNat i) default)))) :
    ∀ (t k : Nat) (v : List Loc), k + t = v.length →
      loop t (k : Int) v = v.take k ++ (v.drop k).map f
  | 0, k, v, h => by
    rw [h0]
    have : k = v.length := by omega
    subst this
    simp
  | t + 1, k, v, h => by
    have hk : k < v.length := by omega
    have e : ((k : Int) + 1) = ((k + 1 : Nat) : Int) := by omega
    rw [hs, e, Int.toNat_natCast,
      mapLoop_shape loop f h0 hs t (k + 1) _ (by simp only [List.length_set]; omega),
      set_take_succ v k _ hk, set_drop_succ, List.drop_eq_getElem_cons hk]
    simp [List.getD_eq_getElem?_getD, List.getElem?_eq_getElem hk]
    have hk' : k < (List.map f v).length := by simpa using hk
    rw [List.drop_eq_getElem_cons hk']
    simp

theorem map_congr_mem {f g : Loc → Loc} : ∀ {ls : List Loc}, (∀ l ∈ ls, f l = g l) → ls.map f = ls.map g
  | [], _ => rfl
  | x :: xs, h => by
    simp only [List.map_cons, h x (List.mem_cons_self ..),
      map_congr_mem (fun l hl => h l (List.mem_cons_of_mem _ hl))]

theorem asCompleteList_eq_map : ∀ (ls : List Loc), Loc.asCompleteList ls = ls.map Loc.asComplete
  | [] => rfl
  | l :: ls => by simp only [Loc.asCompleteList, List.map_cons, asCompleteList_eq_map ls]

/-- the loop of the `Joined` clause maps `self_` over the parts -/
theorem asCompleteLoop_eq (self_ : Loc → Loc) (v : List Loc) :
    Gen.asCompleteLoop self_ v.length 0 v = v.map self_ := by
  have := mapLoop_shape (Gen.asCompleteLoop self_) self_ (fun _ _ => rfl) (fun _ _ _ => rfl)
    v.length 0 v (by omega)
  simpa using this

/-- the loop of the `Ordered` clause maps `self_` over the parts -/
theorem asCompleteLoop2_eq (self_ : Loc → Loc) (v : List Loc) :
    Gen.asCompleteLoop2 self_ v.length 0 v = v.map self_ := by
  have := mapLoop_shape (Gen.asCompleteLoop2 self_) self_ (fun _ _ => rfl) (fun _ _ _ => rfl)
    v.length 0 v (by omega)
  simpa using this

/-- ONE STEP: if `self_` is `Loc.asComplete` on every smaller location, the body of `asComplete`
computes `Loc.asComplete l` -/
theorem asCompleteBody_eq (self_ : Loc → Loc) (l : Loc)
    (h : ∀ l', Loc.size l' < Loc.size l → self_ l' = Loc.asComplete l') :
    Gen.asCompleteBody self_ l = Loc.asComplete l := by
  cases l with
  | joined ls =>
    simp only [Gen.asCompleteBody, Loc.asComplete, asCompleteLoop_eq, asCompleteList_eq_map]
    rw [map_congr_mem (fun u hu => h u (by
      have := Loc.size_le_sizeList hu
      simp only [Loc.size]; omega))]
  | ordered ls =>
    simp only [Gen.asCompleteBody, Loc.asComplete, asCompleteLoop2_eq, asCompleteList_eq_map]
    rw [map_congr_mem (fun u hu => h u (by
      have := Loc.size_le_sizeList hu
      simp only [Loc.size]; omega))]
  | compl l =>
    simp only [Gen.asCompleteBody, Loc.asComplete]
    rw [h l (by simp only [Loc.size]; omega)]
  | _ => simp only [Gen.asCompleteBody, Loc.asComplete]

/-- `asComplete` as location.go defines it now is the model's `Loc.asComplete`: for every location and
every fuel of at least its size (the Go recursion terminates and returns `Loc.asComplete l`) -/
theorem asComplete_eq : ∀ (fuel : Nat) (l : Loc), Loc.size l ≤ fuel →
    Gen.asComplete fuel l = Loc.asComplete l
  | 0, l, h => by have := Loc.size_pos l; omega
  | fuel + 1, l, h => by
    simp only [Gen.asComplete]
    exact asCompleteBody_eq _ l (fun l' hlt => asComplete_eq fuel l' (by omega))

-- non-vacuity: partial flags are cleared at every depth of join / order and (repair e43d5f2) under a complement
example : Gen.asComplete 6 (.joined [.ranged 3 9 true false, .ordered [.ranged 1 2 false true],
      .compl (.ranged 5 6 true true)]) =
    .joined [.ranged 3 9 false false, .ordered [.ranged 1 2 false false], .compl (.ranged 5 6 false false)] := by
  rfl
example : Loc.size (.joined [.ranged 3 9 true false, .ordered [.ranged 1 2 false true],
      .compl (.ranged 5 6 true true)]) = 6 := by decide

end Gts.Bridge
