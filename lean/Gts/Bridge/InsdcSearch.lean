/-
  Bridge: the registry look-up of seqio/insdc.go — `searchString`, the recursive binary search behind
  `IsQuotedQualifier` / `IsLiteralQualifier` / `IsToggleQualifier` (`Gts/Gen/InsdcWrite.lean`, go2lean
  gwriter*.go) — IS membership, which is how `Registry.typeOf` of the model reads it (property C01):
  on every list that is sorted in the order of Go strings (bytewise lexicographic, duplicates allowed), for
  every fuel above the length of the list, the function never panics (the three slice / index expressions
  stay in range) and answers `s ∈ ss` (`searchString_eq`).
  What stays assumed: `sort.Strings` (called by `init()` and by every `Register…Qualifier`) leaves the three
  package variables sorted in that order.
-/
import Gts.Gen.InsdcWrite
namespace Gts.Bridge
open Gts.Gen.GoStrings
open Gts.Gen.InsdcWrite (searchString)

theorem wsStrLt_irrefl (a : List UInt8) : wsStrLt a a = false := by
  induction a with
  | nil => rfl
  | cons x a ih => simp [wsStrLt, ih]

/-- the order is total: two strings neither of which is below the other are equal -/
theorem wsStrLt_antisymm (a b : List UInt8) (h1 : wsStrLt a b = false) (h2 : wsStrLt b a = false) : a = b := by
  induction a generalizing b with
  | nil =>
    cases b with
    | nil => rfl
    | cons y b => simp [wsStrLt] at h1
  | cons x a ih =>
    cases b with
    | nil => simp [wsStrLt] at h2
    | cons y b =>
      simp only [wsStrLt] at h1 h2
      by_cases hxy : x < y
      · simp [hxy] at h1
      · by_cases hyx : y < x
        · simp [hyx] at h2
        · simp only [hxy, hyx, if_false] at h1 h2
          have : x = y := by
            have h3 : ¬ x.toNat < y.toNat := fun h => hxy (UInt8.lt_iff_toNat_lt.mpr h)
            have h4 : ¬ y.toNat < x.toNat := fun h => hyx (UInt8.lt_iff_toNat_lt.mpr h)
            exact UInt8.toNat_inj.mp (by omega)
          rw [this, ih b h1 h2]

/-- sorted in the order of Go strings (what `sort.Strings` establishes); duplicates allowed -/
def SortedStrings (ss : List (List UInt8)) : Prop := ss.Pairwise fun a b => wsStrLt b a = false

theorem tdiv_two (n : Nat) : Int.tdiv (n : Int) 2 = ((n / 2 : Nat) : Int) := by
  rw [Int.tdiv_eq_ediv_of_nonneg (by omega)]
  omega

/-- **insdc.go `searchString` is membership on a sorted list**: no panic, `s ∈ ss`, for every fuel above
the length -/
theorem searchString_eq (s : List UInt8) : ∀ (fuel : Nat) (ss : List (List UInt8)), ss.length < fuel →
    SortedStrings ss → searchString fuel s ss = some (decide (s ∈ ss)) := by
  intro fuel
  induction fuel with
  | zero => intro ss h; omega
  | succ fuel ih =>
    intro ss hlen hs
    unfold searchString
    cases hss : ss with
    | nil => simp
    | cons y ys =>
      rw [← hss]
      have hne : ¬ ((ss.length : Int) = 0) := by rw [hss]; simp; omega
      rw [if_neg hne]
      simp only [tdiv_two]
      have hk : ss.length / 2 < ss.length := by
        have : 0 < ss.length := by rw [hss]; simp
        omega
      have hto : wsTo ss ((ss.length / 2 : Nat) : Int) = some (ss.take (ss.length / 2)) := by
        unfold wsTo; rw [if_pos ⟨by omega, by omega⟩, Int.toNat_natCast]
      have hidx : wsIdx ss ((ss.length / 2 : Nat) : Int) = some ss[ss.length / 2] := by
        unfold wsIdx; rw [if_neg (by omega), Int.toNat_natCast, List.getElem?_eq_getElem hk]
      have hfrom : wsFrom ss (((ss.length / 2 : Nat) : Int) + 1) = some (ss.drop (ss.length / 2 + 1)) := by
        unfold wsFrom; rw [if_pos ⟨by omega, by omega⟩]
        have : (((ss.length / 2 : Nat) : Int) + 1).toNat = ss.length / 2 + 1 := by omega
        rw [this]
      rw [hto, hidx, hfrom]
      simp only [Option.bind_some]
      -- the list taken apart at the middle
      have hsplit : ss = ss.take (ss.length / 2) ++ ss[ss.length / 2] :: ss.drop (ss.length / 2 + 1) := by
        rw [List.getElem_cons_drop, List.take_append_drop]
      have hs' := hs
      unfold SortedStrings at hs'
      rw [hsplit, List.pairwise_append] at hs'
      obtain ⟨hl, hmr, hcross⟩ := hs'
      rw [List.pairwise_cons] at hmr
      by_cases h1 : wsStrLt s ss[ss.length / 2] = true
      · rw [if_pos h1, ih _ (by rw [List.length_take]; omega) hl]
        simp only [Option.bind_some]
        congr 1
        have hnot : s ∉ ss[ss.length / 2] :: ss.drop (ss.length / 2 + 1) := by
          intro hm
          rcases List.mem_cons.mp hm with he | hr
          · rw [he, wsStrLt_irrefl] at h1; cases h1
          · have := hmr.1 s hr
            rw [this] at h1; cases h1
        have : s ∈ ss ↔ s ∈ ss.take (ss.length / 2) := by
          constructor
          · intro hm
            rw [hsplit, List.mem_append] at hm
            rcases hm with h | h
            · exact h
            · exact absurd h hnot
          · intro hm; exact List.mem_of_mem_take hm
        simp [this]
      · rw [if_neg h1]
        by_cases h2 : wsStrLt ss[ss.length / 2] s = true
        · rw [if_pos h2, ih _ (by rw [List.length_drop]; omega) hmr.2]
          simp only [Option.bind_some]
          congr 1
          have hnot : s ∉ ss.take (ss.length / 2) ++ [ss[ss.length / 2]] := by
            intro hm
            rcases List.mem_append.mp hm with hl' | he
            · have := hcross s hl' ss[ss.length / 2] (List.mem_cons_self ..)
              rw [this] at h2; cases h2
            · rw [List.mem_singleton.mp he, wsStrLt_irrefl] at h2; cases h2
          have : s ∈ ss ↔ s ∈ ss.drop (ss.length / 2 + 1) := by
            constructor
            · intro hm
              rw [hsplit, List.mem_append, List.mem_cons] at hm
              rcases hm with h | h | h
              · exact absurd (List.mem_append_left _ h) hnot
              · exact absurd (List.mem_append_right _ (List.mem_singleton.mpr h)) hnot
              · exact h
            · intro hm; exact List.mem_of_mem_drop hm
          simp [this]
        · rw [if_neg h2]
          have he : s = ss[ss.length / 2] :=
            wsStrLt_antisymm _ _ (by simpa using h1) (by simpa using h2)
          have : s ∈ ss := by rw [he]; exact List.getElem_mem _
          simp [this]

/-- non-vacuity: a sorted list of three names (upper case sorts first: `EC_number` < `allele`), fuel 4 -/
example : SortedStrings [wsLit "EC_number", wsLit "allele", wsLit "note"] ∧
    searchString 4 (wsLit "allele") [wsLit "EC_number", wsLit "allele", wsLit "note"] = some true ∧
    searchString 4 (wsLit "gene") [wsLit "EC_number", wsLit "allele", wsLit "note"] = some false := by
  refine ⟨by unfold SortedStrings; decide, by decide, by decide⟩

end Gts.Bridge
