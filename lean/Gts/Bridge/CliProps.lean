/-
  C15 statements carried over to the REGENERATED code: the property theorems of Gts/Props/C15.lean
  are about the hand-written model `Cli.*`; the bridges (CliDelete / CliInsert / CliSplit / CliRotate)
  show the scan-loop bodies of cmd/gts/*.go as they are written now equal to that model, so the
  residue-level statements hold for `Gts.Gen.*Step` — the loops of the commands themselves — for every
  locator, flag and (split) iteration order of the Go map.
-/
import Gts.Bridge.CliDelete
import Gts.Bridge.CliInsert
import Gts.Bridge.CliSplit
import Gts.Bridge.CliRotate
import Gts.Props.C15
namespace Gts.Bridge
open Gts Reg

/-- `gts delete` as written: one record comes out, and its residues are exactly the residues of the
input that no located region covers (regions inside the record) -/
theorem gen_delete_bytes (loc : Seq → List Reg) (erase : Bool) (s : Seq)
    (hw : within s.len (many (loc s))) :
    ∃ out, Gen.deleteStep loc erase s = some [out] ∧
      out.bytes = C15.keepUncovered (many (loc s)) s.bytes :=
  ⟨_, deleteStep_eq loc erase s, C15.delete_bytes loc erase s hw⟩

/-- `gts insert` as written: one record per guest, in order, each with one copy of that guest at the
head of every located region, measured in the host's coordinates -/
theorem gen_insert_bytes (loc : Seq → List Reg) (embed : Bool) (guests : List Seq) (host : Seq)
    (hw : ∀ h ∈ (loc host).map Reg.head, 0 ≤ h ∧ h ≤ host.len) :
    ∃ outs, Gen.insertStep loc embed guests host = some outs ∧
      outs.map (·.bytes) = guests.map fun g => C15.insertSpec ((loc host).map Reg.head) g.bytes host.bytes := by
  refine ⟨_, insertStep_eq loc embed guests host, ?_⟩
  simp only [List.map_map]
  apply List.map_congr_left
  intro g _
  exact C15.insert_bytes loc embed host g hw

/-- `gts infix` as written: one record per host, in order, each with one copy of the scanned record
at the head of every region located in that host -/
theorem gen_infix_bytes (loc : Seq → List Reg) (embed : Bool) (hosts : List Seq) (guest : Seq)
    (hw : ∀ host ∈ hosts, ∀ h ∈ (loc host).map Reg.head, 0 ≤ h ∧ h ≤ host.len) :
    ∃ outs, Gen.infixStep loc embed hosts guest = some outs ∧
      outs.map (·.bytes) = hosts.map fun host => C15.insertSpec ((loc host).map Reg.head) guest.bytes host.bytes := by
  refine ⟨_, infixStep_eq loc embed hosts guest, ?_⟩
  simp only [List.map_map]
  apply List.map_congr_left
  intro host hh
  exact C15.insert_bytes loc embed host guest (hw host hh)

/-- `gts split` as written, linear record: the pieces, concatenated, are the input — whatever order
the Go map yields the cut positions in -/
theorem gen_split_concat_linear (mo : List Int → List Int) (hmo : ∀ l, (mo l).Perm l)
    (loc : Seq → List Reg) (s : Seq)
    (hw : ∀ r ∈ loc s, 0 ≤ Cli.cutOf r ∧ Cli.cutOf r ≤ s.len) :
    ∃ outs, Gen.splitStep mo loc false s = some outs ∧ (outs.map (·.bytes)).flatten = s.bytes :=
  ⟨_, splitStep_eq mo hmo loc false s, C15.split_concat_linear loc s hw⟩

/-- `gts split` as written, circular record with at least one located region: the pieces,
concatenated, are the input re-origined at one of the cut positions -/
theorem gen_split_concat_circular (mo : List Int → List Int) (hmo : ∀ l, (mo l).Perm l)
    (loc : Seq → List Reg) (s : Seq) (hne : loc s ≠ []) (hL : 0 < s.len)
    (hw : ∀ r ∈ loc s, 0 ≤ Cli.cutOf r ∧ Cli.cutOf r ≤ s.len ∧ 0 ≤ r.head ∧ r.head ≤ s.len) :
    ∃ outs, Gen.splitStep mo loc true s = some outs ∧
      ∃ c, (∃ r ∈ loc s, c = Cli.cutOf r ∨ c = r.head) ∧
        (outs.map (·.bytes)).flatten = s.bytes.drop c.toNat ++ s.bytes.take c.toNat :=
  ⟨_, splitStep_eq mo hmo loc true s, C15.split_concat_circular_any loc s hne hL hw⟩

/-- `gts rotate` as written: one record, the input turned so that the head of the FIRST located
region is its origin -/
theorem gen_rotate_first_head (loc : Seq → List Reg) (s : Seq) (r : Reg) (rest : List Reg)
    (h : loc s = r :: rest) (hL : 0 < s.len) (h0 : 0 ≤ r.head) (h1 : r.head ≤ s.len) :
    ∃ out, Gen.rotateStep loc s = some [out] ∧
      out.bytes = s.bytes.drop r.head.toNat ++ s.bytes.take r.head.toNat :=
  ⟨_, rotateStep_eq loc s, C15.rotate_first_head loc s r rest h hL h0 h1⟩

example : within (⟨[], [1, 2, 3, 4, 5]⟩ : Seq).len (many ((fun _ => [Reg.seg 1 3, .seg 4 2]) (⟨[], [1, 2, 3, 4, 5]⟩ : Seq))) := by
  decide

end Gts.Bridge
