/-
  Bridge: `FeatureSlice.Less`, regenerated from feature.go by go2lean (Gts/Gen/FeatLess.lean: the function
  of the two features its first statement copies — `source` features first, then `LocationLess`), is the
  hand-written model's `Table.lessF` (Gts/Model/Feature.lean).  `LocationLess` is the regenerated
  function of Gts/Gen/LocLess.lean at the fuel `locNodes a + locNodes b` (= `Loc.size a + Loc.size b`,
  which `locationLess_eq` proves sufficient).
-/
import Gts.Gen.FeatLess
import Gts.Bridge.LocLess
import Gts.Model.Feature
namespace Gts.Bridge
open Gts

mutual
/-- the fuel measure of the generated text is the size measure of the `LocationLess` bridge -/
theorem locNodes_eq : ∀ l : Loc, Gen.locNodes l = Loc.size l
  | .between _ | .point _ | .ranged _ _ _ _ | .ambiguous _ _ => by simp only [Gen.locNodes, Loc.size]
  | .joined ls | .ordered ls => by simp only [Gen.locNodes, Loc.size, locNodesList_eq ls]
  | .compl l => by simp only [Gen.locNodes, Loc.size, locNodes_eq l]
theorem locNodesList_eq : ∀ ls : List Loc, Gen.locNodesList ls = Loc.sizeList ls
  | [] => by simp only [Gen.locNodesList, Loc.sizeList]
  | l :: ls => by simp only [Gen.locNodesList, Loc.sizeList, locNodes_eq l, locNodesList_eq ls]
end

/-- `LocationLess` as feature.go calls it is the model's `Loc.less` -/
theorem locationLessF_eq (a b : Loc) : Gen.locationLessF a b = Loc.less a b := by
  simp only [Gen.locationLessF, locNodes_eq]
  exact locationLess_size a b

/-- `FeatureSlice.Less(i, j)` as feature.go defines it now, on the two features `ff[i]`, `ff[j]`, is the
model's `Table.lessF`: a `source` feature sorts before every other feature, otherwise the locations
decide -/
theorem featureSliceLess_eq (f g : Feature) : Gen.featureSliceLess f g = Table.lessF f g := by
  by_cases h1 : f.key = "source" <;> by_cases h2 : g.key = "source" <;>
    simp [Gen.featureSliceLess, Table.lessF, locationLessF_eq, h1, h2]

-- non-vacuity: the three paths of the generated function
example : Gen.featureSliceLess ⟨"source", .point 9, []⟩ ⟨"gene", .point 1, []⟩ = true := by decide
example : Gen.featureSliceLess ⟨"gene", .point 1, []⟩ ⟨"source", .point 9, []⟩ = false := by decide
example : Gen.featureSliceLess ⟨"gene", .point 1, []⟩ ⟨"CDS", .point 9, []⟩ = true := by decide

end Gts.Bridge
