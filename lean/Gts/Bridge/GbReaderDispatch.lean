/-
  C07 / C01 bridge (DESIGN.md 4.1a): `tryAllParsers`, the dispatcher of the GenBank reader, REGENERATED
  statement by statement from seqio/genbank.go onto the model of the go-pars state
  (`Gts/Gen/GbReaderDispatch.lean`, generator go2lean/gbreaderdispatch.go), IS the dispatch of the
  hand-written model (`GenBank.tryList` over the first eleven sub-parsers, `GenBank.tryAll` with the
  unknown-field parser last) — for EVERY list of sub-parsers, every record and every state of the
  saved positions, leaked frames included.

  The generated function takes its sub-parsers as parameters `σ → P (σ × Option ε)` (`none` = the
  parser returned nil).  A sub-parser of the model answers `(record, ok)` or fails; `asGoParser` reads it
  as such a parameter: a success is `none`, a failure — with or without a changed record — is the
  error tag of its position (`field`: one of the first eleven, `extra`: the last one, whose error the
  code makes `errGenBankExtra`).  `asStep` is what `GenBankParser` does with the dispatcher's answer:
  nil → the field is parsed; an error whose cause is `errGenBankExtra` → skip the line; any other
  error → the record fails.

  What this rules out without looking at a single test: `Drop` and `Pop` exchanged, the `Pushed` test
  dropped or moved, `Push` behind the call, a `Pop` on the success path … each changes the generated
  function, and `tryAllParsers_eq` stops being provable (66de3a0 was a defect of exactly this
  protocol, on the sub-parser's side: `reader_stateOps`).
-/
import Gts.Gen.GbReaderDispatch
import Gts.Lemmas.ParsRun
namespace Gts.Bridge
open Gts
open Gts.Pars
open Gts.GenBank

/-- the two kinds of error `GenBankParser` tells apart (`dig(err) != errGenBankExtra`) -/
inductive DispErr where
  | field   -- an error of one of the first eleven sub-parsers
  | extra   -- `errGenBankExtra`, the error of `genbankExtraFieldParser`
  deriving DecidableEq, Repr

/-- a sub-parser of the model read as a parser the generated dispatcher can call: its failure — before
or after it changed the record — is the error `e` -/
def asGoParser (e : DispErr) (q : Sub → P (Sub × Bool)) : Gen.GoParser Sub DispErr := fun s => do
  match ← attempt (q s) with
  | some (s', true) => pure (s', none)
  | some (s', false) => pure (s', some e)
  | none => pure (s, some e)

/-- what `GenBankParser` does with the dispatcher's answer -/
def asStep : Sub × Option DispErr → P Step
  | (s, none) => pure (.parsed s)
  | (s, some .extra) => pure (.skip s)
  | (_, some .field) => fail

theorem dispExt {α} {p q : P α} (h : ∀ s, p s = q s) : p = q := funext h

/-- the incoming value of the named result does not matter once there is a parser to try -/
theorem tryAllParsersRange_cons_err {σ ε} (p : Gen.GoParser σ ε) (rest : List (Gen.GoParser σ ε)) (w : σ)
    (e1 e2 : Option ε) :
    Gen.tryAllParsersRange (p :: rest) w e1 = Gen.tryAllParsersRange (p :: rest) w e2 := by
  simp only [Gen.tryAllParsersRange]

/-- the state after `Pop` -/
def dispPopped (st : PS) : PS := match st.stk with | [] => st | r :: stk => { rest := r, stk := stk }

theorem dispPop_run (st : PS) : pop st = (.ok (), dispPopped st) := by
  simp only [pop, dispPopped, P.bind_run, getS]
  cases st.stk <;> rfl

/-- one iteration of the GENERATED loop, as a run equation -/
theorem tryAllParsersRange_step {σ ε} (p : Gen.GoParser σ ε) (rest : List (Gen.GoParser σ ε)) (w : σ)
    (e : Option ε) (st : PS) :
    Gen.tryAllParsersRange (p :: rest) w e st =
      match p w { rest := st.rest, stk := st.rest :: st.stk } with
      | (.ok (w', none), st1) => (.ok (w', none), { st1 with stk := st1.stk.drop 1 })
      | (.ok (w', some err), st1) =>
        if st1.stk.isEmpty then (.ok (w', some err), st1)
        else Gen.tryAllParsersRange rest w' (some err) (dispPopped st1)
      | (.error e, st1) => (.error e, st1) := by
  simp only [Gen.tryAllParsersRange, P.bind_run, push, getS, setS]
  rcases p w { rest := st.rest, stk := st.rest :: st.stk } with ⟨r, st1⟩
  cases r with
  | error e => rfl
  | ok v =>
    rcases v with ⟨w', err⟩
    cases err with
    | none => simp only [Option.isNone_none, if_true, P.bind_run, Pars.drop, getS, setS, P.pure_run]
    | some err =>
      simp only [Option.isNone_some, Bool.false_eq_true, if_false, P.bind_run, pushed, getS, P.pure_run]
      cases h : st1.stk.isEmpty
      · simp only [Bool.not_false, Bool.not_true, Bool.false_eq_true, if_false, P.bind_run, dispPop_run]
      · simp only [Bool.not_true, Bool.not_false, if_true, P.pure_run]

/-- one attempt of the MODEL's `tryList`, as a run equation -/
theorem tryList_step (q : Sub → P (Sub × Bool)) (qs : List (Sub → P (Sub × Bool))) (s : Sub) (st : PS) :
    tryList (q :: qs) s st =
      match q s { rest := st.rest, stk := st.rest :: st.stk } with
      | (.ok (s', true), st1) => (.ok (s', true), { st1 with stk := st1.stk.drop 1 })
      | (.ok (s', false), st1) =>
        if st1.stk.isEmpty then (.error .fail, st1) else tryList qs s' (dispPopped st1)
      | (.error .fail, st1) =>
        if st1.stk.isEmpty then (.error .fail, st1) else tryList qs s (dispPopped st1)
      | (.error .panic, st1) => (.error .panic, st1) := by
  simp only [tryList, P.bind_run, push, getS, setS, attempt_run]
  rcases q s { rest := st.rest, stk := st.rest :: st.stk } with ⟨r, st1⟩
  cases r with
  | error e =>
    cases e with
    | panic => rfl
    | fail =>
      simp only [pushed, P.bind_run, getS, P.pure_run]
      cases h : st1.stk.isEmpty
      · simp only [Bool.not_false, Bool.not_true, Bool.false_eq_true, if_false, P.bind_run, dispPop_run]
      · simp only [Bool.not_true, Bool.not_false, if_true, P.bind_run, Pars.fail]
  | ok v =>
    rcases v with ⟨s', b⟩
    cases b with
    | true => simp only [P.bind_run, Pars.drop, getS, setS, P.pure_run]
    | false =>
      simp only [pushed, P.bind_run, getS, P.pure_run]
      cases h : st1.stk.isEmpty
      · simp only [Bool.not_false, Bool.not_true, Bool.false_eq_true, if_false, P.bind_run, dispPop_run]
      · simp only [Bool.not_true, Bool.not_false, if_true, P.bind_run, Pars.fail]

/-- a model sub-parser read as a Go parser, as a run equation -/
theorem asGoParser_run (e : DispErr) (q : Sub → P (Sub × Bool)) (s : Sub) (st : PS) :
    asGoParser e q s st =
      match q s st with
      | (.ok (s', true), st1) => (.ok (s', none), st1)
      | (.ok (s', false), st1) => (.ok (s', some e), st1)
      | (.error .fail, st1) => (.ok (s, some e), st1)
      | (.error .panic, st1) => (.error .panic, st1) := by
  simp only [asGoParser, P.bind_run, attempt_run]
  rcases q s st with ⟨r, st1⟩
  cases r with
  | error e => cases e <;> rfl
  | ok v =>
    rcases v with ⟨s', b⟩
    cases b <;> rfl

/-- THE FIRST ELEVEN: the generated loop over model sub-parsers followed by any further parser `x`
is the model's `tryList`: the field that parses is returned with its frame dropped; a failure with
nothing pushed any more ends the dispatch with an error; when all failed softly the loop goes on
with `x` on the record as the failing parsers left it -/
theorem tryAllParsersRange_fields (x : Gen.GoParser Sub DispErr) (rest : List (Gen.GoParser Sub DispErr)) :
    ∀ (qs : List (Sub → P (Sub × Bool))) (s : Sub) (e0 : Option DispErr) (st : PS),
      (Gen.tryAllParsersRange (qs.map (asGoParser .field) ++ x :: rest) s e0 >>= asStep) st =
        (do let r ← tryList qs s
            if r.2 then pure (Step.parsed r.1)
            else Gen.tryAllParsersRange (x :: rest) r.1 none >>= asStep) st
  | [], s, e0, st => by
    simp only [List.map_nil, List.nil_append, tryList, P.bind_run, P.pure_run, Bool.false_eq_true, if_false]
    rw [tryAllParsersRange_cons_err x rest s e0 none]
  | q :: qs, s, e0, st => by
    have ih := tryAllParsersRange_fields x rest qs
    simp only [P.bind_run] at ih ⊢
    simp only [List.map_cons, List.cons_append]
    rw [tryAllParsersRange_step, tryList_step, asGoParser_run]
    rcases q s { rest := st.rest, stk := st.rest :: st.stk } with ⟨r, st1⟩
    cases r with
    | error e =>
      cases e with
      | panic => rfl
      | fail =>
        simp only
        cases h : st1.stk.isEmpty
        · simp only [Bool.false_eq_true, if_false]; exact ih s _ _
        · simp only [if_true, asStep, Pars.fail]
    | ok v =>
      rcases v with ⟨s', b⟩
      cases b with
      | true => simp only [asStep, P.pure_run, if_true]
      | false =>
        simp only
        cases h : st1.stk.isEmpty
        · simp only [Bool.false_eq_true, if_false]; exact ih s' _ _
        · simp only [if_true, asStep, Pars.fail]

/-- `genbankExtraFieldParser` answers "parsed" whenever it answers at all -/
theorem extraField_ok_true (depth : Nat) (f f' : Fields) (b : Bool) (st st1 : PS)
    (h : extraField depth f st = (.ok (f', b), st1)) : b = true := by
  simp only [extraField, P.bind_run, P.pure_run] at h
  split at h
  · split at h
    · split at h
      · cases h; rfl
      · cases h
    · cases h
  · cases h

/-- THE LAST ONE: the generated loop on the unknown-field parser alone is the tail of the model's
`tryAll`: parsed → the frame is dropped; failed → `errGenBankExtra`, with the frame dispPopped when there
still is one (a hard failure of this parser, too, only makes `GenBankParser` skip the line) -/
theorem tryAllParsersRange_extra (depth : Nat) (s : Sub) (st : PS) :
    (Gen.tryAllParsersRange [asGoParser .extra (liftF (extraField depth))] s none >>= asStep) st =
      (do let (f, t, o, r) := s
          push
          match ← attempt (extraField depth f) with
          | some (f', _) => do drop; pure (Step.parsed (f', t, o, r))
          | none => do pop; pure (Step.skip s)) st := by
  obtain ⟨f, t, o, r⟩ := s
  simp only [P.bind_run]
  rw [tryAllParsersRange_step, asGoParser_run]
  simp only [liftF, P.bind_run, push, getS, setS, attempt_run, P.pure_run]
  rcases hx : extraField depth f { rest := st.rest, stk := st.rest :: st.stk } with ⟨res, st1⟩
  cases res with
  | error e =>
    cases e with
    | panic => rfl
    | fail =>
      simp only [P.bind_run, dispPop_run, P.pure_run]
      cases h : st1.stk.isEmpty
      · simp only [Bool.false_eq_true, if_false, Gen.tryAllParsersRange, P.pure_run, asStep]
      · simp only [if_true, asStep, P.pure_run]
        have : dispPopped st1 = st1 := by
          unfold dispPopped
          cases hs : st1.stk with
          | nil => rfl
          | cons a b => rw [hs] at h; cases h
        rw [this]
  | ok v =>
    rcases v with ⟨f', b⟩
    have hb := extraField_ok_true depth f f' b _ _ hx
    subst hb
    simp only [Pars.drop, P.bind_run, getS, setS, P.pure_run, asStep]

/-- THE DISPATCH.  `tryAllParsers` as regenerated from seqio/genbank.go, handed the model's twelve
sub-parsers in the order of `GenBankParser`'s `generators` list (`Gts.Bridge.reader_dispatch`), and read
the way `GenBankParser` reads its answer, IS the model's `tryAll` — for every declared length, depth,
record and state of the saved positions -/
theorem tryAllParsers_eq (length : Int) (depth : Nat) (s : Sub) :
    (Gen.tryAllParsers ((fieldParsers length depth).map (asGoParser .field) ++
        [asGoParser .extra (liftF (extraField depth))]) s >>= asStep) = tryAll length depth s := by
  apply dispExt; intro st
  simp only [Gen.tryAllParsers]
  rw [tryAllParsersRange_fields]
  simp only [tryAll, P.bind_run]
  rcases tryList (fieldParsers length depth) s st with ⟨res, st1⟩
  cases res with
  | error e => rfl
  | ok v =>
    rcases v with ⟨s', b⟩
    cases b with
    | true => rfl
    | false =>
      simp only [Bool.false_eq_true, if_false]
      obtain ⟨f, t, o, r⟩ := s'
      rw [tryAllParsersRange_extra depth (f, t, o, r) st1]
      rfl

/-- … and for ANY list of sub-parsers (not only the twelve): the generated dispatcher over
`qs ++ [x]` is `tryList qs` followed by the generated attempt of `x` -/
theorem tryAllParsers_general (qs : List (Sub → P (Sub × Bool))) (x : Gen.GoParser Sub DispErr) (s : Sub) :
    (Gen.tryAllParsers (qs.map (asGoParser .field) ++ [x]) s >>= asStep) =
      (do let r ← tryList qs s
          if r.2 then pure (Step.parsed r.1)
          else Gen.tryAllParsersRange [x] r.1 none >>= asStep) := by
  apply dispExt; intro st
  simp only [Gen.tryAllParsers]
  exact tryAllParsersRange_fields x [] qs s none st

end Gts.Bridge
