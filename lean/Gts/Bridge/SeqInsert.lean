/-
  Bridge: the byte helper `insert`, `gts.Insert` and `gts.Embed`, regenerated from sequence.go by go2lean
  (Gts/Gen/SeqInsert.lean: statement by statement, the two `range` loops as recursions over the feature
  lists, the three slice expressions of `insert` as checked operations), are the hand-written model's
  `Seq.spliceBytes`, `Seq.insert`, `Seq.embed` (Gts/Model/Seq.lean) — for EVERY host, guest and index.

  Where Go panics: `insert` evaluates `p[:pos]` and `p[pos:]`; outside `0 ≤ index ≤ len(host)` the second
  one (or, for a negative index, the first) is a slice bound out of range.  The model is total there
  (`List.take` / `List.drop` clamp), so the equality with the model is stated under the no-panic condition
  `0 ≤ index ≤ len(host)` and the panic is stated separately, for every other index (`…_panic`): together
  the two theorems say what the generated function does on every input.

  Metadata: `Insert` hands `tryShift(info, index, Len(guest))`, `Embed` `tryExpand(info, index, Len(guest))`
  to `WithInfo`; the guest's metadata is dropped.  Slices are values here: that the functions do not write
  into their arguments is C11's subject.
-/
import Gts.Gen.SeqInsert
import Gts.Bridge.SeqBase
import Gts.Bridge.LocRec
namespace Gts.Bridge
open Gts

/-- `insert(p, pos, q)` inside the bounds is the model's splice -/
theorem seqInsertBytes_eq (p q : List UInt8) (pos : Int) (h : 0 ≤ pos ∧ pos ≤ (p.length : Int)) :
    Gen.seqInsertBytes p pos q = .ok (Seq.spliceBytes p pos.toNat q) := by
  have hc : ¬ ((p.length : Int) + (q.length : Int) < 0) := by omega
  simp only [Gen.seqInsertBytes, Gen.goMakeCap, if_neg hc, Gen.goSliceTo, Gen.goSliceFrom, if_pos h,
    Seq.spliceBytes, List.nil_append]

/-- `insert(p, pos, q)` outside the bounds panics (slice bound out of range) -/
theorem seqInsertBytes_panic (p q : List UInt8) (pos : Int) (h : ¬ (0 ≤ pos ∧ pos ≤ (p.length : Int))) :
    Gen.seqInsertBytes p pos q = .error .panic := by
  have hc : ¬ ((p.length : Int) + (q.length : Int) < 0) := by omega
  simp only [Gen.seqInsertBytes, Gen.goMakeCap, if_neg hc, Gen.goSliceTo, if_neg h]

/-- the first loop of `Insert` inserts the shifted host features one by one -/
theorem seqInsertLoop_eq (index : Int) (gb : List UInt8) (fs ff : List Feature) :
    Gen.seqInsertLoop index gb fs ff =
      .ok (Table.insertAll ff (fs.map fun f => { f with loc := f.loc.shift index gb.length })) := by
  rw [foldLoop_shape (Gen.seqInsertLoop index gb)
    (fun f ff => Table.insert ff { f with loc := Gen.shift f.loc index gb.length })
    (fun _ => rfl) (fun _ _ _ => rfl), insertAll_map]
  simp only [shift_eq]

/-- the second loop of `Insert` / `Embed` inserts the re-based guest features one by one -/
theorem seqInsertLoop2_eq (index : Int) (fs ff : List Feature) :
    Gen.seqInsertLoop2 index fs ff =
      .ok (Table.insertAll ff (fs.map fun f => { f with loc := f.loc.expand 0 index })) := by
  rw [foldLoop_shape (Gen.seqInsertLoop2 index)
    (fun f ff => Table.insert ff { f with loc := Gen.expand f.loc 0 index })
    (fun _ => rfl) (fun _ _ _ => rfl), insertAll_map]
  simp only [expand_eq]

theorem seqEmbedLoop_eq (index : Int) (gb : List UInt8) (fs ff : List Feature) :
    Gen.seqEmbedLoop index gb fs ff =
      .ok (Table.insertAll ff (fs.map fun f => { f with loc := f.loc.expand index gb.length })) := by
  rw [foldLoop_shape (Gen.seqEmbedLoop index gb)
    (fun f ff => Table.insert ff { f with loc := Gen.expand f.loc index gb.length })
    (fun _ => rfl) (fun _ _ _ => rfl), insertAll_map]
  simp only [expand_eq]

theorem seqEmbedLoop2_eq (index : Int) (fs ff : List Feature) :
    Gen.seqEmbedLoop2 index fs ff =
      .ok (Table.insertAll ff (fs.map fun f => { f with loc := f.loc.expand 0 index })) := by
  rw [foldLoop_shape (Gen.seqEmbedLoop2 index)
    (fun f ff => Table.insert ff { f with loc := Gen.expand f.loc 0 index })
    (fun _ => rfl) (fun _ _ _ => rfl), insertAll_map]
  simp only [expand_eq]

/-- `gts.Insert` as sequence.go defines it now is the model's `Seq.insert` wherever Go does not panic
(`0 ≤ index ≤ len(host)`), and hands `tryShift(info, index, Len(guest))` to `WithInfo` -/
theorem seqInsert_eq {ι : Type} (ops : Gen.InfoOps ι) (hi gi : ι) (host guest : Seq) (index : Int)
    (h : 0 ≤ index ∧ index ≤ host.len) :
    Gen.seqInsert ops hi host.feats host.bytes index gi guest.feats guest.bytes =
      .ok (ops.tryShift hi index guest.len, (host.insert index guest).feats, (host.insert index guest).bytes) := by
  simp only [Gen.seqInsert, seqInsertLoop_eq, seqInsertLoop2_eq, seqInsertBytes_eq _ _ _ h, Seq.insert, Seq.len]

/-- … and panics for every other index -/
theorem seqInsert_panic {ι : Type} (ops : Gen.InfoOps ι) (hi gi : ι) (host guest : Seq) (index : Int)
    (h : ¬ (0 ≤ index ∧ index ≤ host.len)) :
    Gen.seqInsert ops hi host.feats host.bytes index gi guest.feats guest.bytes = .error .panic := by
  simp only [Gen.seqInsert, seqInsertLoop_eq, seqInsertLoop2_eq, seqInsertBytes_panic _ _ _ h]

/-- `gts.Embed` as sequence.go defines it now is the model's `Seq.embed` wherever Go does not panic
(`0 ≤ index ≤ len(host)`), and hands `tryExpand(info, index, Len(guest))` to `WithInfo` -/
theorem seqEmbed_eq {ι : Type} (ops : Gen.InfoOps ι) (hi gi : ι) (host guest : Seq) (index : Int)
    (h : 0 ≤ index ∧ index ≤ host.len) :
    Gen.seqEmbed ops hi host.feats host.bytes index gi guest.feats guest.bytes =
      .ok (ops.tryExpand hi index guest.len, (host.embed index guest).feats, (host.embed index guest).bytes) := by
  simp only [Gen.seqEmbed, seqEmbedLoop_eq, seqEmbedLoop2_eq, seqInsertBytes_eq _ _ _ h, Seq.embed, Seq.len]

/-- … and panics for every other index -/
theorem seqEmbed_panic {ι : Type} (ops : Gen.InfoOps ι) (hi gi : ι) (host guest : Seq) (index : Int)
    (h : ¬ (0 ≤ index ∧ index ≤ host.len)) :
    Gen.seqEmbed ops hi host.feats host.bytes index gi guest.feats guest.bytes = .error .panic := by
  simp only [Gen.seqEmbed, seqEmbedLoop_eq, seqEmbedLoop2_eq, seqInsertBytes_panic _ _ _ h]

-- non-vacuity: a guest of two residues with one feature into a host of four with a feature spanning the cut
example : Gen.seqInsert (ι := Unit) ⟨fun i _ _ => i, fun i _ _ => i, fun i _ _ => i, fun i _ => i, ()⟩ ()
      [⟨"gene", .ranged 1 3 false false, []⟩] [65, 67, 71, 84] 2 () [⟨"cds", .ranged 0 2 false false, []⟩] [78, 78] =
    .ok ((), [⟨"gene", .joined [.ranged 1 2 false false, .ranged 4 5 false false], []⟩,
      ⟨"cds", .ranged 2 4 false false, []⟩], [65, 67, 78, 78, 71, 84]) := by
  rfl
example : Gen.seqInsert (ι := Unit) ⟨fun i _ _ => i, fun i _ _ => i, fun i _ _ => i, fun i _ => i, ()⟩ ()
      [] [65, 67, 71, 84] 5 () [] [78, 78] = .error .panic := by
  rfl

end Gts.Bridge
