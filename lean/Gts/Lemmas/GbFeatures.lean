/-
  C01 helper lemmas: key lines, the first key line (which fixes the column layout), the loop over
  the features, `INSDCTableParser` on the text of `INSDCFormatter`.  The location column is taken
  from C06: `LocRT l` says that `ParseLocation` reads the printed location back (tied to the Go
  code by the correspondence ops `loc.print` / `loc.parse`).  Core Lean only.
-/
import Gts.Lemmas.GbTable
namespace Gts.GenBank
open Gts.Pars

/-- the printed location is read back by `ParseLocation` in front of a line feed, and does not
start with white space (it starts with a digit, `<`, `j`, `o` or `c`) -/
structure LocRT (l : Loc) : Prop where
  first : ∃ c r, l.printB = c :: r ∧ isSpace c = false
  parse : ∀ (more : Bytes) (stk : List Bytes),
    location ⟨l.printB ++ 10 :: more, stk⟩ = (.ok l, ⟨10 :: more, stk⟩)

theorem blanks_ok (n : Nat) (r : Bytes) (stk : List Bytes) :
    blanks n ⟨sp n ++ r, stk⟩ = (.ok (), ⟨r, stk⟩) := by
  induction n with
  | zero => simp [blanks, sp, P.pure_run]
  | succ n ih =>
    rw [sp_succ]
    simp only [List.cons_append, blanks, P.bind_run, next_cons, show ((32 : UInt8) != 32) = false by decide,
      Bool.false_eq_true, if_false, P.pure_run, advance1, getS, setS, List.drop_succ_cons, List.drop_zero]
    exact ih

/-- a feature key: a snake-case word of at most 15 bytes (16 leave no blank in front of the
location, more make `INSDCFormatter` panic) -/
def keyOk (key : Bytes) : Bool := nameOk key && decide (key.length ≤ 15)

theorem sp_head_not_snake (n : Nat) (r : Bytes) (hn : 0 < n) :
    ∀ c, (sp n ++ r).head? = some c → isSnake c = false := by
  intro c hc
  cases n with
  | zero => omega
  | succ n => rw [sp_succ] at hc; simp at hc; subst hc; decide

/-- the text of one key line behind the column layout -/
def keylineText (key : Bytes) (l : Loc) (more : Bytes) : Bytes :=
  sp 5 ++ (key ++ (sp (16 - key.length) ++ (l.printB ++ 10 :: more)))

theorem keyline_ok (key : Bytes) (l : Loc) (more : Bytes) (stk : List Bytes) (hk : keyOk key = true)
    (hl : LocRT l) :
    keyline 5 21 ⟨keylineText key l more, stk⟩ = (.ok (key, l), ⟨more, stk⟩) := by
  simp only [keyOk, Bool.and_eq_true, decide_eq_true_eq] at hk
  obtain ⟨hn, hlen⟩ := hk
  have hn' := hn
  simp only [nameOk, Bool.and_eq_true, Bool.not_eq_true', List.isEmpty_eq_false_iff] at hn'
  have hw := fun s => word_ok isSnake key (sp (16 - key.length) ++ (l.printB ++ 10 :: more)) s hn'.2 hn'.1
    (sp_head_not_snake _ _ (by omega))
  have hb : 21 - (5 + key.length) = 16 - key.length := by omega
  gsimp [keyline, keylineText, lit_ok, hw, hb, blanks_ok, hl.parse, eol_lf]

theorem keyline_stop (rest : Bytes) (stk : List Bytes) (h : (sp 5).isPrefixOf rest = false) :
    keyline 5 21 ⟨rest, stk⟩ = (.error .fail, ⟨rest, stk⟩) := by
  gsimp [keyline, lit_fail _ _ _ h]

theorem firstKeyline_ok (key : Bytes) (l : Loc) (more : Bytes) (stk : List Bytes) (hk : keyOk key = true)
    (hl : LocRT l) :
    firstKeyline ⟨keylineText key l more, stk⟩ = (.ok (5, key, 16 - key.length, l), ⟨more, stk⟩) := by
  simp only [keyOk, Bool.and_eq_true, decide_eq_true_eq] at hk
  obtain ⟨hn, hlen⟩ := hk
  have hn' := hn
  simp only [nameOk, Bool.and_eq_true, Bool.not_eq_true', List.isEmpty_eq_false_iff] at hn'
  obtain ⟨c0, k', hk0⟩ : ∃ c k', key = c :: k' := by
    cases key with
    | nil => exact absurd rfl hn'.1
    | cons c k' => exact ⟨c, k', rfl⟩
  have hc0 : isSnake c0 = true := by
    have := hn'.2; rw [hk0] at this; simp only [List.all_cons, Bool.and_eq_true] at this; exact this.1
  have hs1 := fun s => spaces_ok (sp 5) (key ++ (sp (16 - key.length) ++ (l.printB ++ 10 :: more))) s
    (sp_all_space 5) (by
      intro c hc; rw [hk0] at hc; simp at hc; subst hc; exact snake_not_space _ hc0)
  have hw := fun s => word_ok isSnake key (sp (16 - key.length) ++ (l.printB ++ 10 :: more)) s hn'.2 hn'.1
    (sp_head_not_snake _ _ (by omega))
  obtain ⟨c1, r1, hp1, hp2⟩ := hl.first
  have hs2 := fun s => spaces_ok (sp (16 - key.length)) (l.printB ++ 10 :: more) s (sp_all_space _) (by
    intro c hc; rw [hp1] at hc; simp at hc; subst hc; exact hp2)
  gsimp [firstKeyline, keylineText, hs1, hw, hs2, hl.parse, eol_lf, sp_length]

/-! ### one feature and the loop -/

/-- the items a feature's qualifiers are read back as (toggle values become `\n`) -/
def readItems (reg : Registry) (ps : List (List Bytes)) : List (Bytes × Bytes) :=
  (propsItems ps).map fun kv => (kv.1, readValue reg kv.1 kv.2)

/-- the feature as it is read back -/
def readFeature (reg : Registry) (f : QFeature) : QFeature :=
  ⟨f.key, f.loc, propsOfItems (readItems reg f.props)⟩

/-- the text of one feature, every line with its line feed -/
def featLines (reg : Registry) (f : QFeature) : Bytes :=
  keylineText f.key f.loc (qualLines reg 21 (propsItems f.props))

def featsText (reg : Registry) (fs : List QFeature) : Bytes := fs.flatMap (featLines reg)

theorem featLines_more (reg : Registry) (f : QFeature) (more : Bytes) :
    featLines reg f ++ more = keylineText f.key f.loc (qualLines reg 21 (propsItems f.props) ++ more) := by
  simp [featLines, keylineText, List.append_assoc]

/-- the registry after a table -/
def learnTable (reg : Registry) (fs : List QFeature) : Registry :=
  fs.foldl (fun r f => learnAll r (propsItems f.props)) reg

theorem sameText_learnTable (a b : Registry) (fs : List QFeature) (h : sameText a b) :
    sameText a (learnTable b fs) := by
  induction fs generalizing b with
  | nil => exact h
  | cons f fs ih => exact ih _ (sameText_learnAll a b _ h)

theorem learnTable_le (reg : Registry) (fs : List QFeature) : reg.le (learnTable reg fs) := by
  induction fs generalizing reg with
  | nil => exact le_refl' reg
  | cons f fs ih => exact le_trans' (learnAll_le reg _) (ih _)

/-- the Boolean part of a feature's domain: key, and every written qualifier -/
def featOk (reg : Registry) (f : QFeature) : Bool :=
  keyOk f.key && (propsItems f.props).all fun kv => WritableQualifier reg 21 kv.1 kv.2

theorem sp_prefix_mono (a b : Nat) (r : Bytes) (hab : a ≤ b) (h : (sp a).isPrefixOf r = false) :
    (sp b).isPrefixOf r = false := by
  induction a generalizing b r with
  | zero => simp [sp] at h
  | succ a ih =>
    obtain ⟨b', rfl⟩ : ∃ b', b = b' + 1 := ⟨b - 1, by omega⟩
    rw [sp_succ] at h ⊢
    cases r with
    | nil => rfl
    | cons c r =>
      simp only [List.isPrefixOf] at h ⊢
      by_cases hc : (32 : UInt8) = c
      · subst hc
        simp only [beq_self_eq_true, Bool.true_and] at h ⊢
        exact ih b' r (by omega) h
      · have : ((32 : UInt8) == c) = false := by simpa using hc
        simp [this]

/-- the indent of the qualifiers is not a prefix of a key line -/
theorem sp21_keyline (key : Bytes) (l : Loc) (more : Bytes) (hk : keyOk key = true) :
    (sp 21).isPrefixOf (keylineText key l more) = false := by
  simp only [keyOk, Bool.and_eq_true, decide_eq_true_eq] at hk
  have hn' := hk.1
  simp only [nameOk, Bool.and_eq_true, Bool.not_eq_true', List.isEmpty_eq_false_iff] at hn'
  cases key with
  | nil => exact absurd rfl hn'.1
  | cons c k' =>
    have hc : c ≠ 32 := snake_ne_blank c (by
      have := hn'.2; simp only [List.all_cons, Bool.and_eq_true] at this; exact this.1)
    have : ((32 : UInt8) == c) = false := by simpa using fun h => hc h.symm
    simp [keylineText, sp, List.replicate, List.isPrefixOf, this]

theorem featsText_length_ge (reg : Registry) (fs : List QFeature) : fs.length ≤ (featsText reg fs).length := by
  induction fs with
  | nil => simp [featsText]
  | cons f fs ih =>
    simp only [featsText, List.flatMap_cons, List.length_append, List.length_cons] at ih ⊢
    have : 1 ≤ (featLines reg f).length := by
      simp [featLines, keylineText, sp]
    omega

theorem tableMore_ok (reg0 : Registry) (fs : List QFeature) (rest : Bytes) (stk : List Bytes)
    (reg : Registry) (acc : List QFeature) (f : Nat) (hs : sameText reg0 reg)
    (hw : ∀ ft ∈ fs, featOk reg0 ft = true ∧ LocRT ft.loc)
    (hrest : (sp 5).isPrefixOf rest = false) (hf : fs.length < f) :
    tableMore 5 21 f reg acc ⟨featsText reg0 fs ++ rest, stk⟩ =
      (.ok (acc.reverse ++ fs.map (readFeature reg0), learnTable reg fs), ⟨rest, stk⟩) := by
  induction fs generalizing reg acc f with
  | nil =>
    cases f with
    | zero => omega
    | succ f => gsimp [tableMore, featsText, keyline_stop rest stk hrest, learnTable]
  | cons ft fs ih =>
    cases f with
    | zero => omega
    | succ f =>
      obtain ⟨hok, hloc⟩ := hw ft (by simp)
      simp only [featOk, Bool.and_eq_true, List.all_eq_true] at hok
      obtain ⟨hk, hq⟩ := hok
      have hrest' : (sp 21).isPrefixOf (featsText reg0 fs ++ rest) = false := by
        cases fs with
        | nil => simpa [featsText] using sp_prefix_mono 5 21 rest (by omega) hrest
        | cons ft' fs' =>
          obtain ⟨hok', _⟩ := hw ft' (by simp)
          simp only [featOk, Bool.and_eq_true] at hok'
          simp only [featsText, List.flatMap_cons, List.append_assoc]
          rw [featLines_more]
          exact sp21_keyline _ _ _ hok'.1
      have hlen : (propsItems ft.props).length <
          (qualLines reg0 21 (propsItems ft.props) ++ (featsText reg0 fs ++ rest)).length + 1 := by
        have := qualLines_length_ge reg0 21 (propsItems ft.props)
        simp only [List.length_append]; omega
      have hqs := qualifiers_roundtrip reg0 21 (propsItems ft.props) (featsText reg0 fs ++ rest) stk reg [] _
        hs hq hrest' hlen
      have e : featsText reg0 (ft :: fs) ++ rest =
          keylineText ft.key ft.loc (qualLines reg0 21 (propsItems ft.props) ++ (featsText reg0 fs ++ rest)) := by
        simp only [featsText, List.flatMap_cons, List.append_assoc]
        rw [featLines_more]
      rw [e]
      simp only [tableMore, P.bind_run, attempt_run, keyline_ok _ _ _ _ hk hloc, getS, P.pure_run, hqs,
        List.reverse_nil, List.nil_append]
      rw [ih (learnAll reg (propsItems ft.props)) _ f (sameText_learnAll reg0 reg _ hs)
        (fun x hx => hw x (by simp [hx])) (by simp only [List.length_cons] at hf; omega)]
      simp [readFeature, readItems, learnTable]

/-- **Feature table round trip** (reader side): `INSDCTableParser("")` on the key lines and
qualifier lines of a non-empty table written under `reg`, followed by text that does not start
with five blanks. -/
theorem table_ok (reg : Registry) (ft : QFeature) (fs : List QFeature) (rest : Bytes) (stk : List Bytes)
    (hw : ∀ x ∈ ft :: fs, featOk reg x = true ∧ LocRT x.loc)
    (hrest : (sp 5).isPrefixOf rest = false) :
    table reg ⟨featsText reg (ft :: fs) ++ rest, stk⟩ =
      (.ok ((ft :: fs).map (readFeature reg), learnTable reg (ft :: fs)), ⟨rest, stk⟩) := by
  obtain ⟨hok, hloc⟩ := hw ft (by simp)
  simp only [featOk, Bool.and_eq_true, List.all_eq_true] at hok
  obtain ⟨hk, hq⟩ := hok
  have hk' := hk
  simp only [keyOk, Bool.and_eq_true, decide_eq_true_eq] at hk'
  have hrest' : (sp 21).isPrefixOf (featsText reg fs ++ rest) = false := by
    cases fs with
    | nil => simpa [featsText] using sp_prefix_mono 5 21 rest (by omega) hrest
    | cons ft' fs' =>
      obtain ⟨hok', _⟩ := hw ft' (by simp)
      simp only [featOk, Bool.and_eq_true] at hok'
      simp only [featsText, List.flatMap_cons, List.append_assoc]
      rw [featLines_more]
      exact sp21_keyline _ _ _ hok'.1
  have hlen : (propsItems ft.props).length <
      (qualLines reg 21 (propsItems ft.props) ++ (featsText reg fs ++ rest)).length + 1 := by
    have := qualLines_length_ge reg 21 (propsItems ft.props)
    simp only [List.length_append]; omega
  have hd : 5 + ft.key.length + (16 - ft.key.length) = 21 := by omega
  have hqs := qualifiers_roundtrip reg 21 (propsItems ft.props) (featsText reg fs ++ rest) stk reg [] _
    (sameText_refl reg) hq hrest' hlen
  have hlen2 : fs.length <
      (qualLines reg 21 (propsItems ft.props) ++ (featsText reg fs ++ rest)).length + 1 := by
    have := featsText_length_ge reg fs
    simp only [List.length_append]; omega
  have hmore := tableMore_ok reg fs rest stk (learnAll reg (propsItems ft.props)) [readFeature reg ft] _
    (sameText_learnAll reg reg _ (sameText_refl reg)) (fun x hx => hw x (by simp [hx])) hrest hlen2
  have e : featsText reg (ft :: fs) ++ rest =
      keylineText ft.key ft.loc (qualLines reg 21 (propsItems ft.props) ++ (featsText reg fs ++ rest)) := by
    simp only [featsText, List.flatMap_cons, List.append_assoc]
    rw [featLines_more]
  rw [e]
  simp only [table, P.bind_run, firstKeyline_ok _ _ _ _ hk hloc, hd, getS, P.pure_run, hqs,
    List.reverse_nil, List.nil_append]
  simp only [readFeature, readItems] at hmore
  rw [hmore]
  simp [readFeature, readItems, learnTable]

end Gts.GenBank

namespace Gts.GenBank
open Gts.Pars

/-! ### the writer's table text and the `FEATURES` field -/

theorem shift_lf {α} (g : α → Bytes) (xs : List α) :
    (xs.flatMap fun x => 10 :: g x) ++ [10] = 10 :: xs.flatMap (fun x => g x ++ [10]) := by
  induction xs with
  | nil => rfl
  | cons x xs ih =>
    simp only [List.flatMap_cons, List.cons_append, List.append_assoc]
    rw [ih]
    simp

/-- `featureText` (column 21) of a feature whose key fits and whose rows all have a name -/
theorem featureText_lines (reg : Registry) (f : QFeature) (h1 : f.key.length ≤ 16) (h2 : propsOk f.props = true) :
    ∃ t, featureText reg 21 f = .ok t ∧ t ++ [10] = featLines reg f := by
  refine ⟨_, by simp only [featureText, h2]; rfl, ?_⟩
  have := shift_lf (fun kv : Bytes × Bytes => qualifierFmt reg (sp 21) kv.1 kv.2) (propsItems f.props)
  have e : 21 - 5 - f.key.length = 16 - f.key.length := by omega
  simp only [featLines, keylineText, qualLines, List.append_assoc, e]
  rw [this]

theorem tableTextD_lines (reg : Registry) (ft : QFeature) (fs : List QFeature)
    (h : ∀ f ∈ ft :: fs, f.key.length ≤ 16 ∧ propsOk f.props = true) :
    ∃ t, tableTextD reg 21 (ft :: fs) = .ok t ∧ t ++ [10] = featsText reg (ft :: fs) := by
  induction fs generalizing ft with
  | nil =>
    obtain ⟨h1, h2⟩ := h ft (by simp)
    obtain ⟨t, ht, e⟩ := featureText_lines reg ft h1 h2
    exact ⟨t, by simp [tableTextD, ht], by simp [featsText, e]⟩
  | cons f2 fs ih =>
    obtain ⟨h1, h2⟩ := h ft (by simp)
    obtain ⟨t, ht, e⟩ := featureText_lines reg ft h1 h2
    obtain ⟨t', ht', e'⟩ := ih f2 (fun x hx => h x (by simp [hx]))
    refine ⟨t ++ 10 :: t', ?_, ?_⟩
    · simp only [tableTextD, ht, ht']; rfl
    · simp only [featsText, List.flatMap_cons] at e' ⊢
      rw [← e, ← e']; simp

/-- keys of at most 15 bytes leave the location column at 21 -/
theorem tableDepth_small (fs : List QFeature) (h : ∀ f ∈ fs, f.key.length ≤ 15) : tableDepth fs = 21 := by
  unfold tableDepth
  suffices hs : ∀ d, d = 21 → fs.foldl (fun d f => max d (5 + f.key.length + 1)) d = 21 from hs 21 rfl
  induction fs with
  | nil => intro d hd; simpa using hd
  | cons f fs ih =>
    intro d hd
    have := h f (by simp)
    simp only [List.foldl_cons]
    apply ih (fun x hx => h x (by simp [hx]))
    omega

theorem tableText_lines (reg : Registry) (ft : QFeature) (fs : List QFeature)
    (h : ∀ f ∈ ft :: fs, f.key.length ≤ 15 ∧ propsOk f.props = true) :
    ∃ t, tableText reg (ft :: fs) = .ok t ∧ t ++ [10] = featsText reg (ft :: fs) := by
  unfold tableText
  rw [tableDepth_small _ (fun f hf => (h f hf).1)]
  exact tableTextD_lines reg ft fs (fun f hf => ⟨by have := (h f hf).1; omega, (h f hf).2⟩)

/-- rows with a name (needed by `Props.Keys`) follow from the key being legal and every item
being writable only for non-empty rows; stated separately -/
def tableWritable (reg : Registry) (fs : List QFeature) : Bool :=
  fs.all fun f => featOk reg f && propsOk f.props

/-- **FEATURES round trip.**  The `FEATURES` section that `GenBank.String` writes for a non-empty
table — header line, `INSDCFormatter` text, line feed — read by `genbankFeatureParser`: the same
keys and locations in the same order, every qualifier item in its order with its value (`\n` for
toggles), the registry only grows.  (`state.Clear()` empties the stack.) -/
theorem features_roundtrip (reg : Registry) (ft : QFeature) (fs : List QFeature) (rest : Bytes)
    (stk : List Bytes) (hw : tableWritable reg (ft :: fs) = true) (hloc : ∀ x ∈ ft :: fs, LocRT x.loc)
    (hrest : (sp 5).isPrefixOf rest = false) :
    ∃ t, tableText reg (ft :: fs) = .ok t ∧
      featuresField reg ⟨bs "FEATURES             Location/Qualifiers\n" ++ (t ++ 10 :: rest), stk⟩ =
        (.ok ((ft :: fs).map (readFeature reg), learnTable reg (ft :: fs)), ⟨rest, []⟩) := by
  simp only [tableWritable, List.all_eq_true, Bool.and_eq_true] at hw
  have hk : ∀ f ∈ ft :: fs, f.key.length ≤ 15 ∧ propsOk f.props = true := by
    intro f hf
    obtain ⟨h1, h2⟩ := hw f hf
    simp only [featOk, keyOk, Bool.and_eq_true, decide_eq_true_eq] at h1
    exact ⟨h1.1.2, h2⟩
  obtain ⟨t, ht, e⟩ := tableText_lines reg ft fs hk
  refine ⟨t, ht, ?_⟩
  have e2 : t ++ 10 :: rest = featsText reg (ft :: fs) ++ rest := by
    rw [← e]; simp
  rw [e2]
  have hline := fun s => line_ok (bs "             Location/Qualifiers") (featsText reg (ft :: fs) ++ rest) s (by decide)
  have hlit := fun r s => lit_ok (bs "FEATURES") r s
  have e3 : bs "FEATURES             Location/Qualifiers\n" ++ (featsText reg (ft :: fs) ++ rest) =
      bs "FEATURES" ++ (bs "             Location/Qualifiers" ++ 10 :: (featsText reg (ft :: fs) ++ rest)) := by
    simp [bs]
  rw [e3]
  have ht' := fun s => table_ok reg ft fs rest s (fun x hx => ⟨(hw x hx).1, hloc x hx⟩) hrest
  gsimp [featuresField, hlit, hline, ht']

end Gts.GenBank
