/-
  `Gts/Spec/ParseK3.lean` (the parser with the K3 flag, answered by the driver op `k3.parse` and restated in Go:
  harness/props_c06_parsek3.go) IS the instance `g = Loc.joinK3` of the generic flagged parser of
  `Gts/Spec/ParseGuard.lean` — the identity the header of ParseGuard.lean left unstated.  So the flagged parser the
  theorem "parser results are canonical" is about is tied to the real parser through the same op.  Core Lean only.
-/
import Gts.Spec.ParseK3
import Gts.Spec.ParseGuard
namespace Gts
open Pars

theorem more_eq (fuel : Nat) (h : LocParseK3.loc fuel = LocParseG.loc Loc.joinK3 fuel) :
    ∀ (k : Nat) (acc : List Loc) (b : Bool),
      LocParseK3.multiple.more fuel k acc b = LocParseG.multiple.more Loc.joinK3 fuel k acc b := by
  intro k
  induction k with
  | zero => intro acc b; simp [LocParseK3.multiple.more, LocParseG.multiple.more]
  | succ k ih =>
    intro acc b
    simp only [LocParseK3.multiple.more, LocParseG.multiple.more, h, ih]
    rfl

theorem k3_eq_g : ∀ fuel : Nat,
    LocParseK3.loc fuel = LocParseG.loc Loc.joinK3 fuel ∧
    LocParseK3.multiple fuel = LocParseG.multiple Loc.joinK3 fuel ∧
    LocParseK3.joinOf fuel = LocParseG.joinOf Loc.joinK3 fuel ∧
    LocParseK3.orderOf fuel = LocParseG.orderOf Loc.joinK3 fuel ∧
    LocParseK3.complementOf fuel = LocParseG.complementOf Loc.joinK3 fuel := by
  intro fuel
  induction fuel with
  | zero =>
    refine ⟨?_, ?_, ?_, ?_, ?_⟩ <;>
      simp [LocParseK3.loc, LocParseG.loc, LocParseK3.multiple, LocParseG.multiple, LocParseK3.joinOf, LocParseG.joinOf,
        LocParseK3.orderOf, LocParseG.orderOf, LocParseK3.complementOf, LocParseG.complementOf]
  | succ f ih =>
    obtain ⟨h1, h2, h3, h4, h5⟩ := ih
    have hm : LocParseK3.multiple (f + 1) = LocParseG.multiple Loc.joinK3 (f + 1) := by
      simp only [LocParseK3.multiple, LocParseG.multiple, h1, more_eq f h1]
      rfl
    refine ⟨?_, hm, ?_, ?_, ?_⟩
    · simp only [LocParseK3.loc, LocParseG.loc, h3, h4, h5]; rfl
    · simp only [LocParseK3.joinOf, LocParseG.joinOf, h2]; rfl
    · simp only [LocParseK3.orderOf, LocParseG.orderOf, h2]; rfl
    · simp only [LocParseK3.complementOf, LocParseG.complementOf, h1]; rfl

/-- the op-tied K3 parser is the generic flagged parser at `g = Loc.joinK3` -/
theorem parseLocationK3_eq_G (s : Bytes) : parseLocationK3 s = parseLocationG Loc.joinK3 s := by
  unfold parseLocationK3 parseLocationG
  rw [(k3_eq_g (s.length + 2)).1]
  rfl

end Gts
