/-
  C01 helper lemmas: a text with continuation lines (`AddPrefix`) read back by
  `genbankFieldBodyParser`.  A value is handled as its list of lines; `lines_join` /
  `addPrefix_lines` connect that view with the byte string.  Core Lean only.
-/
import Gts.Lemmas.ParsRun
namespace Gts.GenBank
open Gts.Pars

/-- the continuation lines as they stand in the file: indent, line, line feed -/
def contText (pre : Bytes) (ls : List Bytes) : Bytes := ls.flatMap fun l => pre ++ l ++ [10]

/-- the continuation lines as the reader joins them: separator, line -/
def sepText (sep : UInt8) (ls : List Bytes) : Bytes := ls.flatMap fun l => sep :: l

theorem contText_cons (pre l : Bytes) (ls : List Bytes) :
    contText pre (l :: ls) = pre ++ (l ++ 10 :: contText pre ls) := by
  simp [contText, List.flatMap_cons]

theorem sepText_cons (sep : UInt8) (l : Bytes) (ls : List Bytes) :
    sepText sep (l :: ls) = sep :: l ++ sepText sep ls := by
  simp [sepText, List.flatMap_cons]

theorem contText_length_ge (pre : Bytes) (ls : List Bytes) : ls.length ≤ (contText pre ls).length := by
  induction ls with
  | nil => simp [contText]
  | cons l ls ih => rw [contText_cons]; simp only [List.length_append, List.length_cons]; omega

/-! ### `genbankFieldLineParser` -/

theorem fieldLine_ok (d : Nat) (l r : Bytes) (stk : List Bytes) (h : noEOL l = true) :
    fieldLine d ⟨sp d ++ (l ++ 10 :: r), stk⟩ = (.ok l, ⟨r, stk⟩) := by
  simp [fieldLine, P.bind_run, lit_ok, line_ok l r stk h]

theorem fieldLine_fail (d : Nat) (r : Bytes) (stk : List Bytes) (h : (sp d).isPrefixOf r = false) :
    fieldLine d ⟨r, stk⟩ = (.error .fail, ⟨r, stk⟩) := by
  simp [fieldLine, P.bind_run, lit_fail _ _ _ h]

/-! ### `genbankFieldBodyParser` -/

theorem bodyMore_lines (d : Nat) (sep : UInt8) (ls : List Bytes) (rest : Bytes) (stk : List Bytes)
    (acc : Bytes) (k f : Nat) (hls : ∀ x ∈ ls, noEOL x = true)
    (hrest : (sp d).isPrefixOf rest = false) (hf : ls.length < f) :
    bodyMore d sep f acc k ⟨contText (sp d) ls ++ rest, stk⟩ =
      (.ok (acc ++ sepText sep ls, k + ls.length), ⟨rest, stk⟩) := by
  induction ls generalizing acc k f with
  | nil =>
    cases f with
    | zero => omega
    | succ f =>
      simp [bodyMore, contText, sepText, P.bind_run, attempt_run, fieldLine_fail d rest stk hrest, P.pure_run]
  | cons l ls ih =>
    cases f with
    | zero => omega
    | succ f =>
      have hl : noEOL l = true := hls l (by simp)
      have hls' : ∀ x ∈ ls, noEOL x = true := fun x hx => hls x (by simp [hx])
      rw [contText_cons, sepText_cons]
      simp only [bodyMore, P.bind_run, attempt_run, List.append_assoc, List.cons_append,
        fieldLine_ok d l _ stk hl]
      rw [ih (acc ++ sep :: l) (k + 1) f hls' (by simp only [List.length_cons] at hf; omega)]
      have e : k + 1 + ls.length = k + (ls.length + 1) := by omega
      simp only [List.append_assoc, List.cons_append, List.length_cons, e]

/-- the body of a field: first line, then the continuation lines; the text behind it must not
start with the indent -/
theorem fieldBody_ok (d : Nat) (sep : UInt8) (l0 : Bytes) (ls : List Bytes) (rest : Bytes)
    (stk : List Bytes) (h0 : noEOL l0 = true) (hls : ∀ x ∈ ls, noEOL x = true)
    (hrest : (sp d).isPrefixOf rest = false) :
    fieldBody d sep ⟨l0 ++ 10 :: (contText (sp d) ls ++ rest), stk⟩ =
      (.ok (l0 ++ sepText sep ls, ls.length), ⟨rest, stk⟩) := by
  have hlen : ls.length < (contText (sp d) ls ++ rest).length + 1 := by
    have := contText_length_ge (sp d) ls
    simp only [List.length_append]; omega
  simp only [fieldBody, P.bind_run, line_ok l0 _ stk h0, getS, P.pure_run]
  rw [bodyMore_lines d sep ls rest stk l0 0 _ hls hrest hlen]
  simp

/-! ### values as lists of lines -/

/-- no carriage return (decidable): the only byte a field text must avoid -/
def noCR (v : Bytes) : Bool := v.all fun c => c != 13

theorem splitLF_ne_nil (v : Bytes) : splitLF v ≠ [] := by
  induction v with
  | nil => simp [splitLF]
  | cons c v ih =>
    unfold splitLF
    by_cases hc : c = 10
    · simp [hc]
    · simp only [hc, if_false]
      split <;> simp

/-- the head line and the further lines of a text -/
def headLine (v : Bytes) : Bytes := (splitLF v).headD []
def tailLines (v : Bytes) : List Bytes := (splitLF v).tail

theorem splitLF_eq (v : Bytes) : splitLF v = headLine v :: tailLines v := by
  have := splitLF_ne_nil v
  unfold headLine tailLines
  cases h : splitLF v with
  | nil => exact absurd h this
  | cons a b => rfl

theorem splitLF_cons_lf (v : Bytes) : splitLF (10 :: v) = [] :: splitLF v := by
  simp [splitLF]

theorem splitLF_cons_other (c : UInt8) (v : Bytes) (hc : c ≠ 10) :
    splitLF (c :: v) = (c :: headLine v) :: tailLines v := by
  rw [splitLF]
  simp only [hc, if_false]
  rw [splitLF_eq v]

/-- a text is its head line followed by `LF line` for every further line -/
theorem lines_join (v : Bytes) : v = headLine v ++ sepText 10 (tailLines v) := by
  induction v with
  | nil => simp [headLine, tailLines, splitLF, sepText]
  | cons c v ih =>
    by_cases hc : c = 10
    · subst hc
      have e := splitLF_cons_lf v
      have h1 : headLine (10 :: v) = [] := by simp [headLine, e]
      have h2 : tailLines (10 :: v) = splitLF v := by simp [tailLines, e]
      rw [h1, h2, splitLF_eq v, sepText_cons]
      simp only [List.nil_append, List.cons_append]
      rw [← ih]
    · have e := splitLF_cons_other c v hc
      have h1 : headLine (c :: v) = c :: headLine v := by simp [headLine, e]
      have h2 : tailLines (c :: v) = tailLines v := by simp [tailLines, e]
      rw [h1, h2, List.cons_append, ← ih]

theorem lines_noEOL (v : Bytes) (h : noCR v = true) :
    noEOL (headLine v) = true ∧ ∀ x ∈ tailLines v, noEOL x = true := by
  induction v with
  | nil => simp [headLine, tailLines, splitLF, noEOL]
  | cons c v ih =>
    have hv : noCR v = true := by
      simp only [noCR, List.all_cons, Bool.and_eq_true] at h; exact h.2
    have hc13 : (c != 13) = true := by
      simp only [noCR, List.all_cons, Bool.and_eq_true] at h; exact h.1
    obtain ⟨ih1, ih2⟩ := ih hv
    by_cases hc : c = 10
    · subst hc
      have e := splitLF_cons_lf v
      have h1 : headLine (10 :: v) = [] := by simp [headLine, e]
      have h2 : tailLines (10 :: v) = splitLF v := by simp [tailLines, e]
      rw [h1, h2, splitLF_eq v]
      refine ⟨by simp [noEOL], ?_⟩
      intro x hx
      rcases List.mem_cons.mp hx with rfl | hx
      · exact ih1
      · exact ih2 x hx
    · have e := splitLF_cons_other c v hc
      have h1 : headLine (c :: v) = c :: headLine v := by simp [headLine, e]
      have h2 : tailLines (c :: v) = tailLines v := by simp [tailLines, e]
      rw [h1, h2]
      refine ⟨?_, ih2⟩
      rw [noEOL_cons, ih1]
      have : (c != 10) = true := by simpa using hc
      simp [this, hc13]

/-- `AddPrefix` written over the lines -/
theorem addPrefix_lines (pre v : Bytes) (rest : Bytes) :
    addPrefix pre v ++ 10 :: rest = headLine v ++ 10 :: (contText pre (tailLines v) ++ rest) := by
  induction v with
  | nil => simp [addPrefix, headLine, tailLines, splitLF, contText]
  | cons c v ih =>
    by_cases hc : c = 10
    · subst hc
      have e := splitLF_cons_lf v
      have h1 : headLine (10 :: v) = [] := by simp [headLine, e]
      have h2 : tailLines (10 :: v) = splitLF v := by simp [tailLines, e]
      rw [h1, h2, splitLF_eq v, contText_cons]
      simp only [addPrefix, if_true, List.cons_append, List.nil_append, List.append_assoc]
      rw [ih]
    · have e := splitLF_cons_other c v hc
      have h1 : headLine (c :: v) = c :: headLine v := by simp [headLine, e]
      have h2 : tailLines (c :: v) = tailLines v := by simp [tailLines, e]
      rw [h1, h2]
      simp only [addPrefix, hc, if_false, List.cons_append]
      rw [ih]

/-- **Field body round trip.**  A text without carriage return, written with `AddPrefix(v, indent)`
and a final line feed, is read back by `genbankFieldBodyParser(depth, '\n')` exactly, provided
the following text does not start with the indent. -/
theorem fieldBody_addPrefix (d : Nat) (v rest : Bytes) (stk : List Bytes) (hv : noCR v = true)
    (hrest : (sp d).isPrefixOf rest = false) :
    fieldBody d 10 ⟨addPrefix (sp d) v ++ 10 :: rest, stk⟩ =
      (.ok (v, (tailLines v).length), ⟨rest, stk⟩) := by
  obtain ⟨h0, hls⟩ := lines_noEOL v hv
  rw [addPrefix_lines, fieldBody_ok d 10 _ _ rest stk h0 hls hrest, ← lines_join v]

end Gts.GenBank
