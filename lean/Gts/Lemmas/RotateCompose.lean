/-
  Helper lemmas for the record-level composition laws of `gts.Rotate` (C04, `Props/C04Table.lean`):
  the length of a rotated record, the domain of the Normalize law implies the property's proviso on
  ambiguous spans, and a position map that is the identity on `[0, L)`.
-/
import Gts.Props.C04
namespace Gts
open Loc

/-- rotating keeps the number of residues (any `n`, the empty record included) -/
theorem Seq.rotate_bytes_length (s : Gts.Seq) (n : Int) :
    (s.rotate n).bytes.length = s.bytes.length := by
  rw [C04.rotate_bytes_eq]
  simp only [List.length_append, List.length_drop, List.length_take]
  omega

theorem Seq.rotate_len (s : Gts.Seq) (n : Int) : (s.rotate n).len = s.len := by
  unfold Seq.len
  rw [Seq.rotate_bytes_length]

namespace Loc

mutual
/-- the domain of the Normalize law (`normOk`) contains the property's proviso "no ambiguous span
across the origin" (`ambOk`) -/
theorem ambOk_of_normOk (L : Int) : ∀ (l : Loc), normOk L l = true → ambOk L l = true
  | between _, _ => by simp [ambOk, leafAmbOk]
  | point _, _ => by simp [ambOk, leafAmbOk]
  | ranged _ _ _ _, _ => by simp [ambOk, leafAmbOk]
  | ambiguous s e, h => by
      simp only [normOk, Bool.and_eq_true, decide_eq_true_eq] at h
      simp only [ambOk, allLeaves_ambiguous, leafAmbOk, decide_eq_true_eq]
      exact h.2
  | joined ls, h => by
      simp only [normOk] at h
      simpa [ambOk] using ambOkList_of_normOkList L ls h
  | ordered ls, h => by
      simp only [normOk] at h
      simpa [ambOk] using ambOkList_of_normOkList L ls h
  | compl l, h => by
      simp only [normOk] at h
      simpa [ambOk] using ambOk_of_normOk L l h
theorem ambOkList_of_normOkList (L : Int) : ∀ (ls : List Loc), normOkList L ls = true →
    allLeavesList (leafAmbOk L) ls = true
  | [], _ => by simp
  | l :: ls, h => by
      simp only [normOkList, Bool.and_eq_true] at h
      have a := ambOk_of_normOk L l h.1
      simp only [ambOk] at a
      simp [a, ambOkList_of_normOkList L ls h.2]
end

end Loc

/-- a rotation by a multiple of the length maps every position of `[0, L)` to itself -/
theorem mapPos_rotMap_mul (m L : Int) (hL : 0 < L) (d : List Pos) (hin : denIn L d) :
    mapPos (rotMap (m * L) L) d = d := by
  unfold mapPos
  conv => rhs; rw [← List.map_id d]
  apply List.map_congr_left
  intro p hp
  have := hin p hp
  simp only [id]
  rw [C04.rotMap_mul m L p.1 hL this.1 this.2]

end Gts
