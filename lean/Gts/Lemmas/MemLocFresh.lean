/-
  C11 — FRESHNESS of the heap programs of the location methods (Gts/Model/MemLoc.lean): whatever
  the heap and the value they are called on, they write only into arrays they allocated, and what
  they return refers only to arrays allocated by the call.  No hypothesis on the argument (it may
  be ill formed, shared, even cyclic: then the program runs out of fuel and there is no result).
-/
import Gts.Lemmas.MemLocBasic
namespace Gts.Mem
open Heap

/-- what a heap-level location function guarantees about memory at level `n`: every array that
existed is unchanged, the arrays `≥ n` refer only to arrays `≥ n`, the result too -/
structure PostM (n : Nat) (h : LHeap) (r : MLoc × LHeap) : Prop where
  pre : h <+: r.2
  closed : Closed n r.2
  refs : RefsAbove n r.1

/-- a `Push` function keeps level `n`, and never shortens the list -/
def PushFresh (n : Nat) (push : PushFn) : Prop :=
  ∀ h racc x force r, push h racc x force = some r → n ≤ h.length → Closed n h →
    (∀ c ∈ racc, RefsAbove n c) → RefsAbove n x →
    h <+: r.2 ∧ Closed n r.2 ∧ (∀ c ∈ r.1, RefsAbove n c) ∧ racc.length ≤ r.1.length

theorem joinTail_fresh (g : Grow) {n : Nat} {h : LHeap} (hn : n ≤ h.length) (hc : Closed n h)
    {l : List MLoc} (hl : ∀ c ∈ l, RefsAbove n c) : PostM n h (joinTail g h l) := by
  match l, hl with
  | [], _ => exact ⟨prefix_snoc (List.prefix_refl _) _, closed_mk hc 0 0, hn⟩
  | [a], hl => exact ⟨List.prefix_refl _, hc, hl a (List.mem_cons_self ..)⟩
  | a :: b :: l, hl =>
    have f := listSlice_frame g hc hn hl
    exact ⟨f.1, f.2.1, f.2.2⟩

theorem pushLoop_fresh {n : Nat} {push : PushFn} (hpush : PushFresh n push) {s : Slice}
    (hs : n ≤ s.arr) (force : Bool) (cnt : Nat) :
    ∀ (i : Nat) (racc : List MLoc) (h : LHeap) (r : List MLoc × LHeap),
      pushLoop push s force cnt i racc h = some r → n ≤ h.length → Closed n h →
      (∀ c ∈ racc, RefsAbove n c) →
      h <+: r.2 ∧ Closed n r.2 ∧ (∀ c ∈ r.1, RefsAbove n c) ∧ racc.length ≤ r.1.length := by
  induction cnt with
  | zero =>
    intro i racc h r he hn hc hr
    simp only [pushLoop, Option.some.injEq] at he
    subst he
    exact ⟨List.prefix_refl _, hc, hr, Nat.le_refl _⟩
  | succ cnt ih =>
    intro i racc h r he hn hc hr
    unfold pushLoop at he
    split at he
    · rename_i u hu
      obtain ⟨r1, h1, h2⟩ := Option.bind_eq_some_iff.1 he
      have p1 := hpush h racc u force r1 h1 hn hc hr (hc _ hs u (mem_of_load hu))
      have p2 := ih _ _ _ _ h2 (Nat.le_trans hn p1.1.length_le) p1.2.1 p1.2.2.1
      exact ⟨p1.1.trans p2.1, p2.2.1, p2.2.2.1, Nat.le_trans p1.2.2.2 p2.2.2.2⟩
    · cases he

theorem joinMem_fresh (g : Grow) {n : Nat} {push : PushFn} (hpush : PushFresh n push) {h : LHeap}
    {locs : Slice} (hs : n ≤ locs.arr) {r : MLoc × LHeap} (he : joinMem push g h locs = some r)
    (hn : n ≤ h.length) (hc : Closed n h) : PostM n h r := by
  unfold joinMem at he
  obtain ⟨r1, h1, h2⟩ := Option.bind_eq_some_iff.1 he
  have p1 := pushLoop_fresh hpush hs true _ _ _ _ _ h1 hn hc (fun _ hx => by cases hx)
  simp only [Option.some.injEq] at h2
  subst h2
  have p2 := joinTail_fresh g (Nat.le_trans hn p1.1.length_le) p1.2.1 (l := r1.1.reverse)
    (fun c hcm => p1.2.2.1 c (List.mem_reverse.1 hcm))
  exact ⟨p1.1.trans p2.pre, p2.closed, p2.refs⟩

/-- the scalar rules always leave at least one element -/
theorem pushOne_leaf_length (v u : Loc) (force : Bool) :
    1 ≤ (Loc.pushOne (fun r _ _ => r) [v] u force).length := by
  cases v <;> cases u <;> simp only [Loc.pushOne] <;> (try split) <;> simp

theorem pushOneMem_fresh (g : Grow) {n : Nat} {low : PushFn} (hlow : PushFresh n low) :
    PushFresh n (pushOneMem low g) := by
  intro h racc x force r he hn hc hr hx
  unfold pushOneMem at he
  split at he
  · simp only [Option.some.injEq] at he
    subst he
    exact ⟨List.prefix_refl _, hc, fun c hcm => by rw [List.mem_singleton.1 hcm]; exact hx, by simp⟩
  · rename_i v rest u
    simp only [Option.some.injEq] at he
    subst he
    refine ⟨List.prefix_refl _, hc, ?_, ?_⟩
    · intro c hcm
      rcases List.mem_append.1 hcm with h1 | h1
      · obtain ⟨l, _, rfl⟩ := List.mem_map.1 h1
        trivial
      · exact hr c (List.mem_cons_of_mem _ h1)
    · have := pushOne_leaf_length v u force
      simp only [List.length_append, List.length_map, List.length_cons]
      omega
  · rename_i vm rest um
    obtain ⟨t, h1, h2⟩ := Option.bind_eq_some_iff.1 he
    have hvm : RefsAbove n vm := hr (.compl vm) (List.mem_cons_self ..)
    have hum : RefsAbove n um := hx
    have p1 := hlow h [um] vm force t h1 hn hc
      (fun c hcm => by rw [List.mem_singleton.1 hcm]; exact hum) hvm
    have hn1 := Nat.le_trans hn p1.1.length_le
    have f := listSlice_frame g p1.2.1 hn1 (ms := t.1.reverse)
      (fun c hcm => p1.2.2.1 c (List.mem_reverse.1 hcm))
    obtain ⟨j, h3, h4⟩ := Option.bind_eq_some_iff.1 h2
    have p2 := joinMem_fresh g hlow f.2.2 h3 (Nat.le_trans hn1 f.1.length_le) f.2.1
    simp only [Option.some.injEq] at h4
    subst h4
    refine ⟨p1.1.trans (f.1.trans p2.pre), p2.closed, ?_, by simp⟩
    intro c hcm
    rcases List.mem_cons.1 hcm with e | e
    · subst e; exact p2.refs
    · exact hr c (List.mem_cons_of_mem _ e)
  · simp only [Option.some.injEq] at he
    subst he
    refine ⟨List.prefix_refl _, hc, ?_, by simp⟩
    intro c hcm
    rcases List.mem_cons.1 hcm with e | e
    · subst e; exact hx
    · exact hr c e

theorem pushWMem_fresh (g : Grow) {n : Nat} {low : PushFn} (hlow : PushFresh n low) :
    ∀ k, PushFresh n (pushWMem low g k) := by
  intro k
  induction k with
  | zero => intro h racc x force r he; simp [pushWMem] at he
  | succ k ih =>
    intro h racc x force r he hn hc hr hx
    cases x with
    | joined s =>
      simp only [pushWMem] at he
      exact pushLoop_fresh ih hx force _ _ _ _ _ he hn hc hr
    | leaf l => simp only [pushWMem] at he; exact pushOneMem_fresh g hlow _ _ _ _ _ he hn hc hr hx
    | ordered s => simp only [pushWMem] at he; exact pushOneMem_fresh g hlow _ _ _ _ _ he hn hc hr hx
    | compl m => simp only [pushWMem] at he; exact pushOneMem_fresh g hlow _ _ _ _ _ he hn hc hr hx

theorem pushDMem_fresh (g : Grow) (k : Nat) {n : Nat} : ∀ d, PushFresh n (pushDMem g k d)
  | 0 => by
    intro h racc x force r he hn hc hr hx
    simp only [pushDMem, Option.some.injEq] at he
    subst he
    refine ⟨List.prefix_refl _, hc, ?_, by simp⟩
    intro c hcm
    rcases List.mem_cons.1 hcm with e | e
    · subst e; exact hx
    · exact hr c e
  | d + 1 => pushWMem_fresh g (pushDMem_fresh g k d) k

/-- `Join(locs...)` of a slice at level `n`: nothing that existed is written, the result is at
level `n` -/
theorem joinLocs_fresh (g : Grow) (k : Nat) {n : Nat} {h : LHeap} {locs : Slice} (hs : n ≤ locs.arr)
    {r : MLoc × LHeap} (he : joinLocs g k h locs = some r) (hn : n ≤ h.length) (hc : Closed n h) :
    PostM n h r :=
  joinMem_fresh g (pushDMem_fresh g k _) hs he hn hc

/-! ### `flattenLocations` / `Order` -/

theorem refs_of_fresh {n m : Nat} {h : LHeap} (hc : Closed n h) {s : Slice} (hf : Fresh m s)
    (hnm : n ≤ m) (hl : s.len ≤ s.cap) : ∀ c ∈ read h s, RefsAbove n c := by
  rcases hf with h1 | h1
  · exact refs_of_read hc (Nat.le_trans hnm h1)
  · intro c hcm
    have : s.len = 0 := by omega
    simp [Heap.read, this] at hcm

/-- what `flattenLocations` guarantees about memory at level `n` -/
def FlatFresh (n : Nat) (rec : LHeap → Slice → Option (Slice × LHeap)) : Prop :=
  ∀ h s r, rec h s = some r → n ≤ h.length → Closed n h → n ≤ s.arr →
    h <+: r.2 ∧ Closed n r.2 ∧ Fresh h.length r.1 ∧ r.1.len ≤ r.1.cap

theorem flattenLoop_fresh (g : Grow) {n : Nat} {rec : LHeap → Slice → Option (Slice × LHeap)}
    (hrec : FlatFresh n rec) {h0 : LHeap} (hn : n ≤ h0.length) {locs : Slice} (hs : n ≤ locs.arr)
    (cnt : Nat) :
    ∀ (i : Nat) (list : Slice) (h : LHeap) (r : Slice × LHeap),
      flattenLoop rec g locs cnt i list h = some r → h0 <+: h → Closed n h →
      Fresh h0.length list → list.len ≤ list.cap →
      h0 <+: r.2 ∧ Closed n r.2 ∧ Fresh h0.length r.1 ∧ r.1.len ≤ r.1.cap := by
  induction cnt with
  | zero =>
    intro i list h r he hp hc hf hl
    simp only [flattenLoop, Option.some.injEq] at he
    subst he
    exact ⟨hp, hc, hf, hl⟩
  | succ cnt ih =>
    intro i list h r he hp hc hf hl
    have hlist := refs_of_fresh hc hf hn hl
    unfold flattenLoop at he
    split at he
    · rename_i s hu
      obtain ⟨r1, h1, h2⟩ := Option.bind_eq_some_iff.1 he
      have hsr : n ≤ s.arr := hc _ hs (.ordered s) (mem_of_load hu)
      have p1 := hrec h s r1 h1 (Nat.le_trans hn hp.length_le) hc hsr
      have hp1 := hp.trans p1.1
      have a := frame_append g hp1 hf (read r1.2 r1.1)
      have hlist1 : ∀ c ∈ read r1.2 list, RefsAbove n c := refs_of_fresh p1.2.1 hf hn hl
      have c := closed_append g p1.2.1 list hlist1
        (refs_of_fresh p1.2.1 p1.2.2.1 (Nat.le_trans hn hp.length_le) p1.2.2.2)
      exact ih _ _ _ _ h2 a.1 c a.2 (len_le_cap_append g _ _ _)
    · rename_i x _ hu
      have a := frame_append g hp hf [x]
      have c := closed_append g hc list hlist (xs := [x])
        (fun c hcm => by rw [List.mem_singleton.1 hcm]; exact hc _ hs x (mem_of_load hu))
      exact ih _ _ _ _ he a.1 c a.2 (len_le_cap_append g _ _ _)
    · cases he

theorem flattenMem_fresh (g : Grow) {n : Nat} : ∀ k, FlatFresh n (flattenMem g k) := by
  intro k
  induction k with
  | zero => intro h s r he; simp [flattenMem] at he
  | succ k ih =>
    intro h s r he hn hc hs
    simp only [flattenMem] at he
    exact flattenLoop_fresh g ih hn hs _ _ _ _ _ he (List.prefix_refl _) hc (Or.inr rfl)
      (Nat.le_refl _)

/-- `Order(locs...)` of a slice at level `n` -/
theorem orderLocs_fresh (g : Grow) (k : Nat) {n : Nat} {h : LHeap} {locs : Slice} (hs : n ≤ locs.arr)
    {r : MLoc × LHeap} (he : orderLocs g k h locs = some r) (hn : n ≤ h.length) (hc : Closed n h) :
    PostM n h r := by
  unfold orderLocs at he
  obtain ⟨r1, h1, h2⟩ := Option.bind_eq_some_iff.1 he
  have p1 := flattenMem_fresh g k h locs r1 h1 hn hc hs
  have harr : 0 < r1.1.len → n ≤ r1.1.arr := by
    intro hpos
    rcases p1.2.2.1 with h3 | h3
    · exact Nat.le_trans hn h3
    · have := p1.2.2.2; omega
  split at h2
  · simp only [Option.some.injEq] at h2
    subst h2
    exact ⟨prefix_snoc p1.1 _, closed_mk p1.2.1 0 0, Nat.le_trans hn p1.1.length_le⟩
  · rename_i hlen
    obtain ⟨a, h3, h4⟩ := Option.map_eq_some_iff.1 h2
    subst h4
    exact ⟨p1.1, p1.2.1, p1.2.1 _ (harr (by omega)) a (mem_of_load h3)⟩
  · rename_i h0 h1'
    simp only [Option.some.injEq] at h2
    subst h2
    refine ⟨p1.1, p1.2.1, harr ?_⟩
    cases hl : r1.1.len with
    | zero => exact absurd hl h0
    | succ m => omega

/-! ### the element loop and `Expand` -/

/-- a location method: nothing that existed is written, the result lies in arrays allocated by the
call — for EVERY heap and EVERY receiver -/
def MapFresh (rec : LHeap → MLoc → Option (MLoc × LHeap)) : Prop :=
  ∀ h m r, rec h m = some r → PostM h.length h r

theorem mapLoop2_fresh {rec : LHeap → MLoc → Option (MLoc × LHeap)} (hrec : MapFresh rec)
    {h0 : LHeap} (src : Slice) {dst : Slice} (hd : h0.length ≤ dst.arr) (cnt : Nat) :
    ∀ (j : Nat) (h r : LHeap), mapLoop2 rec src dst cnt j h = some r → h0 <+: h →
      Closed h0.length h → h0 <+: r ∧ Closed h0.length r := by
  induction cnt with
  | zero =>
    intro j h r he hp hc
    simp only [mapLoop2, Option.some.injEq] at he
    subst he
    exact ⟨hp, hc⟩
  | succ cnt ih =>
    intro j h r he hp hc
    unfold mapLoop2 at he
    split at he
    · rename_i u hu
      obtain ⟨r1, h1, h2⟩ := Option.bind_eq_some_iff.1 he
      have p1 := hrec h u r1 h1
      have c1 := closed_extend hc p1.pre p1.closed hp.length_le
      exact ih _ _ _ h2 (frame_store (hp.trans p1.pre) hd _ _)
        (closed_store c1 dst j (RefsAbove.mono hp.length_le p1.refs))
    · cases he

theorem mapLocs_fresh {rec : LHeap → MLoc → Option (MLoc × LHeap)} (hrec : MapFresh rec)
    {h : LHeap} {src : Slice} {r : Slice × LHeap} (he : mapLocs rec h src = some r) :
    h <+: r.2 ∧ Closed h.length r.2 ∧ r.1.arr = h.length := by
  unfold mapLocs at he
  obtain ⟨h', h1, h2⟩ := Option.map_eq_some_iff.1 he
  subst h2
  have m := frame_mk (List.prefix_refl h) src.len src.len
  have p := mapLoop2_fresh hrec src m.2 _ _ _ _ h1 m.1 (closed_mk (closed_self h) _ _)
  exact ⟨p.1, p.2, rfl⟩

/-- the common shape of `Expand` / `Shift` / `Normalize` is fresh when the method of the contiguous
kinds is -/
theorem methMem_fresh (g : Grow) {leafM : Nat → LHeap → Loc → Option (MLoc × LHeap)}
    (hleaf : ∀ k h l r, leafM k h l = some r → PostM h.length h r) :
    ∀ k, MapFresh (methMem leafM g k) := by
  intro k
  induction k with
  | zero => intro h m r he; simp [methMem] at he
  | succ k ih =>
    intro h m r he
    cases m with
    | leaf l =>
      simp only [methMem] at he
      exact hleaf k h l r he
    | joined s =>
      simp only [methMem] at he
      obtain ⟨r1, h1, h2⟩ := Option.bind_eq_some_iff.1 he
      have p1 := mapLocs_fresh ih h1
      have p2 := joinLocs_fresh g (k + 1) (Nat.le_of_eq p1.2.2.symm) h2 p1.1.length_le p1.2.1
      exact ⟨p1.1.trans p2.pre, p2.closed, p2.refs⟩
    | ordered s =>
      simp only [methMem] at he
      obtain ⟨r1, h1, h2⟩ := Option.bind_eq_some_iff.1 he
      have p1 := mapLocs_fresh ih h1
      have p2 := orderLocs_fresh g (k + 1) (Nat.le_of_eq p1.2.2.symm) h2 p1.1.length_le p1.2.1
      exact ⟨p1.1.trans p2.pre, p2.closed, p2.refs⟩
    | compl m =>
      simp only [methMem] at he
      obtain ⟨r1, h1, h2⟩ := Option.map_eq_some_iff.1 he
      subst h2
      have p := ih h m r1 h1
      exact ⟨p.pre, p.closed, p.refs⟩

/-- a method that returns a value allocates nothing -/
theorem post_value (h : LHeap) (l : Loc) : PostM h.length h (MLoc.leaf l, h) :=
  ⟨List.prefix_refl _, closed_self h, trivial⟩

/-- `Join(left, right)` / `Order(left, right)` of two new values: the argument slice is new -/
theorem lit_join_fresh (g : Grow) (k : Nat) (h : LHeap) (ls : List Loc) {r : MLoc × LHeap}
    (he : joinLocs g k (litSlice h (ls.map MLoc.leaf)).2 (litSlice h (ls.map MLoc.leaf)).1 = some r) :
    PostM h.length h r := by
  have o := litSlice_owned (List.prefix_refl h) (ls.map MLoc.leaf)
  have c := litSlice_closed (closed_self h) (xs := ls.map MLoc.leaf)
    (fun c hc => by obtain ⟨l, _, rfl⟩ := List.mem_map.1 hc; trivial)
  have p := joinLocs_fresh g k (n := h.length) (Nat.le_refl _) he o.pre.length_le c
  exact ⟨o.pre.trans p.pre, p.closed, p.refs⟩

theorem lit_order_fresh (g : Grow) (k : Nat) (h : LHeap) (ls : List Loc) {r : MLoc × LHeap}
    (he : orderLocs g k (litSlice h (ls.map MLoc.leaf)).2 (litSlice h (ls.map MLoc.leaf)).1 = some r) :
    PostM h.length h r := by
  have o := litSlice_owned (List.prefix_refl h) (ls.map MLoc.leaf)
  have c := litSlice_closed (closed_self h) (xs := ls.map MLoc.leaf)
    (fun c hc => by obtain ⟨l, _, rfl⟩ := List.mem_map.1 hc; trivial)
  have p := orderLocs_fresh g k (n := h.length) (Nat.le_refl _) he o.pre.length_le c
  exact ⟨o.pre.trans p.pre, p.closed, p.refs⟩

/-- **`Expand` is fresh**, for every fuel, heap, receiver, position and amount -/
theorem expandMem_fresh (g : Grow) (i n : Int) : ∀ k, MapFresh (expandMem g i n k) :=
  methMem_fresh g fun _ h l r he => by
    simp only [Option.some.injEq] at he
    subst he
    exact post_value h _

theorem shiftLeaf_fresh (g : Grow) (i n : Int) (k : Nat) (h : LHeap) (l : Loc) (r : MLoc × LHeap)
    (he : shiftLeaf g i n k h l = some r) : PostM h.length h r := by
  unfold shiftLeaf at he
  split at he
  · split at he
    · exact lit_join_fresh g k h [_, _] he
    · simp only [Option.some.injEq] at he; subst he; exact post_value h _
  · split at he
    · exact lit_order_fresh g k h [_, _] he
    · simp only [Option.some.injEq] at he; subst he; exact post_value h _
  · simp only [Option.some.injEq] at he; subst he; exact post_value h _

/-- **`Shift` is fresh** -/
theorem shiftMem_fresh (g : Grow) (i n : Int) : ∀ k, MapFresh (shiftMem g i n k) :=
  methMem_fresh g (shiftLeaf_fresh g i n)

theorem normalizeLeaf_fresh (g : Grow) (len : Int) (k : Nat) (h : LHeap) (l : Loc) (r : MLoc × LHeap)
    (he : normalizeLeaf g len k h l = some r) : PostM h.length h r := by
  unfold normalizeLeaf at he
  split at he
  · split at he
    · exact lit_join_fresh g k h [_, _] he
    · simp only [Option.some.injEq] at he; subst he; exact post_value h _
  · simp only [Option.some.injEq] at he; subst he; exact post_value h _

/-- **`Normalize` is fresh** -/
theorem normalizeMem_fresh (g : Grow) (len : Int) : ∀ k, MapFresh (normalizeMem g len k) :=
  methMem_fresh g (normalizeLeaf_fresh g len)

end Gts.Mem
