/-
  C07 / C16: a block that `validateOrigin` accepts IS a block that `NewOrigin` writes — the line
  indices, one blank per group, printable residues, a line feed per line — so it decodes
  (`Origin.Bytes()`) without a panic to exactly the declared number of residues.  The ORIGIN reader
  returns nothing but such blocks (fast path: the validated bytes; slow path: C16
  `slow_token_valid`).  Core Lean only.
-/
import Gts.Lemmas.GbSafeRecord
namespace Gts.Origin
open Gts.Pars (Bytes Err P)

theorem printable_nil : printable [] := fun _ h => by simp at h

theorem walkChars_inv (oob : Err) (L ij f k : Nat) (rest r : Bytes) (hk : k + f = 10)
    (h : walkChars oob (L : Int) ij f k rest = .ok r) :
    ∃ g, rest = g ++ r ∧ printable g ∧ g.length = min f (L - (ij + k)) := by
  induction f generalizing k rest with
  | zero =>
    simp only [walkChars] at h; cases h
    exact ⟨[], rfl, printable_nil, by simp⟩
  | succ f ih =>
    unfold walkChars at h
    by_cases hc : k < 10 ∧ ((ij + k : Nat) : Int) < (L : Int)
    · rw [if_pos hc] at h
      match rest, h with
      | [], h => cases h
      | c :: t, h =>
        simp only at h
        by_cases hb : isBase c = true
        · rw [if_pos hb] at h
          obtain ⟨g, e, hp, hl⟩ := ih (k + 1) t (by omega) h
          refine ⟨c :: g, by rw [e]; rfl, ?_, by simp only [List.length_cons]; omega⟩
          intro x hx
          rcases List.mem_cons.mp hx with rfl | hx
          · exact hb
          · exact hp x hx
        · rw [if_neg hb] at h; cases h
    · rw [if_neg hc] at h; cases h
      exact ⟨[], rfl, printable_nil, by simp only [List.length_nil]; omega⟩

theorem printable_append {a b : Bytes} (ha : printable a) (hb : printable b) : printable (a ++ b) := by
  intro c hc
  rcases List.mem_append.mp hc with h | h
  · exact ha c h
  · exact hb c h

theorem walkGroups_inv (oob : Err) (L i f j : Nat) (rest r : Bytes) (hj : j + 10 * f = 60)
    (h : walkGroups oob (L : Int) i f j rest = .ok r) :
    ∃ q, rest = fmtGroupsS f j q ++ r ∧ printable q ∧ q.length = min (L - (i + j)) (10 * f) := by
  induction f generalizing j rest with
  | zero =>
    simp only [walkGroups] at h; cases h
    exact ⟨[], by simp [fmtGroupsS], printable_nil, by simp⟩
  | succ f ih =>
    unfold walkGroups at h
    by_cases hc : j < 60 ∧ ((i + j : Nat) : Int) < (L : Int)
    · rw [if_pos hc] at h
      match rest, h with
      | [], h => cases h
      | c :: t, h =>
        simp only at h
        by_cases hs : (c != 32) = true
        · rw [if_pos hs] at h; cases h
        · rw [if_neg hs] at h
          have hc32 : c = 32 := by simpa using hs
          generalize hw : walkChars oob (L : Int) (i + j) 10 0 t = w at h
          match w, hw, h with
          | .error e, _, h => cases h
          | .ok t', hw, h =>
            simp only at h
            obtain ⟨g, e1, hp1, hl1⟩ := walkChars_inv oob L (i + j) 10 0 t t' (by omega) hw
            obtain ⟨q, e2, hp2, hl2⟩ := ih (j + 10) t' (by omega) h
            have hgpos : 0 < g.length := by omega
            have hgne : g ++ q ≠ [] := by
              intro he
              have := congrArg List.length he
              simp only [List.length_append, List.length_nil] at this; omega
            have hq : g.length = 10 ∨ q = [] := by
              by_cases h10 : g.length = 10
              · exact Or.inl h10
              · right; apply List.eq_nil_of_length_eq_zero; omega
            have htake : (g ++ q).take 10 = g := by
              rcases hq with h10 | hq
              · rw [← h10, List.take_left]
              · subst hq; rw [List.append_nil]; exact List.take_of_length_le (by omega)
            have hdrop : (g ++ q).drop 10 = q := by
              rcases hq with h10 | hq
              · rw [← h10, List.drop_left]
              · subst hq; rw [List.append_nil]; exact List.drop_of_length_le (by omega)
            refine ⟨g ++ q, ?_, printable_append hp1 hp2, ?_⟩
            · rw [fmtGroupsS, if_pos ⟨hc.1, hgne⟩, htake, hdrop, e1, e2, hc32]
              simp
            · simp only [List.length_append]; omega
    · rw [if_neg hc] at h; cases h
      exact ⟨[], by simp, printable_nil, by simp only [List.length_nil]; omega⟩

theorem walkLine_inv (oob : Err) (L i : Nat) (rest r : Bytes)
    (h : walkLine oob (L : Int) i rest = .ok r) :
    ∃ q, rest = index9 (i + 1) ++ (fmtGroupsS 6 0 q ++ r) ∧ printable q ∧ q.length = min (L - i) 60 := by
  unfold walkLine at h
  simp only at h
  by_cases hp : (index9 (i + 1)).isPrefixOf rest = true
  · rw [if_pos hp] at h
    obtain ⟨q, e, hq, hl⟩ := walkGroups_inv oob L i 6 0 _ r (by omega) h
    refine ⟨q, ?_, hq, by simpa using hl⟩
    rw [← e]; exact isPrefixOf_split hp
  · rw [if_neg hp] at h; cases h

/-- the groups of a line only depend on its first sixty residues -/
theorem fmtGroupsS_take (f j : Nat) (p : Bytes) : fmtGroupsS f j (p.take (10 * f)) = fmtGroupsS f j p := by
  induction f generalizing j p with
  | zero => simp [fmtGroupsS]
  | succ f ih =>
    by_cases hp : p = []
    · subst hp; simp
    · have hpos : 0 < p.length := List.length_pos_iff.mpr hp
      have htne : p.take (10 * (f + 1)) ≠ [] := by
        intro he
        have := congrArg List.length he
        simp only [List.length_take, List.length_nil] at this; omega
      unfold fmtGroupsS
      by_cases hj : j < 60
      · rw [if_pos ⟨hj, htne⟩, if_pos ⟨hj, hp⟩]
        have e1 : (p.take (10 * (f + 1))).take 10 = p.take 10 := by
          rw [List.take_take]; congr 1 <;> omega
        have e2 : (p.take (10 * (f + 1))).drop 10 = (p.drop 10).take (10 * f) := by
          rw [List.drop_take]; congr 1 <;> omega
        rw [e1, e2, ih]
      · rw [if_neg (fun h => hj h.1), if_neg (fun h => hj h.1)]

/-- a block accepted by `validateOrigin`'s loop is the block `NewOrigin` writes for the residues
found in it -/
theorem validateLines_inv (L f i : Nat) (rest : Bytes) (hf : L - i ≤ 60 * f)
    (h : validateLines (L : Int) f i rest = .ok ()) :
    ∃ p tail, rest = fmtLinesS f i p ++ tail ∧ printable p ∧ p.length = L - i := by
  induction f generalizing i rest with
  | zero =>
    exact ⟨[], rest, by simp [fmtLinesS], printable_nil, by simp only [List.length_nil]; omega⟩
  | succ f ih =>
    unfold validateLines at h
    by_cases hc : ((i : Nat) : Int) < (L : Int)
    · rw [if_pos hc] at h
      generalize hw : walkLine .panic (L : Int) i rest = w at h
      match w, hw, h with
      | .error e, _, h => cases h
      | .ok [], _, h => cases h
      | .ok (c :: r'), hw, h =>
        simp only at h
        by_cases hs : (c != 10) = true
        · rw [if_pos hs] at h; cases h
        · rw [if_neg hs] at h
          have hc10 : c = 10 := by simpa using hs
          obtain ⟨q, e1, hq, hl1⟩ := walkLine_inv .panic L i rest _ hw
          obtain ⟨p', tail, e2, hp', hl2⟩ := ih (i + 60) r' (by omega) h
          have hqpos : 0 < q.length := by omega
          have hne : q ++ p' ≠ [] := by
            intro he
            have := congrArg List.length he
            simp only [List.length_append, List.length_nil] at this; omega
          have hq60 : q.length = 60 ∨ p' = [] := by
            by_cases h60 : q.length = 60
            · exact Or.inl h60
            · right; apply List.eq_nil_of_length_eq_zero; omega
          have htake : (q ++ p').take (10 * 6) = q := by
            rcases hq60 with h60 | hp
            · rw [show 10 * 6 = q.length by omega, List.take_left]
            · subst hp; rw [List.append_nil]; exact List.take_of_length_le (by omega)
          have hdrop : (q ++ p').drop 60 = p' := by
            rcases hq60 with h60 | hp
            · rw [← h60, List.drop_left]
            · subst hp; rw [List.append_nil]; exact List.drop_of_length_le (by omega)
          refine ⟨q ++ p', tail, ?_, printable_append hq hp', by simp only [List.length_append]; omega⟩
          rw [fmtLinesS, if_pos hne, ← fmtGroupsS_take 6 0 (q ++ p'), htake, hdrop, e1, e2, hc10]
          simp
    · exact ⟨[], rest, by simp, printable_nil, by simp only [List.length_nil]; omega⟩

/-- `validateOrigin` accepts exactly written blocks: an accepted buffer of `toOriginLength(L)`
bytes is `NewOrigin(p)`'s stream for `L` printable residues `p` -/
theorem validateOrigin_inv_le (b : Bytes) (L : Nat) (hL : L ≤ 1000000020) (hb : b.length = tl L)
    (h : validateOrigin b (L : Int) = .ok ()) :
    ∃ p, b = originStream p ∧ printable p ∧ p.length = L := by
  unfold validateOrigin at h
  simp only [Int.toNat_natCast] at h
  obtain ⟨p, tail, e, hp, hl⟩ := validateLines_inv L L 0 b (by omega) h
  simp only [Nat.sub_zero] at hl
  have hlen := fmtLinesS_length L 0 p (by omega) (by omega)
  have ht : tail = [] := by
    apply List.eq_nil_of_length_eq_zero
    have := congrArg List.length e
    simp only [List.length_append] at this
    rw [hlen, hl] at this; omega
  subst ht
  refine ⟨p, ?_, hp, hl⟩
  rw [originStream_eq_S, originStreamS, hl, e, List.append_nil]

theorem validateOrigin_inv (b : Bytes) (L : Nat) (hL : L < 10 ^ 9) (hb : b.length = tl L)
    (h : validateOrigin b (L : Int) = .ok ()) :
    ∃ p, b = originStream p ∧ printable p ∧ p.length = L :=
  validateOrigin_inv_le b L (by omega) hb h

/-- … hence it decodes, without a panic, to exactly `L` residues (`L ≤ maxOriginResidues`) -/
theorem accepted_decodes_le (b : Bytes) (L : Nat) (hL : L ≤ 1000000020) (hb : b.length = tl L)
    (h : validateOrigin b (L : Int) = .ok ()) :
    ∃ p, originBytes b = .ok p ∧ p.length = L ∧ printable p ∧ b = originStream p := by
  obtain ⟨p, e, hp, hl⟩ := validateOrigin_inv_le b L hL hb h
  exact ⟨p, by rw [e]; exact originBytes_originStream_le p (by omega), hl, hp, e⟩

theorem accepted_decodes (b : Bytes) (L : Nat) (hL : L < 10 ^ 9) (hb : b.length = tl L)
    (h : validateOrigin b (L : Int) = .ok ()) :
    ∃ p, originBytes b = .ok p ∧ p.length = L ∧ printable p ∧ b = originStream p :=
  accepted_decodes_le b L (by omega) hb h

end Gts.Origin

/-! ### value invariants: what the record loop carries as the sequence is an accepted block -/

namespace Gts.Pars

/-- a post-condition about the returned value only -/
def Val {α} (φ : α → Prop) : Except Err α → PS → Prop := fun r _ => ∀ a, r = .ok a → φ a

theorem val_bind {α β} {p : P α} {f : α → P β} {φ : α → Prop} {ψ : β → Prop} {s : PS}
    (hp : WP p (Val φ) s) (hf : ∀ a s', φ a → WP (f a) (Val ψ) s') : WP (p >>= f) (Val ψ) s := by
  rw [wp_bind]
  unfold WP at hp ⊢
  generalize p.run' s = x at hp ⊢
  rcases x with ⟨r, s'⟩
  rcases r with e | a
  · intro b hb; cases hb
  · exact hf a s' (hp a rfl)

theorem val_any {α} {p : P α} {s : PS} : WP p (Val fun _ => True) s := fun _ _ => trivial

theorem val_attempt {α} {p : P α} {φ : α → Prop} {s : PS} (hp : WP p (Val φ) s) :
    WP (attempt p) (Val fun o => ∀ a, o = some a → φ a) s := by
  unfold WP at hp ⊢
  rw [run_attempt]
  generalize p.run' s = x at hp ⊢
  rcases x with ⟨r, s'⟩
  rcases r with e | a
  · cases e
    · intro o ho; cases ho; intro a ha; cases ha
    · intro o ho; cases ho
  · intro o ho; cases ho; intro a' ha; cases ha; exact hp a rfl

theorem val_pure {α} {φ : α → Prop} {a : α} {s : PS} (h : φ a) : WP (pure a : P α) (Val φ) s := by
  intro b hb; cases hb; exact h

theorem val_fail {α} {φ : α → Prop} {s : PS} : WP (fail : P α) (Val φ) s := by
  intro b hb; cases hb

end Gts.Pars

namespace Gts.GenBank
open Gts.Pars

theorem wp_panic {α} (Q) (s : PS) : WP (Pars.panic : P α) Q s ↔ Q (.error .panic) s := Iff.rfl

/-- what the ORIGIN reader returns is a block `validateOrigin` accepts, of exactly
`toOriginLength(length)` bytes, and the declared length passed the guard `≤ maxOriginResidues` -/
theorem originField_accepted (n : Nat) (d : Nat) (s : PS) :
    WP (originField (n : Int) d) (fun r _ => ∀ b, r = .ok b →
      n ≤ 1000000020 ∧ Origin.validateOrigin b (n : Int) = .ok () ∧ b.length = Origin.tl n) s := by
  unfold originField
  rw [wp_bind]; apply wp_all; intro r s1; cases r <;> dsimp only
  · intro b hb; cases hb
  rw [wp_bind]; apply wp_all; intro r s2; cases r <;> dsimp only
  · intro b hb; cases hb
  rw [wp_bind]; apply wp_all; intro r s3; cases r <;> dsimp only
  · intro b hb; cases hb
  split
  · rw [wp_bind, wp_fail]; intro b hb; cases hb
  rename_i hguard
  have hn : n ≤ 1000000020 := by omega
  have hneg : ¬ Origin.toOriginLength (n : Int) < 0 := by
    rw [Origin.toOriginLength_nat]; omega
  rw [if_neg hneg, wp_bind]; apply wp_getS
  dsimp only
  rw [Origin.toNat_tl]
  split
  · rw [wp_bind, wp_fail]; intro b hb; cases hb
  · rename_i hlen
    split
    · rename_i hv
      rw [wp_bind]; apply wp_all; intro r s4; cases r <;> dsimp only
      · intro b hb; cases hb
      rw [wp_bind, wp_pure]; dsimp only
      rw [wp_bind]; apply wp_all; intro r s5; cases r <;> dsimp only
      · intro b hb; cases hb
      split
      · rw [wp_fail]; intro b hb; cases hb
      · rw [wp_pure]; intro b hb; cases hb
        exact ⟨hn, hv, by simp only [List.length_take]; omega⟩
    · rw [wp_bind, wp_panic]; intro b hb; cases hb
    · simp only [Int.toNat_natCast, slowLines_eq]
      split
      · rw [wp_bind, wp_panic]; intro b hb; cases hb
      · rw [wp_bind, wp_fail]; intro b hb; cases hb
      · rename_i acc st' hp
        have hso : Origin.slowOrigin s3.rest (n : Int) =
            .ok (acc ++ List.replicate (Origin.tl n - acc.length) 0, st') := by
          unfold Origin.slowOrigin
          simp only [Origin.toOriginLength_nat, Int.toNat_natCast]
          rw [if_neg (by omega), hp]
        obtain ⟨hl, hv⟩ := Origin.slow_token_valid_le s3.rest n _ _ hn hso
        rw [wp_bind]; apply wp_all; intro r s4; cases r <;> dsimp only
        · intro b hb; cases hb
        rw [wp_bind, wp_pure]; dsimp only
        rw [wp_bind]; apply wp_all; intro r s5; cases r <;> dsimp only
        · intro b hb; cases hb
        split
        · rw [wp_fail]; intro b hb; cases hb
        · rw [wp_pure]; intro b hb; cases hb
          have := hv []
          rw [List.append_nil] at this
          exact ⟨hn, this, hl⟩

/-- the sequence part of a record under construction: nothing yet, or a block the ORIGIN reader
accepted for the declared length -/
def GoodOrigin (n : Nat) (o : OriginV) : Prop :=
  o = .buffer [] ∨ ∃ b, o = .buffer b ∧ n ≤ 1000000020 ∧
    Origin.validateOrigin b (n : Int) = .ok () ∧ b.length = Origin.tl n

def GoodSub (n : Nat) (sub : Sub) : Prop := GoodOrigin n sub.2.2.1

/-- skip a step whose value is not needed -/
macro "val_skip" : tactic => `(tactic| (refine val_bind val_any ?_; intro _ _ _))

theorem liftF_good (n : Nat) (p : Fields → P (Fields × Bool)) (sub : Sub) (h : GoodSub n sub) (s : PS) :
    WP (liftF p sub) (Val fun v => GoodSub n v.1) s := by
  obtain ⟨f, t, o, r⟩ := sub
  unfold liftF
  dsimp only
  val_skip
  exact val_pure h

theorem featuresSub_good (n : Nat) (sub : Sub) (h : GoodSub n sub) (s : PS) :
    WP (featuresSub sub) (Val fun v => GoodSub n v.1) s := by
  obtain ⟨f, t, o, r⟩ := sub
  unfold featuresSub
  dsimp only
  val_skip
  exact val_pure h

theorem originSub_good (n d : Nat) (sub : Sub) (s : PS) :
    WP (originSub (n : Int) d sub) (Val fun v => GoodSub n v.1) s := by
  obtain ⟨f, t, o, r⟩ := sub
  unfold originSub
  dsimp only
  refine val_bind (originField_accepted n d s) ?_
  intro b s' hb
  exact val_pure (Or.inr ⟨b, rfl, hb.1, hb.2.1, hb.2.2⟩)

theorem fieldParsers_good (n d : Nat) :
    ∀ p ∈ fieldParsers (n : Int) d, ∀ sub, GoodSub n sub → ∀ s,
      WP (p sub) (Val fun v => GoodSub n v.1) s := by
  intro p hp
  simp only [fieldParsers, List.mem_cons, List.not_mem_nil, or_false] at hp
  rcases hp with rfl | rfl | rfl | rfl | rfl | rfl | rfl | rfl | rfl | rfl | rfl
  all_goals first
    | exact liftF_good n _
    | exact featuresSub_good n
    | exact fun sub _ s => originSub_good n d sub s

theorem tryList_good (n : Nat) : ∀ (ps : List (Sub → P (Sub × Bool))),
    (∀ p ∈ ps, ∀ sub, GoodSub n sub → ∀ s, WP (p sub) (Val fun v => GoodSub n v.1) s) →
    ∀ sub, GoodSub n sub → ∀ s, WP (tryList ps sub) (Val fun v => GoodSub n v.1) s
  | [], _, sub, h, s => by unfold tryList; exact val_pure h
  | p :: rest, hps, sub, h, s => by
    have hp := hps p (List.mem_cons_self ..)
    have ih := tryList_good n rest (fun q hq => hps q (List.mem_cons_of_mem _ hq))
    unfold tryList
    val_skip
    refine val_bind (val_attempt (hp sub h _)) ?_
    intro o s' ho
    split
    · rename_i sub' _
      have := ho _ rfl
      val_skip
      exact val_pure this
    · rename_i sub'
      have := ho _ rfl
      refine val_bind val_any ?_; intro b _ _
      split
      · refine val_bind (φ := fun _ => False) val_fail ?_; intro _ _ hf; exact hf.elim
      · val_skip
        exact ih sub' this _
    · refine val_bind val_any ?_; intro b _ _
      split
      · refine val_bind (φ := fun _ => False) val_fail ?_; intro _ _ hf; exact hf.elim
      · val_skip
        exact ih sub h _

/-- the record carried by a step of `tryAllParsers` -/
def Step.sub : Step → Sub
  | .parsed s => s
  | .skip s => s

theorem tryAll_good (n d : Nat) (sub : Sub) (h : GoodSub n sub) (s : PS) :
    WP (tryAll (n : Int) d sub) (Val fun st => GoodSub n st.sub) s := by
  unfold tryAll
  refine val_bind (tryList_good n _ (fieldParsers_good n d) sub h s) ?_
  intro v s' hv
  obtain ⟨⟨f, t, o, r⟩, b⟩ := v
  cases b with
  | true => exact val_pure hv
  | false =>
    dsimp only
    val_skip
    val_skip
    split
    · val_skip
      exact val_pure hv
    · val_skip
      exact val_pure hv

theorem recordLoop_good (n d : Nat) : ∀ k (sub : Sub), GoodSub n sub → ∀ s,
    WP (recordLoop (n : Int) d k sub) (Val fun v => GoodSub n v) s
  | 0, _, _, _ => by unfold recordLoop; exact val_fail
  | k + 1, sub, h, s => by
    have ih := recordLoop_good n d k
    unfold recordLoop
    val_skip
    split
    · exact val_pure h
    · refine val_bind (tryAll_good n d sub h _) ?_
      intro st s' hst
      cases st with
      | parsed sub' => exact ih sub' hst _
      | skip sub' =>
        dsimp only
        val_skip
        refine val_bind val_any ?_; intro st2 _ _
        split
        · refine val_bind (φ := fun _ => False) val_fail ?_; intro _ _ hf; exact hf.elim
        · exact ih sub' hst _

theorem recordLoop_good_run (n d : Nat) (k : Nat) (sub : Sub) (h : GoodSub n sub)
    (s : PS) (v : Sub) (s' : PS) (hr : (recordLoop (n : Int) d k sub).run' s = (.ok v, s')) :
    GoodSub n v := by
  have := recordLoop_good n d k sub h s
  unfold WP Val at this
  rw [hr] at this
  exact this v rfl

/-- a good sequence part decodes without a panic to as many residues as `Len()` reports -/
theorem GoodOrigin.decodes {n : Nat} {o : OriginV} (h : GoodOrigin n o) :
    ∃ p, o.bytes = .ok p ∧ (p.length : Int) = o.len ∧ Origin.printable p := by
  rcases h with rfl | ⟨b, rfl, hn, hv, hl⟩
  · exact ⟨[], rfl, rfl, Origin.printable_nil⟩
  · obtain ⟨p, hd, hpl, hpp, hb⟩ := Origin.accepted_decodes_le b n hn hl hv
    refine ⟨p, hd, ?_, hpp⟩
    show (p.length : Int) = Origin.originLen b
    unfold Origin.originLen
    rw [hl, hpl]
    split
    · rename_i h0
      have : n = 0 := (Origin.tl_zero_iff n).mp (by omega)
      omega
    · rw [Origin.fromOriginLength_tl]

/-- every record `GenBankParser` returns has a sequence that decodes (`Origin.Bytes()`) without a
panic, to exactly `Origin.Len()` printable residues -/
theorem genbankParser_decodes (reg : Registry) (s : PS) (r : Record) (reg' : Registry) (s' : PS)
    (h : (genbankParser reg).run' s = (.ok (r, reg'), s')) :
    ∃ l s1, locusParser.run' s = (.ok l, s1) ∧
      ∃ p, r.origin.bytes = .ok p ∧ (p.length : Int) = r.origin.len ∧ Origin.printable p := by
  unfold genbankParser at h
  rw [run_bind] at h
  rcases hl : locusParser.run' s with ⟨r1, s1⟩
  rw [hl] at h
  rcases r1 with e | l
  · cases h
  · refine ⟨l, s1, rfl, ?_⟩
    dsimp only at h
    rw [run_bind, run_clear] at h
    dsimp only at h
    split at h
    · rw [run_bind, run_fail] at h; cases h
    · rename_i hc
      have h0 : 0 ≤ l.length := by omega
      obtain ⟨n, hn⟩ := Int.eq_ofNat_of_zero_le h0
      split at h
      · rw [run_bind, run_fail] at h; cases h
      · split at h
        · rw [run_fail] at h; cases h
        · rw [run_bind, run_getS] at h
          dsimp only at h
          rw [run_bind] at h
          rw [hn] at h
          generalize hrr : (recordLoop _ _ _ _).run' _ = rr at h
          rcases rr with ⟨r2, s2⟩
          rcases r2 with e | ⟨f, tab, org, rg⟩
          · cases h
          · dsimp only at h
            have hgo : GoodOrigin n org :=
              recordLoop_good_run n l.depth _ _ (Or.inl rfl) _ _ _ hrr
            split at h
            · rw [run_bind, run_fail] at h; cases h
            · rw [run_pure] at h
              cases h
              exact hgo.decodes

end Gts.GenBank
