/-
  Helper lemmas for C16 (ORIGIN block layout): closed-form size arithmetic, length of the written
  stream, decoding and validating a written block, the relation between the fast and the slow
  reader path, CRLF line ends.  Core Lean only.
-/
import Gts.Model.Origin
namespace Gts.Origin
open Gts.Pars (Bytes Err P)

/-- closed form on `Nat` -/
def tl (n : Nat) : Nat :=
  76 * (n / 60) + (if n % 60 = 0 then 0 else 10 + 11 * (n % 60 / 10) + (if n % 10 = 0 then 0 else n % 10 + 1))

theorem toOriginLength_nat (n : Nat) : toOriginLength (n : Int) = (tl n : Int) := by
  have h0 : (0 : Int) ≤ n := by omega
  have h1 : (0 : Int) ≤ (n : Int) % 60 := by omega
  unfold toOriginLength tl
  simp only [Int.tdiv_eq_ediv_of_nonneg h0, Int.tmod_eq_emod_of_nonneg h0,
    Int.tdiv_eq_ediv_of_nonneg h1, Int.tmod_eq_emod_of_nonneg h1]
  split <;> split <;> (try split) <;> (try split) <;> omega

/-- size of the last, partial line -/
def lastLen (n : Nat) : Nat :=
  if n % 60 = 0 then 0 else 10 + 11 * (n % 60 / 10) + (if n % 10 = 0 then 0 else n % 10 + 1)

theorem tl_eq (n : Nat) : tl n = 76 * (n / 60) + lastLen n := rfl

theorem lastLen_lt (n : Nat) : lastLen n < 76 := by
  unfold lastLen; split <;> (try split) <;> omega

theorem tl_div (n : Nat) : tl n / 76 = n / 60 := by
  rw [tl_eq, Nat.mul_add_div (by omega), Nat.div_eq_of_lt (lastLen_lt n)]; omega

theorem tl_mod (n : Nat) : tl n % 76 = lastLen n := by
  rw [tl_eq, Nat.mul_add_mod, Nat.mod_eq_of_lt (lastLen_lt n)]

/-- `fromOriginLength` on the size of a block -/
theorem fromOriginLength_tl (n : Nat) : fromOriginLength (tl n : Int) = n := by
  have h0 : (0 : Int) ≤ (tl n : Int) := by omega
  have hd := tl_div n
  have hm := tl_mod n
  unfold fromOriginLength
  simp only [Int.tdiv_eq_ediv_of_nonneg h0, Int.tmod_eq_emod_of_nonneg h0]
  by_cases h60 : n % 60 = 0
  · have : lastLen n = 0 := by unfold lastLen; rw [if_pos h60]
    split <;> omega
  · have hl : lastLen n = 10 + 11 * (n % 60 / 10) + (if n % 10 = 0 then 0 else n % 10 + 1) := by
      unfold lastLen; rw [if_neg h60]
    have hge : (0 : Int) ≤ (tl n : Int) % 76 - 11 := by
      split at hl <;> omega
    simp only [Int.tdiv_eq_ediv_of_nonneg hge, Int.tmod_eq_emod_of_nonneg hge]
    split at hl <;> split <;> omega

theorem tl_zero_iff (n : Nat) : tl n < 12 ↔ n = 0 := by
  unfold tl; split <;> (try split) <;> omega

theorem digitsAux_length_le (f n k : Nat) (hk : 1 ≤ k) (h : n < 10 ^ k) : (digitsAux f n).length ≤ k := by
  induction f generalizing n k with
  | zero => simp [digitsAux]
  | succ f ih =>
    unfold digitsAux
    split
    · simpa using hk
    · rename_i h10
      have hk2 : 2 ≤ k := by
        rcases Nat.lt_or_ge k 2 with hk' | hk'
        · have : k = 1 := by omega
          subst this; omega
        · exact hk'
      have : n / 10 < 10 ^ (k - 1) := by
        have e : 10 ^ k = 10 ^ (k - 1) * 10 := by rw [← Nat.pow_succ]; congr 1; omega
        rw [e] at h
        exact Nat.div_lt_of_lt_mul (by rw [Nat.mul_comm]; exact h)
      have := ih (n / 10) (k - 1) (by omega) this
      simp only [List.length_append, List.length_cons, List.length_nil]
      omega

theorem index9_length (n : Nat) (h : n < 10 ^ 9) : (index9 n).length = 9 := by
  have := digitsAux_length_le (n + 1) n 9 (by omega) h
  simp only [index9, decimal, List.length_append, List.length_replicate]
  omega

/-- bytes of one line's groups for `m` residues: the residues and one space per started group -/
def gl (m : Nat) : Nat := m + (m + 9) / 10

@[simp] theorem fmtGroupsS_nil (f j : Nat) : fmtGroupsS f j [] = [] := by
  cases f <;> simp [fmtGroupsS]

@[simp] theorem fmtLinesS_nil (f i : Nat) : fmtLinesS f i [] = [] := by
  cases f <;> simp [fmtLinesS]

theorem fmtGroupsS_length (f j : Nat) (q : Bytes) (hj : j + 10 * f = 60) :
    (fmtGroupsS f j q).length = gl (min q.length (10 * f)) := by
  induction f generalizing j q with
  | zero => simp [fmtGroupsS, gl]
  | succ f ih =>
    unfold fmtGroupsS
    by_cases hq : q = []
    · subst hq; simp [gl]
    · have hpos : 0 < q.length := List.length_pos_iff.mpr hq
      rw [if_pos ⟨by omega, hq⟩]
      simp only [List.length_cons, List.length_append, List.length_take, ih (j + 10) (q.drop 10) (by omega),
        List.length_drop, gl]
      omega

theorem tl_step (n : Nat) (h : 0 < n) : 9 + gl (min n 60) + 1 + tl (n - 60) = tl n := by
  unfold tl gl
  by_cases h60 : 60 ≤ n
  · have e1 : n / 60 = (n - 60) / 60 + 1 := by omega
    have e2 : (n - 60) % 60 = n % 60 := by omega
    have e3 : (n - 60) % 10 = n % 10 := by omega
    rw [e1, e2, e3, Nat.min_eq_right h60]
    split <;> (try split) <;> omega
  · have e0 : n - 60 = 0 := by omega
    have e1 : n / 60 = 0 := by omega
    have e2 : n % 60 = n := by omega
    rw [e0, e1, e2, Nat.min_eq_left (by omega)]
    simp only [Nat.zero_div, Nat.zero_mod, if_true]
    split <;> (try split) <;> omega

theorem fmtLinesS_length (f i : Nat) (q : Bytes) (hf : q.length ≤ 60 * f)
    (hi : q.length = 0 ∨ i + q.length < 10 ^ 9 ∨ (i % 60 = 0 ∧ i + q.length ≤ 1000000020)) :
    (fmtLinesS f i q).length = tl q.length := by
  induction f generalizing i q with
  | zero =>
    have : q = [] := List.eq_nil_of_length_eq_zero (by omega)
    subst this; simp [fmtLinesS, tl]
  | succ f ih =>
    unfold fmtLinesS
    by_cases hq : q = []
    · subst hq; simp [tl]
    · have hpos : 0 < q.length := List.length_pos_iff.mpr hq
      rw [if_pos hq]
      simp only [List.length_append, List.length_cons, index9_length (i + 1) (by omega),
        fmtGroupsS_length 6 0 q (by omega),
        ih (i + 60) (q.drop 60) (by simp only [List.length_drop]; omega) (by simp only [List.length_drop]; omega),
        List.length_drop, Nat.reduceMul]
      have := tl_step q.length hpos
      omega

/-- 1000000020 = 60 · 16666667 residues is the most the nine column index can number: the last
line then starts at residue 999999961.  (`maxOriginResidues` of genbank_subparsers.go.) -/
theorem originStream_length_le (p : Bytes) (h : p.length ≤ 1000000020) :
    (originStream p).length = tl p.length := by
  rw [originStream_eq_S]
  exact fmtLinesS_length p.length 0 p (by omega) (by omega)

theorem originStream_length (p : Bytes) (h : p.length < 10 ^ 9) : (originStream p).length = tl p.length :=
  originStream_length_le p (by omega)

theorem newOrigin_ok_le (p : Bytes) (h : p.length ≤ 1000000020) : newOrigin p = .ok (originStream p) := by
  unfold newOrigin
  simp only [originStream_length_le p h, toOriginLength_nat, if_true]

theorem newOrigin_ok (p : Bytes) (h : p.length < 10 ^ 9) : newOrigin p = .ok (originStream p) :=
  newOrigin_ok_le p (by omega)

/-! ### decoding a formatted block -/

/-- inner loop of `Bytes` on the groups of one formatted line, followed by `'\n' :: t`;
`t = []` whenever this is the last line. -/
theorem bytesGroupsS_fmt (plen L i : Nat) (f j : Nat) (r t : Bytes) (start : Nat)
    (hj : j + 10 * f = 60) (hr : r.length = L - (i + j))
    (ht : r.length ≤ 10 * f → t = [])
    (hp : start + (fmtGroupsS f j r ++ 10 :: t).length = plen) :
    bytesGroupsS plen (L : Int) i f j start (fmtGroupsS f j r ++ 10 :: t)
      = .ok (plen - (t.length + 1), 10 :: t, r.take (10 * f)) := by
  induction f generalizing j r start with
  | zero =>
    simp only [bytesGroupsS, fmtGroupsS, List.nil_append, Nat.mul_zero, List.take_zero]
    simp only [fmtGroupsS, List.nil_append, List.length_cons] at hp
    congr 2; omega
  | succ f ih =>
    unfold bytesGroupsS
    by_cases hq : r = []
    · subst hq
      have hc : ¬ (j < 60 ∧ ((i + j : Nat) : Int) < (L : Int)) := by
        simp only [List.length_nil] at hr; omega
      rw [if_neg hc]
      simp only [fmtGroupsS_nil, List.nil_append, List.length_cons] at hp ⊢
      simp only [List.take_nil]
      congr 2; omega
    · have hpos : 0 < r.length := List.length_pos_iff.mpr hq
      have hc : j < 60 ∧ ((i + j : Nat) : Int) < (L : Int) := by omega
      rw [if_pos hc]
      have hfmt : fmtGroupsS (f + 1) j r = 32 :: (r.take 10 ++ fmtGroupsS f (j + 10) (r.drop 10)) := by
        rw [fmtGroupsS, if_pos ⟨by omega, hq⟩]
      rw [hfmt] at hp ⊢
      simp only [List.cons_append, List.append_assoc] at hp ⊢
      -- the rest behind this group
      generalize hrest : fmtGroupsS f (j + 10) (r.drop 10) ++ 10 :: t = rest at hp ⊢
      simp only [List.drop_succ_cons, List.drop_zero]
      simp only [List.length_cons, List.length_append, List.length_take] at hp
      have hrest1 : 1 ≤ rest.length := by
        rw [← hrest]; simp only [List.length_append, List.length_cons]; omega
      have hshort : r.length < 10 → rest = [10] := by
        intro h
        have h1 : r.drop 10 = [] := List.drop_eq_nil_iff.mpr (by omega)
        have h2 : t = [] := ht (by omega)
        rw [← hrest, h1, h2]; simp
      have hstop : min (start + 1 + 10) (plen - 1) = start + 1 + min 10 r.length := by
        rcases Nat.lt_or_ge r.length 10 with h | h
        · have := hshort h; rw [this] at hp; simp only [List.length_cons, List.length_nil] at hp; omega
        · omega
      simp only [hstop]
      rw [if_neg (by omega)]
      have e1 : start + 1 + min 10 r.length - (start + 1) = min 10 r.length := by omega
      rw [e1]
      have e2 : (r.take 10 ++ rest).drop (min 10 r.length) = rest := by
        rw [List.drop_append_of_le_length (by simp only [List.length_take]; omega)]
        rw [List.drop_eq_nil_iff.mpr (by simp only [List.length_take]; omega)]; rfl
      have e3 : (r.take 10 ++ rest).take (min 10 r.length) = r.take 10 := by
        rw [List.take_append_of_le_length (by simp only [List.length_take]; omega)]
        exact List.take_of_length_le (by simp only [List.length_take]; omega)
      rw [e2, e3, ← hrest]
      rw [ih (j + 10) (r.drop 10) (start + 1 + min 10 r.length) (by omega)
        (by simp only [List.length_drop]; omega)
        (by intro h; apply ht; simp only [List.length_drop] at h; omega)
        (by rw [hrest]; omega)]
      simp only [Except.ok.injEq, Prod.mk.injEq, true_and]
      rw [show 10 * (f + 1) = 10 + 10 * f by omega, List.take_add]

theorem bytesLinesS_fmt (plen L : Nat) (f f' i : Nat) (r : Bytes) (start : Nat)
    (hr : r.length = L - i) (hf : r.length ≤ 60 * f) (hf' : r.length ≤ 60 * f')
    (hi : r.length = 0 ∨ i + r.length < 10 ^ 9 ∨ (i % 60 = 0 ∧ i + r.length ≤ 1000000020))
    (hp : start + (fmtLinesS f' i r).length = plen) :
    bytesLinesS plen (L : Int) f i start (fmtLinesS f' i r) = .ok r := by
  induction f generalizing f' i r start with
  | zero =>
    have : r = [] := List.eq_nil_of_length_eq_zero (by omega)
    subst this; simp [bytesLinesS]
  | succ f ih =>
    unfold bytesLinesS
    by_cases hq : r = []
    · subst hq
      simp only [List.length_nil] at hr
      rw [if_neg (by omega)]
    · have hpos : 0 < r.length := List.length_pos_iff.mpr hq
      rw [if_pos (by omega)]
      cases f' with
      | zero => omega
      | succ f' =>
        have hfmt : fmtLinesS (f' + 1) i r =
            index9 (i + 1) ++ (fmtGroupsS 6 0 r ++ 10 :: fmtLinesS f' (i + 60) (r.drop 60)) := by
          rw [fmtLinesS, if_pos hq]
        rw [hfmt] at hp ⊢
        have h9 := index9_length (i + 1) (by omega)
        rw [List.drop_append_of_le_length (by omega), List.drop_eq_nil_iff.mpr (by omega), List.nil_append]
        simp only [List.length_append, h9] at hp
        rw [bytesGroupsS_fmt plen L i 6 0 r _ (start + 9) (by omega) (by omega)
          (by intro h; rw [List.drop_eq_nil_iff.mpr (by omega)]; simp)
          (by simp only [List.length_append]; omega)]
        simp only [List.drop_succ_cons, List.drop_zero]
        rw [ih f' (i + 60) (r.drop 60) _ (by simp only [List.length_drop]; omega)
          (by simp only [List.length_drop]; omega) (by simp only [List.length_drop]; omega)
          (by simp only [List.length_drop]; omega)
          (by simp only [List.length_cons] at hp; omega)]
        simp only [Nat.reduceMul, List.take_append_drop]

/-- decoding the written stream gives back the residues -/
theorem originBytes_originStream_le (p : Bytes) (h : p.length ≤ 1000000020) :
    originBytes (originStream p) = .ok p := by
  have hlen := originStream_length_le p h
  unfold originBytes
  by_cases h0 : p = []
  · subst h0; rfl
  · have hpos : 0 < p.length := List.length_pos_iff.mpr h0
    have h12 : ¬ (originStream p).length < 12 := by
      rw [hlen, tl_zero_iff]; omega
    rw [if_neg h12]
    simp only [hlen, fromOriginLength_tl]
    rw [if_neg (by omega), bytesDecode_eq_S]
    simp only [bytesDecodeS, Int.toNat_natCast, hlen]
    rw [originStream_eq_S, originStreamS,
      bytesLinesS_fmt (tl p.length) p.length p.length p.length 0 p 0 (by omega) (by omega) (by omega)
        (by omega) (by rw [← originStreamS, ← originStream_eq_S, hlen]; omega)]
    simp

theorem originBytes_originStream (p : Bytes) (h : p.length < 10 ^ 9) :
    originBytes (originStream p) = .ok p := originBytes_originStream_le p (by omega)

/-! ### the fast path on a formatted block -/

def printable (p : Bytes) : Prop := ∀ c ∈ p, isBase c = true

theorem walkChars_ok (oob : Err) (L ij : Nat) (f k : Nat) (g rest : Bytes) (hk : k + f = 10)
    (hg : g.length = min f (L - (ij + k))) (hb : printable g) :
    walkChars oob (L : Int) ij f k (g ++ rest) = .ok rest := by
  induction f generalizing k g with
  | zero =>
    have : g = [] := List.eq_nil_of_length_eq_zero (by omega)
    subst this; rfl
  | succ f ih =>
    unfold walkChars
    by_cases hc : k < 10 ∧ ((ij + k : Nat) : Int) < (L : Int)
    · rw [if_pos hc]
      match g, hg, hb with
      | [], hg, _ => simp only [List.length_nil] at hg; omega
      | c :: g', hg, hb =>
        simp only [List.cons_append]
        rw [if_pos (hb c (by simp))]
        exact ih (k + 1) g' (by omega) (by simp only [List.length_cons] at hg; omega)
          (fun x hx => hb x (by simp [hx]))
    · rw [if_neg hc]
      have : g = [] := List.eq_nil_of_length_eq_zero (by omega)
      subst this; rfl

theorem walkGroups_fmt (oob : Err) (L i : Nat) (f j : Nat) (r rest : Bytes) (hj : j + 10 * f = 60)
    (hr : r.length = L - (i + j)) (hb : printable r) :
    walkGroups oob (L : Int) i f j (fmtGroupsS f j r ++ rest) = .ok rest := by
  induction f generalizing j r with
  | zero => rfl
  | succ f ih =>
    unfold walkGroups
    by_cases hq : r = []
    · subst hq
      simp only [List.length_nil] at hr
      rw [if_neg (by omega)]; simp
    · have hpos : 0 < r.length := List.length_pos_iff.mpr hq
      rw [if_pos (by omega), fmtGroupsS, if_pos ⟨by omega, hq⟩]
      simp only [List.cons_append, List.append_assoc, bne_self_eq_false, Bool.false_eq_true, if_false]
      rw [walkChars_ok oob L (i + j) 10 0 (r.take 10) _ (by omega) (by simp only [List.length_take]; omega)
        (fun x hx => hb x (List.mem_of_mem_take hx))]
      exact ih (j + 10) (r.drop 10) (by omega) (by simp only [List.length_drop]; omega)
        (fun x hx => hb x (List.mem_of_mem_drop hx))

theorem isPrefixOf_append (a b : Bytes) : a.isPrefixOf (a ++ b) = true := by
  induction a with
  | nil => simp [List.isPrefixOf]
  | cons x a ih => simp [ih]

theorem walkLine_fmt (oob : Err) (L i : Nat) (r rest : Bytes) (hr : r.length = L - i) (hb : printable r) :
    walkLine oob (L : Int) i (index9 (i + 1) ++ (fmtGroupsS 6 0 r ++ rest)) = .ok rest := by
  unfold walkLine
  simp only [isPrefixOf_append, if_true, List.drop_left]
  exact walkGroups_fmt oob L i 6 0 r rest (by omega) (by omega) hb

theorem validateLines_fmt (L : Nat) (f f' i : Nat) (r : Bytes) (hr : r.length = L - i)
    (hf : r.length ≤ 60 * f) (hf' : r.length ≤ 60 * f') (hb : printable r) :
    validateLines (L : Int) f i (fmtLinesS f' i r) = .ok () := by
  induction f generalizing f' i r with
  | zero => rfl
  | succ f ih =>
    unfold validateLines
    by_cases hq : r = []
    · subst hq
      simp only [List.length_nil] at hr
      rw [if_neg (by omega)]
    · have hpos : 0 < r.length := List.length_pos_iff.mpr hq
      rw [if_pos (by omega)]
      cases f' with
      | zero => omega
      | succ f' =>
        rw [fmtLinesS, if_pos hq, walkLine_fmt .panic L i r _ hr hb]
        simp only [bne_self_eq_false, Bool.false_eq_true, if_false]
        exact ih f' (i + 60) (r.drop 60) (by simp only [List.length_drop]; omega)
          (by simp only [List.length_drop]; omega) (by simp only [List.length_drop]; omega)
          (fun x hx => hb x (List.mem_of_mem_drop hx))

theorem validateOrigin_originStream (p : Bytes) (hb : printable p) :
    validateOrigin (originStream p) p.length = .ok () := by
  rw [originStream_eq_S]
  simp only [validateOrigin, originStreamS, Int.toNat_natCast]
  exact validateLines_fmt p.length p.length p.length 0 p (by omega) (by omega) (by omega) hb


/-- no line-end byte -/
def noEOL (l : Bytes) : Prop := ∀ c ∈ l, c ≠ 10 ∧ c ≠ 13

theorem noEOL_nil : noEOL [] := fun _ h => by simp at h
theorem noEOL_append {a b : Bytes} (ha : noEOL a) (hb : noEOL b) : noEOL (a ++ b) := by
  intro c hc; rcases List.mem_append.mp hc with h | h
  · exact ha c h
  · exact hb c h
theorem noEOL_cons {c : UInt8} {a : Bytes} (hc : c ≠ 10 ∧ c ≠ 13) (ha : noEOL a) : noEOL (c :: a) := by
  intro x hx; rcases List.mem_cons.mp hx with h | h
  · exact h ▸ hc
  · exact ha x h

theorem isBase_noEOL {c : UInt8} (h : isBase c = true) : c ≠ 10 ∧ c ≠ 13 := by
  constructor <;> (intro e; subst e; revert h; decide)

theorem digit_noEOL : ∀ d, d < 10 → UInt8.ofNat (48 + d) ≠ 10 ∧ UInt8.ofNat (48 + d) ≠ 13 := by decide

theorem digitsAux_noEOL (f n : Nat) : noEOL (digitsAux f n) := by
  induction f generalizing n with
  | zero => exact noEOL_nil
  | succ f ih =>
    unfold digitsAux
    split
    · rename_i h; exact noEOL_cons (digit_noEOL n h) noEOL_nil
    · exact noEOL_append (ih _) (noEOL_cons (digit_noEOL _ (Nat.mod_lt _ (by omega))) noEOL_nil)

theorem index9_noEOL (n : Nat) : noEOL (index9 n) := by
  unfold index9
  apply noEOL_append
  · intro c hc; rw [List.mem_replicate] at hc; rw [hc.2]; decide
  · exact digitsAux_noEOL _ _

theorem walkChars_split (oob : Err) (L ij f k : Nat) (rest r : Bytes) (hk : k + f = 10)
    (h : walkChars oob (L : Int) ij f k rest = .ok r) :
    ∃ g, rest = g ++ r ∧ noEOL g ∧ g.length = min f (L - (ij + k)) ∧
      ∀ oob' r', walkChars oob' (L : Int) ij f k (g ++ r') = .ok r' := by
  induction f generalizing k rest with
  | zero =>
    simp only [walkChars] at h; cases h
    exact ⟨[], rfl, noEOL_nil, by simp, fun _ _ => rfl⟩
  | succ f ih =>
    unfold walkChars at h
    by_cases hc : k < 10 ∧ ((ij + k : Nat) : Int) < (L : Int)
    · rw [if_pos hc] at h
      match rest, h with
      | [], h => cases h
      | c :: t, h =>
        simp only at h
        by_cases hb : isBase c = true
        · rw [if_pos hb] at h
          obtain ⟨g, e, hn, hl, hloc⟩ := ih (k + 1) t (by omega) h
          refine ⟨c :: g, by rw [e]; rfl, noEOL_cons (isBase_noEOL hb) hn,
            by simp only [List.length_cons]; omega, fun oob' r' => ?_⟩
          unfold walkChars
          rw [if_pos hc]
          simp only [List.cons_append]
          rw [if_pos hb]; exact hloc oob' r'
        · rw [if_neg hb] at h; cases h
    · rw [if_neg hc] at h; cases h
      refine ⟨[], rfl, noEOL_nil, by simp only [List.length_nil]; omega, fun oob' r' => ?_⟩
      unfold walkChars; rw [if_neg hc]; rfl

theorem walkGroups_split (oob : Err) (L i f j : Nat) (rest r : Bytes) (hj : j + 10 * f = 60)
    (h : walkGroups oob (L : Int) i f j rest = .ok r) :
    ∃ gs, rest = gs ++ r ∧ noEOL gs ∧ gs.length = gl (min (L - (i + j)) (10 * f)) ∧
      ∀ oob' r', walkGroups oob' (L : Int) i f j (gs ++ r') = .ok r' := by
  induction f generalizing j rest with
  | zero =>
    simp only [walkGroups] at h; cases h
    exact ⟨[], rfl, noEOL_nil, by simp [gl], fun _ _ => rfl⟩
  | succ f ih =>
    unfold walkGroups at h
    by_cases hc : j < 60 ∧ ((i + j : Nat) : Int) < (L : Int)
    · rw [if_pos hc] at h
      match rest, h with
      | [], h => cases h
      | c :: t, h =>
        simp only at h
        by_cases hs : (c != 32) = true
        · rw [if_pos hs] at h; cases h
        · rw [if_neg hs] at h
          have hc32 : c = 32 := by simpa using hs
          generalize hw : walkChars oob (L : Int) (i + j) 10 0 t = w at h
          match w, hw, h with
          | .error e, _, h => cases h
          | .ok t', hw, h =>
            simp only at h
            obtain ⟨g, e1, hn1, hl1, hloc1⟩ := walkChars_split oob L (i + j) 10 0 t t' (by omega) hw
            obtain ⟨gs, e2, hn2, hl2, hloc2⟩ := ih (j + 10) t' (by omega) h
            refine ⟨c :: (g ++ gs), by rw [e1, e2]; simp, ?_, ?_, fun oob' r' => ?_⟩
            · exact noEOL_cons (by rw [hc32]; decide) (noEOL_append hn1 hn2)
            · simp only [List.length_cons, List.length_append, hl1, hl2, gl]; omega
            · unfold walkGroups
              rw [if_pos hc]
              simp only [List.cons_append, List.append_assoc]
              rw [if_neg hs, hloc1 oob']; exact hloc2 oob' r'
    · rw [if_neg hc] at h; cases h
      refine ⟨[], rfl, noEOL_nil, ?_, fun oob' r' => ?_⟩
      · simp only [List.length_nil, gl]; omega
      · unfold walkGroups; rw [if_neg hc]; rfl

theorem isPrefixOf_split {a b : Bytes} (h : a.isPrefixOf b = true) : b = a ++ b.drop a.length := by
  induction a generalizing b with
  | nil => simp
  | cons x a ih =>
    match b, h with
    | [], h => simp [List.isPrefixOf] at h
    | y :: b, h =>
      simp only [List.isPrefixOf, Bool.and_eq_true, beq_iff_eq] at h
      rw [h.1, List.length_cons, List.drop_succ_cons, List.cons_append, ← ih h.2]

theorem walkLine_split (oob : Err) (L i : Nat) (rest r : Bytes) (hi : i + 1 < 10 ^ 9)
    (h : walkLine oob (L : Int) i rest = .ok r) :
    ∃ ln, rest = ln ++ r ∧ noEOL ln ∧ ln.length = 9 + gl (min (L - i) 60) ∧
      ∀ oob' r', walkLine oob' (L : Int) i (ln ++ r') = .ok r' := by
  unfold walkLine at h
  simp only at h
  by_cases hp : (index9 (i + 1)).isPrefixOf rest = true
  · rw [if_pos hp] at h
    obtain ⟨gs, e, hn, hl, hloc⟩ := walkGroups_split oob L i 6 0 _ r (by omega) h
    refine ⟨index9 (i + 1) ++ gs, ?_, noEOL_append (index9_noEOL _) hn, ?_, fun oob' r' => ?_⟩
    · rw [List.append_assoc, ← e]; exact isPrefixOf_split hp
    · simp only [List.length_append, index9_length (i + 1) hi, hl, Nat.add_zero, Nat.reduceMul]
    · unfold walkLine
      simp only [List.append_assoc, isPrefixOf_append, if_true, List.drop_left]
      exact hloc oob' r'
  · rw [if_neg hp] at h; cases h

/-! ### `pars.Line` on a line without CR/LF followed by LF -/

/-- `splitLine` is the existing `Gts.Pars.line` model of `pars.Line`, as a function of the
remaining input -/
theorem line_eq_splitLine (s : Pars.PS) :
    Pars.line.run' s = (.ok (splitLine s.rest).1, { s with rest := (splitLine s.rest).2 }) := rfl

theorem calcLine_lf (ln t : Bytes) (i n : Nat) (h : noEOL ln) :
    Pars.calcLine (ln ++ 10 :: t) i n false = (i + ln.length, n + 1) := by
  induction ln generalizing i with
  | nil => simp [Pars.calcLine]
  | cons c ln ih =>
    have hc := h c (by simp)
    have h' : noEOL ln := fun x hx => h x (by simp [hx])
    simp only [List.cons_append, Pars.calcLine]
    have e10 : (c == 10) = false := by simpa using hc.1
    have e13 : (c == 13) = false := by simpa using hc.2
    simp only [e10, e13, Bool.false_and, Bool.false_eq_true, if_false]
    rw [ih (i + 1) h', List.length_cons]; congr 1; omega

theorem splitLine_lf (ln t : Bytes) (h : noEOL ln) : splitLine (ln ++ 10 :: t) = (ln, t) := by
  unfold splitLine
  rw [calcLine_lf ln t 0 0 h]
  simp

/-! ### fast path accepted ⇒ slow path reproduces the same bytes -/

theorem validateLines_slow_le (L f i : Nat) (rest : Bytes) (hf : L - i ≤ 60 * f)
    (hL : L < 10 ^ 9 ∨ (L ≤ 1000000020 ∧ i % 60 = 0)) (h : validateLines (L : Int) f i rest = .ok ()) :
    ∃ blk tail, rest = blk ++ tail ∧ blk.length = tl (L - i) ∧
      (∀ tail', validateLines (L : Int) f i (blk ++ tail') = .ok ()) ∧
      ∀ cap acc, acc.length + tl (L - i) ≤ cap →
        slowLines (L : Int) cap f i rest acc = .ok (acc ++ blk, tail) := by
  induction f generalizing i rest with
  | zero =>
    have e : L - i = 0 := by omega
    exact ⟨[], rest, rfl, by rw [e]; rfl, fun _ => rfl, fun cap acc _ => by simp [slowLines]⟩
  | succ f ih =>
    unfold validateLines at h
    by_cases hc : ((i : Nat) : Int) < (L : Int)
    · rw [if_pos hc] at h
      generalize hw : walkLine .panic (L : Int) i rest = w at h
      match w, hw, h with
      | .error e, _, h => cases h
      | .ok [], _, h => cases h
      | .ok (c :: r'), hw, h =>
        simp only at h
        by_cases hs : (c != 10) = true
        · rw [if_pos hs] at h; cases h
        · rw [if_neg hs] at h
          have hc10 : c = 10 := by simpa using hs
          subst hc10
          obtain ⟨ln, e1, hn, hl, hloc⟩ := walkLine_split .panic L i rest _ (by omega) hw
          obtain ⟨blk, tail, e2, hbl, hv, hslow⟩ := ih (i + 60) r' (by omega) (by omega) h
          have hpos : 0 < L - i := by omega
          have hstep := tl_step (L - i) hpos
          have hsub : L - i - 60 = L - (i + 60) := by omega
          rw [hsub] at hstep
          refine ⟨ln ++ 10 :: blk, tail, by rw [e1, e2]; simp, ?_, fun tail' => ?_, fun cap acc hcap => ?_⟩
          · simp only [List.length_append, List.length_cons, hl, hbl]; omega
          · unfold validateLines
            rw [if_pos hc]
            simp only [List.append_assoc, List.cons_append]
            rw [hloc]; simp only [bne_self_eq_false, Bool.false_eq_true, if_false]
            exact hv tail'
          · unfold slowLines
            rw [if_pos hc, e1, splitLine_lf ln r' hn]
            simp only
            have := hloc .fail []
            rw [List.append_nil] at this
            rw [this]
            simp only [allBlank, List.all_nil, Bool.not_true, Bool.false_eq_true, if_false,
              List.length_nil, Nat.sub_zero, List.take_length]
            have hfit : (acc ++ ln).length < cap := by
              simp only [List.length_append, hl]; omega
            rw [List.take_of_length_le (by omega), if_pos hfit]
            rw [hslow cap (acc ++ ln ++ [10]) (by simp only [List.length_append, List.length_cons, List.length_nil, hl]; omega)]
            simp
    · have e : L - i = 0 := by omega
      exact ⟨[], rest, rfl, by rw [e]; rfl,
        fun _ => by unfold validateLines; rw [if_neg hc],
        fun cap acc _ => by unfold slowLines; rw [if_neg hc]; simp⟩

theorem validateLines_slow (L f i : Nat) (rest : Bytes) (hf : L - i ≤ 60 * f) (hL : L < 10 ^ 9)
    (h : validateLines (L : Int) f i rest = .ok ()) :
    ∃ blk tail, rest = blk ++ tail ∧ blk.length = tl (L - i) ∧
      (∀ tail', validateLines (L : Int) f i (blk ++ tail') = .ok ()) ∧
      ∀ cap acc, acc.length + tl (L - i) ≤ cap →
        slowLines (L : Int) cap f i rest acc = .ok (acc ++ blk, tail) :=
  validateLines_slow_le L f i rest hf (Or.inl hL) h

/-! ### whatever the slow path accepts, its token is a block the fast path accepts -/

theorem slowLines_valid_le (L cap f i : Nat) (st acc out rest : Bytes)
    (hL : L < 10 ^ 9 ∨ (L ≤ 1000000020 ∧ i % 60 = 0))
    (h : slowLines (L : Int) cap f i st acc = .ok (out, rest)) :
    ∃ blk, out = acc ++ blk ∧ (L - i ≤ 60 * f → blk.length = tl (L - i)) ∧
      ∀ tail', validateLines (L : Int) f i (blk ++ tail') = .ok () := by
  induction f generalizing i st acc with
  | zero =>
    simp only [slowLines] at h; cases h
    exact ⟨[], by simp, fun hf => by rw [show L - i = 0 by omega]; rfl, fun _ => rfl⟩
  | succ f ih =>
    unfold slowLines at h
    by_cases hc : ((i : Nat) : Int) < (L : Int)
    · rw [if_pos hc] at h
      generalize hsp : splitLine st = sp at h
      obtain ⟨q, st'⟩ := sp
      simp only at h
      generalize hw : walkLine .fail (L : Int) i q = w at h
      match w, hw, h with
      | .error e, _, h => cases h
      | .ok r, hw, h =>
        simp only at h
        split at h
        · cases h
        obtain ⟨ln, e1, hn, hl, hloc⟩ := walkLine_split .fail L i q r (by omega) hw
        have hext : q.take (q.length - r.length) = ln := by
          rw [e1]; simp
        rw [hext] at h
        by_cases hfit : ((acc ++ ln).take cap).length < cap
        · rw [if_pos hfit] at h
          have hle : (acc ++ ln).length ≤ cap := by
            simp only [List.length_take] at hfit; omega
          rw [List.take_of_length_le hle] at h
          obtain ⟨blk, e2, hbl, hv⟩ := ih (i + 60) st' (acc ++ ln ++ [10]) (by omega) h
          have hpos : 0 < L - i := by omega
          have hstep := tl_step (L - i) hpos
          have hsub : L - i - 60 = L - (i + 60) := by omega
          rw [hsub] at hstep
          refine ⟨ln ++ 10 :: blk, by rw [e2]; simp, fun hf => ?_, fun tail' => ?_⟩
          · simp only [List.length_append, List.length_cons, hl, hbl (by omega)]; omega
          · unfold validateLines
            rw [if_pos hc]
            simp only [List.append_assoc, List.cons_append]
            rw [hloc]; simp only [bne_self_eq_false, Bool.false_eq_true, if_false]
            exact hv tail'
        · rw [if_neg hfit] at h; cases h
    · rw [if_neg hc] at h; cases h
      exact ⟨[], by simp, fun _ => by rw [show L - i = 0 by omega]; rfl,
        fun _ => by unfold validateLines; rw [if_neg hc]⟩

theorem slowLines_valid (L cap f i : Nat) (st acc out rest : Bytes) (hL : L < 10 ^ 9)
    (h : slowLines (L : Int) cap f i st acc = .ok (out, rest)) :
    ∃ blk, out = acc ++ blk ∧ (L - i ≤ 60 * f → blk.length = tl (L - i)) ∧
      ∀ tail', validateLines (L : Int) f i (blk ++ tail') = .ok () :=
  slowLines_valid_le L cap f i st acc out rest (Or.inl hL) h

/-! ### top-level statements about `validateOrigin` / `slowOrigin` -/

theorem toNat_tl (L : Nat) : (toOriginLength (L : Int)).toNat = tl L := by
  rw [toOriginLength_nat]; simp

theorem fast_imp_slow_le (b : Bytes) (L : Nat) (hL : L ≤ 1000000020)
    (h : validateOrigin b L = .ok ()) :
    slowOrigin b L = .ok (b.take (tl L), b.drop (tl L)) := by
  unfold validateOrigin at h
  simp only [Int.toNat_natCast] at h
  obtain ⟨blk, tail, e, hbl, _, hslow⟩ := validateLines_slow_le L L 0 b (by omega) (Or.inr ⟨hL, rfl⟩) h
  simp only [Nat.sub_zero] at hbl hslow
  unfold slowOrigin
  simp only [toOriginLength_nat, Int.toNat_natCast]
  rw [if_neg (by omega), hslow (tl L) [] (by simp)]
  simp only [List.nil_append, hbl, Nat.sub_self, List.replicate_zero, List.append_nil]
  rw [e, List.take_left' hbl, List.drop_left' hbl]

theorem fast_imp_slow (b : Bytes) (L : Nat) (hL : L < 10 ^ 9)
    (h : validateOrigin b L = .ok ()) :
    slowOrigin b L = .ok (b.take (tl L), b.drop (tl L)) := fast_imp_slow_le b L (by omega) h

theorem slow_token_valid_le (st : Bytes) (L : Nat) (out rest : Bytes) (hL : L ≤ 1000000020)
    (h : slowOrigin st L = .ok (out, rest)) :
    out.length = tl L ∧ ∀ tail, validateOrigin (out ++ tail) L = .ok () := by
  unfold slowOrigin at h
  simp only [toOriginLength_nat, Int.toNat_natCast] at h
  rw [if_neg (by omega)] at h
  generalize hs : slowLines (L : Int) (tl L) L 0 st [] = s at h
  match s, hs, h with
  | .error e, _, h => cases h
  | .ok (acc, st'), hs, h =>
    simp only [Except.ok.injEq, Prod.mk.injEq] at h
    obtain ⟨blk, e, hbl, hv⟩ := slowLines_valid_le L (tl L) L 0 st [] acc st' (Or.inr ⟨hL, rfl⟩) hs
    simp only [List.nil_append, Nat.sub_zero] at e hbl
    have hlen : acc.length = tl L := by rw [e]; exact hbl (by omega)
    rw [hlen, Nat.sub_self, List.replicate_zero, List.append_nil] at h
    rw [← h.1]
    refine ⟨hlen, fun tail => ?_⟩
    unfold validateOrigin
    simp only [Int.toNat_natCast]
    rw [e]; exact hv tail

theorem slow_token_valid (st : Bytes) (L : Nat) (out rest : Bytes) (hL : L < 10 ^ 9)
    (h : slowOrigin st L = .ok (out, rest)) :
    out.length = tl L ∧ ∀ tail, validateOrigin (out ++ tail) L = .ok () :=
  slow_token_valid_le st L out rest (by omega) h

/-! ### CRLF line ends -/

/-- the same text with CRLF line ends -/
def crlf : Bytes → Bytes
  | [] => []
  | c :: r => if c = 10 then 13 :: 10 :: crlf r else c :: crlf r

/-- no carriage return -/
def noCR (b : Bytes) : Prop := ∀ c ∈ b, c ≠ 13

instance (b : Bytes) : Decidable (noCR b) := inferInstanceAs (Decidable (∀ c ∈ b, c ≠ 13))

theorem noCR_append {a b : Bytes} (ha : noCR a) (hb : noCR b) : noCR (a ++ b) := by
  intro c hc; rcases List.mem_append.mp hc with h | h
  · exact ha c h
  · exact hb c h

theorem noCR_cons {c : UInt8} {a : Bytes} (hc : c ≠ 13) (ha : noCR a) : noCR (c :: a) := by
  intro x hx; rcases List.mem_cons.mp hx with h | h
  · exact h ▸ hc
  · exact ha x h

theorem fmtGroupsS_noCR (f j : Nat) (q : Bytes) (hq : noCR q) : noCR (fmtGroupsS f j q) := by
  induction f generalizing j q with
  | zero => intro c hc; simp [fmtGroupsS] at hc
  | succ f ih =>
    unfold fmtGroupsS
    split
    · exact noCR_cons (by decide) (noCR_append (fun c hc => hq c (List.mem_of_mem_take hc))
        (ih _ _ (fun c hc => hq c (List.mem_of_mem_drop hc))))
    · intro c hc; simp at hc

theorem fmtLinesS_noCR (f i : Nat) (q : Bytes) (hq : noCR q) : noCR (fmtLinesS f i q) := by
  induction f generalizing i q with
  | zero => intro c hc; simp [fmtLinesS] at hc
  | succ f ih =>
    unfold fmtLinesS
    split
    · exact noCR_append (fun c hc => (index9_noEOL _ c hc).2)
        (noCR_append (fmtGroupsS_noCR _ _ _ hq)
          (noCR_cons (by decide) (ih _ _ (fun c hc => hq c (List.mem_of_mem_drop hc)))))
    · intro c hc; simp at hc

/-- a written block of printable residues contains no CR -/
theorem originStream_noCR (p : Bytes) (hp : printable p) : noCR (originStream p) := by
  rw [originStream_eq_S]
  exact fmtLinesS_noCR _ _ _ (fun c hc => (isBase_noEOL (hp c hc)).2)

theorem crlf_append_no10 (ln x : Bytes) (h : ∀ c ∈ ln, c ≠ 10) : crlf (ln ++ x) = ln ++ crlf x := by
  induction ln with
  | nil => rfl
  | cons c ln ih =>
    simp only [List.cons_append, crlf]
    rw [if_neg (h c (by simp)), ih (fun y hy => h y (by simp [hy]))]

theorem span10 (b : Bytes) : (∃ ln t, b = ln ++ 10 :: t ∧ ∀ c ∈ ln, c ≠ 10) ∨ ∀ c ∈ b, c ≠ 10 := by
  induction b with
  | nil => right; intro c hc; simp at hc
  | cons x b ih =>
    by_cases hx : x = 10
    · left; exact ⟨[], b, by rw [hx]; rfl, by intro c hc; simp at hc⟩
    · rcases ih with ⟨ln, t, e, h⟩ | h
      · left; refine ⟨x :: ln, t, by rw [e]; rfl, ?_⟩
        intro c hc; rcases List.mem_cons.mp hc with h1 | h1
        · rw [h1]; exact hx
        · exact h c h1
      · right; intro c hc; rcases List.mem_cons.mp hc with h1 | h1
        · rw [h1]; exact hx
        · exact h c h1

theorem calcLine_crlf (ln t : Bytes) (i n : Nat) (h : noEOL ln) :
    Pars.calcLine (ln ++ 13 :: 10 :: t) i n false = (i + ln.length, n + 2) := by
  induction ln generalizing i with
  | nil => simp [Pars.calcLine]
  | cons c ln ih =>
    have hc := h c (by simp)
    have h' : noEOL ln := fun x hx => h x (by simp [hx])
    simp only [List.cons_append, Pars.calcLine]
    have e10 : (c == 10) = false := by simpa using hc.1
    have e13 : (c == 13) = false := by simpa using hc.2
    simp only [e10, e13, Bool.false_and, Bool.false_eq_true, if_false]
    rw [ih (i + 1) h', List.length_cons]; congr 1; omega

theorem calcLine_noEOL (b : Bytes) (i n : Nat) (h : noEOL b) :
    Pars.calcLine b i n false = (i + b.length, n) := by
  induction b generalizing i with
  | nil => simp [Pars.calcLine]
  | cons c b ih =>
    have hc := h c (by simp)
    have h' : noEOL b := fun x hx => h x (by simp [hx])
    simp only [Pars.calcLine]
    have e10 : (c == 10) = false := by simpa using hc.1
    have e13 : (c == 13) = false := by simpa using hc.2
    simp only [e10, e13, Bool.false_and, Bool.false_eq_true, if_false]
    rw [ih (i + 1) h', List.length_cons]; congr 1; omega

theorem splitLine_crlf_line (ln t : Bytes) (h : noEOL ln) : splitLine (ln ++ 13 :: 10 :: t) = (ln, t) := by
  unfold splitLine
  rw [calcLine_crlf ln t 0 0 h]
  simp only [Nat.zero_add, List.take_left', List.drop_left', List.length_cons]
  rw [if_neg (by omega)]; rfl

theorem splitLine_noEOL (b : Bytes) (h : noEOL b) : splitLine b = (b, []) := by
  unfold splitLine
  rw [calcLine_noEOL b 0 0 h]
  simp

/-- `pars.Line` yields the same token for a text and its CRLF form -/
theorem splitLine_crlf (b : Bytes) (h : noCR b) :
    ∃ q t, splitLine b = (q, t) ∧ splitLine (crlf b) = (q, crlf t) ∧ noCR t := by
  rcases span10 b with ⟨ln, t, e, h10⟩ | h10
  · have hn : noEOL ln := fun c hc => ⟨h10 c hc, h c (by rw [e]; simp [hc])⟩
    refine ⟨ln, t, by rw [e, splitLine_lf ln t hn], ?_, fun c hc => h c (by rw [e]; simp [hc])⟩
    rw [e, crlf_append_no10 ln _ h10]
    simp only [crlf, if_true]
    exact splitLine_crlf_line ln _ hn
  · have hn : noEOL b := fun c hc => ⟨h10 c hc, h c hc⟩
    have e : crlf b = b := by
      have := crlf_append_no10 b [] h10
      simpa [crlf] using this
    exact ⟨b, [], splitLine_noEOL b hn, by rw [e, splitLine_noEOL b hn]; rfl, fun c hc => by simp at hc⟩

theorem slowLines_crlf (length : Int) (cap f i : Nat) (st acc : Bytes) (h : noCR st) :
    slowLines length cap f i (crlf st) acc =
      match slowLines length cap f i st acc with
      | .ok (o, r) => .ok (o, crlf r)
      | .error e => .error e := by
  induction f generalizing i st acc with
  | zero => simp [slowLines]
  | succ f ih =>
    unfold slowLines
    by_cases hc : (i : Int) < length
    · rw [if_pos hc, if_pos hc]
      obtain ⟨q, t, e1, e2, hcr⟩ := splitLine_crlf st h
      rw [e1, e2]
      simp only
      cases hw : walkLine .fail length i q with
      | error e => rfl
      | ok r =>
        simp only
        split
        · rfl
        · split
          · exact ih (i + 60) t _ hcr
          · rfl
    · rw [if_neg hc, if_neg hc]

theorem slowOrigin_crlf (st : Bytes) (length : Int) (h : noCR st) :
    slowOrigin (crlf st) length =
      match slowOrigin st length with
      | .ok (o, r) => .ok (o, crlf r)
      | .error e => .error e := by
  unfold slowOrigin
  simp only
  split
  · rfl
  · rw [slowLines_crlf _ _ _ _ _ _ h]
    cases slowLines length (toOriginLength length).toNat length.toNat 0 st [] with
    | error e => rfl
    | ok v => obtain ⟨a, b⟩ := v; rfl


/-! ### the slow path never panics -/

theorem walkChars_fail_ne_panic (length : Int) (ij f k : Nat) (rest : Bytes) :
    walkChars .fail length ij f k rest ≠ .error .panic := by
  induction f generalizing k rest with
  | zero => simp [walkChars]
  | succ f ih =>
    unfold walkChars
    split
    · match rest with
      | [] => simp
      | c :: r =>
        simp only
        split
        · exact ih _ _
        · simp
    · simp

theorem walkGroups_fail_ne_panic (length : Int) (i f j : Nat) (rest : Bytes) :
    walkGroups .fail length i f j rest ≠ .error .panic := by
  induction f generalizing j rest with
  | zero => simp [walkGroups]
  | succ f ih =>
    unfold walkGroups
    split
    · match rest with
      | [] => simp
      | c :: r =>
        simp only
        split
        · simp
        · have := walkChars_fail_ne_panic length (i + j) 10 0 r
          cases hw : walkChars .fail length (i + j) 10 0 r with
          | error e => simp only; intro h; apply this; rw [hw]; exact h
          | ok r' => exact ih _ _
    · simp

theorem walkLine_fail_ne_panic (length : Int) (i : Nat) (rest : Bytes) :
    walkLine .fail length i rest ≠ .error .panic := by
  unfold walkLine
  simp only
  split
  · exact walkGroups_fail_ne_panic _ _ _ _ _
  · simp

theorem slowLines_ne_panic_le (L cap f i : Nat) (st acc : Bytes)
    (hL : L < 10 ^ 9 ∨ (L ≤ 1000000020 ∧ i % 60 = 0)) (hcap : acc.length + tl (L - i) ≤ cap) :
    slowLines (L : Int) cap f i st acc ≠ .error .panic := by
  induction f generalizing i st acc with
  | zero => simp [slowLines]
  | succ f ih =>
    unfold slowLines
    by_cases hc : ((i : Nat) : Int) < (L : Int)
    · rw [if_pos hc]
      generalize splitLine st = sp
      obtain ⟨q, st'⟩ := sp
      simp only
      cases hw : walkLine .fail (L : Int) i q with
      | error e =>
        simp only; intro h; apply walkLine_fail_ne_panic (L : Int) i q; rw [hw]; cases h; rfl
      | ok r =>
        simp only
        split
        · simp
        · obtain ⟨ln, e1, hn, hl, hloc⟩ := walkLine_split .fail L i q r (by omega) hw
          have hext : q.take (q.length - r.length) = ln := by rw [e1]; simp
          rw [hext]
          have hpos : 0 < L - i := by omega
          have hstep := tl_step (L - i) hpos
          have hsub : L - i - 60 = L - (i + 60) := by omega
          rw [hsub] at hstep
          have hle : (acc ++ ln).length < cap := by
            simp only [List.length_append, hl]; omega
          rw [List.take_of_length_le (by omega), if_pos hle]
          exact ih (i + 60) st' _ (by omega) (by
            simp only [List.length_append, List.length_cons, List.length_nil, hl]; omega)
    · rw [if_neg hc]; simp

theorem slowLines_ne_panic (L cap f i : Nat) (st acc : Bytes) (hL : L < 10 ^ 9)
    (hcap : acc.length + tl (L - i) ≤ cap) :
    slowLines (L : Int) cap f i st acc ≠ .error .panic :=
  slowLines_ne_panic_le L cap f i st acc (Or.inl hL) hcap

theorem slowOrigin_ne_panic_le (st : Bytes) (L : Nat) (hL : L ≤ 1000000020) :
    slowOrigin st L ≠ .error .panic := by
  unfold slowOrigin
  simp only [toOriginLength_nat, Int.toNat_natCast]
  rw [if_neg (by omega)]
  have := slowLines_ne_panic_le L (tl L) L 0 st [] (Or.inr ⟨hL, rfl⟩) (by simp)
  cases hs : slowLines (L : Int) (tl L) L 0 st [] with
  | error e => simp only; intro h; apply this; rw [hs]; exact h
  | ok v => obtain ⟨a, b⟩ := v; simp

theorem slowOrigin_ne_panic (st : Bytes) (L : Nat) (hL : L < 10 ^ 9) :
    slowOrigin st L ≠ .error .panic := slowOrigin_ne_panic_le st L (by omega)

/-! ### trailing blanks -/

/-- scan for a blank that stands directly before a line feed or at the very end of the input
(`prev`: the previous byte was a blank) -/
def tb : Bool → Bytes → Bool
  | prev, [] => prev
  | prev, c :: r => (prev && c == 10) || tb (c == 32) r

/-- some line of `b` carries blanks behind its last non-blank byte -/
def trailingBlank (b : Bytes) : Bool := tb false b

theorem tb_mono (prev : Bool) (y : Bytes) (h : tb false y = true) : tb prev y = true := by
  cases y with
  | nil => simp [tb] at h
  | cons c r => simp only [tb, Bool.false_and, Bool.false_or] at h; simp [tb, h]

theorem tb_suffix (prev : Bool) (x y : Bytes) (h : tb false y = true) : tb prev (x ++ y) = true := by
  induction x generalizing prev with
  | nil => exact tb_mono prev y h
  | cons c x ih => simp [tb, ih]

theorem tb_true_blanks_lf (r t : Bytes) (hb : allBlank r = true) : tb true (r ++ 10 :: t) = true := by
  induction r with
  | nil => simp [tb]
  | cons c r ih =>
    simp only [allBlank, List.all_cons, Bool.and_eq_true, beq_iff_eq] at hb
    have := ih (by simpa [allBlank] using hb.2)
    simp [tb, hb.1, this]

theorem tb_blanks_lf (prev : Bool) (r t : Bytes) (hr : r ≠ []) (hb : allBlank r = true) :
    tb prev (r ++ 10 :: t) = true := by
  cases r with
  | nil => exact absurd rfl hr
  | cons c r =>
    simp only [allBlank, List.all_cons, Bool.and_eq_true, beq_iff_eq] at hb
    have := tb_true_blanks_lf r t (by simpa [allBlank] using hb.2)
    simp [tb, hb.1, this]

theorem tb_true_blanks_eof (r : Bytes) (hb : allBlank r = true) : tb true r = true := by
  induction r with
  | nil => simp [tb]
  | cons c r ih =>
    simp only [allBlank, List.all_cons, Bool.and_eq_true, beq_iff_eq] at hb
    have := ih (by simpa [allBlank] using hb.2)
    simp [tb, hb.1, this]

theorem tb_blanks_eof (prev : Bool) (r : Bytes) (hr : r ≠ []) (hb : allBlank r = true) :
    tb prev r = true := by
  cases r with
  | nil => exact absurd rfl hr
  | cons c r =>
    simp only [allBlank, List.all_cons, Bool.and_eq_true, beq_iff_eq] at hb
    have := tb_true_blanks_eof r (by simpa [allBlank] using hb.2)
    simp [tb, hb.1, this]

/-! ### slow path accepted, no CR, no trailing blanks, enough input ⇒ fast path accepts -/

theorem splitLine_cases (st : Bytes) (h : noCR st) :
    (∃ ln t, st = ln ++ 10 :: t ∧ noEOL ln ∧ splitLine st = (ln, t)) ∨
    (noEOL st ∧ splitLine st = (st, [])) := by
  rcases span10 st with ⟨ln, t, e, h10⟩ | h10
  · have hn : noEOL ln := fun c hc => ⟨h10 c hc, h c (by rw [e]; simp [hc])⟩
    exact Or.inl ⟨ln, t, e, hn, by rw [e, splitLine_lf ln t hn]⟩
  · have hn : noEOL st := fun c hc => ⟨h10 c hc, h c hc⟩
    exact Or.inr ⟨hn, splitLine_noEOL st hn⟩

theorem slowLines_fast_le (L cap f i : Nat) (st acc out rest : Bytes)
    (hL : L < 10 ^ 9 ∨ (L ≤ 1000000020 ∧ i % 60 = 0)) (hcr : noCR st) (hb : tb false st = false) (hlen : tl (L - i) ≤ st.length)
    (h : slowLines (L : Int) cap f i st acc = .ok (out, rest)) :
    validateLines (L : Int) f i st = .ok () := by
  induction f generalizing i st acc with
  | zero => rfl
  | succ f ih =>
    unfold validateLines
    unfold slowLines at h
    by_cases hc : ((i : Nat) : Int) < (L : Int)
    · rw [if_pos hc] at h ⊢
      have hpos : 0 < L - i := by omega
      have hstep := tl_step (L - i) hpos
      have hsub : L - i - 60 = L - (i + 60) := by omega
      rw [hsub] at hstep
      rcases splitLine_cases st hcr with ⟨q, t, est, hnq, hsp⟩ | ⟨hnq, hsp⟩
      · rw [hsp] at h
        simp only at h
        generalize hw : walkLine .fail (L : Int) i q = w at h
        match w, hw, h with
        | .error e, _, h => cases h
        | .ok r, hw, h =>
          simp only at h
          split at h
          · cases h
          rename_i hbl
          have hbl : allBlank r = true := by simpa using hbl
          obtain ⟨ln, e1, hn, hl, hloc⟩ := walkLine_split .fail L i q r (by omega) hw
          have hr : r = [] := by
            by_cases hr : r = []
            · exact hr
            · exfalso
              have : tb false st = true := by
                rw [est, e1, List.append_assoc]
                exact tb_suffix false ln _ (tb_blanks_lf false r t hr hbl)
              rw [this] at hb; cases hb
          subst hr
          rw [List.append_nil] at e1
          subst e1
          simp only [List.length_nil, Nat.sub_zero, List.take_length] at h
          split at h
          · rename_i hfit
            rw [est, hloc .panic (10 :: t)]
            simp only [bne_self_eq_false, Bool.false_eq_true, if_false]
            refine ih (i + 60) t _ (by omega) (fun c hc => hcr c (by rw [est]; simp [hc])) ?_ ?_ h
            · cases htb : tb false t with
              | false => rfl
              | true =>
                have : tb false st = true := by
                  rw [est, show q ++ 10 :: t = (q ++ [10]) ++ t by simp]
                  exact tb_suffix false _ t htb
                rw [this] at hb; cases hb
            · rw [est] at hlen
              simp only [List.length_append, List.length_cons, hl] at hlen
              omega
          · cases h
      · -- the line runs to the end of the input: too short to hold the block
        rw [hsp] at h
        simp only at h
        generalize hw : walkLine .fail (L : Int) i st = w at h
        match w, hw, h with
        | .error e, _, h => cases h
        | .ok r, hw, h =>
          simp only at h
          split at h
          · cases h
          rename_i hbl
          have hbl : allBlank r = true := by simpa using hbl
          obtain ⟨ln, e1, hn, hl, hloc⟩ := walkLine_split .fail L i st r (by omega) hw
          exfalso
          by_cases hr : r = []
          · subst hr
            rw [List.append_nil] at e1
            rw [e1, hl] at hlen
            omega
          · have : tb false st = true := by
              rw [e1]; exact tb_suffix false ln _ (tb_blanks_eof false r hr hbl)
            rw [this] at hb; cases hb
    · rw [if_neg hc]

theorem slowLines_fast (L cap f i : Nat) (st acc out rest : Bytes) (hL : L < 10 ^ 9)
    (hcr : noCR st) (hb : tb false st = false) (hlen : tl (L - i) ≤ st.length)
    (h : slowLines (L : Int) cap f i st acc = .ok (out, rest)) :
    validateLines (L : Int) f i st = .ok () :=
  slowLines_fast_le L cap f i st acc out rest (Or.inl hL) hcr hb hlen h

theorem slow_imp_fast_le (b : Bytes) (L : Nat) (o : Bytes × Bytes) (hL : L ≤ 1000000020) (hcr : noCR b)
    (hb : trailingBlank b = false) (hlen : tl L ≤ b.length)
    (h : slowOrigin b L = .ok o) : validateOrigin b L = .ok () := by
  unfold slowOrigin at h
  simp only [toOriginLength_nat, Int.toNat_natCast] at h
  rw [if_neg (by omega)] at h
  unfold validateOrigin
  simp only [Int.toNat_natCast]
  cases hs : slowLines (L : Int) (tl L) L 0 b [] with
  | error e => rw [hs] at h; cases h
  | ok v =>
    obtain ⟨a, r⟩ := v
    exact slowLines_fast_le L (tl L) L 0 b [] a r (Or.inr ⟨hL, rfl⟩) hcr hb (by simpa using hlen) hs

theorem slow_imp_fast (b : Bytes) (L : Nat) (o : Bytes × Bytes) (hL : L < 10 ^ 9) (hcr : noCR b)
    (hb : trailingBlank b = false) (hlen : tl L ≤ b.length)
    (h : slowOrigin b L = .ok o) : validateOrigin b L = .ok () :=
  slow_imp_fast_le b L o (by omega) hcr hb hlen h

/-! ### a written block carries no trailing blanks -/

theorem tb_reset (prev : Bool) (c : UInt8) (x : Bytes) (h10 : c ≠ 10) (h32 : c ≠ 32) :
    tb prev (c :: x) = tb false x := by
  have e10 : (c == 10) = false := by simpa using h10
  have e32 : (c == 32) = false := by simpa using h32
  simp only [tb, e10, e32, Bool.and_false, Bool.false_or]

theorem tb_noLF_end (prev : Bool) (s0 : Bytes) (c : UInt8) (x : Bytes) (hs : ∀ y ∈ s0, y ≠ 10)
    (h10 : c ≠ 10) (h32 : c ≠ 32) : tb prev (s0 ++ c :: x) = tb false x := by
  induction s0 generalizing prev with
  | nil => exact tb_reset prev c x h10 h32
  | cons y s0 ih =>
    simp only [List.cons_append, tb]
    have : (y == 10) = false := by simpa using hs y (by simp)
    rw [this, Bool.and_false, Bool.false_or]
    exact ih _ (fun z hz => hs z (by simp [hz]))

theorem tb_base_run (prev : Bool) (g x : Bytes) (hg : g ≠ []) (hp : printable g) :
    tb prev (g ++ x) = tb false x := by
  induction g generalizing prev with
  | nil => exact absurd rfl hg
  | cons c g ih =>
    have hc := isBase_noEOL (hp c (by simp))
    have h32 : c ≠ 32 := by
      intro e; have := hp c (by simp); rw [e] at this; revert this; decide
    rw [List.cons_append, tb_reset prev c _ hc.1 h32]
    cases g with
    | nil => rfl
    | cons c' g' => exact ih false (by simp) (fun y hy => hp y (by simp [hy]))

theorem digit_ne : ∀ d, d < 10 → UInt8.ofNat (48 + d) ≠ 10 ∧ UInt8.ofNat (48 + d) ≠ 32 := by decide

theorem digitsAux_succ_split (f n : Nat) :
    ∃ s0 d, digitsAux (f + 1) n = s0 ++ [UInt8.ofNat (48 + d)] ∧ d < 10 := by
  rw [digitsAux]
  split
  · rename_i h; exact ⟨[], n, rfl, h⟩
  · exact ⟨_, n % 10, rfl, Nat.mod_lt _ (by omega)⟩

theorem tb_index9 (prev : Bool) (n : Nat) (x : Bytes) : tb prev (index9 n ++ x) = tb false x := by
  have hno := index9_noEOL n
  unfold index9 decimal at hno ⊢
  simp only at hno ⊢
  obtain ⟨s0, d, e, hd⟩ := digitsAux_succ_split n n
  rw [e] at hno ⊢
  have hdn := digit_ne d hd
  rw [← List.append_assoc, List.append_assoc _ [_] x]
  simp only [List.singleton_append]
  exact tb_noLF_end prev _ _ x
    (fun y hy => (hno y (by rw [← List.append_assoc]; exact List.mem_append.mpr (Or.inl hy))).1)
    hdn.1 hdn.2

theorem tb_fmtGroupsS (f j : Nat) (r x : Bytes) (hp : printable r) :
    tb false (fmtGroupsS f j r ++ x) = tb false x := by
  induction f generalizing j r with
  | zero => rfl
  | succ f ih =>
    unfold fmtGroupsS
    split
    · rename_i hc
      simp only [List.cons_append, List.append_assoc, tb, Bool.false_and, Bool.false_or]
      rw [show ((32 : UInt8) == 32) = true by decide]
      rw [tb_base_run true (r.take 10) _ (by
            intro e; apply hc.2; cases r with
            | nil => rfl
            | cons a b => simp at e)
          (fun y hy => hp y (List.mem_of_mem_take hy))]
      exact ih _ _ (fun y hy => hp y (List.mem_of_mem_drop hy))
    · rfl

theorem tb_fmtLinesS (f i : Nat) (r x : Bytes) (hp : printable r) :
    tb false (fmtLinesS f i r ++ x) = tb false x := by
  induction f generalizing i r with
  | zero => rfl
  | succ f ih =>
    unfold fmtLinesS
    split
    · simp only [List.append_assoc, List.cons_append]
      rw [tb_index9, tb_fmtGroupsS _ _ _ _ hp]
      simp only [tb, Bool.false_and, Bool.false_or]
      rw [show ((10 : UInt8) == 32) = false by decide]
      exact ih _ _ (fun y hy => hp y (List.mem_of_mem_drop hy))
    · rfl

/-- every written block of printable residues is free of trailing blanks -/
theorem originStream_no_trailingBlank (p : Bytes) (hp : printable p) :
    trailingBlank (originStream p) = false := by
  rw [originStream_eq_S]
  have := tb_fmtLinesS p.length 0 p [] hp
  rw [List.append_nil] at this
  exact this
end Gts.Origin
