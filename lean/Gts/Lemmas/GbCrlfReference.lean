/-
  C01, CRLF input: REFERENCE blocks (number, padding, info line, the six sub-fields) and the LOCUS
  line of the CRLF translation of the written text.  Mirrors `GbReference.lean` / `GbLocus.lean`.
  Core Lean only.
-/
import Gts.Lemmas.GbCrlfFields
namespace Gts.GenBank
open Gts.Pars

/-! ### one alternative -/

theorem crlf_addPrefix_head32 (pre v X : Bytes) (h : v.head? ≠ some 32) :
    ∀ c, (Origin.crlf (addPrefix pre v) ++ 13 :: 10 :: X).head? = some c → c ≠ 32 := by
  intro c hc
  rcases crlf_addPrefix_head pre v X c hc with h13 | ⟨hh, _⟩
  · subst h13; decide
  · intro e; subst e; exact h hh

theorem refSub_okC (n : String) (a b : Nat) (v more : Bytes) (stk : List Bytes) (stale : Nat)
    (ha : 0 < a) (hb : 0 < b) (hab : a + (bs n).length + b = 12)
    (hn : ∀ X c, (bs n ++ X).head? = some c → c ≠ 32)
    (hv : subValueOk v = true) (hmore : (sp 12).isPrefixOf more = false) :
    refSub n 12 stale ⟨sp a ++ (bs n ++ (sp b ++ (Origin.crlf (addPrefix (sp 12) v) ++ 13 :: 10 :: more))), stk⟩ =
      (.ok v, ⟨more, stk⟩) := by
  simp only [subValueOk, Bool.and_eq_true, bne_iff_ne, ne_eq] at hv
  have h1 := fun s => blankWord_ok a (bs n ++ (sp b ++ (Origin.crlf (addPrefix (sp 12) v) ++ 13 :: 10 :: more))) s ha (hn _)
  have h2 := fun s => blankWord_ok b (Origin.crlf (addPrefix (sp 12) v) ++ 13 :: 10 :: more) s hb
    (crlf_addPrefix_head32 _ _ _ hv.2)
  have hbody := fun s => fieldBody_addPrefixC 12 v more s hv.1 hmore
  unfold refSub
  apply mapped_ok
  have ha0 : ¬ a = 0 := by omega
  gsimp [subfieldName, h1, lit_ok, h2, sp_length, hab, hbody, ha0]

theorem refAlts_reachC (stale : Nat) (r : Reference)
    (pre : List (String × (Reference → Bytes → Reference))) (x : String × (Reference → Bytes → Reference))
    (post : List (String × (Reference → Bytes → Reference))) (a b : Nat) (v more fr : Bytes) (stk : List Bytes)
    (ha : 0 < a) (hb : 0 < b) (hab : a + (bs x.1).length + b = 12)
    (hn : ∀ X c, (bs x.1 ++ X).head? = some c → c ≠ 32)
    (hv : subValueOk v = true) (hmore : (sp 12).isPrefixOf more = false)
    (hpre : ∀ y ∈ pre, ∀ Z, (bs y.1).isPrefixOf (bs x.1 ++ Z) = false) :
    refAlts 12 stale r (pre ++ x :: post)
        ⟨sp a ++ (bs x.1 ++ (sp b ++ (Origin.crlf (addPrefix (sp 12) v) ++ 13 :: 10 :: more))), fr :: stk⟩ =
      (.ok (x.2 r v, v.length), ⟨more, stk⟩) := by
  induction pre with
  | nil =>
    exact refAlts_hit stale r x post _ fr more v stk (refSub_okC x.1 a b v more _ stale ha hb hab hn hv hmore)
  | cons y pre ih =>
    rw [List.cons_append, refAlts_skip stale r y _ _ fr stk
      (refSub_other y.1 a _ _ stale ha (hn _) (hpre y (by simp) _))]
    exact ih (fun z hz => hpre z (by simp [hz]))

/-- the line(s) of one sub-field as they stand in the CRLF file -/
def subLineTextC (l : SubLine) : Bytes :=
  sp (slotA l.idx) ++ (bs (slotName l.idx) ++ (sp (slotB l.idx) ++ (Origin.crlf (addPrefix (sp 12) l.v) ++ [13, 10])))

theorem refSubfield_lineC (l : SubLine) (stale : Nat) (r : Reference) (more : Bytes) (stk : List Bytes)
    (hv : subValueOk l.v = true) (hmore : (sp 12).isPrefixOf more = false) :
    refSubfield 12 stale r ⟨subLineTextC l ++ more, stk⟩ = (.ok (slotSet l.idx r l.v, l.v.length), ⟨more, stk⟩) := by
  obtain ⟨⟨ha, hb, hab, h32, hnone⟩, hdiff⟩ := slot_table l.idx
  obtain ⟨hlist, hpre⟩ := slot_split l.idx
  have e : subLineTextC l ++ more =
      sp (slotA l.idx) ++ (bs (slotName l.idx) ++ (sp (slotB l.idx) ++
        (Origin.crlf (addPrefix (sp 12) l.v) ++ 13 :: 10 :: more))) := by
    simp [subLineTextC, List.append_assoc]
  rw [e]
  simp only [refSubfield, P.bind_run, push, getS, setS]
  rw [hlist]
  exact refAlts_reachC stale r _ (slotName l.idx, slotSet l.idx) _ _ _ l.v more _ stk ha hb hab
    (by
      intro X x hx
      cases hb' : bs (slotName l.idx) with
      | nil => rw [hb'] at hnone; exact absurd rfl hnone
      | cons c t =>
        rw [hb'] at hx h32
        simp at hx h32; subst hx; exact h32) hv hmore
    (fun y hy Z => by
      obtain ⟨j, hj, hy1⟩ := hpre y hy
      rw [hy1]
      exact prefix_mismatch _ _ Z (hdiff j hj))

def subLinesTextC (ls : List SubLine) : Bytes := ls.flatMap subLineTextC

theorem subLineTextC_not_indent (l : SubLine) (X : Bytes) : (sp 12).isPrefixOf (subLineTextC l ++ X) = false := by
  obtain ⟨⟨ha, hb, hab, h32, hnone⟩, _⟩ := slot_table l.idx
  have hA : slotA l.idx ≤ 3 := by unfold slotA; split <;> omega
  obtain ⟨c, t, hc, hc32⟩ : ∃ c t, bs (slotName l.idx) = c :: t ∧ c ≠ 32 := by
    cases hb' : bs (slotName l.idx) with
    | nil => rw [hb'] at hnone; exact absurd rfl hnone
    | cons c t => rw [hb'] at h32; exact ⟨c, t, rfl, by simpa using h32⟩
  have e : subLineTextC l ++ X = sp (slotA l.idx) ++ (c :: (t ++ (sp (slotB l.idx) ++
      (Origin.crlf (addPrefix (sp 12) l.v) ++ 13 :: 10 :: X)))) := by
    simp [subLineTextC, hc, List.append_assoc]
  rw [e]
  generalize slotA l.idx = a at hA
  have : ∀ (a n : Nat) (Y : Bytes), a < n → (sp n).isPrefixOf (sp a ++ c :: Y) = false := by
    intro a
    induction a with
    | zero => intro n Y hn; exact sp_prefix_cons n c Y hc32 hn
    | succ a ih =>
      intro n Y hn
      obtain ⟨n', rfl⟩ : ∃ n', n = n' + 1 := ⟨n - 1, by omega⟩
      rw [sp_succ, sp_succ]
      simp only [List.cons_append, List.isPrefixOf, beq_self_eq_true, Bool.true_and]
      exact ih n' Y (by omega)
  exact this a 12 _ (by omega)

theorem refSubfields_linesC (ls : List SubLine) (more : Bytes) (stk : List Bytes) (stale : Nat) (r : Reference)
    (k : Nat) (hv : ∀ l ∈ ls, subValueOk l.v = true) (hstop : refStop more = true) (hk : ls.length < k) :
    refSubfields 12 k stale r ⟨subLinesTextC ls ++ more, stk⟩ =
      (.ok (ls.foldl (fun r l => slotSet l.idx r l.v) r), ⟨more, stk⟩) := by
  induction ls generalizing stale r k with
  | nil =>
    cases k with
    | zero => omega
    | succ k => gsimp [refSubfields, subLinesTextC, refSubfield_stop stale r more stk hstop]
  | cons l ls ih =>
    cases k with
    | zero => omega
    | succ k =>
      have hmore : (sp 12).isPrefixOf (subLinesTextC ls ++ more) = false := by
        cases ls with
        | nil =>
          simp only [subLinesTextC, List.flatMap_nil, List.nil_append]
          simp only [refStop, Bool.and_eq_true, bne_iff_ne, ne_eq] at hstop
          cases more with
          | nil => rfl
          | cons c m =>
            have : c ≠ 32 := by simpa using hstop.1
            exact sp_prefix_cons 12 c m this (by omega)
        | cons l' ls' =>
          simp only [subLinesTextC, List.flatMap_cons, List.append_assoc]
          exact subLineTextC_not_indent l' _
      have e : subLinesTextC (l :: ls) ++ more = subLineTextC l ++ (subLinesTextC ls ++ more) := by
        simp [subLinesTextC, List.flatMap_cons, List.append_assoc]
      rw [e]
      simp only [refSubfields, P.bind_run, attempt_run,
        refSubfield_lineC l stale r _ stk (hv l (by simp)) hmore]
      rw [ih _ _ k (fun x hx => hv x (by simp [hx])) (by simp only [List.length_cons] at hk; omega)]
      simp

theorem subLinesTextC_length_ge (ls : List SubLine) : ls.length ≤ (subLinesTextC ls).length := by
  induction ls with
  | nil => simp [subLinesTextC]
  | cons l ls ih =>
    simp only [subLinesTextC, List.flatMap_cons, List.length_append, List.length_cons] at ih ⊢
    have : 1 ≤ (subLineTextC l).length := by
      simp only [subLineTextC, List.length_append, List.length_cons]; omega
    omega

theorem slotName_noLF : ∀ i : Fin 6, (bs (slotName i)).all (fun c => c != 10) = true := by decide

/-- the CRLF translation of the sub-field lines -/
theorem crlf_subLinesText (ls : List SubLine) : Origin.crlf (subLinesText ls) = subLinesTextC ls := by
  induction ls with
  | nil => rfl
  | cons l ls ih =>
    have hn : noLF (bs (slotName l.idx)) := by
      intro c hc
      have := List.all_eq_true.mp (slotName_noLF l.idx) c hc
      simpa using this
    simp only [subLinesText, subLinesTextC, List.flatMap_cons] at ih ⊢
    rw [crlf_append, ih]
    simp only [subLineText, subLineTextC, crlf_append, crlf_sp, crlf_noLF _ hn, crlf_cons_lf, crlf_nil]

/-- **REFERENCE**, CRLF file: head line and the sub-fields that are present -/
theorem reference_roundtripC (f : Fields) (r : Reference) (more : Bytes) (stk : List Bytes)
    (h : referenceOk r = true) (hstop : refStop more = true) :
    referenceField 12 f ⟨refHead r ++ 13 :: 10 :: (subLinesTextC (presentLines r) ++ more), stk⟩ =
      (.ok ({ f with references := f.references ++ [r] }, true), ⟨more, stk⟩) := by
  simp only [referenceOk, Bool.and_eq_true, Bool.or_eq_true, decide_eq_true_eq, List.all_eq_true] at h
  obtain ⟨⟨⟨⟨⟨hn0, hn1⟩, hinfo⟩, hdig⟩, _⟩, hsub⟩ := h
  obtain ⟨n, hn⟩ : ∃ n : Nat, r.number = (n : Int) := ⟨r.number.toNat, by omega⟩
  have hnum : itoaB r.number = natDigits n := by rw [hn]; simp [itoaB]
  have hnum' : itoaB (n : Int) = natDigits n := by simp [itoaB]
  generalize hT : subLinesTextC (presentLines r) ++ more = T
  have hlen : (presentLines r).length < T.length + 1 := by
    have := subLinesTextC_length_ge (presentLines r)
    rw [← hT]; simp only [List.length_append]; omega
  have hloop : ∀ s, refSubfields 12 (T.length + 1) r.info.length (blankRef r) ⟨T, s⟩ = (.ok r, ⟨more, s⟩) := by
    intro s
    have := refSubfields_linesC (presentLines r) more s r.info.length (blankRef r) (T.length + 1) hsub hstop hlen
    rw [hT, fold_present] at this; exact this
  have hfn := fun X s => fieldName_ok (bs "REFERENCE") 12 X s (by decide)
  have hs3 : sp (12 - (bs "REFERENCE").length) = sp 3 := by decide
  rw [hs3] at hfn
  simp only [blankRef, hn] at hloop
  by_cases hi : r.info = []
  · -- no info: the number is followed by CR LF
    have e : refHead r ++ 13 :: 10 :: T = bs "REFERENCE" ++ (sp 3 ++ (natDigits n ++ 13 :: 10 :: T)) := by
      simp [refHead, hi, hnum, bs, sp]
    rw [e]
    have hint := fun s => int_natDigits n (13 :: 10 :: T) s (by simp [List.dropWhile, isDigit]) (by omega)
    have hline := fun s => line_okC [] T s rfl
    simp only [List.nil_append] at hline
    have hlit : ∀ s, attempt (lit (sp (3 - (natDigits n).length))) ⟨13 :: 10 :: T, s⟩ =
        (.ok (if 3 - (natDigits n).length = 0 then some () else none), ⟨13 :: 10 :: T, s⟩) := by
      intro s
      by_cases h0 : 3 - (natDigits n).length = 0
      · rw [h0]
        have := lit_ok [] (13 :: 10 :: T) s
        simp only [List.nil_append] at this
        simp only [sp, List.replicate_zero, attempt_run, this, if_true]
      · rw [if_neg h0]
        have hf := lit_fail (sp (3 - (natDigits n).length)) (13 :: 10 :: T) s
          (sp_prefix_cons (3 - (natDigits n).length) 13 (10 :: T) (by decide) (by omega))
        simp only [attempt_run, hf]
    rw [hi] at hloop
    simp only [List.length_nil] at hloop
    simp only [referenceField, P.bind_run, hfn, hint, P.pure_run, hnum', hlit]
    simp only [hline, getS, List.length_nil, hloop]
  · -- info: padding, then the info line
    have e : refHead r ++ 13 :: 10 :: T =
        bs "REFERENCE" ++ (sp 3 ++ (natDigits n ++ (sp (3 - (natDigits n).length) ++ (r.info ++ 13 :: 10 :: T)))) := by
      have : r.info.isEmpty = false := by cases h' : r.info <;> simp_all
      simp [refHead, this, hnum, bs, sp, List.append_assoc]
    rw [e]
    have hdw : (sp (3 - (natDigits n).length) ++ (r.info ++ 13 :: 10 :: T)).dropWhile isDigit =
        sp (3 - (natDigits n).length) ++ (r.info ++ 13 :: 10 :: T) := by
      apply dropWhile_stop
      intro c hc
      by_cases h0 : 3 - (natDigits n).length = 0
      · rw [h0] at hc
        simp only [sp, List.replicate_zero, List.nil_append] at hc
        rcases hdig with hd | hd
        · rw [hnum] at hd; omega
        · cases hinf : r.info with
          | nil => exact absurd hinf hi
          | cons x t =>
            rw [hinf] at hc hd
            simp at hc hd; subst hc; simpa using hd
      · obtain ⟨k, hk⟩ : ∃ k, 3 - (natDigits n).length = k + 1 := ⟨3 - (natDigits n).length - 1, by omega⟩
        rw [hk, sp_succ] at hc; simp at hc; subst hc; decide
    have hint := fun s => int_natDigits n _ s hdw (by omega)
    have hline := fun s => line_okC r.info T s hinfo
    simp only [referenceField, P.bind_run, hfn, hint, P.pure_run, hnum']
    simp only [attempt_run, lit_ok, hline, getS, hloop]

end Gts.GenBank
