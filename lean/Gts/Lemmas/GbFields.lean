/-
  C01 helper lemmas: the generic header fields (DEFINITION, ACCESSION, VERSION, COMMENT, extra
  fields) as written by `GenBank.String` and read by their sub-parsers.  Core Lean only.
-/
import Gts.Lemmas.GbFieldBody
namespace Gts.GenBank
open Gts.Pars

/-! ### `Parser.Map` -/

theorem mapped_ok {α} (p : P α) (inp r : Bytes) (stk : List Bytes) (a : α)
    (h : p ⟨inp, inp :: stk⟩ = (.ok a, ⟨r, inp :: stk⟩)) :
    mapped p ⟨inp, stk⟩ = (.ok a, ⟨r, stk⟩) := by
  gsimp [mapped, h]

theorem mapped_fail {α} (p : P α) (inp r : Bytes) (stk : List Bytes)
    (h : p ⟨inp, inp :: stk⟩ = (.error .fail, ⟨r, inp :: stk⟩)) :
    mapped p ⟨inp, stk⟩ = (.error .fail, ⟨inp, stk⟩) := by
  gsimp [mapped, h]

/-! ### field names -/

theorem fieldPadding_ok (n d : Nat) (r : Bytes) (stk : List Bytes) (h : n ≤ d) :
    fieldPadding n d ⟨sp (d - n) ++ r, stk⟩ = (.ok 0, ⟨r, stk⟩) := by
  have h1 : ¬ n > d := by omega
  gsimp [fieldPadding, h1, isPrefixOf_self_append, sp_length]

theorem fieldName_ok (name : Bytes) (d : Nat) (r : Bytes) (stk : List Bytes) (h : name.length ≤ d) :
    fieldName name d ⟨name ++ (sp (d - name.length) ++ r), stk⟩ = (.ok 0, ⟨r, stk⟩) := by
  simp [fieldName, P.bind_run, lit_ok, fieldPadding_ok _ _ r stk h]

/-- a field name that does not start the input: clean failure -/
theorem fieldName_other (name : Bytes) (d : Nat) (inp : Bytes) (stk : List Bytes)
    (h : name.isPrefixOf inp = false) :
    fieldName name d ⟨inp, stk⟩ = (.error .fail, ⟨inp, stk⟩) := by
  simp [fieldName, P.bind_run, lit_fail _ _ _ h]

/-- `genbankGenericFieldParser(name, depth)` on `name`, padding, `AddPrefix(v, indent)`, LF -/
theorem genericField_ok (name : Bytes) (d : Nat) (v rest : Bytes) (stk : List Bytes)
    (hn : name.length ≤ d) (hv : noCR v = true) (hrest : (sp d).isPrefixOf rest = false) :
    genericField name d ⟨name ++ (sp (d - name.length) ++ (addPrefix (sp d) v ++ 10 :: rest)), stk⟩ =
      (.ok (v, (tailLines v).length, 0), ⟨rest, stk⟩) := by
  gsimp [genericField, fieldName_ok name d _ stk hn, fieldBody_addPrefix d v rest stk hv hrest]

theorem genericField_other (name : Bytes) (d : Nat) (inp : Bytes) (stk : List Bytes)
    (h : name.isPrefixOf inp = false) :
    genericField name d ⟨inp, stk⟩ = (.error .fail, ⟨inp, stk⟩) := by
  simp [genericField, P.bind_run, fieldName_other name d inp stk h]

/-! ### `AddPrefix` and the final period of DEFINITION -/

theorem addPrefix_append_byte (pre v : Bytes) (c : UInt8) (hc : c ≠ 10) :
    addPrefix pre (v ++ [c]) = addPrefix pre v ++ [c] := by
  induction v with
  | nil => simp [addPrefix, hc]
  | cons x v ih =>
    by_cases hx : x = 10
    · simp [addPrefix, hx, ih]
    · simp [addPrefix, hx, ih]

theorem noCR_append (a b : Bytes) : noCR (a ++ b) = (noCR a && noCR b) := by
  simp [noCR, List.all_append]

theorem trimDot_append_dot (v : Bytes) : trimDot (v ++ [46]) = v := by
  simp [trimDot]

/-! ### the fields -/

/-- **DEFINITION** round trip: every text without carriage return -/
theorem definition_roundtrip (f : Fields) (v rest : Bytes) (stk : List Bytes) (hv : noCR v = true)
    (hrest : (sp 12).isPrefixOf rest = false) :
    definitionField 12 f ⟨bs "DEFINITION  " ++ (addPrefix indent v ++ (bs ".\n" ++ rest)), stk⟩ =
      (.ok ({ f with definition := v }, true), ⟨rest, stk⟩) := by
  have hv' : noCR (v ++ [46]) = true := by rw [noCR_append, hv]; rfl
  have e : bs "DEFINITION  " ++ (addPrefix indent v ++ (bs ".\n" ++ rest)) =
      bs "DEFINITION" ++ (sp (12 - (bs "DEFINITION").length) ++ (addPrefix (sp 12) (v ++ [46]) ++ 10 :: rest)) := by
    rw [addPrefix_append_byte _ _ _ (by decide)]
    show _ = bs "DEFINITION" ++ (sp 2 ++ _)
    simp [str, sp, indent, List.append_assoc]
    rfl
  rw [e]
  have hn : (bs "DEFINITION").length ≤ 12 := by decide
  have hb := fun s => fieldBody_addPrefix 12 (v ++ [46]) rest s hv' hrest
  have hf := fun r s => fieldName_ok (bs "DEFINITION") 12 r s hn
  gsimp [definitionField, hf, hb, trimDot_append_dot]

theorem addPrefix_noLF (pre l : Bytes) (h : noEOL l = true) : addPrefix pre l = l := by
  induction l with
  | nil => rfl
  | cons c l ih =>
    rw [noEOL_cons] at h
    simp only [Bool.and_eq_true, bne_iff_ne, ne_eq] at h
    simp [addPrefix, h.1.1, ih h.2]

theorem noEOL_noCR (l : Bytes) (h : noEOL l = true) : noCR l = true := by
  induction l with
  | nil => rfl
  | cons c l ih =>
    rw [noEOL_cons] at h
    simp only [Bool.and_eq_true] at h
    simp [noCR, List.all_cons, h.1.2] at ih ⊢
    exact ih h.2

theorem tailLines_noLF (l : Bytes) (h : noEOL l = true) : tailLines l = [] := by
  induction l with
  | nil => simp [tailLines, splitLF]
  | cons c l ih =>
    rw [noEOL_cons] at h
    simp only [Bool.and_eq_true, bne_iff_ne, ne_eq] at h
    have e := splitLF_cons_other c l h.1.1
    simp [tailLines, e] at ih ⊢
    exact ih h.2

/-- a generic field whose value is one line (no CR, no LF) -/
theorem genericField_line (name : Bytes) (d : Nat) (l rest : Bytes) (stk : List Bytes)
    (hn : name.length ≤ d) (hl : noEOL l = true) (hrest : (sp d).isPrefixOf rest = false) :
    genericField name d ⟨name ++ (sp (d - name.length) ++ (l ++ 10 :: rest)), stk⟩ =
      (.ok (l, 0, 0), ⟨rest, stk⟩) := by
  have := genericField_ok name d l rest stk hn (noEOL_noCR l hl) hrest
  rw [addPrefix_noLF _ l hl, tailLines_noLF l hl] at this
  exact this

/-- **ACCESSION** round trip of the LINE: whatever stands on the line (no CR, no LF) becomes the
accession — including a ` REGION: a..b` suffix (known finding K1A) -/
theorem accession_roundtrip (f : Fields) (l rest : Bytes) (stk : List Bytes) (hl : noEOL l = true)
    (hrest : (sp 12).isPrefixOf rest = false) :
    accessionField 12 f ⟨bs "ACCESSION   " ++ (l ++ 10 :: rest), stk⟩ =
      (.ok ({ f with accession := l }, true), ⟨rest, stk⟩) := by
  have e : bs "ACCESSION   " ++ (l ++ 10 :: rest) =
      bs "ACCESSION" ++ (sp (12 - (bs "ACCESSION").length) ++ (l ++ 10 :: rest)) := by
    show _ = bs "ACCESSION" ++ (sp 3 ++ _)
    simp [bs, sp]
  rw [e]
  have hg := fun s => genericField_line (bs "ACCESSION") 12 l rest s (by decide) hl hrest
  gsimp [accessionField, mapped_ok _ _ rest stk _ (hg _)]

/-- **VERSION** round trip (one line) -/
theorem version_roundtrip (f : Fields) (l rest : Bytes) (stk : List Bytes) (hl : noEOL l = true)
    (hrest : (sp 12).isPrefixOf rest = false) :
    versionField 12 f ⟨bs "VERSION     " ++ (l ++ 10 :: rest), stk⟩ =
      (.ok ({ f with version := l }, true), ⟨rest, stk⟩) := by
  have e : bs "VERSION     " ++ (l ++ 10 :: rest) =
      bs "VERSION" ++ (sp (12 - (bs "VERSION").length) ++ (l ++ 10 :: rest)) := by
    show _ = bs "VERSION" ++ (sp 5 ++ _)
    simp [bs, sp]
  rw [e]
  have hg := fun s => genericField_line (bs "VERSION") 12 l rest s (by decide) hl hrest
  gsimp [versionField, mapped_ok _ _ rest stk _ (hg _)]

/-- **COMMENT** round trip: every text without carriage return; comments accumulate in order -/
theorem comment_roundtrip (f : Fields) (v rest : Bytes) (stk : List Bytes) (hv : noCR v = true)
    (hrest : (sp 12).isPrefixOf rest = false) :
    commentField 12 f ⟨bs "COMMENT     " ++ (addPrefix indent v ++ 10 :: rest), stk⟩ =
      (.ok ({ f with comments := f.comments ++ [v] }, true), ⟨rest, stk⟩) := by
  have e : bs "COMMENT     " ++ (addPrefix indent v ++ 10 :: rest) =
      bs "COMMENT" ++ (sp (12 - (bs "COMMENT").length) ++ (addPrefix (sp 12) v ++ 10 :: rest)) := by
    show _ = bs "COMMENT" ++ (sp 5 ++ _)
    simp [bs, sp, indent]
  rw [e]
  have hg := fun s => genericField_ok (bs "COMMENT") 12 v rest s (by decide) hv hrest
  gsimp [commentField, mapped_ok _ _ rest stk _ (hg _)]

/-- the domain of an extra field: an upper-case name of 1..12 bytes; a 12-byte name has no blank
behind it, so the value must not go on with an upper-case byte; a value without carriage return -/
def WritableExtra (name value : Bytes) : Bool :=
  !name.isEmpty && name.all isUpper && decide (name.length ≤ 12) && noCR value &&
  (decide (name.length < 12) || match value with | [] => true | c :: _ => !isUpper c)

/-- **extra field** round trip -/
theorem extra_roundtrip (f : Fields) (name value rest : Bytes) (stk : List Bytes)
    (hw : WritableExtra name value = true) (hrest : (sp 12).isPrefixOf rest = false) :
    extraField 12 f ⟨extraText name value ++ 10 :: rest, stk⟩ =
      (.ok ({ f with extra := f.extra ++ [(name, value)] }, true), ⟨rest, stk⟩) := by
  simp only [WritableExtra, Bool.and_eq_true, Bool.or_eq_true, Bool.not_eq_true', decide_eq_true_eq] at hw
  obtain ⟨⟨⟨⟨hne, hup⟩, hlen⟩, hv⟩, hnext⟩ := hw
  have hne' : name ≠ [] := by cases name <;> simp_all
  have e : extraText name value ++ 10 :: rest =
      name ++ (sp (12 - name.length) ++ (addPrefix (sp 12) value ++ 10 :: rest)) := by
    simp [extraText, padRight, indent, List.append_assoc]
  rw [e]
  -- the byte behind the name is not upper case
  have hstop : ∀ c, (sp (12 - name.length) ++ (addPrefix (sp 12) value ++ 10 :: rest)).head? = some c →
      isUpper c = false := by
    intro c hc
    by_cases hl : name.length < 12
    · have : sp (12 - name.length) = 32 :: sp (12 - name.length - 1) := by
        rw [← sp_succ]; congr 1; omega
      rw [this] at hc
      simp at hc; subst hc; decide
    · have h12 : 12 - name.length = 0 := by omega
      rw [h12] at hc
      simp only [sp, List.replicate_zero, List.nil_append] at hc
      rcases hnext with h | h
      · omega
      · cases value with
        | nil => simp [addPrefix] at hc; subst hc; decide
        | cons x v =>
          simp only at h
          by_cases hx : x = 10
          · subst hx; simp [addPrefix] at hc; subst hc; decide
          · simp [addPrefix, hx] at hc; subst hc; simpa using h
  have hw' := fun s => word_ok isUpper name _ s hup hne' hstop
  have hp := fun r s => fieldPadding_ok name.length 12 r s hlen
  have hb := fun s => fieldBody_addPrefix 12 value rest s hv hrest
  gsimp [extraField, hw', hp, hb]

end Gts.GenBank
