/-
  C01 helper lemmas: the generic header fields (DEFINITION, ACCESSION, VERSION, COMMENT, extra
  fields) as written by `GenBank.String` and read by their sub-parsers.  Core Lean only.
-/
import Gts.Lemmas.GbFieldBody
namespace Gts.GenBank
open Gts.Pars

/-! ### `Parser.Map` -/

theorem mapped_ok {α} (p : P α) (inp r : Bytes) (stk : List Bytes) (a : α)
    (h : p ⟨inp, inp :: stk⟩ = (.ok a, ⟨r, inp :: stk⟩)) :
    mapped p ⟨inp, stk⟩ = (.ok a, ⟨r, stk⟩) := by
  gsimp [mapped, h]

theorem mapped_fail {α} (p : P α) (inp r : Bytes) (stk : List Bytes)
    (h : p ⟨inp, inp :: stk⟩ = (.error .fail, ⟨r, inp :: stk⟩)) :
    mapped p ⟨inp, stk⟩ = (.error .fail, ⟨inp, stk⟩) := by
  gsimp [mapped, h]

/-! ### field names -/

theorem fieldPadding_ok (n d : Nat) (r : Bytes) (stk : List Bytes) (h : n ≤ d) :
    fieldPadding n d ⟨sp (d - n) ++ r, stk⟩ = (.ok 0, ⟨r, stk⟩) := by
  have h1 : ¬ n > d := by omega
  gsimp [fieldPadding, h1, isPrefixOf_self_append, sp_length]

theorem fieldName_ok (name : Bytes) (d : Nat) (r : Bytes) (stk : List Bytes) (h : name.length ≤ d) :
    fieldName name d ⟨name ++ (sp (d - name.length) ++ r), stk⟩ = (.ok 0, ⟨r, stk⟩) := by
  simp [fieldName, P.bind_run, lit_ok, fieldPadding_ok _ _ r stk h]

/-- a field name that does not start the input: clean failure -/
theorem fieldName_other (name : Bytes) (d : Nat) (inp : Bytes) (stk : List Bytes)
    (h : name.isPrefixOf inp = false) :
    fieldName name d ⟨inp, stk⟩ = (.error .fail, ⟨inp, stk⟩) := by
  simp [fieldName, P.bind_run, lit_fail _ _ _ h]

/-- `genbankGenericFieldParser(name, depth)` on `name`, padding, `AddPrefix(v, indent)`, LF -/
theorem genericField_ok (name : Bytes) (d : Nat) (v rest : Bytes) (stk : List Bytes)
    (hn : name.length ≤ d) (hv : noCR v = true) (hrest : (sp d).isPrefixOf rest = false) :
    genericField name d ⟨name ++ (sp (d - name.length) ++ (addPrefix (sp d) v ++ 10 :: rest)), stk⟩ =
      (.ok (v, (tailLines v).length, 0), ⟨rest, stk⟩) := by
  gsimp [genericField, fieldName_ok name d _ stk hn, fieldBody_addPrefix d v rest stk hv hrest]

theorem genericField_other (name : Bytes) (d : Nat) (inp : Bytes) (stk : List Bytes)
    (h : name.isPrefixOf inp = false) :
    genericField name d ⟨inp, stk⟩ = (.error .fail, ⟨inp, stk⟩) := by
  simp [genericField, P.bind_run, fieldName_other name d inp stk h]

/-! ### `AddPrefix` and the final period of DEFINITION -/

theorem addPrefix_append_byte (pre v : Bytes) (c : UInt8) (hc : c ≠ 10) :
    addPrefix pre (v ++ [c]) = addPrefix pre v ++ [c] := by
  induction v with
  | nil => simp [addPrefix, hc]
  | cons x v ih =>
    by_cases hx : x = 10
    · simp [addPrefix, hx, ih]
    · simp [addPrefix, hx, ih]

theorem noCR_append (a b : Bytes) : noCR (a ++ b) = (noCR a && noCR b) := by
  simp [noCR, List.all_append]

theorem trimDot_append_dot (v : Bytes) : trimDot (v ++ [46]) = v := by
  simp [trimDot]

/-! ### the fields -/

/-- **DEFINITION** round trip: every text without carriage return -/
theorem definition_roundtrip (f : Fields) (v rest : Bytes) (stk : List Bytes) (hv : noCR v = true)
    (hrest : (sp 12).isPrefixOf rest = false) :
    definitionField 12 f ⟨bs "DEFINITION  " ++ (addPrefix indent v ++ (bs ".\n" ++ rest)), stk⟩ =
      (.ok ({ f with definition := v }, true), ⟨rest, stk⟩) := by
  have hv' : noCR (v ++ [46]) = true := by rw [noCR_append, hv]; rfl
  have e : bs "DEFINITION  " ++ (addPrefix indent v ++ (bs ".\n" ++ rest)) =
      bs "DEFINITION" ++ (sp (12 - (bs "DEFINITION").length) ++ (addPrefix (sp 12) (v ++ [46]) ++ 10 :: rest)) := by
    rw [addPrefix_append_byte _ _ _ (by decide)]
    show _ = bs "DEFINITION" ++ (sp 2 ++ _)
    simp [str, sp, indent, List.append_assoc]
    rfl
  rw [e]
  have hn : (bs "DEFINITION").length ≤ 12 := by decide
  have hb := fun s => fieldBody_addPrefix 12 (v ++ [46]) rest s hv' hrest
  have hf := fun r s => fieldName_ok (bs "DEFINITION") 12 r s hn
  gsimp [definitionField, hf, hb, trimDot_append_dot]

end Gts.GenBank
