/-
  C07, record scanners: `tryAllParsers`, the record loop and `GenBankParser` itself never panic.
  `GenBankParser` is entered in any state whose saved positions are sorted: the LOCUS parser is
  balanced (`Fr`), then the stack is cleared and everything after runs under the S-invariant with
  the bound `L` = bytes left at entry; the range check on the LOCUS length and the indent
  `depth ≥ 5` reported by the LOCUS parser are what the ORIGIN reader resp. the DEFINITION retry
  need.  Core Lean only.
-/
import Gts.Lemmas.GbSafeOrigin
namespace Gts.Pars

theorem wp_all {α} {p : P α} {Q} {s : PS} (h : ∀ r s', Q r s') : WP p Q s := h _ _

theorem wp_clear_any {Q} {L base n} {s : PS} (h : Fr L base n s)
    (k : ∀ s', Fr L [] 0 s' → Q (.ok ()) s') : WP clear Q s := k _ h.cleared

end Gts.Pars

namespace Gts.GenBank
open Gts.Pars
variable {L : Nat}

/-- the indent `genbankLocusParser` reports is at least the five columns of `LOCUS` -/
theorem locusParser_depth (s : PS) : WP locusParser (fun r _ => ∀ l, r = .ok l → 5 ≤ l.depth) s := by
  unfold locusParser locusBack
  repeat (first
    | (rw [wp_bind]; apply wp_all; intro r _; cases r <;> dsimp only)
    | (rw [wp_fail]; intro b hb; cases hb)
    | (rw [wp_pure]; intro b hb; cases hb; exact Nat.le_add_left _ _)
    | (intro b hb; cases hb)
    | split)
theorem liftF_safeS (p : Fields → P (Fields × Bool)) (hp : ∀ f, SafeS L (p f)) (sub : Sub) :
    SafeS L (liftF p sub) := by
  obtain ⟨f, t, o, r⟩ := sub
  have := hp f
  unfold liftF; wps_run

theorem featuresSub_safeS (sub : Sub) : SafeS L (featuresSub sub) := by
  obtain ⟨f, t, o, r⟩ := sub
  have := featuresField_safeS (L := L) r
  unfold featuresSub; wps_run

theorem originSub_safeS (length : Int) (d : Nat) (h0 : 0 ≤ length) (sub : Sub) :
    SafeS L (originSub length d sub) := by
  obtain ⟨f, t, o, r⟩ := sub
  have := originField_safeS (L := L) length d h0
  unfold originSub; wps_run

theorem fieldParsers_safeS (length : Int) (d : Nat) (h0 : 0 ≤ length) (hd : 1 ≤ d) :
    ∀ p ∈ fieldParsers length d, ∀ sub, SafeS L (p sub) := by
  intro p hp
  simp only [fieldParsers, List.mem_cons, List.not_mem_nil, or_false] at hp
  rcases hp with rfl | rfl | rfl | rfl | rfl | rfl | rfl | rfl | rfl | rfl | rfl
  · exact liftF_safeS _ (definitionField_safeS d hd)
  · exact liftF_safeS _ (accessionField_safeS d)
  · exact liftF_safeS _ (versionField_safeS d)
  · exact liftF_safeS _ (dblinkField_safeS d)
  · exact liftF_safeS _ (keywordsField_safeS d)
  · exact liftF_safeS _ (sourceField_safeS d)
  · exact liftF_safeS _ (referenceField_safeS d)
  · exact liftF_safeS _ (commentField_safeS d)
  · exact featuresSub_safeS
  · exact liftF_safeS _ (contigField_safeS d)
  · exact originSub_safeS length d h0

/-- `tryAllParsers` over a list of sub-parsers each of which is safe -/
theorem tryList_safeS : ∀ (ps : List (Sub → P (Sub × Bool))),
    (∀ p ∈ ps, ∀ sub, SafeS L (p sub)) → ∀ sub, SafeS L (tryList ps sub)
  | [], _, sub => by unfold tryList; wps_run
  | p :: rest, hps, sub => by
    have hp : ∀ sub, SafeS L (p sub) := hps p (List.mem_cons_self ..)
    have ih := tryList_safeS rest (fun q hq => hps q (List.mem_cons_of_mem _ hq))
    clear hps
    unfold tryList; wps_run

theorem tryAll_safeS (length : Int) (d : Nat) (h0 : 0 ≤ length) (hd : 1 ≤ d)
    (sub : Sub) : SafeS L (tryAll length d sub) := by
  have h1 := tryList_safeS (L := L) _ (fieldParsers_safeS length d h0 hd)
  have h2 := extraField_safeS (L := L) d
  unfold tryAll; wps_run

theorem recordLoop_safeS (length : Int) (d : Nat) (h0 : 0 ≤ length) (hd : 1 ≤ d) :
    ∀ k sub, SafeS L (recordLoop length d k sub)
  | 0, sub => by unfold recordLoop; wps_run
  | k + 1, sub => by
    have ih := recordLoop_safeS length d h0 hd k
    have h1 := tryAll_safeS (L := L) length d h0 hd
    have h2 := endMark_safe
    unfold recordLoop; wps_run


/-- `GenBankParser` from any sorted state: no panic, the final state is sorted again and not
before the entry position -/
theorem genbankParser_wp (reg : Registry) (s : PS) (hs : Sorted s.rest.length s.stk) :
    WP (genbankParser reg) (fun r s' => r ≠ .error .panic ∧ Sorted s'.rest.length s'.stk ∧
      s'.rest.length ≤ s.rest.length) s := by
  have hsafe := locusParser_safe _ _ _ s (Fr.init hs)
  have hdep := locusParser_depth s
  unfold genbankParser
  rw [wp_bind]
  refine wp_mono (wp_and hsafe hdep) ?_
  intro r s1 ⟨⟨hnp, h1⟩, hd⟩
  rcases r with e | l
  · cases e
    · exact ⟨by simp, h1.srt, h1.le⟩
    · exact absurd rfl hnp
  · dsimp only
    have hd5 := hd l rfl
    rw [wp_bind]; apply wp_clear_any h1; intro s2 h2
    refine wp_mono (Q1 := Std s.rest.length [] 0) ?_ (fun r s' h => ⟨h.1, h.2.srt, h.2.le⟩)
    split
    · repeat wps_step
    · rename_i hc
      have h0 : 0 ≤ l.length := by omega
      have hrl := recordLoop_safeS (L := s.rest.length) l.length l.depth h0 (by omega)
      repeat wps_step

/-- the scan loop: every record is parsed from a fresh state on what the previous one left -/
theorem parseAll_ne_none : ∀ k (reg : Registry) (input : Bytes) (acc : List Record),
    parseAll reg k input acc ≠ none
  | 0, _, _, _ => by simp [parseAll]
  | k + 1, reg, input, acc => by
    unfold parseAll
    split
    · simp
    · have h := genbankParser_wp reg ⟨input, []⟩ trivial
      unfold WP at h
      rcases hrun : (genbankParser reg).run' ⟨input, []⟩ with ⟨r, s'⟩
      rw [hrun] at h
      rcases r with e | ⟨rec, reg'⟩
      · cases e
        · simp
        · exact absurd rfl h.1
      · dsimp only
        exact parseAll_ne_none k reg' s'.rest (rec :: acc)

/-! ### internal consistency of an accepted record -/

/-- a record is returned only if the LOCUS line was read, its length is not negative, and the
ORIGIN block read has exactly that many residues — or none at all next to a CONTIG line -/
theorem genbankParser_length (reg : Registry) (s : PS) (r : Record) (reg' : Registry) (s' : PS)
    (h : (genbankParser reg).run' s = (.ok (r, reg'), s')) :
    ∃ l s1, locusParser.run' s = (.ok l, s1) ∧ 0 ≤ l.length ∧
      (r.origin.len = l.length ∨ (r.origin.len = 0 ∧ r.fields.contigAcc ≠ [])) := by
  unfold genbankParser at h
  rw [run_bind] at h
  rcases hl : locusParser.run' s with ⟨r1, s1⟩
  rw [hl] at h
  rcases r1 with e | l
  · cases h
  · refine ⟨l, s1, rfl, ?_⟩
    dsimp only at h
    rw [run_bind, run_clear] at h
    dsimp only at h
    split at h
    · rw [run_bind, run_fail] at h; cases h
    · rename_i hc
      split at h
      · rw [run_bind, run_fail] at h; cases h
      · split at h
        · rw [run_fail] at h; cases h
        · rw [run_bind, run_getS] at h
          dsimp only at h
          rw [run_bind] at h
          generalize (recordLoop _ _ _ _).run' _ = rr at h
          rcases rr with ⟨r2, s2⟩
          rcases r2 with e | ⟨f, tab, org, rg⟩
          · cases h
          · dsimp only at h
            split at h
            · rw [run_bind, run_fail] at h; cases h
            · rename_i hm
              rw [run_pure] at h
              cases h
              refine ⟨by omega, ?_⟩
              dsimp only
              by_cases h1 : org.len = l.length
              · exact Or.inl h1
              · right
                by_cases h2 : org.len = 0
                · refine ⟨h2, ?_⟩
                  intro h3
                  apply hm
                  exact ⟨h1, Or.inr (by rw [h3]; rfl)⟩
                · exact absurd ⟨h1, Or.inl h2⟩ hm

/-- every sorted state satisfies the S-invariant for a large enough bound -/
theorem exists_bound (s : PS) (hs : Sorted s.rest.length s.stk) : ∃ L, Fr L [] 0 s := by
  have key : ∀ (st : List Bytes) (n : Nat), ∃ L, n ≤ L ∧ ∀ f ∈ st, f.length ≤ L := by
    intro st
    induction st with
    | nil => intro n; exact ⟨n, Nat.le_refl _, fun _ hf => nomatch hf⟩
    | cons g st ih =>
      intro n
      obtain ⟨L, h1, h2⟩ := ih (max n g.length)
      refine ⟨L, by omega, ?_⟩
      intro f hf
      rcases List.mem_cons.mp hf with rfl | hf
      · omega
      · exact h2 f hf
  obtain ⟨L, h1, h2⟩ := key s.stk s.rest.length
  exact ⟨L, Fr.mk0 h2 h1 hs⟩

end Gts.GenBank
