/-
  C07, record scanners: `tryAllParsers`, the record loop and `GenBankParser` itself never panic.
  `GenBankParser` is entered in any state whose saved positions are sorted: the LOCUS parser is
  balanced (`Fr`), then the stack is cleared and everything after runs under the S-invariant with
  the bound `L` = bytes left at entry; the range check on the LOCUS length and the indent
  `depth ≥ 5` reported by the LOCUS parser are what the ORIGIN reader resp. the DEFINITION retry
  need.  Core Lean only.
-/
import Gts.Lemmas.GbSafeOrigin
namespace Gts.Pars

theorem wp_all {α} {p : P α} {Q} {s : PS} (h : ∀ r s', Q r s') : WP p Q s := h _ _

theorem wp_clear_any {Q} {L base n} {s : PS} (h : Fr L base n s)
    (k : ∀ s', Fr L [] 0 s' → Q (.ok ()) s') : WP clear Q s := k _ h.cleared

end Gts.Pars

namespace Gts.GenBank
open Gts.Pars
variable {L : Nat}

/-- the indent `genbankLocusParser` reports is at least the five columns of `LOCUS` -/
theorem locusParser_depth (s : PS) : WP locusParser (fun r _ => ∀ l, r = .ok l → 5 ≤ l.depth) s := by
  unfold locusParser locusBack
  repeat (first
    | (rw [wp_bind]; apply wp_all; intro r _; cases r <;> dsimp only)
    | (rw [wp_fail]; intro b hb; cases hb)
    | (rw [wp_pure]; intro b hb; cases hb; exact Nat.le_add_left _ _)
    | (intro b hb; cases hb)
    | split)
theorem liftF_safeS (p : Fields → P (Fields × Bool)) (hp : ∀ f, SafeS L (p f)) (sub : Sub) :
    SafeS L (liftF p sub) := by
  obtain ⟨f, t, o, r⟩ := sub
  have := hp f
  unfold liftF; wps_run

theorem featuresSub_safeS (sub : Sub) : SafeS L (featuresSub sub) := by
  obtain ⟨f, t, o, r⟩ := sub
  have := featuresField_safeS (L := L) r
  unfold featuresSub; wps_run

theorem originSub_safeS (length : Int) (d : Nat) (h0 : 0 ≤ length) (hL : L < 10 ^ 9) (sub : Sub) :
    SafeS L (originSub length d sub) := by
  obtain ⟨f, t, o, r⟩ := sub
  have := originField_safeS (L := L) length d h0 hL
  unfold originSub; wps_run

theorem fieldParsers_safeS (length : Int) (d : Nat) (h0 : 0 ≤ length) (hd : 1 ≤ d)
    (hL : L < 10 ^ 9) : ∀ p ∈ fieldParsers length d, ∀ sub, SafeS L (p sub) := by
  intro p hp
  simp only [fieldParsers, List.mem_cons, List.not_mem_nil, or_false] at hp
  rcases hp with rfl | rfl | rfl | rfl | rfl | rfl | rfl | rfl | rfl | rfl | rfl
  · exact liftF_safeS _ (definitionField_safeS d hd)
  · exact liftF_safeS _ (accessionField_safeS d)
  · exact liftF_safeS _ (versionField_safeS d)
  · exact liftF_safeS _ (dblinkField_safeS d)
  · exact liftF_safeS _ (keywordsField_safeS d)
  · exact liftF_safeS _ (sourceField_safeS d)
  · exact liftF_safeS _ (referenceField_safeS d)
  · exact liftF_safeS _ (commentField_safeS d)
  · exact featuresSub_safeS
  · exact liftF_safeS _ (contigField_safeS d)
  · exact originSub_safeS length d h0 hL

/-- `tryAllParsers` over a list of sub-parsers each of which is safe -/
theorem tryList_safeS : ∀ (ps : List (Sub → P (Sub × Bool))),
    (∀ p ∈ ps, ∀ sub, SafeS L (p sub)) → ∀ sub, SafeS L (tryList ps sub)
  | [], _, sub => by unfold tryList; wps_run
  | p :: rest, hps, sub => by
    have hp : ∀ sub, SafeS L (p sub) := hps p (List.mem_cons_self ..)
    have ih := tryList_safeS rest (fun q hq => hps q (List.mem_cons_of_mem _ hq))
    clear hps
    unfold tryList; wps_run

theorem tryAll_safeS (length : Int) (d : Nat) (h0 : 0 ≤ length) (hd : 1 ≤ d) (hL : L < 10 ^ 9)
    (sub : Sub) : SafeS L (tryAll length d sub) := by
  have h1 := tryList_safeS (L := L) _ (fieldParsers_safeS length d h0 hd hL)
  have h2 := extraField_safeS (L := L) d
  unfold tryAll; wps_run

theorem recordLoop_safeS (length : Int) (d : Nat) (h0 : 0 ≤ length) (hd : 1 ≤ d) (hL : L < 10 ^ 9) :
    ∀ k sub, SafeS L (recordLoop length d k sub)
  | 0, sub => by unfold recordLoop; wps_run
  | k + 1, sub => by
    have ih := recordLoop_safeS length d h0 hd hL k
    have h1 := tryAll_safeS (L := L) length d h0 hd hL
    have h2 := endMark_safe
    unfold recordLoop; wps_run


/-- `GenBankParser` from any sorted state with fewer than 10^9 bytes left: no panic, the final
state is sorted again and not before the entry position -/
theorem genbankParser_wp (reg : Registry) (s : PS) (hs : Sorted s.rest.length s.stk)
    (hlen : s.rest.length < 10 ^ 9) :
    WP (genbankParser reg) (fun r s' => r ≠ .error .panic ∧ Sorted s'.rest.length s'.stk ∧
      s'.rest.length ≤ s.rest.length) s := by
  have hsafe := locusParser_safe _ _ _ s (Fr.init hs)
  have hdep := locusParser_depth s
  unfold genbankParser
  rw [wp_bind]
  refine wp_mono (wp_and hsafe hdep) ?_
  intro r s1 ⟨⟨hnp, h1⟩, hd⟩
  rcases r with e | l
  · cases e
    · exact ⟨by simp, h1.srt, h1.le⟩
    · exact absurd rfl hnp
  · dsimp only
    have hd5 := hd l rfl
    rw [wp_bind]; apply wp_clear_any h1; intro s2 h2
    refine wp_mono (Q1 := Std s.rest.length [] 0) ?_ (fun r s' h => ⟨h.1, h.2.srt, h.2.le⟩)
    split
    · repeat wps_step
    · rename_i hc
      have h0 : 0 ≤ l.length := by omega
      have hrl := recordLoop_safeS (L := s.rest.length) l.length l.depth h0 (by omega) hlen
      repeat wps_step

end Gts.GenBank
