/-
  `LocationList.Push` / `Join` / `Order` keep the outer partial markers (`marks`) of what they
  are given, unless a marker-moving rule fires (`…MarkAbs`, `Gts/Spec/MarkGuard.lean`).
  Core Lean only.
-/
import Gts.Lemmas.Marks
namespace Gts
namespace Loc

/-- markers of a reversed accumulator -/
def marksR (racc : List Loc) : Mk := marksList racc.reverse

@[simp] theorem marksR_nil : marksR [] = none := by simp [marksR]
@[simp] theorem marksR_cons (x : Loc) (racc : List Loc) :
    marksR (x :: racc) = mcomb (marksR racc) (marks x) := by
  simp [marksR, marksList_append]

/-- what a push function must satisfy (induction hypothesis for the lower nesting level) -/
structure PushMk (low : List Loc → Loc → Bool → List Loc) (lowAbs : List Loc → Loc → Bool → Bool) :
    Prop where
  keeps : ∀ racc x f, rwfList racc = true → rwf x = true → lowAbs racc x f = false →
      marksR (low racc x f) = mcomb (marksR racc) (marks x)
  rwf : ∀ racc x f, rwfList racc = true → rwf x = true → rwfList (low racc x f) = true

theorem fold_mk {low lowAbs} (h : PushMk low lowAbs) (f : Bool) :
    ∀ (ys racc : List Loc), rwfList racc = true → rwfList ys = true →
      (foldAbs low lowAbs f racc ys = false →
        marksR (ys.foldl (fun acc y => low acc y f) racc) = mcomb (marksR racc) (marksList ys)) ∧
      rwfList (ys.foldl (fun acc y => low acc y f) racc) = true := by
  intro ys
  induction ys with
  | nil => intro racc hr _; simp [hr]
  | cons y ys ih =>
    intro racc hr hys
    simp only [rwfList_cons, Bool.and_eq_true] at hys
    have hw := h.rwf racc y f hr hys.1
    have := ih (low racc y f) hw hys.2
    refine ⟨?_, this.2⟩
    intro ha
    simp only [foldAbs, Bool.or_eq_false_iff] at ha
    simp only [List.foldl_cons, marksList_cons]
    rw [this.1 ha.2, h.keeps racc y f hr hys.1 ha.1, mcomb_assoc]

theorem inner_marks (j : List Loc) : marks (ofParts j) = marksList j := by
  match j with
  | [] => simp [ofParts]
  | [a] => simp [ofParts]
  | _ :: _ :: _ => simp [ofParts]

theorem compl_case_mk {low lowAbs} (h : PushMk low lowAbs) (rest : List Loc) (vl ul : Loc) (f : Bool)
    (hrest : rwfList rest = true) (hv : rwf vl = true) (hx : rwf ul = true) :
    (markAbsOne low lowAbs (compl vl :: rest) (compl ul) f = false →
      marksR (pushOne low (compl vl :: rest) (compl ul) f) =
        mcomb (marksR (compl vl :: rest)) (marks (compl ul))) ∧
    rwfList (pushOne low (compl vl :: rest) (compl ul) f) = true := by
  have hw1 : rwfList (low [ul] vl f) = true := h.rwf [ul] vl f (by simp [hx]) hv
  have hw1r : rwfList (low [ul] vl f).reverse = true := by rw [rwfList_reverse]; exact hw1
  have hf := fold_mk h true (low [ul] vl f).reverse [] (by simp) hw1r
  simp only [pushOne, markAbsOne, marksR_cons, rwfList_cons, marks_compl, Bool.or_eq_false_iff]
  refine ⟨?_, ?_⟩
  · rintro ⟨ha1, ha2⟩
    rw [inner_marks]
    have h1 := h.keeps [ul] vl f (by simp [hx]) hv ha1
    have h2 := hf.1 ha2
    simp only [marksR_nil, mcomb_none_left] at h2
    have h3 : marksList ((low [ul] vl f).reverse) = marksR (low [ul] vl f) := rfl
    rw [h3, h1] at h2
    simp only [marksR_cons, marksR_nil, mcomb_none_left] at h2
    have h4 : marksList (List.foldl (fun acc y => low acc y true) [] (low [ul] vl f).reverse).reverse
        = mcomb (marks ul) (marks vl) := h2
    rw [h4, mswap_mcomb, mcomb_assoc]
  · rw [hrest, Bool.and_true]
    show rwf (ofParts _) = true
    apply inner_rwf
    rw [rwfList_reverse]
    exact hf.2

theorem pushOne_mk {low lowAbs} (h : PushMk low lowAbs) (racc : List Loc) (x : Loc) (f : Bool)
    (hr : rwfList racc = true) (hx : rwf x = true) :
    (markAbsOne low lowAbs racc x f = false →
      marksR (pushOne low racc x f) = mcomb (marksR racc) (marks x)) ∧
    rwfList (pushOne low racc x f) = true := by
  cases racc with
  | nil => simp [pushOne, hx]
  | cons v rest =>
    simp only [rwfList_cons, Bool.and_eq_true] at hr
    obtain ⟨hv, hrest⟩ := hr
    by_cases hcc : (∃ vl ul, v = compl vl ∧ x = compl ul)
    · obtain ⟨vl, ul, rfl, rfl⟩ := hcc
      exact compl_case_mk h rest vl ul f hrest (by simpa [rwf] using hv) (by simpa [rwf] using hx)
    · cases v <;> cases x <;>
        (first | (exfalso; exact hcc ⟨_, _, rfl, rfl⟩) | skip) <;>
        simp only [pushOne, markAbsOne] <;>
        (try split) <;>
        (try simp only [marksR_cons, rwfList_cons, marks_between, marks_point,
          marks_ranged, marks_ambiguous, marks_joined, marks_ordered, marks_compl, hx, hv, hrest,
          Bool.and_self, and_true, implies_true, mcomb_none_right]) <;>
        (generalize marksR rest = m; cases m <;> simp_all [rwf, mcomb])
      · omega
      · refine ⟨?_, by omega⟩
        rw [if_pos (by omega)]

mutual
theorem pushW_mk {low lowAbs} (h : PushMk low lowAbs) :
    ∀ (x : Loc) (racc : List Loc) (f : Bool), rwfList racc = true → rwf x = true →
      (markAbsW low lowAbs racc x f = false →
        marksR (pushW low racc x f) = mcomb (marksR racc) (marks x)) ∧
      rwfList (pushW low racc x f) = true
  | joined parts, racc, f, hr, hx => by
      have := pushListW_mk h parts racc f hr (by simpa [rwf] using hx)
      simpa [pushW, markAbsW] using this
  | between p, racc, f, hr, hx => by simpa [pushW, markAbsW] using pushOne_mk h racc (between p) f hr hx
  | point p, racc, f, hr, hx => by simpa [pushW, markAbsW] using pushOne_mk h racc (point p) f hr hx
  | ranged s e a b, racc, f, hr, hx => by
      simpa [pushW, markAbsW] using pushOne_mk h racc (ranged s e a b) f hr hx
  | ambiguous s e, racc, f, hr, hx => by
      simpa [pushW, markAbsW] using pushOne_mk h racc (ambiguous s e) f hr hx
  | ordered ls, racc, f, hr, hx => by
      simpa [pushW, markAbsW] using pushOne_mk h racc (ordered ls) f hr hx
  | compl l, racc, f, hr, hx => by simpa [pushW, markAbsW] using pushOne_mk h racc (compl l) f hr hx
theorem pushListW_mk {low lowAbs} (h : PushMk low lowAbs) :
    ∀ (ps : List Loc) (racc : List Loc) (f : Bool), rwfList racc = true → rwfList ps = true →
      (markAbsListW low lowAbs racc ps f = false →
        marksR (pushListW low racc ps f) = mcomb (marksR racc) (marksList ps)) ∧
      rwfList (pushListW low racc ps f) = true
  | [], racc, f, hr, _ => by simp [pushListW, hr]
  | p :: ps, racc, f, hr, hps => by
      simp only [rwfList_cons, Bool.and_eq_true] at hps
      have h1 := pushW_mk h p racc f hr hps.1
      have h2 := pushListW_mk h ps (pushW low racc p f) f h1.2 hps.2
      refine ⟨?_, by simpa [pushListW] using h2.2⟩
      intro ha
      simp only [markAbsListW, Bool.or_eq_false_iff] at ha
      simp only [pushListW, marksList_cons]
      rw [h2.1 ha.2, h1.1 ha.1, mcomb_assoc]
end

theorem pushD_mk : ∀ d, PushMk (pushD d) (markAbsD d)
  | 0 => ⟨fun racc x f _ _ _ => by simp [pushD],
          fun racc x f hr hx => by simp [pushD, hr, hx]⟩
  | d + 1 => ⟨fun racc x f hr hx ha => (pushW_mk (pushD_mk d) x racc f hr hx).1 ha,
              fun racc x f hr hx => (pushW_mk (pushD_mk d) x racc f hr hx).2⟩

/-- **Join keeps the outer markers** of the list it is given, unless a marker-moving rule fires -/
theorem joinD_marks (d : Nat) (xs : List Loc) (hw : rwfList xs = true) (ha : joinMarkAbsD d xs = false) :
    marks (joinD d xs) = marksList xs := by
  have := (fold_mk (pushD_mk d) true xs [] (by simp) hw).1 ha
  simpa [joinD, inner_marks, pushAllD, marksR] using this

theorem join_marks (xs : List Loc) (hw : rwfList xs = true) (ha : joinMarkAbs xs = false) :
    marks (join xs) = marksList xs := joinD_marks _ xs hw ha

mutual
theorem marksList_flattenOrd : ∀ (l : Loc), marksList (flattenOrd l) = marks l
  | ordered ls => by simpa [flattenOrd] using marksList_flattenOrdList ls
  | between p => by simp [flattenOrd]
  | point p => by simp [flattenOrd]
  | ranged s e a b => by simp [flattenOrd]
  | ambiguous s e => by simp [flattenOrd]
  | joined ls => by simp [flattenOrd]
  | compl l => by simp [flattenOrd]
theorem marksList_flattenOrdList : ∀ (ls : List Loc), marksList (flattenOrdList ls) = marksList ls
  | [] => by simp [flattenOrdList]
  | l :: ls => by
      simp [flattenOrdList, marksList_append, marksList_flattenOrd l, marksList_flattenOrdList ls]
end

/-- `Order` never changes the outer markers -/
theorem order_marks (xs : List Loc) : marks (order xs) = marksList xs := by
  unfold order
  rw [← marksList_flattenOrdList xs]
  generalize flattenOrdList xs = j
  match j with
  | [] => simp
  | [a] => simp
  | _ :: _ :: _ => simp

theorem joinD_rwf (d : Nat) (xs : List Loc) (hw : rwfList xs = true) : rwf (joinD d xs) = true := by
  have := (fold_mk (pushD_mk d) true xs [] (by simp) hw).2
  apply inner_rwf
  rw [rwfList_reverse]
  exact this

theorem join_rwf (xs : List Loc) (hw : rwfList xs = true) : rwf (join xs) = true := joinD_rwf _ xs hw

mutual
theorem rwfList_flattenOrd : ∀ (l : Loc), rwf l = true → rwfList (flattenOrd l) = true
  | ordered ls, h => by simpa [flattenOrd] using rwfList_flattenOrdList ls (by simpa [rwf] using h)
  | between p, _ => by simp [flattenOrd, rwf]
  | point p, _ => by simp [flattenOrd, rwf]
  | ranged s e a b, h => by simpa [flattenOrd] using h
  | ambiguous s e, h => by simpa [flattenOrd] using h
  | joined ls, h => by simpa [flattenOrd] using h
  | compl l, h => by simpa [flattenOrd] using h
theorem rwfList_flattenOrdList : ∀ (ls : List Loc), rwfList ls = true → rwfList (flattenOrdList ls) = true
  | [], _ => by simp [flattenOrdList]
  | l :: ls, h => by
      simp only [rwfList_cons, Bool.and_eq_true] at h
      simp [flattenOrdList, rwfList_append, rwfList_flattenOrd l h.1, rwfList_flattenOrdList ls h.2]
end

theorem order_rwf (xs : List Loc) (h : rwfList xs = true) : rwf (order xs) = true := by
  unfold order
  have := rwfList_flattenOrdList xs h
  revert this
  generalize flattenOrdList xs = j
  intro hj
  match j, hj with
  | [], _ => simp [rwf]
  | [a], hj => simpa using hj
  | a :: b :: r, hj => simpa [rwf] using hj

end Loc
end Gts
