/-
  The marker guards of Reverse / Shift / Expand(-k) / Normalize follow from the K2 guards and
  duplicate-freeness of the denotation (`Gts/Lemmas/MarkGuardNodup.lean` lifted through the
  recursive location methods).  Core Lean only.
-/
import Gts.Lemmas.MarkGuardNodup
import Gts.Lemmas.Reverse
import Gts.Lemmas.Shift
import Gts.Lemmas.Delete
import Gts.Lemmas.Normalize
import Gts.Lemmas.Guest
namespace Gts
namespace Loc

/-! ### the position maps keep a residue list duplicate-free -/

theorem nodup_mapPos_of_inj (f : Int → Int) (d : List Pos)
    (hinj : ∀ a ∈ d, ∀ b ∈ d, f a.1 = f b.1 → a.1 = b.1) (h : d.Nodup) : (mapPos f d).Nodup := by
  unfold mapPos
  rw [List.Nodup, List.pairwise_map]
  refine List.Pairwise.imp_of_mem ?_ h
  intro a b ha hb hne he
  apply hne
  have h1 := (Prod.mk.inj he).1
  have h2 := (Prod.mk.inj he).2
  exact Prod.ext (hinj a ha b hb h1) h2

theorem nodup_mapPos_insMap (i n : Int) (hn : 0 ≤ n) (d : List Pos) (h : d.Nodup) :
    (mapPos (insMap i n) d).Nodup := by
  apply nodup_mapPos_of_inj _ _ _ h
  intro a _ b _ he
  unfold insMap at he
  split at he <;> split at he <;> omega

theorem nodup_mirrorDen (L : Int) (d : List Pos) (h : d.Nodup) : (mirrorDen L d).Nodup := by
  unfold mirrorDen
  have h1 : (mapPos (mirrorMap L) d).Nodup := by
    apply nodup_mapPos_of_inj _ _ _ h
    intro a _ b _ he
    unfold mirrorMap at he
    omega
  rw [List.Nodup, List.pairwise_reverse]
  exact List.Pairwise.imp (fun hab => Ne.symm hab) h1

theorem nodup_filterMapPos_delMap (i k : Int) (_hk : 0 ≤ k) (d : List Pos) (h : d.Nodup) :
    (filterMapPos (delMap i k) d).Nodup := by
  unfold filterMapPos
  rw [List.Nodup, List.pairwise_filterMap]
  refine List.Pairwise.imp ?_ h
  intro a b hne x hx y hy hxy
  apply hne
  cases ha : delMap i k a.1 with
  | none => rw [ha] at hx; simp at hx
  | some u =>
    cases hb : delMap i k b.1 with
    | none => rw [hb] at hy; simp at hy
    | some v =>
      rw [ha] at hx; rw [hb] at hy
      simp only [Option.map_some, Option.some.injEq] at hx hy
      subst hx; subst hy
      have h1 : u = v := (Prod.mk.inj hxy).1
      have h2 : a.2 = b.2 := (Prod.mk.inj hxy).2
      subst h1
      apply Prod.ext _ h2
      unfold delMap at ha hb
      split at ha <;> split at hb <;> (try split at ha) <;> (try split at hb) <;> simp_all <;> omega

theorem nodup_append_left {a b : List Pos} (h : (a ++ b).Nodup) : a.Nodup := (List.nodup_append.mp h).1
theorem nodup_append_right {a b : List Pos} (h : (a ++ b).Nodup) : b.Nodup := (List.nodup_append.mp h).2.1

/-! ### Reverse -/

mutual
theorem reverseMarkAbs_of_nodup : ∀ (l : Loc) (L : Int), wf l = true → reverseAbs l L = false →
    (den l).Nodup → reverseMarkAbs l L = false
  | between _, _, _, _, _ => by simp [reverseMarkAbs]
  | point _, _, _, _, _ => by simp [reverseMarkAbs]
  | ranged _ _ _ _, _, _, _, _ => by simp [reverseMarkAbs]
  | ambiguous _ _, _, _, _, _ => by simp [reverseMarkAbs]
  | joined ls, L, hw, hk, hnd => by
      have hw' : wfList ls = true := by simpa [wf] using hw
      simp only [reverseAbs, Bool.or_eq_false_iff] at hk
      simp only [den_joined] at hnd
      simp only [reverseMarkAbs, Bool.or_eq_false_iff]
      have ih := reverseList_mirror ls L hw'
      refine ⟨reverseMarkAbsList_of_nodup ls L hw' hk.1 hnd, ?_⟩
      apply joinMarkAbs_of_nodup _ (by rw [wfList_reverse]; exact ih.2) hk.2
      exact Refines.nodup (ih.1 hk.1) (nodup_mirrorDen L _ hnd)
  | ordered ls, L, hw, hk, hnd => by
      simp only [reverseAbs] at hk
      simp only [den_ordered] at hnd
      simp only [reverseMarkAbs]
      exact reverseMarkAbsList_of_nodup ls L (by simpa [wf] using hw) hk hnd
  | compl l, L, hw, hk, hnd => by
      simp only [reverseAbs] at hk
      simp only [den_compl] at hnd
      simp only [reverseMarkAbs]
      exact reverseMarkAbs_of_nodup l L (by simpa [wf] using hw) hk (nodup_flipDen.mp hnd)
theorem reverseMarkAbsList_of_nodup : ∀ (ls : List Loc) (L : Int), wfList ls = true →
    reverseAbsList ls L = false → (denList ls).Nodup → reverseMarkAbsList ls L = false
  | [], _, _, _, _ => by simp [reverseMarkAbsList]
  | l :: ls, L, hw, hk, hnd => by
      simp only [wfList_cons, Bool.and_eq_true] at hw
      simp only [reverseAbsList, Bool.or_eq_false_iff] at hk
      simp only [denList_cons] at hnd
      simp only [reverseMarkAbsList, Bool.or_eq_false_iff]
      exact ⟨reverseMarkAbs_of_nodup l L hw.1 hk.1 (nodup_append_left hnd),
        reverseMarkAbsList_of_nodup ls L hw.2 hk.2 (nodup_append_right hnd)⟩
end

/-! ### Shift (`n ≥ 0`) -/

mutual
theorem shiftMarkAbs_of_nodup : ∀ (l : Loc) (i n : Int), wf l = true → 0 ≤ n →
    shiftAbs l i n = false → (den l).Nodup → shiftMarkAbs l i n = false
  | between _, _, _, _, _, _, _ => by simp [shiftMarkAbs]
  | point _, _, _, _, _, _, _ => by simp [shiftMarkAbs]
  | ranged _ _ _ _, _, _, _, _, _, _ => by simp [shiftMarkAbs]
  | ambiguous _ _, _, _, _, _, _, _ => by simp [shiftMarkAbs]
  | joined ls, i, n, hw, hn, hk, hnd => by
      have hw' : wfList ls = true := by simpa [wf] using hw
      simp only [shiftAbs, Bool.or_eq_false_iff] at hk
      simp only [den_joined] at hnd
      simp only [shiftMarkAbs, Bool.or_eq_false_iff]
      have ih := shiftList_ins ls i n hw' hn
      refine ⟨shiftMarkAbsList_of_nodup ls i n hw' hn hk.1 hnd, ?_⟩
      apply joinMarkAbs_of_nodup _ ih.2 hk.2
      exact Refines.nodup (ih.1 hk.1) (nodup_mapPos_insMap i n hn _ hnd)
  | ordered ls, i, n, hw, hn, hk, hnd => by
      simp only [shiftAbs] at hk
      simp only [den_ordered] at hnd
      simp only [shiftMarkAbs]
      exact shiftMarkAbsList_of_nodup ls i n (by simpa [wf] using hw) hn hk hnd
  | compl l, i, n, hw, hn, hk, hnd => by
      simp only [shiftAbs] at hk
      simp only [den_compl] at hnd
      simp only [shiftMarkAbs]
      exact shiftMarkAbs_of_nodup l i n (by simpa [wf] using hw) hn hk (nodup_flipDen.mp hnd)
theorem shiftMarkAbsList_of_nodup : ∀ (ls : List Loc) (i n : Int), wfList ls = true → 0 ≤ n →
    shiftAbsList ls i n = false → (denList ls).Nodup → shiftMarkAbsList ls i n = false
  | [], _, _, _, _, _, _ => by simp [shiftMarkAbsList]
  | l :: ls, i, n, hw, hn, hk, hnd => by
      simp only [wfList_cons, Bool.and_eq_true] at hw
      simp only [shiftAbsList, Bool.or_eq_false_iff] at hk
      simp only [denList_cons] at hnd
      simp only [shiftMarkAbsList, Bool.or_eq_false_iff]
      exact ⟨shiftMarkAbs_of_nodup l i n hw.1 hn hk.1 (nodup_append_left hnd),
        shiftMarkAbsList_of_nodup ls i n hw.2 hn hk.2 (nodup_append_right hnd)⟩
end

/-! ### Expand(-k) (deletion) -/

mutual
theorem expandDelMarkAbs_of_nodup : ∀ (l : Loc) (i k : Int), wf l = true → 0 < k →
    expandAbs l i (-k) = false → (den l).Nodup → expandMarkAbs l i (-k) = false
  | between _, _, _, _, _, _, _ => by simp [expandMarkAbs]
  | point _, _, _, _, _, _, _ => by simp [expandMarkAbs]
  | ranged _ _ _ _, _, _, _, _, _, _ => by simp [expandMarkAbs]
  | ambiguous _ _, _, _, _, _, _, _ => by simp [expandMarkAbs]
  | joined ls, i, k, hw, hk, hg, hnd => by
      have hw' : wfList ls = true := by simpa [wf] using hw
      simp only [expandAbs, Bool.or_eq_false_iff] at hg
      simp only [den_joined] at hnd
      simp only [expandMarkAbs, Bool.or_eq_false_iff]
      have ih := expandList_del ls i k hw' hk
      refine ⟨expandDelMarkAbsList_of_nodup ls i k hw' hk hg.1 hnd, ?_⟩
      apply joinMarkAbs_of_nodup _ ih.2 hg.2
      exact Refines.nodup (ih.1 hg.1) (nodup_filterMapPos_delMap i k (by omega) _ hnd)
  | ordered ls, i, k, hw, hk, hg, hnd => by
      simp only [expandAbs] at hg
      simp only [den_ordered] at hnd
      simp only [expandMarkAbs]
      exact expandDelMarkAbsList_of_nodup ls i k (by simpa [wf] using hw) hk hg hnd
  | compl l, i, k, hw, hk, hg, hnd => by
      simp only [expandAbs] at hg
      simp only [den_compl] at hnd
      simp only [expandMarkAbs]
      exact expandDelMarkAbs_of_nodup l i k (by simpa [wf] using hw) hk hg (nodup_flipDen.mp hnd)
theorem expandDelMarkAbsList_of_nodup : ∀ (ls : List Loc) (i k : Int), wfList ls = true → 0 < k →
    expandAbsList ls i (-k) = false → (denList ls).Nodup → expandMarkAbsList ls i (-k) = false
  | [], _, _, _, _, _, _ => by simp [expandMarkAbsList]
  | l :: ls, i, k, hw, hk, hg, hnd => by
      simp only [wfList_cons, Bool.and_eq_true] at hw
      simp only [expandAbsList, Bool.or_eq_false_iff] at hg
      simp only [denList_cons] at hnd
      simp only [expandMarkAbsList, Bool.or_eq_false_iff]
      exact ⟨expandDelMarkAbs_of_nodup l i k hw.1 hk hg.1 (nodup_append_left hnd),
        expandDelMarkAbsList_of_nodup ls i k hw.2 hk hg.2 (nodup_append_right hnd)⟩
end

/-! ### Expand(0, k) on non-negative coordinates is Shift(0, k) (the first step of Rotate) -/

mutual
theorem shiftMarkAbs0_eq : ∀ (l : Loc) (k : Int), wf l = true → nonneg l = true → 0 ≤ k →
    shiftMarkAbs l 0 k = expandMarkAbs l 0 k
  | between _, _, _, _, _ => by simp [shiftMarkAbs, expandMarkAbs]
  | point _, _, _, _, _ => by simp [shiftMarkAbs, expandMarkAbs]
  | ranged _ _ _ _, _, _, _, _ => by simp [shiftMarkAbs, expandMarkAbs]
  | ambiguous _ _, _, _, _, _ => by simp [shiftMarkAbs, expandMarkAbs]
  | joined ls, k, hw, hn, hk => by
      have hw' : wfList ls = true := by simpa [wf] using hw
      have hn' : nonnegList ls = true := by simpa [nonneg] using hn
      simp only [shiftMarkAbs, expandMarkAbs]
      rw [shiftMarkAbsList0_eq ls k hw' hn' hk, expandList0_eq_shiftList0 ls k hw' hn' hk]
  | ordered ls, k, hw, hn, hk => by
      simp only [shiftMarkAbs, expandMarkAbs]
      exact shiftMarkAbsList0_eq ls k (by simpa [wf] using hw) (by simpa [nonneg] using hn) hk
  | compl l, k, hw, hn, hk => by
      simp only [shiftMarkAbs, expandMarkAbs]
      exact shiftMarkAbs0_eq l k (by simpa [wf] using hw) (by simpa [nonneg] using hn) hk
theorem shiftMarkAbsList0_eq : ∀ (ls : List Loc) (k : Int), wfList ls = true → nonnegList ls = true →
    0 ≤ k → shiftMarkAbsList ls 0 k = expandMarkAbsList ls 0 k
  | [], _, _, _, _ => by simp [shiftMarkAbsList, expandMarkAbsList]
  | l :: ls, k, hw, hn, hk => by
      simp only [wfList_cons, Bool.and_eq_true] at hw
      simp only [nonnegList, Bool.and_eq_true] at hn
      simp only [shiftMarkAbsList, expandMarkAbsList]
      rw [shiftMarkAbs0_eq l k hw.1 hn.1 hk, shiftMarkAbsList0_eq ls k hw.2 hn.2 hk]
end

theorem expand0MarkAbs_of_nodup (l : Loc) (k : Int) (hw : wf l = true) (hn : nonneg l = true)
    (hk : 0 ≤ k) (ha : expandAbs l 0 k = false) (hnd : (den l).Nodup) :
    expandMarkAbs l 0 k = false := by
  rw [← shiftMarkAbs0_eq l k hw hn hk]
  apply shiftMarkAbs_of_nodup l 0 k hw hk _ hnd
  rw [shiftAbs0_eq l k hw hn hk]; exact ha

/-! ### Normalize -/

mutual
theorem normalizeMarkAbs_of_nodup : ∀ (l : Loc) (L : Int), 0 < L → wf l = true → normOk L l = true →
    normalizeAbs l L = false → (mapPos (· % L) (den l)).Nodup → normalizeMarkAbs l L = false
  | between _, _, _, _, _, _, _ => by simp [normalizeMarkAbs]
  | point _, _, _, _, _, _, _ => by simp [normalizeMarkAbs]
  | ranged _ _ _ _, _, _, _, _, _, _ => by simp [normalizeMarkAbs]
  | ambiguous _ _, _, _, _, _, _, _ => by simp [normalizeMarkAbs]
  | joined ls, L, hL, hw, hn, hk, hnd => by
      have hw' : wfList ls = true := by simpa [wf] using hw
      have hn' : normOkList L ls = true := by simpa [normOk] using hn
      simp only [normalizeAbs, Bool.or_eq_false_iff] at hk
      simp only [den_joined] at hnd
      simp only [normalizeMarkAbs, Bool.or_eq_false_iff]
      have ih := normalizeList_mod ls L hL hw' hn'
      refine ⟨normalizeMarkAbsList_of_nodup ls L hL hw' hn' hk.1 hnd, ?_⟩
      apply joinMarkAbs_of_nodup _ ih.2 hk.2
      exact Refines.nodup (ih.1 hk.1) hnd
  | ordered ls, L, hL, hw, hn, hk, hnd => by
      simp only [normalizeAbs] at hk
      simp only [den_ordered] at hnd
      simp only [normalizeMarkAbs]
      exact normalizeMarkAbsList_of_nodup ls L hL (by simpa [wf] using hw) (by simpa [normOk] using hn) hk hnd
  | compl l, L, hL, hw, hn, hk, hnd => by
      simp only [normalizeAbs] at hk
      simp only [den_compl, mapPos_flipDen] at hnd
      simp only [normalizeMarkAbs]
      exact normalizeMarkAbs_of_nodup l L hL (by simpa [wf] using hw) (by simpa [normOk] using hn) hk
        (nodup_flipDen.mp hnd)
theorem normalizeMarkAbsList_of_nodup : ∀ (ls : List Loc) (L : Int), 0 < L → wfList ls = true →
    normOkList L ls = true → normalizeAbsList ls L = false →
    (mapPos (· % L) (denList ls)).Nodup → normalizeMarkAbsList ls L = false
  | [], _, _, _, _, _, _ => by simp [normalizeMarkAbsList]
  | l :: ls, L, hL, hw, hn, hk, hnd => by
      simp only [wfList_cons, Bool.and_eq_true] at hw
      simp only [normOkList, Bool.and_eq_true] at hn
      simp only [normalizeAbsList, Bool.or_eq_false_iff] at hk
      simp only [denList_cons, mapPos_append] at hnd
      simp only [normalizeMarkAbsList, Bool.or_eq_false_iff]
      exact ⟨normalizeMarkAbs_of_nodup l L hL hw.1 hn.1 hk.1 (nodup_append_left hnd),
        normalizeMarkAbsList_of_nodup ls L hL hw.2 hn.2 hk.2 (nodup_append_right hnd)⟩
end

/-- rotation by `n` is injective on the positions of a sequence of length `L` -/
theorem nodup_mapPos_rotMap (n L : Int) (hL : 0 < L) (d : List Pos) (hin : ∀ p ∈ d, 0 ≤ p.1 ∧ p.1 < L)
    (h : d.Nodup) : (mapPos (rotMap n L) d).Nodup := by
  apply nodup_mapPos_of_inj _ _ _ h
  intro a ha b hb he
  unfold rotMap at he
  have ha' := hin a ha
  have hb' := hin b hb
  have hr0 := Int.emod_nonneg n (show L ≠ 0 by omega)
  have hr1 := Int.emod_lt_of_pos n hL
  rw [← Int.add_emod_emod a.1, ← Int.add_emod_emod b.1] at he
  generalize n % L = r at he hr0 hr1
  have red : ∀ x : Int, 0 ≤ x → x < L → (x + r) % L = if x + r < L then x + r else x + r - L := by
    intro x h0 h1
    split
    · exact Int.emod_eq_of_lt (by omega) (by omega)
    · exact mod_window L L (x + r) 1 (by omega) (by omega) (by omega)
  rw [red a.1 ha'.1 ha'.2, red b.1 hb'.1 hb'.2] at he
  split at he <;> split at he <;> omega

end Loc
end Gts
