/-
  C01, CRLF input: the LOCUS line followed by CR LF, read by `genbankLocusParser`.  Mirrors
  `GbLocus.lean` (`pars.Line` reads the date up to the CR LF).  Core Lean only.
-/
import Gts.Lemmas.GbCrlfReference
namespace Gts.GenBank
open Gts.Pars

/-- the tail of the LOCUS line (division, date) in front of CR LF: `division_run` with the CR counted
to the text behind the date's first bytes -/
theorem division_runC (dv dt rest : Bytes) (stk : List Bytes) (k5 : Nat)
    (hdv : dv = [] ∨ (dv.length = 3 ∧ dv.all isUpper = true))
    (hdt : ∃ c c2 c3 r, dt = c :: c2 :: c3 :: r ∧ isDigit c = true) :
    ∃ mid, spaces ⟨sp (k5 + 1) ++ (dv ++ 32 :: (dt ++ 13 :: 10 :: rest)), stk⟩ =
        (.ok (sp (k5 + 1) ++ (if dv = [] then [32] else [])), ⟨mid, stk⟩) ∧
      divisionParser ⟨mid, stk⟩ = (.ok dv, ⟨(if dv = [] then [] else [32]) ++ (dt ++ 13 :: 10 :: rest), stk⟩) ∧
      spaces ⟨(if dv = [] then [] else [32]) ++ (dt ++ 13 :: 10 :: rest), stk⟩ =
        (.ok (if dv = [] then [] else [32]), ⟨dt ++ 13 :: 10 :: rest, stk⟩) := by
  obtain ⟨c, c2, c3, r, hdt1, hdt2⟩ := hdt
  have := division_run dv (dt ++ [13]) rest stk k5 hdv ⟨c, c2, c3, r ++ [13], by rw [hdt1]; rfl, hdt2⟩
  simpa only [List.append_assoc, List.cons_append, List.nil_append] using this

/-- `genbankLocusParser` on a line of the canonical shape that ends in CR LF -/
theorem locus_canonC (name mol top dv : Bytes) (n : Nat) (d : Date) (k2 k3 k5 : Nat) (rest : Bytes)
    (stk : List Bytes) (hname : wordOk name = true) (hmol : wordOk mol = true) (htop : wordOk top = true)
    (hdv : dv = [] ∨ (dv.length = 3 ∧ dv.all isUpper = true)) (hd : d.valid = true)
    (hn : n ≤ 9223372036854775807) :
    locusParser ⟨locusCanon name (natDigits n) mol top k2 k3 k5 (dv ++ 32 :: (d.text ++ 13 :: 10 :: rest)), stk⟩ =
      (.ok ⟨12, name, (n : Int), mol, top, dv, d⟩, ⟨rest, stk⟩) := by
  obtain ⟨hn1, hn2, cn, rn, hn3, hn4⟩ := wordOk_spec name hname
  obtain ⟨hm1, hm2, cm, rm, hm3, hm4⟩ := wordOk_spec mol hmol
  obtain ⟨ht1, ht2, ct, rt, ht3, ht4⟩ := wordOk_spec top htop
  obtain ⟨hdt, hdl⟩ := dateText_shape d hd
  obtain ⟨_, hdg, dg, dgs, hdg3, _⟩ := natDigits_spec n
  have hdg0 : isDigit dg = true := by rw [hdg3] at hdg; simp only [List.all_cons, Bool.and_eq_true] at hdg; exact hdg.1
  have r1 := fun X s => lit_ok (bs "LOCUS") X s
  have r2 := fun X s => spaces_ok (sp 7) (name ++ X) s (sp_all_space 7) (by
    intro c hc; rw [hn3] at hc; simp at hc; subst hc; exact hn4)
  have r3 := fun X s => word_ok notSpace name (sp (k2 + 1) ++ X) s hn1 hn2 (by
    intro c hc; rw [sp_head_blank k2 X c hc]; exact blank_not_notSpace)
  have r4 := fun X s => spaces_ok (sp (k2 + 1)) (natDigits n ++ X) s (sp_all_space _) (by
    intro c hc; rw [hdg3] at hc; simp at hc; subst hc; exact digit_not_space _ hdg0)
  have r5 := fun X s => int_natDigits n (bs " bp" ++ X) s (by simp [bs, isDigit]) hn
  have r6 : ∀ X s, bpOrAa ⟨bs " bp" ++ X, s⟩ = (.ok (), ⟨X, s⟩) := by
    intro X s; gsimp [bpOrAa, lit_ok]
  have r7 := fun X s => spaces_ok (sp (k3 + 1)) (mol ++ X) s (sp_all_space _) (by
    intro c hc; rw [hm3] at hc; simp at hc; subst hc; exact hm4)
  have r8 := fun X s => word_ok notSpace mol (sp 5 ++ X) s hm1 hm2 (by
    intro c hc; rw [sp_head_blank 4 X c hc]; exact blank_not_notSpace)
  have r9 := fun X s => spaces_ok (sp 5) (top ++ X) s (sp_all_space _) (by
    intro c hc; rw [ht3] at hc; simp at hc; subst hc; exact ht4)
  have r10 := fun X s => word_ok notSpace top (sp (k5 + 1) ++ X) s ht1 ht2 (by
    intro c hc; rw [sp_head_blank k5 X c hc]; exact blank_not_notSpace)
  have r14 := fun s => line_okC d.text rest s hdl
  have hasd := date_roundtrip d hd
  have htail := fun s => division_runC dv d.text rest s k5 hdv hdt
  obtain ⟨mid, t1, t2, t3⟩ := htail (_ :: _ :: stk)
  simp only [locusParser, locusCanon, P.bind_run, push, getS, setS,
    locusTry_ok _ _ _ _ (r1 _ _), r2, locusTry_ok _ _ _ _ (r3 _ _), r4, locusTry_ok _ _ _ _ (r5 _ _),
    locusTry_ok _ _ _ _ (r6 _ _), r7, locusTry_ok _ _ _ _ (r8 _ _), r9, locusTry_ok _ _ _ _ (r10 _ _)]
  rw [t1]; simp only []
  rw [t2]; simp only []
  rw [t3]; simp only [r14, hasd, Pars.drop, getS, setS, P.bind_run, P.pure_run, List.drop_succ_cons, List.drop_zero,
    sp_length]

/-- **LOCUS line, CRLF file**: the written line followed by CR LF is read as from the LF file -/
theorem locus_roundtripC (f : Fields) (length : Int) (rest : Bytes) (stk : List Bytes)
    (h : locusOk f length = true) :
    locusParser ⟨locusLine f length ++ 13 :: 10 :: rest, stk⟩ =
      (.ok ⟨12, f.locusName, length, f.molecule, topologyText f.topology, f.division, f.date⟩, ⟨rest, stk⟩) := by
  simp only [locusOk, Bool.and_eq_true, Bool.or_eq_true, beq_iff_eq, decide_eq_true_eq,
    List.isEmpty_iff] at h
  obtain ⟨⟨⟨⟨⟨hname, hmol⟩, htop⟩, hdv⟩, hd⟩, hl0, hl1⟩ := h
  obtain ⟨htw, k5, hk5⟩ := topologyText_ok f.topology htop
  obtain ⟨n, rfl⟩ : ∃ n : Nat, length = (n : Int) := ⟨length.toNat, by omega⟩
  have hdig : itoaB (n : Int) = natDigits n := by
    simp [itoaB]
  have hdv' : f.division = [] ∨ (f.division.length = 3 ∧ f.division.all isUpper = true) := hdv
  have e : locusLine f (n : Int) ++ 13 :: 10 :: rest =
      locusCanon f.locusName (natDigits n) f.molecule (topologyText f.topology)
        ((17 - f.locusName.length) + (10 - (natDigits n).length)) (6 - f.molecule.length) k5
        (f.division ++ 32 :: (f.date.text ++ 13 :: 10 :: rest)) := by
    have e2 : bs " bp " = bs " bp" ++ [32] := by decide
    simp only [locusLine, locusCanon, hdig, e2, padRight, padLeft, List.append_assoc, List.cons_append,
      List.nil_append, hk5]
    have h7 : sp (12 - (bs "LOCUS").length) = sp 7 := by decide
    have hb : ∀ (c : Nat) (X : Bytes), (32 : UInt8) :: (sp c ++ X) = sp (c + 1) ++ X := by
      intro c X; rw [sp_succ]; rfl
    rw [h7, sp_cons_blank, hb]
  rw [e]
  exact locus_canonC _ _ _ _ n _ _ _ _ rest stk hname hmol htw hdv' hd (by omega)

/-- the LOCUS line has no line feed: its CRLF translation is the line itself -/
theorem locusLine_noLF (f : Fields) (length : Int) (h : locusOk f length = true) : noLF (locusLine f length) := by
  -- read the line back: `pars.Line` returns the date, so the line feed that ends the line is the first one
  intro c hc e
  subst e
  simp only [locusOk, Bool.and_eq_true, Bool.or_eq_true, beq_iff_eq, decide_eq_true_eq,
    List.isEmpty_iff] at h
  obtain ⟨⟨⟨⟨⟨hname, hmol⟩, htop⟩, hdv⟩, hd⟩, hl0, hl1⟩ := h
  obtain ⟨hn1, _, _⟩ := wordOk_spec _ hname
  obtain ⟨hm1, _, _⟩ := wordOk_spec _ hmol
  obtain ⟨_, hdl⟩ := dateText_shape f.date hd
  have hw : ∀ w : Bytes, w.all notSpace = true → (10 : UInt8) ∉ w := by
    intro w hw hmem
    have := List.all_eq_true.mp hw 10 hmem
    revert this; decide
  have hsp : ∀ k, (10 : UInt8) ∉ sp k := fun k hmem => noLF_sp k 10 hmem rfl
  have hdig : (10 : UInt8) ∉ itoaB length := by
    obtain ⟨n, rfl⟩ : ∃ n : Nat, length = (n : Int) := ⟨length.toNat, by omega⟩
    have : itoaB (n : Int) = natDigits n := by simp [itoaB]
    rw [this]
    obtain ⟨_, hall, _⟩ := natDigits_spec n
    intro hmem
    have := List.all_eq_true.mp hall 10 hmem
    revert this; decide
  have htopo : (10 : UInt8) ∉ topologyText f.topology := by
    rcases htop with h0 | h1
    · rw [h0]; decide
    · rw [h1]; decide
  have hdvn : (10 : UInt8) ∉ f.division := by
    rcases hdv with h0 | ⟨_, hu⟩
    · rw [h0]; simp
    · intro hmem
      have := List.all_eq_true.mp hu 10 hmem
      revert this; decide
  have hdate : (10 : UInt8) ∉ f.date.text := by
    intro hmem
    simp only [noEOL, List.all_eq_true, Bool.and_eq_true, bne_iff_ne, ne_eq] at hdl
    exact (hdl 10 hmem).1 rfl
  simp only [locusLine, padRight, padLeft, List.mem_append, List.mem_cons, List.not_mem_nil, or_false] at hc
  have hb1 : (10 : UInt8) ∉ bs "LOCUS" := by decide
  have hb2 : (10 : UInt8) ∉ bs " bp " := by decide
  have h32 : ¬ ((10 : UInt8) = 32) := by decide
  rcases hc with ((((((((((hc | hc) | hc | hc) | hc) | hc | hc) | hc) | hc | hc) | hc) | hc | hc) | hc) | hc) | hc
  all_goals first
    | exact hb1 hc | exact hb2 hc | exact hsp _ hc | exact hw _ hn1 hc | exact hw _ hm1 hc | exact hdig hc
    | exact htopo hc | exact hdvn hc | exact hdate hc | exact h32 hc

end Gts.GenBank
