/-
  `Region.Locate` at the byte level ("locate_bytes" of DESIGN.md §3): the residues the model of
  `Segment.Locate` / `Regions.Locate` (`Reg.locate`, Gts/Model/Cli.lean) extracts are exactly the
  denotation (`Reg.den`, and through `Location.Region()` `Loc.den`) READ off the record's bytes
  (`readAt`, Gts/Spec/Read.lean).  Helper lemmas for C05 / C08 / C15.  Core Lean only.
-/
import Gts.Spec.Read
import Gts.Model.Cli
import Gts.Lemmas.Minimize
import Gts.Lemmas.Nuc
import Gts.Lemmas.Push
namespace Gts

/-! ### reading one residue -/

/-- the strand part of a reading -/
def rd (r : Bool) (b : UInt8) : UInt8 := if r then Nuc.complementByte b else b

@[simp] theorem rd_false : rd false = id := by funext b; simp [rd]
@[simp] theorem rd_true : rd true = Nuc.complementByte := by funext b; simp [rd]

theorem readAt?_getElem (bs : List UInt8) (x : Int) (r : Bool) (h0 : 0 ≤ x)
    (h1 : x.toNat < bs.length) : readAt? bs (x, r) = some (rd r bs[x.toNat]) := by
  simp only [readAt?, show ¬ x < 0 by omega, if_false, List.getElem?_eq_getElem h1, Option.map_some, rd]

theorem readAt_getElem (bs : List UInt8) (x : Int) (r : Bool) (h0 : 0 ≤ x)
    (h1 : x.toNat < bs.length) : readAt bs (x, r) = rd r bs[x.toNat] := by
  simp only [readAt, readAt?_getElem bs x r h0 h1, Option.getD_some]

/-- inside the record the total reading is the partial one -/
theorem readAt?_eq_some {bs : List UInt8} {p : Pos} (h0 : 0 ≤ p.1) (h1 : p.1 < bs.length) :
    readAt? bs p = some (readAt bs p) := by
  obtain ⟨x, r⟩ := p
  have h : x.toNat < bs.length := by simp only at h0 h1; omega
  rw [readAt?_getElem bs x r h0 h, readAt_getElem bs x r h0 h]

/-- … and outside there is nothing to read -/
theorem readAt?_eq_none {bs : List UInt8} {p : Pos} (h : p.1 < 0 ∨ (bs.length : Int) ≤ p.1) :
    readAt? bs p = none := by
  unfold readAt?
  split
  · rfl
  · have : bs.length ≤ p.1.toNat := by omega
    simp [List.getElem?_eq_none this]

theorem readAt?_isSome_iff (bs : List UInt8) (p : Pos) :
    (readAt? bs p).isSome = true ↔ 0 ≤ p.1 ∧ p.1 < bs.length := by
  constructor
  · intro h
    by_cases hc : p.1 < 0 ∨ (bs.length : Int) ≤ p.1
    · rw [readAt?_eq_none hc] at h; simp at h
    · omega
  · rintro ⟨h0, h1⟩; rw [readAt?_eq_some h0 h1]; rfl

/-- reading a run of consecutive positions on one strand = the window of the bytes -/
theorem map_readAt_irange (bs : List UInt8) (r : Bool) (h : Int) (n : Nat) (h0 : 0 ≤ h)
    (hn : h + n ≤ bs.length) :
    (irange h n).map (fun x => readAt bs (x, r)) = ((bs.drop h.toNat).take n).map (rd r) := by
  induction n generalizing h with
  | zero => simp
  | succ n ih =>
    have hlt : h.toNat < bs.length := by omega
    have e : (h + 1).toNat = h.toNat + 1 := by omega
    rw [irange_succ, List.map_cons, List.drop_eq_getElem_cons hlt, List.take_succ_cons, List.map_cons,
      readAt_getElem bs h r h0 hlt, ih (h + 1) (by omega) (by omega), e]

theorem map_readAt_fwd (bs : List UInt8) (xs : List Int) :
    (fwd xs).map (readAt bs) = xs.map (fun x => readAt bs (x, false)) := by
  simp [fwd, List.map_map, Function.comp_def]

theorem map_readAt_flip_fwd (bs : List UInt8) (xs : List Int) :
    (flipDen (fwd xs)).map (readAt bs) = (xs.map (fun x => readAt bs (x, true))).reverse := by
  simp [flipDen, fwd, List.map_map, List.map_reverse, Function.comp_def]

/-! ### `denIn` -/

theorem denIn_nil (L : Int) : denIn L [] := by simp [denIn]

theorem denIn_append {L : Int} {a b : List Pos} : denIn L (a ++ b) ↔ denIn L a ∧ denIn L b := by
  simp only [denIn, List.mem_append]
  constructor
  · intro h; exact ⟨fun p hp => h p (Or.inl hp), fun p hp => h p (Or.inr hp)⟩
  · rintro ⟨h1, h2⟩ p (hp | hp)
    · exact h1 p hp
    · exact h2 p hp

theorem denIn_of_subset {L : Int} {a b : List Pos} (h : ∀ p ∈ a, p ∈ b) (hb : denIn L b) :
    denIn L a := fun p hp => hb p (h p hp)

theorem denIn_flipDen {L : Int} {d : List Pos} : denIn L (flipDen d) ↔ denIn L d := by
  constructor
  · intro h p hp
    have := h (p.1, !p.2) (by rw [mem_flipDen]; simpa using hp)
    simpa using this
  · intro h p hp
    obtain ⟨x, b⟩ := p
    rw [mem_flipDen] at hp
    exact h (x, !b) hp

/-- a non-empty run of positions inside `[0, L)` -/
theorem denIn_fwd_irange {L s : Int} {n : Nat} (hn : 0 < n) (h : denIn L (fwd (irange s n))) :
    0 ≤ s ∧ s + n ≤ L := by
  have h1 := h (s, false) (by rw [mem_fwd, mem_irange]; exact ⟨by omega, rfl⟩)
  have h2 := h (s + n - 1, false) (by rw [mem_fwd, mem_irange]; exact ⟨by omega, rfl⟩)
  simp only at h1 h2
  omega

namespace Reg

/-! ### residues of a slice (bytes only) -/

theorem slice_bytes_fwd' (s : Seq) (a b : Int) (ha : 0 ≤ a) (hab : a ≤ b) :
    (s.slice a b).bytes = (s.bytes.drop a.toNat).take (b - a).toNat := by
  unfold Seq.slice
  simp only [show ¬ a < 0 by omega, show ¬ b < 0 by omega, show ¬ b < a by omega, if_false]
  rfl

/-- a zero-length slice is empty wherever it lies (in Go: `seq.Bytes()[p:p]`, which panics for
`p > len` or `p < -len`; the model's `drop`/`take` is total) -/
theorem slice_bytes_empty (s : Seq) (a : Int) : (s.slice a a).bytes = [] := by
  unfold Seq.slice
  simp only [Int.lt_irrefl, if_false, Seq.sliceFwd, Int.sub_self, Int.toNat_zero, List.take_zero]

theorem concat_bytes' (l : List Seq) : (Seq.concat l).bytes = (l.map (·.bytes)).flatten := by
  cases l with
  | nil => rfl
  | cons s ss =>
    simp only [Seq.concat, List.map_cons, List.flatten_cons]
    induction ss generalizing s with
    | nil => simp
    | cons t ts ih =>
      rw [List.foldl_cons, ih]
      simp [Seq.concat2]

/-! ### `Segment.Locate` -/

/-- **`Segment.Locate`, forward** (`head < tail`, inside the record): the window, as it is -/
theorem locate_seg_fwd (s : Seq) (h t : Int) (ht : h < t) (hb : denIn s.len (den (seg h t))) :
    (locate (seg h t) s).bytes = (den (seg h t)).map (readAt s.bytes) := by
  have hd : den (seg h t) = fwd (irange h (t - h).toNat) := by
    simp only [den, show ¬ t < h by omega, if_false]
  rw [hd] at hb ⊢
  have hin := denIn_fwd_irange (by omega) hb
  simp only [Seq.len] at hin
  simp only [locate, show ¬ t < h by omega, if_false]
  rw [slice_bytes_fwd' s h t hin.1 (by omega), map_readAt_fwd,
    map_readAt_irange s.bytes false h _ hin.1 hin.2, rd_false, List.map_id]

/-- **`Segment.Locate`, backward** (`tail < head`, inside the record): the window `[tail, head)`
complemented and flipped -/
theorem locate_seg_bwd (s : Seq) (h t : Int) (ht : t < h) (hb : denIn s.len (den (seg h t))) :
    (locate (seg h t) s).bytes = (den (seg h t)).map (readAt s.bytes) := by
  have hd : den (seg h t) = flipDen (fwd (irange t (h - t).toNat)) := by
    simp only [den, ht, if_true]
  rw [hd] at hb ⊢
  have hin := denIn_fwd_irange (by omega) (denIn_flipDen.mp hb)
  simp only [Seq.len] at hin
  simp only [locate, ht, if_true]
  show ((s.slice t h).bytes.map Nuc.complementByte).reverse = _
  rw [slice_bytes_fwd' s t h hin.1 (by omega), map_readAt_flip_fwd,
    map_readAt_irange s.bytes true t _ hin.1 hin.2, rd_true]

/-- a zero-length segment extracts nothing -/
theorem locate_seg_empty (s : Seq) (h : Int) :
    (locate (seg h h) s).bytes = (den (seg h h)).map (readAt s.bytes) := by
  simp only [locate, den, Int.lt_irrefl, if_false, slice_bytes_empty, Int.sub_self, Int.toNat_zero,
    irange_zero, fwd, List.map_nil]

theorem locate_seg (s : Seq) (h t : Int) (hb : denIn s.len (den (seg h t))) :
    (locate (seg h t) s).bytes = (den (seg h t)).map (readAt s.bytes) := by
  rcases Int.lt_trichotomy h t with ht | rfl | ht
  · exact locate_seg_fwd s h t ht hb
  · exact locate_seg_empty s h
  · exact locate_seg_bwd s h t ht hb

/-! ### `Regions.Locate` -/

mutual
/-- **`Region.Locate` reads the denotation**: when every denoted position is an index of the
record, the extracted residues are the denoted residues read off the record, in order, each on
its strand -/
theorem locate_bytes_den : ∀ (r : Reg) (s : Seq), denIn s.len (den r) →
    (locate r s).bytes = (den r).map (readAt s.bytes)
  | seg h t, s, hb => locate_seg s h t hb
  | many rs, s, hb => by
    have := locateList_bytes_den rs s (by simpa only [den] using hb)
    simp only [locate, den, concat_bytes']
    exact this
theorem locateList_bytes_den : ∀ (rs : List Reg) (s : Seq), denIn s.len (denList rs) →
    ((locateList rs s).map (·.bytes)).flatten = (denList rs).map (readAt s.bytes)
  | [], _, _ => by simp [locateList, denList]
  | r :: rs, s, hb => by
    simp only [denList] at hb
    rw [denIn_append] at hb
    simp only [locateList, denList, List.map_cons, List.flatten_cons, List.map_append,
      locate_bytes_den r s hb.1, locateList_bytes_den rs s hb.2]
end

/-- the region guard `within` (every end of every leaf in `[0, L]`, under which no `Slice` of
`Locate` leaves the byte array) puts every denoted position inside `[0, L)` -/
theorem denIn_of_within {L : Int} {r : Reg} (h : within L r) : denIn L (den r) := by
  intro p hp
  obtain ⟨x, b⟩ := p
  obtain ⟨g, hg, hx⟩ := (den_iff_leaves r x).mp ⟨b, hp⟩
  have := h g hg
  simp only
  omega

/-- the extracted residues depend on the residues of the record only -/
theorem locate_bytes_congr (r : Reg) (s s' : Seq) (h : s.bytes = s'.bytes)
    (hb : denIn s.len (den r)) : (locate r s).bytes = (locate r s').bytes := by
  have hl : s'.len = s.len := by simp [Seq.len, h]
  rw [locate_bytes_den r s hb, locate_bytes_den r s' (hl ▸ hb), h]

/-! ### `Region.Complement` -/

theorem den_seg_complement (h t : Int) : den (seg t h) = flipDen (den (seg h t)) := by
  rcases Int.lt_trichotomy h t with ht | rfl | ht
  · simp only [den, ht, if_true, show ¬ t < h by omega, if_false]
  · simp [den, fwd]
  · simp only [den, ht, if_true, show ¬ h < t by omega, if_false, flipDen_flipDen]

mutual
/-- `Region.Complement()` denotes the same residues on the other strand, in opposite order -/
theorem den_complement : ∀ r : Reg, den (complement r) = flipDen (den r)
  | seg h t => by simp only [complement]; exact den_seg_complement h t
  | many rs => by
    have := denList_complementRev rs []
    simpa [complement, den, denList] using this
theorem denList_complementRev : ∀ (rs acc : List Reg),
    denList (complementRev rs acc) = flipDen (denList rs) ++ denList acc
  | [], acc => by simp [complementRev, denList]
  | r :: rs, acc => by
    rw [complementRev, denList_complementRev rs (complement r :: acc)]
    simp [denList, den_complement r, flipDen_append, List.append_assoc]
end

end Reg

namespace Loc

/-! ### `Location.Region()` -/

mutual
/-- **`Location.Region()` denotes what the location denotes** (well-formed locations: a `Ranged`
with `End < Start` would be read backwards by `Segment.Locate`) -/
theorem den_region : ∀ l : Loc, wf l = true → Reg.den (region l) = den l
  | between p, _ => by simp [region, Reg.den, fwd]
  | point p, _ => by
    have : (p + 1 - p).toNat = 1 := by omega
    simp [region, Reg.den, fwd, this, show ¬ p + 1 < p by omega]
  | ranged s e _ _, hw => by
    have h : s < e := by simpa [wf] using hw
    simp [region, Reg.den, show ¬ e < s by omega]
  | ambiguous s e, hw => by
    have h : s < e := by simpa [wf] using hw
    simp [region, Reg.den, show ¬ e < s by omega]
  | joined ls, hw => by
    have := denList_regionList ls (by simpa [wf] using hw)
    simpa [region, Reg.den] using this
  | ordered ls, hw => by
    have := denList_regionList ls (by simpa [wf] using hw)
    simpa [region, Reg.den, den] using this
  | compl l, hw => by
    have := den_region l (by simpa [wf] using hw)
    simp [region, Reg.den_complement, this, den]
theorem denList_regionList : ∀ ls : List Loc, wfList ls = true →
    Reg.denList (regionList ls) = denList ls
  | [], _ => by simp [regionList, Reg.denList]
  | l :: ls, hw => by
    simp only [wfList_cons, Bool.and_eq_true] at hw
    simp [regionList, Reg.denList, den_region l hw.1, denList_regionList ls hw.2]
end

/-- **locate_bytes**: the residues `l.Region().Locate(seq)` extracts are the denotation of `l`
read off the record -/
theorem locate_region_bytes (l : Loc) (s : Seq) (hw : wf l = true) (hb : denIn s.len (den l)) :
    (Reg.locate (region l) s).bytes = (den l).map (readAt s.bytes) := by
  have e := den_region l hw
  rw [← e] at hb ⊢
  exact Reg.locate_bytes_den _ s hb

end Loc

/-! ### reading through the reverse complement -/

theorem uToT_complementByte : ∀ c : UInt8, uToT (Nuc.complementByte c) = Nuc.complementByte c :=
  Nuc.forall_uint8 (by decide +kernel)

theorem complementByte_complementByte : ∀ c : UInt8,
    Nuc.complementByte (Nuc.complementByte c) = uToT c :=
  Nuc.forall_uint8 (by decide +kernel)

theorem uToT_rd (r : Bool) (b : UInt8) : uToT (rd r b) = rd (!r) (Nuc.complementByte b) := by
  cases r
  · simp [rd, complementByte_complementByte]
  · simp [rd, uToT_complementByte]

/-- residue `x` on strand `r` of a record is residue `L-1-x` on the other strand of its reverse
complement (up to U → T) -/
theorem readAt_revcomp (bs : List UInt8) (x : Int) (r : Bool) (h0 : 0 ≤ x) (h1 : x < bs.length) :
    readAt (bs.map Nuc.complementByte).reverse ((bs.length : Int) - 1 - x, !r) =
      uToT (readAt bs (x, r)) := by
  have hx : x.toNat < bs.length := by omega
  have hy : ((bs.length : Int) - 1 - x).toNat < (bs.map Nuc.complementByte).reverse.length := by
    simp only [List.length_reverse, List.length_map]; omega
  rw [readAt_getElem _ _ _ (by omega) hy, readAt_getElem bs x r h0 hx, uToT_rd]
  congr 1
  rw [List.getElem_reverse, List.getElem_map]
  congr 1
  congr 1
  simp only [List.length_map]
  omega

/-- the whole denotation, re-read through the reverse complement -/
theorem map_readAt_revcomp (bs : List UInt8) (d : List Pos) (hb : denIn bs.length d) :
    (d.map fun p => ((bs.length : Int) - 1 - p.1, !p.2)).map
        (readAt (bs.map Nuc.complementByte).reverse) =
      (d.map (readAt bs)).map uToT := by
  rw [List.map_map, List.map_map]
  apply List.map_congr_left
  intro p hp
  obtain ⟨x, r⟩ := p
  have := hb _ hp
  exact readAt_revcomp bs x r this.1 this.2

/-- reading on the other strand, in opposite order = complementing and flipping what was read
(up to U → T on the residues that were complemented twice) -/
theorem map_readAt_flipDen (bs : List UInt8) (d : List Pos) (hb : denIn bs.length d) :
    ((flipDen d).map (readAt bs)).map uToT = ((d.map (readAt bs)).map Nuc.complementByte).reverse := by
  simp only [flipDen, List.map_map, List.map_reverse]
  congr 1
  apply List.map_congr_left
  intro p hp
  obtain ⟨x, r⟩ := p
  have h := hb _ hp
  have hx : x.toNat < bs.length := by simp only at h; omega
  simp only [Function.comp]
  rw [readAt_getElem bs x (!r) h.1 hx, readAt_getElem bs x r h.1 hx]
  cases r
  · simp [rd, uToT_complementByte]
  · simp [rd, complementByte_complementByte]

/-- on residues without U / u, `uToT` is the identity -/
theorem map_uToT_of_noU (bs : List UInt8) (h : ∀ b ∈ bs, b ≠ 85 ∧ b ≠ 117) : bs.map uToT = bs := by
  rw [List.map_congr_left (g := id), List.map_id]
  intro b hb
  have := h b hb
  simp [uToT, this.1, this.2]

/-- … also on what is read off such residues (a complemented residue is never U / u) -/
theorem map_uToT_map_readAt_of_noU (bs : List UInt8) (d : List Pos) (hb : denIn bs.length d)
    (h : ∀ b ∈ bs, b ≠ 85 ∧ b ≠ 117) : (d.map (readAt bs)).map uToT = d.map (readAt bs) := by
  rw [List.map_map]
  apply List.map_congr_left
  intro p hp
  obtain ⟨x, r⟩ := p
  have hin := hb _ hp
  have hx : x.toNat < bs.length := by simp only at hin; omega
  simp only [Function.comp]
  rw [readAt_getElem bs x r hin.1 hx]
  cases r
  · have := h _ (List.getElem_mem hx)
    simp [rd, uToT, this.1, this.2]
  · simp [rd, uToT_complementByte]

/-- the position map of the reverse complement is its own inverse -/
theorem map_revcompPos_involutive (L : Int) (d : List Pos) :
    (d.map fun p => (L - 1 - p.1, !p.2)).map (fun p => (L - 1 - p.1, !p.2)) = d := by
  rw [List.map_map, List.map_congr_left (g := id), List.map_id]
  intro p _
  apply Prod.ext
  · simp only [Function.comp, id]; omega
  · simp

theorem nodup_map_revcompPos (L : Int) (d : List Pos) (h : d.Nodup) :
    (d.map fun p => (L - 1 - p.1, !p.2)).Nodup := by
  refine List.Pairwise.map _ ?_ h
  intro a b hab he
  apply hab
  have h1 := (Prod.mk.inj he).1
  have h2 := (Prod.mk.inj he).2
  apply Prod.ext
  · omega
  · simpa using h2

theorem denIn_map_revcompPos {L : Int} {d : List Pos} (h : denIn L d) :
    denIn L (d.map fun p => (L - 1 - p.1, !p.2)) := by
  intro q hq
  obtain ⟨p, hp, rfl⟩ := List.mem_map.mp hq
  have := h p hp
  simp only
  omega

theorem Loc.wf_complement (l : Loc) : Loc.wf (Loc.complement l) = Loc.wf l := by
  cases l <;> simp [Loc.complement, Loc.wf]

end Gts
