/-
  C19, selectors with backslashes: the escape-flag loop of `shiftSelector`, iterated by `Selector`,
  computes the declarative split `SelSpec.escSplit` (Gts/Spec/SelectorEsc.lean) — generically over the
  alphabet, then for the byte-level model (`shiftSelectorB` / `selectorParts`, Gts/Model/Locator.lean,
  bridged to feature.go by Gts/Bridge/FeatSelector.lean) and for the character-level model
  (`shiftChars` / `clauseLoop` / `parseSelector`, Gts/Model/Feature.lean, answered over the protocol).
  Reassembly laws, the conventional reading, qualifier tables with repeated names.  Core Lean only.
-/
import Gts.Spec.SelectorEsc
import Gts.Lemmas.Select
import Gts.Lemmas.SelShift
namespace Gts
namespace SelSpec

section generic
variable {α : Type} [DecidableEq α]

/-! ### the loop as a state machine over the whole string -/

/-- the split computed with the escape flag of the loop -/
def splitSt (bs sl : α) : Bool → List α → List α → List (List α)
  | _, cur, [] => [cur.reverse]
  | esc, cur, c :: r =>
    if c = bs then splitSt bs sl true (c :: cur) r
    else if c = sl then
      if esc then splitSt bs sl esc (c :: cur) r else cur.reverse :: splitSt bs sl false [] r
    else splitSt bs sl false (c :: cur) r

theorem splitSt_ne_nil (bs sl : α) : ∀ (s : List α) (esc : Bool) (cur : List α),
    splitSt bs sl esc cur s ≠ []
  | [], _, _ => by simp [splitSt]
  | c :: r, esc, cur => by
      unfold splitSt
      split
      · exact splitSt_ne_nil bs sl r _ _
      · split
        · split
          · exact splitSt_ne_nil bs sl r _ _
          · simp
        · exact splitSt_ne_nil bs sl r _ _

theorem escapedAfter_cons (bs sl c : α) (rpre : List α) :
    escapedAfter bs sl (c :: rpre) = if c = sl then escapedAfter bs sl rpre else decide (c = bs) := by
  unfold escapedAfter
  by_cases h : c = sl
  · simp [h]
  · simp [h]

theorem escapedAfter_nil (bs sl : α) : escapedAfter bs sl [] = false := rfl

/-- the declarative split is the loop's: the flag IS "the text so far ends in a backslash followed
by slashes only" -/
theorem escSplitFrom_eq (bs sl : α) (hne : bs ≠ sl) : ∀ (s rpre cur : List α),
    escSplitFrom bs sl rpre cur s = splitSt bs sl (escapedAfter bs sl rpre) cur s
  | [], _, _ => by simp [escSplitFrom, splitSt]
  | c :: r, rpre, cur => by
      unfold escSplitFrom splitSt
      by_cases hb : c = bs
      · have hs : c ≠ sl := fun e => hne (hb ▸ e)
        rw [if_neg (by simp [hs]), if_pos hb, escSplitFrom_eq bs sl hne r, escapedAfter_cons,
          if_neg hs]
        simp [hb]
      · rw [if_neg hb]
        by_cases hs : c = sl
        · rw [if_pos hs]
          cases he : escapedAfter bs sl rpre with
          | false =>
            rw [if_pos ⟨hs, rfl⟩, escSplitFrom_eq bs sl hne r, escapedAfter_cons, if_pos hs, he]
            simp
          | true =>
            rw [if_neg (by simp), escSplitFrom_eq bs sl hne r, escapedAfter_cons, if_pos hs, he]
            simp
        · rw [if_neg (by simp [hs]), if_neg hs, escSplitFrom_eq bs sl hne r, escapedAfter_cons,
            if_neg hs]
          simp [hb]

theorem escSplit_eq (bs sl : α) (hne : bs ≠ sl) (s : List α) :
    escSplit bs sl s = splitSt bs sl false [] s := by
  rw [escSplit, escSplitFrom_eq bs sl hne, escapedAfter_nil]

/-! ### one `shiftSelector` call -/

/-- `shiftSelector` from a position with escape flag `esc`: the text up to the first unescaped
separator, the text behind it -/
def shiftG (bs sl : α) : List α → Bool → List α × List α
  | [], _ => ([], [])
  | c :: r, esc =>
    if c = bs then (c :: (shiftG bs sl r true).1, (shiftG bs sl r true).2)
    else if c = sl then
      if esc then (c :: (shiftG bs sl r esc).1, (shiftG bs sl r esc).2) else ([], r)
    else (c :: (shiftG bs sl r false).1, (shiftG bs sl r false).2)

/-- is there an unescaped separator -/
def sepG (bs sl : α) : List α → Bool → Bool
  | [], _ => false
  | c :: r, esc =>
    if c = bs then sepG bs sl r true
    else if c = sl then (if esc then sepG bs sl r esc else true)
    else sepG bs sl r false

theorem shiftG_nosep (bs sl : α) : ∀ (s : List α) (esc : Bool), sepG bs sl s esc = false →
    shiftG bs sl s esc = (s, [])
  | [], _, _ => rfl
  | c :: r, esc, h => by
      unfold sepG at h
      unfold shiftG
      by_cases hb : c = bs
      · rw [if_pos hb] at h ⊢; rw [shiftG_nosep bs sl r true h]
      · rw [if_neg hb] at h ⊢
        by_cases hs : c = sl
        · rw [if_pos hs] at h ⊢
          cases esc with
          | false => simp at h
          | true =>
            simp only [if_true] at h ⊢
            rw [shiftG_nosep bs sl r true h]
        · rw [if_neg hs] at h ⊢; rw [shiftG_nosep bs sl r false h]

theorem shiftG_tail_le (bs sl : α) : ∀ (s : List α) (esc : Bool),
    (shiftG bs sl s esc).2.length ≤ s.length
  | [], _ => by simp [shiftG]
  | c :: r, esc => by
      unfold shiftG
      have h1 := shiftG_tail_le bs sl r true
      have h2 := shiftG_tail_le bs sl r esc
      have h3 := shiftG_tail_le bs sl r false
      split
      · simp only [List.length_cons]; omega
      · split
        · split
          · simp only [List.length_cons]; omega
          · simp
        · simp only [List.length_cons]; omega

theorem shiftG_tail_lt (bs sl : α) (c : α) (r : List α) :
    (shiftG bs sl (c :: r) false).2.length < (c :: r).length := by
  unfold shiftG
  have h1 := shiftG_tail_le bs sl r true
  have h3 := shiftG_tail_le bs sl r false
  split
  · simp only [List.length_cons]; omega
  · split
    · simp
    · simp only [List.length_cons]; omega

/-- the machine's split, one `shiftSelector` call at a time -/
theorem splitSt_shift (bs sl : α) : ∀ (s : List α) (esc : Bool) (cur : List α),
    splitSt bs sl esc cur s =
      if sepG bs sl s esc then
        (cur.reverse ++ (shiftG bs sl s esc).1) :: splitSt bs sl false [] (shiftG bs sl s esc).2
      else [cur.reverse ++ s]
  | [], _, _ => by simp [splitSt, sepG]
  | c :: r, esc, cur => by
      simp only [splitSt, sepG, shiftG]
      by_cases hb : c = bs
      · simp only [if_pos hb]
        rw [splitSt_shift bs sl r true (c :: cur)]
        simp [List.reverse_cons, List.append_assoc]
      · simp only [if_neg hb]
        by_cases hs : c = sl
        · simp only [if_pos hs]
          cases esc with
          | false => simp
          | true =>
            simp only [if_true]
            rw [splitSt_shift bs sl r true (c :: cur)]
            simp [List.reverse_cons, List.append_assoc]
        · simp only [if_neg hs]
          rw [splitSt_shift bs sl r false (c :: cur)]
          simp [List.reverse_cons, List.append_assoc]

/-! ### the loop of `Selector` -/

/-- `for tail != "" { head, tail = shiftSelector(tail); … }`: the heads -/
def partsG (bs sl : α) : Nat → List α → List (List α)
  | 0, _ => []
  | fuel + 1, tl =>
    if tl.isEmpty then [] else (shiftG bs sl tl false).1 :: partsG bs sl fuel (shiftG bs sl tl false).2

omit [DecidableEq α] in
theorem dropTrailingEmptyG_cons (x : List α) {xs : List (List α)} (h : xs ≠ []) :
    dropTrailingEmptyG (x :: xs) = x :: dropTrailingEmptyG xs := by
  cases xs with
  | nil => exact absurd rfl h
  | cons y ys => cases x <;> simp [dropTrailingEmptyG]

omit [DecidableEq α] in
theorem dropTrailingEmptyG_single {x : List α} (h : x ≠ []) : dropTrailingEmptyG [x] = [x] := by
  cases x with
  | nil => exact absurd rfl h
  | cons c cs => simp [dropTrailingEmptyG]

/-- the parts are the segments of the split, a trailing empty one dropped -/
theorem partsG_spec (bs sl : α) (hne : bs ≠ sl) : ∀ (fuel : Nat) (tl : List α), tl.length ≤ fuel →
    partsG bs sl fuel tl = dropTrailingEmptyG (splitSt bs sl false [] tl)
  | 0, tl, h => by
      have : tl = [] := List.eq_nil_of_length_eq_zero (by omega)
      subst this
      simp [partsG, splitSt, dropTrailingEmptyG]
  | fuel + 1, [], _ => by simp [partsG, splitSt, dropTrailingEmptyG]
  | fuel + 1, c :: r, h => by
      have hlt := shiftG_tail_lt bs sl c r
      simp only [partsG, List.isEmpty_cons, Bool.false_eq_true, if_false]
      rw [partsG_spec bs sl hne fuel _ (by simp only [List.length_cons] at h hlt; omega),
        splitSt_shift bs sl (c :: r) false []]
      cases hsep : sepG bs sl (c :: r) false with
      | true =>
        simp only [if_true, List.reverse_nil, List.nil_append]
        rw [dropTrailingEmptyG_cons _ (splitSt_ne_nil bs sl _ _ _)]
      | false =>
        rw [shiftG_nosep bs sl _ _ hsep]
        simp only [Bool.false_eq_true, if_false, List.reverse_nil, List.nil_append]
        rw [dropTrailingEmptyG_single (by simp)]
        simp [splitSt, dropTrailingEmptyG]

/-- **key and parts, as `Selector` computes them, are the segments of the declarative split** -/
theorem segments_spec (bs sl : α) (hne : bs ≠ sl) (s : List α) (fuel : Nat)
    (hf : (shiftG bs sl s false).2.length ≤ fuel) :
    (shiftG bs sl s false).1 :: partsG bs sl fuel (shiftG bs sl s false).2 =
      selectorSegments bs sl s := by
  rw [selectorSegments, escSplit_eq bs sl hne, splitSt_shift bs sl s false [],
    partsG_spec bs sl hne fuel _ hf]
  cases hsep : sepG bs sl s false with
  | true => simp
  | false =>
    rw [shiftG_nosep bs sl _ _ hsep]
    simp [splitSt, dropTrailingEmptyG]

/-! ### reassembly -/

omit [DecidableEq α] in
theorem joinSep_cons (sl : α) (x : List α) {xs : List (List α)} (h : xs ≠ []) :
    joinSep sl (x :: xs) = x ++ sl :: joinSep sl xs := by
  cases xs with
  | nil => exact absurd rfl h
  | cons y ys => rfl

/-- joining the segments gives the string back -/
theorem joinSep_splitSt (bs sl : α) : ∀ (s : List α) (esc : Bool) (cur : List α),
    joinSep sl (splitSt bs sl esc cur s) = cur.reverse ++ s
  | [], _, _ => by simp [splitSt, joinSep]
  | c :: r, esc, cur => by
      simp only [splitSt]
      by_cases hb : c = bs
      · simp only [if_pos hb]
        rw [joinSep_splitSt bs sl r true (c :: cur)]
        simp
      · simp only [if_neg hb]
        by_cases hs : c = sl
        · simp only [if_pos hs]
          cases esc with
          | false =>
            simp only [Bool.false_eq_true, if_false]
            rw [joinSep_cons sl _ (splitSt_ne_nil bs sl _ _ _), joinSep_splitSt bs sl r false []]
            simp [hs]
          | true =>
            simp only [if_true]
            rw [joinSep_splitSt bs sl r true (c :: cur)]
            simp
        · simp only [if_neg hs]
          rw [joinSep_splitSt bs sl r false (c :: cur)]
          simp

/-- the flag after reading `p` from flag `esc` -/
def stAfter (bs sl : α) : Bool → List α → Bool
  | esc, [] => esc
  | esc, c :: r => stAfter bs sl (if c = bs then true else if c = sl then esc else false) r

theorem escapedAfter_append (bs sl : α) (hne : bs ≠ sl) : ∀ (p rpre : List α),
    escapedAfter bs sl (p.reverse ++ rpre) = stAfter bs sl (escapedAfter bs sl rpre) p
  | [], _ => rfl
  | c :: r, rpre => by
      rw [List.reverse_cons, List.append_assoc, List.singleton_append,
        escapedAfter_append bs sl hne r (c :: rpre), escapedAfter_cons]
      simp only [stAfter]
      by_cases hb : c = bs
      · have hs : c ≠ sl := fun e => hne (hb ▸ e)
        simp [hb, hne]
      · by_cases hs : c = sl
        · simp [hb, if_pos hs]
        · simp [hb, hs]

theorem stAfter_append (bs sl : α) : ∀ (p q : List α) (esc : Bool),
    stAfter bs sl esc (p ++ q) = stAfter bs sl (stAfter bs sl esc p) q
  | [], _, _ => rfl
  | c :: r, q, esc => by simp only [List.cons_append, stAfter, stAfter_append bs sl r q]

/-- a text without unescaped separator is read through; the flag goes on -/
theorem splitSt_append_nosep (bs sl : α) : ∀ (p q : List α) (esc : Bool) (cur : List α),
    sepG bs sl p esc = false →
    splitSt bs sl esc cur (p ++ q) = splitSt bs sl (stAfter bs sl esc p) (p.reverse ++ cur) q
  | [], _, _, _, _ => rfl
  | c :: r, q, esc, cur, h => by
      simp only [sepG] at h
      simp only [List.cons_append, splitSt, stAfter]
      by_cases hb : c = bs
      · simp only [if_pos hb] at h ⊢
        rw [splitSt_append_nosep bs sl r q true (c :: cur) h]
        simp
      · simp only [if_neg hb] at h ⊢
        by_cases hs : c = sl
        · simp only [if_pos hs] at h ⊢
          cases esc with
          | false => simp at h
          | true =>
            simp only [if_true] at h ⊢
            rw [splitSt_append_nosep bs sl r q true (c :: cur) h]
            simp
        · simp only [if_neg hs] at h ⊢
          rw [splitSt_append_nosep bs sl r q false (c :: cur) h]
          simp

theorem sealed_iff (bs sl : α) (hne : bs ≠ sl) (p : List α) :
    sealed bs sl p = true ↔ sepG bs sl p false = false ∧ stAfter bs sl false p = false := by
  have hst : escapedAfter bs sl p.reverse = stAfter bs sl false p := by
    have := escapedAfter_append bs sl hne p []
    simpa [escapedAfter_nil] using this
  unfold sealed
  rw [hst, escSplit_eq bs sl hne, splitSt_shift bs sl p false []]
  cases hsep : sepG bs sl p false with
  | true =>
    have hne' := splitSt_ne_nil bs sl (shiftG bs sl p false).2 false []
    cases hx : splitSt bs sl false [] (shiftG bs sl p false).2 with
    | nil => exact absurd hx hne'
    | cons y ys => simp
  | false => simp

/-- **splitting a join of sealed parts gives the parts back** -/
theorem splitSt_joinSep (bs sl : α) (hne : bs ≠ sl) : ∀ (ps : List (List α)), ps ≠ [] →
    (∀ p ∈ ps, sealed bs sl p = true) → splitSt bs sl false [] (joinSep sl ps) = ps
  | [], h, _ => absurd rfl h
  | [p], _, hs => by
      have := (sealed_iff bs sl hne p).mp (hs p (List.mem_singleton.mpr rfl))
      rw [joinSep, splitSt_shift bs sl p false [], this.1]
      simp
  | p :: q :: r, _, hs => by
      have hp := (sealed_iff bs sl hne p).mp (hs p (List.mem_cons_self ..))
      have ih := splitSt_joinSep bs sl hne (q :: r) (by simp)
        (fun x hx => hs x (List.mem_cons_of_mem _ hx))
      rw [joinSep_cons sl p (by simp), splitSt_append_nosep bs sl p _ false [] hp.1, hp.2]
      simp only [splitSt, List.append_nil, List.reverse_reverse]
      rw [if_neg (fun e => hne e.symm)]
      simp [ih]

/-! ### escaping the separators of a part -/

theorem sepG_escapeSep (bs sl : α) (hne : bs ≠ sl) : ∀ (p : List α) (esc : Bool),
    sepG bs sl (escapeSep bs sl p) esc = false
  | [], _ => rfl
  | c :: r, esc => by
      simp only [escapeSep]
      by_cases hs : c = sl
      · have hcb : c ≠ bs := fun e => hne (e.symm.trans hs)
        simp only [if_pos hs, sepG, if_true, if_neg hcb]
        exact sepG_escapeSep bs sl hne r true
      · simp only [if_neg hs, sepG]
        by_cases hb : c = bs
        · simp only [if_pos hb]; exact sepG_escapeSep bs sl hne r true
        · simp only [if_neg hb]; exact sepG_escapeSep bs sl hne r false

theorem stAfter_escapeSep (bs sl : α) (hne : bs ≠ sl) : ∀ (p : List α) (esc : Bool), p ≠ [] →
    p.getLast? ≠ some bs → p.getLast? ≠ some sl → stAfter bs sl esc (escapeSep bs sl p) = false
  | [], _, h, _, _ => absurd rfl h
  | [c], esc, _, hb, hs => by
      have hb' : c ≠ bs := fun e => hb (by simp [e])
      have hs' : c ≠ sl := fun e => hs (by simp [e])
      simp [escapeSep, stAfter, hb', hs']
  | c :: d :: r, esc, _, hb, hs => by
      have ih := fun e => stAfter_escapeSep bs sl hne (d :: r) e (by simp)
        (by simpa [List.getLast?_cons_cons] using hb) (by simpa [List.getLast?_cons_cons] using hs)
      rw [escapeSep]
      by_cases hc : c = sl
      · rw [if_pos hc]
        simp only [stAfter]
        exact ih _
      · rw [if_neg hc]
        simp only [stAfter]
        exact ih _

/-- an escaped part is sealed unless the part ends in a separator or a backslash -/
theorem sealed_escapeSep (bs sl : α) (hne : bs ≠ sl) (p : List α)
    (hb : p.getLast? ≠ some bs) (hs : p.getLast? ≠ some sl) :
    sealed bs sl (escapeSep bs sl p) = true := by
  rw [sealed_iff bs sl hne]
  refine ⟨sepG_escapeSep bs sl hne p false, ?_⟩
  cases p with
  | nil => rfl
  | cons c r => exact stAfter_escapeSep bs sl hne (c :: r) false (by simp) hb hs

/-! ### the conventional reading -/

/-- scanner for `\//`: `q` = 0 nothing, 1 after a backslash, 2 after backslash-slash -/
def stickyFreeSt (bs sl : α) : Nat → List α → Bool
  | _, [] => true
  | q, c :: r =>
    if c = bs then stickyFreeSt bs sl 1 r
    else if c = sl then (if q = 2 then false else stickyFreeSt bs sl (if q = 1 then 2 else 0) r)
    else stickyFreeSt bs sl 0 r

theorem splitSt_intent (bs sl : α) (hne : bs ≠ sl) : ∀ (s : List α),
    (∀ (prev : Option α) (cur : List α), prev ≠ some bs → stickyFreeSt bs sl 0 s = true →
      splitSt bs sl false cur s = intentSplitFrom bs sl prev cur s) ∧
    (∀ (cur : List α), stickyFreeSt bs sl 1 s = true →
      splitSt bs sl true cur s = intentSplitFrom bs sl (some bs) cur s) ∧
    (∀ (cur : List α), stickyFreeSt bs sl 2 s = true →
      splitSt bs sl true cur s = intentSplitFrom bs sl (some sl) cur s)
  | [] => by simp [splitSt, intentSplitFrom]
  | c :: r => by
      obtain ⟨i0, i1, i2⟩ := splitSt_intent bs sl hne r
      have hsb : sl ≠ bs := fun e => hne e.symm
      by_cases hb : c = bs
      · have hs : c ≠ sl := fun e => hne (hb ▸ e)
        have hn : ∀ P : Prop, ¬ (c = sl ∧ P) := fun _ h => hs h.1
        refine ⟨fun prev cur _ hf => ?_, fun cur hf => ?_, fun cur hf => ?_⟩ <;>
          (simp only [stickyFreeSt, if_pos hb] at hf
           simp only [splitSt, intentSplitFrom, if_pos hb, if_neg (hn _)]
           rw [i1 _ hf, hb])
      · by_cases hs : c = sl
        · refine ⟨fun prev cur hp hf => ?_, fun cur hf => ?_, fun cur hf => ?_⟩
          · simp only [stickyFreeSt, if_neg hb, if_pos hs] at hf
            simp only [splitSt, intentSplitFrom, if_neg hb, if_pos hs, Bool.false_eq_true, if_false]
            rw [if_pos ⟨hs, hp⟩, i0 (some c) [] (by rw [hs]; simpa using hsb) (by simpa using hf)]
          · simp only [stickyFreeSt, if_neg hb, if_pos hs] at hf
            simp only [splitSt, intentSplitFrom, if_neg hb, if_pos hs, if_true]
            rw [if_neg (by simp), i2 _ (by simpa using hf), hs]
          · simp only [stickyFreeSt, if_neg hb, if_pos hs] at hf
            simp at hf
        · have hn : ∀ P : Prop, ¬ (c = sl ∧ P) := fun _ h => hs h.1
          have hcp : some c ≠ some bs := by simpa using hb
          refine ⟨fun prev cur _ hf => ?_, fun cur hf => ?_, fun cur hf => ?_⟩ <;>
            (simp only [stickyFreeSt, if_neg hb, if_neg hs] at hf
             simp only [splitSt, intentSplitFrom, if_neg hb, if_neg hs, if_neg (hn _)]
             rw [i0 (some c) _ hcp hf])

theorem hasSticky_cons_ne (bs sl a : α) (l : List α) (h : a ≠ bs) :
    hasSticky bs sl (a :: l) = hasSticky bs sl l := by
  match l with
  | [] => simp [hasSticky]
  | [b] => simp [hasSticky]
  | b :: c :: r => simp [hasSticky, h]

theorem hasSticky_cons_cons_ne (bs sl a b : α) (l : List α) (h : b ≠ sl) :
    hasSticky bs sl (a :: b :: l) = hasSticky bs sl (b :: l) := by
  match l with
  | [] => simp [hasSticky]
  | c :: r => simp [hasSticky, h]

/-- the scanner decides "contains `\//`" -/
theorem stickyFreeSt_eq (bs sl : α) (hne : bs ≠ sl) : ∀ (s : List α),
    (stickyFreeSt bs sl 0 s = !hasSticky bs sl s) ∧
    (stickyFreeSt bs sl 1 s = !hasSticky bs sl (bs :: s)) ∧
    (stickyFreeSt bs sl 2 s = !hasSticky bs sl (bs :: sl :: s))
  | [] => by simp [stickyFreeSt, hasSticky]
  | c :: r => by
      obtain ⟨i0, i1, i2⟩ := stickyFreeSt_eq bs sl hne r
      have hsb : sl ≠ bs := fun e => hne e.symm
      by_cases hb : c = bs
      · rw [hb]
        refine ⟨?_, ?_, ?_⟩
        · simp only [stickyFreeSt, ↓reduceIte, i1]
        · simp only [stickyFreeSt, ↓reduceIte, i1]
          rw [hasSticky_cons_cons_ne bs sl bs bs r hne]
        · simp only [stickyFreeSt, ↓reduceIte, i1]
          have : hasSticky bs sl (bs :: sl :: bs :: r) = hasSticky bs sl (bs :: r) := by
            simp only [hasSticky, hne, decide_false, Bool.and_false, Bool.false_or]
            rw [hasSticky_cons_ne bs sl sl (bs :: r) hsb]
          rw [this]
      · by_cases hs : c = sl
        · rw [hs]
          refine ⟨?_, ?_, ?_⟩
          · simp only [stickyFreeSt, if_neg hsb, ↓reduceIte]
            rw [hasSticky_cons_ne bs sl sl r hsb]
            simp [i0]
          · simp only [stickyFreeSt, if_neg hsb, ↓reduceIte]
            simp [i2]
          · simp [stickyFreeSt, hsb, hasSticky]
        · refine ⟨?_, ?_, ?_⟩
          · simp only [stickyFreeSt, if_neg hb, if_neg hs, i0]
            rw [hasSticky_cons_ne bs sl c r hb]
          · simp only [stickyFreeSt, if_neg hb, if_neg hs, i0]
            rw [hasSticky_cons_cons_ne bs sl bs c r hs, hasSticky_cons_ne bs sl c r hb]
          · simp only [stickyFreeSt, if_neg hb, if_neg hs, i0]
            have : hasSticky bs sl (bs :: sl :: c :: r) = hasSticky bs sl r := by
              simp only [hasSticky, hs, decide_false, Bool.and_false, Bool.false_or]
              rw [hasSticky_cons_cons_ne bs sl sl c r hs, hasSticky_cons_ne bs sl c r hb]
            rw [this]

/-- **on a string without `\//` the code splits where the conventional reading splits** -/
theorem escSplit_intent (bs sl : α) (hne : bs ≠ sl) (s : List α) (h : hasSticky bs sl s = false) :
    escSplit bs sl s = intentSplit bs sl s := by
  rw [escSplit_eq bs sl hne, intentSplit]
  have hf : stickyFreeSt bs sl 0 s = true := by rw [(stickyFreeSt_eq bs sl hne s).1, h]; rfl
  exact (splitSt_intent bs sl hne s).1 none [] (by simp) hf

end generic
end SelSpec
end Gts

namespace Gts
open SelSpec Pars

/-! ### the byte-level model (`Gts/Model/Locator.lean`, bridged to feature.go) -/

theorem shiftSelectorGo_eq : ∀ (s : Bytes) (esc : Bool),
    shiftSelectorGo s esc = shiftG (92 : UInt8) 47 s esc
  | [], _ => rfl
  | c :: r, esc => by
      simp only [shiftSelectorGo, shiftG]
      rw [shiftSelectorGo_eq r true, shiftSelectorGo_eq r esc, shiftSelectorGo_eq r false]
      by_cases h92 : c = 92
      · simp [h92]
      · by_cases h47 : c = 47
        · cases esc <;> simp [h47]
        · simp [h92, h47]

theorem selectorParts_eq : ∀ (fuel : Nat) (tl : Bytes),
    selectorParts fuel tl = partsG (92 : UInt8) 47 fuel tl
  | 0, _ => rfl
  | fuel + 1, tl => by
      simp only [selectorParts, partsG, shiftSelectorB]
      rw [shiftSelectorGo_eq, selectorParts_eq fuel]

/-- **the loop of `Selector` over `shiftSelector`, every byte string**: the key and the qualifier
parts are the segments of the declarative split with escapes, a trailing empty segment dropped -/
theorem selectorParts_segments (s : Bytes) :
    (shiftSelectorB s).1 :: selectorParts ((shiftSelectorB s).2.length + 1) (shiftSelectorB s).2 =
      selectorSegments (92 : UInt8) 47 s := by
  rw [selectorParts_eq]
  simp only [shiftSelectorB, shiftSelectorGo_eq]
  exact segments_spec (92 : UInt8) 47 (by decide) s _ (Nat.le_succ _)

/-! ### the character-level model (`Gts/Model/Feature.lean`, answered over the protocol) -/

theorem shiftLoop_eq : ∀ (cs : List Char) (esc : Bool) (pre : List Char),
    shiftLoop esc pre cs = (pre.reverse ++ (shiftG '\\' '/' cs esc).1, (shiftG '\\' '/' cs esc).2)
  | [], _, _ => by simp [shiftLoop, shiftG]
  | c :: r, esc, pre => by
      simp only [shiftLoop, shiftG]
      by_cases hb : c = '\\'
      · simp only [if_pos hb]
        rw [shiftLoop_eq r true]
        simp [hb]
      · simp only [if_neg hb]
        by_cases hs : c = '/'
        · simp only [if_pos hs]
          cases esc with
          | false => simp
          | true =>
            simp only [Bool.not_true, Bool.false_eq_true, if_false, if_true]
            rw [shiftLoop_eq r true]
            simp [hs]
        · simp only [if_neg hs]
          rw [shiftLoop_eq r false]
          simp

theorem shiftChars_eq (cs : List Char) : shiftChars cs = shiftG '\\' '/' cs false := by
  rw [shiftChars, shiftLoop_eq]; simp

theorem clauseLoop_eq : ∀ (fuel : Nat) (t : List Char), clauseLoop fuel t = partsG '\\' '/' fuel t
  | 0, _ => rfl
  | fuel + 1, [] => by simp [clauseLoop, partsG]
  | fuel + 1, c :: cs => by
      simp only [clauseLoop, partsG, List.isEmpty_cons, Bool.false_eq_true, if_false]
      rw [shiftChars_eq, clauseLoop_eq fuel]

/-- **the syntactic half of `Selector`, every string** (backslashes included): the key and the
clauses of the grammar with escapes -/
theorem parseSelector_esc (s : String) : parseSelector s = ⟨keyEsc s, clausesEsc s⟩ := by
  have hseg := segments_spec '\\' '/' (by decide) s.toList (shiftG '\\' '/' s.toList false).2.length
    (Nat.le_refl _)
  unfold selectorSegments at hseg
  unfold parseSelector parseSelectorChars keyEsc clausesEsc
  simp only [shiftChars_eq, clauseLoop_eq]
  cases hsp : escSplit '\\' '/' s.toList with
  | nil =>
    rw [hsp] at hseg
    cases hseg
  | cons k rest =>
    rw [hsp] at hseg
    simp only at hseg
    have h1 := (List.cons.inj hseg).1
    have h2 := (List.cons.inj hseg).2
    simp only [List.headD_cons, List.tail_cons, h1, h2, List.map_map]
    congr 1
    apply List.map_congr_left
    intro seg _
    simp [Function.comp, splitEq_eq, clauseOf]

/-! ### qualifier tables as they are -/

/-- the closure of `Qualifier(name, query)` on ANY qualifier table: what it tests, row by row -/
theorem qualEval_rows (mtch : String → String → Bool) (c : String × String) (f : Feature) :
    qualEval mtch c.1 c.2 f = true ↔ clauseSatRows mtch c f := by
  unfold qualEval clauseSatRows
  by_cases hname : c.1 = ""
  · simp only [hname, if_true, List.any_eq_true]
  · simp only [hname, if_false]
    by_cases hq : c.2 = ""
    · simp only [hq, if_true, Props.has_iff]
    · simp only [hq, if_false]
      rw [Props.get_eq]
      unfold firstValues
      change _ ↔ ∃ v ∈ ((f.props.find? (Props.named c.1)).map List.tail).getD [], _
      cases f.props.find? (Props.named c.1) with
      | none => simp
      | some row => simp [List.any_eq_true]

end Gts
