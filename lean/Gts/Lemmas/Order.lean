/-
  `Order(...)` never changes the denoted residues.  Core Lean only.
-/
import Gts.Lemmas.Push
namespace Gts
namespace Loc

mutual
theorem denList_flattenOrd : ∀ (l : Loc), denList (flattenOrd l) = den l
  | ordered ls => by simpa [flattenOrd] using denList_flattenOrdList ls
  | between p => by simp [flattenOrd]
  | point p => by simp [flattenOrd]
  | ranged s e a b => by simp [flattenOrd]
  | ambiguous s e => by simp [flattenOrd]
  | joined ls => by simp [flattenOrd]
  | compl l => by simp [flattenOrd]
theorem denList_flattenOrdList : ∀ (ls : List Loc), denList (flattenOrdList ls) = denList ls
  | [] => by simp [flattenOrdList]
  | l :: ls => by
      simp [flattenOrdList, denList_append, denList_flattenOrd l, denList_flattenOrdList ls]
end

mutual
theorem wfList_flattenOrd : ∀ (l : Loc), wf l = true → wfList (flattenOrd l) = true
  | ordered ls, h => by simpa [flattenOrd] using wfList_flattenOrdList ls (by simpa [wf] using h)
  | between p, _ => by simp [flattenOrd, wf]
  | point p, _ => by simp [flattenOrd, wf]
  | ranged s e a b, h => by simpa [flattenOrd] using h
  | ambiguous s e, h => by simpa [flattenOrd] using h
  | joined ls, h => by simpa [flattenOrd] using h
  | compl l, h => by simpa [flattenOrd] using h
theorem wfList_flattenOrdList : ∀ (ls : List Loc), wfList ls = true → wfList (flattenOrdList ls) = true
  | [], _ => by simp [flattenOrdList]
  | l :: ls, h => by
      simp only [wfList_cons, Bool.and_eq_true] at h
      simp [flattenOrdList, wfList_append, wfList_flattenOrd l h.1, wfList_flattenOrdList ls h.2]
end

theorem ofPartsOrd_den (j : List Loc) :
    den (match j with | [] => ordered [] | [a] => a | l => ordered l) = denList j := by
  match j with
  | [] => simp
  | [a] => simp
  | _ :: _ :: _ => simp

/-- `Order` keeps exactly the residues of its arguments, in order. -/
theorem order_den (xs : List Loc) : den (order xs) = denList xs := by
  unfold order
  rw [← denList_flattenOrdList xs]
  generalize flattenOrdList xs = j
  match j with
  | [] => simp
  | [a] => simp
  | _ :: _ :: _ => simp

theorem order_wf (xs : List Loc) (h : wfList xs = true) : wf (order xs) = true := by
  unfold order
  have := wfList_flattenOrdList xs h
  revert this
  generalize flattenOrdList xs = j
  intro hj
  match j, hj with
  | [], _ => simp [wf]
  | [a], hj => simpa using hj
  | a :: b :: r, hj => simpa [wf] using hj

end Loc
end Gts
