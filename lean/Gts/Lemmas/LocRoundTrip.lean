/-
  Run lemmas for the location text round trip (C06): `pars.Int` on printed coordinates, every
  alternative of `ParseLocation = Any(range, between, ambiguous, complement, join, order, point)`
  on a printed location followed by a delimiter — the failing alternatives restore position and
  stack exactly, the succeeding one leaves the stack as it found it.  Core Lean only.
-/
import Gts.Lemmas.Locator
import Gts.Spec.LocCanon
namespace Gts
open Pars ModParse LocParse

/-! ### decimal coordinates -/

theorem natDigits_zero : natDigits 0 = [48] := by decide

theorem dec_ofNat (n : Nat) : dec (n : Int) = natDigits n := by
  unfold dec
  rw [if_neg (by omega)]
  rfl

theorem dec_succ (n : Nat) : dec ((n : Int) + 1) = natDigits (n + 1) := by
  rw [show (n : Int) + 1 = ((n + 1 : Nat) : Int) by omega, dec_ofNat]

/-- `pars.Int` on a leading `0` -/
theorem int_zero (r : Bytes) (stk : List Bytes) : int ⟨48 :: r, stk⟩ = (.ok 0, ⟨r, stk⟩) := by
  psimp [int, isDigit]

/-- `pars.Int` reads back a printed natural number (zero included) -/
theorem int_dec (n : Nat) (r : Bytes) (stk : List Bytes) (hf : n ≤ 9223372036854775807)
    (hr : r.dropWhile isDigit = r) : int ⟨natDigits n ++ r, stk⟩ = (.ok (n : Int), ⟨r, stk⟩) := by
  cases n with
  | zero => rw [natDigits_zero]; exact int_zero r stk
  | succ k => exact int_natDigits (k + 1) r stk (by omega) hf hr

/-- `pars.Int` on a byte that is neither a digit nor a sign: failure, state restored (the frame
leaks only at the end of input, `int_nil`) -/
theorem int_other (c : UInt8) (r : Bytes) (stk : List Bytes) (hc : isDigit c = false)
    (h45 : c ≠ 45) (h43 : c ≠ 43) : int ⟨c :: r, stk⟩ = (.error .fail, ⟨c :: r, stk⟩) := by
  psimp [int, hc, h45, h43]

/-! ### the three number-led alternatives on a number that is *not* theirs -/

/-- `parseRange` on a number that is not followed by `..`: failure, state restored -/
theorem range_num_fail (a : Nat) (rest : Bytes) (stk : List Bytes) (hf : a ≤ 9223372036854775807)
    (hr : rest.dropWhile isDigit = rest) (h2 : rest.length < 2 ∨ rest.take 2 ≠ [46, 46]) :
    LocParse.range ⟨natDigits a ++ rest, stk⟩ = (.error .fail, ⟨natDigits a ++ rest, stk⟩) := by
  obtain ⟨d, ds, h3, hd⟩ := natDigits_cons a
  have hi := int_dec a rest ((natDigits a ++ rest) :: stk) hf hr
  rw [h3] at hi
  simp only [List.cons_append] at hi
  have h60 : d ≠ 60 := isDigit_ne d 60 hd (by decide)
  rw [h3]
  simp only [List.cons_append]
  by_cases hl : rest.length < 2
  · psimp [LocParse.range, h60, hi, hl]
  · have h2' : rest.take 2 ≠ [46, 46] := by
      rcases h2 with h | h
      · exact absurd h hl
      · exact h
    psimp [LocParse.range, h60, hi, hl, h2']

/-- `parseBetween` on a number that is not followed by `^`: failure, state restored -/
theorem between_num_fail (a : Nat) (rest : Bytes) (stk : List Bytes) (hf : a ≤ 9223372036854775807)
    (hr : rest.dropWhile isDigit = rest) (hc : ∀ r, rest ≠ 94 :: r) :
    LocParse.between ⟨natDigits a ++ rest, stk⟩ = (.error .fail, ⟨natDigits a ++ rest, stk⟩) := by
  have hi := int_dec a rest ((natDigits a ++ rest) :: stk) hf hr
  cases rest with
  | nil => simp only [List.append_nil] at hi; psimp [LocParse.between, hi]
  | cons c r =>
    have : c ≠ 94 := fun h => hc r (by rw [h])
    psimp [LocParse.between, hi, this]

/-- `parseAmbiguous` on a number that is not followed by `.`: failure, state restored -/
theorem ambiguous_num_fail (a : Nat) (rest : Bytes) (stk : List Bytes) (hf : a ≤ 9223372036854775807)
    (hr : rest.dropWhile isDigit = rest) (hc : ∀ r, rest ≠ 46 :: r) :
    LocParse.ambiguous ⟨natDigits a ++ rest, stk⟩ = (.error .fail, ⟨natDigits a ++ rest, stk⟩) := by
  have hi := int_dec a rest ((natDigits a ++ rest) :: stk) hf hr
  cases rest with
  | nil => simp only [List.append_nil] at hi; psimp [LocParse.ambiguous, hi]
  | cons c r =>
    have : c ≠ 46 := fun h => hc r (by rw [h])
    psimp [LocParse.ambiguous, hi, this]

/-! ### the number-led alternatives on a keyword (`complement(`, `join(`, `order(`) -/

theorem range_alpha_fail (c : UInt8) (r : Bytes) (stk : List Bytes) (hc : isDigit c = false)
    (h45 : c ≠ 45) (h43 : c ≠ 43) (h60 : c ≠ 60) :
    LocParse.range ⟨c :: r, stk⟩ = (.error .fail, ⟨c :: r, stk⟩) := by
  psimp [LocParse.range, h60, int_other c r _ hc h45 h43]

theorem between_alpha_fail (c : UInt8) (r : Bytes) (stk : List Bytes) (hc : isDigit c = false)
    (h45 : c ≠ 45) (h43 : c ≠ 43) :
    LocParse.between ⟨c :: r, stk⟩ = (.error .fail, ⟨c :: r, stk⟩) := by
  psimp [LocParse.between, int_other c r _ hc h45 h43]

theorem ambiguous_alpha_fail (c : UInt8) (r : Bytes) (stk : List Bytes) (hc : isDigit c = false)
    (h45 : c ≠ 45) (h43 : c ≠ 43) :
    LocParse.ambiguous ⟨c :: r, stk⟩ = (.error .fail, ⟨c :: r, stk⟩) := by
  psimp [LocParse.ambiguous, int_other c r _ hc h45 h43]

/-! ### the keyword alternatives on another first byte -/

theorem str_join : str "join(" = [106, 111, 105, 110, 40] := by decide +kernel
theorem str_order : str "order(" = [111, 114, 100, 101, 114, 40] := by decide +kernel

/-- `parseComplement` fails, restoring the state, on input that does not start with `c`
(fewer than 11 bytes, or 11 bytes that differ) -/
theorem complementOf_other (f : Nat) (d : UInt8) (r : Bytes) (stk : List Bytes) (h : d ≠ 99) :
    complementOf f ⟨d :: r, stk⟩ = (.error .fail, ⟨d :: r, stk⟩) := by
  cases f with
  | zero => rw [complementOf]; rfl
  | succ f =>
    rw [complementOf]
    by_cases hl : r.length + 1 < 11
    · psimp [hl]
    · psimp [hl, str_complement, h]

theorem joinOf_other (f : Nat) (d : UInt8) (r : Bytes) (stk : List Bytes) (h : d ≠ 106) :
    joinOf f ⟨d :: r, stk⟩ = (.error .fail, ⟨d :: r, stk⟩) := by
  cases f with
  | zero => rw [joinOf]; rfl
  | succ f =>
    rw [joinOf]
    by_cases hl : r.length + 1 < 5
    · psimp [hl]
    · psimp [hl, str_join, h]

theorem orderOf_other (f : Nat) (d : UInt8) (r : Bytes) (stk : List Bytes) (h : d ≠ 111) :
    orderOf f ⟨d :: r, stk⟩ = (.error .fail, ⟨d :: r, stk⟩) := by
  cases f with
  | zero => rw [orderOf]; rfl
  | succ f =>
    rw [orderOf]
    by_cases hl : r.length + 1 < 6
    · psimp [hl]
    · psimp [hl, str_order, h]

/-! ### each contiguous alternative on its own printed form -/

/-- `parseRange` on a printed range, all four partial-marker combinations -/
theorem range_print (a b : Nat) (p5 p3 : Bool) (rest : Bytes) (stk : List Bytes)
    (hfa : a ≤ 9223372036854775807) (hfb : b ≤ 9223372036854775807)
    (hr : rest.dropWhile isDigit = rest) (h62 : ∀ r, rest ≠ 62 :: r) :
    LocParse.range ⟨(if p5 then [60] else []) ++ (natDigits a ++ 46 :: 46 ::
        ((if p3 then [62] else []) ++ (natDigits b ++ rest))), stk⟩ =
      (.ok (.ranged ((a : Int) - 1) b p5 p3), ⟨rest, stk⟩) := by
  obtain ⟨d, ds, h3, hd⟩ := natDigits_cons a
  obtain ⟨e, es, h4, he⟩ := natDigits_cons b
  have hi := fun r' (hr' : r'.dropWhile isDigit = r') stk' => int_dec a r' stk' hfa hr'
  have hj := fun stk' => int_dec b rest stk' hfb hr
  rw [h3] at hi
  rw [h4] at hj
  simp only [List.cons_append] at hi hj
  have h60 : d ≠ 60 := isDigit_ne d 60 hd (by decide)
  have h62e : e ≠ 62 := isDigit_ne e 62 he (by decide)
  have hdot : ∀ r' : Bytes, (46 :: r').dropWhile isDigit = 46 :: r' := by intro r'; simp [isDigit]
  have h60b : (d == 60) = false := by simpa using h60
  have h62b : (e == 62) = false := by simpa using h62e
  have hlen : ∀ n : Nat, ¬ (n + 1 + 1 < 2) := by omega
  rw [h3, h4]
  cases rest with
  | nil =>
    simp only [List.append_nil] at hj
    cases p5 <;> cases p3 <;>
      psimp [LocParse.range, h60, h62e, hi _ (hdot _), hj, hlen, h60b, h62b]
  | cons c r =>
    have hc : c ≠ 62 := fun h => h62 r (by rw [h])
    cases p5 <;> cases p3 <;>
      psimp [LocParse.range, h60, h62e, hi _ (hdot _), hj, hc, hlen, h60b, h62b]

/-- the legacy spelling `a..b>` (the 3' marker after the end coordinate, location.go `parseRange`) -/
theorem range_legacy (a b : Nat) (p5 p3 : Bool) (rest : Bytes) (stk : List Bytes)
    (hfa : a ≤ 9223372036854775807) (hfb : b ≤ 9223372036854775807) :
    LocParse.range ⟨(if p5 then [60] else []) ++ (natDigits a ++ 46 :: 46 ::
        ((if p3 then [62] else []) ++ (natDigits b ++ 62 :: rest))), stk⟩ =
      (.ok (.ranged ((a : Int) - 1) b p5 true), ⟨rest, stk⟩) := by
  obtain ⟨d, ds, h3, hd⟩ := natDigits_cons a
  obtain ⟨e, es, h4, he⟩ := natDigits_cons b
  have hi := fun r' (hr' : r'.dropWhile isDigit = r') stk' => int_dec a r' stk' hfa hr'
  have hj := fun stk' => int_dec b (62 :: rest) stk' hfb (by simp [isDigit])
  rw [h3] at hi
  rw [h4] at hj
  simp only [List.cons_append] at hi hj
  have h60 : d ≠ 60 := isDigit_ne d 60 hd (by decide)
  have h62e : e ≠ 62 := isDigit_ne e 62 he (by decide)
  have hdot : ∀ r' : Bytes, (46 :: r').dropWhile isDigit = 46 :: r' := by intro r'; simp [isDigit]
  have h60b : (d == 60) = false := by simpa using h60
  have h62b : (e == 62) = false := by simpa using h62e
  have hlen : ∀ n : Nat, ¬ (n + 1 + 1 < 2) := by omega
  rw [h3, h4]
  cases p5 <;> cases p3 <;>
    psimp [LocParse.range, h60, h62e, hi _ (hdot _), hj, hlen, h60b, h62b]

/-- `parseBetween` on a printed between-site -/
theorem between_print (a : Nat) (rest : Bytes) (stk : List Bytes) (hfa : a + 1 ≤ 9223372036854775807)
    (hr : rest.dropWhile isDigit = rest) :
    LocParse.between ⟨natDigits a ++ 94 :: (natDigits (a + 1) ++ rest), stk⟩ =
      (.ok (.between a), ⟨rest, stk⟩) := by
  have hi := fun stk' => int_dec a (94 :: (natDigits (a + 1) ++ rest)) stk' (by omega) (by simp [isDigit])
  have hj := fun stk' => int_dec (a + 1) rest stk' hfa hr
  psimp [LocParse.between, hi, hj]

/-- `parseAmbiguous` on a printed ambiguous span -/
theorem ambiguous_print (a b : Nat) (rest : Bytes) (stk : List Bytes) (hfa : a ≤ 9223372036854775807)
    (hfb : b ≤ 9223372036854775807) (hr : rest.dropWhile isDigit = rest) :
    LocParse.ambiguous ⟨natDigits a ++ 46 :: (natDigits b ++ rest), stk⟩ =
      (.ok (.ambiguous ((a : Int) - 1) b), ⟨rest, stk⟩) := by
  have hi := fun stk' => int_dec a (46 :: (natDigits b ++ rest)) stk' hfa (by simp [isDigit])
  have hj := fun stk' => int_dec b rest stk' hfb hr
  psimp [LocParse.ambiguous, hi, hj]

/-- `parsePoint` on a printed point -/
theorem point_print (a : Nat) (rest : Bytes) (stk : List Bytes) (hfa : a ≤ 9223372036854775807)
    (hr : rest.dropWhile isDigit = rest) :
    LocParse.point ⟨natDigits a ++ rest, stk⟩ = (.ok (.point ((a : Int) - 1)), ⟨rest, stk⟩) := by
  psimp [LocParse.point, int_dec a rest _ hfa hr]


/-! ### `pars.Any` -/

theorem anyOf_run {α} (ps : List (P α)) (r : Bytes) (stk : List Bytes) :
    anyOf ps ⟨r, stk⟩ = anyOf.go ps ⟨r, r :: stk⟩ := by
  psimp []

theorem anyOf_go_skip {α} (p : P α) (ps : List (P α)) (r top : Bytes) (stk : List Bytes)
    (h : p ⟨r, top :: stk⟩ = (.error .fail, ⟨r, top :: stk⟩)) :
    anyOf.go (p :: ps) ⟨r, top :: stk⟩ = anyOf.go ps ⟨r, top :: stk⟩ := by
  rw [anyOf.go]
  psimp [h]

theorem anyOf_go_hit {α} (p : P α) (ps : List (P α)) (r r' top : Bytes) (stk : List Bytes) (v : α)
    (h : p ⟨r, top :: stk⟩ = (.ok v, ⟨r', top :: stk⟩)) :
    anyOf.go (p :: ps) ⟨r, top :: stk⟩ = (.ok v, ⟨r', stk⟩) := by
  rw [anyOf.go]
  psimp [h]

/-! ### what may follow a printed location -/

/-- a continuation that does not change how a printed location is read: it does not start with
a digit, `.`, `^` or `>` -/
def Sep : Bytes → Prop
  | [] => True
  | c :: _ => isDigit c = false ∧ c ≠ 46 ∧ c ≠ 94 ∧ c ≠ 62

/-- the delimiters that follow a printed location inside a printed location: end of input,
`,` or `)` -/
def Delim : Bytes → Prop
  | [] => True
  | c :: _ => c = 44 ∨ c = 41

theorem Delim.sep {r : Bytes} (h : Delim r) : Sep r := by
  cases r with
  | nil => trivial
  | cons c r => rcases h with rfl | rfl <;> exact ⟨by decide, by decide, by decide, by decide⟩

theorem Sep.noDigit {r : Bytes} (h : Sep r) : r.dropWhile isDigit = r := by
  cases r with
  | nil => rfl
  | cons c r => simp [h.1]

theorem Sep.noDots {r : Bytes} (h : Sep r) : r.length < 2 ∨ r.take 2 ≠ [46, 46] := by
  match r, h with
  | [], _ => left; simp
  | [_], _ => left; simp
  | c :: _ :: _, h => right; intro hc; simp at hc; exact h.2.1 hc.1

theorem Sep.ne {r : Bytes} (h : Sep r) (c : UInt8) (hc : c = 46 ∨ c = 94 ∨ c = 62) : ∀ r', r ≠ c :: r' := by
  intro r' e
  subst e
  rcases hc with rfl | rfl | rfl
  · exact h.2.1 rfl
  · exact h.2.2.1 rfl
  · exact h.2.2.2 rfl

/-! ### the keyword alternatives on a number -/

theorem complementOf_num_fail (f a : Nat) (rest : Bytes) (stk : List Bytes) :
    complementOf f ⟨natDigits a ++ rest, stk⟩ = (.error .fail, ⟨natDigits a ++ rest, stk⟩) := by
  obtain ⟨d, ds, h3, hd⟩ := natDigits_cons a
  rw [h3]
  exact complementOf_other f d _ stk (isDigit_ne d 99 hd (by decide))

theorem joinOf_num_fail (f a : Nat) (rest : Bytes) (stk : List Bytes) :
    joinOf f ⟨natDigits a ++ rest, stk⟩ = (.error .fail, ⟨natDigits a ++ rest, stk⟩) := by
  obtain ⟨d, ds, h3, hd⟩ := natDigits_cons a
  rw [h3]
  exact joinOf_other f d _ stk (isDigit_ne d 106 hd (by decide))

theorem orderOf_num_fail (f a : Nat) (rest : Bytes) (stk : List Bytes) :
    orderOf f ⟨natDigits a ++ rest, stk⟩ = (.error .fail, ⟨natDigits a ++ rest, stk⟩) := by
  obtain ⟨d, ds, h3, hd⟩ := natDigits_cons a
  rw [h3]
  exact orderOf_other f d _ stk (isDigit_ne d 111 hd (by decide))

/-! ### `ParseLocation` on the four contiguous kinds -/

/-- a printed range: the first alternative succeeds -/
theorem loc_ranged (f a b : Nat) (p5 p3 : Bool) (rest : Bytes) (stk : List Bytes)
    (hfa : a ≤ 9223372036854775807) (hfb : b ≤ 9223372036854775807) (hs : Sep rest) :
    loc (f + 1) ⟨(if p5 then [60] else []) ++ (natDigits a ++ 46 :: 46 ::
        ((if p3 then [62] else []) ++ (natDigits b ++ rest))), stk⟩ =
      (.ok (.ranged ((a : Int) - 1) b p5 p3), ⟨rest, stk⟩) := by
  rw [loc, anyOf_run]
  exact anyOf_go_hit _ _ _ _ _ _ _ (range_print a b p5 p3 rest _ hfa hfb hs.noDigit (hs.ne 62 (by simp)))

/-- the legacy spelling `a..b>` reads as the same range with the 3' marker set -/
theorem loc_ranged_legacy (f a b : Nat) (p5 p3 : Bool) (rest : Bytes) (stk : List Bytes)
    (hfa : a ≤ 9223372036854775807) (hfb : b ≤ 9223372036854775807) :
    loc (f + 1) ⟨(if p5 then [60] else []) ++ (natDigits a ++ 46 :: 46 ::
        ((if p3 then [62] else []) ++ (natDigits b ++ 62 :: rest))), stk⟩ =
      (.ok (.ranged ((a : Int) - 1) b p5 true), ⟨rest, stk⟩) := by
  rw [loc, anyOf_run]
  exact anyOf_go_hit _ _ _ _ _ _ _ (range_legacy a b p5 p3 rest _ hfa hfb)

/-- a printed between-site: `range` fails at `^`, `between` succeeds -/
theorem loc_between (f a : Nat) (rest : Bytes) (stk : List Bytes)
    (hfa : a + 1 ≤ 9223372036854775807) (hs : Sep rest) :
    loc (f + 1) ⟨natDigits a ++ 94 :: (natDigits (a + 1) ++ rest), stk⟩ =
      (.ok (.between a), ⟨rest, stk⟩) := by
  rw [loc, anyOf_run]
  rw [anyOf_go_skip _ _ _ _ _ (range_num_fail a _ _ (by omega) (by simp [isDigit]) (by right; simp))]
  exact anyOf_go_hit _ _ _ _ _ _ _ (between_print a rest _ hfa hs.noDigit)

/-- a printed ambiguous span: `range` fails (one `.` only), `between` fails at `.`,
`ambiguous` succeeds -/
theorem loc_ambiguous (f a b : Nat) (rest : Bytes) (stk : List Bytes)
    (hfa : a ≤ 9223372036854775807) (hfb : b ≤ 9223372036854775807) (hs : Sep rest) :
    loc (f + 1) ⟨natDigits a ++ 46 :: (natDigits b ++ rest), stk⟩ =
      (.ok (.ambiguous ((a : Int) - 1) b), ⟨rest, stk⟩) := by
  have h2 : (46 :: (natDigits b ++ rest)).length < 2 ∨ (46 :: (natDigits b ++ rest)).take 2 ≠ [46, 46] := by
    obtain ⟨e, es, h4, he⟩ := natDigits_cons b
    right
    rw [h4]
    simp
    exact isDigit_ne e 46 he (by decide)
  rw [loc, anyOf_run]
  rw [anyOf_go_skip _ _ _ _ _ (range_num_fail a _ _ hfa (by simp [isDigit]) h2)]
  rw [anyOf_go_skip _ _ _ _ _ (between_num_fail a _ _ hfa (by simp [isDigit]) (by simp))]
  exact anyOf_go_hit _ _ _ _ _ _ _ (ambiguous_print a b rest _ hfa hfb hs.noDigit)

/-- a printed point: the six earlier alternatives fail restoring the state, `point` succeeds -/
theorem loc_point (f a : Nat) (rest : Bytes) (stk : List Bytes)
    (hfa : a ≤ 9223372036854775807) (hs : Sep rest) :
    loc (f + 1) ⟨natDigits a ++ rest, stk⟩ = (.ok (.point ((a : Int) - 1)), ⟨rest, stk⟩) := by
  rw [loc, anyOf_run]
  rw [anyOf_go_skip _ _ _ _ _ (range_num_fail a _ _ hfa hs.noDigit hs.noDots)]
  rw [anyOf_go_skip _ _ _ _ _ (between_num_fail a _ _ hfa hs.noDigit (hs.ne 94 (by simp)))]
  rw [anyOf_go_skip _ _ _ _ _ (ambiguous_num_fail a _ _ hfa hs.noDigit (hs.ne 46 (by simp)))]
  rw [anyOf_go_skip _ _ _ _ _ (complementOf_num_fail f a _ _)]
  rw [anyOf_go_skip _ _ _ _ _ (joinOf_num_fail f a _ _)]
  rw [anyOf_go_skip _ _ _ _ _ (orderOf_num_fail f a _ _)]
  exact anyOf_go_hit _ _ _ _ _ _ _ (point_print a rest _ hfa hs.noDigit)


/-! ### the keyword alternatives on their own keyword -/

/-- `parseComplement` around an inner parse that stops at `)` -/
theorem complementOf_run (f : Nat) (inp rest : Bytes) (l : Loc) (stk : List Bytes)
    (h : ∀ stk', loc f ⟨inp, stk'⟩ = (.ok l, ⟨41 :: rest, stk'⟩)) :
    complementOf (f + 1) ⟨99 :: 111 :: 109 :: 112 :: 108 :: 101 :: 109 :: 101 :: 110 :: 116 :: 40 :: inp, stk⟩ =
      (.ok l.complement, ⟨rest, stk⟩) := by
  have hlen : ∀ n : Nat, ¬ (n + 1 + 1 + 1 + 1 + 1 + 1 + 1 + 1 + 1 + 1 + 1 < 11) := by omega
  rw [complementOf]
  psimp [str_complement, h, hlen]

/-- `parseJoin` around a part list that stops at `)` -/
theorem joinOf_run (f : Nat) (inp rest : Bytes) (ls : List Loc) (stk : List Bytes)
    (h : ∀ stk', multiple f ⟨inp, stk'⟩ = (.ok ls, ⟨41 :: rest, stk'⟩)) :
    joinOf (f + 1) ⟨106 :: 111 :: 105 :: 110 :: 40 :: inp, stk⟩ = (.ok (Loc.join ls), ⟨rest, stk⟩) := by
  have hlen : ∀ n : Nat, ¬ (n + 1 + 1 + 1 + 1 + 1 < 5) := by omega
  rw [joinOf]
  psimp [str_join, h, hlen]

/-- `parseOrder` around a part list that stops at `)` -/
theorem orderOf_run (f : Nat) (inp rest : Bytes) (ls : List Loc) (stk : List Bytes)
    (h : ∀ stk', multiple f ⟨inp, stk'⟩ = (.ok ls, ⟨41 :: rest, stk'⟩)) :
    orderOf (f + 1) ⟨111 :: 114 :: 100 :: 101 :: 114 :: 40 :: inp, stk⟩ = (.ok (Loc.order ls), ⟨rest, stk⟩) := by
  have hlen : ∀ n : Nat, ¬ (n + 1 + 1 + 1 + 1 + 1 + 1 < 6) := by omega
  rw [orderOf]
  psimp [str_order, h, hlen]

/-- `ParseLocation` on `complement(`: the three number-led alternatives fail at `c` -/
theorem loc_complement (f : Nat) (inp rest : Bytes) (l : Loc) (stk : List Bytes)
    (h : ∀ stk', loc f ⟨inp, stk'⟩ = (.ok l, ⟨41 :: rest, stk'⟩)) :
    loc (f + 2) ⟨99 :: 111 :: 109 :: 112 :: 108 :: 101 :: 109 :: 101 :: 110 :: 116 :: 40 :: inp, stk⟩ =
      (.ok l.complement, ⟨rest, stk⟩) := by
  rw [loc, anyOf_run]
  rw [anyOf_go_skip _ _ _ _ _ (range_alpha_fail 99 _ _ (by decide) (by decide) (by decide) (by decide))]
  rw [anyOf_go_skip _ _ _ _ _ (between_alpha_fail 99 _ _ (by decide) (by decide) (by decide))]
  rw [anyOf_go_skip _ _ _ _ _ (ambiguous_alpha_fail 99 _ _ (by decide) (by decide) (by decide))]
  exact anyOf_go_hit _ _ _ _ _ _ _ (complementOf_run f inp rest l _ h)

/-- `ParseLocation` on `join(` -/
theorem loc_join (f : Nat) (inp rest : Bytes) (ls : List Loc) (stk : List Bytes)
    (h : ∀ stk', multiple f ⟨inp, stk'⟩ = (.ok ls, ⟨41 :: rest, stk'⟩)) :
    loc (f + 2) ⟨106 :: 111 :: 105 :: 110 :: 40 :: inp, stk⟩ = (.ok (Loc.join ls), ⟨rest, stk⟩) := by
  rw [loc, anyOf_run]
  rw [anyOf_go_skip _ _ _ _ _ (range_alpha_fail 106 _ _ (by decide) (by decide) (by decide) (by decide))]
  rw [anyOf_go_skip _ _ _ _ _ (between_alpha_fail 106 _ _ (by decide) (by decide) (by decide))]
  rw [anyOf_go_skip _ _ _ _ _ (ambiguous_alpha_fail 106 _ _ (by decide) (by decide) (by decide))]
  rw [anyOf_go_skip _ _ _ _ _ (complementOf_other _ 106 _ _ (by decide))]
  exact anyOf_go_hit _ _ _ _ _ _ _ (joinOf_run f inp rest ls _ h)

/-- `ParseLocation` on `order(` -/
theorem loc_order (f : Nat) (inp rest : Bytes) (ls : List Loc) (stk : List Bytes)
    (h : ∀ stk', multiple f ⟨inp, stk'⟩ = (.ok ls, ⟨41 :: rest, stk'⟩)) :
    loc (f + 2) ⟨111 :: 114 :: 100 :: 101 :: 114 :: 40 :: inp, stk⟩ = (.ok (Loc.order ls), ⟨rest, stk⟩) := by
  rw [loc, anyOf_run]
  rw [anyOf_go_skip _ _ _ _ _ (range_alpha_fail 111 _ _ (by decide) (by decide) (by decide) (by decide))]
  rw [anyOf_go_skip _ _ _ _ _ (between_alpha_fail 111 _ _ (by decide) (by decide) (by decide))]
  rw [anyOf_go_skip _ _ _ _ _ (ambiguous_alpha_fail 111 _ _ (by decide) (by decide) (by decide))]
  rw [anyOf_go_skip _ _ _ _ _ (complementOf_other _ 111 _ _ (by decide))]
  rw [anyOf_go_skip _ _ _ _ _ (joinOf_other _ 111 _ _ (by decide))]
  exact anyOf_go_hit _ _ _ _ _ _ _ (orderOf_run f inp rest ls _ h)

/-! ### `multipleLocationParser` -/

/-- no `,` follows: the part list ends (whatever fuel is left) -/
theorem more_stop (f k : Nat) (acc : List Loc) (r : Bytes) (stk : List Bytes) :
    multiple.more f k acc ⟨41 :: r, stk⟩ = (.ok acc.reverse, ⟨41 :: r, stk⟩) := by
  cases k with
  | zero => rw [multiple.more]; rfl
  | succ k => rw [multiple.more]; psimp [delimiter]

/-- `,` and one more part -/
theorem more_step (f k : Nat) (acc : List Loc) (l : Loc) (c : UInt8) (inp tail : Bytes) (stk : List Bytes)
    (hc : isSpace c = false)
    (h : ∀ stk', loc f ⟨c :: inp, stk'⟩ = (.ok l, ⟨tail, stk'⟩)) :
    multiple.more f (k + 1) acc ⟨44 :: c :: inp, stk⟩ = multiple.more f k (l :: acc) ⟨tail, stk⟩ := by
  rw [multiple.more]
  psimp [delimiter, skipWhile, hc, h]

/-- the first part, then the others -/
theorem multiple_run (f : Nat) (l : Loc) (ls : List Loc) (inp tail rest : Bytes) (stk : List Bytes)
    (h1 : ∀ stk', loc f ⟨inp, stk'⟩ = (.ok l, ⟨tail, stk'⟩))
    (h2 : ∀ stk', multiple.more f f [l] ⟨tail, stk'⟩ = (.ok ls, ⟨rest, stk'⟩)) :
    multiple (f + 1) ⟨inp, stk⟩ = (.ok ls, ⟨rest, stk⟩) := by
  rw [multiple]
  psimp [h1, h2]

namespace Loc

/-! ### structural equality test -/

mutual
theorem beq_eq : ∀ a b : Loc, beq a b = true → a = b
  | between a, b, h => by cases b <;> simp_all [beq]
  | point a, b, h => by cases b <;> simp_all [beq]
  | ranged s e p q, b, h => by cases b <;> simp_all [beq]
  | ambiguous s e, b, h => by cases b <;> simp_all [beq]
  | joined a, b, h => by
      cases b <;> simp [beq] at h
      rw [beqList_eq a _ h]
  | ordered a, b, h => by
      cases b <;> simp [beq] at h
      rw [beqList_eq a _ h]
  | compl a, b, h => by
      cases b <;> simp [beq] at h
      rw [beq_eq a _ h]
theorem beqList_eq : ∀ a b : List Loc, beqList a b = true → a = b
  | [], b, h => by cases b <;> simp_all [beqList]
  | x :: xs, b, h => by
      cases b with
      | nil => simp [beqList] at h
      | cons y ys =>
        simp only [beqList, Bool.and_eq_true] at h
        rw [beq_eq x y h.1, beqList_eq xs ys h.2]
end

/-! ### the smart constructors on canonical parts -/

theorem complement_of_not_compl (l : Loc) (h : isComplC l = false) : l.complement = compl l := by
  cases l <;> simp_all [complement, isComplC]

theorem flattenOrd_of_not_ordered (l : Loc) (h : isOrderedC l = false) : flattenOrd l = [l] := by
  cases l <;> simp_all [flattenOrd, isOrderedC]

theorem flattenOrdList_of_none : ∀ ls : List Loc, ls.any isOrderedC = false → flattenOrdList ls = ls
  | [], _ => by simp [flattenOrdList]
  | l :: ls, h => by
      simp only [List.any_cons, Bool.or_eq_false_iff] at h
      simp [flattenOrdList, flattenOrd_of_not_ordered l h.1, flattenOrdList_of_none ls h.2]

theorem order_of_canon (ls : List Loc) (h2 : 2 ≤ ls.length) (h : ls.any isOrderedC = false) :
    order ls = ordered ls := by
  unfold order
  rw [flattenOrdList_of_none ls h]
  match ls, h2 with
  | _ :: _ :: _, _ => rfl

end Loc

/-! ### first byte and length of a printed location -/

theorem isSpace_of_isDigit (c : UInt8) (h : isDigit c = true) : isSpace c = false := by
  cases hs : isSpace c with
  | false => rfl
  | true =>
    simp only [isSpace, Bool.or_eq_true, beq_iff_eq] at hs
    rcases hs with ((((rfl | rfl) | rfl) | rfl) | rfl) | rfl <;> revert h <;> decide

theorem dec_cons (n : Int) : ∃ c r, dec n = c :: r ∧ isSpace c = false := by
  unfold dec
  split
  · exact ⟨45, _, rfl, by decide⟩
  · obtain ⟨d, ds, h, hd⟩ := natDigits_cons n.toNat
    exact ⟨d, ds, h, isSpace_of_isDigit d hd⟩

namespace Loc

/-- a printed location starts with a byte that `locationDelimiter` does not skip -/
theorem printB_cons (l : Loc) : ∃ c r, printB l = c :: r ∧ isSpace c = false := by
  cases l with
  | between p =>
    obtain ⟨c, r, h, hc⟩ := dec_cons p
    exact ⟨c, _, by rw [printB, h]; rfl, hc⟩
  | point p =>
    obtain ⟨c, r, h, hc⟩ := dec_cons (p + 1)
    exact ⟨c, _, by rw [printB, h], hc⟩
  | ranged s e p5 p3 =>
    obtain ⟨c, r, h, hc⟩ := dec_cons (s + 1)
    cases p5
    · exact ⟨c, _, by rw [printB, h]; rfl, hc⟩
    · exact ⟨60, _, by rw [printB]; rfl, by decide⟩
  | ambiguous s e =>
    obtain ⟨c, r, h, hc⟩ := dec_cons (s + 1)
    exact ⟨c, _, by rw [printB, h]; rfl, hc⟩
  | joined ls => exact ⟨106, _, by rw [printB, str_join]; rfl, by decide⟩
  | ordered ls => exact ⟨111, _, by rw [printB, str_order]; rfl, by decide⟩
  | compl l => exact ⟨99, _, by rw [printB, str_complement]; rfl, by decide⟩

mutual
/-- recursion fuel that `ParseLocation` needs to read `printB l` back -/
def need : Loc → Nat
  | joined ls => needList ls + 3
  | ordered ls => needList ls + 3
  | compl l => need l + 2
  | _ => 1
def needList : List Loc → Nat
  | [] => 0
  | l :: ls => need l + needList ls + 1
end

theorem length_le_needList : ∀ ls : List Loc, ls.length ≤ needList ls
  | [] => by simp [needList]
  | l :: ls => by
      have := length_le_needList ls
      simp only [needList, List.length_cons]
      omega

mutual
/-- every nesting level prints more bytes than it needs fuel -/
theorem need_le_length : ∀ l : Loc, need l ≤ (printB l).length
  | between p => by simp [need, printB]; omega
  | point p => by
      obtain ⟨c, r, h, _⟩ := dec_cons (p + 1)
      simp [need, printB, h]
  | ranged s e p5 p3 => by simp [need, printB]; omega
  | ambiguous s e => by simp [need, printB]; omega
  | joined [] => by simp [need, needList, printB, str_join]
  | joined (l :: ls) => by
      have h1 := need_le_length l
      have h2 := needList_le_length ls
      simp only [need, needList, printB, printListB, str_join, List.length_append, List.length_cons,
        List.length_nil]
      omega
  | ordered [] => by simp [need, needList, printB, str_order]
  | ordered (l :: ls) => by
      have h1 := need_le_length l
      have h2 := needList_le_length ls
      simp only [need, needList, printB, printListB, str_order, List.length_append, List.length_cons,
        List.length_nil]
      omega
  | compl l => by
      have h1 := need_le_length l
      simp only [need, printB, str_complement, List.length_append, List.length_cons, List.length_nil]
      omega
theorem needList_le_length : ∀ ls : List Loc, needList ls ≤ (printTailB ls).length
  | [] => by simp [needList]
  | l :: ls => by
      have h1 := need_le_length l
      have h2 := needList_le_length ls
      simp only [needList, printTailB, List.length_append, List.length_cons]
      omega
end

end Loc

/-! ### the round trip -/

namespace Loc

theorem coordOk_nat {x : Int} (h : coordOk x = true) : ∃ a : Nat, x = a ∧ a ≤ 4611686018427387904 := by
  simp only [coordOk, Bool.and_eq_true, decide_eq_true_eq] at h
  exact ⟨x.toNat, by omega, by omega⟩

theorem delim_tail (ls : List Loc) (rest : Bytes) : Delim (printTailB ls ++ 41 :: rest) := by
  cases ls with
  | nil => exact Or.inr rfl
  | cons l ls => exact Or.inl rfl

mutual
/-- **`ParseLocation` reads back every printed canonical location**, at any nesting depth and
arity, in front of any delimiter, with any stack, given `need l` units of recursion fuel. -/
theorem loc_printB : ∀ (l : Loc), canonP l = true → ∀ (f : Nat) (rest : Bytes) (stk : List Bytes),
    need l ≤ f → Delim rest → loc f ⟨printB l ++ rest, stk⟩ = (.ok l, ⟨rest, stk⟩)
  | between p, hc, f, rest, stk, hf, hd => by
      obtain ⟨a, rfl, ha⟩ := coordOk_nat (by simpa [canonP] using hc)
      obtain ⟨f, rfl⟩ : ∃ f', f = f' + 1 := ⟨f - 1, by simp only [need] at hf; omega⟩
      rw [printB, dec_ofNat, dec_succ]
      simp only [List.append_assoc, List.cons_append]
      exact loc_between f a rest stk (by omega) hd.sep
  | point p, hc, f, rest, stk, hf, hd => by
      obtain ⟨a, rfl, ha⟩ := coordOk_nat (by simpa [canonP] using hc)
      obtain ⟨f, rfl⟩ : ∃ f', f = f' + 1 := ⟨f - 1, by simp only [need] at hf; omega⟩
      rw [printB, dec_succ]
      have h := loc_point f (a + 1) rest stk (by omega) hd.sep
      rw [show ((a + 1 : Nat) : Int) - 1 = (a : Int) by omega] at h
      exact h
  | ranged s e p5 p3, hc, f, rest, stk, hf, hd => by
      simp only [canonP, Bool.and_eq_true] at hc
      obtain ⟨a, rfl, ha⟩ := coordOk_nat hc.1
      obtain ⟨b, rfl, hb⟩ := coordOk_nat hc.2
      obtain ⟨f, rfl⟩ : ∃ f', f = f' + 1 := ⟨f - 1, by simp only [need] at hf; omega⟩
      rw [printB, dec_ofNat, dec_succ]
      simp only [List.append_assoc, List.cons_append]
      have h := loc_ranged f (a + 1) b p5 p3 rest stk (by omega) (by omega) hd.sep
      rw [show ((a + 1 : Nat) : Int) - 1 = (a : Int) by omega] at h
      exact h
  | ambiguous s e, hc, f, rest, stk, hf, hd => by
      simp only [canonP, Bool.and_eq_true] at hc
      obtain ⟨a, rfl, ha⟩ := coordOk_nat hc.1
      obtain ⟨b, rfl, hb⟩ := coordOk_nat hc.2
      obtain ⟨f, rfl⟩ : ∃ f', f = f' + 1 := ⟨f - 1, by simp only [need] at hf; omega⟩
      rw [printB, dec_ofNat, dec_succ]
      simp only [List.append_assoc, List.cons_append]
      have h := loc_ambiguous f (a + 1) b rest stk (by omega) (by omega) hd.sep
      rw [show ((a + 1 : Nat) : Int) - 1 = (a : Int) by omega] at h
      exact h
  | compl l, hc, f, rest, stk, hf, hd => by
      simp only [canonP, Bool.and_eq_true, Bool.not_eq_true'] at hc
      obtain ⟨f, rfl⟩ : ∃ f', f = f' + 2 := ⟨f - 2, by simp only [need] at hf; omega⟩
      have hf' : need l ≤ f := by simp only [need] at hf; omega
      rw [printB, str_complement]
      simp only [List.append_assoc, List.cons_append, List.nil_append]
      have h := loc_complement f (printB l ++ 41 :: rest) rest l stk
        (fun stk' => loc_printB l hc.1 f (41 :: rest) stk' hf' (Or.inr rfl))
      rw [complement_of_not_compl l hc.2] at h
      exact h
  | joined [], hc, f, rest, stk, hf, hd => by simp [canonP] at hc
  | joined (l :: ls), hc, f, rest, stk, hf, hd => by
      simp only [canonP, canonPList, Bool.and_eq_true] at hc
      obtain ⟨⟨⟨⟨hl, hls⟩, _⟩, _⟩, hj⟩ := hc
      obtain ⟨f, rfl⟩ : ∃ f', f = f' + 1 + 2 := ⟨f - 3, by simp only [need] at hf; omega⟩
      have hf1 : need l ≤ f := by simp only [need, needList] at hf; omega
      have hf2 : needList ls ≤ f := by simp only [need, needList] at hf; omega
      rw [printB, printListB, str_join]
      simp only [List.append_assoc, List.cons_append, List.nil_append]
      have hm : ∀ stk', multiple (f + 1) ⟨printB l ++ (printTailB ls ++ 41 :: rest), stk'⟩ =
          (.ok (l :: ls), ⟨41 :: rest, stk'⟩) := fun stk' =>
        multiple_run f l (l :: ls) _ (printTailB ls ++ 41 :: rest) (41 :: rest) stk'
          (fun stk'' => loc_printB l hl f _ stk'' hf1 (delim_tail ls rest))
          (fun stk'' => more_printB ls hls f f [l] rest stk'' hf2
            (Nat.le_trans (length_le_needList ls) hf2))
      have h := loc_join (f + 1) _ rest (l :: ls) stk hm
      rw [beq_eq _ _ hj] at h
      exact h
  | ordered [], hc, f, rest, stk, hf, hd => by simp [canonP] at hc
  | ordered (l :: ls), hc, f, rest, stk, hf, hd => by
      simp only [canonP, canonPList, Bool.and_eq_true, Bool.not_eq_true', decide_eq_true_eq] at hc
      obtain ⟨⟨⟨hl, hls⟩, h2⟩, hno⟩ := hc
      obtain ⟨f, rfl⟩ : ∃ f', f = f' + 1 + 2 := ⟨f - 3, by simp only [need] at hf; omega⟩
      have hf1 : need l ≤ f := by simp only [need, needList] at hf; omega
      have hf2 : needList ls ≤ f := by simp only [need, needList] at hf; omega
      rw [printB, printListB, str_order]
      simp only [List.append_assoc, List.cons_append, List.nil_append]
      have hm : ∀ stk', multiple (f + 1) ⟨printB l ++ (printTailB ls ++ 41 :: rest), stk'⟩ =
          (.ok (l :: ls), ⟨41 :: rest, stk'⟩) := fun stk' =>
        multiple_run f l (l :: ls) _ (printTailB ls ++ 41 :: rest) (41 :: rest) stk'
          (fun stk'' => loc_printB l hl f _ stk'' hf1 (delim_tail ls rest))
          (fun stk'' => more_printB ls hls f f [l] rest stk'' hf2
            (Nat.le_trans (length_le_needList ls) hf2))
      have h := loc_order (f + 1) _ rest (l :: ls) stk hm
      rw [order_of_canon _ h2 hno] at h
      exact h
/-- the further parts of a printed `join(` / `order(`, up to the closing `)` -/
theorem more_printB : ∀ (ls : List Loc), canonPList ls = true →
    ∀ (f k : Nat) (acc : List Loc) (rest : Bytes) (stk : List Bytes), needList ls ≤ f → ls.length ≤ k →
      multiple.more f k acc ⟨printTailB ls ++ 41 :: rest, stk⟩ =
        (.ok (acc.reverse ++ ls), ⟨41 :: rest, stk⟩)
  | [], _, f, k, acc, rest, stk, _, _ => by
      rw [printTailB, List.nil_append, List.append_nil]
      exact more_stop f k acc rest stk
  | l :: ls, hc, f, k, acc, rest, stk, hf, hk => by
      simp only [canonPList, Bool.and_eq_true] at hc
      obtain ⟨k, rfl⟩ : ∃ k', k = k' + 1 := ⟨k - 1, by simp only [List.length_cons] at hk; omega⟩
      have hf1 : need l ≤ f := by simp only [needList] at hf; omega
      have hf2 : needList ls ≤ f := by simp only [needList] at hf; omega
      obtain ⟨c, r, hpr, hsp⟩ := printB_cons l
      have h := fun stk' => loc_printB l hc.1 f (printTailB ls ++ 41 :: rest) stk' hf1 (delim_tail ls rest)
      rw [hpr] at h
      rw [printTailB]
      simp only [List.append_assoc, List.cons_append]
      rw [hpr]
      simp only [List.cons_append] at h ⊢
      rw [more_step f k acc l c _ _ stk hsp h]
      rw [more_printB ls hc.2 f k (l :: acc) rest stk hf2 (by simp only [List.length_cons] at hk; omega)]
      simp
end

end Loc

/-- `AsLocation` is the recursive parser started with `input.length + 2` units of fuel on an
empty stack -/
theorem parseLocation_of_run (input rest : Bytes) (l : Loc)
    (h : LocParse.loc (input.length + 2) ⟨input, []⟩ = (.ok l, ⟨rest, []⟩)) :
    parseLocation input = .ok (l, rest) := by
  simp only [parseLocation, P.run', ExceptT.run, StateT.run, h]

end Gts
