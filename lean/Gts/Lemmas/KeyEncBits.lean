/-
  Helper lemmas for the cache-key encoding (C14, `Gts/Model/KeyEnc.lean`), part 1: the shifts and
  masks of the Go sources as arithmetic, what `utf8.DecodeRuneInString` returns (`Dec`), the hex
  and base64 alphabets.  Core Lean only.
-/
import Gts.Model.KeyEnc
namespace Gts.KeyEnc

/-! ### shifts and masks -/

theorem and_3F (x : Nat) : x &&& 0x3F = x % 64 := Nat.and_two_pow_sub_one_eq_mod x 6
theorem and_1F (x : Nat) : x &&& 0x1F = x % 32 := Nat.and_two_pow_sub_one_eq_mod x 5
theorem and_0F (x : Nat) : x &&& 0x0F = x % 16 := Nat.and_two_pow_sub_one_eq_mod x 4
theorem and_07 (x : Nat) : x &&& 0x07 = x % 8 := Nat.and_two_pow_sub_one_eq_mod x 3

theorem or_lo (i a b : Nat) (h : b < 2 ^ i) : (2 ^ i * a) ||| b = 2 ^ i * a + b :=
  (Nat.two_pow_add_eq_or_of_lt h a).symm

/-- `hi<<6 | lo` with `lo < 64` -/
theorem or2 (x y : Nat) (hy : y < 64) : (x <<< 6) ||| y = x * 64 + y := by
  rw [Nat.shiftLeft_eq, Nat.mul_comm x, or_lo 6 x y hy]

theorem or3 (x y z : Nat) (hy : y < 64) (hz : z < 64) :
    (x <<< 12) ||| (y <<< 6) ||| z = x * 4096 + y * 64 + z := by
  simp only [Nat.shiftLeft_eq]
  have h1 : x * 2 ^ 12 ||| y * 2 ^ 6 = 2 ^ 12 * x + y * 2 ^ 6 := by
    rw [Nat.mul_comm x]; exact or_lo 12 x _ (by omega)
  rw [h1]
  have h2 : 2 ^ 12 * x + y * 2 ^ 6 = 2 ^ 6 * (64 * x + y) := by omega
  rw [h2, or_lo 6 _ z hz]; omega

theorem or4 (x y z w : Nat) (hy : y < 64) (hz : z < 64) (hw : w < 64) :
    (x <<< 18) ||| (y <<< 12) ||| (z <<< 6) ||| w = x * 262144 + y * 4096 + z * 64 + w := by
  simp only [Nat.shiftLeft_eq]
  have h1 : x * 2 ^ 18 ||| y * 2 ^ 12 = 2 ^ 18 * x + y * 2 ^ 12 := by
    rw [Nat.mul_comm x]; exact or_lo 18 x _ (by omega)
  rw [h1]
  have h2 : 2 ^ 18 * x + y * 2 ^ 12 = 2 ^ 12 * (64 * x + y) := by omega
  have h3 : 2 ^ 12 * (64 * x + y) ||| z * 2 ^ 6 = 2 ^ 12 * (64 * x + y) + z * 2 ^ 6 :=
    or_lo 12 _ _ (by omega)
  rw [h2, h3]
  have h4 : 2 ^ 12 * (64 * x + y) + z * 2 ^ 6 = 2 ^ 6 * (4096 * x + 64 * y + z) := by omega
  rw [h4, or_lo 6 _ w hw]; omega

/-- `a<<16 | b<<8 | c` of three bytes -/
theorem or_bytes3 (a b c : Nat) (hb : b < 256) (hc : c < 256) :
    (a <<< 16) ||| (b <<< 8) ||| c = a * 65536 + b * 256 + c := by
  simp only [Nat.shiftLeft_eq]
  have h1 : a * 2 ^ 16 ||| b * 2 ^ 8 = 2 ^ 16 * a + b * 2 ^ 8 := by
    rw [Nat.mul_comm a]; exact or_lo 16 a _ (by omega)
  rw [h1]
  have h2 : 2 ^ 16 * a + b * 2 ^ 8 = 2 ^ 8 * (256 * a + b) := by omega
  rw [h2, or_lo 8 _ c hc]; omega

theorem or_bytes2 (a b : Nat) (hb : b < 256) : (a <<< 16) ||| (b <<< 8) = a * 65536 + b * 256 := by
  simp only [Nat.shiftLeft_eq]
  rw [Nat.mul_comm a]; exact or_lo 16 a _ (by omega)

/-! ### `utf8.DecodeRuneInString` -/

/-- what `decodeRune b0 rest` can be: rune, width, and where they come from -/
inductive Dec : UInt8 → Bytes → Nat → Nat → Prop
  | ascii (b0 rest) : b0.toNat < 0x80 → Dec b0 rest b0.toNat 1
  | bad (b0 rest) : 0x80 ≤ b0.toNat → Dec b0 rest 0xFFFD 1
  | two (b0 b1 tl) : 0xC2 ≤ b0.toNat → b0.toNat ≤ 0xDF → 0x80 ≤ b1.toNat → b1.toNat ≤ 0xBF →
      Dec b0 (b1 :: tl) (b0.toNat % 32 * 64 + b1.toNat % 64) 2
  | three (b0 b1 b2 tl) : 0xE0 ≤ b0.toNat → b0.toNat ≤ 0xEF →
      (b0.toNat = 0xE0 → 0xA0 ≤ b1.toNat) → (b0.toNat = 0xED → b1.toNat ≤ 0x9F) →
      0x80 ≤ b1.toNat → b1.toNat ≤ 0xBF → 0x80 ≤ b2.toNat → b2.toNat ≤ 0xBF →
      Dec b0 (b1 :: b2 :: tl) (b0.toNat % 16 * 4096 + b1.toNat % 64 * 64 + b2.toNat % 64) 3
  | four (b0 b1 b2 b3 tl) : 0xF0 ≤ b0.toNat → b0.toNat ≤ 0xF4 →
      (b0.toNat = 0xF0 → 0x90 ≤ b1.toNat) → (b0.toNat = 0xF4 → b1.toNat ≤ 0x8F) →
      0x80 ≤ b1.toNat → b1.toNat ≤ 0xBF → 0x80 ≤ b2.toNat → b2.toNat ≤ 0xBF →
      0x80 ≤ b3.toNat → b3.toNat ≤ 0xBF →
      Dec b0 (b1 :: b2 :: b3 :: tl)
        (b0.toNat % 8 * 262144 + b1.toNat % 64 * 4096 + b2.toNat % 64 * 64 + b3.toNat % 64) 4

theorem decodeRune_dec (b0 : UInt8) (rest : Bytes) :
    Dec b0 rest (decodeRune b0 rest).1 (decodeRune b0 rest).2 := by
  unfold decodeRune
  simp only
  split
  · exact .ascii _ _ ‹_›
  split
  · exact .bad _ _ (by omega)
  split
  · split
    · rename_i b1 tl
      split
      · rename_i h
        simp only [Bool.and_eq_true, decide_eq_true_eq] at h
        rw [and_1F, and_3F, or2 _ _ (Nat.mod_lt _ (by decide))]
        exact .two _ _ _ (by omega) (by omega) h.1 h.2
      · exact .bad _ _ (by omega)
    · exact .bad _ _ (by omega)
  split
  · split
    · rename_i b1 b2 tl
      have hlo : (b0.toNat = 0xE0 → (if b0.toNat = 0xE0 then 0xA0 else 0x80) = 0xA0) ∧
          0x80 ≤ (if b0.toNat = 0xE0 then 0xA0 else 0x80) := by split <;> simp_all
      have hhi : (b0.toNat = 0xED → (if b0.toNat = 0xED then 0x9F else 0xBF) = 0x9F) ∧
          (if b0.toNat = 0xED then 0x9F else 0xBF) ≤ 0xBF := by split <;> simp_all
      generalize (if b0.toNat = 0xE0 then 0xA0 else 0x80) = lo at hlo ⊢
      generalize (if b0.toNat = 0xED then 0x9F else 0xBF) = hi at hhi ⊢
      split
      · rename_i h
        simp only [Bool.and_eq_true, decide_eq_true_eq] at h
        rw [and_0F, and_3F, and_3F, or3 _ _ _ (Nat.mod_lt _ (by decide)) (Nat.mod_lt _ (by decide))]
        refine .three _ _ _ _ (by omega) (by omega) ?_ ?_ (by omega) (by omega) h.2.1 h.2.2
        · intro h0; have := hlo.1 h0; omega
        · intro h0; have := hhi.1 h0; omega
      · exact .bad _ _ (by omega)
    · exact .bad _ _ (by omega)
  split
  · split
    · rename_i b1 b2 b3 tl
      have hlo : (b0.toNat = 0xF0 → (if b0.toNat = 0xF0 then 0x90 else 0x80) = 0x90) ∧
          0x80 ≤ (if b0.toNat = 0xF0 then 0x90 else 0x80) := by split <;> simp_all
      have hhi : (b0.toNat = 0xF4 → (if b0.toNat = 0xF4 then 0x8F else 0xBF) = 0x8F) ∧
          (if b0.toNat = 0xF4 then 0x8F else 0xBF) ≤ 0xBF := by split <;> simp_all
      generalize (if b0.toNat = 0xF0 then 0x90 else 0x80) = lo at hlo ⊢
      generalize (if b0.toNat = 0xF4 then 0x8F else 0xBF) = hi at hhi ⊢
      split
      · rename_i h
        simp only [Bool.and_eq_true, decide_eq_true_eq] at h
        rw [and_07, and_3F, and_3F, and_3F,
          or4 _ _ _ _ (Nat.mod_lt _ (by decide)) (Nat.mod_lt _ (by decide)) (Nat.mod_lt _ (by decide))]
        refine .four _ _ _ _ _ (by omega) (by omega) ?_ ?_ (by omega) (by omega) h.1.2.1 h.1.2.2 h.2.1 h.2.2
        · intro h0; have := hlo.1 h0; omega
        · intro h0; have := hhi.1 h0; omega
      · exact .bad _ _ (by omega)
    · exact .bad _ _ (by omega)
  · exact .bad _ _ (by omega)

end Gts.KeyEnc
