/-
  The first loop of `Repair` (`index[key] = append(index[key], i)`) over the association-list model of a Go
  map (`Gen.goMapGet` / `Gen.goMapSet`): it builds the classes in order of first appearance, each with the
  increasing list of its member indices (`Table.classKeys`, `Table.memberIdx`).  Core Lean only.
-/
import Gts.Gen.GoList
import Gts.Lemmas.Repair
namespace Gts.Bridge
open Gts

/-- positions of `k` in a list of keys, counted from the offset `o` -/
def pos (k : String) : List String → Nat → List Nat
  | [], _ => []
  | a :: as, o => if a = k then o :: pos k as (o + 1) else pos k as (o + 1)

/-- the map after the loop has consumed the keys `ks` (indices from `o`), starting from the map `m` -/
def shape (m : List (String × List Int)) (ks : List String) (o : Nat) : List (String × List Int) :=
  m.map (fun p => (p.1, p.2 ++ (pos p.1 ks o).map Int.ofNat)) ++
    ((dedup ks).filter fun k => !(m.map Prod.fst).contains k).map
      fun k => (k, (pos k ks o).map Int.ofNat)

theorem goMapGet_of_not_mem (m : List (String × List Int)) (k : String) (h : k ∉ m.map Prod.fst) :
    Gen.goMapGet m k = [] := by
  induction m with
  | nil => rfl
  | cons p r ih =>
    obtain ⟨k', v'⟩ := p
    simp only [List.map_cons, List.mem_cons, not_or] at h
    simp only [Gen.goMapGet]
    rw [if_neg (fun e => h.1 e.symm)]
    exact ih h.2

theorem goMapSet_of_not_mem (m : List (String × List Int)) (k : String) (v : List Int)
    (h : k ∉ m.map Prod.fst) : Gen.goMapSet m k v = m ++ [(k, v)] := by
  induction m with
  | nil => rfl
  | cons p r ih =>
    obtain ⟨k', v'⟩ := p
    simp only [List.map_cons, List.mem_cons, not_or] at h
    simp only [Gen.goMapSet]
    rw [if_neg (fun e => h.1 e.symm), ih h.2]
    rfl

theorem map_bump_of_not_mem (r : List (String × List Int)) (k : String) (w : List Int)
    (h : k ∉ r.map Prod.fst) :
    r.map (fun p => if p.1 = k then (p.1, p.2 ++ w) else p) = r := by
  induction r with
  | nil => rfl
  | cons p r ih =>
    simp only [List.map_cons, List.mem_cons, not_or] at h
    simp only [List.map_cons]
    rw [if_neg (fun e => h.1 e.symm), ih h.2]

theorem goMapSet_of_mem (m : List (String × List Int)) (k : String) (w : List Int)
    (hnd : (m.map Prod.fst).Nodup) (h : k ∈ m.map Prod.fst) :
    Gen.goMapSet m k (Gen.goMapGet m k ++ w) =
      m.map (fun p => if p.1 = k then (p.1, p.2 ++ w) else p) := by
  induction m with
  | nil => simp at h
  | cons p r ih =>
    obtain ⟨k', v'⟩ := p
    simp only [List.map_cons, List.nodup_cons] at hnd
    simp only [List.map_cons, List.mem_cons] at h
    simp only [Gen.goMapSet, Gen.goMapGet, List.map_cons]
    by_cases e : k' = k
    · subst e
      simp only [if_true]
      rw [map_bump_of_not_mem r k' w hnd.1]
    · simp only [if_neg e]
      have hr : k ∈ r.map Prod.fst := by
        rcases h with h | h
        · exact absurd h.symm e
        · exact h
      rw [ih hnd.2 hr]

theorem keys_bump (m : List (String × List Int)) (k : String) (w : List Int) :
    (m.map (fun p => if p.1 = k then (p.1, p.2 ++ w) else p)).map Prod.fst = m.map Prod.fst := by
  rw [List.map_map]
  apply List.map_congr_left
  intro p _
  simp only [Function.comp]
  split <;> rfl

theorem pos_cons_self (k : String) (ks : List String) (o : Nat) :
    pos k (k :: ks) o = o :: pos k ks (o + 1) := by
  simp only [pos, if_true]

theorem pos_cons_ne (k a : String) (ks : List String) (o : Nat) (h : a ≠ k) :
    pos k (a :: ks) o = pos k ks (o + 1) := by
  simp only [pos, if_neg h]

/-- one iteration, key already present -/
theorem shape_step_mem (m : List (String × List Int)) (k0 : String) (ks : List String) (o : Nat)
    (hnd : (m.map Prod.fst).Nodup) (h : k0 ∈ m.map Prod.fst) :
    shape (Gen.goMapSet m k0 (Gen.goMapGet m k0 ++ [(o : Int)])) ks (o + 1) = shape m (k0 :: ks) o := by
  rw [goMapSet_of_mem m k0 _ hnd h]
  unfold shape
  rw [keys_bump]
  congr 1
  · rw [List.map_map]
    apply List.map_congr_left
    intro p _
    simp only [Function.comp]
    by_cases e : p.1 = k0
    · rw [if_pos e, ← e, pos_cons_self]
      simp
    · rw [if_neg e, pos_cons_ne _ _ _ _ (fun e' => e e'.symm)]
  · have hf : ((dedup (k0 :: ks)).filter fun k => !(m.map Prod.fst).contains k) =
        ((dedup ks).filter fun k => !(m.map Prod.fst).contains k) := by
      simp only [dedup, List.filter_cons, List.filter_filter]
      have : (!(m.map Prod.fst).contains k0) = false := by simpa using h
      rw [this]
      simp only [Bool.false_eq_true, if_false]
      apply List.filter_congr
      intro k _
      by_cases e : k = k0
      · subst e; rw [this]; simp
      · simp [e]
    rw [hf]
    apply List.map_congr_left
    intro k hk
    have hk' : k ∉ m.map Prod.fst := by
      have := (List.mem_filter.mp hk).2
      simpa using this
    have e : k0 ≠ k := fun e => hk' (e ▸ h)
    rw [pos_cons_ne _ _ _ _ e]

/-- one iteration, new key -/
theorem shape_step_new (m : List (String × List Int)) (k0 : String) (ks : List String) (o : Nat)
    (h : k0 ∉ m.map Prod.fst) :
    shape (Gen.goMapSet m k0 (Gen.goMapGet m k0 ++ [(o : Int)])) ks (o + 1) = shape m (k0 :: ks) o := by
  rw [goMapGet_of_not_mem m k0 h, goMapSet_of_not_mem m k0 _ h]
  unfold shape
  have h1 : m.map (fun p => (p.1, p.2 ++ (pos p.1 (k0 :: ks) o).map Int.ofNat)) =
      m.map (fun p => (p.1, p.2 ++ (pos p.1 ks (o + 1)).map Int.ofNat)) := by
    apply List.map_congr_left
    intro p hp
    have e : k0 ≠ p.1 := fun e => h (e ▸ List.mem_map_of_mem hp)
    rw [pos_cons_ne _ _ _ _ e]
  have hc : (!(m.map Prod.fst).contains k0) = true := by simpa using h
  have h2 : ((dedup (k0 :: ks)).filter fun k => !(m.map Prod.fst).contains k) =
      k0 :: ((dedup ks).filter fun k => !((m ++ [(k0, [] ++ [(o : Int)])]).map Prod.fst).contains k) := by
    simp only [dedup, List.filter_cons, hc, if_true, List.filter_filter]
    congr 1
    apply List.filter_congr
    intro k _
    by_cases e : k = k0
    · subst e; simp
    · by_cases hm : k ∈ m.map Prod.fst <;> simp [e, hm]
  rw [h1, h2]
  simp only [List.map_append, List.map_cons, List.map_nil, List.append_assoc, List.nil_append,
    List.cons_append, pos_cons_self]
  congr 2
  apply List.map_congr_left
  intro k hk
  have e : k0 ≠ k := by
    have := (List.mem_filter.mp hk).2
    intro e
    subst e
    simp at this
  rw [pos_cons_ne _ _ _ _ e]

/-- the loop invariant: from any duplicate-free map, at any offset -/
theorem indexLoop_shape_gen (loop : Table → Int → List (String × List Int) → Option (List (String × List Int)))
    (hnil : ∀ i m, loop [] i m = some m)
    (hcons : ∀ f rest i m, loop (f :: rest) i m =
      loop rest (i + 1) (Gen.goMapSet m (classKey f) (Gen.goMapGet m (classKey f) ++ [i])))
    (t : Table) (o : Nat) (m : List (String × List Int)) (hnd : (m.map Prod.fst).Nodup) :
    loop t (o : Int) m = some (shape m (t.map classKey) o) := by
  induction t generalizing o m with
  | nil =>
    rw [hnil]
    simp [shape, dedup, pos]
  | cons f rest ih =>
    rw [hcons]
    have hi : (o : Int) + 1 = ((o + 1 : Nat) : Int) := by omega
    rw [hi, List.map_cons]
    by_cases h : classKey f ∈ m.map Prod.fst
    · rw [ih, shape_step_mem m _ _ _ hnd h]
      rw [goMapSet_of_mem m _ _ hnd h, keys_bump]
      exact hnd
    · rw [ih, shape_step_new m _ _ _ h]
      rw [goMapGet_of_not_mem m _ h, goMapSet_of_not_mem m _ _ h]
      simp only [List.map_append, List.map_cons, List.map_nil]
      rw [List.nodup_append]
      refine ⟨hnd, by simp, ?_⟩
      intro a ha b hb
      simp only [List.mem_singleton] at hb
      subst hb
      intro e
      exact h (e ▸ ha)

theorem memberIdx_cons (f : Feature) (t : Table) (k : String) :
    Table.memberIdx (f :: t) k =
      (if classKey f = k then [0] else []) ++ (Table.memberIdx t k).map (· + 1) := by
  simp only [Table.memberIdx, List.length_cons, List.range_succ_eq_map, List.filter_cons,
    List.getElem?_cons_zero, List.filter_map]
  by_cases e : classKey f = k
  · simp [e, Function.comp_def]
  · simp [e, Function.comp_def]

theorem pos_eq_memberIdx (t : Table) (k : String) (o : Nat) :
    pos k (t.map classKey) o = (Table.memberIdx t k).map (· + o) := by
  induction t generalizing o with
  | nil => simp [pos, Table.memberIdx]
  | cons f rest ih =>
    rw [memberIdx_cons, List.map_cons]
    by_cases e : classKey f = k
    · rw [if_pos e, ← e, pos_cons_self, e, ih]
      simp [List.map_map, Function.comp_def, Nat.add_comm, Nat.add_left_comm]
    · rw [if_neg e, pos_cons_ne _ _ _ _ e, ih]
      simp [List.map_map, Function.comp_def, Nat.add_comm, Nat.add_left_comm]

/-- the first loop of `Repair` (`for i, f := range gg { key := …; index[key] = append(index[key], i) }`): any
function with these two equations builds, from the empty map, the association list of the classes in order of
first appearance, each with the indices of its members in increasing order -/
theorem indexLoop_shape (loop : Table → Int → List (String × List Int) → Option (List (String × List Int)))
    (hnil : ∀ i m, loop [] i m = some m)
    (hcons : ∀ f rest i m, loop (f :: rest) i m =
      loop rest (i + 1) (Gen.goMapSet m (classKey f) (Gen.goMapGet m (classKey f) ++ [i])))
    (t : Table) :
    loop t 0 [] = some ((Table.classKeys t).map fun k => (k, (Table.memberIdx t k).map Int.ofNat)) := by
  have h := indexLoop_shape_gen loop hnil hcons t 0 [] (by simp)
  rw [show ((0 : Nat) : Int) = 0 from rfl] at h
  rw [h]
  simp only [shape, List.map_nil, List.nil_append, List.contains_nil, Bool.not_false, List.filter_eq_self.mpr (fun _ _ => rfl),
    Table.classKeys, pos_eq_memberIdx, Nat.add_zero, List.map_id']

end Gts.Bridge
