/-
  C17, auto-detection with the real GenBank reader (`Gts.Model.AutoScan`):
  * `GenBankParser` on input that does not begin with `LOCUS`: fails in place (`genbankParser_not_locus`);
  * the real first `Scan` on such input IS the stand-in `Gts.Fasta.scanFirstAuto` (`scanFirst_not_locus`);
  * the loops `gbLoop` / `faLoop`: what kind of record they return, where they stop, no panic, fuel.
  Built on the stable statements about the reader: `genbankParser_wp` (= `Gts.C07.genbankParser_nopanic`),
  `genbankParser_consumes` (= `Gts.C07.genbankParser_consumes`), `lit_fail` (ParsRun).  Core Lean only.
-/
import Gts.Model.AutoScan
import Gts.Lemmas.FastaScan
import Gts.Lemmas.GbFuel
import Gts.Lemmas.ParsRun
namespace Gts.Auto
open Gts.Pars
open Gts.GenBank (Record Registry genbankParser locusParser locusTry locusBack bs)
open Gts.Fasta (fastaParse)

/-! ### `GenBankParser` where no LOCUS line begins -/

theorem bs_locus : bs "LOCUS" = [76, 79, 67, 85, 83] := by decide

theorem startsLocus_iff (t : Bytes) : startsLocus t = (bs "LOCUS").isPrefixOf t := by
  rw [GenBank.isPrefixOf_eq_take, bs_locus]
  unfold startsLocus
  by_cases h : (t.take 5 == [76, 79, 67, 85, 83]) = true
  · have hl : ([76, 79, 67, 85, 83] : Bytes).length ≤ t.length := by
      have := congrArg List.length (beq_iff_eq.mp h)
      simp only [List.length_take, List.length_cons, List.length_nil] at this
      simp only [List.length_cons, List.length_nil]
      omega
    simp only [List.length_cons, List.length_nil] at hl ⊢
    simp [h, hl]
  · have h' : (t.take 5 == [76, 79, 67, 85, 83]) = false := by simpa using h
    simp only [List.length_cons, List.length_nil]
    simp [h']

/-- `genbankLocusParser` fails at its first literal, pops its two frames and leaves the state
exactly as it found it -/
theorem locusParser_not_locus (s : PS) (h : startsLocus s.rest = false) :
    locusParser.run' s = (.error .fail, s) := by
  rw [startsLocus_iff] at h
  have hl := GenBank.lit_fail (bs "LOCUS") s.rest (s.rest :: s.rest :: s.stk) h
  unfold locusParser
  rw [run_bind, run_push]; dsimp only
  rw [run_bind, run_push]; dsimp only
  rw [run_bind]
  have ht : (locusTry (Pars.lit (bs "LOCUS"))).run' ⟨s.rest, s.rest :: s.rest :: s.stk⟩ =
      (.error .fail, s) := by
    unfold locusTry
    rw [run_bind, run_attempt]
    have hl' : (Pars.lit (bs "LOCUS")).run' ⟨s.rest, s.rest :: s.rest :: s.stk⟩ =
        (.error .fail, ⟨s.rest, s.rest :: s.rest :: s.stk⟩) := hl
    rw [hl']
    dsimp only
    unfold locusBack
    rw [run_bind, run_pop]; dsimp only
    rw [run_bind, run_pop]; dsimp only
    rfl
  rw [ht]

/-- **`GenBankParser` rejects what does not begin with LOCUS, in place**: failure (not a panic),
position and saved positions untouched — from every state and for every registry -/
theorem genbankParser_not_locus (reg : Registry) (s : PS) (h : startsLocus s.rest = false) :
    (genbankParser reg).run' s = (.error .fail, s) := by
  unfold genbankParser
  rw [run_bind, locusParser_not_locus s h]

end Gts.Auto

namespace Gts.Auto
open Gts.Pars
open Gts.GenBank (Record Registry genbankParser)
open Gts.Fasta (fastaParse)

/-! ### the FASTA loop is `Gts.Fasta.scanLoop` -/

theorem cons_done (r : Rec) (rs : List Rec) (reg : Registry) (c : Bool) :
    (Out.done rs reg c).cons r = .done (r :: rs) reg c := rfl

/-- `faLoop` returns what `Gts.Fasta.scanLoop` returns (which is never a panic), as `Rec`s, and
leaves the registry alone -/
theorem faLoop_eq (reg : Registry) : ∀ fuel (s : PS),
    ∃ rs c, Fasta.scanLoop fuel s = .done rs c ∧ faLoop fuel reg s = .done (faRecs rs) reg c
  | 0, _ => ⟨[], false, rfl, rfl⟩
  | fuel + 1, s => by
    have hp := Fasta.fastaParse_ne_panic s
    unfold Fasta.scanLoop faLoop
    by_cases he : s.rest.isEmpty = true
    · rw [if_pos he, if_pos he]; exact ⟨[], true, rfl, rfl⟩
    · rw [if_neg he, if_neg he]
      rcases hrun : fastaParse.run' s with ⟨r, s'⟩
      rw [hrun] at hp
      rcases r with e | a
      · cases e
        · exact ⟨[], false, rfl, rfl⟩
        · exact absurd rfl hp
      · obtain ⟨rs, c, h1, h2⟩ := faLoop_eq reg fuel s'
        dsimp only
        rw [h1, h2]
        exact ⟨a :: rs, c, rfl, rfl⟩

/-! ### the real first `Scan` where no LOCUS line begins is the stand-in -/

/-- the first alternative of the real first `Scan` (`Push`; `GenBankParser`; `Pop`) on input that
does not begin with `LOCUS`: a plain failure, and the state is back where it was -/
theorem first_alternative_not_locus (reg : Registry) (s : PS) (h : startsLocus s.rest = false) :
    (do push; attempt (genbankParser reg) : P _).run' s = (.ok none, ⟨s.rest, s.rest :: s.stk⟩) ∧
      (pop.run' ⟨s.rest, s.rest :: s.stk⟩).2 = s := by
  constructor
  · rw [run_bind, run_push]; dsimp only
    rw [run_attempt, genbankParser_not_locus reg ⟨s.rest, s.rest :: s.stk⟩ h]
  · rfl

/-- **the stand-in is a theorem of the real reader**: on a state whose input does not begin with
`LOCUS` the real first `Scan` (and everything after it) returns exactly what the stand-in model
`Gts.Fasta.scanFirstAuto` returns — FASTA records only, the registry untouched, never a panic,
never `unmodelled` -/
theorem scanFirst_not_locus (reg : Registry) (s : PS) (h : startsLocus s.rest = false) :
    ∃ rs c, Fasta.scanFirstAuto s = .done rs c ∧ scanFirst reg s = .done (faRecs rs) reg c := by
  unfold scanFirst Fasta.scanFirstAuto
  by_cases he : s.rest.isEmpty = true
  · rw [if_pos he, if_pos he]; exact ⟨[], true, rfl, rfl⟩
  · rw [if_neg he, if_neg he]
    have hl : ¬ (s.rest.take 5 == [76, 79, 67, 85, 83]) = true := by
      have : startsLocus s.rest = (s.rest.take 5 == [76, 79, 67, 85, 83]) := rfl
      rw [← this, h]; exact Bool.false_ne_true
    rw [if_neg hl]
    obtain ⟨h1, h2⟩ := first_alternative_not_locus reg s h
    rw [h1]; dsimp only
    rw [h2]
    have hp := Fasta.fastaParse_ne_panic ⟨s.rest, s.rest :: s.stk⟩
    have e1 : (do push; attempt fastaParse : P (Option (Bytes × Bytes))).run' s =
        (attempt fastaParse).run' ⟨s.rest, s.rest :: s.stk⟩ := by
      rw [run_bind, run_push]
    rw [e1, run_attempt]
    rcases hrun : fastaParse.run' ⟨s.rest, s.rest :: s.stk⟩ with ⟨r, s'⟩
    rw [hrun] at hp
    rcases r with e | a
    · cases e
      · exact ⟨[], false, rfl, rfl⟩
      · exact absurd rfl hp
    · dsimp only
      obtain ⟨rs, c, h3, h4⟩ := faLoop_eq reg ((drop.run' s').2.rest.length + 1) (drop.run' s').2
      rw [h3, h4]
      exact ⟨a :: rs, c, rfl, rfl⟩

/-- … for a whole text -/
theorem scanAll_not_locus (reg : Registry) (text : Bytes) (h : startsLocus text = false) :
    ∃ rs c, Fasta.scanAll true text = .done rs c ∧ scanAll reg text = .done (faRecs rs) reg c :=
  scanFirst_not_locus reg ⟨text, []⟩ h

end Gts.Auto

namespace Gts.Auto
open Gts.Pars
open Gts.GenBank (Record Registry genbankParser)
open Gts.Fasta (fastaParse)

/-! ### the two stable facts about the reader this file builds on -/

/-- `Gts.C07.genbankParser_nopanic` -/
theorem gb_nopanic (reg : Registry) (s : PS) (hs : Sorted s.rest.length s.stk) :
    ((genbankParser reg).run' s).1 ≠ .error .panic ∧
      Sorted ((genbankParser reg).run' s).2.rest.length ((genbankParser reg).run' s).2.stk ∧
      ((genbankParser reg).run' s).2.rest.length ≤ s.rest.length :=
  GenBank.genbankParser_wp reg s hs

/-- `Gts.C07.genbankParser_consumes` -/
theorem gb_consumes (reg : Registry) (s : PS) (hs : Sorted s.rest.length s.stk)
    (v : Record × Registry) (h : ((genbankParser reg).run' s).1 = .ok v) :
    ((genbankParser reg).run' s).2.rest.length + 5 ≤ s.rest.length :=
  GenBank.genbankParser_consumes reg s hs v h

/-! ### the GenBank loop -/

theorem cons_eq_done (r : Rec) (o : Out) (rs : List Rec) (rg : Registry) (c : Bool)
    (h : o.cons r = .done rs rg c) : ∃ rs', o = .done rs' rg c ∧ rs = r :: rs' := by
  cases o with
  | panic => cases h
  | done rs' rg' c' =>
    rw [cons_done] at h
    injection h with h1 h2 h3
    subst h2 h3
    exact ⟨rs', rfl, h1.symm⟩

theorem cons_ne_panic (r : Rec) (o : Out) (h : o ≠ .panic) : o.cons r ≠ .panic := by
  cases o with
  | panic => exact absurd rfl h
  | done rs rg c => intro h'; cases h'

/-- every record the GenBank loop returns is a GenBank record -/
theorem gbLoop_all_gb : ∀ fuel (reg : Registry) (s : PS) rs rg c,
    gbLoop fuel reg s = .done rs rg c → rs.all Rec.isGb = true
  | 0, _, _, rs, _, _, h => by
    unfold gbLoop at h
    injection h with h1
    subst h1; rfl
  | fuel + 1, reg, s, rs, rg, c, h => by
    unfold gbLoop at h
    split at h
    · injection h with h1; subst h1; rfl
    · split at h
      · obtain ⟨rs', h1, h2⟩ := cons_eq_done _ _ _ _ _ h
        subst h2
        have := gbLoop_all_gb fuel _ _ _ _ _ h1
        simpa [Rec.isGb] using this
      · injection h with h1; subst h1; rfl
      · cases h

/-- every record the FASTA loop returns is a FASTA record, and the registry is the one it started with -/
theorem faLoop_all_fa (reg : Registry) (fuel : Nat) (s : PS) :
    ∃ rs c, faLoop fuel reg s = .done rs reg c ∧ rs.all Rec.isFa = true := by
  obtain ⟨rs, c, _, h⟩ := faLoop_eq reg fuel s
  refine ⟨_, c, h, ?_⟩
  simp [faRecs, Rec.isFa]

/-- **the GenBank loop stops at whatever is not a LOCUS line**: with input left that does not
begin with `LOCUS` (a FASTA record, for one) the next `Scan` returns false, `Err()` is not `nil`,
and nothing was consumed or registered -/
theorem gbLoop_stops (fuel : Nat) (reg : Registry) (s : PS) (hne : s.rest.isEmpty = false)
    (h : startsLocus s.rest = false) : gbLoop (fuel + 1) reg s = .done [] reg false := by
  unfold gbLoop
  rw [if_neg (by rw [hne]; exact Bool.false_ne_true), genbankParser_not_locus reg s h]

/-- the GenBank loop never reports a panic (from every sorted state) -/
theorem gbLoop_ne_panic : ∀ fuel (reg : Registry) (s : PS), Sorted s.rest.length s.stk →
    gbLoop fuel reg s ≠ .panic
  | 0, _, _, _ => by unfold gbLoop; intro h; cases h
  | fuel + 1, reg, s, hs => by
    obtain ⟨hnp, hsort, _⟩ := gb_nopanic reg s hs
    unfold gbLoop
    split
    · intro h; cases h
    · rcases hrun : (genbankParser reg).run' s with ⟨r, s'⟩
      rw [hrun] at hnp hsort
      rcases r with e | ⟨rec, reg'⟩
      · cases e
        · intro h; cases h
        · exact absurd rfl hnp
      · exact cons_ne_panic _ _ (gbLoop_ne_panic fuel reg' s' hsort)

/-- the fuel `len + 1` of the GenBank loop is adequate: a returned record consumed its LOCUS
keyword, so any two fuels above the number of bytes left give the same result -/
theorem gbLoop_fuel : ∀ k k' (reg : Registry) (s : PS), Sorted s.rest.length s.stk →
    s.rest.length < k → s.rest.length < k' → gbLoop k reg s = gbLoop k' reg s
  | 0, _, _, _, _, h, _ => absurd h (Nat.not_lt_zero _)
  | _ + 1, 0, _, _, _, _, h => absurd h (Nat.not_lt_zero _)
  | k + 1, k' + 1, reg, s, hs, hk, hk' => by
    obtain ⟨_, hsort, _⟩ := gb_nopanic reg s hs
    have hc := gb_consumes reg s hs
    unfold gbLoop
    split
    · rfl
    · rcases hrun : (genbankParser reg).run' s with ⟨r, s'⟩
      rw [hrun] at hsort hc
      rcases r with e | ⟨rec, reg'⟩
      · cases e <;> rfl
      · have := hc _ rfl
        dsimp only at this ⊢
        rw [gbLoop_fuel k k' reg' s' hsort (by omega) (by omega)]

end Gts.Auto
