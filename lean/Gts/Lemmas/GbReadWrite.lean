/-
  C01: `read (write r)` — `GenBankParser` on the text of `GenBank.String`.  Core Lean only.
-/
import Gts.Lemmas.GbCompose
namespace Gts.GenBank
open Gts.Pars

/-- the record `GenBankParser` starts from after the LOCUS line -/
def startFields (f : Fields) : Fields :=
  { Fields.empty with locusName := f.locusName, molecule := f.molecule, topology := f.topology,
                      division := f.division, date := f.date }

theorem locusOk_parts (f : Fields) (L : Int) (h : locusOk f L = true) : 0 ≤ L ∧ (f.topology = 0 ∨ f.topology = 1) := by
  simp only [locusOk, Bool.and_eq_true, Bool.or_eq_true, beq_iff_eq, decide_eq_true_eq] at h
  exact ⟨h.2.1, h.1.1.1.2⟩

/-- `GenBankParser` = LOCUS line, then the loop, then the length check of 6813da5 -/
theorem genbankParser_of_loop (reg reg' : Registry) (f fF : Fields) (L : Int) (REST rest' : Bytes)
    (tab : List QFeature) (org : OriginV) (hlocus : locusOk f L = true)
    (hrange : Origin.toOriginLength L ≤ 9223372036854775807) (hmol : isMolecule f.molecule = true)
    (hloop : recordLoop L 12 (2 * REST.length + 2) (startFields f, [], .buffer [], reg) ⟨REST, []⟩ =
      (.ok (fF, tab, org, reg'), ⟨rest', []⟩))
    (hfinal : ¬ (org.len ≠ L ∧ (org.len ≠ 0 ∨ fF.contigAcc.isEmpty = true))) :
    genbankParser reg ⟨locusLine f L ++ 10 :: REST, []⟩ = (.ok (⟨fF, tab, org⟩, reg'), ⟨rest', []⟩) := by
  obtain ⟨hL0, htop⟩ := locusOk_parts f L hlocus
  have hl := locus_roundtrip f L REST [] hlocus
  have hneg : ¬ (L < 0 ∨ Origin.toOriginLength L > 9223372036854775807) := by omega
  have htopo := asTopology_text f.topology htop
  simp only [startFields] at hloop
  simp only [genbankParser, P.bind_run, hl, Pars.clear, getS, setS, P.pure_run, hneg, if_false, hmol,
    Bool.not_true, Bool.false_eq_true, htopo, hloop]
  rw [if_neg hfinal]
  rfl

end Gts.GenBank

namespace Gts.GenBank
open Gts.Pars

theorem originLen_stream (p : Bytes) (h : p.length < 10 ^ 9) :
    Origin.originLen (Origin.originStream p) = (p.length : Int) := by
  unfold Origin.originLen
  rw [Origin.originStream_length p h]
  split
  · rename_i h0
    have : p.length = 0 := (Origin.tl_zero_iff p.length).mp (by omega)
    omega
  · exact Origin.fromOriginLength_tl _

theorem headerOk_distinct (f : Fields) (h : headerOk f = true) : distinctKeys f.dblink = true := by
  simp only [headerOk, Bool.and_eq_true] at h
  exact h.1.1.1.1.1.1.1.2

/-- the fields after the header sections -/
def headerRead (g : Fields) : Fields :=
  { startFields g with
    definition := g.definition, accession := accessionLine g, version := g.version, dblink := g.dblink,
    keywords := g.keywords, species := g.species, organism := g.organism, taxon := g.taxon,
    references := g.references, comments := g.comments, extra := g.extra }

/-- what the tail sections do -/
theorem secsAct_tail (g f : Fields) (p : Bytes) (t : List QFeature) (o : OriginV) (r : Registry) :
    secsAct (tailSecs g p) (f, t, o, r) =
      ((if g.contigAcc.isEmpty then f
        else { f with contigAcc := g.contigAcc, contigHead := g.contigHead, contigTail := g.contigTail }),
       t, (if p.isEmpty then o else .buffer (Origin.originStream p)), r) := by
  by_cases h1 : g.contigAcc.isEmpty = true <;> by_cases h2 : p.isEmpty = true <;>
    simp [tailSecs, secsAct, secContig, secOrigin, h1, h2]

/-- the record assembled by the loop is `readBack` -/
theorem readBack_eq (reg : Registry) (r : Record) (p : Bytes) (tab : List QFeature)
    (hc : (if r.fields.contigAcc.isEmpty then decide (r.fields.contigHead = 0 ∧ r.fields.contigTail = 0)
      else contigOk r.fields) = true)
    (htab : tab = r.table.map (readFeature reg)) :
    (⟨(if r.fields.contigAcc.isEmpty then headerRead r.fields
        else { headerRead r.fields with contigAcc := r.fields.contigAcc, contigHead := r.fields.contigHead,
                                        contigTail := r.fields.contigTail }),
      tab, (if p.isEmpty then .buffer [] else .buffer (Origin.originStream p))⟩ : Record) = readBack reg r p := by
  obtain ⟨f, tb, og⟩ := r
  obtain ⟨a1, a2, a3, a4, a5, a6, a7, a8, a9, a10, a11, a12, a13, a14, a15, a16, a17, a18, a19, a20⟩ := f
  simp only at hc
  subst htab
  by_cases hca : a17.isEmpty = true
  · simp only [hca, if_true, decide_eq_true_eq] at hc
    have hnil : a17 = [] := by simpa using hca
    simp [readBack, headerRead, startFields, Fields.empty, hca, hnil, hc.1, hc.2]
  · simp [readBack, headerRead, startFields, Fields.empty, hca]

theorem mid_length_pos (txt : Bytes) :
    1 ≤ (bs "FEATURES             Location/Qualifiers\n" ++ (txt ++ [10])).length := by
  simp [bs]

/-- **read (write r)**: `GenBankParser` on the text `GenBank.String` wrote for a record of the
domain `Writable`, followed by any further text `rest'` (the next record of a stream): it returns
`readBack reg r p`, leaves exactly `rest'`, and the registry has only grown. -/
theorem read_write (reg : Registry) (r : Record) (p : Bytes) (ho : r.origin = .residues p)
    (hw : Writable reg r p = true) (hloc : ∀ x ∈ r.table, LocRT x.loc) (rest' : Bytes) :
    ∃ t, write reg r = .ok t ∧ t ≠ [] ∧
      genbankParser reg ⟨t ++ rest', []⟩ = (.ok (readBack reg r p, learnTable reg r.table), ⟨rest', []⟩) := by
  obtain ⟨hlocus, hrange, hmol, hh, htw, hc, hp, hlen⟩ := writable_parts reg r p hw
  obtain ⟨hw1, hw2⟩ := write_eq reg r p ho hh hlen
  have hA := headerSecs_ok r.fields (locusLength r.fields p) hh
  have hB := tailSecs_ok r.fields p hc hp hlen
  have hitA := secsIters_le _ _ hA
  have hitB := secsIters_le _ _ hB
  have hsA : secsAct (headerSecs r.fields) (startFields r.fields, [], .buffer [], reg) =
      (headerRead r.fields, [], .buffer [], reg) :=
    secsAct_header r.fields (startFields r.fields) [] (.buffer []) reg (headerOk_distinct _ hh)
      (by simp [startFields, Fields.empty])
  -- the final length check and the shape of the result, shared by both cases
  have hfin : ∀ (tab : List QFeature) (reg' : Registry) (REST : Bytes),
      recordLoop (locusLength r.fields p) 12 (2 * REST.length + 2) (startFields r.fields, [], .buffer [], reg) ⟨REST, []⟩ =
        (.ok (secsAct (tailSecs r.fields p)
          (headerRead r.fields,
            tab, .buffer [], reg')), ⟨rest', []⟩) →
      tab = r.table.map (readFeature reg) →
      genbankParser reg ⟨locusLine r.fields (locusLength r.fields p) ++ 10 :: REST, []⟩ =
        (.ok (readBack reg r p, reg'), ⟨rest', []⟩) := by
    intro tab reg' REST hloop htab
    rw [secsAct_tail] at hloop
    have := genbankParser_of_loop reg reg' r.fields _ (locusLength r.fields p) REST rest' tab _ hlocus hrange hmol hloop (by
      by_cases hpe : p.isEmpty = true
      · simp only [hpe, if_true, OriginV.len, Origin.originLen, List.length_nil, if_true]
        by_cases hca : r.fields.contigAcc.isEmpty = true
        · simp only [hca, if_true, decide_eq_true_eq] at hc
          have : locusLength r.fields p = 0 := by
            simp [locusLength, hpe, contigLen, hc.1, hc.2]
          simp [this]
        · simp [hca]
      · simp only [hpe, Bool.false_eq_true, if_false, OriginV.len, originLen_stream p hlen]
        have : locusLength r.fields p = (p.length : Int) := by simp [locusLength, hpe]
        simp [this])
    rw [this, readBack_eq reg r p tab hc htab]
  cases htab : r.table with
  | nil =>
    refine ⟨_, hw1 htab, by simp, ?_⟩
    have e : locusLine r.fields (locusLength r.fields p) ++ 10 ::
        (secsText (headerSecs r.fields) ++ (secsText (tailSecs r.fields p) ++ bs "//\n")) ++ rest' =
        locusLine r.fields (locusLength r.fields p) ++ 10 ::
        (secsText (headerSecs r.fields) ++ ([] ++ (secsText (tailSecs r.fields p) ++ (bs "//\n" ++ rest')))) := by
      simp [List.append_assoc]
    rw [e]
    have := hfin [] reg _ (by
      rw [← hsA]
      exact parse_chain _ _ _ hA hB [] 0 _ _ rest' _ (fun rest h => by simpa using h)
        (fun k rest _ => by simp) (by
          simp only [List.length_append, List.nil_append] at hitA hitB ⊢
          omega)) (by simp [htab])
    simpa [learnTable] using this
  | cons ft fs =>
    rw [htab] at htw hloc
    simp only at htw
    obtain ⟨txt, htxt, _⟩ := loop_features (locusLength r.fields p) 0 (startFields r.fields) [] (.buffer []) reg ft fs
      (bs "//\n") htw hloc (startsField_end [])
    refine ⟨_, hw2 ft fs txt htab htxt, by simp, ?_⟩
    have e : locusLine r.fields (locusLength r.fields p) ++ 10 ::
        (secsText (headerSecs r.fields) ++ (bs "FEATURES             Location/Qualifiers\n" ++ (txt ++ 10 ::
          (secsText (tailSecs r.fields p) ++ bs "//\n")))) ++ rest' =
        locusLine r.fields (locusLength r.fields p) ++ 10 ::
        (secsText (headerSecs r.fields) ++ ((bs "FEATURES             Location/Qualifiers\n" ++ (txt ++ [10])) ++
          (secsText (tailSecs r.fields p) ++ (bs "//\n" ++ rest')))) := by
      simp [List.append_assoc]
    rw [e]
    have hmid : ∀ k rest, startsField rest = true →
        recordLoop (locusLength r.fields p) 12 (k + 1) (secsAct (headerSecs r.fields) (startFields r.fields, [], .buffer [], reg))
          ⟨(bs "FEATURES             Location/Qualifiers\n" ++ (txt ++ [10])) ++ rest, []⟩ =
        recordLoop (locusLength r.fields p) 12 k
          (headerRead r.fields,
            (ft :: fs).map (readFeature reg), .buffer [], learnTable reg (ft :: fs)) ⟨rest, []⟩ := by
      intro k rest hrest
      rw [hsA]
      obtain ⟨txt', htxt', hl⟩ := loop_features (locusLength r.fields p) k _ [] (.buffer []) reg ft fs rest htw hloc hrest
      rw [htxt] at htxt'
      cases htxt'
      have e2 : (bs "FEATURES             Location/Qualifiers\n" ++ (txt ++ [10])) ++ rest =
          bs "FEATURES             Location/Qualifiers\n" ++ (txt ++ 10 :: rest) := by simp [List.append_assoc]
      rw [e2]; exact hl
    have := hfin ((ft :: fs).map (readFeature reg)) (learnTable reg (ft :: fs)) _
      (parse_chain _ _ _ hA hB _ 1 _ _ rest' _ (fun rest _ => by
          simp [startsField, refStop, refAltList, bs, List.isPrefixOf]; decide) hmid (by
          have := mid_length_pos txt
          simp only [List.length_append] at hitA hitB this ⊢
          omega)) (by simp [htab])
    exact this

/-! ### streams -/

theorem parseAll_records (reg : Registry) (rs : List (Record × Bytes))
    (hall : ∀ x ∈ rs, x.1.origin = .residues x.2 ∧ Writable reg x.1 x.2 = true ∧ (∀ f ∈ x.1.table, LocRT f.loc) ∧
      learnTable reg x.1.table = reg) (acc : List Record) (fuel : Nat) (hf : rs.length < fuel) :
    ∃ t, writeAll reg (rs.map (·.1)) = .ok t ∧ rs.length ≤ t.length ∧
      parseAll reg fuel t acc = some (acc.reverse ++ rs.map (fun x => readBack reg x.1 x.2), reg, true) := by
  induction rs generalizing acc fuel with
  | nil =>
    cases fuel with
    | zero => omega
    | succ k => exact ⟨[], rfl, by simp, by simp [parseAll]⟩
  | cons x rs ih =>
    cases fuel with
    | zero => omega
    | succ k =>
      obtain ⟨ho, hw, hloc, hstable⟩ := hall x (by simp)
      obtain ⟨t2, hw2, hl2, hp2⟩ := ih (fun y hy => hall y (by simp [hy])) (readBack reg x.1 x.2 :: acc) k
        (by simp only [List.length_cons] at hf; omega)
      obtain ⟨t1, hw1, hne, hp1⟩ := read_write reg x.1 x.2 ho hw hloc t2
      refine ⟨t1 ++ t2, ?_, ?_, ?_⟩
      · simp only [List.map_cons, writeAll, hw1, hw2]; rfl
      · have : 1 ≤ t1.length := by cases t1 with | nil => exact absurd rfl hne | cons _ _ => simp
        simp only [List.length_cons, List.length_append]; omega
      · have hne' : (t1 ++ t2).isEmpty = false := by cases t1 with | nil => exact absurd rfl hne | cons _ _ => rfl
        rw [hstable] at hp1
        simp only [parseAll, hne', Bool.false_eq_true, if_false, P.run', ExceptT.run, StateT.run] at hp2 ⊢
        have hp1' : (genbankParser reg) ⟨t1 ++ t2, []⟩ = (.ok (readBack reg x.1 x.2, reg), ⟨t2, []⟩) := hp1
        rw [show (genbankParser reg : PS → _) ⟨t1 ++ t2, []⟩ = _ from hp1']
        simp only [hp2]
        simp

/-- **Framing of multi-record streams.**  A stream of `Writable` records (whose qualifier names
are all registered, so that the registry is the same for every record) written with `WriteSeq` and
read until the input is used up yields exactly the records, each as `readBack`, and no error. -/
theorem read_stream (reg : Registry) (rs : List (Record × Bytes))
    (hall : ∀ x ∈ rs, x.1.origin = .residues x.2 ∧ Writable reg x.1 x.2 = true ∧ (∀ f ∈ x.1.table, LocRT f.loc) ∧
      learnTable reg x.1.table = reg) :
    ∃ t, writeAll reg (rs.map (·.1)) = .ok t ∧
      readAll reg t = some (rs.map (fun x => readBack reg x.1 x.2), reg, true) := by
  obtain ⟨t, hw, hl, _⟩ := parseAll_records reg rs hall [] (rs.length + 1) (by omega)
  obtain ⟨t', hw', _, hp⟩ := parseAll_records reg rs hall [] (t.length + 1) (by omega)
  rw [hw] at hw'
  cases hw'
  exact ⟨t, hw, by simpa [readAll] using hp⟩

end Gts.GenBank
