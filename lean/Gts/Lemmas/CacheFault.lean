/-
  Helper lemmas about the fault model of the cache-file writer (Gts/Model/CacheFault.lean):
  `writeAt`, the error `closeF` returns, invariants of a sequence of `Write` calls.
  Core Lean only.
-/
import Gts.Model.CacheFault
namespace Gts.Cache

/-! ### `writeAt` -/

theorem writeAt_nil (p : Bytes) : writeAt [] 0 p = p := by
  unfold writeAt; split <;> simp_all [zeros]

/-- writing at the end of the file appends -/
theorem writeAt_end (data p : Bytes) : writeAt data data.length p = data ++ p := by
  unfold writeAt
  split
  · simp_all
  · simp [zeros]

/-- writing at offset 0 is `overwrite` -/
theorem writeAt_zero (data p : Bytes) : writeAt data 0 p = overwrite data p := by
  unfold writeAt overwrite
  split
  · simp_all
  · simp [zeros]

/-! ### `closeF` -/

/-- without a fault, on a writer whose offset is the end of the file, `closeF` is the `close` of
CacheFile.lean and returns `nil` -/
theorem closeF_nofault (H : Bytes → Bytes) (d : Nat) (deflate : Bytes → Bytes) (w : FWriter)
    (hp : w.pos = w.data.length) (hb : w.broken = false) :
    closeF H d deflate w {} = (close H d deflate ⟨w.data, w.r, w.q, w.plain⟩, none) := by
  simp [closeF, hb, hp, writeAt_end, writeAt_zero, close]

/-- the error `File.Close` returns, spelled out: the FIRST failing step in statement order
(a flate writer that is already broken fails the flush) -/
def closeErrSpec (w : FWriter) (cf : CloseFaults) : Option FErr :=
  if w.broken = true ∨ cf.flush.isSome = true then some .flate
  else if cf.seekBody.isSome = true then some .seek
  else if cf.copy.isSome = true then some .copy
  else if cf.seekStart.isSome = true then some .seek
  else if cf.header.isSome = true then some .write
  else none

theorem closeF_err (H : Bytes → Bytes) (d : Nat) (deflate : Bytes → Bytes) (w : FWriter) (cf : CloseFaults) :
    (closeF H d deflate w cf).2 = closeErrSpec w cf := by
  obtain ⟨data, pos, r, q, plain, broken⟩ := w
  obtain ⟨f1, f2, f3, f4, f5⟩ := cf
  cases broken <;> cases f1 <;> cases f2 <;> cases f3 <;> cases f4 <;> cases f5 <;>
    simp [closeF, closeErrSpec, keepFirst]

theorem closeErrSpec_none {w : FWriter} {cf : CloseFaults} (h : closeErrSpec w cf = none) :
    w.broken = false ∧ cf = {} := by
  obtain ⟨data, pos, r, q, plain, broken⟩ := w
  obtain ⟨f1, f2, f3, f4, f5⟩ := cf
  cases broken <;> cases f1 <;> cases f2 <;> cases f3 <;> cases f4 <;> cases f5 <;>
    simp_all [closeErrSpec]

/-- what the flush step of `Close` appends to the file -/
def flushed (deflate : Bytes → Bytes) (w : FWriter) (cf : CloseFaults) : Bytes :=
  if w.broken = true then []
  else match cf.flush with
    | none => deflate w.plain
    | some k => (deflate w.plain).take k

/-- `Close` whose seeks, hashing read and header write work (the flush may fail, the flate writer
may be broken): the header is computed over, and written in front of, whatever is on disk -/
theorem closeF_tail_ok (H : Bytes → Bytes) (d : Nat) (deflate : Bytes → Bytes) (w : FWriter)
    (cf : CloseFaults) (hend : w.pos = w.data.length)
    (h2 : cf.seekBody = none) (h3 : cf.copy = none) (h4 : cf.seekStart = none) (h5 : cf.header = none) :
    (closeF H d deflate w cf).1 =
      writeAt (w.data ++ flushed deflate w cf) 0
        (w.r ++ w.q ++ H ((w.data ++ flushed deflate w cf).drop (3 * d))) := by
  obtain ⟨data, pos, r, q, plain, broken⟩ := w
  obtain ⟨f1, f2, f3, f4, f5⟩ := cf
  simp only at hend h2 h3 h4 h5
  subst hend h2 h3 h4 h5
  cases broken
  · cases f1
    · simp only [closeF, flushed, writeAt_end]; rfl
    · simp only [closeF, flushed, writeAt_end]; rfl
  · simp only [closeF, flushed, if_true, List.append_nil]

/-! ### a sequence of `Write` calls -/

/-- the file offset is the end of the file (true from `CreateLevel` until `Close` seeks) -/
def FWriter.atEnd (w : FWriter) : Prop := w.pos = w.data.length

theorem writeF_atEnd (deflate : Bytes → Bytes) (w : FWriter) (p : Bytes) (f : Option Nat)
    (h : w.atEnd) : (writeF deflate w p f).1.atEnd := by
  unfold FWriter.atEnd at *
  unfold writeF
  split
  · exact h
  · cases f with
    | none => exact h
    | some k => simp [h, writeAt_end]

theorem writeF_data (deflate : Bytes → Bytes) (w : FWriter) (p : Bytes) (f : Option Nat)
    (h : w.atEnd) : ∃ t, (writeF deflate w p f).1.data = w.data ++ t := by
  unfold FWriter.atEnd at h
  unfold writeF
  split
  · exact ⟨[], by simp⟩
  · cases f with
    | none => exact ⟨[], by simp⟩
    | some k => exact ⟨(deflate (w.plain ++ p)).take k, by simp [h, writeAt_end]⟩

theorem writeF_rq (deflate : Bytes → Bytes) (w : FWriter) (p : Bytes) (f : Option Nat) :
    (writeF deflate w p f).1.r = w.r ∧ (writeF deflate w p f).1.q = w.q := by
  unfold writeF
  split
  · exact ⟨rfl, rfl⟩
  · cases f <;> exact ⟨rfl, rfl⟩

/-- a `Write` returns an error exactly when the flate writer is broken afterwards and … -/
theorem writeF_err_broken (deflate : Bytes → Bytes) (w : FWriter) (p : Bytes) (f : Option Nat) :
    ((writeF deflate w p f).2 ≠ none ↔ (writeF deflate w p f).1.broken = true)
      ∧ (w.broken = true → (writeF deflate w p f).1.broken = true) := by
  unfold writeF
  cases hb : w.broken <;> cases f <;> simp [hb]

/-- a `Write` that returned `nil` only added its bytes to what the flate writer holds -/
theorem writeF_ok (deflate : Bytes → Bytes) (w : FWriter) (p : Bytes) (f : Option Nat)
    (h : (writeF deflate w p f).2 = none) :
    (writeF deflate w p f).1 = { w with plain := w.plain ++ p } ∧ w.broken = false := by
  unfold writeF at h ⊢
  cases hb : w.broken <;> cases f <;> simp_all

theorem writesF_atEnd (deflate : Bytes → Bytes) (ws : List (Bytes × Option Nat)) :
    ∀ w : FWriter, w.atEnd → (writesF deflate w ws).1.atEnd := by
  induction ws with
  | nil => intro w h; exact h
  | cons a t ih =>
    intro w h
    obtain ⟨p, f⟩ := a
    simp only [writesF]
    exact ih _ (writeF_atEnd deflate w p f h)

theorem writesF_data (deflate : Bytes → Bytes) (ws : List (Bytes × Option Nat)) :
    ∀ w : FWriter, w.atEnd → ∃ t, (writesF deflate w ws).1.data = w.data ++ t := by
  induction ws with
  | nil => intro w _; exact ⟨[], by simp [writesF]⟩
  | cons a t ih =>
    intro w h
    obtain ⟨p, f⟩ := a
    simp only [writesF]
    obtain ⟨t1, h1⟩ := writeF_data deflate w p f h
    obtain ⟨t2, h2⟩ := ih _ (writeF_atEnd deflate w p f h)
    exact ⟨t1 ++ t2, by rw [h2, h1, List.append_assoc]⟩

theorem writesF_rq (deflate : Bytes → Bytes) (ws : List (Bytes × Option Nat)) :
    ∀ w : FWriter, (writesF deflate w ws).1.r = w.r ∧ (writesF deflate w ws).1.q = w.q := by
  induction ws with
  | nil => intro w; exact ⟨rfl, rfl⟩
  | cons a t ih =>
    intro w
    obtain ⟨p, f⟩ := a
    simp only [writesF]
    have h1 := writeF_rq deflate w p f
    have h2 := ih (writeF deflate w p f).1
    exact ⟨h2.1.trans h1.1, h2.2.trans h1.2⟩

/-- once broken, broken for good -/
theorem writesF_broken (deflate : Bytes → Bytes) (ws : List (Bytes × Option Nat)) :
    ∀ w : FWriter, w.broken = true → (writesF deflate w ws).1.broken = true := by
  induction ws with
  | nil => intro w h; exact h
  | cons a t ih =>
    intro w h
    obtain ⟨p, f⟩ := a
    simp only [writesF]
    exact ih _ ((writeF_err_broken deflate w p f).2 h)

/-- a `Write` that returned an error leaves the flate writer broken, whatever follows -/
theorem writesF_err_broken (deflate : Bytes → Bytes) (ws : List (Bytes × Option Nat)) :
    ∀ w : FWriter, (∃ e ∈ (writesF deflate w ws).2, e ≠ none) → (writesF deflate w ws).1.broken = true := by
  induction ws with
  | nil => intro w ⟨e, he, _⟩; simp [writesF] at he
  | cons a t ih =>
    intro w ⟨e, he, hne⟩
    obtain ⟨p, f⟩ := a
    simp only [writesF, List.mem_cons] at he ⊢
    rcases he with rfl | he
    · exact writesF_broken deflate t _ ((writeF_err_broken deflate w p f).1.1 hne)
    · exact ih _ ⟨e, he, hne⟩

/-- every `Write` returned `nil`: the writer only collected the bytes -/
theorem writesF_clean (deflate : Bytes → Bytes) (ws : List (Bytes × Option Nat)) :
    ∀ w : FWriter, w.broken = false → (∀ e ∈ (writesF deflate w ws).2, e = none) →
      (writesF deflate w ws).1 = { w with plain := w.plain ++ (ws.map (·.1)).flatten } := by
  induction ws with
  | nil => intro w _ _; simp [writesF]
  | cons a t ih =>
    intro w hb hall
    obtain ⟨p, f⟩ := a
    simp only [writesF, List.mem_cons] at hall ⊢
    have h0 := hall _ (.inl rfl)
    obtain ⟨h1, _⟩ := writeF_ok deflate w p f h0
    have h2 := ih (writeF deflate w p f).1 (by rw [h1]; exact hb) (fun e he => hall e (.inr he))
    rw [h2, h1]
    simp [List.append_assoc]

end Gts.Cache
