/-
  Canonical locations under `Expand`, `Shift`, `Reverse`, `Normalize`: each is a `LocHom`
  (`Gts/Lemmas/CanonHom.lean`), so the structural clauses of `canonP` survive unless the K3 shape
  arises in one of the `Join`s (`…K3`, `Gts/Spec/CanonGuard.lean`); the coordinate clause survives
  under the natural bounds.  Core Lean only.
-/
import Gts.Lemmas.CanonHom
namespace Gts
namespace Loc

/-! ### the list companions are maps -/

theorem expandList_eq_map (i n : Int) : ∀ ls : List Loc, expandList ls i n = ls.map (fun l => expand l i n)
  | [] => rfl
  | l :: ls => by simp [expandList, expandList_eq_map i n ls]
theorem shiftList_eq_map (i n : Int) : ∀ ls : List Loc, shiftList ls i n = ls.map (fun l => shift l i n)
  | [] => rfl
  | l :: ls => by simp [shiftList, shiftList_eq_map i n ls]
theorem reverseList_eq_map' (L : Int) : ∀ ls : List Loc, reverseList ls L = ls.map (fun l => reverse l L)
  | [] => rfl
  | l :: ls => by simp [reverseList, reverseList_eq_map' L ls]
theorem normalizeList_eq_map (L : Int) : ∀ ls : List Loc, normalizeList ls L = ls.map (fun l => normalize l L)
  | [] => rfl
  | l :: ls => by simp [normalizeList, normalizeList_eq_map L ls]

theorem expandK3List_eq_any (i n : Int) : ∀ ls : List Loc, expandK3List ls i n = ls.any (fun l => expandK3 l i n)
  | [] => rfl
  | l :: ls => by simp [expandK3List, expandK3List_eq_any i n ls]
theorem shiftK3List_eq_any (i n : Int) : ∀ ls : List Loc, shiftK3List ls i n = ls.any (fun l => shiftK3 l i n)
  | [] => rfl
  | l :: ls => by simp [shiftK3List, shiftK3List_eq_any i n ls]
theorem reverseK3List_eq_any (L : Int) : ∀ ls : List Loc, reverseK3List ls L = ls.any (fun l => reverseK3 l L)
  | [] => rfl
  | l :: ls => by simp [reverseK3List, reverseK3List_eq_any L ls]
theorem normalizeK3List_eq_any (L : Int) : ∀ ls : List Loc, normalizeK3List ls L = ls.any (fun l => normalizeK3 l L)
  | [] => rfl
  | l :: ls => by simp [normalizeK3List, normalizeK3List_eq_any L ls]

/-! ### leaves: structure -/

theorem leaf_ok (y : Loc) (h : isLeafC y = true) : structP y = true ∧ plainOut y = true := by
  cases y <;> simp_all [isLeafC, structP, plainOut, flatJ, isComplC]

/-- `Join` of two ranges (the split of `Ranged.Shift`, the wrap-around of `Ranged.Normalize`): the
two ranges, or their merge when they abut -/
theorem join_two_ranged (a b c d : Int) (p q r s : Bool) :
    join [ranged a b p q, ranged c d r s] =
      if b = c then ranged a d p s else joined [ranged a b p q, ranged c d r s] := by
  rw [join_flat]
  simp only [flatJList, flatJ, List.append_nil, List.singleton_append, List.foldl_cons, List.foldl_nil]
  by_cases h : b = c
  · subst h
    simp [push1, pushOne, ofParts]
  · have h1 : push1 [] (ranged a b p q) = [ranged a b p q] := rfl
    rw [h1, push1_irr _ _ (by simpa [irrHead, irr] using h), if_neg h]
    rfl

theorem two_ranged_ok (a b c d : Int) (p q r s : Bool) :
    structP (join [ranged a b p q, ranged c d r s]) = true ∧
    plainOut (join [ranged a b p q, ranged c d r s]) = true := by
  rw [join_two_ranged]
  split
  · exact leaf_ok _ rfl
  · rename_i h
    refine ⟨structP_joined_of_stable _ ?_ (by simp), ?_⟩
    · simp [stableR, partOk, structP, isJoinedC, irr, h]
    · simp [plainOut, flatJ, flatJList, isComplC]

theorem two_ambiguous_ok (a b c d : Int) :
    structP (order [ambiguous a b, ambiguous c d]) = true ∧
    plainOut (order [ambiguous a b, ambiguous c d]) = true := by
  have : order [ambiguous a b, ambiguous c d] = ordered [ambiguous a b, ambiguous c d] := rfl
  rw [this]
  simp [structP, isOrderedC, plainOut, flatJ, isComplC]

theorem ite_leaf (c : Prop) [Decidable c] (a b : Loc) (ha : isLeafC a = true) (hb : isLeafC b = true) :
    isLeafC (if c then a else b) = true := by split <;> assumption

theorem betweenExpand_leaf (p i n : Int) : isLeafC (betweenExpand p i n) = true := rfl
theorem pointExpand_leaf (p i n : Int) : isLeafC (pointExpand p i n) = true := by
  unfold pointExpand; exact ite_leaf _ _ _ rfl rfl
theorem rangedExpand_leaf (s e : Int) (a b : Bool) (i n : Int) : isLeafC (rangedExpand s e a b i n) = true := by
  unfold rangedExpand; exact ite_leaf _ _ _ rfl (ite_leaf _ _ _ rfl rfl)
theorem ambiguousExpand_leaf (s e i n : Int) : isLeafC (ambiguousExpand s e i n) = true := by
  unfold ambiguousExpand; exact ite_leaf _ _ _ rfl (ite_leaf _ _ _ rfl rfl)

theorem expand_leaf_ok (i n : Int) (l : Loc) (h : isLeafC l = true) :
    structP (expand l i n) = true ∧ plainOut (expand l i n) = true := by
  cases l <;> simp [isLeafC] at h
  · exact leaf_ok _ (betweenExpand_leaf _ _ _)
  · exact leaf_ok _ (pointExpand_leaf _ _ _)
  · exact leaf_ok _ (rangedExpand_leaf _ _ _ _ _ _)
  · exact leaf_ok _ (ambiguousExpand_leaf _ _ _ _)

theorem shift_leaf_ok (i n : Int) (l : Loc) (h : isLeafC l = true) :
    structP (shift l i n) = true ∧ plainOut (shift l i n) = true := by
  cases l <;> simp [isLeafC] at h
  · exact leaf_ok _ (betweenExpand_leaf _ _ _)
  · exact leaf_ok _ (pointExpand_leaf _ _ _)
  · simp only [shift, rangedShift]
    split
    · exact leaf_ok _ rfl
    · split
      · exact leaf_ok _ (rangedExpand_leaf _ _ _ _ _ _)
      · split
        · exact two_ranged_ok _ _ _ _ _ _ _ _
        · exact leaf_ok _ rfl
  · simp only [shift, ambiguousShift]
    split
    · exact leaf_ok _ rfl
    · split
      · exact leaf_ok _ (ambiguousExpand_leaf _ _ _ _)
      · split
        · exact two_ambiguous_ok _ _ _ _
        · exact leaf_ok _ rfl

theorem reverse_leaf_ok (L : Int) (l : Loc) (h : isLeafC l = true) :
    structP (reverse l L) = true ∧ plainOut (reverse l L) = true := by
  cases l <;> simp [isLeafC] at h <;> exact leaf_ok _ rfl

theorem normalize_leaf_ok (L : Int) (l : Loc) (h : isLeafC l = true) :
    structP (normalize l L) = true ∧ plainOut (normalize l L) = true := by
  cases l <;> simp [isLeafC] at h
  · exact leaf_ok _ rfl
  · exact leaf_ok _ rfl
  · simp only [normalize, rangedNormalize]
    split
    · exact leaf_ok _ (rangedExpand_leaf _ _ _ _ _ _)
    · split
      · exact leaf_ok _ rfl
      · exact two_ranged_ok _ _ _ _ _ _ _ _
  · exact leaf_ok _ rfl

/-! ### the four operations are `LocHom`s -/

theorem expand_hom (i n : Int) : LocHom (fun l => expand l i n) (fun l => expandK3 l i n) id where
  perm := permOk_id
  joined ls := by simp [expand, expandList_eq_map]
  ordered ls := by simp [expand, expandList_eq_map]
  compl l := by simp [expand]
  gJoined ls := by simp [expandK3, expandK3List_eq_any, expandList_eq_map]
  gOrdered ls := by simp [expandK3, expandK3List_eq_any]
  gCompl l := by simp [expandK3]
  gLeaf l h := by cases l <;> simp_all [isLeafC, expandK3]
  leaf l h := expand_leaf_ok i n l h

theorem shift_hom (i n : Int) : LocHom (fun l => shift l i n) (fun l => shiftK3 l i n) id where
  perm := permOk_id
  joined ls := by simp [shift, shiftList_eq_map]
  ordered ls := by simp [shift, shiftList_eq_map]
  compl l := by simp [shift]
  gJoined ls := by simp [shiftK3, shiftK3List_eq_any, shiftList_eq_map]
  gOrdered ls := by simp [shiftK3, shiftK3List_eq_any]
  gCompl l := by simp [shiftK3]
  gLeaf l h := by cases l <;> simp_all [isLeafC, shiftK3]
  leaf l h := shift_leaf_ok i n l h

theorem reverse_hom (L : Int) : LocHom (fun l => reverse l L) (fun l => reverseK3 l L) List.reverse where
  perm := permOk_reverse
  joined ls := by simp [reverse, reverseList_eq_map']
  ordered ls := by simp [reverse, reverseList_eq_map']
  compl l := by simp [reverse]
  gJoined ls := by simp [reverseK3, reverseK3List_eq_any, reverseList_eq_map']
  gOrdered ls := by simp [reverseK3, reverseK3List_eq_any]
  gCompl l := by simp [reverseK3]
  gLeaf l h := by cases l <;> simp_all [isLeafC, reverseK3]
  leaf l h := reverse_leaf_ok L l h

theorem normalize_hom (L : Int) : LocHom (fun l => normalize l L) (fun l => normalizeK3 l L) id where
  perm := permOk_id
  joined ls := by simp [normalize, normalizeList_eq_map]
  ordered ls := by simp [normalize, normalizeList_eq_map]
  compl l := by simp [normalize]
  gJoined ls := by simp [normalizeK3, normalizeK3List_eq_any, normalizeList_eq_map]
  gOrdered ls := by simp [normalizeK3, normalizeK3List_eq_any]
  gCompl l := by simp [normalizeK3]
  gLeaf l h := by cases l <;> simp_all [isLeafC, normalizeK3]
  leaf l h := normalize_leaf_ok L l h

/-! ### leaves: coordinates -/

theorem coordOk_iff (x : Int) : coordOk x = true ↔ 0 ≤ x ∧ x ≤ 4611686018427387904 := by
  simp [coordOk]

/-- the coordinate hypothesis of `Expand` / `Shift`: in range, and at most `M` -/
def inLe (M : Int) (c : Int) : Bool := coordOk c && decide (c ≤ M)

theorem inLe_iff (M c : Int) : inLe M c = true ↔ 0 ≤ c ∧ c ≤ 4611686018427387904 ∧ c ≤ M := by
  simp [inLe, coordOk, and_assoc]

theorem coordsC_leaf (Q : Int → Bool) (y : Loc) (h : isLeafC y = true) : coordsC Q y = leafCoord Q y := by
  cases y <;> simp_all [isLeafC, coordsC]

theorem gmax_max (a b : Int) : gmax a b = max a b := by unfold gmax; omega

/-- the new start of a span -/
theorem expS_ok (i n M s : Int) (hi : 0 ≤ i ∨ 0 ≤ n) (hM : M + n ≤ 4611686018427387904)
    (hs : inLe M s = true) :
    coordOk (if (0 ≤ n ∧ i ≤ s) ∨ (n < 0 ∧ i < s) then gmax i (s + n) else s) = true := by
  rw [inLe_iff] at hs
  rw [coordOk_iff, gmax_max]
  split <;> omega

/-- the new end of a span -/
theorem expE_ok (i n M e : Int) (hi : 0 ≤ i ∨ 0 ≤ n) (hM : M + n ≤ 4611686018427387904)
    (he : inLe M e = true) :
    coordOk (if (0 ≤ n ∧ i < e) ∨ (n < 0 ∧ i ≤ e) then gmax i (e + n) else e) = true := by
  rw [inLe_iff] at he
  rw [coordOk_iff, gmax_max]
  split <;> omega

theorem coords_ite_ranged (c : Prop) [Decidable c] (x y : Int) (a b : Bool) (hx : coordOk x = true)
    (hy : coordOk y = true) : coordsC coordOk (if c then between x else ranged x y a b) = true := by
  split <;> simp [coordsC, leafCoord, hx, hy]

theorem coords_ite_ambiguous (c : Prop) [Decidable c] (x y : Int) (hx : coordOk x = true)
    (hy : coordOk y = true) : coordsC coordOk (if c then between x else ambiguous x y) = true := by
  split <;> simp [coordsC, leafCoord, hx, hy]

theorem inLe_coordOk (M c : Int) (h : inLe M c = true) : coordOk c = true := by
  simp only [inLe, Bool.and_eq_true] at h; exact h.1

theorem betweenExpand_coords (i n M p : Int) (hi : 0 ≤ i ∨ 0 ≤ n) (hM : M + n ≤ 4611686018427387904)
    (h : inLe M p = true) : coordsC coordOk (betweenExpand p i n) = true := by
  rw [inLe_iff] at h
  simp only [betweenExpand, coordsC, allLeaves_between, leafCoord, coordOk_iff, gmax_max]
  split <;> omega

theorem pointExpand_coords (i n M p : Int) (hi : 0 ≤ i ∨ 0 ≤ n) (hM : M + n ≤ 4611686018427387904)
    (h : inLe M p = true) : coordsC coordOk (pointExpand p i n) = true := by
  rw [inLe_iff] at h
  unfold pointExpand
  split
  · simp only [coordsC, allLeaves_between, leafCoord, coordOk_iff]; omega
  · simp only [coordsC, allLeaves_point, leafCoord, coordOk_iff, gmax_max]
    split <;> omega

theorem rangedExpand_coords (i n M s e : Int) (a b : Bool) (hi : 0 ≤ i ∨ 0 ≤ n)
    (hM : M + n ≤ 4611686018427387904) (hs : inLe M s = true) (he : inLe M e = true) :
    coordsC coordOk (rangedExpand s e a b i n) = true := by
  unfold rangedExpand
  split
  · simp [coordsC, leafCoord, inLe_coordOk M s hs, inLe_coordOk M e he]
  · exact coords_ite_ranged _ _ _ _ _ (expS_ok i n M s hi hM hs) (expE_ok i n M e hi hM he)

theorem ambiguousExpand_coords (i n M s e : Int) (hi : 0 ≤ i ∨ 0 ≤ n)
    (hM : M + n ≤ 4611686018427387904) (hs : inLe M s = true) (he : inLe M e = true) :
    coordsC coordOk (ambiguousExpand s e i n) = true := by
  unfold ambiguousExpand
  split
  · simp [coordsC, leafCoord, inLe_coordOk M s hs, inLe_coordOk M e he]
  · exact coords_ite_ambiguous _ _ _ (expS_ok i n M s hi hM hs) (expE_ok i n M e hi hM he)

theorem expand_leaf_coords (i n M : Int) (hi : 0 ≤ i ∨ 0 ≤ n) (hM : M + n ≤ 4611686018427387904)
    (l : Loc) (hl : isLeafC l = true) (h : leafCoord (inLe M) l = true) :
    coordsC coordOk (expand l i n) = true := by
  cases l <;> simp only [isLeafC, Bool.false_eq_true] at hl
  · exact betweenExpand_coords i n M _ hi hM h
  · exact pointExpand_coords i n M _ hi hM h
  · simp only [leafCoord, Bool.and_eq_true] at h
    exact rangedExpand_coords i n M _ _ _ _ hi hM h.1 h.2
  · simp only [leafCoord, Bool.and_eq_true] at h
    exact ambiguousExpand_coords i n M _ _ hi hM h.1 h.2

/-- a coordinate predicate that `Join` keeps, on the `Join` of two ranges -/
theorem two_ranged_coords (a b c d : Int) (p q r s : Bool) (ha : coordOk a = true) (hb : coordOk b = true)
    (hc : coordOk c = true) (hd : coordOk d = true) :
    coordsC coordOk (join [ranged a b p q, ranged c d r s]) = true := by
  refine join_leaves (mergeOK_leafCoord coordOk) _ ?_
  simp [leafCoord, ha, hb, hc, hd]

theorem shift_leaf_coords (i n M : Int) (hn : 0 ≤ n) (hM : M + n ≤ 4611686018427387904)
    (l : Loc) (hl : isLeafC l = true) (h : leafCoord (inLe M) l = true) :
    coordsC coordOk (shift l i n) = true := by
  cases l <;> simp only [isLeafC, Bool.false_eq_true] at hl
  · exact betweenExpand_coords i n M _ (Or.inr hn) hM h
  · exact pointExpand_coords i n M _ (Or.inr hn) hM h
  · rename_i s e a b
    simp only [leafCoord, Bool.and_eq_true] at h
    have hs := (inLe_iff M s).mp h.1
    have he := (inLe_iff M e).mp h.2
    simp only [shift, rangedShift]
    split
    · simp [coordsC, leafCoord, inLe_coordOk M s h.1, inLe_coordOk M e h.2]
    · split
      · exact rangedExpand_coords i n M _ _ _ _ (Or.inr hn) hM h.1 h.2
      · split
        · refine two_ranged_coords _ _ _ _ _ _ _ _ ?_ ?_ ?_ ?_ <;> rw [coordOk_iff] <;> omega
        · simp only [coordsC, allLeaves_ranged, leafCoord, Bool.and_eq_true, coordOk_iff]
          refine ⟨?_, ?_⟩ <;> split <;> omega
  · rename_i s e
    simp only [leafCoord, Bool.and_eq_true] at h
    have hs := (inLe_iff M s).mp h.1
    have he := (inLe_iff M e).mp h.2
    simp only [shift, ambiguousShift]
    split
    · simp [coordsC, leafCoord, inLe_coordOk M s h.1, inLe_coordOk M e h.2]
    · split
      · exact ambiguousExpand_coords i n M _ _ (Or.inr hn) hM h.1 h.2
      · split
        · have : order [ambiguous s i, ambiguous (i + n) (e + n)] =
              ordered [ambiguous s i, ambiguous (i + n) (e + n)] := rfl
          rw [this]
          simp only [coordsC, allLeaves_ordered, allLeavesList_cons, allLeaves_ambiguous, allLeavesList_nil,
            leafCoord, Bool.and_eq_true, coordOk_iff, Bool.and_true]
          omega
        · simp only [coordsC, allLeaves_ambiguous, leafCoord, Bool.and_eq_true, coordOk_iff]
          refine ⟨?_, ?_⟩ <;> split <;> omega

/-- the coordinate hypothesis of `Reverse(L)` on one coordinate pair -/
theorem reverse_leaf_coords (L : Int) (hL : L ≤ 4611686018427387904) (l : Loc) (hl : isLeafC l = true)
    (h : leafCoord coordOk l = true) (hr : leafRevIn L l = true) :
    coordsC coordOk (reverse l L) = true := by
  cases l <;> simp only [isLeafC, Bool.false_eq_true] at hl <;>
    simp only [leafCoord, leafRevIn, Bool.and_eq_true, coordOk_iff, decide_eq_true_eq] at h hr <;>
    simp only [reverse, rangedReverse, coordsC, allLeaves_between, allLeaves_point, allLeaves_ranged,
      allLeaves_ambiguous, leafCoord, Bool.and_eq_true, coordOk_iff] <;> omega

theorem tmod_bounds (p L : Int) (hp : 0 ≤ p) (hL : 0 < L) : 0 ≤ Int.tmod p L ∧ Int.tmod p L < L := by
  rw [Int.tmod_eq_emod_of_nonneg hp]
  exact ⟨Int.emod_nonneg _ (by omega), Int.emod_lt_of_pos _ hL⟩

theorem tmod_end_bounds (e L : Int) (he : 0 ≤ e) (hL : 0 < L) :
    0 ≤ Int.tmod (e - 1) L + 1 ∧ Int.tmod (e - 1) L + 1 ≤ L := by
  by_cases h0 : e = 0
  · subst h0
    have h1 : Int.tmod (0 - 1) L = -(Int.tmod 1 L) := by
      rw [show (0 - 1 : Int) = -1 by omega, Int.neg_tmod]
    have := tmod_bounds 1 L (by omega) hL
    have h2 : Int.tmod 1 L ≤ 1 := by
      rw [Int.tmod_eq_emod_of_nonneg (by omega)]
      by_cases hL1 : L = 1
      · subst hL1; simp
      · rw [Int.emod_eq_of_lt (by omega) (by omega)]; omega
    omega
  · have := tmod_bounds (e - 1) L (by omega) hL
    omega

theorem normalize_leaf_coords (L : Int) (hL0 : 0 < L) (hL : L ≤ 4611686018427387904) (l : Loc)
    (hl : isLeafC l = true) (h : leafCoord coordOk l = true) :
    coordsC coordOk (normalize l L) = true := by
  cases l <;> simp only [isLeafC, Bool.false_eq_true] at hl
  · rename_i p
    simp only [leafCoord, coordOk_iff] at h
    have := tmod_bounds p L h.1 hL0
    simp only [normalize, coordsC, allLeaves_between, leafCoord, coordOk_iff]; omega
  · rename_i p
    simp only [leafCoord, coordOk_iff] at h
    have := tmod_bounds p L h.1 hL0
    simp only [normalize, coordsC, allLeaves_point, leafCoord, coordOk_iff]; omega
  · rename_i s e a b
    simp only [leafCoord, Bool.and_eq_true] at h
    have hs := (coordOk_iff s).mp h.1
    have he := (coordOk_iff e).mp h.2
    have b1 := tmod_bounds s L hs.1 hL0
    have b2 := tmod_end_bounds e L he.1 hL0
    simp only [normalize, rangedNormalize]
    split
    · refine rangedExpand_coords 0 (-s) 4611686018427387904 s e a b (Or.inl (by omega)) (by omega) ?_ ?_ <;>
        rw [inLe_iff] <;> omega
    · split
      · simp only [coordsC, allLeaves_ranged, leafCoord, Bool.and_eq_true, coordOk_iff]; omega
      · refine two_ranged_coords _ _ _ _ _ _ _ _ ?_ ?_ ?_ ?_ <;> rw [coordOk_iff] <;> omega
  · rename_i s e
    simp only [leafCoord, Bool.and_eq_true] at h
    have hs := (coordOk_iff s).mp h.1
    have he := (coordOk_iff e).mp h.2
    have b1 := tmod_bounds s L hs.1 hL0
    have b2 := tmod_end_bounds e L he.1 hL0
    simp only [normalize, coordsC, allLeaves_ambiguous, leafCoord, Bool.and_eq_true, coordOk_iff]; omega

/-! ### the closure theorems -/

theorem coordsLe_eq (M : Int) (l : Loc) : coordsLe M l = allLeaves (leafLe M) l := by
  rw [allLeaves_eq_all]; rfl

theorem revIn_eq (L : Int) (l : Loc) : revIn L l = allLeaves (leafRevIn L) l := by
  rw [allLeaves_eq_all]; rfl

theorem leafCoord_inLe (M : Int) (u : Loc) (h1 : leafCoord coordOk u = true) (h2 : leafLe M u = true) :
    leafCoord (inLe M) u = true := by
  cases u <;> simp_all [leafCoord, leafLe, inLe]

theorem allLeaves_inLe (M : Int) (l : Loc) (h1 : coordsC coordOk l = true) (h2 : coordsLe M l = true) :
    allLeaves (leafCoord (inLe M)) l = true := by
  rw [coordsLe_eq] at h2
  unfold coordsC at h1
  rw [allLeaves_eq_all, List.all_eq_true] at *
  exact fun u hu => leafCoord_inLe M u (h1 u hu) (h2 u hu)

/-- **`Expand(i, n)` keeps a canonical location canonical** unless the K3 shape arises in one of
its `Join`s: `0 ≤ i` or `0 ≤ n`, every coordinate at most `M`, `M + n ≤ 2^62`. -/
theorem expand_canon (l : Loc) (i n M : Int) (hc : canonP l = true) (hi : 0 ≤ i ∨ 0 ≤ n)
    (hle : coordsLe M l = true) (hM : M + n ≤ 4611686018427387904) (hk : expandK3 l i n = false) :
    canonP (expand l i n) = true := by
  rw [canonP_iff] at hc ⊢
  have h := expand_hom i n
  exact ⟨hom_coords h.perm h.joined h.ordered h.compl _ _
      (fun u hu hq => expand_leaf_coords i n M hi hM u hu hq) l (allLeaves_inLe M l hc.1 hle),
    (hom_struct h l hc.2 hk).1⟩

/-- **`Shift(i, n)`, `0 ≤ n`, keeps a canonical location canonical** unless the K3 shape arises -/
theorem shift_canon_guarded (l : Loc) (i n M : Int) (hc : canonP l = true) (hn : 0 ≤ n)
    (hle : coordsLe M l = true) (hM : M + n ≤ 4611686018427387904) (hk : shiftK3 l i n = false) :
    canonP (shift l i n) = true := by
  rw [canonP_iff] at hc ⊢
  have h := shift_hom i n
  exact ⟨hom_coords h.perm h.joined h.ordered h.compl _ _
      (fun u hu hq => shift_leaf_coords i n M hn hM u hu hq) l (allLeaves_inLe M l hc.1 hle),
    (hom_struct h l hc.2 hk).1⟩

/-- **`Reverse(L)` keeps a canonical location canonical** unless the K3 shape arises: `L ≤ 2^62`
and the mirror image has non-negative coordinates (`revIn`) -/
theorem reverse_canon (l : Loc) (L : Int) (hc : canonP l = true) (hL : L ≤ 4611686018427387904)
    (hr : revIn L l = true) (hk : reverseK3 l L = false) : canonP (reverse l L) = true := by
  rw [canonP_iff] at hc ⊢
  have h := reverse_hom L
  rw [revIn_eq] at hr
  exact ⟨hom_coords h.perm h.joined h.ordered h.compl (fun u => leafCoord coordOk u && leafRevIn L u) _
      (fun u hu hq => by
        simp only [Bool.and_eq_true] at hq
        exact reverse_leaf_coords L hL u hu hq.1 hq.2) l (allLeaves_and _ _ l hc.1 hr),
    (hom_struct h l hc.2 hk).1⟩

/-- **`Normalize(L)`, `0 < L ≤ 2^62`, keeps a canonical location canonical** unless the K3 shape
arises -/
theorem normalize_canon (l : Loc) (L : Int) (hc : canonP l = true) (hL0 : 0 < L)
    (hL : L ≤ 4611686018427387904) (hk : normalizeK3 l L = false) : canonP (normalize l L) = true := by
  rw [canonP_iff] at hc ⊢
  have h := normalize_hom L
  exact ⟨hom_coords h.perm h.joined h.ordered h.compl _ _
      (fun u hu hq => normalize_leaf_coords L hL0 hL u hu hq) l hc.1,
    (hom_struct h l hc.2 hk).1⟩

theorem leafWithin_iff' (L : Int) (u : Loc) :
    leafWithin L u = true ↔
      0 ≤ (leafSpan u).1 ∧ (leafSpan u).2 ≤ L ∧ (leafSpan u).1 ≤ (leafSpan u).2 := by
  simp only [leafWithin, Bool.not_eq_true', Bool.or_eq_false_iff, decide_eq_false_iff_not]
  omega

theorem coordsLe_of_within (l : Loc) (L : Int) (h : coordsWithin l L = true) : coordsLe L l = true := by
  unfold coordsWithin at h
  unfold coordsLe
  rw [List.all_eq_true] at *
  intro u hu
  have := (leafWithin_iff' L u).mp (h u hu)
  cases u <;> simp only [leafSpan, leafLe, Bool.and_eq_true, decide_eq_true_eq] at * <;> omega

theorem revIn_of_within (l : Loc) (L : Int) (h : coordsWithin l L = true)
    (hb : (leaves l).all (fun u => !u.beq (between L)) = true) : revIn L l = true := by
  unfold coordsWithin at h
  unfold revIn
  rw [List.all_eq_true] at *
  intro u hu
  have := (leafWithin_iff' L u).mp (h u hu)
  have hne := hb u hu
  cases u <;> simp only [leafSpan, leafRevIn, Bool.and_eq_true, decide_eq_true_eq] at * <;> try omega
  rename_i p
  have : p ≠ L := by
    intro he
    subst he
    simp [beq] at hne
  omega

end Loc
end Gts
