/-
  Helper lemmas for the locator theorems of C08: the `@` split, printed modifiers contain no
  `@`, strings that cannot be modifiers, `pars.Int` / `parsePoint` / `parseRange` /
  `tryLocation` on printed points and ranges.  Core Lean only.
-/
import Gts.Lemmas.ModText
import Gts.Model.Locator
namespace Gts
open Pars ModParse LocParse

theorem splitAt_noAt (s : Bytes) (h : (64 : UInt8) ∉ s) : splitAt s = (s, none) := by
  induction s with
  | nil => rfl
  | cons c r ih =>
    simp only [List.mem_cons, not_or] at h
    simp only [splitAt, ih h.2]
    rw [if_neg (fun hc => h.1 hc.symm)]

theorem splitAt_at (x y : Bytes) (h : (64 : UInt8) ∉ x) : splitAt (x ++ 64 :: y) = (x, some y) := by
  induction x with
  | nil => simp [splitAt]
  | cons c r ih =>
    simp only [List.mem_cons, not_or] at h
    simp only [List.cons_append, splitAt, ih h.2]
    rw [if_neg (fun hc => h.1 hc.symm)]

theorem isDigit_ne_at (c : UInt8) (h : isDigit c = true) : c ≠ 64 := by
  intro hc; subst hc; revert h; decide

theorem natDigits_noAt (k : Nat) : (64 : UInt8) ∉ natDigits k := by
  intro h
  have := (natDigits_spec k).2.1
  rw [List.all_eq_true] at this
  exact isDigit_ne_at _ (this _ h) rfl

theorem fmtPlus_noAt (n : Int) : (64 : UInt8) ∉ fmtPlus n := by
  unfold fmtPlus
  intro h
  rcases List.mem_cons.mp h with h | h
  · split at h <;> revert h <;> decide
  · exact natDigits_noAt _ h

theorem printB_noAt (m : Mod) : (64 : UInt8) ∉ m.printB := by
  have hh : ∀ p, (64 : UInt8) ∉ Mod.headB p := by
    intro p; unfold Mod.headB; split
    · decide
    · intro h; rcases List.mem_cons.mp h with h | h
      · revert h; decide
      · exact fmtPlus_noAt _ h
  have ht : ∀ p, (64 : UInt8) ∉ Mod.tailB p := by
    intro p; unfold Mod.tailB; split
    · decide
    · intro h; rcases List.mem_cons.mp h with h | h
      · revert h; decide
      · exact fmtPlus_noAt _ h
  have h46 : (64 : UInt8) ≠ 46 := by decide
  cases m <;> simp only [Mod.printB, List.mem_append, List.mem_cons, not_or] <;> simp [hh, ht, h46]

/-- a string that does not start with `^` or `$` is not a modifier -/
theorem asModifier_err_of_first (c : UInt8) (r : Bytes) (h1 : c ≠ 94) (h2 : c ≠ 36) :
    asModifier (c :: r) = .error .fail := by
  psimp [asModifier, ModParse.exact, parseModifier, parseHeadTail, parseHeadHead, parseTailTail,
      parseHead, parseTail, P.run', ExceptT.run, StateT.run, parseMark_other _ c _ _ h1, parseMark_other _ c _ _ h2]

theorem asModifier_nil : asModifier [] = .error .fail := by
  psimp [asModifier, ModParse.exact, parseModifier, parseHeadTail, parseHeadHead, parseTailTail,
      parseHead, parseTail, P.run', ExceptT.run, StateT.run, parseMark_nil]

theorem isDigit_not_sign (d : UInt8) (h : isDigit d = true) : (d == 45 || d == 43) = false := by
  cases hc : (d == 45 || d == 43) with
  | false => rfl
  | true =>
    simp only [Bool.or_eq_true, beq_iff_eq] at hc
    rcases hc with rfl | rfl <;> revert h <;> decide

theorem atoi_unsigned (d : UInt8) (ds : Bytes) (hd : isDigit d = true) (hds : ds.all isDigit = true) :
    atoi (d :: ds) =
      (if (digitsVal (d :: ds) : Int) < -9223372036854775808 ∨ 9223372036854775807 < (digitsVal (d :: ds) : Int)
       then none else some (digitsVal (d :: ds) : Int)) := by
  have h45 : d ≠ 45 := by intro h; subst h; revert hd; decide
  have h43 : d ≠ 43 := by intro h; subst h; revert hd; decide
  unfold atoi
  split
  rename_i heq
  split at heq
  · rename_i h; simp only [List.cons.injEq] at h; exact absurd h.1 h45
  · rename_i h; simp only [List.cons.injEq] at h; exact absurd h.1 h43
  · cases heq
    simp [hd, hds]

theorem int_unsigned (d : UInt8) (ds r : Bytes) (stk : List Bytes)
    (hd : isDigit d = true) (hd0 : d ≠ 48) (hds : ds.all isDigit = true) (hr : r.dropWhile isDigit = r) :
    int ⟨d :: (ds ++ r), stk⟩ =
      (match atoi (d :: ds) with | some n => .ok n | none => .error .fail, ⟨r, stk⟩) := by
  have hdw : (d :: (ds ++ r)).dropWhile isDigit = r := by
    rw [List.dropWhile_cons, if_pos hd, dropWhile_append_all _ _ _ hds, hr]
  have htr := trail_spec (d :: ds) r stk
  simp only [List.cons_append] at htr
  have hsg := isDigit_not_sign d hd
  have hd0' : (d == 48) = false := by simpa using hd0
  simp only [int, P.bind_run, push, getS, setS, next, P.pure_run, hsg, ↓reduceIte, hd, Bool.not_true, hd0',
    skipWhile, hdw, htr, Bool.false_eq_true]
  cases atoi (d :: ds) <;> rfl

/-- `pars.Int` reads back a printed positive number -/
theorem int_natDigits (n : Nat) (r : Bytes) (stk : List Bytes) (h0 : 0 < n) (hf : n ≤ 9223372036854775807)
    (hr : r.dropWhile isDigit = r) : int ⟨natDigits n ++ r, stk⟩ = (.ok (n : Int), ⟨r, stk⟩) := by
  obtain ⟨h1, h2, d, ds, h3, h4⟩ := natDigits_spec n
  have hd : isDigit d = true ∧ ds.all isDigit = true := by
    rw [h3] at h2; simpa using h2
  rw [h3, List.cons_append, int_unsigned d ds r stk hd.1 (h4 h0) hd.2 hr, atoi_unsigned d ds hd.1 hd.2, ← h3, h1]
  rw [if_neg (by omega)]

theorem point_natDigits (n : Nat) (r : Bytes) (stk : List Bytes) (h0 : 0 < n) (hf : n ≤ 9223372036854775807)
    (hr : r.dropWhile isDigit = r) :
    LocParse.point ⟨natDigits n ++ r, stk⟩ = (.ok (.point ((n : Int) - 1)), ⟨r, stk⟩) := by
  psimp [LocParse.point, int_natDigits n r _ h0 hf hr]

theorem str_complement : str "complement(" = [99, 111, 109, 112, 108, 101, 109, 101, 110, 116, 40] := by decide +kernel

/-- `parseComplement` fails, restoring the state, on input that does not start with `c` -/
theorem complementWith_other (inner : P Loc) (d : UInt8) (r : Bytes) (stk : List Bytes) (h : d ≠ 99) :
    complementWith inner ⟨d :: r, stk⟩ = (.error .fail, ⟨d :: r, stk⟩) := by
  by_cases hl : r.length + 1 < 11
  · psimp [complementWith, hl]
  · psimp [complementWith, hl, str_complement, h]

theorem natDigits_cons (n : Nat) :
    ∃ d ds, natDigits n = d :: ds ∧ isDigit d = true := by
  obtain ⟨_, h2, d, ds, h3, _⟩ := natDigits_spec n
  refine ⟨d, ds, h3, ?_⟩
  rw [h3] at h2; simp at h2; exact h2.1

theorem isDigit_ne (d c : UInt8) (h : isDigit d = true) (hc : isDigit c = false) : d ≠ c := by
  intro e; subst e; rw [h] at hc; cases hc

/-- `parseRange` on a lone number: no `..` follows, the state is restored -/
theorem range_natDigits_end (n : Nat) (stk : List Bytes) (h0 : 0 < n) (hf : n ≤ 9223372036854775807) :
    LocParse.range ⟨natDigits n, stk⟩ = (.error .fail, ⟨natDigits n, stk⟩) := by
  obtain ⟨d, ds, h3, hd⟩ := natDigits_cons n
  have hi := int_natDigits n [] (natDigits n :: stk) h0 hf rfl
  rw [List.append_nil, h3] at hi
  have h60 : d ≠ 60 := isDigit_ne d 60 hd (by decide)
  rw [h3]
  psimp [LocParse.range, h60, hi]

/-- `parseRange` on `a..b` -/
theorem range_natDigits (a b : Nat) (stk : List Bytes) (ha : 0 < a) (hfa : a ≤ 9223372036854775807)
    (hb : 0 < b) (hfb : b ≤ 9223372036854775807) :
    LocParse.range ⟨natDigits a ++ 46 :: 46 :: natDigits b, stk⟩ =
      (.ok (.ranged ((a : Int) - 1) b false false), ⟨[], stk⟩) := by
  obtain ⟨d, ds, h3, hd⟩ := natDigits_cons a
  obtain ⟨e, es, h4, he⟩ := natDigits_cons b
  have hi := int_natDigits a (46 :: 46 :: natDigits b) ((natDigits a ++ 46 :: 46 :: natDigits b) :: stk) ha hfa
    (by simp [isDigit])
  have hj := int_natDigits b [] ((natDigits a ++ 46 :: 46 :: natDigits b) :: stk) hb hfb rfl
  rw [List.append_nil] at hj
  rw [h3, h4] at hi hj
  simp only [List.cons_append] at hi hj
  have hlen : ¬ (es.length + 1 + 1 + 1 < 2) := by omega
  have h60 : d ≠ 60 := isDigit_ne d 60 hd (by decide)
  have h62 : e ≠ 62 := isDigit_ne e 62 he (by decide)
  rw [h3, h4]
  have h60b : (d == 60) = false := by simpa using h60
  have h62b : (e == 62) = false := by simpa using h62
  psimp [LocParse.range, h60, h62, h60b, h62b, hi, hj, hlen]

/-- `tryLocation` on a printed point -/
theorem tryLocation_point (n : Nat) (h0 : 0 < n) (hf : n ≤ 9223372036854775807) :
    tryLocation (natDigits n) = .ok (.point ((n : Int) - 1)) := by
  obtain ⟨d, ds, h3, hd⟩ := natDigits_cons n
  have hc := fun inner stk => complementWith_other inner d ds stk (isDigit_ne d 99 hd (by decide))
  have hr := fun stk => range_natDigits_end n stk h0 hf
  have hp := fun stk => point_natDigits n [] stk h0 hf rfl
  simp only [List.append_nil] at hp
  unfold tryLocation
  rw [show (natDigits n).length + 2 = ((natDigits n).length + 1) + 1 from rfl, tryLoc]
  rw [h3] at hr hp ⊢
  psimp [ModParse.exact, P.run', ExceptT.run, StateT.run, hc, hr, hp]

/-- `tryLocation` on a printed range `a..b` -/
theorem tryLocation_range (a b : Nat) (ha : 0 < a) (hfa : a ≤ 9223372036854775807)
    (hb : 0 < b) (hfb : b ≤ 9223372036854775807) :
    tryLocation (natDigits a ++ 46 :: 46 :: natDigits b) = .ok (.ranged ((a : Int) - 1) b false false) := by
  obtain ⟨d, ds, h3, hd⟩ := natDigits_cons a
  have hc := fun inner stk => complementWith_other inner d (ds ++ 46 :: 46 :: natDigits b) stk
    (isDigit_ne d 99 hd (by decide))
  have hr := fun stk => range_natDigits a b stk ha hfa hb hfb
  unfold tryLocation
  rw [show (natDigits a ++ 46 :: 46 :: natDigits b).length + 2 =
    ((natDigits a ++ 46 :: 46 :: natDigits b).length + 1) + 1 from rfl, tryLoc]
  rw [h3] at hr ⊢
  simp only [List.cons_append] at hr ⊢
  psimp [ModParse.exact, P.run', ExceptT.run, StateT.run, hc, hr]
/-- `parseRange` on a number followed by a byte that is neither a digit nor `.`: no `..`
follows, the state is restored -/
theorem range_natDigits_other (n : Nat) (c : UInt8) (r : Bytes) (stk : List Bytes) (h0 : 0 < n)
    (hf : n ≤ 9223372036854775807) (hc : isDigit c = false) (hc46 : c ≠ 46) :
    LocParse.range ⟨natDigits n ++ c :: r, stk⟩ = (.error .fail, ⟨natDigits n ++ c :: r, stk⟩) := by
  obtain ⟨d, ds, h3, hd⟩ := natDigits_cons n
  have hi := int_natDigits n (c :: r) ((natDigits n ++ c :: r) :: stk) h0 hf
    (by simp [hc])
  rw [h3] at hi
  simp only [List.cons_append] at hi
  have h60 : d ≠ 60 := isDigit_ne d 60 hd (by decide)
  rw [h3]
  simp only [List.cons_append]
  cases r with
  | nil => psimp [LocParse.range, h60, hi]
  | cons r0 r' =>
    have hlen : ¬ (r'.length + 1 + 1 < 2) := by omega
    psimp [LocParse.range, h60, hi, hlen, hc46]

/-- after the repair: a number followed by anything that is not a digit or `.` is *not* a
location (the point is parsed, but `End` fails on the remaining bytes) -/
theorem tryLocation_number_prefix (n : Nat) (c : UInt8) (r : Bytes) (h0 : 0 < n)
    (hf : n ≤ 9223372036854775807) (hc : isDigit c = false) (hc46 : c ≠ 46) :
    tryLocation (natDigits n ++ c :: r) = .error .fail := by
  obtain ⟨d, ds, h3, hd⟩ := natDigits_cons n
  have hcw := fun inner stk => complementWith_other inner d (ds ++ c :: r) stk (isDigit_ne d 99 hd (by decide))
  have hr := fun stk => range_natDigits_other n c r stk h0 hf hc hc46
  have hp := fun stk => point_natDigits n (c :: r) stk h0 hf (by simp [hc])
  unfold tryLocation
  rw [show (natDigits n ++ c :: r).length + 2 = ((natDigits n ++ c :: r).length + 1) + 1 from rfl, tryLoc]
  rw [h3] at hr hp ⊢
  simp only [List.cons_append] at hr hp ⊢
  psimp [ModParse.exact, P.run', ExceptT.run, StateT.run, hcw, hr, hp]
end Gts
