/-
  The location part of `gts.Slice` on a forward window `[a, b)` of a sequence of length `L`
  (`Expand(b, b-L)` then `Expand(0, -a)`) keeps exactly the residues inside the window,
  re-based.  Core Lean only.
-/
import Gts.Lemmas.Delete
import Gts.Lemmas.Embed
namespace Gts

/-- position re-mapping of a forward slice `[a, b)` -/
def winMap (a b : Int) (x : Int) : Option Int := if a ≤ x ∧ x < b then some (x - a) else none

namespace Loc

/-- the location transformation applied by `gts.Slice(seq, a, b)` (forward case) -/
def sliceLoc (l : Loc) (a b L : Int) : Loc := (l.expand b (b - L)).expand 0 (-a)

theorem filterMapPos_congr {f g : Int → Option Int} {d : List Pos} (h : ∀ p ∈ d, f p.1 = g p.1) :
    filterMapPos f d = filterMapPos g d := by
  induction d with
  | nil => rfl
  | cons p ps ih =>
    simp only [filterMapPos, List.filterMap_cons] at ih ⊢
    rw [h p (List.mem_cons_self ..)]
    have := ih (fun q hq => h q (List.mem_cons_of_mem _ hq))
    cases g p.1 <;> simp [this]

theorem filterMapPos_comp (f g : Int → Option Int) (d : List Pos) :
    filterMapPos g (filterMapPos f d) = filterMapPos (fun x => (f x).bind g) d := by
  induction d with
  | nil => rfl
  | cons p ps ih =>
    simp only [filterMapPos, List.filterMap_cons] at ih ⊢
    cases hf : f p.1 with
    | none => simpa [hf] using ih
    | some y =>
      simp only [hf, Option.map_some, Option.bind_some, List.filterMap_cons]
      cases g y <;> simp [ih]

theorem filterMapPos_some_id (d : List Pos) : filterMapPos (fun x => some x) d = d := by
  induction d with
  | nil => rfl
  | cons p ps ih => simp only [filterMapPos, List.filterMap_cons] at ih ⊢; simp [ih]

/-- general form of `Expand(i, n)` on denotations for either sign of `n` (n = 0 included) -/
theorem expand_den_any (l : Loc) (i n : Int) (hw : wf l = true) (hk : expandAbs l i n = false) :
    wf (expand l i n) = true ∧
    (n ≤ 0 → den (expand l i n) ≼ filterMapPos (delMap i (-n)) (den l)) := by
  by_cases hn : n < 0
  · have h := expand_del l i (-n) hw (by omega)
    have e : - -n = n := by omega
    rw [e] at h
    exact ⟨h.2, fun _ => h.1 hk⟩
  · have h := expand_ins l i n hw (by omega)
    refine ⟨h.2, ?_⟩
    intro hle
    have h0 : n = 0 := by omega
    subst h0
    have h1 := h.1 hk
    have e1 : stripGuest i 0 (den (expand l i 0)) = den (expand l i 0) := by
      unfold stripGuest
      apply List.filter_eq_self.mpr
      intro p _; simp only [decide_eq_true_eq]; omega
    have e2 : mapPos (insMap i 0) (den l) = den l := by
      unfold mapPos
      have : (fun p : Pos => (insMap i 0 p.1, p.2)) = id := by
        funext p; apply Prod.ext
        · simp only [insMap, id]; split <;> omega
        · rfl
      rw [this, List.map_id]
    have e3 : filterMapPos (delMap i (-0)) (den l) = den l := by
      have : filterMapPos (delMap i (-0)) (den l) = filterMapPos (fun x => some x) (den l) := by
        apply filterMapPos_congr
        intro p _
        unfold delMap
        by_cases c : p.1 < i
        · rw [if_pos c]
        · rw [if_neg c, if_neg (by omega)]; congr 1; omega
      rw [this, filterMapPos_some_id]
    rw [e1, e2] at h1
    rw [e3]
    exact h1

/-- **Slice on a forward window**: the re-located feature denotes exactly its residues inside
`[a, b)`, re-based to the window start, same order and strand. -/
theorem sliceLoc_den (l : Loc) (a b L : Int) (h0 : 0 ≤ a) (hab : a ≤ b) (hbL : b ≤ L)
    (hw : wf l = true) (hpos : ∀ p ∈ den l, 0 ≤ p.1 ∧ p.1 < L)
    (g1 : expandAbs l b (b - L) = false) (g2 : expandAbs (l.expand b (b - L)) 0 (-a) = false) :
    den (sliceLoc l a b L) ≼ filterMapPos (winMap a b) (den l) ∧ wf (sliceLoc l a b L) = true := by
  have s1 := expand_den_any l b (b - L) hw g1
  have s2 := expand_den_any (l.expand b (b - L)) 0 (-a) s1.1 g2
  refine ⟨?_, s2.1⟩
  have d1 := s1.2 (by omega)
  have d2 := s2.2 (by omega)
  have d3 := filterMapPos_refines (delMap 0 (- -a)) d1
  rw [filterMapPos_comp] at d3
  have e : filterMapPos (fun x => (delMap b (-(b - L)) x).bind (delMap 0 (- -a))) (den l)
      = filterMapPos (winMap a b) (den l) := by
    apply filterMapPos_congr
    intro p hp
    have := hpos p hp
    unfold delMap winMap
    by_cases c1 : p.1 < b
    · rw [if_pos c1]
      simp only [Option.bind_some]
      rw [if_neg (by omega)]
      by_cases c2 : p.1 < 0 + - -a
      · rw [if_pos c2, if_neg (by omega)]
      · rw [if_neg c2, if_pos (by omega)]; congr 1; omega
    · rw [if_neg c1, if_pos (by omega)]
      simp only [Option.bind_none]
      rw [if_neg (by omega)]
  rw [e] at d3
  exact d2.trans d3

end Loc
end Gts
