/-
  C01, CRLF input: the header fields (DEFINITION, ACCESSION, VERSION, COMMENT, extra fields,
  KEYWORDS, SOURCE / ORGANISM / taxonomy, DBLINK) of the CRLF translation of the text `GenBank.String`
  writes, read by their sub-parsers: the same values as from the LF text.  Mirrors `GbFields.lean`,
  `GbSource.lean`, `GbDblinkContig.lean`; the text of a field value `v` written with `AddPrefix` stands
  in the CRLF file as `Origin.crlf (addPrefix indent v)`, every line ends in CR LF.  Core Lean only.
-/
import Gts.Lemmas.GbCrlfBasic
namespace Gts.GenBank
open Gts.Pars

/-- `genbankGenericFieldParser(name, depth)` on `name`, padding, the CRLF form of `AddPrefix(v, indent)`, CR LF -/
theorem genericField_okC (name : Bytes) (d : Nat) (v rest : Bytes) (stk : List Bytes)
    (hn : name.length ≤ d) (hv : noCR v = true) (hrest : (sp d).isPrefixOf rest = false) :
    genericField name d
        ⟨name ++ (sp (d - name.length) ++ (Origin.crlf (addPrefix (sp d) v) ++ 13 :: 10 :: rest)), stk⟩ =
      (.ok (v, (tailLines v).length, 0), ⟨rest, stk⟩) := by
  gsimp [genericField, fieldName_ok name d _ stk hn, fieldBody_addPrefixC d v rest stk hv hrest]

/-- a generic field whose value is one line (no CR, no LF) -/
theorem genericField_lineC (name : Bytes) (d : Nat) (l rest : Bytes) (stk : List Bytes)
    (hn : name.length ≤ d) (hl : noEOL l = true) (hrest : (sp d).isPrefixOf rest = false) :
    genericField name d ⟨name ++ (sp (d - name.length) ++ (l ++ 13 :: 10 :: rest)), stk⟩ =
      (.ok (l, 0, 0), ⟨rest, stk⟩) := by
  have := genericField_okC name d l rest stk hn (noEOL_noCR l hl) hrest
  rw [addPrefix_noLF _ l hl, tailLines_noLF l hl, crlf_noLF l (noEOL_noLF l hl)] at this
  exact this

theorem crlf_addPrefix_append_byte (pre v : Bytes) (c : UInt8) (hc : c ≠ 10) :
    Origin.crlf (addPrefix pre (v ++ [c])) = Origin.crlf (addPrefix pre v) ++ [c] := by
  rw [addPrefix_append_byte _ _ _ hc, crlf_append, crlf_cons_ne c [] hc, crlf_nil]

/-- **DEFINITION**, CRLF file -/
theorem definition_roundtripC (f : Fields) (v rest : Bytes) (stk : List Bytes) (hv : noCR v = true)
    (hrest : (sp 12).isPrefixOf rest = false) :
    definitionField 12 f ⟨bs "DEFINITION  " ++ (Origin.crlf (addPrefix indent v) ++ (46 :: 13 :: 10 :: rest)), stk⟩ =
      (.ok ({ f with definition := v }, true), ⟨rest, stk⟩) := by
  have hv' : noCR (v ++ [46]) = true := by rw [noCR_append, hv]; rfl
  have e : bs "DEFINITION  " ++ (Origin.crlf (addPrefix indent v) ++ (46 :: 13 :: 10 :: rest)) =
      bs "DEFINITION" ++ (sp (12 - (bs "DEFINITION").length) ++
        (Origin.crlf (addPrefix (sp 12) (v ++ [46])) ++ 13 :: 10 :: rest)) := by
    rw [crlf_addPrefix_append_byte _ _ _ (by decide)]
    show _ = bs "DEFINITION" ++ (sp 2 ++ _)
    simp [sp, indent, List.append_assoc]
    rfl
  rw [e]
  have hn : (bs "DEFINITION").length ≤ 12 := by decide
  have hb := fun s => fieldBody_addPrefixC 12 (v ++ [46]) rest s hv' hrest
  have hf := fun r s => fieldName_ok (bs "DEFINITION") 12 r s hn
  gsimp [definitionField, hf, hb, trimDot_append_dot]

/-- **ACCESSION**, CRLF file -/
theorem accession_roundtripC (f : Fields) (l rest : Bytes) (stk : List Bytes) (hl : noEOL l = true)
    (hrest : (sp 12).isPrefixOf rest = false) :
    accessionField 12 f ⟨bs "ACCESSION   " ++ (l ++ 13 :: 10 :: rest), stk⟩ =
      (.ok ({ f with accession := l }, true), ⟨rest, stk⟩) := by
  have e : bs "ACCESSION   " ++ (l ++ 13 :: 10 :: rest) =
      bs "ACCESSION" ++ (sp (12 - (bs "ACCESSION").length) ++ (l ++ 13 :: 10 :: rest)) := by
    show _ = bs "ACCESSION" ++ (sp 3 ++ _)
    simp [bs, sp]
  rw [e]
  have hg := fun s => genericField_lineC (bs "ACCESSION") 12 l rest s (by decide) hl hrest
  gsimp [accessionField, mapped_ok _ _ rest stk _ (hg _)]

/-- **VERSION**, CRLF file -/
theorem version_roundtripC (f : Fields) (l rest : Bytes) (stk : List Bytes) (hl : noEOL l = true)
    (hrest : (sp 12).isPrefixOf rest = false) :
    versionField 12 f ⟨bs "VERSION     " ++ (l ++ 13 :: 10 :: rest), stk⟩ =
      (.ok ({ f with version := l }, true), ⟨rest, stk⟩) := by
  have e : bs "VERSION     " ++ (l ++ 13 :: 10 :: rest) =
      bs "VERSION" ++ (sp (12 - (bs "VERSION").length) ++ (l ++ 13 :: 10 :: rest)) := by
    show _ = bs "VERSION" ++ (sp 5 ++ _)
    simp [bs, sp]
  rw [e]
  have hg := fun s => genericField_lineC (bs "VERSION") 12 l rest s (by decide) hl hrest
  gsimp [versionField, mapped_ok _ _ rest stk _ (hg _)]

/-- **COMMENT**, CRLF file -/
theorem comment_roundtripC (f : Fields) (v rest : Bytes) (stk : List Bytes) (hv : noCR v = true)
    (hrest : (sp 12).isPrefixOf rest = false) :
    commentField 12 f ⟨bs "COMMENT     " ++ (Origin.crlf (addPrefix indent v) ++ 13 :: 10 :: rest), stk⟩ =
      (.ok ({ f with comments := f.comments ++ [v] }, true), ⟨rest, stk⟩) := by
  have e : bs "COMMENT     " ++ (Origin.crlf (addPrefix indent v) ++ 13 :: 10 :: rest) =
      bs "COMMENT" ++ (sp (12 - (bs "COMMENT").length) ++ (Origin.crlf (addPrefix (sp 12) v) ++ 13 :: 10 :: rest)) := by
    show _ = bs "COMMENT" ++ (sp 5 ++ _)
    simp [bs, sp, indent]
  rw [e]
  have hg := fun s => genericField_okC (bs "COMMENT") 12 v rest s (by decide) hv hrest
  gsimp [commentField, mapped_ok _ _ rest stk _ (hg _)]

/-- the first byte of the CRLF form of a text is the first byte of the text, or CR for a line feed -/
theorem crlf_addPrefix_head (pre v X : Bytes) :
    ∀ c, (Origin.crlf (addPrefix pre v) ++ 13 :: 10 :: X).head? = some c → c = 13 ∨ (v.head? = some c ∧ c ≠ 10) := by
  intro c hc
  cases v with
  | nil => simp [addPrefix, Origin.crlf] at hc; left; exact hc.symm
  | cons x r =>
    by_cases hx : x = 10
    · subst hx; simp [addPrefix, Origin.crlf] at hc; left; exact hc.symm
    · simp [addPrefix, hx, Origin.crlf] at hc; right; subst hc; simp [hx]

/-- **extra field**, CRLF file -/
theorem extra_roundtripC (f : Fields) (name value rest : Bytes) (stk : List Bytes)
    (hw : WritableExtra name value = true) (hrest : (sp 12).isPrefixOf rest = false) :
    extraField 12 f ⟨padRight 12 name ++ (Origin.crlf (addPrefix indent value) ++ 13 :: 10 :: rest), stk⟩ =
      (.ok ({ f with extra := f.extra ++ [(name, value)] }, true), ⟨rest, stk⟩) := by
  simp only [WritableExtra, Bool.and_eq_true, Bool.or_eq_true, Bool.not_eq_true', decide_eq_true_eq] at hw
  obtain ⟨⟨⟨⟨hne, hup⟩, hlen⟩, hv⟩, hnext⟩ := hw
  have hne' : name ≠ [] := by cases name <;> simp_all
  have e : padRight 12 name ++ (Origin.crlf (addPrefix indent value) ++ 13 :: 10 :: rest) =
      name ++ (sp (12 - name.length) ++ (Origin.crlf (addPrefix (sp 12) value) ++ 13 :: 10 :: rest)) := by
    simp [padRight, indent, List.append_assoc]
  rw [e]
  -- the byte behind the name is not upper case
  have hstop : ∀ c, (sp (12 - name.length) ++ (Origin.crlf (addPrefix (sp 12) value) ++ 13 :: 10 :: rest)).head? = some c →
      isUpper c = false := by
    intro c hc
    by_cases hl : name.length < 12
    · have : sp (12 - name.length) = 32 :: sp (12 - name.length - 1) := by
        rw [← sp_succ]; congr 1; omega
      rw [this] at hc
      simp at hc; subst hc; decide
    · have h12 : 12 - name.length = 0 := by omega
      rw [h12] at hc
      simp only [sp, List.replicate_zero, List.nil_append] at hc
      rcases crlf_addPrefix_head _ _ _ c hc with h13 | ⟨hh, _⟩
      · subst h13; decide
      · rcases hnext with h | h
        · omega
        · cases value with
          | nil => simp at hh
          | cons x v =>
            simp only at h
            simp at hh; subst hh; simpa using h
  have hw' := fun s => word_ok isUpper name _ s hup hne' hstop
  have hp := fun r s => fieldPadding_ok name.length 12 r s hlen
  have hb := fun s => fieldBody_addPrefixC 12 value rest s hv hrest
  gsimp [extraField, hw', hp, hb]

/-! ### KEYWORDS, SOURCE / ORGANISM / taxonomy -/

/-- `genbankFieldBodyParser(depth, ' ')` on the CRLF form of a wrapped text -/
theorem fieldBody_rejoinC (d : Nat) (w rest : Bytes) (stk : List Bytes) (hw : noCR w = true)
    (hrest : (sp d).isPrefixOf rest = false) :
    fieldBody d 32 ⟨Origin.crlf (addPrefix (sp d) w) ++ 13 :: 10 :: rest, stk⟩ =
      (.ok (rejoin w, (tailLines w).length), ⟨rest, stk⟩) := by
  obtain ⟨h0, hls⟩ := lines_noEOL w hw
  rw [crlf_addPrefix_lines _ _ _ (noLF_sp d), fieldBody_okC d 32 _ _ rest stk h0 hls hrest]
  rfl

/-- **KEYWORDS**, CRLF file -/
theorem keywords_roundtripC (f : Fields) (kws : List Bytes) (rest : Bytes) (stk : List Bytes)
    (h : listOk kws = true) (hrest : (sp 12).isPrefixOf rest = false) :
    keywordsField 12 f
        ⟨bs "KEYWORDS    " ++ (Origin.crlf (addPrefix indent (wrapSpace (joinWith (bs "; ") kws ++ [46]))) ++
          13 :: 10 :: rest), stk⟩ =
      (.ok ({ f with keywords := kws }, true), ⟨rest, stk⟩) := by
  simp only [listOk, Bool.and_eq_true, beq_iff_eq] at h
  obtain ⟨⟨h1, h2⟩, h3⟩ := h
  have hw : noCR (wrapSpace (joinWith (bs "; ") kws ++ [46])) = true := noCR_of_rejoin _ _ h2 h1
  have e : bs "KEYWORDS    " ++ (Origin.crlf (addPrefix indent (wrapSpace (joinWith (bs "; ") kws ++ [46]))) ++
        13 :: 10 :: rest) =
      bs "KEYWORDS" ++ (sp (12 - (bs "KEYWORDS").length) ++
        (Origin.crlf (addPrefix (sp 12) (wrapSpace (joinWith (bs "; ") kws ++ [46]))) ++ 13 :: 10 :: rest)) := by
    show _ = bs "KEYWORDS" ++ (sp 4 ++ _)
    simp [bs, sp, indent]
  rw [e]
  have hn := fun r s => fieldName_ok (bs "KEYWORDS") 12 r s (by decide)
  have hb := fun s => fieldBody_rejoinC 12 _ rest s hw hrest
  gsimp [keywordsField, hn, hb, h2, h3]

theorem taxonMore_linesC (d : Nat) (ls : List Bytes) (rest : Bytes) (stk : List Bytes) (acc : Bytes) (f : Nat)
    (hls : ∀ x ∈ ls, noEOL x = true) (hrest : (sp d).isPrefixOf rest = false) (hf : ls.length < f) :
    taxonMore d f acc ⟨contTextC (sp d) ls ++ rest, stk⟩ = (.ok (taxJoin acc ls), ⟨rest, stk⟩) := by
  induction ls generalizing acc f with
  | nil =>
    cases f with
    | zero => omega
    | succ f => gsimp [taxonMore, contTextC, taxJoin, fieldLine_fail d rest stk hrest]
  | cons l ls ih =>
    cases f with
    | zero => omega
    | succ f =>
      have hl : noEOL l = true := hls l (by simp)
      rw [contTextC_cons]
      simp only [taxonMore, P.bind_run, attempt_run, List.append_assoc, List.cons_append, fieldLine_okC d l _ stk hl]
      rw [ih _ f (fun x hx => hls x (by simp [hx])) (by simp only [List.length_cons] at hf; omega)]
      simp [taxJoin]

/-- **SOURCE / ORGANISM / taxonomy**, CRLF file -/
theorem source_roundtripC (f : Fields) (species name : Bytes) (taxon : List Bytes) (rest : Bytes)
    (stk : List Bytes) (hs : noCR (species) = true) (hn : organismOk name = true)
    (ht : taxonOk taxon = true) (hrest : (sp 12).isPrefixOf rest = false) :
    sourceField 12 f
        ⟨bs "SOURCE      " ++ (Origin.crlf (addPrefix indent (species)) ++ 13 :: 10 ::
          (bs "  ORGANISM  " ++ (name ++ 13 :: 10 ::
          (indent ++ (Origin.crlf (addPrefix indent (wrapSpace (joinWith (bs "; ") taxon ++ [46]))) ++
            13 :: 10 :: rest))))), stk⟩ =
      (.ok ({ f with species := species, organism := name, taxon := taxon }, true), ⟨rest, stk⟩) := by
  simp only [organismOk, Bool.and_eq_true, bne_iff_ne, ne_eq] at hn
  obtain ⟨hn2, hn3⟩ := hn
  simp only [taxonOk, Bool.and_eq_true, beq_iff_eq] at ht
  obtain ⟨ht1, ht2⟩ := ht
  -- taxonomy
  generalize wrapSpace (joinWith (bs "; ") taxon ++ [46]) = W at ht1 ht2 ⊢
  obtain ⟨hl0, hls⟩ := lines_noEOL W ht1
  have etax : indent ++ (Origin.crlf (addPrefix indent W) ++ 13 :: 10 :: rest) =
      contTextC (sp 12) (headLine W :: tailLines W) ++ rest := by
    show sp 12 ++ (Origin.crlf (addPrefix (sp 12) W) ++ 13 :: 10 :: rest) = _
    rw [contTextC_cons, crlf_addPrefix_lines _ _ _ (noLF_sp 12)]
    simp [List.append_assoc]
  rw [etax]
  generalize hT : contTextC (sp 12) (headLine W :: tailLines W) ++ rest = T
  have hlen : (headLine W :: tailLines W).length < T.length + 1 := by
    have := contTextC_length_ge (sp 12) (headLine W :: tailLines W)
    rw [← hT]; simp only [List.length_append]; omega
  have htax : ∀ s, taxonMore 12 (T.length + 1) [] ⟨T, s⟩ =
      (.ok (taxJoin [] (headLine W :: tailLines W)), ⟨rest, s⟩) := by
    intro s
    have := taxonMore_linesC 12 (headLine W :: tailLines W) rest s [] (T.length + 1) (by
      intro x hx
      rcases List.mem_cons.mp hx with rfl | hx
      · exact hl0
      · exact hls x hx) hrest hlen
    rw [hT] at this; exact this
  -- SOURCE
  have e : bs "SOURCE      " ++ (Origin.crlf (addPrefix indent (species)) ++ 13 :: 10 ::
        (bs "  ORGANISM  " ++ (name ++ 13 :: 10 :: T))) =
      bs "SOURCE" ++ (sp (12 - (bs "SOURCE").length) ++ (Origin.crlf (addPrefix (sp 12) (species)) ++ 13 :: 10 ::
        (bs "  ORGANISM  " ++ (name ++ 13 :: 10 :: T)))) := by
    show _ = bs "SOURCE" ++ (sp 6 ++ _)
    simp [bs, sp, indent]
  rw [e]
  have horg : (sp 12).isPrefixOf (bs "  ORGANISM  " ++ (name ++ 13 :: 10 :: T)) = false := by
    simp [bs, sp, List.replicate, List.isPrefixOf]
  have hg := fun s => genericField_okC (bs "SOURCE") 12 (species) _ s (by decide) hs horg
  -- ORGANISM
  have hX : ∀ c, (name ++ 13 :: 10 :: T).head? = some c → c ≠ 32 := by
    intro c hc
    cases name with
    | nil => simp at hc; subst hc; decide
    | cons x r => simp at hc hn3; subst hc; exact hn3
  have ho := fun st s => organismName_ok _ s st hX
  have hline := fun s => line_okC name T s hn2
  gsimp [sourceField, mapped_ok _ _ _ stk _ (hg _), ho, hline, htax, ht2]

/-! ### DBLINK -/

/-- the pairs behind the first one, as they stand in the CRLF file -/
def dblinkMoreTextC (ps : List (Bytes × Bytes)) : Bytes :=
  ps.flatMap fun p => indent ++ (p.1 ++ 58 :: 32 :: p.2) ++ [13, 10]

theorem dblinkMore_okC (ps : List (Bytes × Bytes)) (rest : Bytes) (stk : List Bytes) (f : Fields) (k : Nat)
    (hps : ∀ p ∈ ps, pairOk p = true) (hrest : (sp 12).isPrefixOf rest = false) (hk : ps.length < k) :
    dblinkMore 12 k f ⟨dblinkMoreTextC ps ++ rest, stk⟩ =
      (.ok ({ f with dblink := dictSetAll f.dblink ps }, true), ⟨rest, stk⟩) := by
  induction ps generalizing f k with
  | nil =>
    cases k with
    | zero => omega
    | succ k => gsimp [dblinkMore, dblinkMoreTextC, lit_fail _ _ _ hrest, dictSetAll]
  | cons p ps ih =>
    cases k with
    | zero => omega
    | succ k =>
      obtain ⟨h1, h2, h3⟩ := pairOk_spec p (hps p (by simp))
      have e : dblinkMoreTextC (p :: ps) ++ rest =
          sp 12 ++ ((p.1 ++ 58 :: 32 :: p.2) ++ 13 :: 10 :: (dblinkMoreTextC ps ++ rest)) := by
        simp [dblinkMoreTextC, List.flatMap_cons, indent, List.append_assoc]
      rw [e]
      simp only [dblinkMore, P.bind_run, attempt_run, lit_ok, line_okC _ _ stk h1, dblinkPair_ok _ _ h2 h3]
      rw [ih _ k (fun q hq => hps q (by simp [hq])) (by simp only [List.length_cons] at hk; omega)]
      simp [dictSetAll]

theorem dblinkMoreTextC_length_ge (ps : List (Bytes × Bytes)) : ps.length ≤ (dblinkMoreTextC ps).length := by
  induction ps with
  | nil => simp [dblinkMoreTextC]
  | cons p ps ih =>
    simp only [dblinkMoreTextC, List.flatMap_cons, List.length_append, List.length_cons] at ih ⊢
    omega

/-- the CRLF translation of the further DBLINK lines -/
theorem crlf_dblinkMoreText (ps : List (Bytes × Bytes)) (hps : ∀ p ∈ ps, pairOk p = true) :
    Origin.crlf (dblinkMoreText ps) = dblinkMoreTextC ps := by
  induction ps with
  | nil => rfl
  | cons p ps ih =>
    obtain ⟨h1, _, _⟩ := pairOk_spec p (hps p (by simp))
    have hl := crlf_noLF _ (noEOL_noLF _ h1)
    simp only [dblinkMoreText, dblinkMoreTextC, List.flatMap_cons] at ih ⊢
    rw [crlf_append, ih (fun q hq => hps q (by simp [hq])), crlf_append, crlf_append, hl]
    simp [indent, crlf_sp, crlf_cons_lf, crlf_nil]

/-- **DBLINK**, CRLF file -/
theorem dblink_roundtripC (f : Fields) (p : Bytes × Bytes) (ps : List (Bytes × Bytes)) (rest : Bytes)
    (stk : List Bytes) (hps : ∀ q ∈ p :: ps, pairOk q = true) (hrest : (sp 12).isPrefixOf rest = false) :
    dblinkField 12 f ⟨bs "DBLINK" ++ (sp 6 ++ ((p.1 ++ 58 :: 32 :: p.2) ++ 13 :: 10 :: (dblinkMoreTextC ps ++ rest))), stk⟩ =
      (.ok ({ f with dblink := dictSetAll f.dblink (p :: ps) }, true), ⟨rest, stk⟩) := by
  obtain ⟨h1, h2, h3⟩ := pairOk_spec p (hps p (by simp))
  have hn := fun r s => fieldName_ok (bs "DBLINK") 12 r s (by decide)
  have hs : sp (12 - (bs "DBLINK").length) = sp 6 := by decide
  rw [hs] at hn
  have hlen : ps.length < (dblinkMoreTextC ps).length + rest.length + 1 := by
    have := dblinkMoreTextC_length_ge ps
    omega
  have hm := fun g s => dblinkMore_okC ps rest s g ((dblinkMoreTextC ps).length + rest.length + 1)
    (fun q hq => hps q (by simp [hq])) hrest hlen
  have hline : ∀ s, line ⟨p.1 ++ 58 :: 32 :: (p.2 ++ 13 :: 10 :: (dblinkMoreTextC ps ++ rest)), s⟩ =
      (.ok (p.1 ++ 58 :: 32 :: p.2), ⟨dblinkMoreTextC ps ++ rest, s⟩) := by
    intro s
    have := line_okC (p.1 ++ 58 :: 32 :: p.2) (dblinkMoreTextC ps ++ rest) s h1
    simpa [List.append_assoc] using this
  gsimp [dblinkField, hn, hline, dblinkPair_ok _ _ h2 h3, hm, dictSetAll]

end Gts.GenBank
