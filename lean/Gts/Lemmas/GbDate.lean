/-
  C01 helper lemmas: the date of the LOCUS line.  `AsDate` reads back what
  `strings.ToUpper(Format("02-Jan-2006"))` printed, for every valid calendar date of the years
  0..9999 — by arithmetic on the digits, not by enumeration.  Core Lean only.
-/
import Gts.Lemmas.ParsRun
namespace Gts.GenBank
open Gts.Pars

/-! ### `strings.Split(s, "-")` on three dash-free parts -/

theorem splitOn_nil (sep cur : Bytes) (f : Nat) : splitOn sep (f + 1) cur [] = [cur.reverse] := by
  simp [splitOn]

theorem splitOn_skip (a rest cur : Bytes) (f : Nat) (ha : ∀ c ∈ a, c ≠ 45) :
    splitOn [45] (f + a.length) cur (a ++ rest) = splitOn [45] f (a.reverse ++ cur) rest := by
  induction a generalizing cur f with
  | nil => simp
  | cons c a ih =>
    have hc : c ≠ 45 := ha c (by simp)
    have h45 : ((45 : UInt8) == c) = false := by simpa using fun h => hc h.symm
    have e : f + (c :: a).length = (f + a.length) + 1 := by simp only [List.length_cons]; omega
    rw [e]
    simp only [List.cons_append, splitOn, List.isPrefixOf, h45, Bool.false_and, Bool.false_eq_true, if_false]
    rw [ih (c :: cur) f (fun x hx => ha x (by simp [hx]))]
    simp

theorem splitOn_sep (rest cur : Bytes) (f : Nat) :
    splitOn [45] (f + 1) cur (45 :: rest) = cur.reverse :: splitOn [45] f [] rest := by
  simp [splitOn, List.isPrefixOf]

theorem split_three (a b c : Bytes) (ha : ∀ x ∈ a, x ≠ 45) (hb : ∀ x ∈ b, x ≠ 45) (hc : ∀ x ∈ c, x ≠ 45) :
    split [45] (a ++ 45 :: (b ++ 45 :: c)) = [a, b, c] := by
  unfold split
  have e1 : (a ++ 45 :: (b ++ 45 :: c)).length + 1 = (b.length + c.length + 3) + a.length := by
    simp only [List.length_append, List.length_cons]; omega
  rw [e1, splitOn_skip a _ [] _ ha]
  have e2 : b.length + c.length + 3 = (b.length + c.length + 2) + 1 := by omega
  rw [e2, List.append_nil, splitOn_sep]
  have e3 : b.length + c.length + 2 = (c.length + 2) + b.length := by omega
  rw [e3, splitOn_skip b _ [] _ hb, List.append_nil]
  have e4 : c.length + 2 = (c.length + 1) + 1 := by omega
  rw [e4, splitOn_sep]
  have e5 : c.length + 1 = 1 + c.length := by omega
  have := splitOn_skip c [] [] 1 hc
  simp only [List.append_nil] at this
  rw [e5, this]
  simp [splitOn]

/-! ### digits -/

theorem digitsVal_zeros (k : Nat) (ds : Bytes) : digitsVal (List.replicate k 48 ++ ds) = digitsVal ds := by
  unfold digitsVal
  rw [List.foldl_append]
  congr 1
  induction k with
  | zero => rfl
  | succ k ih => simp [List.replicate_succ, List.foldl_cons, ih]

theorem zpad_all_digit (w n : Nat) : (zpad w n).all isDigit = true := by
  unfold zpad
  rw [List.all_append]
  have := (natDigits_spec n).2.1
  simp [this, List.all_replicate]
  right; decide

theorem zpad_ne_nil (w n : Nat) : zpad w n ≠ [] := by
  obtain ⟨_, _, d, ds, h3, _⟩ := natDigits_spec n
  unfold zpad; rw [h3]; simp

theorem digit_not_sign (c : UInt8) (h : isDigit c = true) : c ≠ 45 ∧ c ≠ 43 := by
  constructor <;> (intro e; subst e; revert h; decide)

/-- `strconv.Atoi` on zero-padded digits -/
theorem atoi_zpad (w n : Nat) (hn : n ≤ 9223372036854775807) : atoi (zpad w n) = some (n : Int) := by
  have hall := zpad_all_digit w n
  have hne := zpad_ne_nil w n
  have hval : digitsVal (zpad w n) = n := by
    unfold zpad; rw [digitsVal_zeros]; exact (natDigits_spec n).1
  cases hz : zpad w n with
  | nil => exact absurd hz hne
  | cons c r =>
    rw [hz] at hall hval
    have hc : isDigit c = true := by simp only [List.all_cons, Bool.and_eq_true] at hall; exact hall.1
    obtain ⟨h45, h43⟩ := digit_not_sign c hc
    have he : (c :: r).isEmpty = false := rfl
    unfold atoi
    split
    rename_i x neg ds heq
    have hm : neg = false ∧ ds = c :: r := by
      split at heq
      · rename_i r' h; simp at h; exact absurd h.1 h45
      · rename_i r' h; simp at h; exact absurd h.1 h43
      · simp at heq; exact ⟨heq.1, heq.2.symm⟩
    obtain ⟨rfl, rfl⟩ := hm
    simp only [he, hall, Bool.false_or, Bool.not_true, Bool.false_eq_true, if_false, hval]
    rw [if_neg (by omega)]

theorem zpad_no_dash (w n : Nat) : ∀ x ∈ zpad w n, x ≠ 45 := by
  intro x hx
  have := List.all_eq_true.mp (zpad_all_digit w n) x hx
  exact (digit_not_sign x this).1

/-! ### months -/

theorem month_table : ∀ m : Fin 12,
    monthOf (monthAbbr.getD m.1 []) = some ((m.1 : Int) + 1) ∧ (∀ x ∈ monthAbbr.getD m.1 [], x ≠ 45) := by
  decide

/-- **Date round trip**: `AsDate` of the printed date is the date, for every valid calendar date
of the years 0..9999 -/
theorem date_roundtrip (d : Date) (h : d.valid = true) : asDate d.text = some d := by
  have hv := h
  simp only [Date.valid, decide_eq_true_eq] at hv
  obtain ⟨hy0, hy1, hm0, hm1, hd0, hd1⟩ := hv
  obtain ⟨mi, hmi⟩ : ∃ mi : Fin 12, (mi.1 : Int) + 1 = d.month := ⟨⟨(d.month - 1).toNat, by omega⟩, by
    simp only; omega⟩
  have hmt : d.month.toNat - 1 = mi.1 := by omega
  obtain ⟨hmon, hmd⟩ := month_table mi
  have hdd : daysIn d.year d.month ≤ 31 := by
    unfold daysIn; split <;> (try split) <;> omega
  have hday := atoi_zpad 2 d.day.toNat (by omega)
  have hyear := atoi_zpad 4 d.year.toNat (by omega)
  have e1 : ((d.day.toNat : Nat) : Int) = d.day := by omega
  have e2 : ((d.year.toNat : Nat) : Int) = d.year := by omega
  unfold asDate Date.text
  rw [if_pos h]
  have es : zpad 2 d.day.toNat ++ [45] ++ monthAbbr.getD (d.month.toNat - 1) [] ++ [45] ++ zpad 4 d.year.toNat =
      zpad 2 d.day.toNat ++ 45 :: (monthAbbr.getD mi.1 [] ++ 45 :: zpad 4 d.year.toNat) := by
    rw [hmt]; simp
  rw [es, split_three _ _ _ (zpad_no_dash _ _) hmd (zpad_no_dash _ _)]
  simp only [hday, hmon, hyear, e1, e2, hmi]
  rw [if_neg (by omega)]

end Gts.GenBank
