/-
  Helper lemmas for the FEATURE clause of `gts extract` (C15) on regions that reach across the origin
  of a circular record.

  `Segment{h, t}.Locate(seq)` hands its ends to `gts.Slice`, which adds the length to a negative end
  and, when the end then lies before the start, rotates the record by `-start` and cuts the forward
  window `[0, L - start + end)`.  With `lo = min h t`, `hi = max h t`, `L = |seq|` this is the window
  `lo + L … L, 0 … hi` of the circle exactly when

      -L ≤ lo < 0 ≤ hi < lo + L        (`wrapSeg`).

  (`hi ≥ lo + L`, a segment as long as the circle or longer, is NOT read like that: the slice is the
  forward one from `lo + L` to `hi`, see `Gts.C15.locate_long_wrap_differs`; an end above `L` is outside
  what `Slice` accepts.)

  * `wrapFeatLoc`, `wrap_slice_feats_perm`, `wrapFeatLoc_facts`: the feature table of the wrap-around
    slice with the location of every feature EXPLICIT (`C03.slice_wrap_feature_partial` says "there is a
    feature"; the steps behind it — `Complement`, `Reverse`, the `Expand(0, offset)` of `Concat` — need the
    location to state their K2 guards);
  * `wsegFeatLoc`, `wsegAbs`, `wsegPull`, `locate_wseg_feature`: a wrap-around SEGMENT, forward or backward;
  * `concat_part_feature`: a feature of one element of `gts.Concat(seqs...)`.
  Core Lean only (plus the property modules the files it imports already use).
-/
import Gts.Lemmas.CliExtractFeat
import Gts.Lemmas.CliSplitCirc
import Gts.Lemmas.RotateCompose
namespace Gts.Cli
open Gts Loc Reg

/-! ## `gts.Slice` with a negative start -/

theorem slice_neg_start (s : Seq) (a b : Int) (ha : a < 0) (haL : 0 ≤ a + s.len) (hb : 0 ≤ b) :
    s.slice a b = s.slice (a + s.len) b := by
  unfold Seq.slice
  simp only [ha, if_true, show ¬ b < 0 by omega, if_false, show ¬ (a + s.len < 0) by omega]

/-- both ends before the origin (and not before `-L`): the forward window shifted by `L` -/
theorem slice_neg_both (s : Seq) (a b : Int) (ha : a < 0) (haL : 0 ≤ a + s.len) (hb : b < 0)
    (hbL : 0 ≤ b + s.len) : s.slice a b = s.slice (a + s.len) (b + s.len) := by
  unfold Seq.slice
  simp only [ha, hb, if_true, show ¬ (a + s.len < 0) by omega, show ¬ (b + s.len < 0) by omega, if_false]

/-! ## the wrap-around slice, feature by feature -/

/-- the location the wrap-around `gts.Slice(seq, a, b)` (`0 ≤ b < a ≤ L`) gives a feature:
`gts.Rotate(seq, -a)` (`rotLoc`), then the forward slice `[0, L - a + b)` -/
def wrapFeatLoc (f : Feature) (a b L : Int) : Loc :=
  sliceFeatLoc { f with loc := rotLoc f.loc a L } 0 (L - a + b) L

theorem sliceFwd_eq_slice (r : Seq) (W : Int) (hW : 0 ≤ W) : Seq.sliceFwd r 0 W = r.slice 0 W := by
  unfold Seq.slice
  simp only [show ¬ (0 : Int) < 0 by omega, show ¬ W < 0 by omega, if_false]

/-- **the feature table of a wrap-around slice**: exactly the features whose ROTATED location overlaps
the window `[0, L - a + b)`, each at `wrapFeatLoc` (up to the order `FeatureSlice.Insert` gave the
rotated table) -/
theorem wrap_slice_feats_perm (s : Seq) (a b : Int) (hb : 0 ≤ b) (hba : b < a) (haL : a ≤ s.len) :
    (s.slice a b).feats.Perm
      ((s.feats.filter fun f => (rotLoc f.loc a s.len).overlap 0 (s.len - a + b)).map
        fun f => { f with loc := wrapFeatLoc f a b s.len }) := by
  have hL : 0 < s.len := by omega
  have hlen := Seq.rotate_len s (-a)
  rw [C03.slice_wrap_eq s a b (by omega) hb hba, sliceFwd_eq_slice _ _ (by omega),
    C03.slice_feats_fwd (s.rotate (-a)) 0 (s.len - a + b) (by omega) (by omega), hlen]
  have hp := C04.rotate_table_perm s (-a)
  refine ((hp.filter _).map _).trans (List.Perm.of_eq ?_)
  rw [List.filter_map, List.map_map]
  rfl

/-- the wrap-around window has `L - a + b` residues -/
theorem wrap_slice_len (s : Seq) (a b : Int) (hb : 0 ≤ b) (hba : b < a) (haL : a ≤ s.len) :
    (s.slice a b).len = s.len - a + b := by
  have h := C03.slice_bytes_wrap s a b hb hba haL
  unfold Seq.len at *
  rw [h]
  simp only [List.length_append, List.length_drop, List.length_take]
  omega

/-- **what `wrapFeatLoc` is**: well formed, inside the window, and — in the domain of the `Normalize`
law, K2 in none of the four steps (`cwinAbs`) — denoting the feature's residues inside the window
`a … L, 0 … b`, at their offset in the emitted record (`cwinMap`) -/
theorem wrapFeatLoc_facts (f : Feature) (a b L : Int) (hb : 0 ≤ b) (hba : b < a) (haL : a ≤ L)
    (hw : wf f.loc = true) (hnn : nonneg f.loc = true)
    (hpos : ∀ p ∈ den f.loc, 0 ≤ p.1 ∧ p.1 < L)
    (hok : normOk L (f.loc.expand 0 (C04.rotN (-a) L)) = true) :
    wf (wrapFeatLoc f a b L) = true ∧
    allLeaves (leafWithin (L - a + b)) (wrapFeatLoc f a b L) = true ∧
    (cwinAbs L f.loc (a, b) = false →
      den (wrapFeatLoc f a b L) ≼ filterMapPos (cwinMap L a b) (den f.loc)) := by
  have hL : 0 < L := by omega
  have hr : 0 ≤ C04.rotN (-a) L := by
    rw [C04.rotN_eq_emod _ _ hL]; exact Int.emod_nonneg _ (by omega)
  have hwf' : wf (rotLoc f.loc a L) = true :=
    (normalize_mod _ L hL ((expand_ins f.loc 0 _ hw hr).2) hok).2
  have hcw : allLeaves (leafWithin L) (rotLoc f.loc a L) = true := by
    rw [← coordsWithin_eq]
    exact C04.rotate_coords f.loc _ L hL hr hw hnn (ambOk_of_normOk L _ hok)
  obtain ⟨s1, s2, s3⟩ := sliceFeatLoc_facts { f with loc := rotLoc f.loc a L } 0 (L - a + b) L
    (Int.le_refl 0) (by omega) (by omega) hwf' hcw
  have e0 : L - a + b - 0 = L - a + b := by omega
  rw [e0] at s2
  refine ⟨s1, s2, ?_⟩
  intro hg
  simp only [cwinAbs, if_neg (show ¬ a ≤ b by omega), Bool.or_eq_false_iff] at hg
  obtain ⟨⟨⟨g1, g2⟩, g3⟩, g4⟩ := hg
  have hd' := C04.rotate_den_partial f.loc (C04.rotN (-a) L) L hL hr hw hnn hok g1 g2
  have e : mapPos (rotMap (C04.rotN (-a) L) L) (den f.loc) = mapPos (rotMap (-a) L) (den f.loc) := by
    rw [C04.rotN_eq_emod _ _ hL, C04.rotMap_emod]
  rw [e] at hd'
  have d1 := s3 g3 (by simpa using g4)
  have d2 := d1.trans (filterMapPos_refines _ hd')
  rw [wrap_remap_eq L a b hb hba haL _ hpos] at d2
  exact d2

/-! ## a wrap-around segment -/

/-- the segment `(h, t)` reads the window `lo + L … L, 0 … hi` of a circle of `L` residues
(`lo = min h t`, `hi = max h t`): decidable -/
def wrapSeg (L h t : Int) : Bool :=
  if t < h then decide (-L ≤ t) && decide (t < 0) && decide (0 ≤ h) && decide (h < t + L)
  else decide (-L ≤ h) && decide (h < 0) && decide (0 ≤ t) && decide (t < h + L)

/-- the location `Segment{h, t}.Locate(seq)` gives a feature when the segment wraps around the origin:
the wrap-around slice, and for a backward segment `Complement()` then `Reverse(h - t)` of it -/
def wsegFeatLoc (f : Feature) (h t L : Int) : Loc :=
  if t < h then ((wrapFeatLoc f (t + L) h L).complement).reverse (h - t) else wrapFeatLoc f (h + L) t L

/-- the `Overlap` filter of the slice inside `Segment{h, t}.Locate` when the segment wraps: it is put
to the ROTATED location -/
def wsegOverlap (f : Feature) (h t L : Int) : Bool :=
  if t < h then (rotLoc f.loc (t + L) L).overlap 0 (h - t)
  else (rotLoc f.loc (h + L) L).overlap 0 (t - h)

/-- the K2 guard of `wsegFeatLoc`: the four steps of the wrap-around slice (`cwinAbs`) and, backward
segment, the `Reverse` -/
def wsegAbs (f : Feature) (h t L : Int) : Bool :=
  if t < h then cwinAbs L f.loc (t + L, h) || reverseAbs ((wrapFeatLoc f (t + L) h L).complement) (h - t)
  else cwinAbs L f.loc (h + L, t)

/-- where the record extracted for the wrap-around segment `(h, t)` has input position `x` (`0 ≤ x < L`):
forward, the positions from `h + L` on first, then those before `t`; backward the mirror image -/
def wsegMap (L h t x : Int) : Option Int :=
  if t < h then (cwinMap L (t + L) h x).map fun y => h - t - 1 - y
  else cwinMap L (h + L) t x

/-- what a denotation of the input becomes in the record extracted for the wrap-around segment: the
residues inside the window, at their position there, in the same order; on a backward segment every
strand is flipped (and the order of the record is the reverse-complement's) -/
def wsegPull (L h t : Int) (d : List Pos) : List Pos :=
  d.filterMap fun p => (wsegMap L h t p.1).map fun y => (y, if t < h then !p.2 else p.2)

theorem wsegPull_fwd (L h t : Int) (hht : ¬ t < h) (d : List Pos) :
    wsegPull L h t d = filterMapPos (cwinMap L (h + L) t) d := by
  unfold wsegPull filterMapPos
  apply filterMap_congr'
  intro p _
  simp only [wsegMap, hht, if_false]

theorem wsegPull_bwd (L h t : Int) (hth : t < h) (d : List Pos) :
    wsegPull L h t d =
      (filterMapPos (cwinMap L (t + L) h) d).map fun p => (h - t - 1 - p.1, !p.2) := by
  unfold wsegPull filterMapPos
  rw [List.map_filterMap]
  apply filterMap_congr'
  intro p _
  simp only [wsegMap, hth, if_true]
  cases cwinMap L (t + L) h p.1 <;> rfl

/-- `Segment.Locate` on a wrap-around segment is the wrap-around slice (reverse-complemented for a
backward segment) -/
theorem locate_wseg (s : Seq) (h t : Int) (hws : wrapSeg s.len h t = true) :
    (seg h t).locate s =
      if t < h then (Seq.complement (s.slice (t + s.len) h)).reverse else s.slice (h + s.len) t := by
  unfold wrapSeg at hws
  by_cases hth : t < h
  · simp only [hth, if_true, Bool.and_eq_true, decide_eq_true_eq] at hws
    simp only [Reg.locate, hth, if_true]
    rw [slice_neg_start s t h hws.1.1.2 (by omega) hws.1.2]
  · simp only [hth, if_false, Bool.and_eq_true, decide_eq_true_eq] at hws
    simp only [Reg.locate, hth, if_false]
    rw [slice_neg_start s h t hws.1.1.2 (by omega) hws.1.2]

/-- it emits as many residues as the segment is long -/
theorem locate_wseg_len (s : Seq) (h t : Int) (hws : wrapSeg s.len h t = true) :
    ((seg h t).locate s).len = Reg.len (seg h t) := by
  rw [locate_wseg s h t hws]
  unfold wrapSeg at hws
  by_cases hth : t < h
  · simp only [hth, if_true, Bool.and_eq_true, decide_eq_true_eq] at hws
    simp only [hth, if_true]
    have h1 := wrap_slice_len s (t + s.len) h hws.1.2 (by omega) (by omega)
    have h2 : (Seq.complement (s.slice (t + s.len) h)).reverse.len = (s.slice (t + s.len) h).len := by
      simp [Seq.reverse, Seq.complement, Seq.len]
    rw [h2, h1]
    simp only [Reg.len, Reg.gabs]
    split <;> omega
  · simp only [hth, if_false, Bool.and_eq_true, decide_eq_true_eq] at hws
    simp only [hth, if_false]
    rw [wrap_slice_len s (h + s.len) t hws.1.2 (by omega) (by omega)]
    simp only [Reg.len, Reg.gabs]
    split <;> omega

/-- **`Segment.Locate` on a wrap-around segment, one feature** (forward or backward): a feature whose
rotated location overlaps the window is in the emitted record with unchanged key and qualifiers at
`wsegFeatLoc`, which is well formed, has its residue-bearing leaves at non-negative positions and —
unless K2 fires (`wsegAbs`) — denotes exactly the feature's residues inside the window, at their
position in the emitted record, on the strand relative to the segment (`wsegPull`) -/
theorem locate_wseg_feature (s : Seq) (h t : Int) (hws : wrapSeg s.len h t = true)
    (f : Feature) (hf : f ∈ s.feats) (hw : wf f.loc = true) (hnn : nonneg f.loc = true)
    (hpos : ∀ p ∈ den f.loc, 0 ≤ p.1 ∧ p.1 < s.len)
    (hok : normOk s.len (f.loc.expand 0 (C04.rotN (-((if t < h then t else h) + s.len)) s.len)) = true)
    (hov : wsegOverlap f h t s.len = true) :
    ({ f with loc := wsegFeatLoc f h t s.len } : Feature) ∈ ((seg h t).locate s).feats ∧
    wf (wsegFeatLoc f h t s.len) = true ∧ nonnegR (wsegFeatLoc f h t s.len) = true ∧
    (wsegAbs f h t s.len = false →
      den (wsegFeatLoc f h t s.len) ≼ wsegPull s.len h t (den f.loc)) := by
  rw [locate_wseg s h t hws]
  unfold wrapSeg at hws
  by_cases hth : t < h
  · simp only [hth, if_true, Bool.and_eq_true, decide_eq_true_eq] at hws hok
    simp only [wsegOverlap, hth, if_true] at hov
    obtain ⟨⟨⟨b1, b2⟩, b3⟩, b4⟩ := hws
    have hb : (0 : Int) ≤ h := b3
    have hba : h < t + s.len := b4
    have haL : t + s.len ≤ s.len := by omega
    have eW : s.len - (t + s.len) + h = h - t := by omega
    obtain ⟨s1, s2, s3⟩ := wrapFeatLoc_facts f (t + s.len) h s.len hb hba haL hw hnn hpos hok
    rw [eW] at s2
    -- the feature in the wrap-around slice
    have hm : ({ f with loc := wrapFeatLoc f (t + s.len) h s.len } : Feature) ∈ (s.slice (t + s.len) h).feats := by
      apply (wrap_slice_feats_perm s (t + s.len) h hb hba haL).symm.subset
      refine List.mem_map_of_mem ?_
      exact List.mem_filter.mpr ⟨hf, by rw [eW]; exact hov⟩
    -- complement, then reverse
    have hc : ({ f with loc := (wrapFeatLoc f (t + s.len) h s.len).complement } : Feature) ∈
        (Seq.complement (s.slice (t + s.len) h)).feats := by
      simp only [Seq.complement]
      exact List.mem_map_of_mem (f := fun g : Feature => { g with loc := g.loc.complement }) hm
    have hrl : (Seq.complement (s.slice (t + s.len) h)).len = h - t := by
      rw [complement_len, wrap_slice_len s (t + s.len) h hb hba haL]; omega
    have hrev := (reverse_feats_perm (Seq.complement (s.slice (t + s.len) h))).symm.subset
      (List.mem_map_of_mem (f := fun g : Feature =>
        { g with loc := g.loc.reverse (Seq.complement (s.slice (t + s.len) h)).len }) hc)
    rw [hrl] at hrev
    have hwc : wf (complement (wrapFeatLoc f (t + s.len) h s.len)) = true := by
      rw [Loc.wf_complement]; exact s1
    have hcc : allLeaves (leafWithin (h - t)) (complement (wrapFeatLoc f (t + s.len) h s.len)) = true := by
      rw [allLeaves_complement]; exact s2
    have hr := reverse_mirror (complement (wrapFeatLoc f (t + s.len) h s.len)) (h - t) hwc
    simp only [hth, if_true, wsegFeatLoc, wsegAbs]
    refine ⟨hrev, hr.2, reverse_nonnegR (h - t) _ hcc, ?_⟩
    intro hg
    simp only [Bool.or_eq_false_iff] at hg
    have d1 := hr.1 hg.2
    rw [den_complement'] at d1
    have e : ∀ d : List Pos, mirrorDen (h - t) (flipDen d) = d.map (fun p => (h - t - 1 - p.1, !p.2)) := by
      intro d
      simp [flipDen, mirrorDen, mapPos, mirrorMap, List.map_reverse, Function.comp_def]
    rw [e] at d1
    rw [wsegPull_bwd s.len h t hth]
    exact d1.trans ((s3 hg.1).map _)
  · simp only [hth, if_false, Bool.and_eq_true, decide_eq_true_eq] at hws hok
    simp only [wsegOverlap, hth, if_false] at hov
    obtain ⟨⟨⟨b1, b2⟩, b3⟩, b4⟩ := hws
    have hb : (0 : Int) ≤ t := b3
    have hba : t < h + s.len := b4
    have haL : h + s.len ≤ s.len := by omega
    have eW : s.len - (h + s.len) + t = t - h := by omega
    obtain ⟨s1, s2, s3⟩ := wrapFeatLoc_facts f (h + s.len) t s.len hb hba haL hw hnn hpos hok
    rw [eW] at s2
    have hm : ({ f with loc := wrapFeatLoc f (h + s.len) t s.len } : Feature) ∈ (s.slice (h + s.len) t).feats := by
      apply (wrap_slice_feats_perm s (h + s.len) t hb hba haL).symm.subset
      refine List.mem_map_of_mem ?_
      exact List.mem_filter.mpr ⟨hf, by rw [eW]; exact hov⟩
    simp only [hth, if_false, wsegFeatLoc, wsegAbs]
    refine ⟨hm, s1, nonnegR_of_within _ _ s2, ?_⟩
    intro hg
    rw [wsegPull_fwd s.len h t hth]
    exact s3 hg

/-! ## one element of `gts.Concat(seqs...)` -/

theorem foldl_concat2_feats_subset (bs : List Seq) (acc : Seq) :
    ∀ g ∈ acc.feats, g ∈ (bs.foldl Seq.concat2 acc).feats := by
  induction bs generalizing acc with
  | nil => intro g hg; exact hg
  | cons b bs ih =>
    intro g hg
    simp only [List.foldl_cons]
    apply ih
    exact (concat2_feats_perm acc b).symm.subset (List.mem_append_left _ hg)

theorem foldl_concat2_len (bs : List Seq) (acc : Seq) :
    (bs.foldl Seq.concat2 acc).len = acc.len + ((bs.map Seq.len).foldl (· + ·) 0) := by
  induction bs generalizing acc with
  | nil => simp
  | cons b bs ih =>
    simp only [List.foldl_cons, List.map_cons]
    rw [ih, concat2_len]
    have : ∀ (l : List Int) (k : Int), l.foldl (· + ·) k = k + l.foldl (· + ·) 0 := by
      intro l
      induction l with
      | nil => intro k; simp
      | cons x xs ihx => intro k; simp only [List.foldl_cons]; rw [ihx (k + x), ihx (0 + x)]; omega
    rw [this _ (0 + b.len)]
    omega

/-- **a feature of one element of `gts.Concat(pre..., x, post...)`**: when `x` is the first element it is
in the concatenation as it is; otherwise it is there re-located by `Expand(0, off)`, `off` the number of
residues of the elements in front -/
theorem concat_part_mem (pre post : List Seq) (x : Seq) (g : Feature) (hg : g ∈ x.feats) :
    (if pre = [] then g else { g with loc := g.loc.expand 0 (Seq.concat pre).len }) ∈
      (Seq.concat (pre ++ x :: post)).feats := by
  cases pre with
  | nil =>
    simp only [if_true, List.nil_append, Seq.concat]
    exact foldl_concat2_feats_subset post x g hg
  | cons p ps =>
    simp only [List.cons_ne_nil, if_false, List.cons_append, Seq.concat, List.foldl_append, List.foldl_cons]
    apply foldl_concat2_feats_subset
    apply (concat2_feats_perm _ x).symm.subset
    apply List.mem_append_right
    exact List.mem_map_of_mem (f := fun f : Feature => { f with loc := f.loc.expand 0 (ps.foldl Seq.concat2 p).len }) hg

/-- … and what it denotes: the element's residues, translated by the offset (K2 guard of that one
`Expand`) -/
theorem concat_part_feature (pre post : List Seq) (x : Seq) (g : Feature) (hg : g ∈ x.feats)
    (hw : wf g.loc = true) (hn : nonnegR g.loc = true)
    (ha : pre ≠ [] → expandAbs g.loc 0 (Seq.concat pre).len = false) :
    ∃ g' ∈ (Seq.concat (pre ++ x :: post)).feats, g'.key = g.key ∧ g'.props = g.props ∧
      den g'.loc ≼ mapPos (· + (Seq.concat pre).len) (den g.loc) := by
  refine ⟨_, concat_part_mem pre post x g hg, ?_, ?_, ?_⟩
  · split <;> rfl
  · split <;> rfl
  · by_cases hp : pre = []
    · subst hp
      simp only [if_true]
      have : (Seq.concat ([] : List Seq)).len = 0 := rfl
      rw [this]
      apply Refines.of_eq
      rw [mapPos_congr _ (fun x => x) _ (fun q _ => by simp), mapPos_id]
    · simp only [hp, if_false]
      have hk : 0 ≤ (Seq.concat pre).len := by unfold Seq.len; omega
      exact guest_translateR g.loc _ hw hn hk (ha hp)

end Gts.Cli
