/-
  Laws of the polymorphic table operations of Gts/Lemmas/PropsGen.lean (helpers of Gts/Props/C01Props.lean).
-/
import Gts.Lemmas.PropsGen
namespace Gts.PropsG
open Gts.Gen Gts.Gen.PropsGo

variable {σ : Type} [DecidableEq σ]

/-- under `rowsOk` the generated functions are total: what each returns -/
theorem gen_total (z : σ) (ps : List (List σ)) (k : σ) (vs : List σ) (ok : rowsOk ps = true) :
    propsSet z ps k vs = some (gset ps k vs) ∧ propsAdd z ps k vs = some (gadd ps k vs) ∧
      propsDel ps k = some (gdel ps k) ∧ propsGet ps k = some ((gget ps k).getD []) ∧
      propsItems z ps = some (gitems ps) ∧ propsHas ps k = some (gget ps k).isSome := by
  have hf := findO_rowsOk k ps ok
  rw [propsSet_eq, propsAdd_eq, propsDel_eq, propsGet_eq, propsItems_eq, propsHas_eq, itemsO_rowsOk ps ok]
  cases h : findO k ps with
  | none => exact absurd h hf
  | some r =>
    cases r with
    | none => simp [gget_noRow ps k (findO_absent k ps h)]
    | some j =>
      obtain ⟨a, t, b, e, _, hn, _⟩ := findO_found k ps j h
      subst e
      simp [gget_at a k t b hn]

theorem rowsOk_gset (ps : List (List σ)) (k : σ) (vs : List σ) (ok : rowsOk ps = true) : rowsOk (gset ps k vs) = true := by
  induction ps with
  | nil => simp [gset, rowsOk]
  | cons r a ih =>
    have ok' : rowsOk a = true := by simp [rowsOk] at ok ⊢; exact ok.2
    have hr : r.isEmpty = false := by simp [rowsOk] at ok; simpa using ok.1
    by_cases h : r.head? = some k
    · simp only [gset, h, if_true]; simp [rowsOk] at ok' ⊢; exact ok'
    · simp only [gset, h, if_false]; have := ih ok'; simp [rowsOk] at this ⊢; exact ⟨by simpa using hr, this⟩

theorem rowsOk_gadd (ps : List (List σ)) (k : σ) (vs : List σ) (ok : rowsOk ps = true) : rowsOk (gadd ps k vs) = true := by
  induction ps with
  | nil => simp [gadd, rowsOk]
  | cons r a ih =>
    have ok' : rowsOk a = true := by simp [rowsOk] at ok ⊢; exact ok.2
    have hr : r.isEmpty = false := by simp [rowsOk] at ok; simpa using ok.1
    by_cases h : r.head? = some k
    · simp only [gadd, h, if_true]; simp [rowsOk] at ok' ⊢
      exact ⟨fun e => by simp [e] at hr, ok'⟩
    · simp only [gadd, h, if_false]; have := ih ok'; simp [rowsOk] at this ⊢; exact ⟨by simpa using hr, this⟩

theorem rowsOk_gdel (ps : List (List σ)) (k : σ) (ok : rowsOk ps = true) : rowsOk (gdel ps k) = true := by
  induction ps with
  | nil => simp [gdel, rowsOk]
  | cons r a ih =>
    have ok' : rowsOk a = true := by simp [rowsOk] at ok ⊢; exact ok.2
    have hr : r.isEmpty = false := by simp [rowsOk] at ok; simpa using ok.1
    by_cases h : r.head? = some k
    · simp only [gdel, h, if_true]; exact ok'
    · simp only [gdel, h, if_false]; have := ih ok'; simp [rowsOk] at this ⊢; exact ⟨by simpa using hr, this⟩

theorem gget_gset (ps : List (List σ)) (k : σ) (vs : List σ) : gget (gset ps k vs) k = some vs := by
  induction ps with
  | nil => simp [gset, gget]
  | cons r a ih => by_cases h : r.head? = some k <;> simp [gset, gget, h, ih]

theorem gget_gadd (ps : List (List σ)) (k : σ) (vs : List σ) (ok : rowsOk ps = true) :
    gget (gadd ps k vs) k = some ((gget ps k).getD [] ++ vs) := by
  induction ps with
  | nil => simp [gadd, gget]
  | cons r a ih =>
    have ok' : rowsOk a = true := by simp [rowsOk] at ok ⊢; exact ok.2
    by_cases h : r.head? = some k
    · cases r with
      | nil => simp at h
      | cons x t => simp at h; simp [gadd, gget, h]
    · simp [gadd, gget, h, ih ok']

theorem gget_gset_other (ps : List (List σ)) (k k' : σ) (vs : List σ) (hne : k' ≠ k) :
    gget (gset ps k vs) k' = gget ps k' := by
  induction ps with
  | nil => simp [gset, gget, Ne.symm hne]
  | cons r a ih =>
    by_cases h : r.head? = some k
    · have h' : r.head? ≠ some k' := by rw [h]; simpa using Ne.symm hne
      simp [gset, gget, h, Ne.symm hne]
    · simp [gset, gget, h, ih]

theorem gget_gadd_other (ps : List (List σ)) (k k' : σ) (vs : List σ) (hne : k' ≠ k) :
    gget (gadd ps k vs) k' = gget ps k' := by
  induction ps with
  | nil => simp [gadd, gget, Ne.symm hne]
  | cons r a ih =>
    by_cases h : r.head? = some k
    · have h' : r.head? ≠ some k' := by rw [h]; simpa using Ne.symm hne
      cases r with
      | nil => simp at h
      | cons x t => simp at h h'; simp [gadd, gget, h, Ne.symm hne]
    · simp [gadd, gget, h, ih]

theorem gget_gdel_other (ps : List (List σ)) (k k' : σ) (hne : k' ≠ k) :
    gget (gdel ps k) k' = gget ps k' := by
  induction ps with
  | nil => simp [gdel, gget]
  | cons r a ih =>
    by_cases h : r.head? = some k
    · have h' : r.head? ≠ some k' := by rw [h]; simpa using Ne.symm hne
      simp [gdel, gget, h, Ne.symm hne]
    · simp [gdel, gget, h, ih]

omit [DecidableEq σ] in
theorem gitems_append (a b : List (List σ)) : gitems (a ++ b) = gitems a ++ gitems b := by
  induction a with
  | nil => rfl
  | cons r a ih => cases r <;> simp [gitems, ih]

omit [DecidableEq σ] in
theorem rowsOk_append (a b : List (List σ)) : rowsOk (a ++ b) = (rowsOk a && rowsOk b) := by
  simp [rowsOk]

end Gts.PropsG
