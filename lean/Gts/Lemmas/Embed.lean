/-
  `Location.Expand(i, n)` with `n ≥ 0` (Embed): like Insert, except that a part spanning `i`
  is extended over the guest.  `stripGuest` removes the guest residues `[i, i+n)`.
  Also: for guest features (`Expand(0, k)` on non-negative coordinates) Expand = Shift.
  Core Lean only.
-/
import Gts.Lemmas.Shift
namespace Gts

/-- drop the residues of the guest `[i, i+n)` -/
def stripGuest (i n : Int) (d : List Pos) : List Pos :=
  d.filter fun p => decide (p.1 < i ∨ i + n ≤ p.1)

theorem Refines.filter {a b : List Pos} (q : Pos → Bool) (h : a ≼ b) : a.filter q ≼ b.filter q := by
  refine ⟨h.1.filter q, ?_⟩
  intro x hx
  rw [List.mem_filter] at hx ⊢
  exact ⟨h.2 x hx.1, hx.2⟩

@[simp] theorem stripGuest_append (i n : Int) (a b : List Pos) :
    stripGuest i n (a ++ b) = stripGuest i n a ++ stripGuest i n b := by simp [stripGuest]

@[simp] theorem stripGuest_nil (i n : Int) : stripGuest i n [] = [] := rfl

theorem stripGuest_flipDen (i n : Int) (a : List Pos) :
    stripGuest i n (flipDen a) = flipDen (stripGuest i n a) := by
  simp only [stripGuest, flipDen, List.filter_map, List.filter_reverse]
  congr 1

theorem stripGuest_fwd (i n : Int) (xs : List Int) :
    stripGuest i n (fwd xs) = fwd (xs.filter fun x => decide (x < i ∨ i + n ≤ x)) := by
  simp only [stripGuest, fwd, List.filter_map]
  congr 1

namespace Loc

/-- Embed on an interval: the host residues keep their re-mapped positions -/
theorem filter_embed_irange (s e i n : Int) (h : s < e) (hn : 0 < n) :
    (irange (if i ≤ s then s + n else s) ((if i < e then e + n else e) - (if i ≤ s then s + n else s)).toNat).filter
        (fun x => decide (x < i ∨ i + n ≤ x))
      = (irange s (e - s).toNat).map (insMap i n) := by
  apply sorted_ext ((irange_pairwise _ _).sublist List.filter_sublist)
    (insMap_irange_pairwise i n (by omega) _ _)
  intro x
  rw [List.mem_filter, mem_irange, mem_map_insMap]
  simp only [decide_eq_true_eq]
  constructor
  · rintro ⟨⟨h1, h2⟩, h3⟩
    by_cases hx : x < i
    · refine ⟨x, ?_, ?_, by unfold insMap; rw [if_pos hx]⟩
      · revert h1; split <;> omega
      · revert h1 h2; split <;> split <;> omega
    · refine ⟨x - n, ?_, ?_, by unfold insMap; rw [if_neg (by omega)]; omega⟩
      · revert h1; split <;> omega
      · revert h1 h2; split <;> split <;> omega
  · rintro ⟨a, h1, h2, rfl⟩
    unfold insMap
    split <;> split <;> split <;> omega

theorem rangedExpand_ins_eq (s e : Int) (p5 p3 : Bool) (i n : Int) (h : s < e) (hn : 0 < n) :
    rangedExpand s e p5 p3 i n =
      ranged (if i ≤ s then s + n else s) (if i < e then e + n else e) p5 p3 := by
  unfold rangedExpand
  rw [if_neg (by omega)]
  simp only [gmax_eq_max]
  have e1 : (0 ≤ n ∧ i ≤ s ∨ n < 0 ∧ i < s) ↔ i ≤ s := by constructor <;> intro h <;> omega
  have e2 : (0 ≤ n ∧ i < e ∨ n < 0 ∧ i ≤ e) ↔ i < e := by constructor <;> intro h <;> omega
  have e3 : ¬ (n < 0 ∧ i ≤ s ∧ s < i - n) := by omega
  have e4 : ¬ (n < 0 ∧ i < e ∧ e ≤ i - n) := by omega
  simp only [e1, e2, e3, e4, if_false]
  have hne : ¬ ((if i ≤ s then max i (s + n) else s) = (if i < e then max i (e + n) else e)) := by
    split <;> split <;> omega
  rw [if_neg hne]
  congr 1
  · split <;> omega
  · split <;> omega

theorem ambiguousExpand_ins_eq (s e i n : Int) (h : s < e) (hn : 0 < n) :
    ambiguousExpand s e i n =
      ambiguous (if i ≤ s then s + n else s) (if i < e then e + n else e) := by
  unfold ambiguousExpand
  rw [if_neg (by omega)]
  simp only [gmax_eq_max]
  have e1 : (0 ≤ n ∧ i ≤ s ∨ n < 0 ∧ i < s) ↔ i ≤ s := by constructor <;> intro h <;> omega
  have e2 : (0 ≤ n ∧ i < e ∨ n < 0 ∧ i ≤ e) ↔ i < e := by constructor <;> intro h <;> omega
  simp only [e1, e2]
  have hne : ¬ ((if i ≤ s then max i (s + n) else s) = (if i < e then max i (e + n) else e)) := by
    split <;> split <;> omega
  rw [if_neg hne]
  congr 1
  · split <;> omega
  · split <;> omega

theorem stripGuest_id_irange (s i : Int) (m : Nat) :
    (irange s m).filter (fun x => decide (x < i ∨ i + 0 ≤ x)) = irange s m := by
  apply List.filter_eq_self.mpr
  intro a _
  simp only [decide_eq_true_eq]; omega

theorem embed_ranged (s e : Int) (p5 p3 : Bool) (i n : Int) (h : s < e) (hn : 0 ≤ n) :
    stripGuest i n (den (rangedExpand s e p5 p3 i n)) = mapPos (insMap i n) (den (ranged s e p5 p3)) ∧
    wf (rangedExpand s e p5 p3 i n) = true := by
  by_cases h0 : n = 0
  · subst h0
    have : rangedExpand s e p5 p3 i 0 = ranged s e p5 p3 := by simp [rangedExpand]
    rw [this]
    refine ⟨?_, by simpa [wf] using h⟩
    simp only [den_ranged, stripGuest_fwd, mapPos_fwd, stripGuest_id_irange]
    congr 1
    have := irange_map_of_eq s 0 (e - s).toNat (insMap i 0) (fun x _ _ => by unfold insMap; split <;> omega)
    simpa using this.symm
  · have hn' : 0 < n := by omega
    rw [rangedExpand_ins_eq s e p5 p3 i n h hn']
    refine ⟨?_, ?_⟩
    · simp only [den_ranged, stripGuest_fwd, mapPos_fwd]
      congr 1
      exact filter_embed_irange s e i n h hn'
    · simp only [wf, decide_eq_true_eq]; split <;> split <;> omega

theorem embed_ambiguous (s e i n : Int) (h : s < e) (hn : 0 ≤ n) :
    stripGuest i n (den (ambiguousExpand s e i n)) = mapPos (insMap i n) (den (ambiguous s e)) ∧
    wf (ambiguousExpand s e i n) = true := by
  by_cases h0 : n = 0
  · subst h0
    have : ambiguousExpand s e i 0 = ambiguous s e := by simp [ambiguousExpand]
    rw [this]
    refine ⟨?_, by simpa [wf] using h⟩
    simp only [den_ambiguous, stripGuest_fwd, mapPos_fwd, stripGuest_id_irange]
    congr 1
    have := irange_map_of_eq s 0 (e - s).toNat (insMap i 0) (fun x _ _ => by unfold insMap; split <;> omega)
    simpa using this.symm
  · have hn' : 0 < n := by omega
    rw [ambiguousExpand_ins_eq s e i n h hn']
    refine ⟨?_, ?_⟩
    · simp only [den_ambiguous, stripGuest_fwd, mapPos_fwd]
      congr 1
      exact filter_embed_irange s e i n h hn'
    · simp only [wf, decide_eq_true_eq]; split <;> split <;> omega

theorem embed_point (p i n : Int) (hn : 0 ≤ n) :
    stripGuest i n (den (pointExpand p i n)) = mapPos (insMap i n) (den (point p)) := by
  rw [den_pointExpand_ins p i n hn]
  simp only [den_point, mapPos, List.map_cons, List.map_nil, stripGuest, insMap]
  apply List.filter_eq_self.mpr
  intro a ha
  simp only [List.mem_singleton] at ha
  subst ha
  simp only [decide_eq_true_eq]
  split <;> omega

mutual
/-- Embed: identical to Insert on the host's residues (a spanning part additionally covers the
guest), unless K2 fires. -/
theorem expand_ins : ∀ (l : Loc) (i n : Int), wf l = true → 0 ≤ n →
    (expandAbs l i n = false →
      stripGuest i n (den (expand l i n)) ≼ mapPos (insMap i n) (den l)) ∧
    wf (expand l i n) = true
  | between p, i, n, _, _ => by simp [expand, den_betweenExpand, wf_betweenExpand, Refines.refl]
  | point p, i, n, _, hn => by
      simp only [expand, wf_pointExpand, and_true]
      intro _; exact Refines.of_eq (embed_point p i n hn)
  | ranged s e a b, i, n, hw, hn => by
      have h : s < e := by simpa [wf] using hw
      have := embed_ranged s e a b i n h hn
      simp only [expand, this.2, and_true]
      intro _; exact Refines.of_eq this.1
  | ambiguous s e, i, n, hw, hn => by
      have h : s < e := by simpa [wf] using hw
      have := embed_ambiguous s e i n h hn
      simp only [expand, this.2, and_true]
      intro _; exact Refines.of_eq this.1
  | joined ls, i, n, hw, hn => by
      have ih := expandList_ins ls i n (by simpa [wf] using hw) hn
      refine ⟨?_, join_wf _ ih.2⟩
      intro ha
      simp only [expandAbs, Bool.or_eq_false_iff] at ha
      simp only [expand, den_joined]
      exact ((join_den _ ih.2 ha.2).filter _).trans (ih.1 ha.1)
  | ordered ls, i, n, hw, hn => by
      have ih := expandList_ins ls i n (by simpa [wf] using hw) hn
      refine ⟨?_, order_wf _ ih.2⟩
      intro ha
      simp only [expandAbs] at ha
      simp only [expand, den_ordered, order_den]
      exact ih.1 ha
  | compl l, i, n, hw, hn => by
      have ih := expand_ins l i n (by simpa [wf] using hw) hn
      refine ⟨?_, by simpa [expand, wf] using ih.2⟩
      intro ha
      simp only [expandAbs] at ha
      simp only [expand, den_compl, mapPos_flipDen, stripGuest_flipDen]
      exact (ih.1 ha).flip
theorem expandList_ins : ∀ (ls : List Loc) (i n : Int), wfList ls = true → 0 ≤ n →
    (expandAbsList ls i n = false →
      stripGuest i n (denList (expandList ls i n)) ≼ mapPos (insMap i n) (denList ls)) ∧
    wfList (expandList ls i n) = true
  | [], _, _, _, _ => by simp [expandList, Refines.refl]
  | l :: ls, i, n, hw, hn => by
      simp only [wfList_cons, Bool.and_eq_true] at hw
      have h1 := expand_ins l i n hw.1 hn
      have h2 := expandList_ins ls i n hw.2 hn
      refine ⟨?_, by simp [expandList, h1.2, h2.2]⟩
      intro ha
      simp only [expandAbsList, Bool.or_eq_false_iff] at ha
      simp only [expandList, denList_cons, mapPos_append, stripGuest_append]
      exact (h1.1 ha.1).append (h2.1 ha.2)
end

end Loc
end Gts
