/-
  Helper lemmas: `irange`, `Refines` (≼), `flipDen`, position maps.  Core Lean only.
-/
import Gts.Spec.Den
namespace Gts

/-! ### irange -/

@[simp] theorem irange_zero (s : Int) : irange s 0 = [] := rfl
@[simp] theorem irange_succ (s : Int) (n : Nat) : irange s (n + 1) = s :: irange (s + 1) n := rfl

@[simp] theorem length_irange (s : Int) (n : Nat) : (irange s n).length = n := by
  induction n generalizing s with
  | zero => rfl
  | succ n ih => simp [ih]

theorem mem_irange {s : Int} {n : Nat} {x : Int} : x ∈ irange s n ↔ s ≤ x ∧ x < s + n := by
  induction n generalizing s with
  | zero => simp
  | succ n ih => simp [ih]; omega

theorem irange_append (s : Int) (a b : Nat) : irange s a ++ irange (s + a) b = irange s (a + b) := by
  induction a generalizing s with
  | zero => simp
  | succ a ih =>
    have : s + 1 + (a : Int) = s + ((a + 1 : Nat) : Int) := by omega
    rw [show a + 1 + b = (a + b) + 1 by omega]
    simp only [irange_succ, List.cons_append]
    rw [← this, ih]

theorem irange_map_add (s k : Int) (n : Nat) : (irange s n).map (· + k) = irange (s + k) n := by
  induction n generalizing s with
  | zero => rfl
  | succ n ih =>
    simp only [irange_succ, List.map_cons, ih]
    congr 2; omega

/-- `map` with a function that is a translation on the whole range -/
theorem irange_map_of_eq (s k : Int) (n : Nat) (f : Int → Int)
    (h : ∀ x, s ≤ x → x < s + n → f x = x + k) : (irange s n).map f = irange (s + k) n := by
  rw [← irange_map_add]
  apply List.map_congr_left
  intro x hx
  rw [mem_irange] at hx
  exact h x hx.1 hx.2

/-! ### Refines -/

theorem Refines.refl (a : List Pos) : a ≼ a := ⟨List.Sublist.refl a, fun _ h => h⟩

theorem Refines.of_eq {a b : List Pos} (h : a = b) : a ≼ b := h ▸ Refines.refl a

theorem Refines.trans {a b c : List Pos} (h₁ : a ≼ b) (h₂ : b ≼ c) : a ≼ c :=
  ⟨h₁.1.trans h₂.1, fun x hx => h₁.2 x (h₂.2 x hx)⟩

theorem Refines.append {a b c d : List Pos} (h₁ : a ≼ b) (h₂ : c ≼ d) : (a ++ c) ≼ (b ++ d) := by
  refine ⟨h₁.1.append h₂.1, ?_⟩
  intro x hx
  rcases List.mem_append.mp hx with h | h
  · exact List.mem_append.mpr (Or.inl (h₁.2 x h))
  · exact List.mem_append.mpr (Or.inr (h₂.2 x h))

theorem Refines.append_left {c d : List Pos} (a : List Pos) (h : c ≼ d) : (a ++ c) ≼ (a ++ d) :=
  (Refines.refl a).append h

theorem Refines.append_right {a b : List Pos} (c : List Pos) (h : a ≼ b) : (a ++ c) ≼ (b ++ c) :=
  h.append (Refines.refl c)

theorem Refines.map {a b : List Pos} (f : Pos → Pos) (h : a ≼ b) : (a.map f) ≼ (b.map f) := by
  refine ⟨h.1.map f, ?_⟩
  intro x hx
  rcases List.mem_map.mp hx with ⟨y, hy, rfl⟩
  exact List.mem_map.mpr ⟨y, h.2 y hy, rfl⟩

theorem Refines.filterMap {a b : List Pos} (f : Pos → Option Pos) (h : a ≼ b) :
    (a.filterMap f) ≼ (b.filterMap f) := by
  refine ⟨h.1.filterMap f, ?_⟩
  intro x hx
  rcases List.mem_filterMap.mp hx with ⟨y, hy, hf⟩
  exact List.mem_filterMap.mpr ⟨y, h.2 y hy, hf⟩

theorem Refines.reverse {a b : List Pos} (h : a ≼ b) : a.reverse ≼ b.reverse := by
  refine ⟨h.1.reverse, ?_⟩
  intro x hx
  exact List.mem_reverse.mpr (h.2 x (List.mem_reverse.mp hx))

theorem Refines.flip {a b : List Pos} (h : a ≼ b) : flipDen a ≼ flipDen b :=
  (h.reverse).map _

/-- dropping an element that occurs again later -/
theorem Refines.drop_dup_left (x : Pos) (l : List Pos) (h : x ∈ l) : l ≼ (x :: l) :=
  ⟨List.sublist_cons_self x l, fun y hy => by
    rcases List.mem_cons.mp hy with rfl | hy
    · exact h
    · exact hy⟩

theorem Refines.nil_iff {b : List Pos} : ([] : List Pos) ≼ b ↔ b = [] := by
  constructor
  · intro h
    cases b with
    | nil => rfl
    | cons x xs => exact absurd (h.2 x (List.mem_cons_self ..)) (by simp)
  · rintro rfl; exact Refines.refl _

/-- with a duplicate-free right-hand side, `≼` is equality -/
theorem Refines.eq_of_nodup {a b : List Pos} (h : a ≼ b) (hb : b.Nodup) : a = b := by
  have hperm : a.Perm b := by
    have ha : a.Nodup := hb.sublist h.1
    exact (List.perm_ext_iff_of_nodup ha hb).mpr fun x => ⟨fun hx => h.1.subset hx, h.2 x⟩
  exact h.1.eq_of_length (hperm.length_eq)

/-! ### flipDen -/

@[simp] theorem flipDen_nil : flipDen [] = [] := rfl

theorem flipDen_append (a b : List Pos) : flipDen (a ++ b) = flipDen b ++ flipDen a := by
  simp [flipDen, List.reverse_append]

theorem flipDen_flipDen (a : List Pos) : flipDen (flipDen a) = a := by
  simp [flipDen, List.map_reverse, Function.comp_def]

theorem mapPos_flipDen (f : Int → Int) (a : List Pos) : mapPos f (flipDen a) = flipDen (mapPos f a) := by
  simp [mapPos, flipDen, List.map_reverse, Function.comp_def]

theorem filterMapPos_flipDen (f : Int → Option Int) (a : List Pos) :
    filterMapPos f (flipDen a) = flipDen (filterMapPos f a) := by
  induction a with
  | nil => rfl
  | cons p ps ih =>
    have h1 : flipDen (p :: ps) = flipDen ps ++ [(p.1, !p.2)] := by simp [flipDen]
    rw [h1]
    simp only [filterMapPos, List.filterMap_append, List.filterMap_cons, List.filterMap_nil] at *
    rw [ih]
    cases hf : f p.1 <;> simp [flipDen]

@[simp] theorem mapPos_append (f : Int → Int) (a b : List Pos) :
    mapPos f (a ++ b) = mapPos f a ++ mapPos f b := by simp [mapPos]

@[simp] theorem filterMapPos_append (f : Int → Option Int) (a b : List Pos) :
    filterMapPos f (a ++ b) = filterMapPos f a ++ filterMapPos f b := by simp [filterMapPos]

@[simp] theorem mapPos_nil (f : Int → Int) : mapPos f [] = [] := rfl
@[simp] theorem filterMapPos_nil (f : Int → Option Int) : filterMapPos f [] = [] := rfl

theorem mapPos_fwd (f : Int → Int) (xs : List Int) : mapPos f (fwd xs) = fwd (xs.map f) := by
  simp [mapPos, fwd, Function.comp_def]

theorem fwd_append (a b : List Int) : fwd (a ++ b) = fwd a ++ fwd b := by simp [fwd]

end Gts
