/-
  C01 helper lemmas: `Props` — the items `INSDCFormatter` writes (`Props.Keys` × `Props.Get`) fed
  back through `Props.Add` rebuild the `Props`, when every row has a name and at least one value
  and the names are pairwise distinct (`propsNorm`).  Core Lean only.
-/
import Gts.Lemmas.GbFeatures
namespace Gts.GenBank
open Gts.Pars

/-- pairwise distinct -/
def distinctB : List Bytes → Bool
  | [] => true
  | x :: xs => !xs.contains x && distinctB xs

/-- every row is `name :: value :: …` and the names are pairwise distinct — what `Props.Add`
builds -/
def propsNorm (ps : List (List Bytes)) : Bool :=
  ps.all (fun row => decide (2 ≤ row.length)) && distinctB (ps.map fun row => row.headD [])

/-- the items of one row -/
def rowItems (row : List Bytes) : List (Bytes × Bytes) :=
  match row with
  | [] => []
  | key :: vs => vs.map fun v => (key, v)

/-- with distinct names `Props.Get(name)` is the row's own values -/
theorem propsGet_row (pre post : List (List Bytes)) (key : Bytes) (vs : List Bytes)
    (hpre : ∀ r ∈ pre, r.head? ≠ some key) :
    propsGet (pre ++ (key :: vs) :: post) key = vs := by
  induction pre with
  | nil => simp [propsGet]
  | cons r pre ih =>
    have hr := hpre r (by simp)
    have hdec : decide (r.head? = some key) = false := by simpa using hr
    simp only [propsGet, List.cons_append, List.find?_cons, hdec] at ih ⊢
    exact ih (fun x hx => hpre x (by simp [hx]))

theorem distinct_heads (pre : List (List Bytes)) (row : List Bytes) (post : List (List Bytes)) (key : Bytes)
    (vs : List Bytes) (hrow : row = key :: vs)
    (hd : distinctB ((pre ++ row :: post).map fun r => r.headD []) = true)
    (hne : ∀ r ∈ pre, r ≠ []) : ∀ r ∈ pre, r.head? ≠ some key := by
  induction pre with
  | nil => intro r hr; simp at hr
  | cons p pre ih =>
    simp only [List.cons_append, List.map_cons, distinctB, Bool.and_eq_true, Bool.not_eq_true'] at hd
    intro r hr
    rcases List.mem_cons.mp hr with rfl | hr
    · intro hh
      have hmem : (r.headD []) ∈ (pre ++ row :: post).map fun r => r.headD [] := by
        apply List.mem_map.mpr
        refine ⟨row, by simp, ?_⟩
        cases r with
        | nil => exact absurd rfl (hne [] (by simp))
        | cons a b => simp at hh; simp [hrow, hh]
      have := List.contains_iff_mem.mpr hmem
      rw [this] at hd; exact absurd hd.1 (by simp)
    · exact ih hd.2 (fun x hx => hne x (by simp [hx])) r hr

/-- the written items are the rows' own items, row by row (repo 7b61a9a) -/
theorem propsItems_eq (ps : List (List Bytes)) : propsItems ps = ps.flatMap rowItems := by
  unfold propsItems
  congr 1

theorem propsItems_rows (ps : List (List Bytes)) (_h : propsNorm ps = true) :
    propsItems ps = ps.flatMap rowItems := propsItems_eq ps

/-! ### `Props.Add` rebuilds the rows -/

theorem propsAdd_new (acc : List (List Bytes)) (key v : Bytes) (h : ∀ r ∈ acc, r.head? ≠ some key) :
    propsAdd acc key v = acc ++ [[key, v]] := by
  induction acc with
  | nil => rfl
  | cons r acc ih =>
    have hr := h r (by simp)
    simp only [propsAdd, List.cons_append]
    rw [if_neg hr, ih (fun x hx => h x (by simp [hx]))]

theorem propsAdd_last (acc : List (List Bytes)) (key v : Bytes) (ws : List Bytes)
    (h : ∀ r ∈ acc, r.head? ≠ some key) :
    propsAdd (acc ++ [key :: ws]) key v = acc ++ [key :: ws ++ [v]] := by
  induction acc with
  | nil => simp [propsAdd]
  | cons r acc ih =>
    have hr := h r (by simp)
    simp only [propsAdd, List.cons_append]
    rw [if_neg hr]
    have := ih (fun x hx => h x (by simp [hx]))
    simp only [List.cons_append] at this
    rw [this]

theorem fold_row_tail (acc : List (List Bytes)) (key : Bytes) (ws vs : List Bytes)
    (h : ∀ r ∈ acc, r.head? ≠ some key) :
    (vs.map fun v => (key, v)).foldl (fun ps q => propsAdd ps q.1 q.2) (acc ++ [key :: ws]) =
      acc ++ [key :: ws ++ vs] := by
  induction vs generalizing ws with
  | nil => simp
  | cons v vs ih =>
    simp only [List.map_cons, List.foldl_cons]
    rw [propsAdd_last acc key v ws h]
    have := ih (ws ++ [v])
    simp only [List.cons_append, List.append_assoc, List.singleton_append] at this ⊢
    exact this

theorem fold_rows (rows acc : List (List Bytes))
    (hlen : ∀ r ∈ rows, 2 ≤ r.length)
    (hd : distinctB ((acc ++ rows).map fun r => r.headD []) = true) (hacc : ∀ r ∈ acc, r ≠ []) :
    (rows.flatMap rowItems).foldl (fun ps q => propsAdd ps q.1 q.2) acc = acc ++ rows := by
  induction rows generalizing acc with
  | nil => simp
  | cons row rows ih =>
    have h2 := hlen row (by simp)
    match row, h2 with
    | key :: v :: vs, _ =>
      have hpre := distinct_heads acc (key :: v :: vs) rows key (v :: vs) rfl hd hacc
      simp only [List.flatMap_cons, rowItems, List.map_cons, List.foldl_append, List.foldl_cons]
      rw [propsAdd_new acc key v hpre]
      have := fold_row_tail acc key [v] vs hpre
      simp only [List.cons_append, List.nil_append] at this
      rw [this]
      have := ih (acc ++ [key :: v :: vs]) (fun r hr => hlen r (by simp [hr]))
        (by simpa [List.append_assoc] using hd)
        (by
          intro r hr
          rcases List.mem_append.mp hr with h | h
          · exact hacc r h
          · simp at h; subst h; simp)
      simpa [List.append_assoc] using this

/-- **Props round trip**: the written items, added back one by one, give the same `Props` -/
theorem propsOfItems_propsItems (ps : List (List Bytes)) (h : propsNorm ps = true) :
    propsOfItems (propsItems ps) = ps := by
  rw [propsItems_rows ps h]
  simp only [propsNorm, Bool.and_eq_true, List.all_eq_true, decide_eq_true_eq] at h
  have := fold_rows ps [] h.1 (by simpa using h.2) (by simp)
  simpa [propsOfItems] using this

end Gts.GenBank

namespace Gts.GenBank
open Gts.Pars

/-- on its domain a feature reads back as itself: every written item keeps its value, and the
items rebuild the `Props` -/
theorem readFeature_eq (reg : Registry) (f : QFeature) (h1 : featOk reg f = true) (h2 : propsNorm f.props = true) :
    readFeature reg f = f := by
  simp only [featOk, Bool.and_eq_true, List.all_eq_true] at h1
  have hi : readItems reg f.props = propsItems f.props := by
    unfold readItems
    have : ∀ kv ∈ propsItems f.props, (kv.1, readValue reg kv.1 kv.2) = kv := by
      intro kv hkv
      rw [readValue_eq reg 21 kv.1 kv.2 (h1.2 kv hkv)]
    exact (List.map_congr_left this).trans (List.map_id _)
  obtain ⟨k, l, ps⟩ := f
  simp only [readFeature, hi]
  simp only at h2
  rw [propsOfItems_propsItems ps h2]

/-- the table domain under which the table reads back as itself: `tableWritable`, and every
feature's `Props` is what `Props.Add` builds (`propsNorm`) -/
def tableFaithful (reg : Registry) (fs : List QFeature) : Bool :=
  tableWritable reg fs && fs.all fun f => propsNorm f.props

theorem readTable_eq (reg : Registry) (fs : List QFeature) (h : tableFaithful reg fs = true) :
    fs.map (readFeature reg) = fs := by
  simp only [tableFaithful, tableWritable, Bool.and_eq_true, List.all_eq_true] at h
  have : ∀ f ∈ fs, readFeature reg f = f := fun f hf => readFeature_eq reg f (h.1 f hf).1 (h.2 f hf)
  exact (List.map_congr_left this).trans (List.map_id _)

end Gts.GenBank
