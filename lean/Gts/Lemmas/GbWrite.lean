/-
  C01 helper lemmas: the text `GenBank.String` writes, as LOCUS line + sections + `//`.
  Core Lean only.
-/
import Gts.Lemmas.GbRecord
namespace Gts.GenBank
open Gts.Pars

/-- the ACCESSION line `GenBank.String` writes: accession, and ` REGION: a..b` for a sliced record -/
def accessionLine (f : Fields) : Bytes :=
  f.accession ++ match f.region with
    | none => []
    | some (h, t) => if t ≤ h then [] else bs " REGION: " ++ itoaB (h + 1) ++ bs ".." ++ itoaB t

/-- the header sections in the order of `GenBank.String` -/
def headerSecs (f : Fields) : List Section :=
  [secDefinition f.definition, secAccession (accessionLine f), secVersion f.version] ++
  (match f.dblink with | [] => [] | p :: ps => [secDblink p ps]) ++
  [secKeywords f.keywords, secSource f.species f.organism f.taxon] ++
  f.references.map secReference ++ f.comments.map secComment ++
  f.extra.map fun e => secExtra e.1 e.2

theorem referencesText_eq (rs : List Reference) (h : ∀ x ∈ rs, ∀ v, x.pubmed = some v → noEOL v = true) :
    referencesText rs = .ok (secsText (rs.map secReference)) := by
  induction rs with
  | nil => rfl
  | cons x rs ih =>
    have h1 := referenceText_eq x (h x (by simp))
    have h2 := ih (fun y hy => h y (by simp [hy]))
    simp only [referencesText, h1, h2, List.map_cons, secsText, List.flatMap_cons, secReference]
    rfl

theorem secsText_append (a b : List Section) : secsText (a ++ b) = secsText a ++ secsText b := by
  simp [secsText, List.flatMap_append]

theorem flatMap_comments (cs : List Bytes) :
    (cs.flatMap fun c => bs "COMMENT     " ++ addPrefix indent c ++ [10]) = secsText (cs.map secComment) := by
  induction cs with
  | nil => rfl
  | cons c cs ih =>
    simp only [List.flatMap_cons, List.map_cons, secsText, secComment] at ih ⊢
    rw [ih]; simp [List.append_assoc]

theorem flatMap_extras (es : List (Bytes × Bytes)) :
    (es.flatMap fun e => extraText e.1 e.2 ++ [10]) = secsText (es.map fun e => secExtra e.1 e.2) := by
  induction es with
  | nil => rfl
  | cons e es ih =>
    simp only [List.flatMap_cons, List.map_cons, secsText, secExtra] at ih ⊢
    rw [ih]

/-- `headerText` = LOCUS line, line feed, the header sections -/
theorem headerText_eq (f : Fields) (length : Int)
    (hp : ∀ x ∈ f.references, ∀ v, x.pubmed = some v → noEOL v = true) :
    headerText f length = .ok (locusLine f length ++ 10 :: secsText (headerSecs f)) := by
  have hrefs := referencesText_eq f.references hp
  have hdb : dblinkText f.dblink true = secsText (match f.dblink with | [] => [] | p :: ps => [secDblink p ps]) := by
    cases f.dblink with
    | nil => rfl
    | cons p ps => simp [secsText, secDblink]
  unfold headerText
  cases hreg : f.region with
  | none =>
    simp only [hrefs, hdb, flatMap_comments, flatMap_extras, headerSecs, secsText_append, accessionLine, hreg]
    simp [secsText, secDefinition, secAccession, secVersion, secKeywords, secSource, List.append_assoc,
      Bind.bind, Except.bind, pure, Except.pure]
  | some ht =>
    obtain ⟨h, t⟩ := ht
    by_cases hlt : t ≤ h
    · simp only [hrefs, hdb, flatMap_comments, flatMap_extras, headerSecs, secsText_append, accessionLine, hreg, hlt,
        if_true]
      simp [secsText, secDefinition, secAccession, secVersion, secKeywords, secSource, List.append_assoc,
        Bind.bind, Except.bind, pure, Except.pure]
    · simp only [hrefs, hdb, flatMap_comments, flatMap_extras, headerSecs, secsText_append, accessionLine, hreg, hlt,
        if_false]
      simp [secsText, secDefinition, secAccession, secVersion, secKeywords, secSource, List.append_assoc,
        Bind.bind, Except.bind, pure, Except.pure]

end Gts.GenBank
