/-
  Helper lemmas for C17 (FASTA): run-lemmas for the `Gts.Pars` state monad, the functional
  reading of `FastaParser` (`fastaParse_run`), `wrap.Force`, the body mapping, and the
  write-then-parse lemmas for LF and CRLF text.  Core Lean only.
-/
import Gts.Model.Fasta
namespace Gts.Fasta
open Gts Gts.Pars
open Gts.LocParse (anyOf)

/-! ### the parser monad, run on a state -/


theorem bind_run {α β} (x : P α) (f : α → P β) (s : PS) :
    (x >>= f) s = match x s with
      | (.ok a, s') => f a s'
      | (.error e, s') => (.error e, s') := by
  show (ExceptT.bind x f) s = _
  unfold ExceptT.bind ExceptT.mk ExceptT.bindCont
  show (StateT.bind _ _) s = _
  unfold StateT.bind
  simp only []
  cases h : x s with
  | mk r s' => cases r <;> rfl

@[simp] theorem pure_run {α} (a : α) (s : PS) : (pure a : P α) s = (.ok a, s) := rfl
@[simp] theorem getS_run (s : PS) : getS s = (.ok s, s) := rfl
@[simp] theorem setS_run (s s' : PS) : setS s' s = (.ok (), s') := rfl
@[simp] theorem fail_run {α} (s : PS) : (fail : P α) s = (.error .fail, s) := rfl
@[simp] theorem push_run (t stk) : push ⟨t, stk⟩ = (.ok (), ⟨t, t :: stk⟩) := rfl
@[simp] theorem pop_cons_run (t r stk) : pop ⟨t, r :: stk⟩ = (.ok (), ⟨r, stk⟩) := rfl
@[simp] theorem pop_nil_run (t) : pop ⟨t, []⟩ = (.ok (), ⟨t, []⟩) := rfl
@[simp] theorem drop_run (t stk) : Pars.drop ⟨t, stk⟩ = (.ok (), ⟨t, stk.drop 1⟩) := rfl
@[simp] theorem pushed_run (t stk) : pushed ⟨t, stk⟩ = (.ok (!stk.isEmpty), ⟨t, stk⟩) := rfl
@[simp] theorem advance1_run (t stk) : advance1 ⟨t, stk⟩ = (.ok (), ⟨t.drop 1, stk⟩) := rfl
theorem attempt_run {α} (p : P α) (s : PS) : attempt p s = match p s with
    | (.ok a, s') => (.ok (some a), s')
    | (.error .fail, s') => (.ok none, s')
    | (.error .panic, s') => (.error .panic, s') := rfl

theorem gt_run (t stk) : gt ⟨t, stk⟩ = match t with
    | [] => (.error .fail, ⟨t, stk⟩)
    | c :: r => if c == 62 then (.ok (), ⟨r, stk⟩) else (.error .fail, ⟨t, stk⟩) := by
  unfold gt
  rw [bind_run]
  cases t with
  | nil => rfl
  | cons c r => by_cases h : c == 62 <;> simp [h]

theorem endP_run (t stk) : endP ⟨t, stk⟩ = match t with
    | [] => (.ok (), ⟨t, stk⟩)
    | _ :: _ => (.error .fail, ⟨t, stk⟩) := by
  unfold endP
  rw [bind_run]
  cases t <;> rfl

/-- `pars.Any('>', pars.End)` -/
theorem any_run (t stk) : anyOf [gt, endP] ⟨t, stk⟩ = match t with
    | [] => (.ok (), ⟨[], stk⟩)
    | c :: r => if c == 62 then (.ok (), ⟨r, stk⟩) else (.error .fail, ⟨t, stk⟩) := by
  unfold anyOf
  cases t with
  | nil => simp [bind_run, anyOf.go, attempt_run, gt_run, endP_run]
  | cons c r =>
    by_cases h : c == 62 <;> simp [bind_run, anyOf.go, attempt_run, gt_run, endP_run, h]


/-- not the record marker `>` -/
def notGt (c : UInt8) : Bool := c != 62

theorem map_run {α β} (f : α → β) (x : P α) (s : PS) :
    (f <$> x) s = match x s with
      | (.ok a, s') => (.ok (f a), s')
      | (.error e, s') => (.error e, s') := by
  show (ExceptT.map f x) s = _
  unfold ExceptT.map ExceptT.mk
  show (StateT.bind _ _) s = _
  unfold StateT.bind
  simp only []
  cases h : x s with
  | mk r s' => cases r <;> rfl

theorem untilLoop_run (fuel : Nat) : ∀ (r : Bytes) (S : List Bytes), r.length < fuel →
    untilLoop (anyOf [gt, endP]) fuel ⟨r, r :: S⟩
      = (.ok (), ⟨(r.dropWhile notGt).drop 1, r.dropWhile notGt :: S⟩) := by
  induction fuel with
  | zero => intro r S h; omega
  | succ fuel ih =>
    intro r S h
    unfold untilLoop
    cases r with
    | nil => simp [bind_run, attempt_run, any_run]
    | cons c r' =>
      by_cases hc : c == 62
      · have hn : notGt c = false := by
          have : c = 62 := by simpa using hc
          simp [notGt, this]
        simp [bind_run, attempt_run, any_run, hc, hn]
      · have hn : notGt c = true := by simpa [notGt] using hc
        have := ih r' S (by simpa using h)
        simp [bind_run, attempt_run, any_run, hc, hn, this]

theorem length_takeWhile_add_dropWhile (p : UInt8 → Bool) (t : Bytes) :
    (t.takeWhile p).length + (t.dropWhile p).length = t.length := by
  have := congrArg List.length (List.takeWhile_append_dropWhile (p := p) (l := t))
  rw [List.length_append] at this
  exact this

theorem take_sub_dropWhile (p : UInt8 → Bool) (t : Bytes) :
    t.take (t.length - (t.dropWhile p).length) = t.takeWhile p ∧
    t.drop (t.length - (t.dropWhile p).length) = t.dropWhile p := by
  have hl : t.length - (t.dropWhile p).length = (t.takeWhile p).length := by
    have := length_takeWhile_add_dropWhile p t; omega
  rw [hl]
  have h := List.takeWhile_append_dropWhile (p := p) (l := t)
  have h1 := List.take_left (l₁ := t.takeWhile p) (l₂ := t.dropWhile p)
  have h2 := List.drop_left (l₁ := t.takeWhile p) (l₂ := t.dropWhile p)
  rw [h] at h1 h2
  exact ⟨h1, h2⟩

theorem untilP_run (t : Bytes) (stk : List Bytes) :
    untilP (anyOf [gt, endP]) ⟨t, stk⟩ = (.ok (t.takeWhile notGt), ⟨t.dropWhile notGt, stk⟩) := by
  unfold untilP
  have hlen : ¬ t.length < (t.dropWhile notGt).length := by
    have := length_takeWhile_add_dropWhile notGt t; omega
  simp [bind_run, map_run, untilLoop_run (t.length + 1) t (t :: stk) (by omega), trail, hlen,
    take_sub_dropWhile]


/-- `pars.Line` as a function of the remaining input: (token, what is left) -/
def lineSplit (t : Bytes) : Bytes × Bytes :=
  let r := t.drop (calcLine t 0 0 false).1
  (t.take (calcLine t 0 0 false).1, if r.length < (calcLine t 0 0 false).2 then r else r.drop (calcLine t 0 0 false).2)

theorem line_run (t : Bytes) (stk : List Bytes) :
    line ⟨t, stk⟩ = (.ok (lineSplit t).1, ⟨(lineSplit t).2, stk⟩) := by
  unfold line lineSplit
  simp [bind_run, map_run]

theorem fastaSeq_run (t : Bytes) (stk : List Bytes) :
    fastaSeq ⟨t, stk⟩ = match t with
      | [] => (.error .fail, ⟨t, stk⟩)
      | c :: t' =>
        if c == 62 then
          (.ok ((lineSplit t').1, (lineSplit t').2.takeWhile notGt), ⟨(lineSplit t').2.dropWhile notGt, stk⟩)
        else (.error .fail, ⟨t, stk⟩) := by
  unfold fastaSeq
  cases t with
  | nil => simp [bind_run, attempt_run, gt_run]
  | cons c t' =>
    by_cases hc : c == 62 <;>
      simp [bind_run, map_run, attempt_run, gt_run, hc, line_run, untilP_run]

/-- `FastaParser` on any input and any backtracking stack, as a function. -/
theorem fastaParse_run (t : Bytes) (stk : List Bytes) :
    fastaParse ⟨t, stk⟩ = match t with
      | [] => (.error .fail, ⟨t, stk⟩)
      | c :: t' =>
        if c == 62 then
          (.ok ((lineSplit t').1, fastaBody ((lineSplit t').2.takeWhile notGt)),
            ⟨(lineSplit t').2.dropWhile notGt, stk⟩)
        else (.error .fail, ⟨t, stk⟩) := by
  unfold fastaParse
  cases t with
  | nil => simp [bind_run, attempt_run, fastaSeq_run]
  | cons c t' =>
    by_cases hc : c == 62 <;>
      simp [bind_run, map_run, attempt_run, fastaSeq_run, hc]



/-! ### calcLine -/

theorem calcLine_lf (d t : Bytes) (h : descOk d = true) (i n : Nat) :
    calcLine (d ++ 10 :: t) i n false = (i + d.length, n + 1) := by
  induction d generalizing i with
  | nil => simp [calcLine]
  | cons c d ih =>
    simp [descOk] at h
    have hd : descOk d = true := by simp [descOk]; exact h.2
    have := ih hd (i + 1)
    simp [calcLine, h.1, this]; omega

theorem calcLine_crlf (d t : Bytes) (h : descOk d = true) (i n : Nat) :
    calcLine (d ++ 13 :: 10 :: t) i n false = (i + d.length, n + 2) := by
  induction d generalizing i with
  | nil => simp [calcLine]
  | cons c d ih =>
    simp [descOk] at h
    have hd : descOk d = true := by simp [descOk]; exact h.2
    have := ih hd (i + 1)
    simp [calcLine, h.1, this]; omega

/-! ### splitLines / stripCR / fastaBody -/

theorem splitLines_ne_nil (b : Bytes) : splitLines b ≠ [] := by
  induction b with
  | nil => simp [splitLines]
  | cons c r ih =>
    unfold splitLines
    by_cases h : c == 10
    · simp [h]
    · simp [h]; cases hs : splitLines r <;> simp

theorem stripCR_cons (c : UInt8) (l : Bytes) (h : c ≠ 13) : stripCR (c :: l) = c :: stripCR l := by
  cases l with
  | nil => simp [stripCR, h]
  | cons a l => simp [stripCR]

theorem fastaBody_nil : fastaBody [] = [] := by simp [fastaBody, splitLines, stripCR]

theorem fastaBody_cons_nl (r : Bytes) : fastaBody (10 :: r) = fastaBody r := by
  simp [fastaBody, splitLines, stripCR]

theorem fastaBody_cons (c : UInt8) (r : Bytes) (h10 : c ≠ 10) (h13 : c ≠ 13) :
    fastaBody (c :: r) = c :: fastaBody r := by
  unfold fastaBody
  cases hs : splitLines r with
  | nil => exact absurd hs (splitLines_ne_nil r)
  | cons l ls => simp [splitLines, h10, hs, stripCR_cons c l h13]

theorem fastaBody_crnl (r : Bytes) : fastaBody (13 :: 10 :: r) = fastaBody r := by
  simp [fastaBody, splitLines, stripCR]

/-- not a line feed -/
def isNotNL (c : UInt8) : Bool := c != 10

theorem fastaBody_noCR (b : Bytes) (h : noCR b = true) : fastaBody b = b.filter isNotNL := by
  induction b with
  | nil => simp [fastaBody_nil]
  | cons c r ih =>
    simp [noCR] at h
    have hr : noCR r = true := by simp [noCR]; exact h.2
    by_cases h10 : c = 10
    · subst h10; simp [fastaBody_cons_nl, ih hr, isNotNL]
    · have hc : isNotNL c = true := by simp [isNotNL, h10]
      simp [fastaBody_cons c r h10 h.1, ih hr, hc]

theorem crlf_append (a b : Bytes) : crlf (a ++ b) = crlf a ++ crlf b := by simp [crlf]

theorem fastaBody_crlf (b : Bytes) (h : noCR b = true) : fastaBody (crlf b) = b.filter isNotNL := by
  induction b with
  | nil => simp [crlf, fastaBody_nil]
  | cons c r ih =>
    simp [noCR] at h
    have hr : noCR r = true := by simp [noCR]; exact h.2
    by_cases h10 : c = 10
    · subst h10
      have : crlf (10 :: r) = 13 :: 10 :: crlf r := by simp [crlf]
      simp [this, fastaBody_crnl, ih hr, isNotNL]
    · have : crlf (c :: r) = c :: crlf r := by simp [crlf, h10]
      have hc : isNotNL c = true := by simp [isNotNL, h10]
      simp [this, fastaBody_cons c _ h10 h.1, ih hr, hc]


/-! ### wrap.Force -/

theorem wrapGo_filter (f : Nat) (s : Bytes) (n : Nat) :
    (wrapGo f s n).filter isNotNL = s.filter isNotNL := by
  induction f generalizing s with
  | zero => simp [wrapGo]
  | succ f ih =>
    unfold wrapGo
    split
    · have h10 : isNotNL 10 = false := by decide
      rw [List.filter_append, List.filter_cons, ih]
      simp only [h10]
      rw [if_neg (by simp), ← List.filter_append, List.take_append_drop]
    · rfl

theorem wrapGo_mem (f : Nat) (s : Bytes) (n : Nat) (c : UInt8) (h : c ∈ wrapGo f s n) :
    c ∈ s ∨ c = 10 := by
  induction f generalizing s with
  | zero => exact .inl (by simpa [wrapGo] using h)
  | succ f ih =>
    unfold wrapGo at h
    split at h
    · simp at h
      rcases h with h | h | h
      · exact .inl (List.mem_of_mem_take h)
      · exact .inr h
      · rcases ih _ h with h | h
        · exact .inl (List.mem_of_mem_drop h)
        · exact .inr h
    · exact .inl h

theorem splitLines_noNL (a : Bytes) (h : ∀ c ∈ a, c ≠ 10) : splitLines a = [a] := by
  induction a with
  | nil => rfl
  | cons c r ih =>
    have hc : c ≠ 10 := h c (by simp)
    have := ih (fun x hx => h x (by simp [hx]))
    simp [splitLines, hc, this]

theorem splitLines_append_nl (a b : Bytes) (h : ∀ c ∈ a, c ≠ 10) :
    splitLines (a ++ 10 :: b) = a :: splitLines b := by
  induction a with
  | nil => simp [splitLines]
  | cons c r ih =>
    have hc : c ≠ 10 := h c (by simp)
    have := ih (fun x hx => h x (by simp [hx]))
    simp [splitLines, hc, this]

/-- every line of the wrapped text has at most `n` bytes, and every line but the last exactly `n` -/
theorem wrapGo_lines (f : Nat) (s : Bytes) (n : Nat) (hn : 0 < n) (hf : s.length ≤ f)
    (h : ∀ c ∈ s, c ≠ 10) :
    (∀ l ∈ splitLines (wrapGo f s n), l.length ≤ n) ∧
    (∀ l ∈ (splitLines (wrapGo f s n)).dropLast, l.length = n) ∧
    (s ≠ [] → ∀ l ∈ splitLines (wrapGo f s n), l ≠ []) := by
  induction f generalizing s with
  | zero =>
    have : s = [] := List.eq_nil_of_length_eq_zero (by omega)
    subst this
    simp [wrapGo, splitLines]
  | succ f ih =>
    unfold wrapGo
    split
    · rename_i hlt
      have htake : ∀ c ∈ s.take n, c ≠ 10 := fun c hc => h c (List.mem_of_mem_take hc)
      have hdrop : ∀ c ∈ s.drop n, c ≠ 10 := fun c hc => h c (List.mem_of_mem_drop hc)
      have hlen : (s.take n).length = n := by simp; omega
      have hdl : (s.drop n).length ≤ f := by simp; omega
      have hdne : s.drop n ≠ [] := by
        intro h0; have := congrArg List.length h0; simp at this; omega
      obtain ⟨i1, i2, i3⟩ := ih (s.drop n) hdl hdrop
      rw [splitLines_append_nl _ _ htake]
      refine ⟨?_, ?_, ?_⟩
      · intro l hl
        rcases List.mem_cons.1 hl with hl | hl
        · subst hl; exact Nat.le_of_eq hlen
        · exact i1 l hl
      · intro l hl
        rw [List.dropLast_cons_of_ne_nil (splitLines_ne_nil _)] at hl
        rcases List.mem_cons.1 hl with hl | hl
        · subst hl; exact hlen
        · exact i2 l hl
      · intro _ l hl
        rcases List.mem_cons.1 hl with hl | hl
        · subst hl; intro h0; rw [h0] at hlen; simp at hlen; omega
        · exact i3 hdne l hl
    · rename_i hge
      rw [splitLines_noNL s h]
      refine ⟨?_, ?_, ?_⟩
      · intro l hl; simp at hl; subst hl; omega
      · simp
      · intro hne l hl; simp at hl; subst hl; exact hne

theorem wrapGo_ne_nil (f : Nat) (s : Bytes) (n : Nat) (h : s ≠ []) : wrapGo f s n ≠ [] := by
  cases f with
  | zero => simpa [wrapGo]
  | succ f => unfold wrapGo; split <;> simp [h]

theorem getLast?_append_nl (a b : List UInt8) (h : b ≠ []) : (a ++ 10 :: b).getLast? = b.getLast? := by
  cases b with
  | nil => exact absurd rfl h
  | cons x xs =>
    have : a ++ 10 :: x :: xs = (a ++ [10]) ++ (x :: xs) := by simp
    rw [this, List.getLast?_append]
    rw [List.getLast?_eq_some_getLast (l := x :: xs) (by simp)]
    rfl

/-- no trailing newline -/
theorem wrapGo_getLast (f : Nat) (s : Bytes) (n : Nat) (h : ∀ c ∈ s, c ≠ 10) :
    (wrapGo f s n).getLast? ≠ some 10 := by
  induction f generalizing s with
  | zero =>
    intro hl; exact h 10 (List.mem_of_getLast? (by simpa [wrapGo] using hl)) rfl
  | succ f ih =>
    unfold wrapGo
    split
    · rename_i hlt
      have hdne : s.drop n ≠ [] := by
        intro h0; have := congrArg List.length h0; simp at this; omega
      have hne := wrapGo_ne_nil f (s.drop n) n hdne
      have hdrop : ∀ c ∈ s.drop n, c ≠ 10 := fun c hc => h c (List.mem_of_mem_drop hc)
      rw [getLast?_append_nl _ _ hne]
      exact ih _ hdrop
    · intro hl; exact h 10 (List.mem_of_getLast? hl) rfl


/-! ### write, then parse -/

theorem span_notGt (a rest : Bytes) (ha : ∀ c ∈ a, notGt c = true) (hr : recEnd rest = true) :
    (a ++ rest).takeWhile notGt = a ∧ (a ++ rest).dropWhile notGt = rest := by
  induction a with
  | nil =>
    cases rest with
    | nil => simp
    | cons c r =>
      have : notGt c = false := by
        have : c = 62 := by simpa [recEnd] using hr
        simp [notGt, this]
      simp [this]
  | cons c a ih =>
    have hc := ha c (by simp)
    have := ih (fun x hx => ha x (by simp [hx]))
    simp [hc, this]

theorem lineSplit_lf (d X : Bytes) (h : descOk d = true) : lineSplit (d ++ 10 :: X) = (d, X) := by
  unfold lineSplit
  rw [calcLine_lf d X h 0 0]
  simp

theorem lineSplit_crlf (d X : Bytes) (h : descOk d = true) :
    lineSplit (d ++ 13 :: 10 :: X) = (d, X) := by
  unfold lineSplit
  rw [calcLine_crlf d X h 0 0]
  simp
  intro h2; omega

theorem descOk_nl2sp (d : Bytes) (h : noCR d = true) : descOk (nl2sp d) = true := by
  simp [descOk, nl2sp, noCR] at *
  intro c hc
  by_cases h10 : c = 10
  · simp [h10]
  · simp [h10, h c hc]

theorem nl2sp_id (d : Bytes) (h : descOk d = true) : nl2sp d = d := by
  simp [descOk] at h
  unfold nl2sp
  conv => rhs; rw [← List.map_id d]
  apply List.map_congr_left
  intro c hc
  simp [(h c hc).1]

theorem descOk_noCR (d : Bytes) (h : descOk d = true) : noCR d = true := by
  simp [descOk, noCR] at *
  exact fun c hc => (h c hc).2

theorem crlf_noNL (a : Bytes) (h : ∀ c ∈ a, c ≠ 10) : crlf a = a := by
  induction a with
  | nil => rfl
  | cons c r ih =>
    have hc : c ≠ 10 := h c (by simp)
    have := ih (fun x hx => h x (by simp [hx]))
    have e : crlf (c :: r) = c :: crlf r := by simp [crlf, hc]
    rw [e, this]

theorem crlf_mem (a : Bytes) (c : UInt8) (h : c ∈ crlf a) : c ∈ a ∨ c = 13 := by
  induction a with
  | nil => simp [crlf] at h
  | cons x r ih =>
    by_cases hx : x = 10
    · subst hx
      have e : crlf (10 :: r) = 13 :: 10 :: crlf r := by simp [crlf]
      rw [e] at h
      simp at h
      rcases h with h | h | h
      · exact .inr h
      · exact .inl (by simp [h])
      · rcases ih h with h | h
        · exact .inl (by simp [h])
        · exact .inr h
    · have e : crlf (x :: r) = x :: crlf r := by simp [crlf, hx]
      rw [e] at h
      simp at h
      rcases h with h | h
      · exact .inl (by simp [h])
      · rcases ih h with h | h
        · exact .inl (by simp [h])
        · exact .inr h

/-- facts about the wrapped residues used below -/
theorem wrapped_facts (r : Bytes) (hr : resOk r = true) :
    (∀ c ∈ wrapForce r width, notGt c = true) ∧ noCR (wrapForce r width ++ [10]) = true ∧
    (wrapForce r width).filter isNotNL = r := by
  simp [resOk] at hr
  refine ⟨?_, ?_, ?_⟩
  · intro c hc
    rcases wrapGo_mem _ _ _ c hc with h | h
    · simp [notGt, (hr c h).1.1]
    · subst h; decide
  · simp [noCR]
    intro c hc
    rcases wrapGo_mem _ _ _ c hc with h | h
    · exact (hr c h).2
    · subst h; decide
  · unfold wrapForce
    rw [wrapGo_filter]
    apply List.filter_eq_self.2
    intro c hc
    simp [isNotNL, (hr c hc).1.2]

theorem parse_write (d r rest : Bytes) (stk : List Bytes) (hd : noCR d = true)
    (hr : resOk r = true) (hrest : recEnd rest = true) :
    fastaParse ⟨fastaWrite d r ++ rest, stk⟩ = (.ok (nl2sp d, r), ⟨rest, stk⟩) := by
  obtain ⟨w1, w2, w3⟩ := wrapped_facts r hr
  have e : fastaWrite d r ++ rest = 62 :: (nl2sp d ++ 10 :: ((wrapForce r width ++ [10]) ++ rest)) := by
    simp [fastaWrite]
  have hspan := span_notGt (wrapForce r width ++ [10]) rest
    (by intro c hc; simp at hc; rcases hc with h | h; exact w1 c h; subst h; decide) hrest
  rw [e, fastaParse_run]
  simp only [beq_self_eq_true, if_true, lineSplit_lf _ _ (descOk_nl2sp d hd), hspan.1, hspan.2,
    fastaBody_noCR _ w2]
  simp [List.filter_append, w3, isNotNL]

theorem crlf_fastaWrite (d r : Bytes) :
    crlf (fastaWrite d r) = 62 :: (nl2sp d ++ 13 :: 10 :: crlf (wrapForce r width ++ [10])) := by
  have h1 : crlf (nl2sp d) = nl2sp d := by
    apply crlf_noNL
    intro c hc
    simp [nl2sp] at hc
    obtain ⟨a, _, ha⟩ := hc
    by_cases h : a = 10 <;> simp [h] at ha <;> simp [← ha]
    exact h
  have e : fastaWrite d r = [62] ++ (nl2sp d ++ ([10] ++ (wrapForce r width ++ [10]))) := by
    simp [fastaWrite]
  rw [e, crlf_append, crlf_append, crlf_append, h1]
  simp [crlf]

theorem parse_write_crlf (d r rest : Bytes) (stk : List Bytes) (hd : noCR d = true)
    (hr : resOk r = true) (hrest : recEnd rest = true) :
    fastaParse ⟨crlf (fastaWrite d r) ++ rest, stk⟩ = (.ok (nl2sp d, r), ⟨rest, stk⟩) := by
  obtain ⟨w1, w2, w3⟩ := wrapped_facts r hr
  have hspan := span_notGt (crlf (wrapForce r width ++ [10])) rest
    (by
      intro c hc
      rcases crlf_mem _ c hc with h | h
      · simp at h; rcases h with h | h; exact w1 c h; subst h; decide
      · subst h; decide) hrest
  rw [crlf_fastaWrite, fastaParse_run]
  simp only [List.cons_append, List.append_assoc, beq_self_eq_true, if_true,
    lineSplit_crlf _ _ (descOk_nl2sp d hd), hspan.1, hspan.2, fastaBody_crlf _ w2]
  simp [List.filter_append, w3, isNotNL]


/-! ### the scanner -/

theorem run'_eq {α} (p : P α) (s : PS) : p.run' s = p s := rfl

/-- a stream element: encoded text and the record it stands for -/
def GoodEnc (p : Bytes × (Bytes × Bytes)) : Prop :=
  (∃ t', p.1 = 62 :: t') ∧
  ∀ rest stk, recEnd rest = true → fastaParse ⟨p.1 ++ rest, stk⟩ = (.ok p.2, ⟨rest, stk⟩)

theorem recEnd_stream (ts : List (Bytes × (Bytes × Bytes))) (h : ∀ p ∈ ts, GoodEnc p) :
    recEnd (ts.map (·.1)).flatten = true := by
  cases ts with
  | nil => rfl
  | cons p ts =>
    obtain ⟨t', ht⟩ := (h p (by simp)).1
    simp [ht, recEnd]

theorem scanLoop_records (ts : List (Bytes × (Bytes × Bytes))) (h : ∀ p ∈ ts, GoodEnc p) :
    ∀ fuel stk, (ts.map (·.1)).flatten.length < fuel →
      scanLoop fuel ⟨(ts.map (·.1)).flatten, stk⟩ = .done (ts.map (·.2)) true := by
  induction ts with
  | nil =>
    intro fuel stk hf
    cases fuel with
    | zero => omega
    | succ f => simp [scanLoop, run'_eq, fastaParse_run]
  | cons p ts ih =>
    intro fuel stk hf
    have hts : ∀ q ∈ ts, GoodEnc q := fun q hq => h q (by simp [hq])
    obtain ⟨⟨t', ht⟩, hp⟩ := h p (by simp)
    cases fuel with
    | zero => omega
    | succ f =>
      have hlen : (ts.map (·.1)).flatten.length < f := by
        simp [ht] at hf; simp; omega
      have := hp _ stk (recEnd_stream ts hts)
      simp only [List.map_cons, List.flatten_cons]
      unfold scanLoop
      have hne : (p.1 ++ (ts.map (·.1)).flatten).isEmpty = false := by rw [ht]; rfl
      simp only [run'_eq, this, ih hts f stk hlen, hne]
      rfl

theorem scanAll_records (auto : Bool) (ts : List (Bytes × (Bytes × Bytes)))
    (h : ∀ p ∈ ts, GoodEnc p) :
    scanAll auto (ts.map (·.1)).flatten = .done (ts.map (·.2)) true := by
  cases auto with
  | false =>
    have := scanLoop_records ts h ((ts.map (·.1)).flatten.length + 1) [] (by omega)
    unfold scanAll
    rw [if_neg (by decide)]
    exact this
  | true =>
    cases ts with
    | nil => simp [scanAll, scanFirstAuto, run'_eq, bind_run, attempt_run, fastaParse_run]
    | cons p ts =>
      have hts : ∀ q ∈ ts, GoodEnc q := fun q hq => h q (by simp [hq])
      obtain ⟨⟨t', ht⟩, hp⟩ := h p (by simp)
      have hpar := hp _ [p.1 ++ (ts.map (·.1)).flatten] (recEnd_stream ts hts)
      have hloop := scanLoop_records ts hts ((ts.map (·.1)).flatten.length + 1) [] (by omega)
      have hne : ¬ ((p.1 ++ (ts.map (·.1)).flatten).take 5 == [76, 79, 67, 85, 83]) = true := by
        rw [ht]; simp
      have hne0 : (p.1 ++ (ts.map (·.1)).flatten).isEmpty = false := by rw [ht]; rfl
      simp only [scanAll, scanFirstAuto, if_true, List.map_cons, List.flatten_cons, hne, hne0]
      generalize (ts.map (·.1)).flatten = T at *
      simp [run'_eq, bind_run, attempt_run, hpar, hloop]

end Gts.Fasta
