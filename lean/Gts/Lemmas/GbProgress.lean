/-
  C07, "never loops": every iteration of the record loop of `GenBankParser` consumes input or
  ends the loop, from ANY sorted state (also with positions leaked by earlier parsers on the
  stack).

  * every field sub-parser, `tryAllParsers` and the end mark keep the forward invariant `Fw`
    (ParsProgress): they pop nothing but frames pushed at or after their entry point — also after
    a `Clear`, also through the in-place rewrite of the DEFINITION retry;
  * a sub-parser that SUCCEEDS has read its field name, so it ends strictly after its entry point
    (`Strict`); an unknown line is skipped by `pars.Line`, which consumes at least one byte unless
    the input is used up (and then the loop ends);
  * hence the fuel of the loop is an upper bound on the number of iterations as soon as it exceeds
    the number of bytes left (`recordLoop_fuel`): the `2n+2` of `GenBankParser` is never used up.

  Before 66de3a0 the SOURCE parser broke the first point (`recordLoop_fuel_refuted`, removed).
  Core Lean only.
-/
import Gts.Lemmas.ParsProgress
import Gts.Lemmas.GbSafeOrigin
namespace Gts.GenBank
open Gts.Pars

/-! ### the forward invariant -/

macro_rules | `(tactic| safeW_side) => `(tactic| (with_reducible apply Safe.toW; with_reducible exact line_safe))
macro_rules | `(tactic| safeW_side) => `(tactic| (with_reducible apply Safe.toW; with_reducible exact lit_safe _))
macro_rules | `(tactic| safeW_side) => `(tactic| (with_reducible apply Safe.toW; with_reducible exact int_safe))
macro_rules | `(tactic| safeW_side) => `(tactic| (with_reducible apply Safe.toW; with_reducible exact word_safe _))
macro_rules | `(tactic| safeW_side) => `(tactic| (with_reducible apply Safe.toW; with_reducible exact eol_safe))
macro_rules | `(tactic| safeW_side) => `(tactic| (with_reducible apply Safe.toW; with_reducible exact fieldBody_safe _ _))
macro_rules | `(tactic| safeW_side) => `(tactic| (with_reducible apply Safe.toW; with_reducible exact fieldLine_safe _))
macro_rules | `(tactic| safeW_side) => `(tactic| (with_reducible apply Safe.toW; with_reducible exact untilColon_safe))
macro_rules | `(tactic| safeW_side) => `(tactic| (with_reducible apply Safe.toW; with_reducible exact untilFilter_safe _))

theorem fieldPadding_safeW (a b : Nat) : SafeW (fieldPadding a b) := by
  unfold fieldPadding
  intro L n s h
  repeat (first
    | (with_reducible apply wpw_clear (m := n) ‹_›; intro _ _)
    | wpw_step)

macro_rules | `(tactic| safeW_side) => `(tactic| with_reducible exact fieldPadding_safeW _ _)

theorem fieldName_safeW (nm : Bytes) (d : Nat) : SafeW (fieldName nm d) := by
  unfold fieldName; wpw_run

macro_rules | `(tactic| safeW_side) => `(tactic| with_reducible exact fieldName_safeW _ _)

theorem genericField_safeW (nm : Bytes) (d : Nat) : SafeW (genericField nm d) := by
  unfold genericField; wpw_run

macro_rules | `(tactic| safeW_side) => `(tactic| with_reducible exact genericField_safeW _ _)

theorem mapped_safeW {α} (p : P α) (hp : SafeW p) : SafeW (mapped p) := by
  unfold mapped; wpw_run

macro_rules | `(tactic| safeW_side) => `(tactic| (with_reducible apply mapped_safeW; safeW_side))

theorem subfieldName_safeW (nm : Bytes) (d st : Nat) (v : Bool) : SafeW (subfieldName nm d st v) := by
  unfold subfieldName; wpw_run

macro_rules | `(tactic| safeW_side) => `(tactic| with_reducible exact subfieldName_safeW _ _ _ _)

/-- the in-place rewrite keeps every frame's length, so the invariant does not see it -/
theorem patchFrames_wpw {Q} {L n} {s : PS} (rb joined : Bytes) (hj : joined.length ≤ rb.length)
    (h : Fw L n s) (k : ∀ s', Fw L n s' → Q (.ok ()) s') : WP (patchFrames rb joined) Q s := by
  unfold WP; rw [run_patchFrames]
  apply k
  refine ⟨h.le, sorted_map_len _ (fun f => fixFrame_length rb joined f hj) _ _ h.srt, ?_⟩
  intro f hf
  have hf' : f ∈ (s.stk.map (fixFrame rb joined)).take n := hf
  rw [← List.map_take, List.mem_map] at hf'
  obtain ⟨g, hg, rfl⟩ := hf'
  rw [fixFrame_length rb joined g hj]; exact h.young g hg

theorem definitionField_safeW (d : Nat) (hd : 1 ≤ d) (f : Fields) : SafeW (definitionField d f) := by
  intro L n s h
  unfold definitionField
  rw [wp_bind]; apply wpw_push h; intro s1 h1
  dsimp only
  rw [wp_bind]
  have hbody : WP (attempt (do
      let _ ← fieldName (bs "DEFINITION") d
      let rb := (← getS).rest
      let (b, k) ← fieldBody d 10
      pure (b, k, rb) : P (Bytes × Nat × Bytes)))
      (fun r s' => Fw L (n + 1) s' ∧
        ∀ p k rb, r = .ok (some (p, k, rb)) → p.length ≤ rb.length) s1 := by
    apply wp_of_run
    intro r s' hr
    rw [run_attempt, run_bind] at hr
    have hn := fieldName_safeW (bs "DEFINITION") d L (n + 1) s1 h1
    unfold WP StdW at hn
    rcases hrun : (fieldName (bs "DEFINITION") d).run' s1 with ⟨r1, s2⟩
    rw [hrun] at hn hr
    rcases r1 with e | v
    · cases e
      · cases hr; exact ⟨hn, by simp⟩
      · cases hr; exact ⟨hn, by simp⟩
    · dsimp only at hr
      rw [run_bind, run_getS] at hr
      dsimp only at hr
      rw [run_bind] at hr
      have hb := (fieldBody_safe d 10).toW L (n + 1) s2 hn
      have hl := fieldBody_len d 10 hd s2
      unfold WP StdW at hb
      rcases hrun2 : (fieldBody d 10).run' s2 with ⟨r2, s3⟩
      rw [hrun2] at hb hr hl
      rcases r2 with e | ⟨b, k⟩
      · cases e
        · cases hr; exact ⟨hb, by simp⟩
        · cases hr; exact ⟨hb, by simp⟩
      · dsimp only at hr
        rw [run_pure] at hr
        cases hr
        refine ⟨hb, ?_⟩
        intro p k' rb he
        cases he
        have := hl _ _ _ rfl
        omega
  refine wp_mono hbody ?_
  intro r s2 ⟨h2, hlen⟩
  rcases r with e | o
  · exact stdw h2.weaken
  · dsimp only
    rcases o with _ | ⟨p, k, rb⟩
    · dsimp only; repeat wpw_step
    · dsimp only
      have hj := hlen p k rb rfl
      rw [wp_bind]; apply wpw_drop h2; intro s3 h3
      dsimp only
      split
      · split
        · rw [wp_bind]; apply patchFrames_wpw rb p hj h3; intro s4 h4
          repeat wpw_step
        · repeat wpw_step
      · repeat wpw_step

theorem accessionField_safeW (d : Nat) (f : Fields) : SafeW (accessionField d f) := by
  unfold accessionField; wpw_run
theorem versionField_safeW (d : Nat) (f : Fields) : SafeW (versionField d f) := by
  unfold versionField; wpw_run
theorem commentField_safeW (d : Nat) (f : Fields) : SafeW (commentField d f) := by
  unfold commentField; wpw_run

theorem dblinkMore_safeW (d : Nat) : ∀ k f, SafeW (dblinkMore d k f)
  | 0, f => by unfold dblinkMore; wpw_run
  | k + 1, f => by
    have ih := dblinkMore_safeW d k
    unfold dblinkMore; wpw_run

macro_rules | `(tactic| safeW_side) => `(tactic| with_reducible exact dblinkMore_safeW _ _ _)

theorem dblinkField_safeW (d : Nat) (f : Fields) : SafeW (dblinkField d f) := by
  unfold dblinkField; wpw_run

theorem keywordsField_safeW (d : Nat) (f : Fields) : SafeW (keywordsField d f) := by
  unfold keywordsField; wpw_run

theorem taxonMore_safeW (d : Nat) : ∀ k acc, SafeW (taxonMore d k acc)
  | 0, acc => by unfold taxonMore; wpw_run
  | k + 1, acc => by
    have ih := taxonMore_safeW d k
    unfold taxonMore; wpw_run

macro_rules | `(tactic| safeW_side) => `(tactic| with_reducible exact taxonMore_safeW _ _ _)

/-- `genbankSourceParser` since 66de3a0: the missing ORGANISM clears the stack.  (With the `Pop`
it had before, this is not provable: `Fw L 0` does not allow a pop.) -/
theorem sourceField_safeW (d : Nat) (f : Fields) : SafeW (sourceField d f) := by
  unfold sourceField
  intro L n s h
  repeat (first
    | (with_reducible apply wpw_clear (m := n) ‹_›; intro _ _)
    | wpw_step)

theorem refSub_safeW (nm : String) (d st : Nat) : SafeW (refSub nm d st) := by
  unfold refSub
  apply mapped_safeW
  wpw_run

macro_rules | `(tactic| safeW_side) => `(tactic| with_reducible exact refSub_safeW _ _ _)

/-- the loop of `pars.Any` runs with its own frame on the stack -/
theorem refAlts_wpw (d st : Nat) (r : Reference) : ∀ l L n s, Fw L (n + 1) s →
    WP (refAlts d st r l) (StdW L n) s
  | [], L, n, s, h => by unfold refAlts; repeat wpw_step
  | (nm, set) :: rest, L, n, s, h => by
    have ih := refAlts_wpw d st r rest L n
    unfold refAlts
    repeat (first
      | exact ih _ ‹_›
      | wpw_step)

theorem refSubfield_safeW (d st : Nat) (r : Reference) : SafeW (refSubfield d st r) := by
  intro L n s h
  unfold refSubfield
  rw [wp_bind]; apply wpw_push h; intro s1 h1
  exact refAlts_wpw d st r _ L n s1 h1

macro_rules | `(tactic| safeW_side) => `(tactic| with_reducible exact refSubfield_safeW _ _ _)

theorem refSubfields_safeW (d : Nat) : ∀ k st r, SafeW (refSubfields d k st r)
  | 0, st, r => by unfold refSubfields; wpw_run
  | k + 1, st, r => by
    have ih := refSubfields_safeW d k
    unfold refSubfields; wpw_run

macro_rules | `(tactic| safeW_side) => `(tactic| with_reducible exact refSubfields_safeW _ _ _ _)

theorem referenceField_safeW (d : Nat) (f : Fields) : SafeW (referenceField d f) := by
  unfold referenceField; wpw_run

/-- `genbankFeatureParser`: behind its `Clear` every saved position is a young one -/
theorem featuresField_safeW (reg : Registry) : SafeW (featuresField reg) := by
  intro L n s h
  unfold featuresField
  rw [wp_bind]; apply wpw_call h (Safe.toW (lit_safe _)); intro r1 s1 h1
  cases r1 with
  | error e => exact stdw h1
  | ok _ =>
    dsimp only
    rw [wp_bind]; apply wpw_call h1 (Safe.toW line_safe); intro r2 s2 h2
    cases r2 with
    | error e => exact stdw h2
    | ok _ =>
      dsimp only
      rw [wp_bind]; apply wpw_clearS h2; intro s3 h3
      dsimp only
      exact wpw_callS h3 (table_safeS reg) (fun _ _ h' => stdw h')

theorem contigField_safeW (d : Nat) (f : Fields) : SafeW (contigField d f) := by
  unfold contigField; wpw_run

theorem extraField_safeW (d : Nat) (f : Fields) : SafeW (extraField d f) := by
  unfold extraField; wpw_run

theorem endMark_safeW : SafeW endMark := endMark_safe.toW

/-- `makeGenbankOriginParser`: it clears the stack behind its header line and only moves forward
from there -/
theorem originField_safeW (length : Int) (d : Nat) : SafeW (originField length d) := by
  intro L n s h
  unfold originField
  rw [wp_bind]; apply wpw_call h (fieldName_safeW _ _); intro r1 s1 h1
  cases r1 with
  | error e => exact stdw h1
  | ok _ =>
    dsimp only
    rw [wp_bind]; apply wpw_call h1 (Safe.toW line_safe); intro r2 s2 h2
    cases r2 with
    | error e => exact stdw h2
    | ok _ =>
      dsimp only
      rw [wp_bind]; apply wpw_clear (m := n) h2; intro s3 h3
      dsimp only
      split
      · rw [wp_bind, wp_fail]; exact stdw h3
      split
      · rw [wp_bind]; apply wpw_panic; exact stdw h3
      rw [wp_bind]; apply wp_getS
      dsimp only
      split
      · rw [wp_bind, wp_fail]; exact stdw h3
      · split
        · repeat wpw_step
        · rw [wp_bind]; apply wpw_panic; exact stdw h3
        · simp only [slowLines_eq]
          split
          · rw [wp_bind]; apply wpw_panic; exact stdw h3
          · rw [wp_bind, wp_fail]; exact stdw h3
          · rename_i acc st' hp
            rw [wp_bind]; apply wps_setS
            have h4 := h3.advance st' (slowLines_rest_le _ _ _ _ _ _ _ _ hp)
            repeat wpw_step

/-! ### `tryAllParsers` -/

theorem liftF_safeW (p : Fields → P (Fields × Bool)) (hp : ∀ f, SafeW (p f)) (sub : Sub) :
    SafeW (liftF p sub) := by
  obtain ⟨f, t, o, r⟩ := sub
  have := hp f
  unfold liftF; wpw_run

theorem featuresSub_safeW (sub : Sub) : SafeW (featuresSub sub) := by
  obtain ⟨f, t, o, r⟩ := sub
  have := featuresField_safeW r
  unfold featuresSub; wpw_run

theorem originSub_safeW (length : Int) (d : Nat) (sub : Sub) : SafeW (originSub length d sub) := by
  obtain ⟨f, t, o, r⟩ := sub
  have := originField_safeW length d
  unfold originSub; wpw_run

theorem fieldParsers_safeW (length : Int) (d : Nat) (hd : 1 ≤ d) :
    ∀ p ∈ fieldParsers length d, ∀ sub, SafeW (p sub) := by
  intro p hp
  simp only [fieldParsers, List.mem_cons, List.not_mem_nil, or_false] at hp
  rcases hp with rfl | rfl | rfl | rfl | rfl | rfl | rfl | rfl | rfl | rfl | rfl
  · exact liftF_safeW _ (definitionField_safeW d hd)
  · exact liftF_safeW _ (accessionField_safeW d)
  · exact liftF_safeW _ (versionField_safeW d)
  · exact liftF_safeW _ (dblinkField_safeW d)
  · exact liftF_safeW _ (keywordsField_safeW d)
  · exact liftF_safeW _ (sourceField_safeW d)
  · exact liftF_safeW _ (referenceField_safeW d)
  · exact liftF_safeW _ (commentField_safeW d)
  · exact featuresSub_safeW
  · exact liftF_safeW _ (contigField_safeW d)
  · exact originSub_safeW length d

theorem tryList_safeW : ∀ (ps : List (Sub → P (Sub × Bool))),
    (∀ p ∈ ps, ∀ sub, SafeW (p sub)) → ∀ sub, SafeW (tryList ps sub)
  | [], _, sub => by unfold tryList; wpw_run
  | p :: rest, hps, sub => by
    have hp : ∀ sub, SafeW (p sub) := hps p (List.mem_cons_self ..)
    have ih := tryList_safeW rest (fun q hq => hps q (List.mem_cons_of_mem _ hq))
    clear hps
    unfold tryList; wpw_run

theorem tryAll_safeW (length : Int) (d : Nat) (hd : 1 ≤ d) (sub : Sub) :
    SafeW (tryAll length d sub) := by
  have h1 := tryList_safeW _ (fieldParsers_safeW length d hd)
  have h2 := extraField_safeW d
  unfold tryAll; wpw_run

/-! ### a successful sub-parser has consumed its field name -/

/-- close a goal whose hypothesis says that a run which fails returned a value -/
macro "run_dead " h:ident : tactic => `(tactic| (
  (repeat (first
    | rw [run_bind] at $h:ident
    | rw [run_patchFrames] at $h:ident
    | rw [run_fail] at $h:ident
    | rw [run_pure] at $h:ident
    | dsimp only at $h:ident));
  cases $h:ident))

theorem strict_fieldName (nm : Bytes) (d : Nat) (hnm : nm ≠ []) : Strict (fieldName nm d) := by
  unfold fieldName
  exact Strict.bind_left (strict_lit nm hnm) (Safe.toW (lit_safe nm)) (fun _ => fieldPadding_safeW _ _)

theorem strict_genericField (nm : Bytes) (d : Nat) (hnm : nm ≠ []) : Strict (genericField nm d) := by
  unfold genericField
  refine Strict.bind_left (strict_fieldName nm d hnm) (fieldName_safeW nm d) (fun v => ?_)
  wpw_run

theorem strict_mapped {α} (p : P α) (hp : Strict p) : Strict (mapped p) := by
  intro s hs a s' h
  unfold mapped at h
  rw [run_bind, run_push] at h
  dsimp only at h
  rw [run_bind, run_attempt] at h
  have hs1 : Sorted (PS.mk s.rest (s.rest :: s.stk)).rest.length (PS.mk s.rest (s.rest :: s.stk)).stk :=
    ⟨Nat.le_refl _, hs⟩
  rcases hr : p.run' ⟨s.rest, s.rest :: s.stk⟩ with ⟨r, s2⟩
  rw [hr] at h
  rcases r with e | b
  · cases e
    · dsimp only at h
      rw [run_bind, run_pop] at h
      split at h <;> run_dead h
    · cases h
  · dsimp only at h
    rw [run_bind, run_drop] at h
    dsimp only at h
    rw [run_pure] at h
    cases h
    exact hp _ hs1 _ s2 hr

theorem strict_accessionField (d : Nat) (f : Fields) : Strict (accessionField d f) := by
  unfold accessionField
  refine Strict.bind_left (strict_mapped _ (strict_genericField _ d (by decide)))
    (mapped_safeW _ (genericField_safeW _ d)) (fun v => ?_)
  wpw_run

theorem strict_versionField (d : Nat) (f : Fields) : Strict (versionField d f) := by
  unfold versionField
  refine Strict.bind_left (strict_mapped _ (strict_genericField _ d (by decide)))
    (mapped_safeW _ (genericField_safeW _ d)) (fun v => ?_)
  wpw_run

theorem strict_commentField (d : Nat) (f : Fields) : Strict (commentField d f) := by
  unfold commentField
  refine Strict.bind_left (strict_mapped _ (strict_genericField _ d (by decide)))
    (mapped_safeW _ (genericField_safeW _ d)) (fun v => ?_)
  wpw_run

theorem strict_sourceField (d : Nat) (f : Fields) : Strict (sourceField d f) := by
  unfold sourceField
  refine Strict.bind_left (strict_mapped _ (strict_genericField _ d (by decide)))
    (mapped_safeW _ (genericField_safeW _ d)) (fun v => ?_)
  intro L n s h
  repeat (first
    | (with_reducible apply wpw_clear (m := n) ‹_›; intro _ _)
    | wpw_step)

theorem strict_dblinkField (d : Nat) (f : Fields) : Strict (dblinkField d f) := by
  unfold dblinkField
  refine Strict.bind_left (strict_fieldName _ d (by decide)) (fieldName_safeW _ d) (fun v => ?_)
  wpw_run

theorem strict_keywordsField (d : Nat) (f : Fields) : Strict (keywordsField d f) := by
  unfold keywordsField
  refine Strict.bind_left (strict_fieldName _ d (by decide)) (fieldName_safeW _ d) (fun v => ?_)
  wpw_run

theorem strict_referenceField (d : Nat) (f : Fields) : Strict (referenceField d f) := by
  unfold referenceField
  refine Strict.bind_left (strict_fieldName _ d (by decide)) (fieldName_safeW _ d) (fun v => ?_)
  wpw_run

theorem strict_contigField (d : Nat) (f : Fields) : Strict (contigField d f) := by
  unfold contigField
  refine Strict.bind_left (strict_fieldName _ d (by decide)) (fieldName_safeW _ d) (fun v => ?_)
  wpw_run

theorem strict_extraField (d : Nat) (f : Fields) : Strict (extraField d f) := by
  unfold extraField
  refine Strict.bind_left (strict_word _) (Safe.toW (word_safe _)) (fun v => ?_)
  wpw_run

/-- `featuresField` is `FEATURES` followed by a tail that keeps the forward invariant -/
theorem featuresField_split (reg : Registry) : ∃ f : Unit → P (List QFeature × Registry),
    featuresField reg = (lit (bs "FEATURES") >>= f) ∧ ∀ v, SafeW (f v) := by
  refine ⟨_, rfl, fun v => ?_⟩
  intro L n s h
  rw [wp_bind]; apply wpw_call h (Safe.toW line_safe); intro r2 s2 h2
  cases r2 with
  | error e => exact stdw h2
  | ok _ =>
    dsimp only
    rw [wp_bind]; apply wpw_clearS h2; intro s3 h3
    dsimp only
    exact wpw_callS h3 (table_safeS reg) (fun _ _ h' => stdw h')

theorem strict_featuresField (reg : Registry) : Strict (featuresField reg) := by
  obtain ⟨f, e, hf⟩ := featuresField_split reg
  rw [e]
  exact Strict.bind_left (strict_lit _ (by decide)) (Safe.toW (lit_safe _)) hf

/-- `originField` is its field name followed by a tail that keeps the forward invariant -/
theorem originField_split (length : Int) (d : Nat) : ∃ f : Nat → P Bytes,
    originField length d = (fieldName (bs "ORIGIN") d >>= f) ∧ ∀ v, SafeW (f v) := by
  refine ⟨_, rfl, fun v => ?_⟩
  intro L n s1 h1
  dsimp only
  rw [wp_bind]; apply wpw_call h1 (Safe.toW line_safe); intro r2 s2 h2
  cases r2 with
  | error e => exact stdw h2
  | ok _ =>
    dsimp only
    rw [wp_bind]; apply wpw_clear (m := n) h2; intro s3 h3
    dsimp only
    split
    · rw [wp_bind, wp_fail]; exact stdw h3
    split
    · rw [wp_bind]; apply wpw_panic; exact stdw h3
    rw [wp_bind]; apply wp_getS
    dsimp only
    split
    · rw [wp_bind, wp_fail]; exact stdw h3
    · split
      · repeat wpw_step
      · rw [wp_bind]; apply wpw_panic; exact stdw h3
      · simp only [slowLines_eq]
        split
        · rw [wp_bind]; apply wpw_panic; exact stdw h3
        · rw [wp_bind, wp_fail]; exact stdw h3
        · rename_i acc st' hp
          rw [wp_bind]; apply wps_setS
          have h4 := h3.advance st' (slowLines_rest_le _ _ _ _ _ _ _ _ hp)
          repeat wpw_step

theorem strict_originField (length : Int) (d : Nat) : Strict (originField length d) := by
  obtain ⟨f, e, hf⟩ := originField_split length d
  rw [e]
  exact Strict.bind_left (strict_fieldName _ d (by decide)) (fieldName_safeW _ d) hf

/-- DEFINITION: the body is read behind the frame the parser pushes; every way out of it other
than the plain success is an error -/
theorem strict_definitionField (d : Nat) (f : Fields) : Strict (definitionField d f) := by
  intro s hs a s' h
  unfold definitionField at h
  rw [run_bind, run_push] at h
  dsimp only at h
  rw [run_bind, run_attempt] at h
  have hs1 : Sorted (PS.mk s.rest (s.rest :: s.stk)).rest.length (PS.mk s.rest (s.rest :: s.stk)).stk :=
    ⟨Nat.le_refl _, hs⟩
  have hbody : Strict (do
      let _ ← fieldName (bs "DEFINITION") d
      let rb := (← getS).rest
      let (b, k) ← fieldBody d 10
      pure (b, k, rb) : P (Bytes × Nat × Bytes)) := by
    refine Strict.bind_left (strict_fieldName _ d (by decide)) (fieldName_safeW _ d) (fun v => ?_)
    wpw_run
  generalize hr : P.run' _ (PS.mk s.rest (s.rest :: s.stk)) = x at h
  rcases x with ⟨r, s2⟩
  rcases r with e | ⟨p, k, rb⟩
  · cases e
    · dsimp only at h
      rw [run_bind, run_pop] at h
      split at h <;> run_dead h
    · cases h
  · dsimp only at h
    have hlt := hbody _ hs1 _ _ hr
    rw [run_bind, run_drop] at h
    dsimp only at h
    split at h
    · split at h <;> run_dead h
    · rw [run_pure] at h
      cases h
      exact hlt

/-! ### `tryAllParsers`: a parsed field has consumed input -/

theorem strict_liftF (p : Fields → P (Fields × Bool)) (hp : ∀ f, Strict (p f)) (hw : ∀ f, SafeW (p f))
    (sub : Sub) : Strict (liftF p sub) := by
  obtain ⟨f, t, o, r⟩ := sub
  unfold liftF
  refine Strict.bind_left (hp f) (hw f) (fun v => ?_)
  wpw_run

theorem strict_featuresSub (sub : Sub) : Strict (featuresSub sub) := by
  obtain ⟨f, t, o, r⟩ := sub
  unfold featuresSub
  refine Strict.bind_left (strict_featuresField r) (featuresField_safeW r) (fun v => ?_)
  wpw_run

theorem strict_originSub (length : Int) (d : Nat) (sub : Sub) : Strict (originSub length d sub) := by
  obtain ⟨f, t, o, r⟩ := sub
  unfold originSub
  refine Strict.bind_left (strict_originField length d) (originField_safeW length d) (fun v => ?_)
  wpw_run

theorem fieldParsers_strict (length : Int) (d : Nat) (hd : 1 ≤ d) :
    ∀ p ∈ fieldParsers length d, ∀ sub, Strict (p sub) := by
  intro p hp
  simp only [fieldParsers, List.mem_cons, List.not_mem_nil, or_false] at hp
  rcases hp with rfl | rfl | rfl | rfl | rfl | rfl | rfl | rfl | rfl | rfl | rfl
  · exact strict_liftF _ (strict_definitionField d) (definitionField_safeW d hd)
  · exact strict_liftF _ (strict_accessionField d) (accessionField_safeW d)
  · exact strict_liftF _ (strict_versionField d) (versionField_safeW d)
  · exact strict_liftF _ (strict_dblinkField d) (dblinkField_safeW d)
  · exact strict_liftF _ (strict_keywordsField d) (keywordsField_safeW d)
  · exact strict_liftF _ (strict_sourceField d) (sourceField_safeW d)
  · exact strict_liftF _ (strict_referenceField d) (referenceField_safeW d)
  · exact strict_liftF _ (strict_commentField d) (commentField_safeW d)
  · exact strict_featuresSub
  · exact strict_liftF _ (strict_contigField d) (contigField_safeW d)
  · exact strict_originSub length d

/-- `tryAllParsers` over sub-parsers that keep the forward invariant and consume when they
succeed: an answer "parsed" (`true`) means input was consumed; every answer is at or after the
entry position -/
theorem tryList_progress : ∀ (ps : List (Sub → P (Sub × Bool))),
    (∀ p ∈ ps, ∀ sub, SafeW (p sub)) → (∀ p ∈ ps, ∀ sub, Strict (p sub)) →
    ∀ (sub : Sub) (L : Nat) (s : PS), Fw L 0 s → ∀ sub' s',
      (tryList ps sub).run' s = (.ok (sub', true), s') → s'.rest.length < L
  | [], _, _, sub, L, s, _, sub', s', h => by
    rw [tryList, run_pure] at h
    cases h
  | p :: rest, hw, hst, sub, L, s, hfw, sub', s', h => by
    have ih := tryList_progress rest (fun q hq => hw q (List.mem_cons_of_mem _ hq))
      (fun q hq => hst q (List.mem_cons_of_mem _ hq))
    have hpw := hw p (List.mem_cons_self ..) sub
    have hps := hst p (List.mem_cons_self ..) sub
    rw [tryList, run_bind, run_push] at h
    dsimp only at h
    have h1 : Fw L 1 ⟨s.rest, s.rest :: s.stk⟩ := hfw.push
    rw [run_bind, run_attempt] at h
    have h2 := hpw L 1 _ h1
    unfold WP StdW at h2
    rcases hr : (p sub).run' ⟨s.rest, s.rest :: s.stk⟩ with ⟨r, s2⟩
    rw [hr] at h h2
    dsimp only at h2
    -- what follows a failed alternative: `Pushed`, `Pop`, the remaining alternatives
    have hrest : ∀ (sub1 : Sub), (do
          if !(← pushed) then fail
          pop
          tryList rest sub1 : P (Sub × Bool)).run' s2 = (.ok (sub', true), s') → s'.rest.length < L := by
      intro sub1 h
      rw [run_bind] at h
      have hpd : pushed.run' s2 = (.ok (!s2.stk.isEmpty), s2) := rfl
      rw [hpd] at h
      dsimp only at h
      split at h
      · run_dead h
      · rw [run_bind] at h
        have h3 := h2.pop
        rcases hp : pop.run' s2 with ⟨r3, s3⟩
        rw [hp] at h h3
        have hok : r3 = .ok () := by
          have := run_pop s2
          rw [hp] at this
          split at this <;> (cases this; rfl)
        subst hok
        dsimp only at h h3
        exact ih sub1 L s3 h3 sub' s' h
    rcases r with e | ⟨sub1, b⟩
    · cases e
      · dsimp only at h
        exact hrest sub h
      · cases h
    · dsimp only at h
      cases b with
      | true =>
        dsimp only at h
        rw [run_bind, run_drop] at h
        dsimp only at h
        rw [run_pure] at h
        cases h
        have := hps _ h1.srt _ _ hr
        have := hfw.le
        show s2.rest.length < L
        dsimp only at *
        omega
      | false =>
        dsimp only at h
        exact hrest sub1 h

/-- one round of `tryAllParsers` from a sorted state: the state stays sorted, the position does
not go back, and a parsed field has consumed input -/
theorem tryAll_progress (length : Int) (d : Nat) (hd : 1 ≤ d) (sub : Sub) (s : PS)
    (hs : Sorted s.rest.length s.stk) (r : Except Err Step) (s' : PS)
    (h : (tryAll length d sub).run' s = (r, s')) :
    Sorted s'.rest.length s'.stk ∧ s'.rest.length ≤ s.rest.length ∧
      ∀ sub', r = .ok (.parsed sub') → s'.rest.length < s.rest.length := by
  have hw := (tryAll_safeW length d hd sub).run hs h
  refine ⟨hw.2, hw.1, ?_⟩
  intro sub' hr
  subst hr
  unfold tryAll at h
  rw [run_bind] at h
  have hl := tryList_safeW _ (fieldParsers_safeW length d hd) sub _ 0 s (Fw.init hs)
  unfold WP StdW at hl
  rcases hrun : (tryList (fieldParsers length d) sub).run' s with ⟨r1, s1⟩
  rw [hrun] at h hl
  dsimp only at hl
  rcases r1 with e | ⟨sub1, b⟩
  · cases h
  · dsimp only at h
    cases b with
    | true =>
      dsimp only at h
      rw [run_pure] at h
      cases h
      exact tryList_progress _ (fieldParsers_safeW length d hd) (fieldParsers_strict length d hd)
        sub _ s (Fw.init hs) _ _ hrun
    | false =>
      obtain ⟨f, t, o, rg⟩ := sub1
      dsimp only at h
      rw [run_bind, run_push] at h
      dsimp only at h
      rw [run_bind, run_attempt] at h
      have hs2 : Sorted (PS.mk s1.rest (s1.rest :: s1.stk)).rest.length (PS.mk s1.rest (s1.rest :: s1.stk)).stk :=
        ⟨Nat.le_refl _, hl.srt⟩
      rcases hx : (extraField d f).run' ⟨s1.rest, s1.rest :: s1.stk⟩ with ⟨r2, s2⟩
      rw [hx] at h
      rcases r2 with e | ⟨f', b'⟩
      · cases e
        · dsimp only at h
          rw [run_bind, run_pop] at h
          split at h <;> run_dead h
        · cases h
      · dsimp only at h
        rw [run_bind, run_drop] at h
        dsimp only at h
        rw [run_pure] at h
        cases h
        have := strict_extraField d f _ hs2 _ _ hx
        have := hl.le
        show s2.rest.length < s.rest.length
        dsimp only at *
        omega

/-! ### the record loop -/

/-- THE FUEL OF THE RECORD LOOP IS ADEQUATE: from a sorted state every iteration either ends the
loop or leaves strictly fewer bytes, so with more fuel than bytes left the outcome and the final
state do not depend on the fuel.  (Indent `depth ≥ 1`; `genbankLocusParser` reports `≥ 5`.) -/
theorem recordLoop_fuel (length : Int) (d : Nat) (hd : 1 ≤ d) : ∀ k k' (sub : Sub) (s : PS),
    Sorted s.rest.length s.stk → s.rest.length < k → s.rest.length < k' →
    (recordLoop length d k sub).run' s = (recordLoop length d k' sub).run' s
  | 0, _, _, _, _, h, _ => absurd h (Nat.not_lt_zero _)
  | _ + 1, 0, _, _, _, _, h => absurd h (Nat.not_lt_zero _)
  | k + 1, k' + 1, sub, s, hs, hk, hk' => by
    have ih := recordLoop_fuel length d hd k k'
    rw [recordLoop, recordLoop, run_bind, run_bind, run_attempt]
    have he := endMark_safeW.run hs (r := (endMark.run' s).1) (s' := (endMark.run' s).2) rfl
    rcases hrun : endMark.run' s with ⟨r0, s1⟩
    rw [hrun] at he
    dsimp only at he
    rcases r0 with e | u
    · cases e
      · dsimp only
        rw [run_bind, run_bind]
        rcases hta : (tryAll length d sub).run' s1 with ⟨r2, s2⟩
        have hp := tryAll_progress length d hd sub s1 he.2 r2 s2 hta
        rcases r2 with e | st
        · rfl
        · dsimp only
          cases st with
          | parsed sub' =>
            dsimp only
            have := hp.2.2 sub' rfl
            exact ih sub' s2 hp.1 (by omega) (by omega)
          | skip sub' =>
            dsimp only
            rw [run_bind, run_bind, run_line]
            dsimp only
            rw [run_bind, run_bind, run_getS]
            dsimp only
            split
            · rfl
            · rename_i hne
              have hne2 : s2.rest ≠ [] := by
                intro h0
                apply hne
                rw [h0]; rfl
              have hlt := splitLine_lt s2.rest hne2
              have hle := hp.2.1
              refine ih sub' _ (hp.1.mono (Nat.le_of_lt hlt)) ?_ ?_
              · show (Origin.splitLine s2.rest).2.length < k; omega
              · show (Origin.splitLine s2.rest).2.length < k'; omega
      · rfl
    · rfl

end Gts.GenBank
