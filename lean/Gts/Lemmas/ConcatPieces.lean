/-
  slice*;concat as a PROGRAM (audit finding S8): `Seq.concat (pieces s cuts)` with
  `pieces` built by `Seq.slice` on the forward windows between consecutive cuts of
  `0 :: cuts ++ [L]`, as the harness does.  Residues, the feature table as a permutation of the
  re-located pieces (offset = running length = the window start; the first piece is not offset),
  and the denotation of every piece.  Core Lean only.
-/
import Gts.Lemmas.Window
import Gts.Lemmas.SliceWrap
import Gts.Lemmas.Guest
import Gts.Lemmas.Record
import Gts.Lemmas.Table
import Gts.Lemmas.CliExtractFeatLoc
namespace Gts
open Loc

theorem flatMap_congr_mem {α β : Type} (l : List α) (f g : α → List β) (h : ∀ x ∈ l, f x = g x) :
    l.flatMap f = l.flatMap g := by
  induction l with
  | nil => rfl
  | cons a l ih =>
    simp only [List.flatMap_cons]
    rw [h a (List.mem_cons_self ..), ih (fun x hx => h x (List.mem_cons_of_mem _ hx))]

namespace Seq

/-- the windows between consecutive cut points of `0 :: cuts ++ [L]` -/
def windowsFrom (a : Int) (pts : List Int) : List (Int × Int) := (a :: pts).zip pts

def windows (L : Int) (cuts : List Int) : List (Int × Int) := windowsFrom 0 (cuts ++ [L])

/-- the pieces `gts.Slice(seq, c_j, c_{j+1})` of a record cut at `cuts` -/
def pieces (s : Seq) (cuts : List Int) : List Seq := (windows s.len cuts).map fun w => s.slice w.1 w.2

/-- the cut points are sorted (repeats, a cut at 0 and a cut at the length allowed) -/
def CutsOk (L : Int) (cuts : List Int) : Prop := (0 :: cuts ++ [L]).Pairwise (· ≤ ·)

/-- the location `gts.Slice` gives a surviving feature on the forward window `[a, b)`:
`sliceLoc`, and `asComplete` of it when the key is `source` -/
def pieceLoc (f : Feature) (a b L : Int) : Loc :=
  if f.key = "source" then (sliceLoc f.loc a b L).asComplete else sliceLoc f.loc a b L

/-- the features of the piece `[a, b)` as `Seq.slice` produces them -/
def pieceFeats (s : Seq) (w : Int × Int) : List Feature :=
  (s.feats.filter fun f => f.loc.overlap w.1 w.2).map fun f => { f with loc := pieceLoc f w.1 w.2 s.len }

/-- … re-located by `Concat` with offset `w.1` -/
def pieceFeatsBack (s : Seq) (w : Int × Int) : List Feature :=
  (pieceFeats s w).map fun f => { f with loc := f.loc.expand 0 w.1 }

theorem slice_fwd_eq (s : Seq) (a b : Int) (h0 : 0 ≤ a) (hab : a ≤ b) : s.slice a b = s.sliceFwd a b := by
  unfold Seq.slice
  simp only [if_neg (show ¬ a < 0 by omega), if_neg (show ¬ b < 0 by omega), if_neg (show ¬ b < a by omega)]

theorem sliceFwd_feats (s : Seq) (a b : Int) : (s.sliceFwd a b).feats = pieceFeats s (a, b) := by
  simp only [Seq.sliceFwd, pieceFeats, pieceLoc]
  apply List.map_congr_left
  intro f _
  split <;> rfl

theorem sliceFwd_len (s : Seq) (a b : Int) (h0 : 0 ≤ a) (hab : a ≤ b) (hb : b ≤ s.len) :
    (s.sliceFwd a b).len = b - a := by
  simp only [Seq.sliceFwd, Seq.len, List.length_take, List.length_drop] at hb ⊢
  omega

/-! ### residues -/

theorem pieces_bytes_aux (bs : List UInt8) :
    ∀ (pts : List Int) (a : Int), 0 ≤ a → (a :: pts).Pairwise (· ≤ ·) → (a :: pts).getLast? = some (bs.length : Int) →
      (((a :: pts).zip pts).flatMap fun w => (bs.drop w.1.toNat).take (w.2 - w.1).toNat) = bs.drop a.toNat
  | [], a, _, _, hl => by
      simp only [List.getLast?_singleton, Option.some.injEq] at hl
      subst hl
      simp
  | b :: pts, a, h0, hs, hl => by
      have hab : a ≤ b := (List.pairwise_cons.mp hs).1 b (List.mem_cons_self ..)
      have ih := pieces_bytes_aux bs pts b (by omega) (List.Pairwise.of_cons hs) (by simpa using hl)
      simp only [List.zip_cons_cons, List.flatMap_cons]
      rw [ih]
      have : bs.drop b.toNat = (bs.drop a.toNat).drop (b - a).toNat := by
        rw [List.drop_drop]; congr 1; omega
      rw [this, List.take_append_drop]

theorem concat_bytes_flatten (l : List Seq) : (Seq.concat l).bytes = (l.map (·.bytes)).flatten := by
  cases l with
  | nil => rfl
  | cons s ss =>
    simp only [Seq.concat, List.map_cons, List.flatten_cons]
    induction ss generalizing s with
    | nil => simp
    | cons t ts ih =>
      simp only [List.foldl_cons, List.map_cons, List.flatten_cons]
      rw [ih]
      simp [Seq.concat2, List.append_assoc]

/-- membership in a chain of windows: both ends lie between the first and the last cut, in order -/
theorem mem_windowsFrom (pts : List Int) : ∀ (a L : Int), (a :: pts).Pairwise (· ≤ ·) →
    (a :: pts).getLast? = some L → ∀ w ∈ windowsFrom a pts, a ≤ w.1 ∧ w.1 ≤ w.2 ∧ w.2 ≤ L := by
  induction pts with
  | nil => intro a L _ _ w hw; simp [windowsFrom] at hw
  | cons b pts ih =>
    intro a L hs hl w hw
    have hab : a ≤ b := (List.pairwise_cons.mp hs).1 b (List.mem_cons_self ..)
    have hl' : (b :: pts).getLast? = some L := by simpa using hl
    simp only [windowsFrom, List.zip_cons_cons, List.mem_cons] at hw
    rcases hw with rfl | hw
    · refine ⟨Int.le_refl _, hab, ?_⟩
      have : b ∈ (b :: pts) := List.mem_cons_self ..
      have hL : L ∈ (b :: pts) := List.mem_of_getLast? hl'
      rcases List.mem_cons.mp hL with rfl | hL
      · exact Int.le_refl _
      · exact (List.pairwise_cons.mp (List.Pairwise.of_cons hs)).1 L hL
    · have := ih b L (List.Pairwise.of_cons hs) hl' w hw
      omega

theorem mem_windows {L : Int} {cuts : List Int} (h : CutsOk L cuts) :
    ∀ w ∈ windows L cuts, 0 ≤ w.1 ∧ w.1 ≤ w.2 ∧ w.2 ≤ L := by
  apply mem_windowsFrom (cuts ++ [L]) 0 L h
  rw [← List.cons_append, List.getLast?_append]; rfl

/-- every position of `[a, L)` lies in a window (sorted cuts, repeats allowed) -/
theorem windows_cover (pts : List Int) : ∀ (a L x : Int), (a :: pts).Pairwise (· ≤ ·) →
    (a :: pts).getLast? = some L → a ≤ x → x < L → ∃ w ∈ windowsFrom a pts, w.1 ≤ x ∧ x < w.2 := by
  induction pts with
  | nil => intro a L x _ hl; simp at hl; omega
  | cons b pts ih =>
    intro a L x hs hl h0 h1
    by_cases hx : x < b
    · exact ⟨(a, b), by simp [windowsFrom], h0, hx⟩
    · obtain ⟨w, hw, hw2⟩ := ih b L x (List.Pairwise.of_cons hs) (by simpa using hl) (by omega) h1
      exact ⟨w, by simp only [windowsFrom, List.zip_cons_cons, List.mem_cons] at hw ⊢; exact Or.inr hw, hw2⟩

/-! ### the feature table of `Concat` over a chain of pieces -/

theorem concat2_feats_perm' (a b : Seq) :
    (Seq.concat2 a b).feats.Perm (a.feats ++ b.feats.map fun f => { f with loc := f.loc.expand 0 a.len }) := by
  unfold Seq.concat2
  exact Table.insertAll_perm _ _

theorem concat2_len (a b : Seq) : (Seq.concat2 a b).len = a.len + b.len := by
  simp [Seq.concat2, Seq.len]

/-- folding `concat2` over the pieces of a chain of windows that starts where the accumulator ends:
each piece is offset by its own window start -/
theorem foldl_concat2_chain (s : Seq) : ∀ (pts : List Int) (a : Int) (acc : Seq), 0 ≤ a →
    (a :: pts).Pairwise (· ≤ ·) → (∀ L, (a :: pts).getLast? = some L → L ≤ s.len) → acc.len = a →
    (((windowsFrom a pts).map fun w => s.slice w.1 w.2).foldl Seq.concat2 acc).feats.Perm
      (acc.feats ++ (windowsFrom a pts).flatMap (pieceFeatsBack s))
  | [], a, acc, _, _, _, _ => by simp [windowsFrom]
  | b :: pts, a, acc, h0, hs, hL, hacc => by
      have hab : a ≤ b := (List.pairwise_cons.mp hs).1 b (List.mem_cons_self ..)
      have hbL : b ≤ s.len := by
        have hs' := List.Pairwise.of_cons hs
        cases hp : (b :: pts).getLast? with
        | none => simp at hp
        | some L =>
          have hLm : L ∈ (b :: pts) := List.mem_of_getLast? hp
          have h1 : L ≤ s.len := hL L (by simpa using hp)
          rcases List.mem_cons.mp hLm with rfl | hLm
          · exact h1
          · have := (List.pairwise_cons.mp hs').1 L hLm; omega
      simp only [windowsFrom, List.zip_cons_cons, List.map_cons, List.foldl_cons, List.flatMap_cons]
      rw [slice_fwd_eq s a b h0 hab]
      have ih := foldl_concat2_chain s pts b (Seq.concat2 acc (s.sliceFwd a b)) (by omega)
        (List.Pairwise.of_cons hs) (fun L h => hL L (by simpa using h))
        (by rw [concat2_len, sliceFwd_len s a b h0 hab hbL]; omega)
      refine ih.trans ?_
      rw [← List.append_assoc]
      apply List.Perm.append_right
      refine (concat2_feats_perm' acc _).trans ?_
      rw [sliceFwd_feats, hacc]
      exact List.Perm.refl _

/-- the table of `Concat` over the pieces: the first piece as `Slice` left it, every later piece offset
by its window start (= the running length) -/
theorem concat_pieces_feats_perm (s : Seq) (cuts : List Int) (h : CutsOk s.len cuts) :
    ∃ w0 ws, windows s.len cuts = w0 :: ws ∧ w0.1 = 0 ∧
      (Seq.concat (pieces s cuts)).feats.Perm (pieceFeats s w0 ++ ws.flatMap (pieceFeatsBack s)) := by
  obtain ⟨c, pts, hc⟩ : ∃ c pts, cuts ++ [s.len] = c :: pts := by
    cases cuts with
    | nil => exact ⟨_, _, rfl⟩
    | cons c cs => exact ⟨_, _, rfl⟩
  have hl : (c :: pts).getLast? = some s.len := by rw [← hc, List.getLast?_append]; rfl
  have hs : (0 :: c :: pts).Pairwise (· ≤ ·) := by
    have := h; unfold CutsOk at this; rwa [List.cons_append, hc] at this
  have h0c : 0 ≤ c := (List.pairwise_cons.mp hs).1 c (List.mem_cons_self ..)
  have hcL : c ≤ s.len := by
    have hm : s.len ∈ (c :: pts) := List.mem_of_getLast? hl
    rcases List.mem_cons.mp hm with e | hm
    · omega
    · exact (List.pairwise_cons.mp (List.Pairwise.of_cons hs)).1 _ hm
  refine ⟨(0, c), windowsFrom c pts, ?_, rfl, ?_⟩
  · simp only [windows, hc, windowsFrom, List.zip_cons_cons]
  · have hp : pieces s cuts = s.slice 0 c :: (windowsFrom c pts).map fun w => s.slice w.1 w.2 := by
      simp only [pieces, windows, hc, windowsFrom, List.zip_cons_cons, List.map_cons]
    rw [hp]
    simp only [Seq.concat]
    have hf := foldl_concat2_chain s pts c (s.slice 0 c) h0c (List.Pairwise.of_cons hs)
      (fun L hL => by rw [hl] at hL; cases hL; exact Int.le_refl _)
      (by rw [slice_fwd_eq s 0 c (Int.le_refl _) h0c, sliceFwd_len s 0 c (Int.le_refl _) h0c hcL]; omega)
    rw [slice_fwd_eq s 0 c (Int.le_refl _) h0c, sliceFwd_feats] at hf
    rw [slice_fwd_eq s 0 c (Int.le_refl _) h0c]
    exact hf

end Seq

/-! ### the denotation of one piece -/

namespace Loc

theorem window_back (a b : Int) (d : List Pos) :
    mapPos (· + a) (filterMapPos (winMap a b) d) = d.filter (fun p => decide (a ≤ p.1 ∧ p.1 < b)) := by
  induction d with
  | nil => rfl
  | cons p ps ih =>
    simp only [filterMapPos, mapPos, List.filterMap_cons, List.filter_cons, winMap] at ih ⊢
    by_cases c : a ≤ p.1 ∧ p.1 < b
    · simp only [c, and_self, if_true, Option.map_some, decide_true, List.map_cons]
      rw [ih]
      congr 1
      apply Prod.ext
      · simp only; omega
      · rfl
    · simp only [c, if_false, Option.map_none, decide_false]
      exact ih

theorem window_zero (b : Int) (d : List Pos) :
    filterMapPos (winMap 0 b) d = d.filter (fun p => decide (0 ≤ p.1 ∧ p.1 < b)) := by
  rw [← window_back 0 b d]
  generalize filterMapPos (winMap 0 b) d = e
  simp only [mapPos, Int.add_zero]
  exact (List.map_id' e).symm

end Loc
end Gts
