/-
  Coordinate invariants: a predicate that holds for every coordinate of the arguments of
  Push / Join / Order holds for every coordinate of the result (Push only ever copies
  coordinates).  Used for "no resulting location refers to a position outside the new
  sequence".  Core Lean only.
-/
import Gts.Lemmas.Order
namespace Gts
namespace Loc

mutual
/-- every coordinate of the location satisfies `p` -/
def coordsAll (p : Int → Bool) : Loc → Bool
  | between x => p x
  | point x => p x && p (x + 1)
  | ranged s e _ _ => p s && p e
  | ambiguous s e => p s && p e
  | joined ls => coordsAllList p ls
  | ordered ls => coordsAllList p ls
  | compl l => coordsAll p l
def coordsAllList (p : Int → Bool) : List Loc → Bool
  | [] => true
  | l :: ls => coordsAll p l && coordsAllList p ls
end

@[simp] theorem coordsAllList_nil (p : Int → Bool) : coordsAllList p [] = true := by simp [coordsAllList]
@[simp] theorem coordsAllList_cons (p : Int → Bool) (l : Loc) (ls : List Loc) :
    coordsAllList p (l :: ls) = (coordsAll p l && coordsAllList p ls) := by simp [coordsAllList]

theorem coordsAllList_append (p : Int → Bool) (a b : List Loc) :
    coordsAllList p (a ++ b) = (coordsAllList p a && coordsAllList p b) := by
  induction a with
  | nil => simp
  | cons x xs ih => simp [ih, Bool.and_assoc]

theorem coordsAllList_reverse (p : Int → Bool) (a : List Loc) :
    coordsAllList p a.reverse = coordsAllList p a := by
  induction a with
  | nil => simp
  | cons x xs ih => simp [coordsAllList_append, ih, Bool.and_comm]

theorem coordsAll_ofParts (p : Int → Bool) (j : List Loc) (h : coordsAllList p j = true) :
    coordsAll p (ofParts j) = true := by
  match j, h with
  | [], _ => simp [ofParts, coordsAll]
  | [a], h => simpa [ofParts] using h
  | a :: b :: r, h => simpa [ofParts, coordsAll] using h

/-- a push function keeps the coordinate invariant -/
def KeepsCoords (p : Int → Bool) (low : List Loc → Loc → Bool → List Loc) : Prop :=
  ∀ racc x f, coordsAllList p racc = true → coordsAll p x = true → coordsAllList p (low racc x f) = true

theorem fold_coords {p low} (h : KeepsCoords p low) (f : Bool) :
    ∀ (ys racc : List Loc), coordsAllList p racc = true → coordsAllList p ys = true →
      coordsAllList p (ys.foldl (fun acc y => low acc y f) racc) = true := by
  intro ys
  induction ys with
  | nil => intro racc hr _; simpa using hr
  | cons y ys ih =>
    intro racc hr hys
    simp only [coordsAllList_cons, Bool.and_eq_true] at hys
    exact ih _ (h racc y f hr hys.1) hys.2

theorem pushOne_coords {p low} (h : KeepsCoords p low) (racc : List Loc) (x : Loc) (f : Bool)
    (hr : coordsAllList p racc = true) (hx : coordsAll p x = true) :
    coordsAllList p (pushOne low racc x f) = true := by
  cases racc with
  | nil => simp [pushOne, hx]
  | cons v rest =>
    simp only [coordsAllList_cons, Bool.and_eq_true] at hr
    obtain ⟨hv, hrest⟩ := hr
    by_cases hcc : (∃ vl ul, v = compl vl ∧ x = compl ul)
    · obtain ⟨vl, ul, rfl, rfl⟩ := hcc
      have hvl : coordsAll p vl = true := by simpa [coordsAll] using hv
      have hul : coordsAll p ul = true := by simpa [coordsAll] using hx
      have h1 : coordsAllList p (low [ul] vl f) = true := h [ul] vl f (by simp [hul]) hvl
      have h2 := fold_coords h true (low [ul] vl f).reverse [] (by simp)
        (by rw [coordsAllList_reverse]; exact h1)
      simp only [pushOne, coordsAllList_cons, hrest, Bool.and_true]
      show coordsAll p (ofParts _) = true
      apply coordsAll_ofParts
      rw [coordsAllList_reverse]
      exact h2
    · cases v <;> cases x <;>
        (first | (exfalso; exact hcc ⟨_, _, rfl, rfl⟩) | skip) <;>
        simp only [pushOne] <;>
        (try split) <;>
        simp_all [coordsAll]

mutual
theorem pushW_coords {p low} (h : KeepsCoords p low) :
    ∀ (x : Loc) (racc : List Loc) (f : Bool), coordsAllList p racc = true → coordsAll p x = true →
      coordsAllList p (pushW low racc x f) = true
  | joined parts, racc, f, hr, hx => by
      simpa [pushW] using pushListW_coords h parts racc f hr (by simpa [coordsAll] using hx)
  | between q, racc, f, hr, hx => by simpa [pushW] using pushOne_coords h racc (between q) f hr hx
  | point q, racc, f, hr, hx => by simpa [pushW] using pushOne_coords h racc (point q) f hr hx
  | ranged s e a b, racc, f, hr, hx => by simpa [pushW] using pushOne_coords h racc (ranged s e a b) f hr hx
  | ambiguous s e, racc, f, hr, hx => by simpa [pushW] using pushOne_coords h racc (ambiguous s e) f hr hx
  | ordered ls, racc, f, hr, hx => by simpa [pushW] using pushOne_coords h racc (ordered ls) f hr hx
  | compl l, racc, f, hr, hx => by simpa [pushW] using pushOne_coords h racc (compl l) f hr hx
theorem pushListW_coords {p low} (h : KeepsCoords p low) :
    ∀ (ps : List Loc) (racc : List Loc) (f : Bool), coordsAllList p racc = true →
      coordsAllList p ps = true → coordsAllList p (pushListW low racc ps f) = true
  | [], racc, f, hr, _ => by simpa [pushListW] using hr
  | q :: ps, racc, f, hr, hps => by
      simp only [coordsAllList_cons, Bool.and_eq_true] at hps
      simpa [pushListW] using
        pushListW_coords h ps _ f (pushW_coords h q racc f hr hps.1) hps.2
end

theorem pushD_coords (p : Int → Bool) : ∀ d, KeepsCoords p (pushD d)
  | 0 => fun racc x f hr hx => by simp [pushD, hr, hx]
  | d + 1 => fun racc x f hr hx => pushW_coords (pushD_coords p d) x racc f hr hx

/-- `Join` only copies coordinates of its arguments -/
theorem join_coords (p : Int → Bool) (xs : List Loc) (h : coordsAllList p xs = true) :
    coordsAll p (join xs) = true := by
  have := fold_coords (pushD_coords p pushFuel) true xs [] (by simp) h
  apply coordsAll_ofParts
  rw [coordsAllList_reverse]
  exact this

mutual
theorem coordsAllList_flattenOrd (p : Int → Bool) : ∀ (l : Loc), coordsAll p l = true →
    coordsAllList p (flattenOrd l) = true
  | ordered ls, h => by simpa [flattenOrd] using coordsAllList_flattenOrdList p ls (by simpa [coordsAll] using h)
  | between q, h => by simpa [flattenOrd] using h
  | point q, h => by simpa [flattenOrd] using h
  | ranged s e a b, h => by simpa [flattenOrd] using h
  | ambiguous s e, h => by simpa [flattenOrd] using h
  | joined ls, h => by simpa [flattenOrd] using h
  | compl l, h => by simpa [flattenOrd] using h
theorem coordsAllList_flattenOrdList (p : Int → Bool) : ∀ (ls : List Loc), coordsAllList p ls = true →
    coordsAllList p (flattenOrdList ls) = true
  | [], _ => by simp [flattenOrdList]
  | l :: ls, h => by
      simp only [coordsAllList_cons, Bool.and_eq_true] at h
      simp [flattenOrdList, coordsAllList_append, coordsAllList_flattenOrd p l h.1,
        coordsAllList_flattenOrdList p ls h.2]
end

theorem order_coords (p : Int → Bool) (xs : List Loc) (h : coordsAllList p xs = true) :
    coordsAll p (order xs) = true := by
  unfold order
  have := coordsAllList_flattenOrdList p xs h
  revert this
  generalize flattenOrdList xs = j
  intro hj
  match j, hj with
  | [], _ => simp [coordsAll]
  | [a], hj => simpa using hj
  | a :: b :: r, hj => simpa [coordsAll] using hj

end Loc
end Gts
