/-
  C01: closure of the writable domain under the edit operations — the part that concerns `Writable`
  (header fields, feature keys, qualifiers, residues); the shape of the new LOCATIONS is C02–C06.
  `Writable` looks at the table only through the (key, Props) pairs of its features and at the
  residues only through "printable, fewer than 10^9, the LOCUS length"; every edit keeps the header
  (`GenBankFields` implements neither Shift nor Expand: `tryShift` / `tryExpand` return it as it
  is), keeps key and Props of every feature it keeps, and builds the residues from the residues.
  Core Lean only.
-/
import Gts.Lemmas.GbCompose
import Gts.Lemmas.Table
import Gts.Lemmas.Nuc
import Gts.Model.SeqNuc
import Gts.Spec.LocCanon
namespace Gts.GenBank
open Gts.Pars

/-- a `gts.Feature` as the GenBank writer sees it (strings as bytes) -/
def qfeature (f : Feature) : QFeature := ⟨bs f.key, f.loc, f.props.map fun row => row.map bs⟩

/-- `GenBank{F, table, NewOrigin(bytes)}`: the record `WithFeatures` / `WithBytes` build from the
result of an edit, the header `F` untouched -/
def ofSeq (F : Fields) (s : Seq) : Record := ⟨F, s.feats.map qfeature, .residues s.bytes⟩

/-- `g` is a feature of the table `t` up to its location -/
def FromTable (t : List Feature) (g : Feature) : Prop := ∃ f ∈ t, g.key = f.key ∧ g.props = f.props

theorem featOk_congr (reg : Registry) (f g : QFeature) (hk : g.key = f.key) (hp : g.props = f.props) :
    (featOk reg g && propsOk g.props) = (featOk reg f && propsOk f.props) := by
  simp only [featOk, hk, hp]

theorem tableClause_of_all (reg : Registry) (t' : List QFeature) :
    (∀ x ∈ t', (featOk reg x && propsOk x.props) = true) →
    (match t' with | [] => true | _ :: _ => tableWritable reg t') = true := by
  cases t' with
  | nil => intro _; rfl
  | cons g gs =>
    intro hall
    simp only [tableWritable, List.all_eq_true]
    exact hall

theorem tl_le (n : Nat) : Origin.tl n ≤ 2 * n + 100 := by
  unfold Origin.tl
  split <;> (try split) <;> omega

/-- what `Writable` asks of one feature -/
def FeatW (reg : Registry) (g : Feature) : Prop :=
  (featOk reg (qfeature g) && propsOk (qfeature g).props) = true

theorem writable_feats (reg : Registry) (F : Fields) (s : Seq) (hw : Writable reg (ofSeq F s) s.bytes = true) :
    ∀ f ∈ s.feats, FeatW reg f := by
  obtain ⟨_, _, _, _, htw, _⟩ := writable_parts reg (ofSeq F s) s.bytes hw
  intro f hf
  have hm : qfeature f ∈ (ofSeq F s).table := List.mem_map.mpr ⟨f, hf, rfl⟩
  revert htw hm
  cases (ofSeq F s).table with
  | nil => intro _ hm; simp at hm
  | cons a as =>
    intro htw hm
    simp only [tableWritable, List.all_eq_true] at htw
    exact htw _ hm

theorem featW_fromTable (reg : Registry) (t : List Feature) (h : ∀ f ∈ t, FeatW reg f) (g : Feature)
    (hg : FromTable t g) : FeatW reg g := by
  obtain ⟨f, hf, hk, hp⟩ := hg
  have := h f hf
  unfold FeatW at this ⊢
  rw [featOk_congr reg (qfeature f) (qfeature g) (by simp [qfeature, hk]) (by simp [qfeature, hp])]
  exact this

/-- **frame theorem**: a record with the same header, whose features all have a writable key and
writable qualifiers (true of every feature that carries key and `Props` of a feature of the old table), whose residues are printable, and whose LOCUS length is the old one, or
positive and below 10^9, or zero without CONTIG, is `Writable` again -/
theorem writable_frame (reg : Registry) (F : Fields) (t t' : List QFeature) (o o' : OriginV) (p p' : Bytes)
    (hw : Writable reg ⟨F, t, o⟩ p = true)
    (hall : ∀ x ∈ t', (featOk reg x && propsOk x.props) = true)
    (hbase : p'.all Origin.isBase = true) (hlen : p'.length < 10 ^ 9)
    (hL : locusLength F p' = locusLength F p ∨ 0 < p'.length ∨ F.contigAcc.isEmpty = true) :
    Writable reg ⟨F, t', o'⟩ p' = true := by
  obtain ⟨hlocus, hrange, hmol, hh, htw, hc, hp, hlen0⟩ := writable_parts reg ⟨F, t, o⟩ p hw
  simp only at hlocus hrange hmol hh htw hc
  -- the LOCUS length
  have hLok : locusOk F (locusLength F p') = true ∧ Origin.toOriginLength (locusLength F p') ≤ 9223372036854775807 := by
    have hnat : ∀ n : Nat, n < 10 ^ 9 → locusOk F (n : Int) = true ∧ Origin.toOriginLength (n : Int) ≤ 9223372036854775807 := by
      intro n hn
      constructor
      · simp only [locusOk, Bool.and_eq_true, decide_eq_true_eq] at hlocus ⊢
        exact ⟨hlocus.1, by omega, by omega⟩
      · rw [Origin.toOriginLength_nat]
        have := tl_le n
        omega
    rcases hL with hL | hL | hL
    · rw [hL]; exact ⟨hlocus, hrange⟩
    · have : locusLength F p' = (p'.length : Int) := by
        cases p' with
        | nil => simp at hL
        | cons c p' => simp [locusLength]
      rw [this]; exact hnat _ hlen
    · by_cases hpe : p'.isEmpty = true
      · simp only [hL, if_true, decide_eq_true_eq] at hc
        have : locusLength F p' = ((0 : Nat) : Int) := by simp [locusLength, hpe, contigLen, hc.1, hc.2]
        rw [this]; exact hnat 0 (by omega)
      · have : locusLength F p' = (p'.length : Int) := by simp [locusLength, hpe]
        rw [this]; exact hnat _ hlen
  -- the table
  have htw' := tableClause_of_all reg t' hall
  simp only [Writable, Bool.and_eq_true, decide_eq_true_eq]
  exact ⟨⟨⟨⟨⟨⟨⟨hLok.1, hLok.2⟩, hmol⟩, hh⟩, htw'⟩, hc⟩, hbase⟩, hlen⟩

/-- the frame theorem for records built with `ofSeq` -/
theorem writable_ofSeq (reg : Registry) (F : Fields) (s s' : Seq)
    (hw : Writable reg (ofSeq F s) s.bytes = true)
    (htab : ∀ g ∈ s'.feats, FeatW reg g)
    (hbase : ∀ c ∈ s'.bytes, Origin.isBase c = true) (hlen : s'.bytes.length < 10 ^ 9)
    (hL : s'.bytes.length = s.bytes.length ∨ 0 < s'.bytes.length ∨ F.contigAcc.isEmpty = true) :
    Writable reg (ofSeq F s') s'.bytes = true := by
  apply writable_frame reg F (s.feats.map qfeature) _ (.residues s.bytes) _ s.bytes s'.bytes hw
  · intro g hg
    obtain ⟨g0, hg0, rfl⟩ := List.mem_map.mp hg
    exact htab g0 hg0
  · exact List.all_eq_true.mpr hbase
  · exact hlen
  · rcases hL with h | h | h
    · left
      unfold locusLength
      have : s'.bytes.isEmpty = s.bytes.isEmpty := by
        cases h1 : s'.bytes <;> cases h2 : s.bytes <;> simp_all
      rw [this, h]
    · exact Or.inr (Or.inl h)
    · exact Or.inr (Or.inr h)

theorem writable_bytes (reg : Registry) (F : Fields) (s : Seq) (hw : Writable reg (ofSeq F s) s.bytes = true) :
    (∀ c ∈ s.bytes, Origin.isBase c = true) ∧ s.bytes.length < 10 ^ 9 := by
  obtain ⟨_, _, _, _, _, _, hp, hlen⟩ := writable_parts reg (ofSeq F s) s.bytes hw
  exact ⟨List.all_eq_true.mp hp, hlen⟩

/-! ### the tables the edits build -/

theorem fromTable_self (t : List Feature) (f : Feature) (h : f ∈ t) : FromTable t f := ⟨f, h, rfl, rfl⟩

theorem fromTable_mono {t u : List Feature} (h : ∀ f ∈ t, f ∈ u) {g : Feature} (hg : FromTable t g) :
    FromTable u g := by
  obtain ⟨f, hf, hk⟩ := hg
  exact ⟨f, h f hf, hk⟩

/-- a table mapped location by location -/
theorem fromTable_mapLoc (t : List Feature) (φ : Feature → Loc) :
    ∀ g ∈ t.map (fun f => { f with loc := φ f }), FromTable t g := by
  intro g hg
  obtain ⟨f, hf, rfl⟩ := List.mem_map.mp hg
  exact ⟨f, hf, rfl, rfl⟩

/-- `FeatureSlice.Insert` one by one: the same features -/
theorem mem_insertAll (acc fs : List Feature) (g : Feature) :
    g ∈ Table.insertAll acc fs ↔ g ∈ acc ∨ g ∈ fs := by
  rw [(Table.insertAll_perm acc fs).mem_iff, List.mem_append]

theorem complementByte_base : ∀ c : UInt8, Origin.isBase c = true → Origin.isBase (Nuc.complementByte c) = true :=
  Nuc.forall_uint8 (by decide +kernel)

/-! ### the edits, one by one -/

theorem featW_mapLoc (reg : Registry) (t : List Feature) (h : ∀ f ∈ t, FeatW reg f) (φ : Feature → Loc) :
    ∀ g ∈ t.map (fun f => { f with loc := φ f }), FeatW reg g :=
  fun g hg => featW_fromTable reg t h g (fromTable_mapLoc t φ g hg)

theorem featW_insertAll (reg : Registry) (acc fs : List Feature) (h1 : ∀ f ∈ acc, FeatW reg f)
    (h2 : ∀ f ∈ fs, FeatW reg f) : ∀ g ∈ Table.insertAll acc fs, FeatW reg g := by
  intro g hg
  rcases (mem_insertAll acc fs g).mp hg with h | h
  · exact h1 g h
  · exact h2 g h

/-- `gts.Reverse` -/
theorem writable_reverse (reg : Registry) (F : Fields) (s : Seq) (hw : Writable reg (ofSeq F s) s.bytes = true) :
    Writable reg (ofSeq F s.reverse) s.reverse.bytes = true := by
  obtain ⟨hb, hl⟩ := writable_bytes reg F s hw
  have hf := writable_feats reg F s hw
  apply writable_ofSeq reg F s _ hw
  · exact featW_insertAll reg [] _ (by simp) (featW_mapLoc reg s.feats hf _)
  · intro c hc
    exact hb c (by simpa [Seq.reverse] using hc)
  · simpa [Seq.reverse] using hl
  · left; simp [Seq.reverse]

/-- `gts.Complement` (the record `Seq.complementRec` returns) -/
theorem writable_complement (reg : Registry) (F : Fields) (s : Seq) (hw : Writable reg (ofSeq F s) s.bytes = true) :
    Writable reg (ofSeq F ⟨s.feats.map fun f => { f with loc := f.loc.complement }, s.bytes.map Nuc.complementByte⟩)
      (s.bytes.map Nuc.complementByte) = true := by
  obtain ⟨hb, hl⟩ := writable_bytes reg F s hw
  have hf := writable_feats reg F s hw
  apply writable_ofSeq reg F s ⟨_, _⟩ hw
  · exact featW_mapLoc reg s.feats hf _
  · intro c hc
    obtain ⟨c0, hc0, rfl⟩ := List.mem_map.mp hc
    exact complementByte_base c0 (hb c0 hc0)
  · simpa using hl
  · left; simp

theorem complementRec_eq (s : Seq) :
    s.complementRec = some ⟨s.feats.map fun f => { f with loc := f.loc.complement }, s.bytes.map Nuc.complementByte⟩ := by
  have : Nuc.complementBytes s.bytes = some (s.bytes.map Nuc.complementByte) :=
    Nuc.replaceBytes_eq_map s.bytes _ _ (Nuc.forall_uint8 (by decide +kernel))
  simp [Seq.complementRec, this]

/-- `gts.Rotate` -/
theorem writable_rotate (reg : Registry) (F : Fields) (s : Seq) (n : Int)
    (hw : Writable reg (ofSeq F s) s.bytes = true) :
    Writable reg (ofSeq F (s.rotate n)) (s.rotate n).bytes = true := by
  obtain ⟨hb, hl⟩ := writable_bytes reg F s hw
  have hf := writable_feats reg F s hw
  have hlen : (s.rotate n).bytes.length = s.bytes.length := by
    simp only [Seq.rotate, List.length_append, List.length_drop, List.length_take]
    omega
  apply writable_ofSeq reg F s _ hw
  · exact featW_insertAll reg [] _ (by simp) (featW_mapLoc reg s.feats hf _)
  · intro c hc
    simp only [Seq.rotate, List.mem_append] at hc
    rcases hc with hc | hc
    · exact hb c (List.mem_of_mem_drop hc)
    · exact hb c (List.mem_of_mem_take hc)
  · rw [hlen]; exact hl
  · left; exact hlen

/-- `gts.Delete` of `length ≥ 0` residues: when residues remain, or the record has no CONTIG (an
emptied record takes its LOCUS length from the CONTIG region, whose size nothing bounds) -/
theorem writable_delete (reg : Registry) (F : Fields) (s : Seq) (offset length : Int) (hlen0 : 0 ≤ length)
    (hw : Writable reg (ofSeq F s) s.bytes = true)
    (hne : 0 < (s.delete offset length).bytes.length ∨ F.contigAcc.isEmpty = true) :
    Writable reg (ofSeq F (s.delete offset length)) (s.delete offset length).bytes = true := by
  obtain ⟨hb, hl⟩ := writable_bytes reg F s hw
  have hf := writable_feats reg F s hw
  have hmem : ∀ c ∈ (s.delete offset length).bytes, c ∈ s.bytes := by
    intro c hc
    simp only [Seq.delete, List.mem_append] at hc
    rcases hc with hc | hc
    · exact List.mem_of_mem_take hc
    · exact List.mem_of_mem_drop hc
  have hlen : (s.delete offset length).bytes.length ≤ s.bytes.length := by
    simp only [Seq.delete, List.length_append, List.length_drop, List.length_take]
    omega
  exact writable_ofSeq reg F s _ hw (featW_mapLoc reg s.feats hf _) (fun c hc => hb c (hmem c hc))
    (by omega) (Or.inr hne)

/-- `gts.Erase` -/
theorem writable_erase (reg : Registry) (F : Fields) (s : Seq) (offset length : Int) (hlen0 : 0 ≤ length)
    (hw : Writable reg (ofSeq F s) s.bytes = true)
    (hne : 0 < (s.erase offset length).bytes.length ∨ F.contigAcc.isEmpty = true) :
    Writable reg (ofSeq F (s.erase offset length)) (s.erase offset length).bytes = true := by
  obtain ⟨hb, hl⟩ := writable_bytes reg F s hw
  have hf := writable_feats reg F s hw
  -- the record with the features inside the region dropped is writable, then `Delete`
  have h1 : Writable reg (ofSeq F ⟨s.feats.filter fun f => f.key = "source" || !(f.loc.within offset (offset + length)),
      s.bytes⟩) s.bytes = true :=
    writable_ofSeq reg F s ⟨_, s.bytes⟩ hw (fun g hg => hf g (List.mem_filter.mp hg).1) hb hl (Or.inl rfl)
  exact writable_delete reg F ⟨_, s.bytes⟩ offset length hlen0 h1 hne

/-- `gts.Insert` / `gts.Embed` / `gts.Concat` put the residues of two records together: the header is
the host's, the features are the host's and the guest's -/
theorem writable_two (reg : Registry) (F G : Fields) (host guest : Seq) (s' : Seq)
    (hw : Writable reg (ofSeq F host) host.bytes = true) (hg : Writable reg (ofSeq G guest) guest.bytes = true)
    (hfeat : ∀ g ∈ s'.feats, FromTable (host.feats ++ guest.feats) g)
    (hbytes : ∀ c ∈ s'.bytes, c ∈ host.bytes ∨ c ∈ guest.bytes)
    (hlen : s'.bytes.length = host.bytes.length + guest.bytes.length) (hsum : s'.bytes.length < 10 ^ 9) :
    Writable reg (ofSeq F s') s'.bytes = true := by
  obtain ⟨hb, _⟩ := writable_bytes reg F host hw
  obtain ⟨hb2, _⟩ := writable_bytes reg G guest hg
  have hf := writable_feats reg F host hw
  have hf2 := writable_feats reg G guest hg
  have hall : ∀ f ∈ host.feats ++ guest.feats, FeatW reg f := by
    intro f hfm
    rcases List.mem_append.mp hfm with h | h
    · exact hf f h
    · exact hf2 f h
  apply writable_ofSeq reg F host s' hw (fun g hgm => featW_fromTable reg _ hall g (hfeat g hgm))
  · intro c hc
    rcases hbytes c hc with h | h
    · exact hb c h
    · exact hb2 c h
  · exact hsum
  · by_cases h0 : guest.bytes.length = 0
    · left; omega
    · right; left; omega

theorem fromTable_insert2 (host guest : List Feature) (φ ψ : Feature → Loc) :
    ∀ g ∈ Table.insertAll (Table.insertAll [] (host.map fun f => { f with loc := φ f }))
      (guest.map fun f => { f with loc := ψ f }), FromTable (host ++ guest) g := by
  intro g hg
  rcases (mem_insertAll _ _ g).mp hg with h | h
  · rcases (mem_insertAll _ _ g).mp h with h | h
    · simp at h
    · exact fromTable_mono (fun f hf => List.mem_append_left _ hf) (fromTable_mapLoc host φ g h)
  · exact fromTable_mono (fun f hf => List.mem_append_right _ hf) (fromTable_mapLoc guest ψ g h)

theorem splice_mem (p q : List UInt8) (pos : Nat) : ∀ c ∈ Seq.spliceBytes p pos q, c ∈ p ∨ c ∈ q := by
  intro c hc
  simp only [Seq.spliceBytes, List.mem_append] at hc
  rcases hc with (hc | hc) | hc
  · exact Or.inl (List.mem_of_mem_take hc)
  · exact Or.inr hc
  · exact Or.inl (List.mem_of_mem_drop hc)

theorem splice_length (p q : List UInt8) (pos : Nat) : (Seq.spliceBytes p pos q).length = p.length + q.length := by
  simp only [Seq.spliceBytes, List.length_append, List.length_take, List.length_drop]
  omega

/-- `gts.Insert` -/
theorem writable_insert (reg : Registry) (F G : Fields) (host guest : Seq) (index : Int)
    (hw : Writable reg (ofSeq F host) host.bytes = true) (hg : Writable reg (ofSeq G guest) guest.bytes = true)
    (hsum : host.bytes.length + guest.bytes.length < 10 ^ 9) :
    Writable reg (ofSeq F (host.insert index guest)) (host.insert index guest).bytes = true :=
  writable_two reg F G host guest _ hw hg (fromTable_insert2 host.feats guest.feats _ _)
    (splice_mem _ _ _) (splice_length _ _ _) (by rw [show (host.insert index guest).bytes.length = _ from splice_length _ _ _]; exact hsum)

/-- `gts.Embed` -/
theorem writable_embed (reg : Registry) (F G : Fields) (host guest : Seq) (index : Int)
    (hw : Writable reg (ofSeq F host) host.bytes = true) (hg : Writable reg (ofSeq G guest) guest.bytes = true)
    (hsum : host.bytes.length + guest.bytes.length < 10 ^ 9) :
    Writable reg (ofSeq F (host.embed index guest)) (host.embed index guest).bytes = true :=
  writable_two reg F G host guest _ hw hg (fromTable_insert2 host.feats guest.feats _ _)
    (splice_mem _ _ _) (splice_length _ _ _) (by rw [show (host.embed index guest).bytes.length = _ from splice_length _ _ _]; exact hsum)

/-- `gts.Concat` of two records (more records: fold) -/
theorem writable_concat2 (reg : Registry) (F G : Fields) (a b : Seq)
    (hw : Writable reg (ofSeq F a) a.bytes = true) (hg : Writable reg (ofSeq G b) b.bytes = true)
    (hsum : a.bytes.length + b.bytes.length < 10 ^ 9) :
    Writable reg (ofSeq F (Seq.concat2 a b)) (Seq.concat2 a b).bytes = true := by
  apply writable_two reg F G a b _ hw hg
  · intro g hgm
    rcases (mem_insertAll _ _ g).mp hgm with h | h
    · exact fromTable_mono (fun f hf => List.mem_append_left _ hf) (fromTable_self a.feats g h)
    · exact fromTable_mono (fun f hf => List.mem_append_right _ hf) (fromTable_mapLoc b.feats _ g h)
  · intro c hc
    exact List.mem_append.mp hc
  · simp [Seq.concat2]
  · simpa [Seq.concat2] using hsum

/-- `Location.Complement()` of a canonical location is canonical: it wraps, or unwraps a wrapped
one -/
theorem canonP_complement (l : Loc) (h : Loc.canonP l = true) : Loc.canonP l.complement = true := by
  cases l with
  | compl x =>
    simp only [Loc.canonP, Bool.and_eq_true] at h
    simpa [Loc.complement] using h.1
  | between p => simpa [Loc.complement, Loc.canonP, Loc.isComplC] using h
  | point p => simpa [Loc.complement, Loc.canonP, Loc.isComplC] using h
  | ranged a b c d => simpa [Loc.complement, Loc.canonP, Loc.isComplC] using h
  | ambiguous a b => simpa [Loc.complement, Loc.canonP, Loc.isComplC] using h
  | joined ls => simpa [Loc.complement, Loc.canonP, Loc.isComplC] using h
  | ordered ls => simpa [Loc.complement, Loc.canonP, Loc.isComplC] using h

end Gts.GenBank
