/-
  Canonical locations (`Loc.canonP`) taken apart: the coordinate clause is a leaf-wise predicate
  (`coordsC`), the structural clauses are `structP`; a `joined` is a fixed point of the `Join`
  reduction exactly when no two neighbouring parts are reduced by `Push` (`irr`): `stableR`.
  Core Lean only.
-/
import Gts.Lemmas.Leafwise
import Gts.Lemmas.LocRoundTrip
import Gts.Spec.CanonGuard
namespace Gts
namespace Loc

mutual
theorem beq_refl : ∀ a : Loc, beq a a = true
  | between a => by simp [beq]
  | point a => by simp [beq]
  | ranged s e p q => by simp [beq]
  | ambiguous s e => by simp [beq]
  | joined a => by simpa [beq] using beqList_refl a
  | ordered a => by simpa [beq] using beqList_refl a
  | compl a => by simpa [beq] using beq_refl a
theorem beqList_refl : ∀ a : List Loc, beqList a a = true
  | [] => by simp [beqList]
  | x :: xs => by simp [beqList, beq_refl x, beqList_refl xs]
end

/-! ### coordinates, leaf-wise -/

/-- `Q` holds for the coordinates `canonP` looks at -/
def leafCoord (Q : Int → Bool) : Loc → Bool
  | between p => Q p
  | point p => Q p
  | ranged s e _ _ => Q s && Q e
  | ambiguous s e => Q s && Q e
  | _ => true

/-- every coordinate of the location satisfies `Q` -/
def coordsC (Q : Int → Bool) (l : Loc) : Bool := allLeaves (leafCoord Q) l
def coordsCList (Q : Int → Bool) (ls : List Loc) : Bool := allLeavesList (leafCoord Q) ls

theorem mergeOK_leafCoord (Q : Int → Bool) : MergeOK (leafCoord Q) := by
  intro vs ve ue v5 v3 u5 u3 h1 h2
  simp only [leafCoord, Bool.and_eq_true] at *
  exact ⟨h1.1, h2.2⟩

theorem coordsC_mono {Q Q' : Int → Bool} (h : ∀ c, Q c = true → Q' c = true) (l : Loc)
    (hl : coordsC Q l = true) : coordsC Q' l = true := by
  unfold coordsC at *
  rw [allLeaves_eq_all, List.all_eq_true] at *
  intro u hu
  have := hl u hu
  cases u <;> simp only [leafCoord, Bool.and_eq_true] at * <;> first | exact h _ this | exact ⟨h _ this.1, h _ this.2⟩ | rfl

theorem coordsC_and (Q Q' : Int → Bool) (l : Loc) (h1 : coordsC Q l = true) (h2 : coordsC Q' l = true) :
    coordsC (fun c => Q c && Q' c) l = true := by
  unfold coordsC at *
  rw [allLeaves_eq_all, List.all_eq_true] at *
  intro u hu
  have a := h1 u hu
  have b := h2 u hu
  cases u <;> simp_all [leafCoord]

/-! ### structure -/

mutual
/-- the structural clauses of `canonP` (everything but the coordinate range) -/
def structP : Loc → Bool
  | joined ls =>
      structPList ls && decide (2 ≤ ls.length) && !ls.any isJoinedC && (join ls).beq (joined ls)
  | ordered ls => structPList ls && decide (2 ≤ ls.length) && !ls.any isOrderedC
  | compl l => structP l && !isComplC l
  | _ => true
def structPList : List Loc → Bool
  | [] => true
  | l :: ls => structP l && structPList ls
end

@[simp] theorem structPList_nil : structPList [] = true := by simp [structPList]
@[simp] theorem structPList_cons (l : Loc) (ls : List Loc) :
    structPList (l :: ls) = (structP l && structPList ls) := by simp [structPList]

theorem structPList_iff (ls : List Loc) : structPList ls = true ↔ ∀ l ∈ ls, structP l = true := by
  induction ls with
  | nil => simp
  | cons a r ih => simp [ih]

theorem structPList_append (a b : List Loc) : structPList (a ++ b) = (structPList a && structPList b) := by
  induction a with
  | nil => simp
  | cons x xs ih => simp [ih, Bool.and_assoc]

mutual
theorem canonP_iff : ∀ (l : Loc), canonP l = true ↔ (coordsC coordOk l = true ∧ structP l = true)
  | between p => by simp [canonP, coordsC, leafCoord, structP]
  | point p => by simp [canonP, coordsC, leafCoord, structP]
  | ranged s e a b => by simp [canonP, coordsC, leafCoord, structP]
  | ambiguous s e => by simp [canonP, coordsC, leafCoord, structP]
  | joined ls => by
      have := canonPList_iff ls
      simp only [canonP, structP, coordsC, allLeaves_joined, Bool.and_eq_true, this, coordsCList]
      constructor
      · rintro ⟨⟨⟨⟨a, b⟩, c⟩, d⟩, e⟩; exact ⟨a, ⟨⟨b, c⟩, d⟩, e⟩
      · rintro ⟨a, ⟨⟨b, c⟩, d⟩, e⟩; exact ⟨⟨⟨⟨a, b⟩, c⟩, d⟩, e⟩
  | ordered ls => by
      have := canonPList_iff ls
      simp only [canonP, structP, coordsC, allLeaves_ordered, Bool.and_eq_true, this, coordsCList]
      constructor
      · rintro ⟨⟨⟨a, b⟩, c⟩, d⟩; exact ⟨a, ⟨b, c⟩, d⟩
      · rintro ⟨a, ⟨b, c⟩, d⟩; exact ⟨⟨⟨a, b⟩, c⟩, d⟩
  | compl l => by
      have := canonP_iff l
      simp only [canonP, structP, coordsC, allLeaves_compl, Bool.and_eq_true, this]
      constructor
      · rintro ⟨⟨a, b⟩, c⟩; exact ⟨a, b, c⟩
      · rintro ⟨a, b, c⟩; exact ⟨⟨a, b⟩, c⟩
theorem canonPList_iff : ∀ (ls : List Loc),
    canonPList ls = true ↔ (coordsCList coordOk ls = true ∧ structPList ls = true)
  | [] => by simp [canonPList, coordsCList]
  | l :: ls => by
      have h1 := canonP_iff l
      have h2 := canonPList_iff ls
      simp only [canonPList, coordsCList, allLeavesList_cons, structPList_cons, Bool.and_eq_true, h1, h2,
        coordsC]
      constructor
      · rintro ⟨⟨a, b⟩, c, d⟩; exact ⟨⟨a, c⟩, b, d⟩
      · rintro ⟨⟨a, c⟩, b, d⟩; exact ⟨⟨a, b⟩, c, d⟩
end

/-! ### `irr`: the pairs `Push` leaves alone -/

/-- `irr w ·` looks at a `Ranged` through its start only … -/
theorem irr_ranged_start (w : Loc) (s e e' : Int) (a b a' b' : Bool) :
    irr w (ranged s e a b) = irr w (ranged s e' a' b') := by
  cases w <;> rfl

/-- … and treats it like the `Point` at its start -/
theorem irr_point_ranged (w : Loc) (u e : Int) (a b : Bool) : irr w (point u) = irr w (ranged u e a b) := by
  cases w <;> rfl

/-- a replaced between-site: whatever stood in front of it stands as well in front of the point
(or the range starting there) that replaces it, unless it is that very point (K3) -/
theorem irr_between_point (w : Loc) (u : Int) (h : irr w (between u) = true)
    (hk : ∀ p, w = point p → p ≠ u) : irr w (point u) = true := by
  cases w <;> simp_all [irr]

theorem irr_not_compl_right (w x : Loc) (h : isComplC x = false) (hw : isComplC w = true) : irr w x = true := by
  cases w <;> cases x <;> simp_all [irr, isComplC]

theorem irr_compl_left (w x : Loc) (h : isComplC w = false) (hx : isComplC x = true) : irr w x = true := by
  cases w <;> cases x <;> simp_all [irr, isComplC]

theorem irr_compl_compl (w x : Loc) (h : irr w x = true) : (isComplC w && isComplC x) = false := by
  cases w <;> cases x <;> simp_all [irr, isComplC]

/-! ### one push -/

theorem pushW_of_not_joined (low : List Loc → Loc → Bool → List Loc) (racc : List Loc) (x : Loc) (f : Bool)
    (h : isJoinedC x = false) : pushW low racc x f = pushOne low racc x f := by
  cases x <;> simp_all [pushW, isJoinedC]

/-- `racc` is empty or `Push` leaves its last element and `x` alone -/
def irrHead : List Loc → Loc → Bool
  | [], _ => true
  | v :: _, x => irr v x

/-- no rule fires: the element is appended -/
theorem pushOne_irr (low : List Loc → Loc → Bool → List Loc) (racc : List Loc) (x : Loc)
    (h : irrHead racc x = true) : pushOne low racc x true = x :: racc := by
  cases racc with
  | nil => rfl
  | cons v rest =>
    simp only [irrHead] at h
    cases v <;> cases x <;> simp_all [pushOne, irr]

theorem pushOne_ne_nil (low : List Loc → Loc → Bool → List Loc) (racc : List Loc) (x : Loc) (f : Bool) :
    pushOne low racc x f ≠ [] := by
  cases racc with
  | nil => simp [pushOne]
  | cons v rest =>
    cases v <;> cases x <;> simp only [pushOne] <;> (try split) <;> simp

/-- a rule fires: the list does not grow -/
theorem pushOne_length_fired (low : List Loc → Loc → Bool → List Loc) (v : Loc) (rest : List Loc) (x : Loc)
    (h : irr v x = false) : (pushOne low (v :: rest) x true).length = rest.length + 1 := by
  cases v <;> cases x <;> simp_all [pushOne, irr]

theorem pushOne_length_le (low : List Loc → Loc → Bool → List Loc) (racc : List Loc) (x : Loc) :
    (pushOne low racc x true).length ≤ racc.length + 1 := by
  cases racc with
  | nil => simp [pushOne]
  | cons v rest =>
    by_cases h : irr v x = true
    · rw [pushOne_irr low (v :: rest) x (by simpa [irrHead] using h)]; simp
    · rw [pushOne_length_fired low v rest x (by simpa using h)]; simp

/-! ### the fold over flattened parts -/

theorem flatJ_of_not_joined (x : Loc) (h : isJoinedC x = false) : flatJ x = [x] := by
  cases x <;> simp_all [flatJ, isJoinedC]

theorem flatJList_of_none : ∀ ls : List Loc, ls.any isJoinedC = false → flatJList ls = ls
  | [], _ => by simp [flatJList]
  | l :: ls, h => by
      simp only [List.any_cons, Bool.or_eq_false_iff] at h
      simp [flatJList, flatJ_of_not_joined l h.1, flatJList_of_none ls h.2]

theorem flatJList_append (a b : List Loc) : flatJList (a ++ b) = flatJList a ++ flatJList b := by
  induction a with
  | nil => simp [flatJList]
  | cons x xs ih => simp [flatJList, ih]

mutual
/-- `Push` of an argument is the fold of the one-element push over its flattened parts -/
theorem pushW_flat (low : List Loc → Loc → Bool → List Loc) (f : Bool) :
    ∀ (x : Loc) (racc : List Loc), pushW low racc x f = (flatJ x).foldl (fun acc y => pushOne low acc y f) racc
  | joined parts, racc => by simpa [pushW, flatJ] using pushListW_flat low f parts racc
  | between p, racc => by simp [pushW, flatJ]
  | point p, racc => by simp [pushW, flatJ]
  | ranged s e a b, racc => by simp [pushW, flatJ]
  | ambiguous s e, racc => by simp [pushW, flatJ]
  | ordered ls, racc => by simp [pushW, flatJ]
  | compl l, racc => by simp [pushW, flatJ]
theorem pushListW_flat (low : List Loc → Loc → Bool → List Loc) (f : Bool) :
    ∀ (ps : List Loc) (racc : List Loc),
      pushListW low racc ps f = (flatJList ps).foldl (fun acc y => pushOne low acc y f) racc
  | [], racc => by simp [pushListW, flatJList]
  | p :: ps, racc => by
      simp only [pushListW, flatJList, List.foldl_append]
      rw [pushW_flat low f p racc, pushListW_flat low f ps]
end

/-- the one-element push of the executable model (`pushFuel` levels) -/
def push1 (racc : List Loc) (y : Loc) : List Loc := pushOne (pushD (pushFuel - 1)) racc y true

theorem push_eq_push1 (racc : List Loc) (y : Loc) (h : isJoinedC y = false) : push racc y true = push1 racc y := by
  show pushW (pushD 47) racc y true = _
  rw [pushW_of_not_joined _ _ _ _ h]; rfl

theorem pushAll_flat (racc xs : List Loc) :
    pushAll racc xs true = (flatJList xs).foldl push1 racc := by
  show xs.foldl (fun acc y => pushW (pushD 47) acc y true) racc = _
  induction xs generalizing racc with
  | nil => simp [flatJList]
  | cons x xs ih =>
    simp only [List.foldl_cons, flatJList, List.foldl_append]
    rw [ih, pushW_flat]; rfl

/-- `Join` is the fold of the one-element push over the flattened argument list -/
theorem join_flat (xs : List Loc) : join xs = ofParts ((flatJList xs).foldl push1 []).reverse := by
  show ofParts (pushAll [] xs true).reverse = _
  rw [pushAll_flat]

end Loc
end Gts
