/-
  Helper lemmas about the cache protocol under writer faults (Gts/Model/CacheProtoFault.lean):
  which `Write` of the tee fails first, what a miss leaves under the entry's name, and the
  agreement with the fault-free protocol.  Uses the C13 fault theorems.
-/
import Gts.Model.CacheProtoFault
import Gts.Props.C13
namespace Gts.CacheProto
open Gts.Cache

variable {Cmd Input : Type}

/-! ### which `Write` fails first -/

theorem firstFault_nil (n : Nat) : firstFault n [] = none := by
  cases n <;> rfl

theorem firstErr_none_iff (es : List (Option FErr)) : firstErr es = none ↔ ∀ e ∈ es, e = none := by
  induction es with
  | nil => simp [firstErr]
  | cons e t ih =>
    cases e with
    | none => simp [firstErr, ih]
    | some x => simp [firstErr]

theorem firstErr_some_mem {es : List (Option FErr)} {k : Nat} (h : firstErr es = some k) :
    ∃ e ∈ es, e ≠ none := by
  cases hn : firstErr es with
  | none => rw [hn] at h; cases h
  | some j =>
    have : ¬ ∀ e ∈ es, e = none := fun hall => by
      rw [(firstErr_none_iff es).2 hall] at hn; cases hn
    simpa using this

/-- the `Write` calls of a writer that is not broken fail exactly where the schedule says -/
theorem firstErr_writesF (deflate : Bytes → Bytes) (ch : List Bytes) :
    ∀ (fs : List (Option Nat)) (w : FWriter), w.broken = false →
      firstErr (writesF deflate w (zipFaults ch fs)).2 = firstFault ch.length fs := by
  induction ch with
  | nil => intro fs w _; cases fs <;> rfl
  | cons p ps ih =>
    intro fs w hb
    cases fs with
    | nil =>
      simp only [zipFaults, writesF, List.length_cons, firstFault]
      have h1 : writeF deflate w p none = ({ w with plain := w.plain ++ p }, none) := by
        simp [writeF, hb]
      rw [h1]
      simp only [firstErr]
      rw [ih [] { w with plain := w.plain ++ p } hb, firstFault_nil]; rfl
    | cons f ft =>
      cases f with
      | none =>
        simp only [zipFaults, writesF, List.length_cons, firstFault]
        have h1 : writeF deflate w p none = ({ w with plain := w.plain ++ p }, none) := by
          simp [writeF, hb]
        rw [h1]
        simp only [firstErr]
        rw [ih ft { w with plain := w.plain ++ p } hb]
      | some k =>
        simp only [zipFaults, writesF, List.length_cons, firstFault]
        have h1 : (writeF deflate w p (some k)).2 = some .flate := by simp [writeF, hb]
        simp only [h1, firstErr]

theorem zipFaults_written (ch : List Bytes) : ∀ fs : List (Option Nat),
    ((zipFaults ch fs).map (·.1)) = ch := by
  induction ch with
  | nil => intro fs; cases fs <;> rfl
  | cons p ps ih =>
    intro fs
    cases fs with
    | nil => simp [zipFaults, ih]
    | cons f ft => simp [zipFaults, ih]

/-- a schedule without a fault entry among the calls: nothing surfaces -/
theorem firstFault_none_of_all_none (n : Nat) : ∀ fs : List (Option Nat),
    (∀ f ∈ fs, f = none) → firstFault n fs = none := by
  induction n with
  | zero => intro fs _; rfl
  | succ n ih =>
    intro fs h
    cases fs with
    | nil => rfl
    | cons f ft =>
      have hf : f = none := h f (List.mem_cons_self ..)
      subst hf
      simp only [firstFault]
      rw [ih ft (fun g hg => h g (List.mem_cons_of_mem _ hg))]; rfl

theorem firstFault_lt {n : Nat} : ∀ {fs : List (Option Nat)} {k : Nat}, firstFault n fs = some k → k < n := by
  induction n with
  | zero => intro fs k h; cases h
  | succ n ih =>
    intro fs k h
    cases fs with
    | nil => cases h
    | cons f ft =>
      cases f with
      | none =>
        simp only [firstFault, Option.map_eq_some_iff] at h
        obtain ⟨j, hj, rfl⟩ := h
        have := ih hj
        omega
      | some x =>
        simp only [firstFault, Option.some.injEq] at h
        omega

/-! ### the session of a miss -/

/-- the writer `CreateLevel` hands out is never broken -/
theorem createF_broken (d : Nat) (r q : Bytes) (cf : Option Nat) : (createF d r q cf).1.broken = false := by
  cases cf <;> rfl

/-- the first failing `Write` of a miss is the one the schedule names -/
theorem missF_werr (W : FWorld Cmd Input) (r : FRun Cmd Input) (cf : Option Nat) :
    firstErr (runSession W.H W.d W.deflate (W.rsum r.input) (W.dsum r.cmd) (sessionOf W r cf)).writeErrs
      = surfaced W r := by
  simp only [runSession, sessionOf, surfaced]
  exact firstErr_writesF W.deflate _ _ _ (createF_broken ..)

/-- **what a miss shows**: the uncached observation, unless a `Write` of the tee fails -/
theorem missF_obs (W : FWorld Cmd Input) (r : FRun Cmd Input) (cf : Option Nat) :
    (missF W r cf).2 = match surfaced W r with
      | none => (W.exec r.cmd r.input).observed
      | some k => faultObserved W r k := by
  simp only [missF, missF_werr]
  cases surfaced W r <;> rfl

theorem sessionOf_written (W : FWorld Cmd Input) (r : FRun Cmd Input) (cf : Option Nat) :
    (sessionOf W r cf).written = (W.chunks r.cmd r.input).flatten := by
  simp [Session.written, sessionOf, zipFaults_written]

/-- **what a miss leaves when no `os.Remove` fails**: if there is a file under the entry's name
afterwards, then `CreateLevel`, every `Write` and `Close` returned nil, `Commit` was reached, and the
file is the finished entry of everything the body wrote. -/
theorem missF_kept (W : FWorld Cmd Input) (r : FRun Cmd Input) (cf : Option Nat)
    (hrm : r.faults.removeWorks = true) {disk : Bytes} (h : (missF W r cf).1 = some disk) :
    disk = finish W.H W.d W.deflate (W.rsum r.input) (W.dsum r.cmd) (W.chunks r.cmd r.input).flatten
      ∧ (W.exec r.cmd r.input).committed = true ∧ surfaced W r = none := by
  simp only [Faults.removeWorks, Bool.and_eq_true, Bool.not_eq_true'] at hrm
  obtain ⟨hrc, hrl⟩ := hrm
  generalize hres : runSession W.H W.d W.deflate (W.rsum r.input) (W.dsum r.cmd) (sessionOf W r cf) = res
  have hw := missF_werr W r cf
  rw [hres] at hw
  simp only [missF, hres, hw, hrc, hrl, Bool.or_false, Bool.not_false, Bool.and_true] at h
  -- no write error surfaced: otherwise `Close` reports it and the entry is discarded
  have hsurf : surfaced W r = none := by
    cases hs : surfaced W r with
    | none => rfl
    | some k =>
      exfalso
      rw [hs] at hw
      have hce := C13.write_failure_reported_by_close (H := W.H) (d := W.d) W.deflate
        (W.rsum r.input) (W.dsum r.cmd) (sessionOf W r cf) (by rw [hres]; exact firstErr_some_mem hw)
      rw [hres] at hce
      simp [hs, hce] at h
  simp only [hsurf] at h
  have hcl : res.createErr.isNone = true ∧ res.closeErr.isSome = false
      ∧ (W.exec r.cmd r.input).committed = true ∧ res.disk = disk := by
    cases h1 : res.createErr.isNone <;> cases h2 : res.closeErr.isSome <;>
      cases h3 : (W.exec r.cmd r.input).committed <;> simp_all
  obtain ⟨hc1, hc2, hc3, hc4⟩ := hcl
  refine ⟨?_, hc3, hsurf⟩
  have hclean : (runSession W.H W.d W.deflate (W.rsum r.input) (W.dsum r.cmd) (sessionOf W r cf)).clean = true := by
    rw [hres]
    rw [hsurf] at hw
    simp only [SessionResult.clean, Bool.and_eq_true, List.all_eq_true, Option.isNone_iff_eq_none]
    refine ⟨⟨by simpa using hc1, (firstErr_none_iff _).1 hw⟩, ?_⟩
    cases hx : res.closeErr with
    | none => rfl
    | some e => rw [hx] at hc2; cases hc2
  have := C13.close_ok_roundtrip (H := W.H) (d := W.d) W.deflate (W.rsum r.input) (W.dsum r.cmd)
    (sessionOf W r cf) hclean
  rw [hres, sessionOf_written] at this
  rw [← hc4, this]

/-! ### without faults: the protocol of `CacheProto.lean` -/

/-- a miss without a fault: `Close` succeeds, the entry is kept exactly when the run committed -/
theorem missF_nofault (W : FWorld Cmd Input) (r : FRun Cmd Input) (hf : r.faults = {}) :
    missF W r none =
      (if (W.exec r.cmd r.input).committed then
          some (finish W.H W.d W.deflate (W.rsum r.input) (W.dsum r.cmd) (W.chunks r.cmd r.input).flatten)
        else none, (W.exec r.cmd r.input).observed) := by
  have hsurf : surfaced W r = none := by
    simp only [surfaced, hf]; exact firstFault_nil _
  have hw := missF_werr W r none
  rw [hsurf] at hw
  have hs : sessionOf W r none = ⟨none, zipFaults (W.chunks r.cmd r.input) [], {}⟩ := by
    simp only [sessionOf, hf]
  have hclean : (runSession W.H W.d W.deflate (W.rsum r.input) (W.dsum r.cmd) (sessionOf W r none)).clean = true := by
    simp only [SessionResult.clean, Bool.and_eq_true, List.all_eq_true, Option.isNone_iff_eq_none]
    refine ⟨⟨by simp [runSession, hs, createF], (firstErr_none_iff _).1 hw⟩, ?_⟩
    have hall := (firstErr_none_iff _).1 hw
    simp only [runSession, hs, createF] at hall ⊢
    have hws := writesF_clean W.deflate (zipFaults (W.chunks r.cmd r.input) [])
      ⟨zeros (3 * W.d), 3 * W.d, W.rsum r.input, W.dsum r.cmd, [], false⟩ rfl hall
    rw [hws, closeF_err]
    simp [closeErrSpec]
  have hdisk := C13.close_ok_roundtrip (H := W.H) (d := W.d) W.deflate (W.rsum r.input) (W.dsum r.cmd)
    (sessionOf W r none) hclean
  rw [sessionOf_written] at hdisk
  simp only [SessionResult.clean, Bool.and_eq_true, Option.isNone_iff_eq_none] at hclean
  obtain ⟨⟨hc1, -⟩, hc3⟩ := hclean
  simp only [missF, hw, hc1, hc3, hdisk, hf]
  cases (W.exec r.cmd r.input).committed <;> simp

end Gts.CacheProto
