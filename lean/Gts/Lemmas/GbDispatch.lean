/-
  C01 helper lemmas: `tryAllParsers` — a field is taken by its own sub-parser after the earlier
  ones failed softly on its name — and one pass of the record loop.  Core Lean only.
-/
import Gts.Lemmas.GbReference
import Gts.Lemmas.GbDblinkContig
import Gts.Lemmas.GbFeatures
import Gts.Lemmas.GbOrigin
namespace Gts.GenBank
open Gts.Pars

/-! ### soft failures on another field's name -/

theorem definitionField_other (f : Fields) (inp : Bytes) (stk : List Bytes)
    (h : (bs "DEFINITION").isPrefixOf inp = false) :
    definitionField 12 f ⟨inp, stk⟩ = (.error .fail, ⟨inp, stk⟩) := by
  gsimp [definitionField, fieldName_other _ 12 inp _ h]

theorem accessionField_other (f : Fields) (inp : Bytes) (stk : List Bytes)
    (h : (bs "ACCESSION").isPrefixOf inp = false) :
    accessionField 12 f ⟨inp, stk⟩ = (.error .fail, ⟨inp, stk⟩) := by
  have := mapped_fail _ inp inp stk (genericField_other (bs "ACCESSION") 12 inp (inp :: stk) h)
  gsimp [accessionField, this]

theorem versionField_other (f : Fields) (inp : Bytes) (stk : List Bytes)
    (h : (bs "VERSION").isPrefixOf inp = false) :
    versionField 12 f ⟨inp, stk⟩ = (.error .fail, ⟨inp, stk⟩) := by
  have := mapped_fail _ inp inp stk (genericField_other (bs "VERSION") 12 inp (inp :: stk) h)
  gsimp [versionField, this]

theorem dblinkField_other (f : Fields) (inp : Bytes) (stk : List Bytes)
    (h : (bs "DBLINK").isPrefixOf inp = false) :
    dblinkField 12 f ⟨inp, stk⟩ = (.error .fail, ⟨inp, stk⟩) := by
  gsimp [dblinkField, fieldName_other _ 12 inp _ h]

theorem keywordsField_other (f : Fields) (inp : Bytes) (stk : List Bytes)
    (h : (bs "KEYWORDS").isPrefixOf inp = false) :
    keywordsField 12 f ⟨inp, stk⟩ = (.error .fail, ⟨inp, stk⟩) := by
  gsimp [keywordsField, fieldName_other _ 12 inp _ h]

theorem sourceField_other (f : Fields) (inp : Bytes) (stk : List Bytes)
    (h : (bs "SOURCE").isPrefixOf inp = false) :
    sourceField 12 f ⟨inp, stk⟩ = (.error .fail, ⟨inp, stk⟩) := by
  have := mapped_fail _ inp inp stk (genericField_other (bs "SOURCE") 12 inp (inp :: stk) h)
  gsimp [sourceField, this]

theorem referenceField_other (f : Fields) (inp : Bytes) (stk : List Bytes)
    (h : (bs "REFERENCE").isPrefixOf inp = false) :
    referenceField 12 f ⟨inp, stk⟩ = (.error .fail, ⟨inp, stk⟩) := by
  gsimp [referenceField, fieldName_other _ 12 inp _ h]

theorem commentField_other (f : Fields) (inp : Bytes) (stk : List Bytes)
    (h : (bs "COMMENT").isPrefixOf inp = false) :
    commentField 12 f ⟨inp, stk⟩ = (.error .fail, ⟨inp, stk⟩) := by
  have := mapped_fail _ inp inp stk (genericField_other (bs "COMMENT") 12 inp (inp :: stk) h)
  gsimp [commentField, this]

theorem featuresField_other (reg : Registry) (inp : Bytes) (stk : List Bytes)
    (h : (bs "FEATURES").isPrefixOf inp = false) :
    featuresField reg ⟨inp, stk⟩ = (.error .fail, ⟨inp, stk⟩) := by
  gsimp [featuresField, lit_fail _ _ _ h]

theorem contigField_other (f : Fields) (inp : Bytes) (stk : List Bytes)
    (h : (bs "CONTIG").isPrefixOf inp = false) :
    contigField 12 f ⟨inp, stk⟩ = (.error .fail, ⟨inp, stk⟩) := by
  gsimp [contigField, fieldName_other _ 12 inp _ h]

theorem originField_other (length : Int) (inp : Bytes) (stk : List Bytes)
    (h : (bs "ORIGIN").isPrefixOf inp = false) :
    originField length 12 ⟨inp, stk⟩ = (.error .fail, ⟨inp, stk⟩) := by
  gsimp [originField, fieldName_other _ 12 inp _ h]

/-! ### `tryAllParsers` -/

theorem tryList_skip (p : Sub → P (Sub × Bool)) (ps : List (Sub → P (Sub × Bool))) (s : Sub)
    (inp : Bytes) (stk : List Bytes)
    (h : p s ⟨inp, inp :: stk⟩ = (.error .fail, ⟨inp, inp :: stk⟩)) :
    tryList (p :: ps) s ⟨inp, stk⟩ = tryList ps s ⟨inp, stk⟩ := by
  gsimp [tryList, h]

theorem tryList_hit (p : Sub → P (Sub × Bool)) (ps : List (Sub → P (Sub × Bool))) (s s' : Sub)
    (inp rest : Bytes) (stk stk' : List Bytes)
    (h : p s ⟨inp, inp :: stk⟩ = (.ok (s', true), ⟨rest, stk'⟩)) :
    tryList (p :: ps) s ⟨inp, stk⟩ = (.ok (s', true), ⟨rest, stk'.drop 1⟩) := by
  gsimp [tryList, h]

theorem tryList_nil (s : Sub) (st : PS) : tryList [] s st = (.ok (s, false), st) := rfl

/-- the names of the eleven sub-parsers in `tryAllParsers` order -/
def fieldNames : List String :=
  ["DEFINITION", "ACCESSION", "VERSION", "DBLINK", "KEYWORDS", "SOURCE", "REFERENCE", "COMMENT", "FEATURES",
   "CONTIG", "ORIGIN"]

/-- none of the first `k` field names starts the input -/
def notNames (k : Nat) (inp : Bytes) : Bool := (fieldNames.take k).all fun n => !(bs n).isPrefixOf inp

/-- the first `k` sub-parsers fail softly when none of their names starts the input -/
theorem tryList_drop (k : Nat) (hk : k ≤ 11) (length : Int) (s : Sub) (inp : Bytes) (stk : List Bytes)
    (h : notNames k inp = true) :
    tryList (fieldParsers length 12) s ⟨inp, stk⟩ = tryList ((fieldParsers length 12).drop k) s ⟨inp, stk⟩ := by
  obtain ⟨f, t, o, r⟩ := s
  have hh : ∀ n ∈ fieldNames.take k, (bs n).isPrefixOf inp = false := by
    intro n hn
    simp only [notNames, List.all_eq_true, Bool.not_eq_true'] at h
    exact h n hn
  have lift_other : ∀ (p : Fields → P (Fields × Bool)) (st : List Bytes),
      p f ⟨inp, st⟩ = (.error .fail, ⟨inp, st⟩) → liftF p (f, t, o, r) ⟨inp, st⟩ = (.error .fail, ⟨inp, st⟩) := by
    intro p st hp; gsimp [liftF, hp]
  have feat_other : ∀ st, (bs "FEATURES").isPrefixOf inp = false →
      featuresSub (f, t, o, r) ⟨inp, st⟩ = (.error .fail, ⟨inp, st⟩) := by
    intro st hp; gsimp [featuresSub, featuresField_other r inp st hp]
  have orig_other : ∀ st, (bs "ORIGIN").isPrefixOf inp = false →
      originSub length 12 (f, t, o, r) ⟨inp, st⟩ = (.error .fail, ⟨inp, st⟩) := by
    intro st hp; gsimp [originSub, originField_other length inp st hp]
  -- peel the parsers one by one
  have step : ∀ j, j ≤ k → tryList (fieldParsers length 12) (f, t, o, r) ⟨inp, stk⟩ =
      tryList ((fieldParsers length 12).drop j) (f, t, o, r) ⟨inp, stk⟩ := by
    intro j
    induction j with
    | zero => intro _; rfl
    | succ j ih =>
      intro hj
      rw [ih (by omega)]
      have hjk : j < k := by omega
      have hj11 : j < 11 := by omega
      have hmem : ∀ n, fieldNames[j]? = some n → (bs n).isPrefixOf inp = false := by
        intro n hn
        apply hh n
        rw [List.mem_take_iff_getElem]
        have hlen : j < fieldNames.length := by simp [fieldNames]; omega
        refine ⟨j, ?_, ?_⟩
        · simp [fieldNames]; omega
        · have := List.getElem?_eq_getElem hlen
          rw [this] at hn; exact Option.some.inj hn
      have : j = 0 ∨ j = 1 ∨ j = 2 ∨ j = 3 ∨ j = 4 ∨ j = 5 ∨ j = 6 ∨ j = 7 ∨ j = 8 ∨ j = 9 ∨ j = 10 := by omega
      rcases this with rfl | rfl | rfl | rfl | rfl | rfl | rfl | rfl | rfl | rfl | rfl
      · exact tryList_skip _ _ _ inp stk (lift_other _ _ (definitionField_other f inp _ (hmem _ rfl)))
      · exact tryList_skip _ _ _ inp stk (lift_other _ _ (accessionField_other f inp _ (hmem _ rfl)))
      · exact tryList_skip _ _ _ inp stk (lift_other _ _ (versionField_other f inp _ (hmem _ rfl)))
      · exact tryList_skip _ _ _ inp stk (lift_other _ _ (dblinkField_other f inp _ (hmem _ rfl)))
      · exact tryList_skip _ _ _ inp stk (lift_other _ _ (keywordsField_other f inp _ (hmem _ rfl)))
      · exact tryList_skip _ _ _ inp stk (lift_other _ _ (sourceField_other f inp _ (hmem _ rfl)))
      · exact tryList_skip _ _ _ inp stk (lift_other _ _ (referenceField_other f inp _ (hmem _ rfl)))
      · exact tryList_skip _ _ _ inp stk (lift_other _ _ (commentField_other f inp _ (hmem _ rfl)))
      · exact tryList_skip _ _ _ inp stk (feat_other _ (hmem _ rfl))
      · exact tryList_skip _ _ _ inp stk (lift_other _ _ (contigField_other f inp _ (hmem _ rfl)))
      · exact tryList_skip _ _ _ inp stk (orig_other _ (hmem _ rfl))
  exact step k (Nat.le_refl k)

end Gts.GenBank

namespace Gts.GenBank
open Gts.Pars

/-- the field's own sub-parser (index `k` of `tryAllParsers`) takes it -/
theorem tryAll_at (k : Nat) (hk : k < 11) (length : Int) (s s' : Sub) (inp rest : Bytes) (stk' : List Bytes)
    (hnot : notNames k inp = true) (p : Sub → P (Sub × Bool))
    (hp : (fieldParsers length 12)[k]? = some p)
    (hrun : p s ⟨inp, [inp]⟩ = (.ok (s', true), ⟨rest, stk'⟩)) (hstk : stk'.drop 1 = []) :
    tryAll length 12 s ⟨inp, []⟩ = (.ok (.parsed s'), ⟨rest, []⟩) := by
  have hlen : k < (fieldParsers length 12).length := by simp [fieldParsers]; omega
  have hd : (fieldParsers length 12).drop k = p :: (fieldParsers length 12).drop (k + 1) := by
    rw [List.drop_eq_getElem_cons hlen]
    congr 1
    have := List.getElem?_eq_getElem hlen
    rw [this] at hp; exact Option.some.inj hp
  simp only [tryAll, P.bind_run]
  rw [tryList_drop k (by omega) length s inp [] hnot, hd, tryList_hit p _ s s' inp rest [] stk' hrun, hstk]
  rfl

/-- an extra field: none of the eleven names starts the input -/
theorem tryAll_extra (length : Int) (f : Fields) (t : List QFeature) (o : OriginV) (r : Registry)
    (name value rest : Bytes) (hnot : notNames 11 (extraText name value ++ 10 :: rest) = true)
    (hw : WritableExtra name value = true) (hrest : (sp 12).isPrefixOf rest = false) :
    tryAll length 12 (f, t, o, r) ⟨extraText name value ++ 10 :: rest, []⟩ =
      (.ok (.parsed ({ f with extra := f.extra ++ [(name, value)] }, t, o, r)), ⟨rest, []⟩) := by
  simp only [tryAll, P.bind_run]
  rw [tryList_drop 11 (by omega) length _ _ [] hnot]
  have : (fieldParsers length 12).drop 11 = [] := by simp [fieldParsers]
  rw [this, tryList_nil]
  have he := extra_roundtrip f name value rest [extraText name value ++ 10 :: rest] hw hrest
  gsimp [he]

/-- a line that is no field at all (the line feed behind CONTIG): skipped -/
theorem tryAll_blank (length : Int) (s : Sub) (rest : Bytes) :
    tryAll length 12 s ⟨10 :: rest, []⟩ = (.ok (.skip s), ⟨10 :: rest, []⟩) := by
  obtain ⟨f, t, o, r⟩ := s
  simp only [tryAll, P.bind_run]
  rw [tryList_drop 11 (by omega) length _ _ [] (by simp [notNames, fieldNames, bs, List.isPrefixOf])]
  have : (fieldParsers length 12).drop 11 = [] := by simp [fieldParsers]
  rw [this, tryList_nil]
  have hw := word_fail isUpper (10 :: rest) [10 :: rest] (by intro c hc; simp at hc; subst hc; decide)
  gsimp [extraField, hw]

/-! ### the record loop -/

/-- what follows a section: a field name (upper case) or the terminator `//`, and none of the six
REFERENCE sub-field names -/
def startsField (rest : Bytes) : Bool :=
  (match rest with
   | c :: _ => isUpper c || c == 47
   | [] => false) && refStop rest

theorem startsField_spec (rest : Bytes) (h : startsField rest = true) :
    ∃ c r, rest = c :: r ∧ (isUpper c = true ∨ c = 47) := by
  cases rest with
  | nil => simp [startsField] at h
  | cons c r =>
    simp only [startsField, Bool.and_eq_true, Bool.or_eq_true, beq_iff_eq] at h
    exact ⟨c, r, rfl, h.1⟩

theorem startsField_refStop (rest : Bytes) (h : startsField rest = true) : refStop rest = true := by
  simp only [startsField, Bool.and_eq_true] at h; exact h.2

theorem upper_ne_blank (c : UInt8) : isUpper c = true → c ≠ 32 := by
  revert c; apply byte_cases; decide +kernel

theorem upper_ne_slash (c : UInt8) : isUpper c = true → c ≠ 47 := by
  revert c; apply byte_cases; decide +kernel

theorem startsField_not_sp (n : Nat) (hn : 0 < n) (rest : Bytes) (h : startsField rest = true) :
    (sp n).isPrefixOf rest = false := by
  obtain ⟨c, r, rfl, hc⟩ := startsField_spec rest h
  apply sp_prefix_cons n c r _ hn
  rcases hc with hc | rfl
  · exact upper_ne_blank c hc
  · decide

theorem startsField_head (rest : Bytes) (h : startsField rest = true) : rest.head? ≠ some 32 := by
  obtain ⟨c, r, rfl, hc⟩ := startsField_spec rest h
  rcases hc with hc | rfl
  · simpa using upper_ne_blank c hc
  · simp

/-- the terminator does not match a text that starts with an upper-case letter -/
theorem endMark_upper (c : UInt8) (r : Bytes) (hc : isUpper c = true) :
    endMark ⟨c :: r, []⟩ = (.error .fail, ⟨c :: r, []⟩) := by
  have : (bs "//").isPrefixOf (c :: r) = false := by
    have h47 : c ≠ 47 := upper_ne_slash c hc
    have : ((47 : UInt8) == c) = false := by simpa using fun h => h47 h.symm
    simp [bs, List.isPrefixOf, this]
  gsimp [endMark, lit_fail _ _ _ this]

theorem endMark_lf (r : Bytes) : endMark ⟨10 :: r, []⟩ = (.error .fail, ⟨10 :: r, []⟩) := by
  have : (bs "//").isPrefixOf (10 :: r) = false := by simp [bs, List.isPrefixOf]
  gsimp [endMark, lit_fail _ _ _ this]

theorem endMark_ok (rest : Bytes) : endMark ⟨bs "//\n" ++ rest, []⟩ = (.ok (), ⟨rest, []⟩) := by
  have e : bs "//\n" ++ rest = bs "//" ++ (10 :: rest) := by simp [bs]
  rw [e]
  gsimp [endMark, lit_ok, eol_lf]

/-- one pass of the loop over a section whose text starts with an upper-case letter -/
theorem loop_step (length : Int) (k : Nat) (s s' : Sub) (c : UInt8) (txt rest : Bytes) (hc : isUpper c = true)
    (h : tryAll length 12 s ⟨c :: txt, []⟩ = (.ok (.parsed s'), ⟨rest, []⟩)) :
    recordLoop length 12 (k + 1) s ⟨c :: txt, []⟩ = recordLoop length 12 k s' ⟨rest, []⟩ := by
  simp only [recordLoop, P.bind_run, attempt_run, endMark_upper c txt hc, h]

/-- the end of the record -/
theorem loop_end (length : Int) (k : Nat) (s : Sub) (rest : Bytes) :
    recordLoop length 12 (k + 1) s ⟨bs "//\n" ++ rest, []⟩ = (.ok s, ⟨rest, []⟩) := by
  simp only [recordLoop, P.bind_run, attempt_run, endMark_ok, P.pure_run]

/-- the line feed behind CONTIG: skipped as an empty unknown line (the input goes on) -/
theorem loop_blank (length : Int) (k : Nat) (s : Sub) (c : UInt8) (rest : Bytes) :
    recordLoop length 12 (k + 1) s ⟨10 :: c :: rest, []⟩ = recordLoop length 12 k s ⟨c :: rest, []⟩ := by
  have hline := line_ok [] (c :: rest) [] rfl
  simp only [List.nil_append] at hline
  simp only [recordLoop, P.bind_run, attempt_run, endMark_lf, tryAll_blank, hline, getS, P.pure_run,
    List.isEmpty_cons, Bool.false_eq_true, if_false]

end Gts.GenBank
