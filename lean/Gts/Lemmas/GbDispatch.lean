/-
  C01 helper lemmas: `tryAllParsers` — a field is taken by its own sub-parser after the earlier
  ones failed softly on its name — and one pass of the record loop.  Core Lean only.
-/
import Gts.Lemmas.GbReference
import Gts.Lemmas.GbDblinkContig
import Gts.Lemmas.GbFeatures
import Gts.Lemmas.GbOrigin
namespace Gts.GenBank
open Gts.Pars

/-! ### soft failures on another field's name -/

theorem definitionField_other (f : Fields) (inp : Bytes) (stk : List Bytes)
    (h : (bs "DEFINITION").isPrefixOf inp = false) :
    definitionField 12 f ⟨inp, stk⟩ = (.error .fail, ⟨inp, stk⟩) := by
  gsimp [definitionField, fieldName_other _ 12 inp _ h]

theorem accessionField_other (f : Fields) (inp : Bytes) (stk : List Bytes)
    (h : (bs "ACCESSION").isPrefixOf inp = false) :
    accessionField 12 f ⟨inp, stk⟩ = (.error .fail, ⟨inp, stk⟩) := by
  have := mapped_fail _ inp inp stk (genericField_other (bs "ACCESSION") 12 inp (inp :: stk) h)
  gsimp [accessionField, this]

theorem versionField_other (f : Fields) (inp : Bytes) (stk : List Bytes)
    (h : (bs "VERSION").isPrefixOf inp = false) :
    versionField 12 f ⟨inp, stk⟩ = (.error .fail, ⟨inp, stk⟩) := by
  have := mapped_fail _ inp inp stk (genericField_other (bs "VERSION") 12 inp (inp :: stk) h)
  gsimp [versionField, this]

theorem dblinkField_other (f : Fields) (inp : Bytes) (stk : List Bytes)
    (h : (bs "DBLINK").isPrefixOf inp = false) :
    dblinkField 12 f ⟨inp, stk⟩ = (.error .fail, ⟨inp, stk⟩) := by
  gsimp [dblinkField, fieldName_other _ 12 inp _ h]

theorem keywordsField_other (f : Fields) (inp : Bytes) (stk : List Bytes)
    (h : (bs "KEYWORDS").isPrefixOf inp = false) :
    keywordsField 12 f ⟨inp, stk⟩ = (.error .fail, ⟨inp, stk⟩) := by
  gsimp [keywordsField, fieldName_other _ 12 inp _ h]

theorem sourceField_other (f : Fields) (inp : Bytes) (stk : List Bytes)
    (h : (bs "SOURCE").isPrefixOf inp = false) :
    sourceField 12 f ⟨inp, stk⟩ = (.error .fail, ⟨inp, stk⟩) := by
  have := mapped_fail _ inp inp stk (genericField_other (bs "SOURCE") 12 inp (inp :: stk) h)
  gsimp [sourceField, this]

theorem referenceField_other (f : Fields) (inp : Bytes) (stk : List Bytes)
    (h : (bs "REFERENCE").isPrefixOf inp = false) :
    referenceField 12 f ⟨inp, stk⟩ = (.error .fail, ⟨inp, stk⟩) := by
  gsimp [referenceField, fieldName_other _ 12 inp _ h]

theorem commentField_other (f : Fields) (inp : Bytes) (stk : List Bytes)
    (h : (bs "COMMENT").isPrefixOf inp = false) :
    commentField 12 f ⟨inp, stk⟩ = (.error .fail, ⟨inp, stk⟩) := by
  have := mapped_fail _ inp inp stk (genericField_other (bs "COMMENT") 12 inp (inp :: stk) h)
  gsimp [commentField, this]

theorem featuresField_other (reg : Registry) (inp : Bytes) (stk : List Bytes)
    (h : (bs "FEATURES").isPrefixOf inp = false) :
    featuresField reg ⟨inp, stk⟩ = (.error .fail, ⟨inp, stk⟩) := by
  gsimp [featuresField, lit_fail _ _ _ h]

theorem contigField_other (f : Fields) (inp : Bytes) (stk : List Bytes)
    (h : (bs "CONTIG").isPrefixOf inp = false) :
    contigField 12 f ⟨inp, stk⟩ = (.error .fail, ⟨inp, stk⟩) := by
  gsimp [contigField, fieldName_other _ 12 inp _ h]

theorem originField_other (length : Int) (inp : Bytes) (stk : List Bytes)
    (h : (bs "ORIGIN").isPrefixOf inp = false) :
    originField length 12 ⟨inp, stk⟩ = (.error .fail, ⟨inp, stk⟩) := by
  gsimp [originField, fieldName_other _ 12 inp _ h]

/-! ### `tryAllParsers` -/

theorem tryList_skip (p : Sub → P (Sub × Bool)) (ps : List (Sub → P (Sub × Bool))) (s : Sub)
    (inp : Bytes) (stk : List Bytes)
    (h : p s ⟨inp, inp :: stk⟩ = (.error .fail, ⟨inp, inp :: stk⟩)) :
    tryList (p :: ps) s ⟨inp, stk⟩ = tryList ps s ⟨inp, stk⟩ := by
  gsimp [tryList, h]

theorem tryList_hit (p : Sub → P (Sub × Bool)) (ps : List (Sub → P (Sub × Bool))) (s s' : Sub)
    (inp rest : Bytes) (stk stk' : List Bytes)
    (h : p s ⟨inp, inp :: stk⟩ = (.ok (s', true), ⟨rest, stk'⟩)) :
    tryList (p :: ps) s ⟨inp, stk⟩ = (.ok (s', true), ⟨rest, stk'.drop 1⟩) := by
  gsimp [tryList, h]

theorem tryList_nil (s : Sub) (st : PS) : tryList [] s st = (.ok (s, false), st) := rfl

/-- the names of the eleven sub-parsers in `tryAllParsers` order -/
def fieldNames : List String :=
  ["DEFINITION", "ACCESSION", "VERSION", "DBLINK", "KEYWORDS", "SOURCE", "REFERENCE", "COMMENT", "FEATURES",
   "CONTIG", "ORIGIN"]

/-- none of the first `k` field names starts the input -/
def notNames (k : Nat) (inp : Bytes) : Bool := (fieldNames.take k).all fun n => !(bs n).isPrefixOf inp

/-- the first `k` sub-parsers fail softly when none of their names starts the input -/
theorem tryList_drop (k : Nat) (hk : k ≤ 11) (length : Int) (s : Sub) (inp : Bytes) (stk : List Bytes)
    (h : notNames k inp = true) :
    tryList (fieldParsers length 12) s ⟨inp, stk⟩ = tryList ((fieldParsers length 12).drop k) s ⟨inp, stk⟩ := by
  obtain ⟨f, t, o, r⟩ := s
  have hh : ∀ n ∈ fieldNames.take k, (bs n).isPrefixOf inp = false := by
    intro n hn
    simp only [notNames, List.all_eq_true, Bool.not_eq_true'] at h
    exact h n hn
  have lift_other : ∀ (p : Fields → P (Fields × Bool)) (st : List Bytes),
      p f ⟨inp, st⟩ = (.error .fail, ⟨inp, st⟩) → liftF p (f, t, o, r) ⟨inp, st⟩ = (.error .fail, ⟨inp, st⟩) := by
    intro p st hp; gsimp [liftF, hp]
  have feat_other : ∀ st, (bs "FEATURES").isPrefixOf inp = false →
      featuresSub (f, t, o, r) ⟨inp, st⟩ = (.error .fail, ⟨inp, st⟩) := by
    intro st hp; gsimp [featuresSub, featuresField_other r inp st hp]
  have orig_other : ∀ st, (bs "ORIGIN").isPrefixOf inp = false →
      originSub length 12 (f, t, o, r) ⟨inp, st⟩ = (.error .fail, ⟨inp, st⟩) := by
    intro st hp; gsimp [originSub, originField_other length inp st hp]
  -- peel the parsers one by one
  have step : ∀ j, j ≤ k → tryList (fieldParsers length 12) (f, t, o, r) ⟨inp, stk⟩ =
      tryList ((fieldParsers length 12).drop j) (f, t, o, r) ⟨inp, stk⟩ := by
    intro j
    induction j with
    | zero => intro _; rfl
    | succ j ih =>
      intro hj
      rw [ih (by omega)]
      have hjk : j < k := by omega
      have hj11 : j < 11 := by omega
      have hmem : ∀ n, fieldNames[j]? = some n → (bs n).isPrefixOf inp = false := by
        intro n hn
        apply hh n
        rw [List.mem_take_iff_getElem]
        have hlen : j < fieldNames.length := by simp [fieldNames]; omega
        refine ⟨j, ?_, ?_⟩
        · simp [fieldNames]; omega
        · have := List.getElem?_eq_getElem hlen
          rw [this] at hn; exact Option.some.inj hn
      have : j = 0 ∨ j = 1 ∨ j = 2 ∨ j = 3 ∨ j = 4 ∨ j = 5 ∨ j = 6 ∨ j = 7 ∨ j = 8 ∨ j = 9 ∨ j = 10 := by omega
      rcases this with rfl | rfl | rfl | rfl | rfl | rfl | rfl | rfl | rfl | rfl | rfl
      · exact tryList_skip _ _ _ inp stk (lift_other _ _ (definitionField_other f inp _ (hmem _ rfl)))
      · exact tryList_skip _ _ _ inp stk (lift_other _ _ (accessionField_other f inp _ (hmem _ rfl)))
      · exact tryList_skip _ _ _ inp stk (lift_other _ _ (versionField_other f inp _ (hmem _ rfl)))
      · exact tryList_skip _ _ _ inp stk (lift_other _ _ (dblinkField_other f inp _ (hmem _ rfl)))
      · exact tryList_skip _ _ _ inp stk (lift_other _ _ (keywordsField_other f inp _ (hmem _ rfl)))
      · exact tryList_skip _ _ _ inp stk (lift_other _ _ (sourceField_other f inp _ (hmem _ rfl)))
      · exact tryList_skip _ _ _ inp stk (lift_other _ _ (referenceField_other f inp _ (hmem _ rfl)))
      · exact tryList_skip _ _ _ inp stk (lift_other _ _ (commentField_other f inp _ (hmem _ rfl)))
      · exact tryList_skip _ _ _ inp stk (feat_other _ (hmem _ rfl))
      · exact tryList_skip _ _ _ inp stk (lift_other _ _ (contigField_other f inp _ (hmem _ rfl)))
      · exact tryList_skip _ _ _ inp stk (orig_other _ (hmem _ rfl))
  exact step k (Nat.le_refl k)

end Gts.GenBank
