/-
  `GenBankParser` and the saved positions it is entered with (C17 / C01).

  `genbankLocusParser` (`locusParser`) pushes two frames and every element of its `Seq` takes back at
  most what it pushed (`pars.Int` may leak one): it never looks at a frame that was there before it
  started, so with ANY older stack `st` underneath it returns the same outcome at the same position and
  leaves `st` untouched under its own leftovers (`locusParser_indep`).  `GenBankParser` then calls
  `state.Clear()`: from there on the run does not depend on `st` at all, and nothing of `st` is left.
  Hence `genbankParser_stack_indep`:

    LOCUS line accepted  →  outcome AND final state are those of the run on the empty stack
                            (no frame of `st` survives, whatever the rest of the record does);
    LOCUS line rejected  →  the same failure at the same position, and the final stack is what the
                            failing LOCUS parser leaves on the empty stack (nothing, or the one frame
                            `pars.Int` leaks at the end of the input) WITH ALL OF `st` UNDERNEATH.

  No hypothesis on `st` (not even `Sorted`).  Core Lean only.
-/
import Gts.Lemmas.ParsIndep
import Gts.Model.GenBankParse
namespace Gts.GenBank
open Gts.Pars

variable {α β : Type}

/-! ### the elements of the LOCUS `Seq` -/

theorem rs_bpOrAa : RS bpOrAa := by
  unfold bpOrAa
  refine rs_bind (rs_attempt (rs_lit _)) (fun o => ?_)
  cases o with
  | some _ => exact rs_pure ()
  | none => exact rs_lit _

theorem rs_divisionParser : RS divisionParser :=
  rs_blind (fun rest => match rest with
      | a :: b :: c :: r =>
        if isUpper a && isUpper b && isUpper c then (.ok [a, b, c], (a :: b :: c :: r).drop 3)
        else (.ok [], a :: b :: c :: r)
      | r => (.ok [], r)) (by
    intro rest stk
    unfold divisionParser
    rw [run_bind, run_getS]
    dsimp only
    match rest with
    | [] => rfl
    | [_] => rfl
    | [_, _] => rfl
    | a :: b :: c :: r =>
      dsimp only
      split
      · rw [run_bind, run_advanceN]; rfl
      · rfl)

/-- with the two frames of the LOCUS `Seq` pushed: stack independence, and on success at least `m`
own frames are left -/
def LS (m : Nat) (p : P α) : Prop :=
  ∀ st s, 2 ≤ s.stk.length →
    RP st p (fun r s' => match r with | .ok _ => m ≤ s'.stk.length | .error _ => True) s

theorem ls_of_rs {p : P α} (hp : RS p) : LS 2 p := by
  intro st s h
  apply rp_mono (hp st 2 s h)
  intro r s' hk
  cases r with
  | ok _ => exact hk
  | error _ => trivial

theorem ls_bind {m : Nat} {p : P α} {f : α → P β} (hp : LS 2 p) (hf : ∀ a, LS m (f a)) : LS m (p >>= f) := by
  intro st s h
  apply rp_bind
  apply rp_mono (hp st s h)
  intro r s' hk
  cases r with
  | ok a => exact hf a st s' hk
  | error e => trivial

/-- `locusBack`: two `Pop`s, both on frames of the `Seq` -/
theorem rp_locusBack {st : List Bytes} {s : PS} (h : 2 ≤ s.stk.length) :
    RP st (locusBack : P α) (fun r _ => r = .error .fail) s := by
  unfold locusBack
  apply rp_bind
  apply rp_pop (by omega)
  intro s1 h1
  dsimp only
  apply rp_bind
  apply rp_pop (by rw [h1, List.length_drop]; omega)
  intro s2 _
  dsimp only
  exact rp_fail rfl

theorem ls_locusBack {m : Nat} : LS m (locusBack : P α) := by
  intro st s h
  apply rp_mono (rp_locusBack h)
  intro r s' hr
  subst hr
  trivial

theorem ls_locusTry {p : P α} (hp : RS p) : LS 2 (locusTry p) := by
  unfold locusTry
  refine ls_bind (ls_of_rs (rs_attempt hp)) (fun o => ?_)
  cases o with
  | some a => exact ls_of_rs (rs_pure a)
  | none => exact ls_locusBack

/-- **`genbankLocusParser` does not depend on the saved positions it is entered with**, and leaves
them alone: same outcome, same position, its own leftovers on top of `st` -/
theorem locusParser_indep (t : Bytes) (st : List Bytes) :
    locusParser.run' ⟨t, st⟩ =
      ((locusParser.run' ⟨t, []⟩).1,
        ⟨(locusParser.run' ⟨t, []⟩).2.rest, (locusParser.run' ⟨t, []⟩).2.stk ++ st⟩) := by
  have h : RP st locusParser (fun _ _ => True) ⟨t, []⟩ := by
    unfold locusParser
    apply rp_bind; apply rp_push; dsimp only
    apply rp_bind; apply rp_push; dsimp only
    have h2 : 2 ≤ (PS.mk t [t, t]).stk.length := by simp
    generalize PS.mk t [t, t] = s0 at h2
    suffices hls : LS 0 (do
        locusTry (lit (bs "LOCUS"))
        let sp1 ← spaces
        let name ← locusTry (word notSpace)
        let _ ← spaces
        let length ← locusTry int
        locusTry bpOrAa
        let _ ← spaces
        let mol ← locusTry (word notSpace)
        let _ ← spaces
        let top ← locusTry (word notSpace)
        let _ ← spaces
        let division ← divisionParser
        let _ ← spaces
        let dl ← line
        match asDate dl with
        | none => locusBack
        | some date =>
          drop; drop
          pure (⟨sp1.length + 5, name, length, mol, top, division, date⟩ : Locus)) by
      apply rp_mono (hls st s0 h2)
      intro _ _ _; trivial
    refine ls_bind (ls_locusTry (rs_lit _)) (fun _ => ?_)
    refine ls_bind (ls_of_rs rs_spaces) (fun sp1 => ?_)
    refine ls_bind (ls_locusTry (rs_word _)) (fun name => ?_)
    refine ls_bind (ls_of_rs rs_spaces) (fun _ => ?_)
    refine ls_bind (ls_locusTry rs_int) (fun length => ?_)
    refine ls_bind (ls_locusTry rs_bpOrAa) (fun _ => ?_)
    refine ls_bind (ls_of_rs rs_spaces) (fun _ => ?_)
    refine ls_bind (ls_locusTry (rs_word _)) (fun mol => ?_)
    refine ls_bind (ls_of_rs rs_spaces) (fun _ => ?_)
    refine ls_bind (ls_locusTry (rs_word _)) (fun top => ?_)
    refine ls_bind (ls_of_rs rs_spaces) (fun _ => ?_)
    refine ls_bind (ls_of_rs rs_divisionParser) (fun division => ?_)
    refine ls_bind (ls_of_rs rs_spaces) (fun _ => ?_)
    refine ls_bind (ls_of_rs rs_line) (fun dl => ?_)
    split
    · exact ls_locusBack
    · intro st s h
      apply rp_bind
      apply rp_drop (by omega)
      intro s1 h1
      dsimp only
      apply rp_bind
      apply rp_drop (by rw [h1, List.length_drop]; omega)
      intro s2 _
      dsimp only
      exact rp_pure (Nat.zero_le _)
  exact h.1

/-- **`GenBankParser` and the saved positions it is entered with** (see the file header): for every
registry, every input `t` and EVERY list `st` of saved positions,

* if `genbankLocusParser` accepts the LOCUS line, the outcome and the final state — position AND saved
  positions — are exactly those of the run on the empty stack: `state.Clear()` behind the LOCUS line
  discards all of `st` (so a record that fails later fails with `st` gone);
* if it rejects the line, the outcome (that failure) and the position are those of the run on the empty
  stack, and the saved positions are the ones that run leaves, with all of `st` underneath. -/
theorem genbankParser_stack_indep (reg : Registry) (t : Bytes) (st : List Bytes) :
    (genbankParser reg).run' ⟨t, st⟩ =
      if (locusParser.run' ⟨t, []⟩).1.toBool then (genbankParser reg).run' ⟨t, []⟩
      else (((genbankParser reg).run' ⟨t, []⟩).1,
        ⟨((genbankParser reg).run' ⟨t, []⟩).2.rest, ((genbankParser reg).run' ⟨t, []⟩).2.stk ++ st⟩) := by
  have hl := locusParser_indep t st
  unfold genbankParser
  rw [run_bind, run_bind, hl]
  rcases locusParser.run' ⟨t, []⟩ with ⟨r, s1⟩
  cases r with
  | error e => simp [Except.toBool]
  | ok l =>
    simp only [Except.toBool, if_true]
    rw [run_bind, run_bind, run_clear, run_clear]

/-- … in particular a record that `GenBankParser` READS from the empty stack it reads from every stack:
the same record and registry, the same position, and no saved position left but what the empty-stack run
leaves -/
theorem genbankParser_stack_indep_ok (reg : Registry) (t : Bytes) (st : List Bytes)
    (x : Record × Registry) (s' : PS) (h : (genbankParser reg).run' ⟨t, []⟩ = (.ok x, s')) :
    (genbankParser reg).run' ⟨t, st⟩ = (.ok x, s') := by
  rw [genbankParser_stack_indep reg t st]
  have hok : (locusParser.run' ⟨t, []⟩).1.toBool = true := by
    unfold genbankParser at h
    rw [run_bind] at h
    rcases hr : locusParser.run' ⟨t, []⟩ with ⟨r, s1⟩
    rw [hr] at h
    cases r with
    | error e => cases h
    | ok l => rfl
  rw [if_pos hok, h]

end Gts.GenBank
