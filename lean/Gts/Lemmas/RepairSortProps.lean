/-
  `Repair` with the sorting algorithm as a parameter, part 3: the class-level facts behind the
  clauses of property C12 — pushed list of a class without joins, covered residues, chains,
  unchanged tables, idempotence, restoration — for every sorting function with the property each
  fact needs (mostly: it permutes; idempotence: it is a correct sort that leaves a sorted list
  alone).  Core Lean only.
-/
import Gts.Lemmas.RepairSortClass
import Gts.Lemmas.RepairRoundTrip
namespace Gts
open Loc

theorem CorrectSort.permSort {sort : List Loc → List Loc} (h : CorrectSort sort) : PermSort sort :=
  fun xs => (h xs).perm

/-! ### a class without a `Joined` member -/

theorem classPW_of_no_join (sort : List Loc → List Loc) (hp : PermSort sort) (t : Table) (idx : List Nat)
    (hidx : idx ∈ Table.groups t) (h : ∀ l ∈ classLocs t idx, l.isJoined = false) :
    classPW sort t idx ≠ [] ∧ (classPW sort t idx).length ≤ idx.length := by
  have hlt := groups_lt t idx hidx
  have hne := Table.groups_ne_nil t idx hidx
  have hj : ∀ x ∈ sort (classLocs t idx), x.isJoined = false :=
    fun x hx => h x ((hp _).mem_iff.mp hx)
  have hl := pushAllD_length pushFuel (sort (classLocs t idx)) [] (classForce t idx) hj
  have hlen : (sort (classLocs t idx)).length = idx.length := by
    rw [(hp _).length_eq, classLocs_length t idx hlt]
  simp only [classPW, pushedOfWith, pushAll, ne_eq, List.reverse_eq_nil_iff, List.length_reverse]
  refine ⟨hl.2.2 ?_, by simpa [hlen] using hl.2.1⟩
  intro e
  rw [e] at hlen
  cases idx with
  | nil => exact hne rfl
  | cons a as => simp at hlen

/-- a plain table never gets a `nil` location, whatever the sort -/
theorem noNil_of_plainW (sort : List Loc → List Loc) (hp : PermSort sort) (t : Table)
    (hpl : Table.plain t = true) : (Table.groups t).any (classNilW sort t) = false := by
  rw [List.any_eq_false]
  intro idx hi
  simp only [classNilW, Bool.and_eq_true, decide_eq_true_eq, not_and, List.isEmpty_iff]
  intro hc
  rcases plain_class t hpl idx hi with h1 | hr
  · have := classN_posW sort t idx; omega
  · exact (classPW_of_no_join sort hp t idx hi fun l hl => by
      have := hr l hl
      cases l <;> simp [isRanged, isJoined] at this ⊢).1

/-! ### (c) no fusable pair: nothing is reduced -/

theorem not_reduced_of_noMergeablePairW (sort : List Loc → List Loc) (hp : PermSort sort) (t : Table)
    (hpl : Table.plain t = true) (hm : Table.noMergeablePair t = true) (idx : List Nat)
    (hi : idx ∈ Table.groups t) : idx.length ≤ classNW sort t idx := by
  have hlt := groups_lt t idx hi
  have hlen := classLocs_length t idx hlt
  rcases plain_class t hpl idx hi with h1 | hr
  · have := classN_posW sort t idx; omega
  · simp only [Table.noMergeablePair, List.all_eq_true] at hm
    have hpw := (allPairs_iff _ _).mp (hm idx hi)
    have hsym : ∀ a b : Loc, unmergeable (classForce t idx) a b = true →
        unmergeable (classForce t idx) b a = true := by
      intro a b h
      simp only [unmergeable, Bool.and_eq_true] at h ⊢
      exact ⟨h.2, h.1⟩
    have hpw' : (sort (classLocs t idx)).Pairwise fun a b => unmergeable (classForce t idx) a b = true :=
      ((hp _).pairwise_iff (fun {a b} h => hsym a b h)).mpr hpw
    have := pushAllD_unmerged (pushFuel - 1) (classForce t idx) (sort (classLocs t idx)) []
      (by simp) (fun y hy => hr y ((hp _).mem_iff.mp hy)) (by simpa using hpw')
    have e : pushFuel - 1 + 1 = pushFuel := rfl
    rw [e] at this
    have hpl' : (classPW sort t idx).length = idx.length := by
      simp only [classPW, pushedOfWith, pushAll, List.length_reverse]
      rw [this]
      simp [(hp _).length_eq, hlen]
    have hne : classPW sort t idx ≠ [] := by
      intro e'
      rw [e'] at hpl'
      exact Table.groups_ne_nil t idx hi (List.length_eq_zero_iff.mp hpl'.symm)
    rw [classN_of_ne_nilW hne, hpl']
    exact Nat.le_refl _

/-! ### (d)(e) chains -/

theorem pushedOfWith_chains (sort : List Loc → List Loc) (hp : PermSort sort) (f : Bool) (locs : List Loc)
    (hr : ∀ l ∈ locs, l.isRanged = true) :
    ∃ gs : List (List Loc), gs.flatten.Perm locs ∧ ChainsOf f gs (pushedOfWith sort f locs) := by
  obtain ⟨rgs, h1, h2⟩ := pushAll_chains (pushFuel - 1) f (sort locs) [] [] []
    trivial rfl (by simp) (fun y hy => hr y ((hp _).mem_iff.mp hy))
  refine ⟨rgs.reverse, ?_, ?_⟩
  · rw [h2]; simpa using hp locs
  · exact chainsOf_reverse f h1

/-! ### (f) covered residues -/

theorem mem_denList_pushedOfWith (sort : List Loc → List Loc) (hp : PermSort sort) (f : Bool)
    (locs : List Loc) (hw : wfList locs = true)
    (hk2 : pushAllAbs (sort locs) f = false) (x : Pos) :
    x ∈ denList (pushedOfWith sort f locs) ↔ x ∈ denList locs := by
  have hws : wfList (sort locs) = true := by
    rw [wfList_iff] at hw ⊢
    exact fun y hy => hw y ((hp _).mem_iff.mp hy)
  have h := (fold_ok (pushD_ok pushFuel) f (sort locs) [] (by simp) hws).1 hk2
  simp only [denR_nil, List.nil_append] at h
  have e : denList (pushedOfWith sort f locs) =
      denR (List.foldl (fun acc y => pushD pushFuel acc y f) [] (sort locs)) := rfl
  rw [e, h.mem_iff, mem_denList, mem_denList]
  constructor
  · rintro ⟨l, hl, hx⟩; exact ⟨l, (hp _).mem_iff.mp hl, hx⟩
  · rintro ⟨l, hl, hx⟩; exact ⟨l, (hp _).mem_iff.mpr hl, hx⟩

theorem classDen_specRepairW (sort : List Loc → List Loc) (hp : PermSort sort) (t : Table)
    (hw : Table.wfT t = true) (hnil : (Table.groups t).any (classNilW sort t) = false)
    (hk2 : Table.k2With sort t = false) (k : String) (x : Pos) :
    x ∈ Table.classDen (specRepairW sort t) k ↔ x ∈ Table.classDen t k := by
  by_cases hk : k ∈ Table.classKeys t
  · have hidx : Table.memberIdx t k ∈ Table.groups t := List.mem_map.mpr ⟨k, hk, rfl⟩
    simp only [Table.classDen, locsOf_specRepairW sort t hnil k hk, classNewW]
    split
    · rw [← classLocs_memberIdx]
      apply mem_denList_pushedOfWith sort hp
      · rw [wfList_iff]
        intro l hl
        obtain ⟨i, _, f, hf, rfl⟩ := mem_classLocs t _ l hl
        simp only [Table.wfT, List.all_eq_true] at hw
        exact hw f (List.mem_of_getElem? hf)
      · simp only [Table.k2With, List.any_eq_false] at hk2
        simpa using hk2 _ hidx
    · rw [classLocs_memberIdx]
  · simp [Table.classDen, locsOf_specRepair_of_not_memW sort t k hk, locsOf_of_not_mem t k hk]

/-! ### (b) idempotence -/

theorem pairwise_adj {α} {r : α → α → Prop} : ∀ {l : List α}, l.Pairwise r → Adj r l
  | [], _ => trivial
  | [_], _ => trivial
  | a :: b :: l, h => by
    have h' := List.pairwise_cons.mp h
    exact ⟨h'.1 b (by simp), pairwise_adj h'.2⟩

theorem sortLocs_keepsSorted : KeepsSorted sortLocs := sortLocs_of_sorted

/-- the pushed list of a class of well-formed forward ranges, for every correct sort: again such
ranges, neighbours in order, no neighbours that `Push` would fuse -/
theorem pushedOfWith_props (sort : List Loc → List Loc) (hs : CorrectSort sort) (f : Bool) (locs : List Loc)
    (hw : ∀ l ∈ locs, l.rwf = true) :
    (∀ l ∈ pushedOfWith sort f locs, l.rwf = true) ∧
    Adj (fun a b => less b a = false) (pushedOfWith sort f locs) ∧
    Adj (fun a b => mergeable f a b = false) (pushedOfWith sort f locs) := by
  have hws : ∀ l ∈ sort locs, l.rwf = true := fun l hl => hw l ((hs locs).perm.mem_iff.mp hl)
  have hadj : Adj (fun a b => less b a = false) (sort locs) := pairwise_adj (hs locs).sorted
  simp only [pushedOfWith, pushAll]
  cases hsl : sort locs with
  | nil => simp [pushAllD, Adj]
  | cons x xs =>
    rw [hsl] at hws hadj
    have hx := hws x (by simp)
    have h0 : PushInv f (pushD (pushFuel - 1 + 1) [] x f) x := by
      cases x <;> simp [rwf] at hx
      rename_i s e a b
      refine ⟨?_, trivial, _, [], rfl, s, e, a, b, s, a, rfl, rfl, Or.inl ⟨rfl, rfl⟩⟩
      intro y hy
      simp only [pushD_ranged, pushOne, List.mem_singleton] at hy
      subst hy
      simpa [rwf] using hx
    obtain ⟨u', h1, h2, _⟩ := pushInv_all (pushFuel - 1) f xs _ x h0 hx (fun y hy => hws y (by simp [hy])) hadj
    have e : pushFuel - 1 + 1 = pushFuel := rfl
    rw [e] at h1 h2
    have e2 : pushAllD pushFuel [] (x :: xs) f = pushAllD pushFuel (pushD pushFuel [] x f) xs f := by
      simp [pushAllD]
    rw [e2]
    refine ⟨fun l hl => h1 l (by simpa using hl), ?_, ?_⟩
    · exact adj_imp (fun a b h => h.1) (adj_reverse _ h2)
    · exact adj_imp (fun a b h => h.2) (adj_reverse _ h2)

/-- one class: sorting (with a sort that keeps sorted lists) and pushing the pushed list again
changes nothing -/
theorem pushedOfWith_idem (sort : List Loc → List Loc) (hs : CorrectSort sort) (hk : KeepsSorted sort)
    (f : Bool) (locs : List Loc) (hw : ∀ l ∈ locs, l.rwf = true) :
    pushedOfWith sort f (pushedOfWith sort f locs) = pushedOfWith sort f locs := by
  obtain ⟨h1, h2, h3⟩ := pushedOfWith_props sort hs f locs hw
  have hsame : sort (pushedOfWith sort f locs) = pushedOfWith sort f locs :=
    hk _ (adj_pairwise (fun a b c => notLess_trans a b c) h2)
  have := pushAllD_unmerged_adj (pushFuel - 1) f (pushedOfWith sort f locs) []
    (by simp) (fun y hy => rwf_isRanged (h1 y hy)) h3 (fun _ _ hv => by simp at hv)
  have e : pushFuel - 1 + 1 = pushFuel := rfl
  rw [e] at this
  have e2 : pushedOfWith sort f (pushedOfWith sort f locs) =
      (pushAll [] (sort (pushedOfWith sort f locs)) f).reverse := rfl
  rw [e2, hsame, pushAll, this]
  simp

/-- on a plain table of well-formed locations a second `Repair` (same correct sort, one that
keeps sorted lists) changes nothing -/
theorem repair_idemW (sort : List Loc → List Loc) (hs : CorrectSort sort) (hk : KeepsSorted sort) (t : Table)
    (hp : Table.plain t = true) (hw : Table.wfT t = true) :
    repairWith sort (specRepairW sort t) = .ok (specRepairW sort t) := by
  have hnil := noNil_of_plainW sort hs.permSort t hp
  apply repair_unchangedW'
  intro idx' hi'
  obtain ⟨k, hk', rfl⟩ := List.mem_map.mp hi'
  have hkt := mem_classKeys_of_specRepairW sort t k hk'
  have hidx : Table.memberIdx t k ∈ Table.groups t := List.mem_map.mpr ⟨k, hkt, rfl⟩
  have hlen' := classLocs_length (specRepairW sort t) _ (groups_lt _ _ hi')
  have hlocs : classLocs (specRepairW sort t) (Table.memberIdx (specRepairW sort t) k) =
      classNewW sort t (Table.memberIdx t k) := by
    rw [classLocs_memberIdx, locsOf_specRepairW sort t hnil k hkt]
  have hforce : classForce (specRepairW sort t) (Table.memberIdx (specRepairW sort t) k) =
      classForce t (Table.memberIdx t k) := by
    rw [classForce_eq, classForce_eq, forceOf_specRepairW sort t k hkt]
  have hlt := groups_lt t _ hidx
  have hlen := classLocs_length t _ hlt
  have hgoal : (classNewW sort t (Table.memberIdx t k)).length ≤
      sliceLen (pushedOfWith sort (classForce t (Table.memberIdx t k)) (classNewW sort t (Table.memberIdx t k))) := by
    rcases plain_class t hp _ hidx with h1 | hr
    · have hnlt : ¬ classNW sort t (Table.memberIdx t k) < (Table.memberIdx t k).length := by
        have := classN_posW sort t (Table.memberIdx t k); omega
      simp only [classNewW, hnlt, if_false]
      rw [hlen, h1]
      generalize pushedOfWith _ _ _ = q
      cases q <;> simp [sliceLen]
    · have hrwf : ∀ l ∈ classLocs t (Table.memberIdx t k), l.rwf = true := by
        intro l hl
        have h1 := hr l hl
        obtain ⟨i, _, f, hf, rfl⟩ := mem_classLocs t _ l hl
        simp only [Table.wfT, List.all_eq_true] at hw
        have h2 := hw f (List.mem_of_getElem? hf)
        cases hfl : f.loc <;> simp [hfl, isRanged] at h1
        simpa [hfl, wf, rwf] using h2
      simp only [classNewW]
      split
      · have := pushedOfWith_idem sort hs hk (classForce t (Table.memberIdx t k)) _ hrwf
        simp only [classPW]
        rw [this]
        exact le_sliceLen _
      · rename_i hnlt
        have e : sliceLen (pushedOfWith sort (classForce t (Table.memberIdx t k)) (classLocs t (Table.memberIdx t k))) =
            classNW sort t (Table.memberIdx t k) := rfl
        rw [e, hlen]
        omega
  have e2 : classNW sort (specRepairW sort t) (Table.memberIdx (specRepairW sort t) k) =
      sliceLen (pushedOfWith sort (classForce t (Table.memberIdx t k)) (classNewW sort t (Table.memberIdx t k))) := by
    simp only [classNW, classPW, hlocs, hforce]
  rw [e2, ← hlen', hlocs]
  exact hgoal

/-! ### (g) restoration -/

/-- any arrangement of a strictly increasing list is tie-free -/
theorem tieFree_of_perm_strict (l0 q : List Loc) (hq : q.Perm l0)
    (h0 : l0.Pairwise fun a b => less a b = true) : tieFree q = true := by
  rw [tieFree_iff]
  intro a ha b hb
  rcases pairwise_total h0 a (hq.mem_iff.mp ha) b (hq.mem_iff.mp hb) with h | h | h
  · exact Or.inr (Or.inr h)
  · exact Or.inl h
  · exact Or.inr (Or.inl h)

/-- one class: the fragments of a forward range — in any order, sorted by any correct sort — are
fused back into the range -/
theorem pushedOfWith_frags (sort : List Loc → List Loc) (hs : CorrectSort sort) (f m : Bool)
    (hm : (m || f) = true) (s e : Int) (p5 p3 : Bool) (cs : List Int)
    (hc : cutsOk s e cs) (q : List Loc) (hq : q.Perm (frags m s e p5 p3 cs)) :
    pushedOfWith sort f q = [ranged s e p5 p3] := by
  have ht := tieFree_of_perm_strict _ q hq (frags_strict m cs s e p5 p3 hc)
  have : pushedOfWith sort f q = pushedOf f q := by
    simp only [pushedOfWith, pushedOf, sort_eq_sortLocs_of_tieFree sort hs q ht]
  rw [this]
  exact pushedOf_frags f m hm s e p5 p3 cs hc q hq

/-- `slice;…;slice;concat;repair` with the cut positions `cuts`, `sort.Sort` being `sort` -/
def roundTripWith (sort : List Loc → List Loc) (s : Seq) (cuts : List Int) : RepairOutcome :=
  repairWith sort (Seq.concat (cutPieces s (0 :: cuts ++ [s.len]))).feats

/-- under the hypotheses of the restoration theorem every class of the concatenated table is
tie-free (the fragments of one forward range, with strictly increasing starts) -/
theorem roundTrip_tieFree (s : Seq) (cuts : List Int) (h : Restorable s cuts) :
    Table.tieFreeT (Seq.concat (cutPieces s (0 :: cuts ++ [s.len]))).feats = true := by
  obtain ⟨hns, hr, hu, hc⟩ := h
  obtain ⟨c, rest, hpts⟩ : ∃ c rest, cuts ++ [s.len] = c :: rest := by
    cases cuts with
    | nil => exact ⟨s.len, [], rfl⟩
    | cons c cs => exact ⟨c, cs ++ [s.len], rfl⟩
  have hcs' : (0 :: c :: rest).Pairwise (· < ·) := by
    have : 0 :: c :: rest = 0 :: cuts ++ [s.len] := by simp [hpts]
    rw [this]; exact hc
  have hLmem : s.len ∈ c :: rest := by rw [← hpts]; simp
  have hbound : ∀ x ∈ c :: rest, x ≤ s.len := by
    intro x hx
    rw [← hpts] at hx
    rcases List.mem_append.mp hx with hx | hx
    · have h1 : (cuts ++ [s.len]).Pairwise (· < ·) := (List.pairwise_cons.mp hc).2
      exact Int.le_of_lt ((List.pairwise_append.mp h1).2.2 x hx s.len (by simp))
    · simp only [List.mem_singleton] at hx; omega
  have hperm := concat_pieces_perm s c rest hns hr hcs' hbound
  have hrt : (Seq.concat (cutPieces s (0 :: cuts ++ [s.len]))).feats =
      (Seq.concat (cutPieces s (0 :: c :: rest))).feats := by
    simp only [List.cons_append, hpts]
  rw [hrt]
  generalize (Seq.concat (cutPieces s (0 :: c :: rest))).feats = u at hperm
  have hcl := class_of_fragments s c rest u hr hu hcs' hbound hLmem hperm
  simp only [Table.tieFreeT, List.all_eq_true]
  intro idx hi
  obtain ⟨k, hk, rfl⟩ := List.mem_map.mp hi
  -- the class key comes from an original feature
  have hk' : k ∈ Table.classKeys s.feats := by
    apply Classical.byContradiction
    intro hnk
    have h0 := (featsOf_eq_nil_iff s.feats k).mpr hnk
    have h1 : Table.featsOf u k = [] := by
      have := (hperm.filter fun f => classKey f == k)
      rw [show (fragTable s (0 :: c :: rest)).filter (fun f => classKey f == k) =
        Table.featsOf (fragTable s (0 :: c :: rest)) k from rfl, featsOf_fragTable_nil s k h0] at this
      exact List.Perm.eq_nil this
    exact (featsOf_eq_nil_iff u k).mp h1 hk
  obtain ⟨f, hf, rfl⟩ := (Table.mem_classKeys s.feats k).mp hk'
  have hrf := hr f hf
  cases hl : f.loc <;> simp [hl, rangedIn] at hrf
  rename_i s0 e0 p5 p3
  obtain ⟨h1, h2, _⟩ := hcl f hf s0 e0 p5 p3 hl
  rw [classLocs_memberIdx]
  exact tieFree_of_perm_strict _ _ h1 (frags_strict true _ s0 e0 p5 p3 h2)

theorem sortIndep_of_tieFreeT (t : Table) (h : Table.tieFreeT t = true) : Table.sortIndep t = true := by
  simp only [Table.tieFreeT, Table.sortIndep, List.all_eq_true, Bool.or_eq_true] at h ⊢
  exact fun idx hi => Or.inl (h idx hi)

/-- restoration does not depend on the sorting algorithm -/
theorem roundTripWith_eq (sort : List Loc → List Loc) (hs : CorrectSort sort) (s : Seq) (cuts : List Int)
    (h : Restorable s cuts) : roundTripWith sort s cuts = roundTrip s cuts := by
  simp only [roundTripWith, roundTrip, ← repairWith_sortLocs]
  exact repairWith_eq_of_sortIndep sort sortLocs hs sortLocs_correct _
    (sortIndep_of_tieFreeT _ (roundTrip_tieFree s cuts h))

end Gts
