/-
  C07, "never hangs", second part: the fuelled loops of the GenBank reader model that are PURE
  functions of bytes (no parser state):

  * `splitOn` (`strings.Split` behind `FlatFileSplit` and `AsDate`, non-empty separator): at least
    one byte per step;
  * `stripContOld` (the in-place loop of `quotedQualifierParser` BEFORE 2612fae, the old reading; the
    loop of today is a counted loop and has no fuel): every round deletes the prefix, so the text
    gets shorter and the loop ends by its own condition — for a NON-EMPTY prefix.  With the empty
    prefix the old Go loop did not end and the old model stops with the loop condition still true
    (`stripContOld_empty_prefix_steps`).  Through `stripCont_onepass_eq` these are statements about
    the value of today's loop (`stripCont_exits`);
  * the counter loops of the ORIGIN reader (`walkChars`, `walkGroups`, `validateLines`, the reader's
    own copy of `slowLines`): `for k < 10`, `for j < 60; j += 10`, `for i < length; i += 60`;
  * `digitsAux` and `natDigitsF` (the models of `fmt.Sprintf("%9d", ·)` inside `walkLine` and of
    `strconv.Itoa` in the REFERENCE parser; library calls, listed for completeness).

  Every statement has the shape "two fuels above the bound give the same value".  Core Lean only.
  (`Gts/Bridge/OriginValidate.lean`, `OriginSlow.lean` prove the ORIGIN ones next to the regenerated
  code; they are proved again here so that this file does not depend on a regenerated module.)
-/
import Gts.Lemmas.GbSafeOrigin
import Gts.Lemmas.GbStripOnePass
namespace Gts.GenBank
open Gts.Pars

/-! ### `strings.Split` -/

theorem splitOn_fuel (sep : Bytes) (hsep : sep ≠ []) : ∀ (f f' : Nat) (cur s : Bytes), s.length < f → s.length < f' →
    splitOn sep f cur s = splitOn sep f' cur s
  | 0, _, _, _, h, _ => absurd h (Nat.not_lt_zero _)
  | _ + 1, 0, _, _, _, h => absurd h (Nat.not_lt_zero _)
  | f + 1, f' + 1, cur, [], _, _ => by rw [splitOn, splitOn]
  | f + 1, f' + 1, cur, c :: s, hf, hf' => by
    rw [splitOn, splitOn]
    simp only [List.length_cons] at hf hf'
    have hp : 0 < sep.length := List.length_pos_iff.mpr hsep
    split
    · rw [splitOn_fuel sep hsep f f' [] ((c :: s).drop sep.length)]
      · simp only [List.length_drop, List.length_cons]; omega
      · simp only [List.length_drop, List.length_cons]; omega
    · exact splitOn_fuel sep hsep f f' (c :: cur) s (by omega) (by omega)

/-- `strings.Split` with any fuel above the model's `len(s) + 1` -/
theorem split_fuel (sep s : Bytes) (hsep : sep ≠ []) (m : Nat) (hm : s.length + 1 ≤ m) :
    splitOn sep m [] s = split sep s :=
  splitOn_fuel sep hsep m (s.length + 1) [] s (by omega) (by omega)

/-! ### the continuation-prefix loop of `quotedQualifierParser` -/

theorem findSub_bound (pat : Bytes) : ∀ (t : Bytes) (i j : Nat), findSub pat t i = some j →
    i ≤ j ∧ j - i + pat.length ≤ t.length
  | [], i, j, h => by
    unfold findSub at h
    split at h
    · rename_i he
      cases h
      have : pat = [] := by simpa using he
      subst this
      simp
    · cases h
  | c :: t, i, j, h => by
    unfold findSub at h
    split at h
    · rename_i hp
      cases h
      have := (List.isPrefixOf_iff_prefix.mp hp).length_le
      omega
    · have := findSub_bound pat t (i + 1) j h
      simp only [List.length_cons]
      omega

/-- (the loop before 2612fae) every round of the loop removes `len(prefix) ≥ 1` bytes: with at least as much fuel as bytes
the text no longer depends on the fuel -/
theorem stripContOld_fuel (pre : Bytes) (hpre : pre ≠ []) : ∀ (f f' : Nat) (t : Bytes),
    t.length ≤ f → t.length ≤ f' → stripContOld pre f t = stripContOld pre f' t
  | 0, 0, _, _, _ => rfl
  | 0, f' + 1, t, h, _ => by
    have ht : t = [] := List.length_eq_zero_iff.mp (by omega)
    subst ht
    rw [stripContOld, stripContOld]
    have : findSub (10 :: pre) [] 0 = none := by
      unfold findSub; simp
    rw [this]
  | f + 1, 0, t, _, h => by
    have ht : t = [] := List.length_eq_zero_iff.mp (by omega)
    subst ht
    rw [stripContOld, stripContOld]
    have : findSub (10 :: pre) [] 0 = none := by
      unfold findSub; simp
    rw [this]
  | f + 1, f' + 1, t, hf, hf' => by
    rw [stripContOld, stripContOld]
    cases hfs : findSub (10 :: pre) t 0 with
    | none => rfl
    | some i =>
      dsimp only
      have hb := findSub_bound (10 :: pre) t 0 i hfs
      have hp : 0 < pre.length := List.length_pos_iff.mpr hpre
      simp only [List.length_cons] at hb
      apply stripContOld_fuel pre hpre f f'
      · simp only [List.length_append, List.length_take, List.length_drop]; omega
      · simp only [List.length_append, List.length_take, List.length_drop]; omega

/-- … and the loop has ENDED BY ITS OWN CONDITION: in the value returned `"\n" ++ prefix` does not
occur any more (`bytes.Index(token, p) < 0`) -/
theorem stripContOld_exits (pre : Bytes) (hpre : pre ≠ []) : ∀ (f : Nat) (t : Bytes), t.length ≤ f →
    findSub (10 :: pre) (stripContOld pre f t) 0 = none
  | 0, t, h => by
    have ht : t = [] := List.length_eq_zero_iff.mp (by omega)
    subst ht
    rw [stripContOld]
    unfold findSub; simp
  | f + 1, t, hf => by
    rw [stripContOld]
    cases hfs : findSub (10 :: pre) t 0 with
    | none => exact hfs
    | some i =>
      dsimp only
      have hb := findSub_bound (10 :: pre) t 0 i hfs
      have hp : 0 < pre.length := List.length_pos_iff.mpr hpre
      simp only [List.length_cons] at hb
      apply stripContOld_exits pre hpre f
      simp only [List.length_append, List.length_take, List.length_drop]; omega

/-- with the EMPTY prefix the loop of the Go code before 2612fae never ended (`"\n"` is found again and again, nothing
is deleted): the model returns the text unchanged for EVERY fuel, with the loop condition still
true — this WAS the one fuelled loop of the reader model whose fuel stood for a hang (today's loop returns
the token unchanged: `stripCont_nil`).  It could not be reached from `INSDCTableParser("")`: the prefix is the indent `pre + len(key) + pst ≥ 1` of the first
key line (`firstKeyline_key`, Gts/Lemmas/GbFuel2Agree.lean). -/
theorem stripContOld_empty_prefix_steps : ∀ (f : Nat) (t : Bytes), stripContOld [] f (10 :: t) = 10 :: t
  | 0, _ => rfl
  | f + 1, t => by
    rw [stripContOld]
    have : findSub [10] (10 :: t) 0 = some 0 := by
      unfold findSub; simp
    rw [this]
    exact stripContOld_empty_prefix_steps f t

/-- THE VALUE OF TODAY'S LOOP holds no `"\n" ++ prefix` any more (non-empty prefix): it is the value
of the old loop run to its end (`stripCont_onepass_eq`, `stripContOld_exits`) -/
theorem stripCont_exits (pre : Bytes) (hpre : pre ≠ []) (t : Bytes) :
    findSub (10 :: pre) (stripCont pre t) 0 = none := by
  rw [stripCont_onepass_eq pre hpre t t.length (Nat.le_refl _)]
  exact stripContOld_exits pre hpre t.length t (Nat.le_refl _)

/-! ### the counter loops of the ORIGIN reader -/

theorem walkChars_fuel (oob : Err) (length : Int) (ij : Nat) :
    ∀ (f f' k : Nat) (rest : Bytes), 10 ≤ k + f → 10 ≤ k + f' →
      Origin.walkChars oob length ij f k rest = Origin.walkChars oob length ij f' k rest
  | 0, 0, _, _, _, _ => rfl
  | 0, f' + 1, k, rest, h, _ => by
    simp only [Origin.walkChars]; rw [if_neg (by omega)]
  | f + 1, 0, k, rest, _, h => by
    simp only [Origin.walkChars]; rw [if_neg (by omega)]
  | f + 1, f' + 1, k, rest, h, h' => by
    simp only [Origin.walkChars]
    split
    · cases rest with
      | nil => rfl
      | cons c r =>
        dsimp only
        split
        · exact walkChars_fuel oob length ij f f' (k + 1) r (by omega) (by omega)
        · rfl
    · rfl

theorem walkGroups_fuel (oob : Err) (length : Int) (i : Nat) :
    ∀ (f f' j : Nat) (rest : Bytes), 60 ≤ j + 10 * f → 60 ≤ j + 10 * f' →
      Origin.walkGroups oob length i f j rest = Origin.walkGroups oob length i f' j rest
  | 0, 0, _, _, _, _ => rfl
  | 0, f' + 1, j, rest, h, _ => by
    simp only [Origin.walkGroups]; rw [if_neg (by omega)]
  | f + 1, 0, j, rest, _, h => by
    simp only [Origin.walkGroups]; rw [if_neg (by omega)]
  | f + 1, f' + 1, j, rest, h, h' => by
    simp only [Origin.walkGroups]
    split
    · cases rest with
      | nil => rfl
      | cons c r =>
        dsimp only
        split
        · rfl
        · cases Origin.walkChars oob length (i + j) 10 0 r with
          | error e => rfl
          | ok r' => exact walkGroups_fuel oob length i f f' (j + 10) r' (by omega) (by omega)
    · rfl

theorem validateLines_fuel (length : Int) :
    ∀ (f f' i : Nat) (rest : Bytes), length ≤ (i : Int) + 60 * (f : Int) →
      length ≤ (i : Int) + 60 * (f' : Int) →
      Origin.validateLines length f i rest = Origin.validateLines length f' i rest
  | 0, 0, _, _, _, _ => rfl
  | 0, f' + 1, i, rest, h, _ => by
    simp only [Origin.validateLines]; rw [if_neg (by omega)]
  | f + 1, 0, i, rest, _, h => by
    simp only [Origin.validateLines]; rw [if_neg (by omega)]
  | f + 1, f' + 1, i, rest, h, h' => by
    simp only [Origin.validateLines]
    split
    · cases Origin.walkLine .panic length i rest with
      | error e => rfl
      | ok r =>
        cases r with
        | nil => rfl
        | cons c r' =>
          dsimp only
          split
          · rfl
          · exact validateLines_fuel length f f' (i + 60) r' (by omega) (by omega)
    · rfl

/-- the reader's copy of the slow path's line loop -/
theorem slowLines_fuel (length : Int) (cap : Nat) :
    ∀ (f f' i : Nat) (st acc : Bytes), length ≤ (i : Int) + 60 * (f : Int) →
      length ≤ (i : Int) + 60 * (f' : Int) →
      slowLines length cap f i st acc = slowLines length cap f' i st acc
  | 0, 0, _, _, _, _, _ => rfl
  | 0, f' + 1, i, st, acc, h, _ => by
    simp only [slowLines]; rw [if_neg (by omega)]
  | f + 1, 0, i, st, acc, _, h => by
    simp only [slowLines]; rw [if_neg (by omega)]
  | f + 1, f' + 1, i, st, acc, h, h' => by
    simp only [slowLines]
    split
    · cases Origin.walkLine .fail length i (Origin.splitLine st).1 with
      | error e => rfl
      | ok r =>
        dsimp only
        split
        · rfl
        · split
          · exact slowLines_fuel length cap f f' (i + 60) _ _ (by omega) (by omega)
          · rfl
    · rfl

/-! ### `fmt.Sprintf("%9d", n)` (library model) -/

theorem digitsAux_fuel : ∀ (f f' n : Nat), n < f → n < f' →
    Origin.digitsAux f n = Origin.digitsAux f' n
  | 0, _, _, h, _ => absurd h (Nat.not_lt_zero _)
  | _ + 1, 0, _, _, h => absurd h (Nat.not_lt_zero _)
  | f + 1, f' + 1, n, h, h' => by
    rw [Origin.digitsAux, Origin.digitsAux]
    split
    · rfl
    · rw [digitsAux_fuel f f' (n / 10) (by omega) (by omega)]

/-! ### `strconv.Itoa` (library model; the REFERENCE parser measures the width of the number) -/

theorem natDigitsF_fuel : ∀ (f f' n : Nat), n < f → n < f' → natDigitsF f n = natDigitsF f' n
  | 0, _, _, h, _ => absurd h (Nat.not_lt_zero _)
  | _ + 1, 0, _, _, h => absurd h (Nat.not_lt_zero _)
  | f + 1, f' + 1, n, h, h' => by
    rw [natDigitsF, natDigitsF]
    split
    · rfl
    · rw [natDigitsF_fuel f f' (n / 10) (by omega) (by omega)]

end Gts.GenBank
