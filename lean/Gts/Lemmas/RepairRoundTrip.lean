/-
  `Repair` (property C12), part 8: slice;…;slice;concat;repair on a sequence whose features are
  forward ranges with table-unique classes gives back every feature (up to table order).
  Core Lean only.
-/
import Gts.Lemmas.RepairRestore
namespace Gts
open Loc

/-- the pieces of `s` between consecutive cut points -/
def cutPieces (s : Seq) : List Int → List Seq
  | a :: b :: rest => s.slice a b :: cutPieces s (b :: rest)
  | _ => []

/-- `slice;…;slice;concat;repair` with the cut positions `cuts` -/
def roundTrip (s : Seq) (cuts : List Int) : RepairOutcome :=
  repair (Seq.concat (cutPieces s (0 :: cuts ++ [s.len]))).feats

/-! ### slices and their concatenation -/

theorem slice_eq_fwd (s : Seq) (a b : Int) (ha : 0 ≤ a) (hab : a ≤ b) : s.slice a b = s.sliceFwd a b := by
  simp only [Seq.slice]
  have h1 : ¬ a < 0 := by omega
  have h2 : ¬ b < 0 := by omega
  have h3 : ¬ b < a := by omega
  simp [h1, h2, h3]

theorem sliceFwd_len (s : Seq) (a b : Int) (ha : 0 ≤ a) (hab : a ≤ b) (hb : b ≤ s.len) :
    (s.sliceFwd a b).len = b - a := by
  simp only [Seq.sliceFwd, Seq.len, List.length_take, List.length_drop] at hb ⊢
  omega

/-- the location of a feature in the piece `[a, b)`, moved back to offset `a` by `Concat` -/
def pieceLoc (l : Loc) (a b L : Int) : Loc := ((l.expand b (b - L)).expand 0 (-a)).expand 0 a

/-- the features `Concat` contributes for the piece `[a, b)` (no `source` features) -/
def pieceFeats (s : Seq) (a b : Int) : Table :=
  (s.feats.filter fun f => f.loc.overlap a b).map fun f => { f with loc := pieceLoc f.loc a b s.len }

/-- the table of all fragments -/
def fragTable (s : Seq) : List Int → Table
  | a :: b :: rest => pieceFeats s a b ++ fragTable s (b :: rest)
  | _ => []

theorem shift_slice_feats (s : Seq) (a b : Int) (hns : ∀ f ∈ s.feats, f.key ≠ "source") :
    ((s.sliceFwd a b).feats.map fun f => { f with loc := f.loc.expand 0 a }) = pieceFeats s a b := by
  simp only [Seq.sliceFwd, pieceFeats, List.map_map]
  apply List.map_congr_left
  intro f hf
  have := hns f (List.mem_filter.mp hf).1
  simp [this, pieceLoc]

theorem concat2_len (a b : Seq) : (Seq.concat2 a b).len = a.len + b.len := by
  simp [Seq.concat2, Seq.len]

theorem concat2_feats_perm (a b : Seq) :
    (Seq.concat2 a b).feats.Perm (a.feats ++ b.feats.map fun f => { f with loc := f.loc.expand 0 a.len }) := by
  simp only [Seq.concat2]
  refine (Table.insertAll_perm _ a.feats).trans ?_
  exact (List.perm_append_comm).trans (List.Perm.append_left _ (List.reverse_perm _))

/-- folding `Concat` over the remaining pieces appends their fragments -/
theorem foldl_concat2_feats (s : Seq) (hns : ∀ f ∈ s.feats, f.key ≠ "source") (rest : List Int) (a : Int)
    (acc : Seq) (hacc : acc.len = a) (ha : 0 ≤ a) (hs : (a :: rest).Pairwise (· < ·))
    (hb : ∀ c ∈ a :: rest, c ≤ s.len) :
    ((cutPieces s (a :: rest)).foldl Seq.concat2 acc).feats.Perm (acc.feats ++ fragTable s (a :: rest)) := by
  induction rest generalizing a acc with
  | nil => simp [cutPieces, fragTable]
  | cons b rest ih =>
    have hab : a < b := (List.pairwise_cons.mp hs).1 b (by simp)
    have hbL : b ≤ s.len := hb b (by simp)
    simp only [cutPieces, fragTable, List.foldl_cons]
    have hlen : (Seq.concat2 acc (s.slice a b)).len = b := by
      rw [concat2_len, hacc, slice_eq_fwd s a b ha (by omega), sliceFwd_len s a b ha (by omega) hbL]
      omega
    refine (ih b _ hlen (by omega) (List.pairwise_cons.mp hs).2 (fun c hc => hb c (by simp [hc]))).trans ?_
    rw [← List.append_assoc]
    apply List.Perm.append_right
    refine (concat2_feats_perm acc _).trans ?_
    rw [hacc, slice_eq_fwd s a b ha (by omega), shift_slice_feats s a b hns]

/-! ### forward ranges inside the sequence -/

/-- a forward range inside `[0, L]` -/
def Loc.rangedIn (L : Int) : Loc → Bool
  | ranged s e _ _ => decide (0 ≤ s) && decide (s < e) && decide (e ≤ L)
  | _ => false

theorem expand_zero_ranged (s e : Int) (x y : Bool) (i : Int) : (ranged s e x y).expand i 0 = ranged s e x y := by
  simp [expand, rangedExpand]

theorem overlap_ranged (s e : Int) (x y : Bool) (a b : Int) (hse : s < e) (hab : a < b) :
    (ranged s e x y).overlap a b = (decide (s < b) && decide (a < e)) := by
  simp only [overlap, rangeOverlap]
  have h1 : ¬ e < s := by omega
  have h2 : ¬ b < a := by omega
  simp [h1, h2]

theorem pieceLoc_ranged (s e : Int) (p5 p3 : Bool) (a b L : Int) (hin : (ranged s e p5 p3).rangedIn L = true)
    (ha : 0 ≤ a) (hab : a < b) (hbL : b ≤ L) (hov : (ranged s e p5 p3).overlap a b = true) :
    pieceLoc (ranged s e p5 p3) a b L =
      ranged (if s < a then a else s) (if b < e then b else e) (p5 || decide (s < a)) (p3 || decide (b < e)) := by
  simp only [rangedIn, Bool.and_eq_true, decide_eq_true_eq] at hin
  rw [overlap_ranged s e p5 p3 a b hin.1.2 hab] at hov
  simp only [Bool.and_eq_true, decide_eq_true_eq] at hov
  exact slice_concat_ranged s e p5 p3 a b L hin.1.1 hin.1.2 hin.2 ha hab hbL hov

/-- the first piece is not moved by `Concat`; for forward ranges that makes no difference -/
theorem first_piece_feats (s : Seq) (b : Int) (hb : 0 < b) (hbL : b ≤ s.len)
    (hns : ∀ f ∈ s.feats, f.key ≠ "source") (hr : ∀ f ∈ s.feats, f.loc.rangedIn s.len = true) :
    (s.sliceFwd 0 b).feats = pieceFeats s 0 b := by
  simp only [Seq.sliceFwd, pieceFeats]
  apply List.map_congr_left
  intro f hf
  have hfm := (List.mem_filter.mp hf).1
  have hov := (List.mem_filter.mp hf).2
  have hnsf := hns f hfm
  have hrf := hr f hfm
  simp only [hnsf, if_false]
  cases hl : f.loc <;> simp [hl, rangedIn] at hrf
  rename_i fs fe f5 f3
  rw [hl] at hov
  rw [overlap_ranged fs fe f5 f3 0 b hrf.1.2 hb] at hov
  simp only [Bool.and_eq_true, decide_eq_true_eq] at hov
  simp only [pieceLoc]
  rw [expand_step1 fs fe f5 f3 b s.len hrf.1.2 hrf.2 hov.1 hbL]
  rw [expand_step2 fs _ f5 _ 0 hrf.1.1 (by split <;> omega) (Int.le_refl 0) (by split <;> omega)]
  rw [expand_zero_ranged]

/-- the features of the concatenated pieces are the fragments, in some order -/
theorem concat_pieces_perm (s : Seq) (c : Int) (rest : List Int)
    (hns : ∀ f ∈ s.feats, f.key ≠ "source") (hr : ∀ f ∈ s.feats, f.loc.rangedIn s.len = true)
    (hs : (0 :: c :: rest).Pairwise (· < ·)) (hb : ∀ x ∈ c :: rest, x ≤ s.len) :
    (Seq.concat (cutPieces s (0 :: c :: rest))).feats.Perm (fragTable s (0 :: c :: rest)) := by
  have hc : 0 < c := (List.pairwise_cons.mp hs).1 c (by simp)
  have hcL : c ≤ s.len := hb c (by simp)
  simp only [cutPieces, Seq.concat, fragTable]
  have hlen : (s.slice 0 c).len = c := by
    rw [slice_eq_fwd s 0 c (Int.le_refl 0) (by omega), sliceFwd_len s 0 c (Int.le_refl 0) (by omega) hcL]
    omega
  refine (foldl_concat2_feats s hns rest c _ hlen (by omega) (List.pairwise_cons.mp hs).2 hb).trans ?_
  rw [slice_eq_fwd s 0 c (Int.le_refl 0) (by omega), first_piece_feats s c hc hcL hns hr]

/-! ### the fragments of one feature -/

/-- the fragments of the feature `f` over the pieces -/
def pieceFeatsOf (f : Feature) (L : Int) : List Int → Table
  | a :: b :: rest =>
    (if f.loc.overlap a b then [{ f with loc := pieceLoc f.loc a b L }] else []) ++ pieceFeatsOf f L (b :: rest)
  | _ => []

theorem featsOf_append (x y : Table) (k : String) :
    Table.featsOf (x ++ y) k = Table.featsOf x k ++ Table.featsOf y k := by
  simp [Table.featsOf]

theorem featsOf_pieceFeats (s : Seq) (k : String) (fs : Table) (hf : Table.featsOf s.feats k = fs) (a b : Int) :
    Table.featsOf (pieceFeats s a b) k =
      (fs.filter fun f => f.loc.overlap a b).map fun f => { f with loc := pieceLoc f.loc a b s.len } := by
  subst hf
  simp only [Table.featsOf, pieceFeats, List.filter_map, List.filter_filter]
  congr 1
  apply List.filter_congr
  intro f _
  simp [classKey, classKeyChars, Bool.and_comm]

theorem featsOf_fragTable (s : Seq) (k : String) (f : Feature) (hf : Table.featsOf s.feats k = [f]) :
    ∀ pts, Table.featsOf (fragTable s pts) k = pieceFeatsOf f s.len pts
  | [] => by simp [fragTable, pieceFeatsOf, Table.featsOf]
  | [_] => by simp [fragTable, pieceFeatsOf, Table.featsOf]
  | a :: b :: rest => by
    simp only [fragTable, pieceFeatsOf, featsOf_append, featsOf_fragTable s k f hf (b :: rest),
      featsOf_pieceFeats s k [f] hf a b]
    congr 1
    by_cases h : f.loc.overlap a b = true <;> simp [h]

theorem featsOf_fragTable_nil (s : Seq) (k : String) (hf : Table.featsOf s.feats k = []) :
    ∀ pts, Table.featsOf (fragTable s pts) k = []
  | [] => by simp [fragTable, Table.featsOf]
  | [_] => by simp [fragTable, Table.featsOf]
  | a :: b :: rest => by
    simp only [fragTable, featsOf_append, featsOf_fragTable_nil s k hf (b :: rest),
      featsOf_pieceFeats s k [] hf a b]
    simp

theorem pieceFeatsOf_keys (f : Feature) (L : Int) :
    ∀ pts, ∀ g ∈ pieceFeatsOf f L pts, g.key = f.key ∧ g.props = f.props
  | [] => by simp [pieceFeatsOf]
  | [_] => by simp [pieceFeatsOf]
  | a :: b :: rest => by
    intro g hg
    simp only [pieceFeatsOf, List.mem_append] at hg
    rcases hg with hg | hg
    · by_cases h : f.loc.overlap a b = true
      · simp only [h, if_true, List.mem_singleton] at hg
        subst hg
        exact ⟨rfl, rfl⟩
      · simp [h] at hg
    · exact pieceFeatsOf_keys f L (b :: rest) g hg

theorem pieceFeatsOf_nil (f : Feature) (s e : Int) (p5 p3 : Bool) (hl : f.loc = ranged s e p5 p3)
    (hse : s < e) (L : Int) :
    ∀ rest a, (a :: rest).Pairwise (· < ·) → e ≤ a → pieceFeatsOf f L (a :: rest) = []
  | [], _, _, _ => by simp [pieceFeatsOf]
  | b :: rest, a, hs, hea => by
    have hab : a < b := (List.pairwise_cons.mp hs).1 b (by simp)
    simp only [pieceFeatsOf, hl, overlap_ranged s e p5 p3 a b hse hab]
    have : ¬ a < e := by omega
    simp only [this, decide_false, Bool.and_false, Bool.false_eq_true, if_false, List.nil_append]
    have := pieceFeatsOf_nil f s e p5 p3 hl hse L rest b (List.pairwise_cons.mp hs).2 (by omega)
    simpa [hl] using this

theorem filter_congr_mem {α} (l : List α) (p q : α → Bool) (h : ∀ x ∈ l, p x = q x) :
    l.filter p = l.filter q := List.filter_congr h

/-- the cut positions strictly inside `(s', e)` -/
def innerCuts (s' e : Int) (pts : List Int) : List Int := pts.filter fun c => decide (s' < c) && decide (c < e)

theorem innerCuts_shift (s' c e : Int) (rest : List Int) (hsc : s' < c)
    (hs : (c :: rest).Pairwise (· < ·)) : innerCuts s' e rest = innerCuts c e rest := by
  apply List.filter_congr
  intro x hx
  have : c < x := (List.pairwise_cons.mp hs).1 x hx
  have h1 : s' < x := by omega
  simp [h1, this]

theorem cutsOk_innerCuts (e : Int) : ∀ (rest : List Int) (s' : Int), s' < e → rest.Pairwise (· < ·) →
    cutsOk s' e (innerCuts s' e rest)
  | [], s', h, _ => by simpa [innerCuts, cutsOk] using h
  | c :: rest, s', h, hs => by
    by_cases hk : s' < c ∧ c < e
    · have e1 : innerCuts s' e (c :: rest) = c :: innerCuts s' e rest := by
        simp [innerCuts, hk.1, hk.2]
      rw [e1, innerCuts_shift s' c e rest hk.1 hs]
      exact ⟨hk.1, cutsOk_innerCuts e rest c hk.2 (List.pairwise_cons.mp hs).2⟩
    · have e1 : innerCuts s' e (c :: rest) = innerCuts s' e rest := by
        simp only [innerCuts, List.filter_cons]
        have : (decide (s' < c) && decide (c < e)) = false := by
          simp only [Bool.and_eq_false_imp, decide_eq_true_eq, decide_eq_false_iff_not]
          intro h1 h2; exact hk ⟨h1, h2⟩
        simp [this]
      rw [e1]
      exact cutsOk_innerCuts e rest s' h (List.pairwise_cons.mp hs).2

/-- **the fragments of a forward range over the pieces are its `frags`** at the cut positions
strictly inside it -/
theorem pieceFeatsOf_ranged (f : Feature) (s e : Int) (p5 p3 : Bool) (hl : f.loc = ranged s e p5 p3)
    (L : Int) (hin : (ranged s e p5 p3).rangedIn L = true) :
    ∀ (rest : List Int) (a : Int), (a :: rest).Pairwise (· < ·) → 0 ≤ a → (∀ c ∈ a :: rest, c ≤ L) → a < e →
      (∃ c ∈ a :: rest, e ≤ c) →
      (pieceFeatsOf f L (a :: rest)).map (·.loc) =
        frags true (if s < a then a else s) e (p5 || decide (s < a)) p3
          (innerCuts (if s < a then a else s) e rest)
  | [], a, _, _, _, hae, hex => by
    obtain ⟨c, hc, hec⟩ := hex
    simp only [List.mem_singleton] at hc
    omega
  | b :: rest, a, hs, ha, hb, hae, hex => by
    have hin' := hin
    simp only [rangedIn, Bool.and_eq_true, decide_eq_true_eq] at hin'
    have hse := hin'.1.2
    have hab : a < b := (List.pairwise_cons.mp hs).1 b (by simp)
    have hbL : b ≤ L := hb b (by simp)
    have hs' := (List.pairwise_cons.mp hs).2
    simp only [pieceFeatsOf, List.map_append]
    by_cases hsb : s < b
    · -- the piece overlaps
      have hov : f.loc.overlap a b = true := by
        rw [hl, overlap_ranged s e p5 p3 a b hse hab]; simp [hsb, hae]
      simp only [hov, if_true, List.map_cons, List.map_nil, List.singleton_append]
      have hov' := hov
      rw [hl] at hov'
      rw [hl, pieceLoc_ranged s e p5 p3 a b L hin ha hab hbL hov']
      have hsa' : (if s < a then a else s) < b := by split <;> omega
      by_cases hbe : b < e
      · -- a cut inside the range
        have e1 : innerCuts (if s < a then a else s) e (b :: rest) =
            b :: innerCuts (if s < a then a else s) e rest := by
          simp [innerCuts, hsa', hbe]
        have hex' : ∃ c ∈ b :: rest, e ≤ c := by
          obtain ⟨c, hc, hec⟩ := hex
          rcases List.mem_cons.mp hc with rfl | hc
          · omega
          · exact ⟨c, hc, hec⟩
        have ih := pieceFeatsOf_ranged f s e p5 p3 hl L hin rest b hs' (by omega)
          (fun c hc => hb c (by simp [hc])) hbe hex'
        have hsb' : (if s < b then b else s) = b := by simp [hsb]
        rw [ih, e1, hsb', innerCuts_shift _ b e rest hsa' hs']
        simp [frags, hbe, hsb]
      · -- the last piece of the range
        have e1 : innerCuts (if s < a then a else s) e (b :: rest) = [] := by
          simp only [innerCuts, List.filter_eq_nil_iff, Bool.and_eq_true, decide_eq_true_eq, not_and]
          intro x hx _
          rcases List.mem_cons.mp hx with rfl | hx
          · exact hbe
          · have := (List.pairwise_cons.mp hs').1 x hx
            omega
        rw [pieceFeatsOf_nil f s e p5 p3 hl hse L rest b hs' (by omega), e1]
        simp [frags, hbe]
    · -- the piece ends before the range starts
      have hov : f.loc.overlap a b = false := by
        rw [hl, overlap_ranged s e p5 p3 a b hse hab]; simp [hsb]
      simp only [hov, Bool.false_eq_true, if_false, List.map_nil, List.nil_append]
      have hbe : b < e := by omega
      have hex' : ∃ c ∈ b :: rest, e ≤ c := by
        obtain ⟨c, hc, hec⟩ := hex
        rcases List.mem_cons.mp hc with rfl | hc
        · omega
        · exact ⟨c, hc, hec⟩
      have ih := pieceFeatsOf_ranged f s e p5 p3 hl L hin rest b hs' (by omega)
        (fun c hc => hb c (by simp [hc])) hbe hex'
      have hsa : ¬ s < a := by omega
      rw [ih]
      simp only [hsb, hsa, if_false]
      have e1 : innerCuts s e (b :: rest) = innerCuts s e rest := by
        simp [innerCuts, hsb]
      rw [e1]

/-! ### assembling the round trip -/

theorem featsOf_eq_nil_iff (t : Table) (k : String) : Table.featsOf t k = [] ↔ k ∉ Table.classKeys t := by
  simp only [Table.featsOf, List.filter_eq_nil_iff, beq_iff_eq, Table.mem_classKeys]
  constructor
  · rintro h ⟨f, hf, hk⟩; exact h f hf hk
  · intro h f hf hk; exact h ⟨f, hf, hk⟩

theorem locsOf_eq_map (t : Table) (k : String) : Table.locsOf t k = (Table.featsOf t k).map (·.loc) := rfl

/-- a feature that is alone in its class -/
theorem featsOf_unique (t : Table) (f : Feature) (hf : f ∈ t) (h1 : Table.classSize t f = 1) :
    Table.featsOf t (classKey f) = [f] := by
  have hmem : f ∈ Table.featsOf t (classKey f) := by simp [Table.featsOf, hf]
  have hlen : (Table.featsOf t (classKey f)).length ≤ 1 := by
    rw [featsOf_eq]
    exact Nat.le_trans (List.length_filterMap_le _ _) (by simpa [Table.classSize] using Nat.le_of_eq h1)
  cases hfe : Table.featsOf t (classKey f) with
  | nil => rw [hfe] at hmem; cases hmem
  | cons x xs =>
    rw [hfe] at hmem hlen
    cases xs with
    | nil => simp only [List.mem_singleton] at hmem; rw [hmem]
    | cons y ys => simp at hlen

theorem feature_ext (f g : Feature) (h1 : g.key = f.key) (h2 : g.loc = f.loc) (h3 : g.props = f.props) : g = f := by
  cases f; cases g; simp_all

/-- the hypotheses of the restoration theorem -/
structure Restorable (s : Seq) (cuts : List Int) : Prop where
  noSource : ∀ f ∈ s.feats, f.key ≠ "source"
  ranged : ∀ f ∈ s.feats, f.loc.rangedIn s.len = true
  unique : ∀ f ∈ s.feats, Table.classSize s.feats f = 1
  cuts : (0 :: cuts ++ [s.len]).Pairwise (· < ·)

/-- the class of an original feature `f` in the concatenated table `u`: its locations are the
`frags` of `f`, in some order; key and qualifiers are those of `f` -/
theorem class_of_fragments (s : Seq) (c : Int) (rest : List Int) (u : Table)
    (hr : ∀ f ∈ s.feats, f.loc.rangedIn s.len = true) (hu : ∀ f ∈ s.feats, Table.classSize s.feats f = 1)
    (hs : (0 :: c :: rest).Pairwise (· < ·)) (hb : ∀ x ∈ c :: rest, x ≤ s.len) (hL : s.len ∈ c :: rest)
    (hperm : u.Perm (fragTable s (0 :: c :: rest)))
    (f : Feature) (hf : f ∈ s.feats) (s0 e0 : Int) (p5 p3 : Bool) (hl : f.loc = ranged s0 e0 p5 p3) :
    (Table.locsOf u (classKey f)).Perm (frags true s0 e0 p5 p3 (innerCuts s0 e0 (c :: rest))) ∧
    cutsOk s0 e0 (innerCuts s0 e0 (c :: rest)) ∧
    ∀ g ∈ Table.featsOf u (classKey f), g.key = f.key ∧ g.props = f.props := by
  have hin := hr f hf
  rw [hl] at hin
  have hin' := hin
  simp only [rangedIn, Bool.and_eq_true, decide_eq_true_eq] at hin'
  have hfe := featsOf_unique s.feats f hf (hu f hf)
  have h1 : (Table.featsOf u (classKey f)).Perm (pieceFeatsOf f s.len (0 :: c :: rest)) := by
    rw [← featsOf_fragTable s (classKey f) f hfe]
    exact hperm.filter _
  have hpf := pieceFeatsOf_ranged f s0 e0 p5 p3 hl s.len hin (c :: rest) 0 hs (Int.le_refl 0)
    (by
      intro x hx
      rcases List.mem_cons.mp hx with rfl | hx
      · omega
      · exact hb x hx)
    (by omega) ⟨s.len, List.mem_cons_of_mem _ hL, hin'.2⟩
  have hn : ¬ s0 < 0 := by omega
  simp only [hn, if_false, decide_false, Bool.or_false] at hpf
  refine ⟨?_, cutsOk_innerCuts e0 (c :: rest) s0 hin'.1.2 (List.pairwise_cons.mp hs).2, ?_⟩
  · rw [locsOf_eq_map, ← hpf]
    exact h1.map _
  · intro g hg
    exact pieceFeatsOf_keys f s.len _ g (h1.mem_iff.mp hg)

/-- **(g)**: `slice;…;slice;concat;repair` gives back, class by class, exactly the original
features -/
theorem roundTrip_restores (s : Seq) (cuts : List Int) (h : Restorable s cuts) :
    ∃ t', roundTrip s cuts = .ok t' ∧ ∀ k, Table.featsOf t' k = Table.featsOf s.feats k := by
  obtain ⟨hns, hr, hu, hc⟩ := h
  -- the cut points
  obtain ⟨c, rest, hpts⟩ : ∃ c rest, cuts ++ [s.len] = c :: rest := by
    cases cuts with
    | nil => exact ⟨s.len, [], rfl⟩
    | cons c cs => exact ⟨c, cs ++ [s.len], rfl⟩
  have hcs' : (0 :: c :: rest).Pairwise (· < ·) := by
    have : 0 :: c :: rest = 0 :: cuts ++ [s.len] := by simp [hpts]
    rw [this]; exact hc
  have hLmem : s.len ∈ c :: rest := by rw [← hpts]; simp
  have hbound : ∀ x ∈ c :: rest, x ≤ s.len := by
    intro x hx
    rw [← hpts] at hx
    rcases List.mem_append.mp hx with hx | hx
    · have h1 : (cuts ++ [s.len]).Pairwise (· < ·) := (List.pairwise_cons.mp hc).2
      exact Int.le_of_lt ((List.pairwise_append.mp h1).2.2 x hx s.len (by simp))
    · simp only [List.mem_singleton] at hx; omega
  -- the table after concatenation
  have hperm := concat_pieces_perm s c rest hns hr hcs' hbound
  have hrt : roundTrip s cuts = repair (Seq.concat (cutPieces s (0 :: c :: rest))).feats := by
    simp only [roundTrip, List.cons_append, hpts]
  generalize (Seq.concat (cutPieces s (0 :: c :: rest))).feats = u at hperm hrt
  have hcl := class_of_fragments s c rest u hr hu hcs' hbound hLmem hperm
  -- the classes of `u` are the classes of the original table
  have hkeys : ∀ k, k ∈ Table.classKeys u ↔ k ∈ Table.classKeys s.feats := by
    intro k
    constructor
    · intro hk
      apply Classical.byContradiction
      intro hnk
      have h0 := (featsOf_eq_nil_iff s.feats k).mpr hnk
      have h1 : Table.featsOf u k = [] := by
        have := (hperm.filter fun f => classKey f == k)
        rw [show (fragTable s (0 :: c :: rest)).filter (fun f => classKey f == k) =
          Table.featsOf (fragTable s (0 :: c :: rest)) k from rfl, featsOf_fragTable_nil s k h0] at this
        exact List.Perm.eq_nil this
      exact (featsOf_eq_nil_iff u k).mp h1 hk
    · intro hk
      obtain ⟨f, hf, rfl⟩ := (Table.mem_classKeys s.feats k).mp hk
      have hrf := hr f hf
      cases hl : f.loc <;> simp [hl, rangedIn] at hrf
      rename_i s0 e0 p5 p3
      obtain ⟨h1, h2, _⟩ := hcl f hf s0 e0 p5 p3 hl
      apply Classical.byContradiction
      intro hnk
      have h3 := (featsOf_eq_nil_iff u (classKey f)).mpr hnk
      rw [locsOf_eq_map, h3] at h1
      have := h1.length_eq
      cases hic : innerCuts s0 e0 (c :: rest) <;> simp [hic, frags] at this
  -- every class is fused into the one original location
  have hP : ∀ f ∈ s.feats, classP u (Table.memberIdx u (classKey f)) = [f.loc] := by
    intro f hf
    have hrf := hr f hf
    cases hl : f.loc <;> simp [hl, rangedIn] at hrf
    rename_i s0 e0 p5 p3
    obtain ⟨h1, h2, h3⟩ := hcl f hf s0 e0 p5 p3 hl
    have hforce : classForce u (Table.memberIdx u (classKey f)) = false := by
      rw [classForce_eq]
      simp only [Table.forceOf]
      cases hh : (Table.featsOf u (classKey f)).head? with
      | none => rfl
      | some g =>
        have hg : g ∈ Table.featsOf u (classKey f) := List.mem_of_head? hh
        simp only [(h3 g hg).1]
        simpa using hns f hf
    simp only [classP, hforce, classLocs_memberIdx]
    exact pushedOf_frags false true (by rfl) s0 e0 p5 p3 _ h2 _ h1
  have hgroups : ∀ idx ∈ Table.groups u, ∃ f ∈ s.feats, idx = Table.memberIdx u (classKey f) := by
    intro idx hi
    obtain ⟨k, hk, rfl⟩ := List.mem_map.mp hi
    obtain ⟨f, hf, rfl⟩ := (Table.mem_classKeys s.feats k).mp ((hkeys k).mp hk)
    exact ⟨f, hf, rfl⟩
  have hns' : (Table.groups u).any (classNil u) = false := by
    rw [List.any_eq_false]
    intro idx hi
    obtain ⟨f, hf, rfl⟩ := hgroups idx hi
    simp [classNil, hP f hf]
  refine ⟨specRepair u, by rw [hrt, repair_eq_spec u hns'], ?_⟩
  intro k
  by_cases hk : k ∈ Table.classKeys s.feats
  · obtain ⟨f, hf, rfl⟩ := (Table.mem_classKeys s.feats _).mp hk
    have hku := (hkeys _).mpr hk
    have hidx : Table.memberIdx u (classKey f) ∈ Table.groups u := List.mem_map.mpr ⟨_, hku, rfl⟩
    rw [featsOf_unique s.feats f hf (hu f hf)]
    have hrf := hr f hf
    cases hl : f.loc <;> simp [hl, rangedIn] at hrf
    rename_i s0 e0 p5 p3
    obtain ⟨h1, h2, h3⟩ := hcl f hf s0 e0 p5 p3 hl
    -- the locations of the class in the result
    have hlocs : (Table.featsOf (specRepair u) (classKey f)).map (·.loc) = [f.loc] := by
      rw [← locsOf_eq_map, locsOf_specRepair u hns' _ hku]
      simp only [classNew]
      split
      · exact hP f hf
      · rename_i hnlt
        have hN : classN u (Table.memberIdx u (classKey f)) = 1 := by
          rw [classN_of_ne_nil (by rw [hP f hf]; simp), hP f hf]; rfl
        have hlen := classLocs_length u _ (groups_lt u _ hidx)
        have hne := Table.groups_ne_nil u _ hidx
        have hlen1 : (Table.memberIdx u (classKey f)).length = 1 := by
          have hpos : 0 < (Table.memberIdx u (classKey f)).length := List.length_pos_iff.mpr hne
          rw [hN] at hnlt
          omega
        rw [classLocs_memberIdx] at hlen ⊢
        -- a single fragment is the whole range
        cases hic : innerCuts s0 e0 (c :: rest) with
        | nil =>
          rw [hic] at h1
          simp only [frags] at h1
          rw [hl]
          exact List.perm_singleton.mp h1
        | cons x xs =>
          rw [hic] at h1
          have := h1.length_eq
          rw [hlen, hlen1] at this
          simp [frags] at this
          cases xs <;> simp [frags] at this
    -- key and qualifiers
    cases hfe : Table.featsOf (specRepair u) (classKey f) with
    | nil => rw [hfe] at hlocs; simp at hlocs
    | cons g gs =>
      rw [hfe] at hlocs
      simp only [List.map_cons, List.cons.injEq, List.map_eq_nil_iff] at hlocs
      obtain ⟨hgl, rfl⟩ := hlocs
      have hg : g ∈ Table.featsOf (specRepair u) (classKey f) := by rw [hfe]; simp
      simp only [Table.featsOf, List.mem_filter, beq_iff_eq] at hg
      obtain ⟨j, hj, hgg⟩ := mem_specRepair u g hg.1
      have hkey := writeLocs_key u ((Table.groups u).flatMap (classWrites u)) j
      simp only [specGG] at hgg
      rw [hgg] at hkey
      cases hu' : u[j]? with
      | none => rw [hu'] at hkey; cases hkey
      | some h0 =>
        rw [hu'] at hkey
        simp only [Option.map_some, Option.some.injEq, Prod.mk.injEq] at hkey
        have hck : classKey h0 = classKey f := by
          rw [← hg.2]; exact (classKey_congr hkey.1 hkey.2).symm
        have hh0 : h0 ∈ Table.featsOf u (classKey f) := by
          simp [Table.featsOf, List.mem_of_getElem? hu', hck]
        have := h3 h0 hh0
        rw [feature_ext f g (by rw [hkey.1, this.1]) hgl (by rw [hkey.2, this.2])]
  · have hku : k ∉ Table.classKeys u := fun h => hk ((hkeys k).mp h)
    rw [(featsOf_eq_nil_iff s.feats k).mpr hk]
    have := locsOf_specRepair_of_not_mem u k hku
    rw [locsOf_eq_map] at this
    exact List.map_eq_nil_iff.mp this

end Gts
