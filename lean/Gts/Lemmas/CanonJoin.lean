/-
  `Join` and canonical locations.
  * `stableR racc`: the (reversed) accumulator holds structurally canonical, non-`joined` elements
    and `Push` leaves every neighbouring pair alone.  A `joined` is canonical exactly when its parts
    form such a list (`structP_joined_iff`).
  * One push keeps `stableR` unless the K3 shape arises (`push1_stable`), hence so does the fold
    (`fold_stable`), hence `Join` of canonical arguments is canonical unless `joinK3`
    (`join_struct`).  The complemented / complemented rule is kept out by `noAdjCompl` (the edit
    operations never bring two complemented parts together).
  Core Lean only.
-/
import Gts.Lemmas.CanonBasic
namespace Gts
namespace Loc

/-- structurally canonical and not a `joined` (what a part of a canonical `joined` is) -/
def partOk (x : Loc) : Bool := structP x && !isJoinedC x

/-- the reversed accumulator: parts, and no neighbouring pair that `Push` reduces -/
def stableR : List Loc → Bool
  | [] => true
  | [v] => partOk v
  | v :: w :: r => partOk v && irr w v && stableR (w :: r)

theorem stableR_cons (v : Loc) (racc : List Loc) :
    stableR (v :: racc) = (partOk v && irrHead racc v && stableR racc) := by
  cases racc with
  | nil => simp [stableR, irrHead]
  | cons w r => simp [stableR, irrHead]

theorem stableR_tail (v : Loc) (racc : List Loc) (h : stableR (v :: racc) = true) : stableR racc = true := by
  rw [stableR_cons] at h
  simp only [Bool.and_eq_true] at h
  exact h.2

theorem stableR_suffix (a b : List Loc) (h : stableR (a ++ b) = true) : stableR b = true := by
  induction a with
  | nil => simpa using h
  | cons x xs ih => exact ih (stableR_tail x _ h)

theorem stableR_parts (racc : List Loc) (h : stableR racc = true) : ∀ v ∈ racc, partOk v = true := by
  induction racc with
  | nil => simp
  | cons v r ih =>
    rw [stableR_cons] at h
    simp only [Bool.and_eq_true] at h
    intro u hu
    rcases List.mem_cons.mp hu with rfl | hu
    · exact h.1.1
    · exact ih h.2 u hu

/-! ### a stable list is a fixed point of the fold, and conversely -/

theorem push1_irr (racc : List Loc) (x : Loc) (h : irrHead racc x = true) : push1 racc x = x :: racc :=
  pushOne_irr _ racc x h

/-- pushing a stable list appends it -/
theorem fold_of_stable : ∀ (ys racc : List Loc), stableR (ys.reverse ++ racc) = true →
    ys.foldl push1 racc = ys.reverse ++ racc
  | [], racc, _ => by simp
  | y :: ys, racc, h => by
      have h' : stableR (ys.reverse ++ (y :: racc)) = true := by
        simpa [List.append_assoc] using h
      have hy := stableR_suffix _ _ h'
      rw [stableR_cons] at hy
      simp only [Bool.and_eq_true] at hy
      simp only [List.foldl_cons]
      rw [push1_irr racc y hy.1.2, fold_of_stable ys (y :: racc) h']
      simp [List.append_assoc]

theorem fold_length_le : ∀ (ys racc : List Loc), (ys.foldl push1 racc).length ≤ racc.length + ys.length
  | [], racc => by simp
  | y :: ys, racc => by
      have h1 := pushOne_length_le (pushD (pushFuel - 1)) racc y
      have h2 := fold_length_le ys (push1 racc y)
      simp only [List.foldl_cons, List.length_cons]
      unfold push1 at h2 ⊢
      omega

/-- a fold that loses no element fired no rule: the pushed parts with the accumulator are stable -/
theorem stable_of_fold_length : ∀ (ys racc : List Loc), stableR racc = true →
    (∀ y ∈ ys, partOk y = true) →
    (ys.foldl push1 racc).length = racc.length + ys.length → stableR (ys.reverse ++ racc) = true
  | [], racc, hr, _, _ => by simpa using hr
  | y :: ys, racc, hr, hys, hlen => by
      simp only [List.foldl_cons, List.length_cons] at hlen
      have h2 := fold_length_le ys (push1 racc y)
      have h1 := pushOne_length_le (pushD (pushFuel - 1)) racc y
      have hl1 : (push1 racc y).length = racc.length + 1 := by unfold push1 at *; omega
      have hirr : irrHead racc y = true := by
        cases racc with
        | nil => rfl
        | cons v rest =>
          by_cases hi : irr v y = true
          · simpa [irrHead] using hi
          · have := pushOne_length_fired (pushD (pushFuel - 1)) v rest y (by simpa using hi)
            unfold push1 at hl1
            simp only [List.length_cons] at hl1
            omega
      have hpush : push1 racc y = y :: racc := push1_irr racc y hirr
      have hst : stableR (y :: racc) = true := by
        rw [stableR_cons]
        simp only [Bool.and_eq_true]
        exact ⟨⟨hys y (by simp), hirr⟩, hr⟩
      have := stable_of_fold_length ys (y :: racc) hst (fun u hu => hys u (by simp [hu]))
        (by rw [hpush] at hlen; simp only [List.length_cons] at hlen ⊢; omega)
      simpa [List.append_assoc] using this

theorem partOk_of_structPList (ls : List Loc) (h1 : structPList ls = true) (h2 : ls.any isJoinedC = false) :
    ∀ y ∈ ls, partOk y = true := by
  intro y hy
  simp only [partOk, Bool.and_eq_true, Bool.not_eq_true']
  refine ⟨(structPList_iff ls).mp h1 y hy, ?_⟩
  have := List.any_eq_false.mp h2 y hy
  simpa using this

theorem ofParts_eq_joined (j ls : List Loc) (h : ofParts j = joined ls) (hj : ∀ y ∈ j, isJoinedC y = false) :
    j = ls := by
  match j, h, hj with
  | [], h, _ => simp only [ofParts] at h; injection h
  | [a], h, hj =>
    simp only [ofParts] at h
    have := hj a (by simp)
    rw [h] at this
    simp [isJoinedC] at this
  | a :: b :: r, h, _ => simp only [ofParts] at h; injection h

theorem push1_not_joined (racc : List Loc) (x : Loc) (hr : ∀ y ∈ racc, isJoinedC y = false)
    (hx : isJoinedC x = false) : ∀ y ∈ push1 racc x, isJoinedC y = false := by
  unfold push1
  cases racc with
  | nil => simpa [pushOne] using hx
  | cons v rest =>
    have hv := hr v (by simp)
    have hrest : ∀ y ∈ rest, isJoinedC y = false := fun y hy => hr y (by simp [hy])
    cases v <;> cases x <;> simp only [pushOne] <;> (try split) <;>
      simp_all [isJoinedC]

theorem fold_not_joined : ∀ (ys racc : List Loc), (∀ y ∈ racc, isJoinedC y = false) →
    (∀ y ∈ ys, isJoinedC y = false) → ∀ y ∈ ys.foldl push1 racc, isJoinedC y = false
  | [], racc, hr, _ => by simpa using hr
  | y :: ys, racc, hr, hys => by
      simp only [List.foldl_cons]
      exact fold_not_joined ys _ (push1_not_joined racc y hr (hys y (by simp)))
        (fun u hu => hys u (by simp [hu]))

theorem partOk_not_joined (y : Loc) (h : partOk y = true) : isJoinedC y = false := by
  simp only [partOk, Bool.and_eq_true, Bool.not_eq_true'] at h
  exact h.2

/-- the parts of a canonical `joined`, reversed, are a stable list -/
theorem stable_of_structP_joined (ls : List Loc) (h : structP (joined ls) = true) :
    stableR ls.reverse = true ∧ 2 ≤ ls.length ∧ ls.any isJoinedC = false := by
  simp only [structP, Bool.and_eq_true, Bool.not_eq_true', decide_eq_true_eq] at h
  obtain ⟨⟨⟨h1, h2⟩, h3⟩, h4⟩ := h
  refine ⟨?_, h2, h3⟩
  have hpart := partOk_of_structPList ls h1 h3
  have hj := beq_eq _ _ h4
  rw [join_flat, flatJList_of_none ls h3] at hj
  have hnj := fold_not_joined ls [] (by simp) (fun y hy => partOk_not_joined y (hpart y hy))
  have := ofParts_eq_joined _ _ hj (by simpa using hnj)
  have hlen : (ls.foldl push1 []).length = ([] : List Loc).length + ls.length := by
    have := congrArg List.length this
    simpa using this
  simpa using stable_of_fold_length ls [] rfl hpart hlen

/-- … and a stable list of at least two parts is a canonical `joined` -/
theorem structP_joined_of_stable (ls : List Loc) (h : stableR ls.reverse = true) (h2 : 2 ≤ ls.length) :
    structP (joined ls) = true := by
  have hparts := stableR_parts _ h
  have hnj : ls.any isJoinedC = false := by
    rw [List.any_eq_false]
    intro y hy
    simpa using partOk_not_joined y (hparts y (by simpa using hy))
  simp only [structP, Bool.and_eq_true, Bool.not_eq_true', decide_eq_true_eq]
  refine ⟨⟨⟨?_, h2⟩, hnj⟩, ?_⟩
  · rw [structPList_iff]
    intro y hy
    have := hparts y (by simpa using hy)
    simp only [partOk, Bool.and_eq_true] at this
    exact this.1
  · have hf := fold_of_stable ls [] (by simpa using h)
    rw [join_flat, flatJList_of_none ls hnj, hf]
    simp only [List.append_nil, List.reverse_reverse]
    match ls, h2 with
    | a :: b :: r, _ =>
      simp only [ofParts]
      exact beq_refl _

/-! ### one push keeps the accumulator stable unless the K3 shape arises -/

/-- the last element of the accumulator is not a `Complemented` -/
def headPlain : List Loc → Bool
  | compl _ :: _ => false
  | _ => true

theorem stableR_replace (v x : Loc) (rest : List Loc) (hr : stableR (v :: rest) = true)
    (hx : partOk x = true) (h : irrHead rest x = true) : stableR (x :: rest) = true := by
  rw [stableR_cons] at hr ⊢
  simp only [Bool.and_eq_true] at hr ⊢
  exact ⟨⟨hx, h⟩, hr.2⟩

theorem irrHead_of (rest : List Loc) (v x : Loc) (h : irrHead rest v = true)
    (hw : ∀ w, irr w v = true → irr w x = true) : irrHead rest x = true := by
  cases rest with
  | nil => rfl
  | cons w r => exact hw w h

theorem partOk_ranged (s e : Int) (a b : Bool) : partOk (ranged s e a b) = true := by
  simp [partOk, structP, isJoinedC]

theorem push1_stable (racc : List Loc) (x : Loc) (hr : stableR racc = true) (hx : partOk x = true)
    (hc : headPlain racc = true ∨ isComplC x = false) (hk : k3One racc x = false) :
    stableR (push1 racc x) = true := by
  cases racc with
  | nil => simpa [push1, pushOne, stableR] using hx
  | cons v rest =>
    by_cases hi : irr v x = true
    · rw [push1_irr _ _ (by simpa [irrHead] using hi), stableR_cons]
      simp only [Bool.and_eq_true]
      exact ⟨⟨hx, by simpa [irrHead] using hi⟩, hr⟩
    · have hrv := hr
      rw [stableR_cons] at hrv
      simp only [Bool.and_eq_true] at hrv
      obtain ⟨⟨hv, hih⟩, hrest⟩ := hrv
      unfold push1
      cases v <;> cases x <;> simp [irr] at hi
      case between.between p u => subst hi; simpa [pushOne] using hr
      case between.point p u =>
        subst hi
        simp only [pushOne, if_true]
        refine stableR_replace _ _ _ hr hx ?_
        cases rest with
        | nil => rfl
        | cons w r =>
          refine irr_between_point w p hih ?_
          rintro q rfl rfl
          simp [k3One] at hk
      case between.ranged p us ue u5 u3 =>
        subst hi
        simp only [pushOne, if_true]
        refine stableR_replace _ _ _ hr hx ?_
        cases rest with
        | nil => rfl
        | cons w r =>
          rw [irrHead, ← irr_point_ranged]
          refine irr_between_point w p hih ?_
          rintro q rfl rfl
          simp [k3One] at hk
      case point.between p u => subst hi; simpa [pushOne] using hr
      case point.point p u => subst hi; simpa [pushOne] using hr
      case point.ranged p us ue u5 u3 =>
        subst hi
        simp only [pushOne, if_true]
        refine stableR_replace _ _ _ hr hx (irrHead_of rest _ _ hih fun w hw => ?_)
        rw [← irr_point_ranged]; exact hw
      case ranged.between vs ve v5 v3 u => subst hi; simpa [pushOne] using hr
      case ranged.point vs ve v5 v3 u => subst hi; simpa [pushOne] using hr
      case ranged.ranged vs ve v5 v3 us ue u5 u3 =>
        subst hi
        simp only [pushOne, Bool.or_true, Bool.true_and, beq_self_eq_true, if_true]
        refine stableR_replace _ _ _ hr (partOk_ranged _ _ _ _) (irrHead_of rest _ _ hih fun w hw => ?_)
        rw [irr_ranged_start w vs ue ve v5 u3 v5 v3]; exact hw
      case compl.compl a b => simp [headPlain, isComplC] at hc

/-- after a plain element was pushed the accumulator ends plain -/
theorem push1_headPlain (racc : List Loc) (x : Loc) (hx : isComplC x = false) :
    headPlain (push1 racc x) = true := by
  unfold push1
  cases racc with
  | nil => cases x <;> simp_all [pushOne, headPlain, isComplC]
  | cons v rest =>
    cases v <;> cases x <;> simp only [pushOne] <;> (try split) <;> simp_all [headPlain, isComplC]

/-- the accumulator holds a plain element -/
def hasPlain (racc : List Loc) : Bool := racc.any fun y => !isComplC y

theorem push1_hasPlain (racc : List Loc) (x : Loc) (h : hasPlain racc = true ∨ isComplC x = false) :
    hasPlain (push1 racc x) = true := by
  unfold push1
  cases racc with
  | nil =>
    rcases h with h | h
    · simp [hasPlain] at h
    · simpa [pushOne, hasPlain] using h
  | cons v rest =>
    cases v <;> cases x <;> simp only [pushOne] <;> (try split) <;>
      simp_all [hasPlain, isComplC]

theorem fold_hasPlain : ∀ (ys racc : List Loc), hasPlain racc = true → hasPlain (ys.foldl push1 racc) = true
  | [], racc, h => by simpa using h
  | y :: ys, racc, h => by
      simp only [List.foldl_cons]
      exact fold_hasPlain ys _ (push1_hasPlain racc y (Or.inl h))

theorem fold_hasPlain_of_mem : ∀ (ys racc : List Loc), (∃ y ∈ ys, isComplC y = false) →
    hasPlain (ys.foldl push1 racc) = true
  | [], racc, h => by simp at h
  | y :: ys, racc, h => by
      simp only [List.foldl_cons]
      by_cases hy : isComplC y = false
      · exact fold_hasPlain ys _ (push1_hasPlain racc y (Or.inr hy))
      · obtain ⟨u, hu, hup⟩ := h
        rcases List.mem_cons.mp hu with rfl | hu
        · exact absurd hup hy
        · exact fold_hasPlain_of_mem ys _ ⟨u, hu, hup⟩

/-! ### the fold -/

/-- the parts to be pushed fit the accumulator: never a `Complemented` behind a `Complemented` -/
def compat : List Loc → List Loc → Bool
  | _, [] => true
  | racc, y :: ys => (headPlain racc || !isComplC y) && noAdjCompl (y :: ys)

theorem k3Fold_cons (racc : List Loc) (y : Loc) (ys : List Loc) (hy : isJoinedC y = false) :
    k3Fold racc (y :: ys) = (k3One racc y || k3Fold (push1 racc y) ys) := by
  rw [k3Fold, push_eq_push1 racc y hy]

theorem fold_stable : ∀ (ys racc : List Loc), stableR racc = true → (∀ y ∈ ys, partOk y = true) →
    compat racc ys = true → k3Fold racc ys = false → stableR (ys.foldl push1 racc) = true
  | [], racc, hr, _, _, _ => by simpa using hr
  | y :: ys, racc, hr, hys, hc, hk => by
      have hy := hys y (by simp)
      rw [k3Fold_cons racc y ys (partOk_not_joined y hy)] at hk
      simp only [Bool.or_eq_false_iff] at hk
      simp only [compat, Bool.and_eq_true, Bool.or_eq_true, Bool.not_eq_true'] at hc
      simp only [List.foldl_cons]
      refine fold_stable ys _ (push1_stable racc y hr hy hc.1 hk.1) (fun u hu => hys u (by simp [hu])) ?_ hk.2
      cases ys with
      | nil => rfl
      | cons z zs =>
        have hn := hc.2
        simp only [noAdjCompl, Bool.and_eq_true, Bool.not_eq_true', Bool.and_eq_false_iff] at hn
        simp only [compat, Bool.and_eq_true, Bool.or_eq_true, Bool.not_eq_true']
        refine ⟨?_, hn.2⟩
        rcases hn.1 with h | h
        · exact Or.inl (push1_headPlain racc y h)
        · exact Or.inr h

/-! ### `Join` of canonical arguments -/

theorem partOk_flatJ (x : Loc) (h : structP x = true) : ∀ y ∈ flatJ x, partOk y = true := by
  by_cases hj : isJoinedC x = true
  · cases x <;> simp [isJoinedC] at hj
    rename_i ls
    have := stable_of_structP_joined ls h
    simp only [flatJ]
    rw [flatJList_of_none ls this.2.2]
    intro y hy
    exact stableR_parts _ this.1 y (by simpa using hy)
  · have hj' : isJoinedC x = false := by simpa using hj
    rw [flatJ_of_not_joined x hj']
    intro y hy
    simp only [List.mem_singleton] at hy
    subst hy
    simp [partOk, h, hj']

theorem partOk_flatJList : ∀ (xs : List Loc), structPList xs = true → ∀ y ∈ flatJList xs, partOk y = true
  | [], _ => by simp [flatJList]
  | x :: xs, h => by
      simp only [structPList_cons, Bool.and_eq_true] at h
      intro y hy
      simp only [flatJList, List.mem_append] at hy
      rcases hy with hy | hy
      · exact partOk_flatJ x h.1 y hy
      · exact partOk_flatJList xs h.2 y hy

theorem structP_ofParts_stable (racc : List Loc) (h : stableR racc = true) (hne : racc ≠ []) :
    structP (ofParts racc.reverse) = true := by
  match racc, h, hne with
  | [a], h, _ =>
    simp only [List.reverse_cons, List.reverse_nil, List.nil_append, ofParts]
    have := stableR_parts _ h a (by simp)
    simp only [partOk, Bool.and_eq_true] at this
    exact this.1
  | a :: b :: r, h, _ =>
    have hl : 2 ≤ (a :: b :: r).reverse.length := by simp
    have := structP_joined_of_stable (a :: b :: r).reverse (by simpa using h) hl
    have hform : ∃ c d t, (a :: b :: r).reverse = c :: d :: t := by
      generalize (a :: b :: r).reverse = q at hl
      match q, hl with
      | c :: d :: t, _ => exact ⟨c, d, t, rfl⟩
    obtain ⟨c, d, t, he⟩ := hform
    rw [he] at this ⊢
    simpa [ofParts] using this

theorem ofParts_not_compl (racc : List Loc) (h : hasPlain racc = true) (hs : stableR racc = true) :
    isComplC (ofParts racc.reverse) = false := by
  match racc, h, hs with
  | [], h, _ => simp [hasPlain] at h
  | [a], h, _ => simpa [ofParts, hasPlain] using h
  | a :: b :: r, _, _ =>
    have hform : ∃ c d t, (a :: b :: r).reverse = c :: d :: t := by
      have hl : 2 ≤ (a :: b :: r).reverse.length := by simp
      generalize (a :: b :: r).reverse = q at hl
      match q, hl with
      | c :: d :: t, _ => exact ⟨c, d, t, rfl⟩
    obtain ⟨c, d, t, he⟩ := hform
    rw [he]
    simp [ofParts, isComplC]

theorem fold_ne_nil : ∀ (ys racc : List Loc), (racc ≠ [] ∨ ys ≠ []) → ys.foldl push1 racc ≠ []
  | [], racc, h => by simpa using h
  | y :: ys, racc, _ => by
      simp only [List.foldl_cons]
      exact fold_ne_nil ys _ (Or.inl (pushOne_ne_nil _ racc y true))

/-- **`Join` of structurally canonical arguments is structurally canonical** unless the K3 shape
arises, provided no two `Complemented` parts meet. -/
theorem join_struct (xs : List Loc) (h : structPList xs = true) (hne : flatJList xs ≠ [])
    (hc : noAdjCompl (flatJList xs) = true) (hk : joinK3 xs = false) : structP (join xs) = true := by
  rw [join_flat]
  have hst := fold_stable (flatJList xs) [] rfl (partOk_flatJList xs h)
    (by cases hq : flatJList xs with
        | nil => rfl
        | cons y ys => rw [hq] at hc; simp [compat, headPlain, hc]) hk
  exact structP_ofParts_stable _ hst (fold_ne_nil _ _ (Or.inr hne))

/-- … and it is not a `Complemented` when one of the parts is not -/
theorem join_not_compl (xs : List Loc) (h : structPList xs = true)
    (hc : noAdjCompl (flatJList xs) = true) (hk : joinK3 xs = false)
    (hp : ∃ y ∈ flatJList xs, isComplC y = false) : isComplC (join xs) = false := by
  rw [join_flat]
  have hst := fold_stable (flatJList xs) [] rfl (partOk_flatJList xs h)
    (by cases hq : flatJList xs with
        | nil => rfl
        | cons y ys => rw [hq] at hc; simp [compat, headPlain, hc]) hk
  exact ofParts_not_compl _ (fold_hasPlain_of_mem _ _ hp) hst

end Loc
end Gts
