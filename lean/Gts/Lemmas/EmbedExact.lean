/-
  `Location.Expand(i, n)` with `n ≥ 0` (Embed), WITHOUT stripping the guest (audit finding S6):
  what the expanded location denotes including the guest residues `[i, i+n)`.

  `embedSeg s e i n` is the meaning of Embed on one interval `[s, e)`: the insert image, and — only
  when `i` lies strictly inside — the guest block `[i, i+n)` at the place where Insert would split.
  `embedDen l i n` lifts it through join / order / complement.  Core Lean only.
-/
import Gts.Lemmas.Embed
namespace Gts
namespace Loc

/-- Embed on the interval `[s, e)`: `s < i < e` → left part, guest block, right part (translated by
`n`); otherwise the insert image (an interval ending at `i` stays, one starting at `i` moves) -/
def embedSeg (s e i n : Int) : List Pos :=
  if s < i ∧ i < e then
    fwd (irange s (i - s).toNat) ++ fwd (irange i n.toNat) ++ fwd (irange (i + n) (e - i).toNat)
  else mapPos (insMap i n) (fwd (irange s (e - s).toNat))

mutual
/-- what `expand l i n` has to denote: the host image with the guest block inserted exactly inside
the leaves that span `i` -/
def embedDen : Loc → Int → Int → List Pos
  | between _, _, _ => []
  | point p, i, n => [(insMap i n p, false)]
  | ranged s e _ _, i, n => embedSeg s e i n
  | ambiguous s e, i, n => embedSeg s e i n
  | joined ls, i, n => embedDenList ls i n
  | ordered ls, i, n => embedDenList ls i n
  | compl l, i, n => flipDen (embedDen l i n)
def embedDenList : List Loc → Int → Int → List Pos
  | [], _, _ => []
  | l :: ls, i, n => embedDen l i n ++ embedDenList ls i n
end

/-- the three blocks of a spanning interval are one interval `[s, e+n)` -/
theorem irange_three (s e i n : Int) (h1 : s < i) (h2 : i < e) (hn : 0 ≤ n) :
    irange s (i - s).toNat ++ irange i n.toNat ++ irange (i + n) (e - i).toNat
      = irange s (e + n - s).toNat := by
  have a1 : i = s + ((i - s).toNat : Int) := by omega
  have a2 : i + n = s + (((i - s).toNat + n.toNat : Nat) : Int) := by omega
  have a3 : (e + n - s).toNat = (i - s).toNat + n.toNat + (e - i).toNat := by omega
  rw [a3, ← irange_append, ← irange_append, ← a1, ← a2]

/-- in the spanning case the guest block sits exactly where the insert image is split -/
theorem embedSeg_span (s e i n : Int) (h1 : s < i) (h2 : i < e) (hn : 0 ≤ n) :
    embedSeg s e i n =
        fwd (irange s (i - s).toNat) ++ fwd (irange i n.toNat) ++ fwd (irange (i + n) (e - i).toNat) ∧
    mapPos (insMap i n) (fwd (irange s (e - s).toNat)) =
        fwd (irange s (i - s).toNat) ++ fwd (irange (i + n) (e - i).toNat) := by
  refine ⟨by unfold embedSeg; rw [if_pos ⟨h1, h2⟩], ?_⟩
  rw [mapPos_fwd, map_insMap_irange_split s e i n h1 h2 hn, fwd_append]

theorem embedSeg_outside (s e i n : Int) (h : e ≤ i ∨ i ≤ s) :
    embedSeg s e i n = mapPos (insMap i n) (fwd (irange s (e - s).toNat)) := by
  unfold embedSeg; rw [if_neg (by omega)]

/-- the interval kinds: the code's coordinate rule denotes `embedSeg` -/
theorem den_embed_interval (s e i n : Int) (h : s < e) (hn : 0 ≤ n) :
    fwd (irange (if i ≤ s then s + n else s)
        ((if i < e then e + n else e) - (if i ≤ s then s + n else s)).toNat) = embedSeg s e i n := by
  by_cases hsp : s < i ∧ i < e
  · rw [(embedSeg_span s e i n hsp.1 hsp.2 hn).1, ← fwd_append, ← fwd_append,
      irange_three s e i n hsp.1 hsp.2 hn, if_neg (by omega), if_pos hsp.2]
  · rw [embedSeg_outside s e i n (by omega), mapPos_fwd]
    congr 1
    by_cases h1 : i ≤ s
    · rw [if_pos h1, if_pos (by omega), map_insMap_irange_shifted s i n _ h1]
      congr 1; omega
    · rw [if_neg h1, if_neg (by omega), map_insMap_irange_fixed s i n _ (by omega)]

theorem den_rangedExpand_embed (s e : Int) (p5 p3 : Bool) (i n : Int) (h : s < e) (hn : 0 ≤ n) :
    den (rangedExpand s e p5 p3 i n) = embedSeg s e i n := by
  by_cases h0 : n = 0
  · subst h0
    have : rangedExpand s e p5 p3 i 0 = ranged s e p5 p3 := by simp [rangedExpand]
    rw [this, den_ranged, ← den_embed_interval s e i 0 h (by omega)]
    congr 2
    · split <;> omega
    · split <;> split <;> omega
  · rw [rangedExpand_ins_eq s e p5 p3 i n h (by omega), den_ranged]
    exact den_embed_interval s e i n h hn

theorem den_ambiguousExpand_embed (s e i n : Int) (h : s < e) (hn : 0 ≤ n) :
    den (ambiguousExpand s e i n) = embedSeg s e i n := by
  by_cases h0 : n = 0
  · subst h0
    have : ambiguousExpand s e i 0 = ambiguous s e := by simp [ambiguousExpand]
    rw [this, den_ambiguous, ← den_embed_interval s e i 0 h (by omega)]
    congr 2
    · split <;> omega
    · split <;> split <;> omega
  · rw [ambiguousExpand_ins_eq s e i n h (by omega), den_ambiguous]
    exact den_embed_interval s e i n h hn

theorem den_pointExpand_embed (p i n : Int) (hn : 0 ≤ n) :
    den (pointExpand p i n) = [(insMap i n p, false)] := by
  rw [den_pointExpand_ins p i n hn]; rfl

mutual
/-- Embed, un-stripped: the expanded location denotes the host image with the guest block inserted
exactly inside the leaves that span `i` (duplicates possibly merged), unless K2 fires -/
theorem expand_embed : ∀ (l : Loc) (i n : Int), wf l = true → 0 ≤ n →
    expandAbs l i n = false → den (expand l i n) ≼ embedDen l i n
  | between p, i, n, _, _ => by simp [expand, den_betweenExpand, embedDen, Refines.refl]
  | point p, i, n, _, hn => by
      intro _; simp only [expand, embedDen]
      exact Refines.of_eq (den_pointExpand_embed p i n hn)
  | ranged s e a b, i, n, hw, hn => by
      have h : s < e := by simpa [wf] using hw
      intro _; simp only [expand, embedDen]
      exact Refines.of_eq (den_rangedExpand_embed s e a b i n h hn)
  | ambiguous s e, i, n, hw, hn => by
      have h : s < e := by simpa [wf] using hw
      intro _; simp only [expand, embedDen]
      exact Refines.of_eq (den_ambiguousExpand_embed s e i n h hn)
  | joined ls, i, n, hw, hn => by
      have hwl : wfList ls = true := by simpa [wf] using hw
      intro ha
      simp only [expandAbs, Bool.or_eq_false_iff] at ha
      simp only [expand, embedDen]
      exact (join_den _ (expandList_ins ls i n hwl hn).2 ha.2).trans
        (expandList_embed ls i n hwl hn ha.1)
  | ordered ls, i, n, hw, hn => by
      have hwl : wfList ls = true := by simpa [wf] using hw
      intro ha
      simp only [expandAbs] at ha
      simp only [expand, embedDen, order_den]
      exact expandList_embed ls i n hwl hn ha
  | compl l, i, n, hw, hn => by
      intro ha
      simp only [expandAbs] at ha
      simp only [expand, den_compl, embedDen]
      exact (expand_embed l i n (by simpa [wf] using hw) hn ha).flip
theorem expandList_embed : ∀ (ls : List Loc) (i n : Int), wfList ls = true → 0 ≤ n →
    expandAbsList ls i n = false → denList (expandList ls i n) ≼ embedDenList ls i n
  | [], _, _, _, _ => by simp [expandList, embedDenList, Refines.refl]
  | l :: ls, i, n, hw, hn => by
      simp only [wfList_cons, Bool.and_eq_true] at hw
      intro ha
      simp only [expandAbsList, Bool.or_eq_false_iff] at ha
      simp only [expandList, denList_cons, embedDenList]
      exact (expand_embed l i n hw.1 hn ha.1).append (expandList_embed ls i n hw.2 hn ha.2)
end

/-! ### `embedDen` is the insert image once the guest is stripped, and adds guest residues only -/

theorem stripGuest_embedSeg (s e i n : Int) (h : s < e) (hn : 0 ≤ n) :
    stripGuest i n (embedSeg s e i n) = mapPos (insMap i n) (fwd (irange s (e - s).toNat)) := by
  by_cases h0 : n = 0
  · subst h0
    rw [← den_embed_interval s e i 0 h (by omega), stripGuest_fwd, stripGuest_id_irange, mapPos_fwd]
    congr 1
    have := irange_map_of_eq s 0 (e - s).toNat (insMap i 0) (fun x _ _ => by unfold insMap; split <;> omega)
    rw [this]
    congr 1
    · split <;> omega
    · split <;> split <;> omega
  · rw [← den_embed_interval s e i n h hn, stripGuest_fwd, mapPos_fwd,
      filter_embed_irange s e i n h (by omega)]

end Loc
end Gts
