/-
  Per-kind laws of Shift / Expand / Reverse / Normalize on contiguous locations.
  Core Lean only.
-/
import Gts.Lemmas.Interval
import Gts.Lemmas.Push
namespace Gts
namespace Loc

theorem join_two_ranged_ne (vs ve us ue : Int) (a b c d : Bool) (h : ve ≠ us) :
    join [ranged vs ve a b, ranged us ue c d] = joined [ranged vs ve a b, ranged us ue c d] := by
  simp [join, joinD, pushAllD, pushFuel, pushD, pushW, pushOne, ofParts, h]

theorem join_two_ranged_abut (vs m ue : Int) (a b c d : Bool) :
    join [ranged vs m a b, ranged m ue c d] = ranged vs ue a d := by
  simp [join, joinD, pushAllD, pushFuel, pushD, pushW, pushOne, ofParts]

theorem order_two_ambiguous (a b c d : Int) :
    order [ambiguous a b, ambiguous c d] = ordered [ambiguous a b, ambiguous c d] := by
  simp [order, flattenOrdList, flattenOrd]

theorem gmax_eq_max (a b : Int) : gmax a b = max a b := by
  unfold gmax; omega

theorem wf_pointExpand (p i n : Int) : wf (pointExpand p i n) = true := by
  unfold pointExpand; split <;> simp [wf]

theorem wf_betweenExpand (p i n : Int) : wf (betweenExpand p i n) = true := by
  simp [betweenExpand, wf]

/-! ### insertion (`n ≥ 0`) -/

theorem den_betweenExpand (p i n : Int) : den (betweenExpand p i n) = [] := by
  simp [betweenExpand]

theorem den_pointExpand_ins (p i n : Int) (hn : 0 ≤ n) :
    den (pointExpand p i n) = mapPos (insMap i n) (den (point p)) := by
  unfold pointExpand
  rw [if_neg (by omega)]
  simp only [den_point, mapPos, List.map_cons, List.map_nil, insMap, gmax]
  congr 2
  split <;> split <;> (try split) <;> omega

/-- image of `[s, e)` under the insertion map, as an interval list -/
theorem map_insMap_irange_split (s e i n : Int) (h1 : s < i) (h2 : i < e) (hn : 0 ≤ n) :
    (irange s (e - s).toNat).map (insMap i n) = irange s (i - s).toNat ++ irange (i + n) (e - i).toNat := by
  apply sorted_ext (insMap_irange_pairwise i n hn _ _)
  · rw [List.pairwise_append]
    refine ⟨irange_pairwise _ _, irange_pairwise _ _, ?_⟩
    intro a ha b hb
    rw [mem_irange] at ha hb
    omega
  · intro x
    rw [mem_map_insMap, List.mem_append, mem_irange, mem_irange]
    constructor
    · rintro ⟨a, h3, h4, rfl⟩
      unfold insMap
      split <;> omega
    · intro h
      by_cases hx : x < i
      · exact ⟨x, by omega, by omega, by unfold insMap; rw [if_pos hx]⟩
      · exact ⟨x - n, by omega, by omega, by unfold insMap; rw [if_neg (by omega)]; omega⟩

theorem map_insMap_irange_shifted (s i n : Int) (m : Nat) (h : i ≤ s) :
    (irange s m).map (insMap i n) = irange (s + n) m :=
  irange_map_of_eq s n m _ (fun x hx _ => by unfold insMap; rw [if_neg (by omega)])

theorem map_insMap_irange_fixed (s i n : Int) (m : Nat) (h : s + m ≤ i) :
    (irange s m).map (insMap i n) = irange s m := by
  have := irange_map_of_eq s 0 m (insMap i n) (fun x _ hx => by unfold insMap; rw [if_pos (by omega)]; omega)
  simpa using this

theorem den_rangedShift_ins (s e : Int) (p5 p3 : Bool) (i n : Int) (h : s < e) (hn : 0 ≤ n) :
    den (rangedShift s e p5 p3 i n) = mapPos (insMap i n) (den (ranged s e p5 p3)) := by
  simp only [den_ranged, mapPos_fwd]
  unfold rangedShift
  by_cases h0 : n = 0
  · subst h0
    simp only [if_true, den_ranged]
    congr 1
    have := irange_map_of_eq s 0 (e - s).toNat (insMap i 0) (fun x _ _ => by unfold insMap; split <;> omega)
    simpa using this.symm
  · rw [if_neg h0, if_neg (by omega)]
    by_cases hs : s < i ∧ i < e
    · rw [if_pos hs, join_two_ranged_ne _ _ _ _ _ _ _ _ (by omega)]
      simp only [den_joined, denList_cons, denList_nil, den_ranged, List.append_nil, ← fwd_append]
      congr 1
      rw [map_insMap_irange_split s e i n hs.1 hs.2 hn]
      congr 2
      omega
    · rw [if_neg hs]
      simp only [den_ranged]
      congr 1
      by_cases h1 : i ≤ s
      · rw [if_pos h1, if_pos (by omega), map_insMap_irange_shifted _ _ _ _ h1]
        congr 1; omega
      · rw [if_neg h1, if_neg (by omega), map_insMap_irange_fixed _ _ _ _ (by omega)]

theorem den_ambiguousShift_ins (s e i n : Int) (h : s < e) (hn : 0 ≤ n) :
    den (ambiguousShift s e i n) = mapPos (insMap i n) (den (ambiguous s e)) := by
  simp only [den_ambiguous, mapPos_fwd]
  unfold ambiguousShift
  by_cases h0 : n = 0
  · subst h0
    simp only [if_true, den_ambiguous]
    congr 1
    have := irange_map_of_eq s 0 (e - s).toNat (insMap i 0) (fun x _ _ => by unfold insMap; split <;> omega)
    simpa using this.symm
  · rw [if_neg h0, if_neg (by omega)]
    by_cases hs : s < i ∧ i < e
    · rw [if_pos hs, order_two_ambiguous]
      simp only [den_ordered, denList_cons, denList_nil, den_ambiguous, List.append_nil, ← fwd_append]
      congr 1
      rw [map_insMap_irange_split s e i n hs.1 hs.2 hn]
      congr 2
      omega
    · rw [if_neg hs]
      simp only [den_ambiguous]
      congr 1
      by_cases h1 : i ≤ s
      · rw [if_pos h1, if_pos (by omega), map_insMap_irange_shifted _ _ _ _ h1]
        congr 1; omega
      · rw [if_neg h1, if_neg (by omega), map_insMap_irange_fixed _ _ _ _ (by omega)]

end Loc
end Gts
