/-
  C07: the fuel-parametrised reader of Gts/Lemmas/GbFuel2X.lean IS the model, for every fuel
  policy that never lowers a fuel.

  * Loops whose adequacy holds in every state (`splitOn`, `natDigitsF`, `digitsAux`, `bodyMore`,
    `dblinkMore`, `taxonMore`, `literalMore`, the ORIGIN
    counters): the `…X` parser EQUALS the model parser as a term.
  * Loops whose adequacy needs a sorted state (`refSubfields`, `qualifiers`, `tableMore`,
    `ParseLocation`, `recordLoop`): equality of the runs from every sorted state, carried through
    the enclosing parsers by "the parser in front keeps the state sorted" (`KeepS`).
  Core Lean only.
-/
import Gts.Lemmas.GbFuel2Pure
import Gts.Lemmas.GbFuel2Table
import Gts.Lemmas.GbFuel2X
import Gts.Lemmas.GbFuel
import Gts.Lemmas.Fuel
namespace Gts.Pars

theorem P.ext' {α} {p q : P α} (h : ∀ s, p.run' s = q.run' s) : p = q := funext h

/-- same parser in front, continuations that agree on what it can produce -/
theorem run_bind_congr {α β} {p : P α} {f f' : α → P β} {s : PS}
    (h : ∀ a s', p.run' s = (.ok a, s') → (f a).run' s' = (f' a).run' s') :
    (p >>= f).run' s = (p >>= f').run' s := by
  rw [run_bind, run_bind]
  rcases hr : p.run' s with ⟨r, s1⟩
  rcases r with e | a
  · rfl
  · exact h a s1 hr

/-- parsers in front that agree on this state -/
theorem run_bind_congr2 {α β} {p p' : P α} {f f' : α → P β} {s : PS} (hp : p.run' s = p'.run' s)
    (h : ∀ a s', p'.run' s = (.ok a, s') → (f a).run' s' = (f' a).run' s') :
    (p >>= f).run' s = (p' >>= f').run' s := by
  rw [run_bind, run_bind, hp]
  rcases hr : p'.run' s with ⟨r, s1⟩
  rcases r with e | a
  · rfl
  · exact h a s1 hr

theorem run_attempt_congr {α} {p p' : P α} {s : PS} (hp : p.run' s = p'.run' s) :
    (attempt p).run' s = (attempt p').run' s := by
  rw [run_attempt, run_attempt, hp]

/-- `p` leaves a sorted state sorted -/
def KeepS {α} (p : P α) : Prop :=
  ∀ (s : PS) r s', Sorted s.rest.length s.stk → p.run' s = (r, s') → Sorted s'.rest.length s'.stk

theorem SafeW.keepS {α} {p : P α} (hp : SafeW p) : KeepS p :=
  fun _ _ _ hs h => (hp.run hs h).2

theorem keepS_attempt {α} {p : P α} (hp : KeepS p) : KeepS (attempt p) := by
  intro s r s' hs h
  rw [run_attempt] at h
  rcases hr : p.run' s with ⟨r1, s1⟩
  rw [hr] at h
  have := hp s r1 s1 hs hr
  rcases r1 with e | a
  · cases e <;> (cases h; exact this)
  · cases h; exact this

theorem keepS_pop : KeepS pop := by
  intro s r s' hs h
  rw [run_pop] at h
  split at h
  · cases h; exact hs
  · rename_i f st hst
    cases h
    rw [hst] at hs
    exact hs.2

theorem keepS_drop : KeepS drop := by
  intro s r s' hs h
  rw [run_drop] at h
  cases h
  exact sorted_drop1 hs

theorem keepS_getS : KeepS getS := by
  intro s r s' hs h
  rw [run_getS] at h
  cases h; exact hs

/-- side goals `KeepS p` -/
syntax "keepS_side" : tactic
macro_rules | `(tactic| keepS_side) => `(tactic| first
  | assumption
  | exact keepS_pop
  | exact keepS_drop
  | exact keepS_getS
  | (apply keepS_attempt; keepS_side)
  | (apply SafeW.keepS; safeW_side)
  | (apply SafeW.keepS; wpw_run))

/-- step over a common parser in front, keeping "sorted" when the parser is known to keep it -/
macro "ag_bind" : tactic => `(tactic| (
  refine run_bind_congr (fun _ _ hrun => ?_)
  first
    | (have hsrt := (by keepS_side : KeepS _) _ _ _ ‹Sorted _ _› hrun)
    | skip))

end Gts.Pars

namespace Gts.GenBank
open Gts.Pars

theorem lt_of_ge {f : Nat → Nat} (h : ∀ n, n ≤ f n) (n : Nat) : n < f (n + 1) := by
  have := h (n + 1); omega

variable (g : Fuels) (hg : g.Ge)
include hg

/-! ### the pure pieces -/

theorem splitX_eq (sep s : Bytes) (hsep : sep ≠ []) : splitX g sep s = split sep s :=
  split_fuel sep s hsep _ (hg.split _)

theorem flatFileSplitX_eq (s : Bytes) : flatFileSplitX g s = flatFileSplit s := by
  unfold flatFileSplitX flatFileSplit
  simp only [splitX_eq g hg (bs "; ") _ (by decide)]

theorem asDateX_eq (s : Bytes) : asDateX g s = asDate s := by
  unfold asDateX asDate
  rw [splitX_eq g hg [45] _ (by decide)]
  all_goals rfl

theorem natDigitsX_eq (n : Nat) : natDigitsX g n = natDigits n := by
  unfold natDigitsX natDigits
  exact natDigitsF_fuel _ _ n (by have := hg.itoa (n + 1); omega) (by omega)

theorem itoaBX_eq (n : Int) : itoaBX g n = itoaB n := by
  unfold itoaBX itoaB
  rw [natDigitsX_eq g hg]

theorem locusParserX_eq : locusParserX g = locusParser := by
  unfold locusParserX locusParser
  simp only [asDateX_eq g hg]
  all_goals rfl

/-! ### field bodies: equal as terms (indent `depth ≥ 1`) -/

theorem fieldBodyX_eq (d : Nat) (sep : UInt8) (hd : 1 ≤ d) : fieldBodyX g d sep = fieldBody d sep := by
  apply P.ext'; intro s
  unfold fieldBodyX fieldBody
  ag_bind
  rw [run_bind, run_bind, run_getS]
  dsimp only
  exact bodyMore_fuel d sep hd _ _ _ _ _ (lt_of_ge hg.body _) (Nat.lt_succ_self _)

theorem genericFieldX_eq (nm : Bytes) (d : Nat) (hd : 1 ≤ d) :
    genericFieldX g nm d = genericField nm d := by
  unfold genericFieldX genericField
  rw [fieldBodyX_eq g hg d _ hd]
  all_goals rfl

theorem definitionFieldX_eq (d : Nat) (hd : 1 ≤ d) (f : Fields) :
    definitionFieldX g d f = definitionField d f := by
  unfold definitionFieldX definitionField
  rw [fieldBodyX_eq g hg d _ hd]
  all_goals rfl

theorem accessionFieldX_eq (d : Nat) (hd : 1 ≤ d) (f : Fields) :
    accessionFieldX g d f = accessionField d f := by
  unfold accessionFieldX accessionField
  rw [genericFieldX_eq g hg _ d hd]
  all_goals rfl

theorem versionFieldX_eq (d : Nat) (hd : 1 ≤ d) (f : Fields) :
    versionFieldX g d f = versionField d f := by
  unfold versionFieldX versionField
  rw [genericFieldX_eq g hg _ d hd]
  all_goals rfl

theorem commentFieldX_eq (d : Nat) (hd : 1 ≤ d) (f : Fields) :
    commentFieldX g d f = commentField d f := by
  unfold commentFieldX commentField
  rw [genericFieldX_eq g hg _ d hd]
  all_goals rfl

theorem keywordsFieldX_eq (d : Nat) (hd : 1 ≤ d) (f : Fields) :
    keywordsFieldX g d f = keywordsField d f := by
  unfold keywordsFieldX keywordsField
  rw [fieldBodyX_eq g hg d _ hd]
  simp only [flatFileSplitX_eq g hg]

theorem extraFieldX_eq (d : Nat) (hd : 1 ≤ d) (f : Fields) :
    extraFieldX g d f = extraField d f := by
  unfold extraFieldX extraField
  rw [fieldBodyX_eq g hg d _ hd]
  all_goals rfl

theorem dblinkFieldX_eq (d : Nat) (hd : 1 ≤ d) (f : Fields) :
    dblinkFieldX g d f = dblinkField d f := by
  apply P.ext'; intro s
  unfold dblinkFieldX dblinkField
  ag_bind
  ag_bind
  generalize dblinkPair _ = o
  rcases o with _ | ⟨db, id⟩
  · rfl
  · dsimp only
    rw [run_bind, run_bind, run_getS]
    dsimp only
    exact dblinkMore_fuel d hd _ _ _ _ (lt_of_ge hg.dblink _) (Nat.lt_succ_self _)

theorem sourceFieldX_eq (d : Nat) (hd : 1 ≤ d) (f : Fields) :
    sourceFieldX g d f = sourceField d f := by
  apply P.ext'; intro s
  unfold sourceFieldX sourceField
  rw [genericFieldX_eq g hg _ d hd]
  ag_bind
  dsimp only
  refine run_bind_congr (fun o _ _ => ?_)
  rcases o with _ | u
  · rfl
  · dsimp only
    ag_bind
    rw [run_bind, run_bind, run_getS]
    dsimp only
    refine run_bind_congr2 (taxonMore_fuel d hd _ _ _ _
      (lt_of_ge hg.taxon _) (Nat.lt_succ_self _)) (fun tax _ _ => ?_)
    simp only [flatFileSplitX_eq g hg]

theorem refSubX_eq (nm : String) (d st : Nat) (hd : 1 ≤ d) : refSubX g nm d st = refSub nm d st := by
  unfold refSubX refSub
  rw [fieldBodyX_eq g hg d _ hd]
  all_goals rfl

theorem refAltsX_eq (d st : Nat) (hd : 1 ≤ d) (r : Reference) :
    ∀ l, refAltsX g d st r l = refAlts d st r l
  | [] => by rw [refAltsX, refAlts]
  | (n, set) :: rest => by
    rw [refAltsX, refAlts, refSubX_eq g hg n d st hd]
    simp only [refAltsX_eq d st hd r rest]
    rfl

theorem refSubfieldX_eq (d st : Nat) (hd : 1 ≤ d) (r : Reference) :
    refSubfieldX g d st r = refSubfield d st r := by
  unfold refSubfieldX refSubfield
  rw [refAltsX_eq g hg d st hd]
  all_goals rfl

theorem refSubfieldsX_eq (d : Nat) (hd : 1 ≤ d) : ∀ k st r,
    refSubfieldsX g d k st r = refSubfields d k st r
  | 0, _, _ => by rw [refSubfieldsX, refSubfields]
  | k + 1, st, r => by
    rw [refSubfieldsX, refSubfields, refSubfieldX_eq g hg d st hd]
    simp only [refSubfieldsX_eq d hd k]
    rfl

/-! ### qualifier values: equal as terms (`quotedValue` carries no fuel since 2612fae: the loop over
the token is a counted loop, for the empty continuation prefix too) -/

theorem literalValueX_eq (pre : Bytes) : literalValueX g pre = literalValue pre := by
  apply P.ext'; intro s
  unfold literalValueX literalValue
  ag_bind
  ag_bind
  have tail : ∀ s : PS, (do
        advance1
        let l ← line
        push
        let n := (← getS).rest.length
        let v ← literalMore pre (g.literal (n + 1)) l
        drop
        pure v : P Bytes).run' s = (do
        advance1
        let l ← line
        push
        let n := (← getS).rest.length
        let v ← literalMore pre (n + 1) l
        drop
        pure v : P Bytes).run' s := by
    intro s
    ag_bind
    ag_bind
    ag_bind
    rw [run_bind, run_bind, run_getS]
    dsimp only
    exact run_bind_congr2 (literalMore_fuel pre _ _ _ _ (lt_of_ge hg.literal _) (Nat.lt_succ_self _))
      (fun _ _ _ => rfl)
  dsimp only
  split
  · ag_bind
    rw [run_bind, run_bind, run_fail]
  · exact tail _

theorem qualifierX_eq (pre : Bytes) (reg : Registry) :
    qualifierX g pre reg = qualifier pre reg := by
  unfold qualifierX qualifier
  rw [literalValueX_eq g hg pre]
  all_goals rfl

theorem qualifiersX_eq (pre : Bytes) : ∀ k reg acc,
    qualifiersX g pre k reg acc = qualifiers pre k reg acc
  | 0, _, _ => by rw [qualifiersX, qualifiers]
  | k + 1, reg, acc => by
    rw [qualifiersX, qualifiers, qualifierX_eq g hg pre]
    simp only [qualifiersX_eq pre k]
    rfl

/-! ### the ORIGIN reader: equal as terms -/

theorem decimalX_eq (n : Nat) : decimalX g n = Origin.decimal n := by
  unfold decimalX Origin.decimal
  exact digitsAux_fuel _ _ n (lt_of_ge hg.digits _) (Nat.lt_succ_self _)

theorem index9X_eq (n : Nat) : index9X g n = Origin.index9 n := by
  unfold index9X Origin.index9
  rw [decimalX_eq g hg]

theorem walkGroupsX_eq (oob : Err) (length : Int) (i : Nat) : ∀ f j rest,
    walkGroupsX g oob length i f j rest = Origin.walkGroups oob length i f j rest
  | 0, _, _ => by simp only [walkGroupsX, Origin.walkGroups]
  | f + 1, j, rest => by
    simp only [walkGroupsX, Origin.walkGroups]
    split
    · cases rest with
      | nil => rfl
      | cons c r =>
        dsimp only
        split
        · rfl
        · rw [walkChars_fuel oob length (i + j) (g.chars 10) 10 0 r (by have := hg.chars 10; omega)
            (by omega)]
          cases Origin.walkChars oob length (i + j) 10 0 r with
          | error e => rfl
          | ok r' => exact walkGroupsX_eq oob length i f (j + 10) r'
    · rfl

theorem walkLineX_eq (oob : Err) (length : Int) (i : Nat) (rest : Bytes) :
    walkLineX g oob length i rest = Origin.walkLine oob length i rest := by
  unfold walkLineX Origin.walkLine
  rw [index9X_eq g hg]
  dsimp only
  split
  · rw [walkGroupsX_eq g hg]
    exact walkGroups_fuel oob length i _ _ 0 _ (by have := hg.groups 6; omega) (by omega)
  · rfl

theorem validateLinesX_eq (length : Int) : ∀ f i rest,
    validateLinesX g length f i rest = Origin.validateLines length f i rest
  | 0, _, _ => by rw [validateLinesX, Origin.validateLines]
  | f + 1, i, rest => by
    rw [validateLinesX, Origin.validateLines, walkLineX_eq g hg]
    split
    · cases Origin.walkLine .panic length i rest with
      | error e => rfl
      | ok r =>
        cases r with
        | nil => rfl
        | cons c r' =>
          dsimp only
          split
          · rfl
          · exact validateLinesX_eq length f (i + 60) r'
    · rfl

theorem validateOriginX_eq (p : Bytes) (length : Int) :
    validateOriginX g p length = Origin.validateOrigin p length := by
  unfold validateOriginX Origin.validateOrigin
  rw [validateLinesX_eq g hg]
  exact validateLines_fuel length _ _ 0 p (by have := hg.validate length.toNat; omega) (by omega)

theorem slowLinesX_eq (length : Int) (cap : Nat) : ∀ f i st acc,
    slowLinesX g length cap f i st acc = slowLines length cap f i st acc
  | 0, _, _, _ => by rw [slowLinesX, slowLines]
  | f + 1, i, st, acc => by
    rw [slowLinesX, slowLines]
    simp only [walkLineX_eq g hg]
    split
    · cases Origin.walkLine .fail length i (Origin.splitLine st).1 with
      | error e => rfl
      | ok r =>
        dsimp only
        split
        · rfl
        · split
          · exact slowLinesX_eq length cap f (i + 60) _ _
          · rfl
    · rfl

theorem originFieldX_eq (length : Int) (d : Nat) : originFieldX g length d = originField length d := by
  unfold originFieldX originField
  simp only [validateOriginX_eq g hg, slowLinesX_eq g hg,
    fun (n : Nat) (st : Bytes) => slowLines_fuel length n (g.slow length.toNat) length.toNat 0 st []
      (by have := hg.slow length.toNat; omega) (by omega)]
  all_goals rfl

/-! ### REFERENCE: the runs agree from every sorted state -/

theorem referenceFieldX_run (d : Nat) (hd : 1 ≤ d) (f : Fields) (s : PS)
    (hs : Sorted s.rest.length s.stk) :
    (referenceFieldX g d f).run' s = (referenceField d f).run' s := by
  unfold referenceFieldX referenceField
  simp only [itoaBX_eq g hg, refSubfieldsX_eq g hg d hd]
  ag_bind
  ag_bind
  ag_bind
  ag_bind
  rw [run_bind, run_bind, run_getS]
  dsimp only
  exact run_bind_congr2 (refSubfields_fuel d _ _ _ _ _ ‹_› (lt_of_ge hg.refs _) (Nat.lt_succ_self _))
    (fun _ _ _ => rfl)

/-! ### the feature table -/

theorem locationX_run (s : PS) (hs : Sorted s.rest.length s.stk) :
    (locationX g).run' s = location.run' s := by
  unfold locationX location
  rw [run_bind, run_bind, run_getS]
  dsimp only
  exact (loc_fuel_stable s hs _ _ (by omega) (hg.loc _)).symm

theorem keylineX_run (pre depth : Nat) (s : PS) (hs : Sorted s.rest.length s.stk) :
    (keylineX g pre depth).run' s = (keyline pre depth).run' s := by
  unfold keylineX keyline
  ag_bind
  ag_bind
  ag_bind
  exact run_bind_congr2 (locationX_run g hg _ ‹_›) (fun _ _ _ => rfl)

omit hg in
theorem keepS_of_safeS {α} {p : P α} (hp : ∀ L, SafeS L p) : KeepS p := by
  intro s r s' hs h
  obtain ⟨L, hL⟩ := exists_bound s hs
  have := hp L s hL
  unfold WP Std at this
  rw [h] at this
  exact this.2.srt

macro_rules | `(tactic| keepS_side) => `(tactic| (apply keepS_of_safeS; intro _; safeS_side))
macro_rules | `(tactic| keepS_side) => `(tactic| (apply keepS_of_safeS; intro _; wps_run))

theorem firstKeylineX_run (s : PS) (hs : Sorted s.rest.length s.stk) :
    (firstKeylineX g).run' s = firstKeyline.run' s := by
  unfold firstKeylineX firstKeyline
  ag_bind
  ag_bind
  dsimp only
  ag_bind
  ag_bind
  ag_bind
  refine run_bind_congr2 (run_bind_congr2 (run_attempt_congr (locationX_run g hg _ ‹_›))
    (fun _ _ _ => rfl)) (fun _ _ _ => rfl)

omit hg in
/-- the key of a key line is never empty (`pars.Word`), so the indent of the table is at least 1 -/
theorem attempt_word_ne (f : UInt8 → Bool) (s : PS) :
    WP (attempt (word f)) (fun r _ => ∀ w, r = .ok (some w) → w ≠ []) s := by
  apply wp_of_run
  intro r s' h w hw
  subst hw
  rw [run_attempt] at h
  rcases hr : (word f).run' s with ⟨r1, s1⟩
  rw [hr] at h
  rcases r1 with e | a
  · cases e <;> cases h
  · cases h
    unfold word at hr
    rw [run_bind, run_push] at hr
    dsimp only at hr
    rw [run_bind, run_skipWhile] at hr
    dsimp only at hr
    rw [run_bind, run_trail] at hr
    dsimp only at hr
    have hle : (s.rest.dropWhile f).length ≤ s.rest.length := (List.dropWhile_sublist f).length_le
    rw [if_neg (by omega)] at hr
    dsimp only at hr
    split at hr
    · rw [run_fail] at hr; cases hr
    · rename_i hne
      rw [run_pure] at hr
      cases hr
      intro he
      apply hne
      rw [he]; rfl

omit hg in
theorem firstKeyline_key (s : PS) :
    WP firstKeyline (fun r _ => ∀ v, r = .ok v → v.2.1 ≠ []) s := by
  unfold firstKeyline
  rw [wp_bind]; apply wp_all; intro r _; cases r <;> dsimp only
  · intro v hv; cases hv
  rw [wp_bind]; apply wp_all; intro r _; cases r <;> dsimp only
  · intro v hv; cases hv
  rw [wp_bind]; apply wp_all; intro r _; cases r <;> dsimp only
  · intro v hv; cases hv
  rw [wp_bind, wp_bind]
  refine wp_mono (attempt_word_ne _ _) ?_
  intro r _ hw
  cases r <;> dsimp only
  · intro v hv; cases hv
  rename_i o
  cases o <;> dsimp only
  · repeat (first
      | (rw [wp_bind]; apply wp_all; intro r _; cases r <;> dsimp only)
      | (rw [wp_fail]; intro b hb; cases hb)
      | (intro b hb; cases hb))
  · rename_i key
    have hk := hw key rfl
    rw [wp_pure]
    dsimp only
    repeat (first
      | (rw [wp_bind]; apply wp_all; intro r _; cases r <;> dsimp only)
      | (rw [wp_fail]; intro b hb; cases hb)
      | (rw [wp_pure]; intro b hb; cases hb; exact hk)
      | (intro b hb; cases hb)
      | split)

omit hg in
theorem sp_ne_nil (d : Nat) (hd : 1 ≤ d) : sp d ≠ [] := by
  intro h
  have := congrArg List.length h
  simp [sp] at this
  omega

/-- the qualifier loop as the table reader calls it: `…X` loop at the `…X` fuel = model loop at the
model fuel -/
theorem qualifiersX_run (depth : Nat) (reg : Registry) (s : PS)
    (hs : Sorted s.rest.length s.stk) :
    (qualifiersX g (sp depth) (g.quals (s.rest.length + 1)) reg []).run' s =
      (qualifiers (sp depth) (s.rest.length + 1) reg []).run' s := by
  rw [qualifiersX_eq g hg _]
  exact qualifiers_fuel _ _ _ _ _ s hs (lt_of_ge hg.quals _) (Nat.lt_succ_self _)

theorem tableMoreX_run (pre depth : Nat) : ∀ k reg acc (s : PS),
    Sorted s.rest.length s.stk →
    (tableMoreX g pre depth k reg acc).run' s = (tableMore pre depth k reg acc).run' s
  | 0, _, _, _, _ => by rw [tableMoreX, tableMore]
  | k + 1, reg, acc, s, hs => by
    rw [tableMoreX, tableMore]
    refine run_bind_congr2 (run_attempt_congr (keylineX_run g hg pre depth s hs)) (fun o s1 h1 => ?_)
    have hs1 := (by keepS_side : KeepS (attempt (keyline pre depth))) _ _ _ hs h1
    rcases o with _ | ⟨key, l⟩
    · rfl
    · dsimp only
      rw [run_bind, run_bind, run_getS]
      dsimp only
      refine run_bind_congr2 (qualifiersX_run g hg depth reg s1 hs1) (fun x s2 h2 => ?_)
      have hs2 := (qualifiers_safeW _ _ _ _).keepS _ _ _ hs1 h2
      obtain ⟨qs, reg'⟩ := x
      exact tableMoreX_run pre depth k reg' _ s2 hs2

theorem tableX_run (reg : Registry) (s : PS) (hs : Sorted s.rest.length s.stk) :
    (tableX g reg).run' s = (table reg).run' s := by
  unfold tableX table
  refine run_bind_congr2 (firstKeylineX_run g hg s hs) (fun v s1 h1 => ?_)
  have hs1 := firstKeyline_safeW.keepS _ _ _ hs h1
  obtain ⟨pre, key, pst, l⟩ := v
  dsimp only
  rw [run_bind, run_bind, run_getS]
  dsimp only
  refine run_bind_congr2 (qualifiersX_run g hg _ reg s1 hs1) (fun x s2 h2 => ?_)
  have hs2 := (qualifiers_safeW _ _ _ _).keepS _ _ _ hs1 h2
  have hle := ((qualifiers_safeW _ _ _ _).run hs1 h2).1
  obtain ⟨qs, reg'⟩ := x
  dsimp only
  rw [tableMoreX_run g hg pre _ _ _ _ s2 hs2]
  exact tableMore_fuel _ _ _ _ _ _ s2 hs2
    (by have := lt_of_ge hg.table s1.rest.length; omega) (by omega)

theorem featuresFieldX_run (reg : Registry) (s : PS) (hs : Sorted s.rest.length s.stk) :
    (featuresFieldX g reg).run' s = (featuresField reg).run' s := by
  unfold featuresFieldX featuresField
  ag_bind
  ag_bind
  ag_bind
  exact tableX_run g hg reg _ ‹_›

/-! ### `tryAllParsers`, the record loop, the record, the stream -/

omit hg in
/-- `tryAllParsers` over two lists of sub-parsers that agree, one by one, on every sorted state -/
theorem tryList_run : ∀ (ps qs : List (Sub → P (Sub × Bool))),
    All2 (fun p q => ∀ sub, KeepS (q sub) ∧
      ∀ s : PS, Sorted s.rest.length s.stk → (p sub).run' s = (q sub).run' s) ps qs →
    ∀ sub (s : PS), Sorted s.rest.length s.stk → (tryList ps sub).run' s = (tryList qs sub).run' s
  | [], [], _, _, _, _ => rfl
  | p :: ps, q :: qs, .cons hpq hrest, sub, s, hs => by
    have ih := tryList_run ps qs hrest
    rw [tryList, tryList]
    ag_bind
    rename_i _ s1 _ hs1
    refine run_bind_congr2 (run_attempt_congr ((hpq sub).2 s1 hs1)) (fun o s2 h2 => ?_)
    have hs2 := (keepS_attempt (hpq sub).1) _ _ _ hs1 h2
    rcases o with _ | ⟨sub', b⟩
    · dsimp only
      ag_bind
      split
      · rfl
      · ag_bind
        exact ih _ _ ‹_›
    · cases b
      · dsimp only
        ag_bind
        split
        · rfl
        · ag_bind
          exact ih _ _ ‹_›
      · rfl

theorem fieldParsersX_all2 (length : Int) (d : Nat) (hd : 1 ≤ d) :
    All2 (fun p q => ∀ sub, KeepS (q sub) ∧
      ∀ s : PS, Sorted s.rest.length s.stk → (p sub).run' s = (q sub).run' s)
      (fieldParsersX g length d) (fieldParsers length d) := by
  have hk := fieldParsers_safeW length d hd
  have same : ∀ q ∈ fieldParsers length d, ∀ sub, KeepS (q sub) ∧
      ∀ s : PS, Sorted s.rest.length s.stk → (q sub).run' s = (q sub).run' s :=
    fun q hq sub => ⟨(hk q hq sub).keepS, fun _ _ => rfl⟩
  unfold fieldParsersX
  rw [show liftF (definitionFieldX g d) = liftF (definitionField d) from
      congrArg liftF (funext (definitionFieldX_eq g hg d hd)),
    show liftF (accessionFieldX g d) = liftF (accessionField d) from
      congrArg liftF (funext (accessionFieldX_eq g hg d hd)),
    show liftF (versionFieldX g d) = liftF (versionField d) from
      congrArg liftF (funext (versionFieldX_eq g hg d hd)),
    show liftF (dblinkFieldX g d) = liftF (dblinkField d) from
      congrArg liftF (funext (dblinkFieldX_eq g hg d hd)),
    show liftF (keywordsFieldX g d) = liftF (keywordsField d) from
      congrArg liftF (funext (keywordsFieldX_eq g hg d hd)),
    show liftF (sourceFieldX g d) = liftF (sourceField d) from
      congrArg liftF (funext (sourceFieldX_eq g hg d hd)),
    show liftF (commentFieldX g d) = liftF (commentField d) from
      congrArg liftF (funext (commentFieldX_eq g hg d hd)),
    show originSubX g length d = originSub length d from by
      unfold originSubX originSub; rw [originFieldX_eq g hg]]
  unfold fieldParsers at same ⊢
  refine .cons (same _ (by simp)) <| .cons (same _ (by simp)) <| .cons (same _ (by simp)) <|
    .cons (same _ (by simp)) <| .cons (same _ (by simp)) <| .cons (same _ (by simp)) <|
    .cons ?_ <| .cons (same _ (by simp)) <| .cons ?_ <| .cons (same _ (by simp)) <|
    .cons (same _ (by simp)) .nil
  · intro sub
    refine ⟨((same _ (by simp)) sub).1, fun s hs => ?_⟩
    obtain ⟨f, t, o, r⟩ := sub
    unfold liftF
    exact run_bind_congr2 (referenceFieldX_run g hg d hd f s hs) (fun _ _ _ => rfl)
  · intro sub
    refine ⟨((same _ (by simp)) sub).1, fun s hs => ?_⟩
    obtain ⟨f, t, o, r⟩ := sub
    unfold featuresSubX featuresSub
    exact run_bind_congr2 (featuresFieldX_run g hg r s hs) (fun _ _ _ => rfl)

theorem tryAllX_run (length : Int) (d : Nat) (hd : 1 ≤ d) (sub : Sub) (s : PS)
    (hs : Sorted s.rest.length s.stk) :
    (tryAllX g length d sub).run' s = (tryAll length d sub).run' s := by
  unfold tryAllX tryAll
  simp only [extraFieldX_eq g hg d hd]
  exact run_bind_congr2 (tryList_run _ _ (fieldParsersX_all2 g hg length d hd) sub s hs)
    (fun _ _ _ => rfl)

/-- the record loop with every inner fuel a parameter, at the SAME loop fuel -/
theorem recordLoopX_run (length : Int) (d : Nat) (hd : 1 ≤ d) : ∀ k sub (s : PS),
    Sorted s.rest.length s.stk →
    (recordLoopX g length d k sub).run' s = (recordLoop length d k sub).run' s := by
  intro k
  induction k with
  | zero => intro _ _ _; rw [recordLoopX, recordLoop]
  | succ k ih =>
    intro sub s hs
    rw [recordLoopX, recordLoop]
    refine run_bind_congr (fun o s1 h1 => ?_)
    have hs1 := (keepS_attempt endMark_safeW.keepS) _ _ _ hs h1
    rcases o with _ | u
    · dsimp only
      refine run_bind_congr2 (tryAllX_run g hg length d hd sub s1 hs1) (fun st s2 h2 => ?_)
      have hs2 := (tryAll_safeW length d hd sub).keepS _ _ _ hs1 h2
      cases st with
      | parsed sub' => exact ih sub' s2 hs2
      | skip sub' =>
        dsimp only
        refine run_bind_congr (fun _ s3 h3 => ?_)
        have hs3 := (Safe.toW line_safe).keepS _ _ _ hs2 h3
        rw [run_bind, run_bind, run_getS]
        dsimp only
        split
        · rw [run_bind, run_bind, run_fail]
        · exact ih sub' s3 hs3
    · rfl

/-- `GenBankParser` with every fuel a parameter = the model, from EVERY state (the record loop
starts behind `state.Clear()`, i.e. in a sorted state whatever the caller left on the stack) -/
theorem genbankParserX_run (reg : Registry) (s : PS) :
    (genbankParserX g reg).run' s = (genbankParser reg).run' s := by
  unfold genbankParserX genbankParser
  rw [locusParserX_eq g hg]
  refine run_bind_congr (fun l s1 h1 => ?_)
  have hdep := locusParser_depth s
  unfold WP at hdep
  rw [h1] at hdep
  have hd : 1 ≤ l.depth := by have := hdep l rfl; omega
  refine run_bind_congr (fun _ s2 h2 => ?_)
  have hs2 : Sorted s2.rest.length s2.stk := by
    rw [run_clear] at h2
    cases h2
    trivial
  dsimp only
  split
  · rw [run_bind, run_bind, run_fail]
  · split
    · rw [run_bind, run_bind, run_fail]
    · generalize asTopology l.topology = o
      rcases o with _ | top
      · rfl
      · dsimp only
        rw [run_bind, run_bind, run_getS]
        dsimp only
        refine run_bind_congr2 ?_ (fun _ _ _ => rfl)
        rw [recordLoopX_run g hg l.length l.depth hd _ _ s2 hs2]
        exact recordLoop_fuel l.length l.depth hd _ _ _ s2 hs2
          (by have := hg.record (2 * s2.rest.length + 2); omega) (by omega)

theorem genbankParserX_eq (reg : Registry) : genbankParserX g reg = genbankParser reg :=
  P.ext' (genbankParserX_run g hg reg)

/-- the scan loop with every inner fuel a parameter, at the SAME loop fuel -/
theorem parseAllX_eq : ∀ k (reg : Registry) (input : Bytes) (acc : List Record),
    parseAllX g reg k input acc = parseAll reg k input acc := by
  intro k
  induction k with
  | zero => intro _ _ _; rw [parseAllX, parseAll]
  | succ k ih =>
    intro reg input acc
    rw [parseAllX, parseAll, genbankParserX_run g hg reg ⟨input, []⟩]
    split
    · rfl
    · rcases (genbankParser reg).run' ⟨input, []⟩ with ⟨r, s'⟩
      rcases r with e | ⟨rec, reg'⟩
      · cases e <;> rfl
      · exact ih reg' s'.rest (rec :: acc)

/-- reading a whole stream: every fuel of the reader a parameter -/
theorem readAllX_eq (reg : Registry) (input : Bytes) : readAllX g reg input = readAll reg input := by
  unfold readAllX readAll
  rw [parseAllX_eq g hg]
  exact parseAll_fuel _ _ reg input [] (lt_of_ge hg.scan _) (Nat.lt_succ_self _)

end Gts.GenBank
