/-
  `Repair` (property C12), part 2: what the sort-and-push loop does to one class.  Core Lean only.
-/
import Gts.Lemmas.Repair
import Gts.Lemmas.Push
import Gts.Lemmas.LessOrder
namespace Gts
open Loc

/-! ### `Push` adds at most one list element per non-`Joined` argument -/

theorem pushOne_length (low : List Loc → Loc → Bool → List Loc) (racc : List Loc) (x : Loc) (f : Bool) :
    racc.length ≤ (pushOne low racc x f).length ∧ (pushOne low racc x f).length ≤ racc.length + 1 ∧
      pushOne low racc x f ≠ [] := by
  cases racc with
  | nil => simp [pushOne]
  | cons v rest =>
    cases v <;> cases x <;> simp only [pushOne] <;> (try split) <;> simp

theorem pushW_of_not_joined (low : List Loc → Loc → Bool → List Loc) (racc : List Loc) (x : Loc) (f : Bool)
    (hx : x.isJoined = false) : pushW low racc x f = pushOne low racc x f := by
  cases x <;> first | rfl | simp [isJoined] at hx

theorem pushD_length (d : Nat) (racc : List Loc) (x : Loc) (f : Bool) (hx : x.isJoined = false) :
    racc.length ≤ (pushD d racc x f).length ∧ (pushD d racc x f).length ≤ racc.length + 1 ∧
      pushD d racc x f ≠ [] := by
  cases d with
  | zero => simp [pushD]
  | succ d =>
    simp only [pushD, pushW_of_not_joined _ _ _ _ hx]
    exact pushOne_length _ _ _ _

theorem pushAllD_length (d : Nat) (xs racc : List Loc) (f : Bool) (hx : ∀ x ∈ xs, x.isJoined = false) :
    racc.length ≤ (pushAllD d racc xs f).length ∧ (pushAllD d racc xs f).length ≤ racc.length + xs.length ∧
      (xs ≠ [] → pushAllD d racc xs f ≠ []) := by
  induction xs generalizing racc with
  | nil => simp [pushAllD]
  | cons x xs ih =>
    have h1 := pushD_length d racc x f (hx x (by simp))
    have h2 := ih (pushD d racc x f) (fun y hy => hx y (by simp [hy]))
    simp only [pushAllD, List.foldl_cons] at h2 ⊢
    refine ⟨by omega, by simp only [List.length_cons]; omega, fun _ => ?_⟩
    intro e
    have h3 := h2.1
    rw [e] at h3
    have h4 := h1.2.2
    cases hp : pushD d racc x f with
    | nil => exact h4 hp
    | cons a as => rw [hp] at h3; simp at h3

/-! ### `sortLocs` is a permutation -/

theorem insR_perm (x : Loc) (r : List Loc) : (insR x r).Perm (x :: r) := by
  induction r with
  | nil => simp [insR]
  | cons y r ih =>
    simp only [insR]
    split
    · exact (List.Perm.cons y ih).trans (List.Perm.swap x y r)
    · exact List.Perm.refl _

theorem sortFold_perm (l r : List Loc) : (l.foldl (fun rpre x => insR x rpre) r).Perm (l ++ r) := by
  induction l generalizing r with
  | nil => simp
  | cons x xs ih =>
    simp only [List.foldl_cons, List.cons_append]
    exact (ih (insR x r)).trans ((List.Perm.append_left xs (insR_perm x r)).trans List.perm_middle)

theorem sortLocs_perm (l : List Loc) : (sortLocs l).Perm l := by
  simp only [sortLocs]
  exact (List.reverse_perm _).trans (by simpa using sortFold_perm l [])

theorem sortLocs_length (l : List Loc) : (sortLocs l).length = l.length := (sortLocs_perm l).length_eq

/-! ### the locations of a class -/

theorem classLocs_eq_map (t : Table) (idx : List Nat) (h : ∀ i ∈ idx, i < t.length) :
    classLocs t idx = idx.map fun i => (t[i]?.map (·.loc)).getD default := by
  induction idx with
  | nil => rfl
  | cons i is ih =>
    simp only [classLocs, List.filterMap_cons, List.map_cons] at ih ⊢
    rw [List.getElem?_eq_getElem (h i (by simp))]
    simp only [Option.map_some, Option.getD_some]
    rw [ih fun j hj => h j (by simp [hj])]

theorem classLocs_length (t : Table) (idx : List Nat) (h : ∀ i ∈ idx, i < t.length) :
    (classLocs t idx).length = idx.length := by
  rw [classLocs_eq_map t idx h]; simp

theorem mem_classLocs (t : Table) (idx : List Nat) (l : Loc) (h : l ∈ classLocs t idx) :
    ∃ i ∈ idx, ∃ f, t[i]? = some f ∧ f.loc = l := by
  simp only [classLocs, List.mem_filterMap, Option.map_eq_some_iff] at h
  obtain ⟨i, hi, f, hf, rfl⟩ := h
  exact ⟨i, hi, f, hf, rfl⟩

theorem groups_lt (t : Table) (idx : List Nat) (h : idx ∈ Table.groups t) : ∀ i ∈ idx, i < t.length :=
  fun i hi => (Table.mem_groups_flatten t i).mp (List.mem_flatten.mpr ⟨idx, h, hi⟩)

/-- a class without a `Joined` member: the pushed list is non-empty and not longer than the class -/
theorem classP_of_no_join (t : Table) (idx : List Nat) (hidx : idx ∈ Table.groups t)
    (h : ∀ l ∈ classLocs t idx, l.isJoined = false) :
    classP t idx ≠ [] ∧ (classP t idx).length ≤ idx.length := by
  have hlt := groups_lt t idx hidx
  have hne := Table.groups_ne_nil t idx hidx
  have hj : ∀ x ∈ sortLocs (classLocs t idx), x.isJoined = false :=
    fun x hx => h x ((sortLocs_perm _).mem_iff.mp hx)
  have hl := pushAllD_length pushFuel (sortLocs (classLocs t idx)) [] (classForce t idx) hj
  have hlen : (sortLocs (classLocs t idx)).length = idx.length := by
    rw [sortLocs_length, classLocs_length t idx hlt]
  simp only [classP, pushedOf, pushAll, ne_eq, List.reverse_eq_nil_iff, List.length_reverse]
  refine ⟨hl.2.2 ?_, by simpa [hlen] using hl.2.1⟩
  intro e
  rw [e] at hlen
  cases idx with
  | nil => exact hne rfl
  | cons a as => simp at hlen

end Gts
